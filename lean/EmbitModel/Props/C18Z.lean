import EmbitModel.Props.C18X
/-
  C18 (round 5, audit2 items B-4, A-4, D-1/D53): version-0 PSETs after the repairs `fixes/d53.diff` (the scopes keep the
  peg-in flag, the issuance and the output nonce of the global transaction they are created from) and `fixes/b4.diff`
  (a global transaction that carries any witness is refused). The statements below need NO `D53Free`: the only
  remaining side condition on an input scope is that it does not carry PSETv2 issuance fields of its own
  (`pset 00` / `pset 01`), which by design take precedence over the transaction's issuance.
-/
set_option linter.unusedSimpArgs false
set_option linter.unusedVariables false
namespace Embit.Props.C18Z
open Embit Embit.Model Embit.Spec.LWire Embit.Props.C18X

/-- B-4: a global transaction that carries a witness (proofs, script or peg-in witness of an input, proofs of an
    output) is refused by the global scope of `PSET.read_from`, whatever follows -/
theorem pset_v0_signed_refused (t : LTx) (hwf : WF t) (hw : LTx.hasWitness t = true)
    (ver : Option Nat) (unk rest : List KV) :
    lglobalFold none ver unk (([0x00], LTx.ser t) :: rest) = none := by
  have h1 := LTx.parse_ser t hwf
  simp [lglobalFold, h1, hw]

/-- D53 repaired, input scope: whatever the input of the global transaction carries (issuance, peg-in flag), the input
    rebuilt from the scope read on top of its seed IS that input — provided it is unsigned (which `read_from` checks)
    and the scope has no issuance fields of its own -/
theorem pset_v0_input_kept (ko : KeyOps) (t : LTx) (j : Nat) (hj : j < t.vin.length) (kvs : List KV) (s : LInScope)
    (h : LInScope.addPairs ko (lseedIn (some t) j) kvs = some s)
    (hu : t.vin[j].scriptSig = []) (hw : t.vin[j].witness = {})
    (hk : ∀ kv ∈ kvs, kv.1 ≠ LInField.key .issueValue ∧ kv.1 ≠ LInField.key .issueCommitment) :
    s.vin = some t.vin[j] := by
  have hseed : InSeeded (lseedIn (some t) j).base := by
    simp [lseedIn, List.getElem?_eq_getElem hj, InSeeded]
  obtain ⟨⟨e1, e2, e3⟩, hl⟩ := LInScope.addPairs_facts ko kvs _ s hseed h
  have l1 := hl .issueValue (by simp [lseedIn, List.getElem?_eq_getElem hj, lget]) (fun kv hkv => (hk kv hkv).1)
  have l2 := hl .issueCommitment (by simp [lseedIn, List.getElem?_eq_getElem hj, lget]) (fun kv hkv => (hk kv hkv).2)
  simp [lseedIn, List.getElem?_eq_getElem hj] at e1 e2 e3
  have hai : s.assetIssuance = none := by
    simp [LInScope.assetIssuance, LInScope.geti, l1, l2, truthyN, truthyB]
  obtain ⟨p1, p2⟩ := LInScope.addPairs_txparts ko kvs _ s h
  simp [lseedIn, List.getElem?_eq_getElem hj] at p1 p2
  simp only [LInScope.vin, LInScope.issuance, e1, e2, e3, hai, p1, p2, Option.getD_some]
  cases hh : t.vin[j] with
  | mk a1 a2 a3 a4 a5 a6 a7 =>
    simp [hh] at hu hw ⊢
    simp_all

/-- D53 repaired, output scope: the output rebuilt from the scope IS the output of the global transaction, nonce
    included (no condition on the nonce any more) -/
theorem pset_v0_output_kept (ko : KeyOps) (t : LTx) (j : Nat) (hj : j < t.vout.length) (kvs : List KV) (s : LOutScope)
    (h : LOutScope.addPairs ko (lseedOut (some t) j) kvs = some s)
    (hne : ∀ kv ∈ kvs, kv.1 ≠ [])
    (hwa : WFAsset t.vout[j].asset) (hw : t.vout[j].witness = {}) :
    s.vout = some t.vout[j] := by
  cases hv : t.vout[j].value with
  | explicit v =>
    have hseed : LOutSeededG (lseedOut (some t) j) := by
      simp [lseedOut, List.getElem?_eq_getElem hj, hv, LOutSeededG, lget]
    obtain ⟨_, _, e0, e⟩ := LOutScope.addPairs_losslessG ko none kvs _ s (Or.inr hseed) hne h
    obtain ⟨e1, e2, e3⟩ := e hseed
    simp [lseedOut, List.getElem?_eq_getElem hj, hv, lget] at e0 e1 e2 e3
    have ht := WFAsset_truthy _ hwa
    have q := LOutScope.addPairs_txparts ko kvs _ s h
    simp [lseedOut, List.getElem?_eq_getElem hj, hv] at q
    simp only [LOutScope.vout, LOutScope.get, e0, e1, e2, e3, ht, if_true, WFAsset_norm _ hwa, q]
    cases hh : t.vout[j] with
    | mk a1 a2 a3 a4 a5 =>
      simp [hh] at hv hw ⊢
      simp_all
  | conf c =>
    have hseed : LOutSeededG (lseedOut (some t) j) := by
      simp [lseedOut, List.getElem?_eq_getElem hj, hv, LOutSeededG, lget]
    obtain ⟨_, _, e0, e⟩ := LOutScope.addPairs_losslessG ko none kvs _ s (Or.inr hseed) hne h
    obtain ⟨e1, e2, e3⟩ := e hseed
    simp [lseedOut, List.getElem?_eq_getElem hj, hv, lget] at e0 e1 e2 e3
    have ht := WFAsset_truthy _ hwa
    have q := LOutScope.addPairs_txparts ko kvs _ s h
    simp [lseedOut, List.getElem?_eq_getElem hj, hv] at q
    simp only [LOutScope.vout, LOutScope.get, e0, e1, e2, e3, ht, if_true, WFAsset_norm _ hwa, q]
    cases hh : t.vout[j] with
    | mk a1 a2 a3 a4 a5 =>
      simp [hh] at hv hw ⊢
      simp_all

/-! the former D53 witness, now positive: the peg-in PSET of C18X, and a PSET whose global transaction has an issuance
    and a confidential output with a nonce — the transaction rebuilt from the scopes IS the global transaction and the
    PSET re-serialises to the same bytes -/

set_option maxRecDepth 100000 in
theorem pset_v0_pegin_kept :
    (LPset.parse trivialKo peginPset).bind LPset.tx = some peginTx
    ∧ (LPset.parse trivialKo peginPset).bind LPset.ser = some peginPset := by
  decide +kernel

def issuanceTx : LTx :=
  { version := 2, locktime := 0,
    vin := [{ txid := List.replicate 32 7, vout := 1, scriptSig := [], sequence := 0xfffffffd, isPegin := true,
              issuance := some { nonce := List.replicate 32 0, entropy := List.replicate 32 5,
                                 amount := .explicit 5000, token := .null } }],
    vout := [{ asset := 0x0a :: List.replicate 32 4, value := .conf (0x08 :: List.replicate 32 3),
               nonce := some (0x02 :: List.replicate 32 9), spk := [0x51] }] }

def issuancePset : Bytes := psetMagic ++ writeKVs [([0x00], LTx.ser issuanceTx)] ++ writeKVs [] ++ writeKVs []

set_option maxRecDepth 100000 in
theorem pset_v0_issuance_nonce_kept :
    (LPset.parse trivialKo issuancePset).bind LPset.tx = some issuanceTx
    ∧ (LPset.parse trivialKo issuancePset).bind LPset.ser = some issuancePset
    ∧ D53Free issuanceTx [[]] = false := by
  decide +kernel

/-- B-4, concrete: the same PSET with a script witness on the input is refused -/
def signedTx : LTx :=
  { peginTx with vin := [{ txid := List.replicate 32 7, vout := 1, scriptSig := [], sequence := 0xfffffffd,
                           witness := { scriptWitness := [[1, 2]] } }] }

set_option maxRecDepth 100000 in
theorem pset_v0_signed_refused_example :
    LPset.parse trivialKo (psetMagic ++ writeKVs [([0x00], LTx.ser signedTx)] ++ writeKVs [] ++ writeKVs []) = none
    ∧ LTx.hasWitness signedTx = true := by
  decide +kernel

-- GOAL (not proved): pset_v0_parse_lossless_full — `LPset.parse ko b = some p`, version ≠ 2, no input scope with
--   `pset 00/01` ⇒ `p.tx = some t` for the global transaction t, and the PSET re-serialises with every global pair
--   (composition of `pset_v0_input_kept` / `pset_v0_output_kept` over `LPset.parse_decomp`, as `LPset.tx_of_v0` does
--   under `D53Free`; needs `hasWitness t = false` carried out of `lglobalFold`).
-- GOAL (not proved): pset_v0_parse_wf — every parsed version-0 PSET satisfies a well-formedness from which
--   serialise-then-parse follows (`LPsetWF0` now demands empty kept transaction parts, see Proofs/PsetSerParse.lean).

end Embit.Props.C18Z
