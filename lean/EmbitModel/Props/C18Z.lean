import EmbitModel.Props.C18X
import EmbitModel.Proofs.PsetV0Whole
import EmbitModel.Proofs.PsetV0ParseWF
/-
  C18 (round 5, audit2 items B-4, A-4, D-1/D53): version-0 PSETs after the repairs `fixes/d53.diff` (the scopes keep the
  peg-in flag, the issuance and the output nonce of the global transaction they are created from) and `fixes/b4.diff`
  (a global transaction that carries any witness is refused). The statements below need NO `D53Free`: the only
  remaining side condition on an input scope is that it does not carry PSETv2 issuance fields of its own
  (`pset 00` / `pset 01`), which by design take precedence over the transaction's issuance.
-/
set_option linter.unusedSimpArgs false
set_option linter.unusedVariables false
namespace Embit.Props.C18Z
open Embit Embit.Model Embit.Spec.LWire Embit.Props.C18X

/-- B-4: a global transaction that carries a witness (proofs, script or peg-in witness of an input, proofs of an
    output) is refused by the global scope of `PSET.read_from`, whatever follows -/
theorem pset_v0_signed_refused (t : LTx) (hwf : WF t) (hw : LTx.hasWitness t = true)
    (ver : Option Nat) (unk rest : List KV) :
    lglobalFold none ver unk (([0x00], LTx.ser t) :: rest) = none := by
  have h1 := LTx.parse_ser t hwf
  simp [lglobalFold, h1, hw]

/-- D53 repaired, input scope: whatever the input of the global transaction carries (issuance, peg-in flag), the input
    rebuilt from the scope read on top of its seed IS that input — provided it is unsigned (which `read_from` checks)
    and the scope has no issuance fields of its own -/
theorem pset_v0_input_kept (ko : KeyOps) (t : LTx) (j : Nat) (hj : j < t.vin.length) (kvs : List KV) (s : LInScope)
    (h : LInScope.addPairs ko (lseedIn (some t) j) kvs = some s)
    (hu : t.vin[j].scriptSig = []) (hw : t.vin[j].witness = {})
    (hk : ∀ kv ∈ kvs, kv.1 ≠ LInField.key .issueValue ∧ kv.1 ≠ LInField.key .issueCommitment) :
    s.vin = some t.vin[j] := by
  have hseed : InSeeded (lseedIn (some t) j).base := by
    simp [lseedIn, List.getElem?_eq_getElem hj, InSeeded]
  obtain ⟨⟨e1, e2, e3⟩, hl⟩ := LInScope.addPairs_facts ko kvs _ s hseed h
  have l1 := hl .issueValue (by simp [lseedIn, List.getElem?_eq_getElem hj, lget]) (fun kv hkv => (hk kv hkv).1)
  have l2 := hl .issueCommitment (by simp [lseedIn, List.getElem?_eq_getElem hj, lget]) (fun kv hkv => (hk kv hkv).2)
  simp [lseedIn, List.getElem?_eq_getElem hj] at e1 e2 e3
  have hai : s.assetIssuance = none := by
    simp [LInScope.assetIssuance, LInScope.geti, l1, l2, truthyN, truthyB]
  obtain ⟨p1, p2⟩ := LInScope.addPairs_txparts ko kvs _ s h
  simp [lseedIn, List.getElem?_eq_getElem hj] at p1 p2
  simp only [LInScope.vin, LInScope.issuance, e1, e2, e3, hai, p1, p2, Option.getD_some]
  cases hh : t.vin[j] with
  | mk a1 a2 a3 a4 a5 a6 a7 =>
    simp [hh] at hu hw ⊢
    simp_all

/-- D53 repaired, output scope: the output rebuilt from the scope IS the output of the global transaction, nonce
    included (no condition on the nonce any more) -/
theorem pset_v0_output_kept (ko : KeyOps) (t : LTx) (j : Nat) (hj : j < t.vout.length) (kvs : List KV) (s : LOutScope)
    (h : LOutScope.addPairs ko (lseedOut (some t) j) kvs = some s)
    (hne : ∀ kv ∈ kvs, kv.1 ≠ [])
    (hwa : WFAsset t.vout[j].asset) (hw : t.vout[j].witness = {}) :
    s.vout = some t.vout[j] := by
  cases hv : t.vout[j].value with
  | explicit v =>
    have hseed : LOutSeededG (lseedOut (some t) j) := by
      simp [lseedOut, List.getElem?_eq_getElem hj, hv, LOutSeededG, lget]
    obtain ⟨_, _, e0, e⟩ := LOutScope.addPairs_losslessG ko none kvs _ s (Or.inr hseed) hne h
    obtain ⟨e1, e2, e3⟩ := e hseed
    simp [lseedOut, List.getElem?_eq_getElem hj, hv, lget] at e0 e1 e2 e3
    have ht := WFAsset_truthy _ hwa
    have q := LOutScope.addPairs_txparts ko kvs _ s h
    simp [lseedOut, List.getElem?_eq_getElem hj, hv] at q
    simp only [LOutScope.vout, LOutScope.get, e0, e1, e2, e3, ht, if_true, WFAsset_norm _ hwa, q]
    cases hh : t.vout[j] with
    | mk a1 a2 a3 a4 a5 =>
      simp [hh] at hv hw ⊢
      simp_all
  | conf c =>
    have hseed : LOutSeededG (lseedOut (some t) j) := by
      simp [lseedOut, List.getElem?_eq_getElem hj, hv, LOutSeededG, lget]
    obtain ⟨_, _, e0, e⟩ := LOutScope.addPairs_losslessG ko none kvs _ s (Or.inr hseed) hne h
    obtain ⟨e1, e2, e3⟩ := e hseed
    simp [lseedOut, List.getElem?_eq_getElem hj, hv, lget] at e0 e1 e2 e3
    have ht := WFAsset_truthy _ hwa
    have q := LOutScope.addPairs_txparts ko kvs _ s h
    simp [lseedOut, List.getElem?_eq_getElem hj, hv] at q
    simp only [LOutScope.vout, LOutScope.get, e0, e1, e2, e3, ht, if_true, WFAsset_norm _ hwa, q]
    cases hh : t.vout[j] with
    | mk a1 a2 a3 a4 a5 =>
      simp [hh] at hv hw ⊢
      simp_all

/-! the former D53 witness, now positive: the peg-in PSET of C18X, and a PSET whose global transaction has an issuance
    and a confidential output with a nonce — the transaction rebuilt from the scopes IS the global transaction and the
    PSET re-serialises to the same bytes -/

set_option maxRecDepth 100000 in
theorem pset_v0_pegin_kept :
    (LPset.parse trivialKo peginPset).bind LPset.tx = some peginTx
    ∧ (LPset.parse trivialKo peginPset).bind LPset.ser = some peginPset := by
  decide +kernel

def issuanceTx : LTx :=
  { version := 2, locktime := 0,
    vin := [{ txid := List.replicate 32 7, vout := 1, scriptSig := [], sequence := 0xfffffffd, isPegin := true,
              issuance := some { nonce := List.replicate 32 0, entropy := List.replicate 32 5,
                                 amount := .explicit 5000, token := .null } }],
    vout := [{ asset := 0x0a :: List.replicate 32 4, value := .conf (0x08 :: List.replicate 32 3),
               nonce := some (0x02 :: List.replicate 32 9), spk := [0x51] }] }

def issuancePset : Bytes := psetMagic ++ writeKVs [([0x00], LTx.ser issuanceTx)] ++ writeKVs [] ++ writeKVs []

set_option maxRecDepth 100000 in
theorem pset_v0_issuance_nonce_kept :
    (LPset.parse trivialKo issuancePset).bind LPset.tx = some issuanceTx
    ∧ (LPset.parse trivialKo issuancePset).bind LPset.ser = some issuancePset
    ∧ D53Free issuanceTx [[]] = false := by
  decide +kernel

/-- B-4, concrete: the same PSET with a script witness on the input is refused -/
def signedTx : LTx :=
  { peginTx with vin := [{ txid := List.replicate 32 7, vout := 1, scriptSig := [], sequence := 0xfffffffd,
                           witness := { scriptWitness := [[1, 2]] } }] }

set_option maxRecDepth 100000 in
theorem pset_v0_signed_refused_example :
    LPset.parse trivialKo (psetMagic ++ writeKVs [([0x00], LTx.ser signedTx)] ++ writeKVs [] ++ writeKVs []) = none
    ∧ LTx.hasWitness signedTx = true := by
  decide +kernel

/-! ## whole version-0 PSETs (round 6): the statements of C18X that carried `D53Free`, without it -/

/-- MAIN (replaces the version-0 clause of `C18X.pset_parse_lossless`). Whatever `PSET.parse` accepts is the canonical
    framing of a global scope `g`, input scopes `ins`, output scopes `outs`; counts are kept; every scope writes back a
    permutation of the pairs read for it (as in `C18X.pset_parse_lossless`); version 2: every global pair is written
    back; version 0: the global scope contains the pair of a well-formed transaction `t` that is unsigned (empty
    scriptSigs) and carries no witness (fix `b4`), there is one scope per input / output of `t`, every global pair but
    the transaction is written back whenever the global scope can be written, and — if no input scope holds the PSETv2
    issuance fields `pset 00/01` (`NoOwnIssuance`, decidable; these take precedence by design) — the transaction rebuilt
    from the scopes IS `t`, WHATEVER issuance, peg-in flag or output nonce `t` carries (fix `d53`), it serialises, and all
    global pairs including the transaction are written back bit-identically. -/
theorem pset_v0_parse_lossless_full (ko : KeyOps) (b : Bytes) (p : LPset) (h : LPset.parse ko b = some p) :
    ∃ (g : List KV) (ins outs : List (List KV)),
      b = psetMagic ++ writeKVs g ++ ins.flatMap writeKVs ++ outs.flatMap writeKVs
      ∧ (∀ kv ∈ g, KVWF kv) ∧ (∀ kvs ∈ ins, ∀ kv ∈ kvs, KVWF kv) ∧ (∀ kvs ∈ outs, ∀ kv ∈ kvs, KVWF kv)
      ∧ ins.length = p.inputs.length ∧ outs.length = p.outputs.length
      ∧ (∀ (j : Nat) (kvs : List KV) (s : LInScope), ins[j]? = some kvs → p.inputs[j]? = some s →
            (∀ kv ∈ kvs, kv ∈ s.pairs p.version) ∧ kvs.Perm (s.pairs p.version)
            ∧ ((s.pairs p.version).map Prod.fst).Nodup)
      ∧ (∀ (j : Nat) (kvs : List KV) (s : LOutScope), outs[j]? = some kvs → p.outputs[j]? = some s →
            s.pairs p.version = some (s.pairsL p.version)
            ∧ (∀ kv ∈ kvs, (LOutField.canonKey p.version kv.1, kv.2) ∈ s.pairsL p.version)
            ∧ (kvs.map (fun kv => (LOutField.canonKey p.version kv.1, kv.2))).Perm (s.pairsL p.version)
            ∧ ((s.pairsL p.version).map Prod.fst).Nodup)
      ∧ (p.version = some 2 → (∀ kv ∈ g, kv.1 ≠ [0x00]) ∧ ∃ gp, p.globalPairs = some gp ∧ ∀ kv ∈ g, kv ∈ gp)
      ∧ (p.version ≠ some 2 → ∃ t, ([0x00], LTx.ser t) ∈ g ∧ WF t ∧ LUnsigned t ∧ LTx.hasWitness t = false
            ∧ p.inputs.length = t.vin.length ∧ p.outputs.length = t.vout.length
            ∧ (∀ gp, p.globalPairs = some gp → ∀ kv ∈ g, kv.1 ≠ [0x00] → kv ∈ gp)
            ∧ (NoOwnIssuance ins = true → p.tx = some t ∧ LTx.serOpt t = some (LTx.ser t)
                 ∧ ∃ gp, p.globalPairs = some gp ∧ ∀ kv ∈ g, kv ∈ gp)) :=
  LPset.parse_lossless_kept ko b p h

/-- consequence (replaces `C18X.pset_v0_reserialise_partial`): a parsed version-0 PSET whose input scopes hold no
    `pset 00/01` field rebuilds its global transaction and re-serialises: global scope with every original pair (the
    transaction pair bit-identical), then one written scope per original scope -/
theorem pset_v0_reserialise (ko : KeyOps) (b : Bytes) (p : LPset) (h : LPset.parse ko b = some p)
    (hv : p.version ≠ some 2) :
    ∃ (g : List KV) (ins outs : List (List KV)) (t : LTx),
      b = psetMagic ++ writeKVs g ++ ins.flatMap writeKVs ++ outs.flatMap writeKVs
      ∧ ([0x00], LTx.ser t) ∈ g ∧ LTx.hasWitness t = false
      ∧ ins.length = p.inputs.length ∧ outs.length = p.outputs.length
      ∧ (NoOwnIssuance ins = true → p.tx = some t ∧ ∃ gp,
          LPset.ser p = some (psetMagic ++ writeKVs gp
            ++ p.inputs.flatMap (fun s => writeKVs (s.pairs p.version))
            ++ p.outputs.flatMap (fun s => writeKVs (s.pairsL p.version)))
          ∧ (∀ kv ∈ g, kv ∈ gp)) := by
  obtain ⟨g, ins, outs, eb, _, _, _, l1, l2, _, fo, _, g0⟩ := pset_v0_parse_lossless_full ko b p h
  obtain ⟨t, hm, _, _, hnw, _, _, _, hfree⟩ := g0 hv
  refine ⟨g, ins, outs, t, eb, hm, hnw, l1, l2, ?_⟩
  intro hf
  obtain ⟨htx, _, gp, hgp, hall⟩ := hfree hf
  refine ⟨htx, gp, LPset.ser_of_globalPairs p gp hgp ?_, hall⟩
  intro s hs
  obtain ⟨j, hj⟩ := List.mem_iff_getElem?.mp hs
  have hjl : j < outs.length := by rw [l2]; exact (List.getElem?_eq_some_iff.mp hj).1
  exact (fo j outs[j] s (List.getElem?_eq_getElem hjl) hj).1

/-- the new side condition is strictly weaker than the old one -/
theorem noOwnIssuance_of_D53Free (t : LTx) (ins : List (List KV)) (h : D53Free t ins = true) :
    NoOwnIssuance ins = true := by
  simp only [D53Free, Bool.and_eq_true] at h
  exact h.2

/-! non-vacuity: the issuance / peg-in / nonce transaction above with NON-EMPTY scopes (a liquid value and an unknown
    proprietary key on the input, a blinding key on the output): parsed, the transaction is kept, the bytes come back,
    `NoOwnIssuance` holds and `D53Free` does not -/

def issuanceIn : List KV := [(psetTag ++ [0x7f], [1]), (LInField.key .value, leN 8 7)]
def issuanceOut : List KV := [(LOutField.key false .blindingPubkey, [2, 3])]

def issuancePsetFull : Bytes :=
  psetMagic ++ writeKVs [([0x00], LTx.ser issuanceTx)] ++ writeKVs issuanceIn ++ writeKVs issuanceOut

set_option maxRecDepth 100000 in
theorem pset_v0_issuance_scopes_kept :
    (LPset.parse trivialKo issuancePsetFull).bind LPset.tx = some issuanceTx
    ∧ (LPset.parse trivialKo issuancePsetFull).bind LPset.ser = some issuancePsetFull
    ∧ (LPset.parse trivialKo issuancePsetFull).map (·.version) = some none
    ∧ NoOwnIssuance [issuanceIn] = true ∧ D53Free issuanceTx [issuanceIn] = false := by
  decide +kernel

/-- and the side condition is needed: an input scope that holds `pset 00` (issuance value 9) overrides the issuance of
    the global transaction — the rebuilt transaction differs from it (by design precedence, tallied by the harness) -/
def ownIssuancePset : Bytes :=
  psetMagic ++ writeKVs [([0x00], LTx.ser issuanceTx)] ++ writeKVs [(LInField.key .issueValue, leN 8 9)] ++ writeKVs []

set_option maxRecDepth 100000 in
theorem pset_v0_own_issuance_overrides :
    ((LPset.parse trivialKo ownIssuancePset).bind LPset.tx).isSome = true
    ∧ (LPset.parse trivialKo ownIssuancePset).bind LPset.tx ≠ some issuanceTx
    ∧ NoOwnIssuance [[(LInField.key .issueValue, leN 8 9)]] = false := by
  decide +kernel

/-! ## serialise-then-parse and well-formedness of version-0 objects that keep transaction parts (round 6) -/

/-- input scope with kept parts (peg-in flag, issuance of the global transaction): for a scope that is well-formed once
    these parts are cleared (`LInWF ko s.clr` — `LInWF` itself demands empty kept parts) the pairs written fold back
    to the scope from the seed `read_from` really starts with, kept parts included (`seedOfK`); generalises
    `C18X.input_scope_ser_parse` -/
theorem input_scope_ser_parse_kept (ko : KeyOps) (ver : Option Nat) (s : LInScope) (h : LInWF ko s.clr) (r : Bytes) :
    readKVs (writeKVs (s.pairs ver) ++ r) = some (s.pairs ver, r)
    ∧ LInScope.addPairs ko (LInScope.seedOfK ver s) (s.pairs ver) = some s.norm :=
  ⟨readKVs_write _ r (LInScope.pairs_wf ko ver s.clr h), LInScope.addPairs_pairsK ko ver s h⟩

/-- version-0 output scope that keeps the nonce of the global transaction's output; generalises
    `C18X.output_scope_ser_parse_v0` -/
theorem output_scope_ser_parse_v0_kept (ko : KeyOps) (ver : Option Nat) (hv : ver ≠ some 2) (s : LOutScope)
    (h : LOutWF0 ko s.clr) (r : Bytes) :
    s.pairs ver = some (s.pairsL ver)
    ∧ readKVs (writeKVs (s.pairsL ver) ++ r) = some (s.pairsL ver, r)
    ∧ LOutScope.addPairs ko s.seedOf0K (s.pairsL ver) = some s.norm :=
  ⟨by simp [LOutScope.pairs_eq, hv], readKVs_write _ r (LOutScope.pairsL_wf0 ko ver s.clr h),
   LOutScope.addPairs_pairs0K ko ver hv s h⟩

/-- MAIN, version 0 with kept parts (generalises `C18X.pset_v0_ser_parse`, whose `LPsetWF0` admits only scopes WITHOUT
    kept transaction parts): a well-formed version-0 object — `LPsetWF0K`: it carries its transaction, its scopes are
    well-formed once the kept parts are cleared, and the seeds derived from its transaction (kept parts included) are
    the seeds of its scopes — serialises, and parsing the bytes gives the object back -/
theorem pset_v0_ser_parse_kept (ko : KeyOps) (p : LPset) (h : LPsetWF0K ko p) :
    ∃ b, LPset.ser p = some b ∧ LPset.parse ko b = some p.norm :=
  LPset.parse_ser_v0K ko p h

/-- the old well-formedness is the special case "no kept parts" -/
theorem psetWF0K_of_WF0 (ko : KeyOps) (p : LPset) (h : LPsetWF0 ko p) : LPsetWF0K ko p := by
  obtain ⟨t, a1, a2, a3, a4, a5, a6, a7⟩ := h.tx
  have ci : ∀ s ∈ p.inputs, s.clr = s := by
    intro s hs
    obtain ⟨e1, e2⟩ := (h.ins s hs).txparts
    cases s with
    | mk b n w lf ip ti => simp only at e1 e2; subst e1; subst e2; rfl
  have co : ∀ s ∈ p.outputs, s.clr = s := by
    intro s hs
    have e := (h.outs s hs).txNonce
    cases s with
    | mk b vc lf tn => simp only at e; subst e; rfl
  refine ⟨h.version, h.versionLt, h.xpubs, h.xpubsNodup, h.unknown, h.unknownNodup,
    fun s hs => by rw [ci s hs]; exact h.ins s hs, fun s hs => by rw [co s hs]; exact h.outs s hs,
    t, a1, a2, a3, a4, a5, ?_, ?_⟩
  · intro j s hj
    have hs := List.mem_of_getElem? hj
    obtain ⟨e1, e2⟩ := (h.ins s hs).txparts
    rw [a6 j s hj, LInScope.seedOfK, e1, e2]
    unfold LInScope.seedOf LInScope.withParts
    split <;> rfl
  · intro j s hj
    have hs := List.mem_of_getElem? hj
    rw [a7 j s hj, LOutScope.seedOf0K, (h.outs s hs).txNonce]
    rfl

/-- MAIN (the former GOAL `pset_v0_parse_wf`): every version-0 PSET that `PSET.parse` returns and whose input scopes build
    no issuance from fields of their own (`LPset.noOwnIssuance`, decidable on the object: `LInputScope.asset_issuance`
    computed from the scope's `pset` fields alone is None — in particular every PSET without `pset 00/01` input fields)
    is well-formed in the sense `LPsetWF0K`. The condition cannot be dropped (a scope's own, now always well-formed, issuance replaces that of the global
    transaction: `pset_v0_own_issuance_overrides`). -/
theorem pset_v0_parse_wf (ko : KeyOps) (b : Bytes) (p : LPset) (h : LPset.parse ko b = some p)
    (hv : p.version ≠ some 2) (hfree : p.noOwnIssuance = true) : LPsetWF0K ko p :=
  LPset.parse_wf_v0 ko b p h hv hfree

/-- hence parse ∘ serialise ∘ parse = norm ∘ parse on such version-0 PSETs, whatever issuance / peg-in flag / nonce the
    global transaction carries: what was accepted re-serialises, the bytes parse to the same object (liquid tables in
    `write_to` order), and the bytes written are a fixed point -/
theorem pset_v0_parse_ser_parse (ko : KeyOps) (b : Bytes) (p : LPset) (h : LPset.parse ko b = some p)
    (hv : p.version ≠ some 2) (hfree : p.noOwnIssuance = true) :
    ∃ b', LPset.ser p = some b' ∧ LPset.parse ko b' = some p.norm :=
  LPset.parse_ser_parse_v0 ko b p h hv hfree

set_option maxRecDepth 100000 in
/-- non-vacuity: the issuance / peg-in / nonce PSET with non-empty scopes above satisfies the hypotheses -/
example : (LPset.parse trivialKo issuancePsetFull).map (fun p => (p.noOwnIssuance, decide (p.version ≠ some 2)))
    = some (true, true) := by decide +kernel

/-- finding C18-KF1 (FIXED by `fixes/c18-kf1.diff`), on the model: with `pset 01` (own issuance commitment) and a token
    commitment of 5 bytes in an input scope. Before the fix the PSET was accepted and serialised, and the bytes written
    were refused (theorem `pset_v0_own_issuance_unparseable` of round 6, no longer true of the fixed code and replaced by
    the statement below: the input is refused at parse time). General statements: `Props/C18W.lean`. -/
def malformedOwnPset : Bytes :=
  psetMagic ++ writeKVs [([0x00], LTx.ser peginTx)]
    ++ writeKVs [(LInField.key .issueCommitment, 0x08 :: List.replicate 32 6), (LInField.key .tokenCommitment, [1, 2, 3, 4, 5])]
    ++ writeKVs []

set_option maxRecDepth 100000 in
theorem pset_v0_own_issuance_malformed_refused : LPset.parse trivialKo malformedOwnPset = none := by
  decide +kernel

end Embit.Props.C18Z
