import EmbitModel.Props.C17
import EmbitModel.Proofs.CostDesc
import EmbitModel.Proofs.CostB58
import EmbitModel.Proofs.CostBech32
import EmbitModel.Proofs.CostMnemonic
import EmbitModel.Proofs.CostLiquid
import EmbitModel.Proofs.CostKeys
import EmbitModel.Model.DescKeys
import EmbitModel.Proofs.KeyToyCurve
/-
  C17, second part — the text parsers, the Liquid parsers and the key parsers.

  1. Descriptor / miniscript / taptree (`Model/Descriptor.lean`, the character-level model that C12 ties to embit):
     the VALUE does not depend on the fuel above `|text|` (`*_total` — by itself NOT a termination statement: a parser
     spinning until the fuel is gone satisfies it too; what excludes spinning is the step bound below, which holds for
     EVERY fuel, and `Props/C17Z.lean`, where the three-valued parsers are proved never to answer "out of fuel"),
     steps ≤ 8·|text| + 22 and recursion depth ≤ |text| + 1, where steps / depth are the cost
     companions of `Model/Cost.lean` (stream method calls + calls of the recursive `read_from`s; checked on every run
     against a counting `BytesIO` and wrapped `read_from`s on the real code, op `c17.desc`).
     Hypothesis `NoEmptyKey ops`: the key decoder refuses the empty text — without it the argument loop of `multi(…)`
     does not end (witness `multi_loop_needs_key_check`).
  2. Base58: decode ≤ (|s|+1)² steps and ≤ |s| bytes; encode ≤ 2(|b|+2)² steps and ≤ 2|b| characters (one step per
     byte of the big integer touched). bech32 / blech32 `convertbits`: output·tobits ≤ input·frombits + tobits (the
     inner `while` appends one element per round); `bech32_decode` sizes; `address_to_scriptpubkey` ≤ 34 bytes.
  3. BIP39: the bit-packing loop ends by itself, result ≤ 11 bits per word. SLIP39: exponent < 32, value ≤ 10 bits
     per word, `_crypt` calls PBKDF2 with `2500·2^e` iterations and nothing else, `interpolate` ≤ share length.
  4. Liquid: every element reader consumes ≥ 1 byte (so `C17.steps_le_input` / `output_le_input` apply),
     inputs + outputs ≤ |bytes|, PSET scopes ≤ |bytes|.
  5. Keys: SEC 33/65, secret 32, extended key 78 bytes, WIF payload 33/34: fixed sizes.
-/
set_option linter.unusedSimpArgs false
set_option linter.unusedVariables false
namespace Embit.Props.C17X
open Embit Embit.Model Embit.Model.Descriptor Embit.Model.Cost

variable {K : Type}

/-! ## 1. descriptor / miniscript / taptree -/

/-- **`Miniscript.read_from`: with more fuel than characters left, the fuel does not matter for the value** (that it
    is never used up: `C17Z.miniscript_never_out_of_fuel`) -/
theorem miniscript_read_total (ops : KeyOps K) (hW : NoEmptyKey ops) (tap : Bool) (f1 f2 : Nat) (s : Stream)
    (h1 : s.rest.length < f1) (h2 : s.rest.length < f2) : readMs ops tap f1 s = readMs ops tap f2 s :=
  readMs_fuel ops hW tap f1 f2 s h1 h2

/-- **`TapTree.read_from`: the same** (never used up: `C17Z.taptree_never_out_of_fuel`) -/
theorem taptree_read_total (ops : KeyOps K) (hW : NoEmptyKey ops) (f1 f2 : Nat) (s : Stream)
    (h1 : s.rest.length < f1) (h2 : s.rest.length < f2) : readTapTree ops f1 s = readTapTree ops f2 s :=
  readTapTree_fuel ops hW f1 f2 s h1 h2

/-- **`Descriptor.from_string`: the result does not depend on the fuel** once it exceeds `|text|` (the model,
    `Desc.parse`, uses `|text| + 1`). This is fuel-INDEPENDENCE of the value, not termination (audit2 A-3); that the
    fuel is never used up is `C17Z.descriptor_parse3_never_out_of_fuel` / `descriptor_rejection_is_not_fuel` -/
theorem descriptor_parse_total (ops : KeyOps K) (hW : NoEmptyKey ops) (text : Str) (fuel : Nat)
    (hf : text.length < fuel) :
    Desc.readFrom ops fuel (Stream.ofStr text) = Desc.readFrom ops (text.length + 1) (Stream.ofStr text) :=
  readFrom_fuel ops hW fuel (text.length + 1) (Stream.ofStr text) rfl hf (Nat.lt_succ_self _)

/-- **`Miniscript.read_from`: steps ≤ 8·|rest| + 8**; an accepted expression costs at most 8 steps per character it
    consumes, and consumes at least one -/
theorem miniscript_steps_linear (ops : KeyOps K) (hW : NoEmptyKey ops) (tap : Bool) (fuel : Nat) (s : Stream) :
    readMsCost stepsAlg ops tap fuel s ≤ 8 * s.rest.length + 8 ∧
    ∀ e s', readMs ops tap fuel s = some (e, s') →
      s'.rest.length + 1 ≤ s.rest.length ∧
      readMsCost stepsAlg ops tap fuel s + 8 * s'.rest.length ≤ 8 * s.rest.length :=
  readMs_steps ops hW tap fuel s

/-- **`TapTree.read_from`: steps ≤ 8·|rest| + 12** -/
theorem taptree_steps_linear (ops : KeyOps K) (hW : NoEmptyKey ops) (fuel : Nat) (s : Stream) :
    readTapTreeCost stepsAlg ops fuel s ≤ 8 * s.rest.length + 12 :=
  (readTapTree_steps ops hW fuel s).1

/-- **`Descriptor.from_string`: stream calls + calls of the recursive readers ≤ 8·|text| + 22** -/
theorem descriptor_steps_linear (ops : KeyOps K) (hW : NoEmptyKey ops) (text : Str) :
    parseCost stepsAlg ops text ≤ 8 * text.length + 22 :=
  parse_steps ops hW text

/-- **recursion depth of `Miniscript.read_from` ≤ |rest| + 1** -/
theorem miniscript_depth (ops : KeyOps K) (hW : NoEmptyKey ops) (tap : Bool) (fuel : Nat) (s : Stream) :
    readMsCost depthAlg ops tap fuel s ≤ s.rest.length + 1 :=
  readMs_depth ops hW tap fuel s

/-- **recursion depth of `TapTree.read_from` ≤ |rest| + 2** -/
theorem taptree_depth (ops : KeyOps K) (hW : NoEmptyKey ops) (fuel : Nat) (s : Stream) :
    readTapTreeCost depthAlg ops fuel s ≤ s.rest.length + 2 :=
  readTapTree_depth ops hW fuel s

/-- **recursion depth of `Descriptor.from_string` ≤ |text| + 1** -/
theorem descriptor_depth (ops : KeyOps K) (hW : NoEmptyKey ops) (text : Str) :
    parseCost depthAlg ops text ≤ text.length + 1 :=
  parse_depth ops hW text

/-- `Key.read_from`: at most |rest| + 5 stream calls, and it never leaves more text than it found -/
theorem key_read_linear (ops : KeyOps K) (hW : NoEmptyKey ops) (tap hash : Bool) (s : Stream) :
    readKeyOps s ≤ s.rest.length + 5 ∧
    ∀ k s', readKey ops tap hash s = some (k, s') → s'.rest.length ≤ s.rest.length :=
  ⟨(readKey_cost ops hW tap hash s).1, fun k s' h => ((readKey_cost ops hW tap hash s).2 k s' h).1⟩

/-- a key decoder that accepts the empty text (everything else as liberal as possible) -/
def laxOps : KeyOps Unit where
  kind := fun _ => .priv
  parseSec := fun _ => some ()
  parseXkey := fun _ => some ()
  parseWif := fun _ => some ()
  text := fun _ => some []
  sec := fun _ => []
  isPrivate := fun _ => true
  derive := fun _ _ => some ()
  toPublic := fun _ => some ()
  tweak := fun _ _ => some []

/-- **the hypothesis is needed**: if `from_wif("")` did not raise, the argument loop of `multi(1,` would spin at the
    end of the text — 5 steps per round, for as long as there is fuel (in Python: for ever, appending to `args`) -/
theorem multi_loop_needs_key_check (b : Str) : ∀ n : Nat,
    readMore (readKey laxOps false false) n ⟨b, [',']⟩ = none ∧
    readMoreCost stepsAlg (readKey laxOps false false) (fun s => readKeyOps s) n ⟨b, [',']⟩ = 5 * n := by
  have hk : readKey laxOps false false ⟨',' :: b, []⟩ = some (⟨none, .obj (), none, false⟩, ⟨b, [',']⟩) := by
    simp [readKey, Stream.read1, Stream.unread, readKeyBody, readUntil, readUntilAux, parseKeyText, laxOps,
      parseAllowed, KeyVal.allowHardened, KeyVal.hasDerive]
  have ho : readKeyOps ⟨',' :: b, []⟩ = 4 := by
    simp [readKeyOps, Stream.read1, Stream.unread, readKeyBodyOps, readUntil, readUntilAux, untilOps, seekIf]
  intro n
  induction n with
  | zero => simp [readMore, readMoreCost]
  | succ n ih =>
    obtain ⟨i1, i2⟩ := ih
    refine ⟨?_, ?_⟩
    · simp [readMore, Stream.read1, hk, i1]
    · simp only [readMoreCost, Stream.read1, hk, i2, ho, steps_seq, steps_ops]
      omega

/-- the key decoders of the driver's instance (Base58Check: fewer than 4 bytes is refused) satisfy the hypothesis -/
theorem concrete_ops_no_empty_key : NoEmptyKey Concrete.ops := by
  simp [NoEmptyKey, Concrete.ops, Concrete.parseWif, Concrete.b58decodeCheck, Concrete.b58decode]

/-! ## 2. Base58, bech32, blech32, addresses -/

/-- **`base58.decode`: at most (|s| + 1)² steps** (one step per loop round and per byte of `n` it touches) -/
theorem base58_decode_steps (s : List Char) : b58DecodeSteps s ≤ (s.length + 1) * (s.length + 1) :=
  b58DecodeSteps_le s

/-- **`base58.decode`: at most as many bytes as characters** -/
theorem base58_decode_size (s : List Char) (b : Bytes) (h : Base58.decode s = some b) : b.length ≤ s.length :=
  b58Decode_length s b h

/-- `base58.decode_check`: the payload is shorter still -/
theorem base58_decode_check_size (dsha : Bytes → Bytes) (s : List Char) (p : Bytes)
    (h : Base58.decodeCheck dsha s = some p) : p.length ≤ s.length := by
  unfold Base58.decodeCheck at h
  cases hd : Base58.decode s with
  | none => simp [hd] at h
  | some b =>
    simp [hd] at h
    have := b58Decode_length s b hd
    obtain ⟨_, rfl⟩ := h
    simp; omega

/-- **`base58.encode`: at most 2·(|b| + 2)² steps** -/
theorem base58_encode_steps (b : Bytes) : b58EncodeSteps b ≤ 2 * ((b.length + 2) * (b.length + 2)) :=
  b58EncodeSteps_le b

/-- **`base58.encode`: at most two characters per byte** -/
theorem base58_encode_size (b : Bytes) : (Base58.encode b).length ≤ 2 * b.length :=
  b58Encode_length b

/-- **`convertbits` (bech32)**: the inner `while bits >= tobits` loop appends one element per round, and what has
    been appended is bounded by the bits that went in: |out|·tobits ≤ |data|·frombits + tobits -/
theorem convertbits_size (data : List Nat) (frombits tobits : Nat) (pad : Bool) (out : List Nat)
    (h : Bech32.convertbits data frombits tobits pad = some out) :
    out.length * tobits ≤ data.length * frombits + tobits :=
  Cost.convertbits_size data frombits tobits pad out h

/-- **`bech32_decode`**: prefix + data + 7 = |text| ≤ 90 -/
theorem bech32_decode_size (bech : List Char) (enc : Bech32.Encoding) (hrp : List Char) (data : List Nat)
    (h : Bech32.bech32Decode bech = some (enc, hrp, data)) :
    hrp.length + data.length + 7 = bech.length ∧ bech.length ≤ 90 :=
  bech32Decode_size bech enc hrp data h

/-- **segwit address decoding**: ≤ 40 bytes of witness program, ≤ 90 characters of text -/
theorem segwit_decode_size (hrp addr : List Char) (ver : Nat) (prog : List Nat)
    (h : Bech32.decode hrp addr = some (ver, prog)) :
    prog.length ≤ 40 ∧ addr.length ≤ 90 ∧ prog.length ≤ addr.length :=
  segwitDecode_size hrp addr ver prog h

/-- **`address_to_scriptpubkey`**: Base58Check first, bech32 second (costs: the two above), result ≤ 34 bytes -/
theorem address_script_size (dsha : Bytes → Bytes) (nets : List Network) (addr : List Char) (spk : Bytes)
    (h : Address.toScript dsha nets addr = some (some spk)) : spk.length ≤ 34 :=
  toScript_size dsha nets addr spk h

/-- **Liquid `convertbits`**: same bound -/
theorem blech32_convertbits_size (data : List Nat) (frombits tobits : Nat) (pad : Bool) (out : List Nat)
    (h : Blech32.convertBits data frombits tobits pad = some out) :
    out.length * tobits ≤ data.length * frombits + tobits :=
  blechConvertBits_size data frombits tobits pad out h

/-- **the fuel of the Liquid inner loop is never used up** (`tobits ≥ 1`; for `tobits = 0` Python would not end:
    the callers pass 5 and 8) -/
theorem blech32_inner_loop_total (tobits maxv acc : Nat) (ht : 1 ≤ tobits) (f1 f2 bits : Nat) (ret : List Nat)
    (h1 : bits < f1) (h2 : bits < f2) :
    Blech32.cbWhile tobits maxv acc f1 bits ret = Blech32.cbWhile tobits maxv acc f2 bits ret :=
  cbWhile_fuel tobits maxv acc ht f1 f2 bits ret h1 h2

/-- **blech32 `bech32_decode`**: prefix + data < |text| -/
theorem blech32_decode_size (bech hrp data : List Nat) (h : Blech32.bech32Decode bech = some (hrp, data)) :
    hrp.length + data.length + 1 ≤ bech.length :=
  blechDecode_size bech hrp data h

/-! ## 3. mnemonics and shares -/

/-- **BIP39: the bit-packing loop `while remaining > 0` ends by itself** — at most `remaining` (11) rounds -/
theorem bip39_pack_loop_total (f1 f2 : Nat) (seed : Bytes) (off index remaining : Nat) (ho : off < 8)
    (h1 : remaining ≤ f1) (h2 : remaining ≤ f2) :
    Bip39.packLoop f1 ⟨seed, off⟩ index remaining = Bip39.packLoop f2 ⟨seed, off⟩ index remaining :=
  packLoop_fuel f1 f2 seed off index remaining ho h1 h2

/-- **`mnemonic_to_bytes`: at most 11 bits of result per word**, for every word list and hash function -/
theorem bip39_to_bytes_size {W : Type} [DecidableEq W] (sha256 : Bytes → Bytes) (wl : List W) (ign : Bool)
    (ws : List W) (data : Bytes) (h : Bip39.toBytes sha256 wl ign ws = some data) :
    8 * data.length ≤ 11 * ws.length :=
  toBytes_bits sha256 wl ign ws data h

/-- **SLIP39 `Share.parse`**: exponent < 32, at least 7 words, ≤ 10 bits of share value per word after the header -/
theorem slip39_share_bounds (indices : List Nat) (s : Slip39.Share) (h : Slip39.Share.parse indices = some s) :
    s.exponent < 32 ∧ 7 ≤ indices.length ∧ s.shareBitLength ≤ 10 * (indices.length - 7) ∧
    s.value < 2 ^ s.shareBitLength ∧ s.bytes.length * 8 ≤ 10 * indices.length :=
  shareParse_bounds indices s h

/-- **SLIP39 `_crypt`: the only PBKDF2 parameters used are `iterations = 2500·2^e`, `dklen = len(payload)/2`**
    (one call per Feistel round, 4 rounds): replacing PBKDF2 by anything that agrees on these changes nothing -/
theorem slip39_crypt_pbkdf2_param (P P' : Slip39.Prims) (payload : Bytes) (id exponent : Nat) (passphrase : Bytes)
    (indices : List UInt8)
    (hagree : ∀ pw salt, P.pbkdf2 pw salt (2500 * 2 ^ exponent) (payload.length / 2)
        = P'.pbkdf2 pw salt (2500 * 2 ^ exponent) (payload.length / 2)) :
    Slip39.crypt P payload id exponent passphrase indices = Slip39.crypt P' payload id exponent passphrase indices :=
  crypt_pbkdf2_param P P' payload id exponent passphrase indices (by simpa [iterations_eq] using hagree)

/-- **the PBKDF2 work a parsed share can ask for is bounded — by an input-chosen factor**: 2500·2^e, e ≤ 31 -/
theorem slip39_iterations_bounded (indices : List Nat) (s : Slip39.Share) (h : Slip39.Share.parse indices = some s) :
    2500 * 2 ^ s.exponent ≤ 2500 * 2 ^ 31 := by
  have := (shareParse_bounds indices s h).1
  exact Nat.mul_le_mul_left _ (Nat.pow_le_pow_right (by decide) (by omega))

/-- SLIP39 `interpolate`: the result is never longer than the first share (work: shares × share length) -/
theorem slip39_interpolate_size (x : Nat) (sd : List (Nat × Bytes)) :
    (Slip39.interpolate x sd).length ≤ (match sd with | [] => 0 | s :: _ => s.2.length) :=
  interpolate_length x sd

/-! ## 4. Liquid -/

theorem ltxin_consuming : C17.Consuming LTxIn.read := Cost.ltxin_consuming
theorem ltxout_consuming : C17.Consuming LTxOut.read := Cost.ltxout_consuming
theorem linwitness_consuming : C17.Consuming LInWitness.read := Cost.linwitness_consuming
theorem loutwitness_consuming : C17.Consuming LOutWitness.read := Cost.loutwitness_consuming

/-- **Liquid: no count-driven loop** — the four counted loops of `LTransaction.read_from` run at most |input| + 1 times -/
theorem ltx_loops_le_input (n : Nat) (b : Bytes) :
    C17.readManySteps LTxIn.read n b ≤ b.length + 1 ∧ C17.readManySteps LTxOut.read n b ≤ b.length + 1 ∧
    C17.readManySteps LInWitness.read n b ≤ b.length + 1 ∧ C17.readManySteps LOutWitness.read n b ≤ b.length + 1 :=
  ⟨C17.steps_le_input _ ltxin_consuming n b, C17.steps_le_input _ ltxout_consuming n b,
   C17.steps_le_input _ linwitness_consuming n b, C17.steps_le_input _ loutwitness_consuming n b⟩

/-- a parsed Liquid transaction has at most as many inputs + outputs as its encoding has bytes -/
theorem ltx_size_le_input (b : Bytes) (t : LTx) (r : Bytes) (h : LTx.read b = some (t, r)) :
    t.vin.length + t.vout.length ≤ b.length :=
  Cost.ltx_size_le_input b t r h

/-- **PSET (also version 2, where the counts are attacker-chosen fields)**: an accepted PSET has at most as many
    input + output scopes as the byte string has bytes -/
theorem pset_scopes_le_input (ko : KeyOps) (b : Bytes) (p : LPset) (h : LPset.parse ko b = some p) :
    p.inputs.length + p.outputs.length ≤ b.length :=
  Cost.pset_scopes_le_input ko b p h

/-! ## 5. keys: fixed sizes -/

/-- `PublicKey.read_from` takes 33 or 65 bytes -/
theorem pubkey_read_fixed {E : Keys.EcOps} {s r : Bytes} {k : Keys.PublicKey E}
    (h : Keys.PublicKey.readFrom E s = some (k, r)) : s.length = r.length + 33 ∨ s.length = r.length + 65 :=
  Keys.pubkey_read_fixed h

/-- `PrivateKey.parse` accepts 32 bytes -/
theorem privkey_parse_fixed {E : Keys.EcOps} {b : Bytes} {k : Keys.PrivateKey}
    (h : Keys.PrivateKey.parse E b = some k) : b.length = 32 :=
  Keys.privkey_parse_fixed h

/-- `HDKey.read_from` takes 78 bytes -/
theorem hdkey_read_fixed {E : Keys.EcOps} {env : Keys.Env} {s r : Bytes} {k : Keys.HDKey E}
    (h : Keys.HDKey.readFrom E env s = some (k, r)) : s.length = r.length + 78 :=
  Keys.hdkey_read_fixed h

/-- `PrivateKey.from_wif`: a Base58Check payload of 33 or 34 bytes -/
theorem wif_payload_fixed {E : Keys.EcOps} {env : Keys.Env} {s : Keys.Text} {k : Keys.PrivateKey}
    (h : Keys.PrivateKey.fromWif E env s = some k) :
    ∃ b, env.b58dec s = some b ∧ (b.length = 33 ∨ b.length = 34) :=
  Keys.wif_payload_fixed h

-- GOAL (not proved): the work done on a token after it has been read (`KeyOrigin.from_string`, `parse_path`,
--   `AllowedDerivation.from_string`, `int()`, `unhexlify`; `Miniscript.verify` / type check of the finished tree) is
--   linear in the token / tree — these are structural recursions in the model, no step companion is stated.
-- GOAL (not proved): Python big-integer cost inside `Number.read_from` (`num = 10*num + d`: quadratic in the number of
--   digits) and `Share.parse` (`value = (value << 10) | index`: quadratic in the number of words); `bytes +=` in
--   `read_until`. Covered by the monitor only (the budget tolerates quadratic work below 64 KiB).
-- GOAL (not proved): step companions for the single-pass loops of `bech32_decode` / `rs1024_polymod` /
--   `mnemonic.split()` and for the word-list lookups (`wordlist.index`: ≤ 2048 / 1024 comparisons per word).
-- GOAL (not proved): CPython's actual time and memory; monitored (harness/props/c17.py), partial by nature.

/-! ### non-vacuity -/

/-- a small key decoder that refuses the empty text and accepts everything else -/
def toyOps : KeyOps Str where
  kind := fun _ => .pub
  parseSec := fun _ => none
  parseXkey := fun _ => none
  parseWif := fun s => if s.isEmpty then none else some s
  text := fun k => some k
  sec := fun _ => []
  isPrivate := fun _ => false
  derive := fun k _ => some k
  toPublic := fun k => some k
  tweak := fun _ _ => none

example : NoEmptyKey toyOps := rfl
example : NoEmptyKey Concrete.ops := concrete_ops_no_empty_key
-- accepted and rejected texts: steps, depth, verdict (|text| = 29, 12, 28)
example : parseCost stepsAlg toyOps "wsh(and_v(v:pk(A),after(10)))".toList = 37 ∧
    parseCost depthAlg toyOps "wsh(and_v(v:pk(A),after(10)))".toList = 2 ∧
    (Desc.parse toyOps "wsh(and_v(v:pk(A),after(10)))".toList).isSome = true := by decide +kernel
example : parseCost stepsAlg toyOps "wsh(multi(1,".toList = 17 ∧
    (Desc.parse toyOps "wsh(multi(1,".toList).isSome = false := by decide +kernel
example : parseCost depthAlg toyOps "wsh(and_v(and_v(and_v(and_v(".toList = 5 := by decide +kernel
-- with the lax decoder the same text costs whatever fuel there is: 5 per unit of fuel
example : readFromCost stepsAlg laxOps 40 (Stream.ofStr "wsh(multi(1,".toList) = 207 ∧
    readFromCost stepsAlg laxOps 80 (Stream.ofStr "wsh(multi(1,".toList) = 407 := by decide +kernel
example : b58DecodeSteps "1111".toList = 9 ∧ b58DecodeSteps "zzzzzzzz".toList = 47 := by decide +kernel
example : Base58.decode "zzzz".toList = some [0xac, 0xad, 0x0f] := by decide +kernel
example : b58EncodeSteps [0xff, 0xff, 0xff] = 28 := by decide +kernel
example : Bech32.convertbits [31, 31, 31] 5 8 true = some [255, 254] := by decide +kernel
example : Blech32.convertBits [31, 31, 31] 5 8 true = some [255, 254] := by decide +kernel
example : Bip39.packLoop 11 ⟨[0xff], 3⟩ 2047 11 = Bip39.packLoop 3 ⟨[0xff], 3⟩ 2047 11 := by decide
example : Bip39.toBytes (fun _ => List.replicate 32 0) (List.range 2048) false (List.replicate 12 0)
    = some (List.replicate 16 0) := by decide +kernel
example : C17.readManySteps LTxIn.read 1000000 [1, 2, 3] = 1 := by decide
/-- a stand-in for Base58Check that always says `xprv` -/
def toyEnv : Keys.Env := ⟨fun _ _ => [], fun _ => [], fun _ _ => [], fun _ => Keys.ascii "xprv", fun _ => none⟩
example : (Keys.PrivateKey.parse Keys.toy (List.replicate 31 0 ++ [1])).isSome = true := by decide +kernel
example : (Keys.PublicKey.readFrom Keys.toy (2 :: List.replicate 31 0 ++ [1, 9, 9])).map (·.2) = some [9, 9] := by
  decide +kernel
example : (Keys.HDKey.readFrom Keys.toy toyEnv ([4, 0x88, 0xad, 0xe4, 1, 7, 7, 7, 7, 0, 0, 0, 5] ++ List.replicate 32 3
    ++ [0] ++ List.replicate 31 0 ++ [1] ++ [9])).map (·.2) = some [9] := by decide +kernel

end Embit.Props.C17X
