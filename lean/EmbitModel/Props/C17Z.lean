import EmbitModel.Props.C17X
import EmbitModel.Proofs.Desc3
/-
  C17, third part — "the recursion ends by itself" for the descriptor / miniscript / taptree parser, stated so that a
  parser spinning until its fuel is gone would NOT satisfy it.

  `Props/C17X.lean` states fuel-independence (`descriptor_parse_total`: every fuel above |text| gives the same result).
  That is also true of a parser that loops until the fuel is used up and then answers `none`, as long as it does so
  for every fuel. Here the parsers are re-run with a three-valued result (`Model/Desc3.lean`: `ok` / `reject` /
  `outOfFuel`, the last one returned exactly where the fuel counter is 0 and handed up unchanged), and the statements
  are:
    * erasure: forgetting `reject` vs `outOfFuel` gives back the two-valued parsers of `Model/Descriptor.lean`, for
      every input and every fuel (so the three-valued functions are the same parsers, not new ones);
    * with more fuel than characters left, the answer is never `outOfFuel` (hypothesis `NoEmptyKey ops`): every `none`
      of `Desc.parse` is a rejection reached with fuel to spare;
    * the distinction is real: with a key decoder that accepts the empty text, `multi(1,` does give `outOfFuel`, for
      every fuel.
  What this does not say: anything about CPython's recursion limit or time (see the cost statements in C17X).
-/
set_option linter.unusedSimpArgs false
set_option linter.unusedVariables false
namespace Embit.Props.C17Z
open Embit Embit.Model Embit.Model.Descriptor Embit.Model.Cost Embit.Props.C17X

variable {K : Type}

/-! ## erasure: the three-valued parsers are the two-valued ones -/

/-- **`readMs3` is `readMs`** once `reject` and `outOfFuel` are both read as `none` — every key decoder, context,
    fuel and stream; no hypothesis -/
theorem miniscript_read3_erases (ops : KeyOps K) (tap : Bool) (fuel : Nat) (s : Stream) :
    (readMs3 ops tap fuel s).toOption = readMs ops tap fuel s :=
  readMs3_erase ops tap fuel s

/-- **`readTapTree3` is `readTapTree`** once `reject` and `outOfFuel` are both read as `none`; no hypothesis -/
theorem taptree_read3_erases (ops : KeyOps K) (fuel : Nat) (s : Stream) :
    (readTapTree3 ops fuel s).toOption = readTapTree ops fuel s :=
  readTapTree3_erase ops fuel s

/-- **`Desc.readFrom3` is `Desc.readFrom`** once `reject` and `outOfFuel` are both read as `none`; no hypothesis -/
theorem descriptor_read3_erases (ops : KeyOps K) (fuel : Nat) (s : Stream) :
    (Desc.readFrom3 ops fuel s).toOption = Desc.readFrom ops fuel s :=
  readFrom3_erase ops fuel s

/-- **`Desc.parse3` is `Desc.parse`** (the model of `Descriptor.from_string`) once `reject` and `outOfFuel` are both
    read as `none`; no hypothesis -/
theorem descriptor_parse3_erases (ops : KeyOps K) (text : Str) :
    (Desc.parse3 ops text).toOption = Desc.parse ops text :=
  parse3_erase ops text

/-! ## the fuel is never the reason -/

/-- **`Miniscript.read_from` never runs out of fuel**: with more fuel than characters left, the three-valued reader
    answers `ok` or `reject`, never `outOfFuel` (key decoder refuses the empty text) -/
theorem miniscript_never_out_of_fuel (ops : KeyOps K) (hW : NoEmptyKey ops) (tap : Bool) (fuel : Nat) (s : Stream)
    (h : s.rest.length < fuel) : (readMs3 ops tap fuel s).isOutOfFuel = false :=
  readMs3_fuel ops hW tap fuel s h

/-- **`TapTree.read_from` never runs out of fuel**: with more fuel than characters left, the answer is `ok` or
    `reject`, never `outOfFuel` -/
theorem taptree_never_out_of_fuel (ops : KeyOps K) (hW : NoEmptyKey ops) (fuel : Nat) (s : Stream)
    (h : s.rest.length < fuel) : (readTapTree3 ops fuel s).isOutOfFuel = false :=
  readTapTree3_fuel ops hW fuel s h

/-- **`Descriptor.read_from` never runs out of fuel, ∀-form**: read from the start of a text, every fuel above the
    length of the text gives `ok` or `reject` -/
theorem descriptor_never_out_of_fuel_all (ops : KeyOps K) (hW : NoEmptyKey ops) (text : Str) (fuel : Nat)
    (hf : text.length < fuel) : (Desc.readFrom3 ops fuel (Stream.ofStr text)).isOutOfFuel = false :=
  readFrom3_fuel ops hW fuel (Stream.ofStr text) rfl hf

/-- **`Descriptor.read_from` never runs out of fuel, ∃-form**: there is a fuel, at most `|text| + 1`, with which the
    three-valued reader does not answer `outOfFuel` — a bound on the nesting / loop rounds of the run, which a
    reader spinning until the fuel is gone does not have -/
theorem descriptor_never_out_of_fuel (ops : KeyOps K) (hW : NoEmptyKey ops) (text : Str) :
    ∃ fuel, fuel ≤ text.length + 1 ∧ (Desc.readFrom3 ops fuel (Stream.ofStr text)).isOutOfFuel = false :=
  ⟨text.length + 1, Nat.le_refl _, descriptor_never_out_of_fuel_all ops hW text _ (Nat.lt_succ_self _)⟩

/-- **`Descriptor.from_string` never runs out of fuel**: `Desc.parse3` (fuel `|text| + 1`, as `Desc.parse`) answers
    `ok` or `reject` on every text -/
theorem descriptor_parse3_never_out_of_fuel (ops : KeyOps K) (hW : NoEmptyKey ops) (text : Str) :
    (Desc.parse3 ops text).isOutOfFuel = false :=
  parse3_fuel ops hW text

/-- **a `none` of the model of `Descriptor.from_string` is a rejection, not an exhausted fuel**: whenever
    `Desc.parse` gives `none`, the three-valued run of the same parser with the same fuel gives `reject` -/
theorem descriptor_rejection_is_not_fuel (ops : KeyOps K) (hW : NoEmptyKey ops) (text : Str)
    (h : Desc.parse ops text = none) : Desc.parse3 ops text = .reject :=
  parse3_reject_of_none ops hW text h

/-! ## the distinction is real -/

/-- **with a key decoder that accepts the empty text the argument loop does run out of fuel**, whatever the fuel:
    at the end of the text `multi(1,` the three-valued loop answers `outOfFuel` for every `n` (the two-valued one
    answers `none` there, `C17X.multi_loop_needs_key_check`, indistinguishable from a rejection) -/
theorem lax_decoder_runs_out_of_fuel (b : Str) : ∀ n : Nat,
    readMore3 (fun t => Res.ofOption (readKey laxOps false false t)) n ⟨b, [',']⟩ = .outOfFuel := by
  have hk : readKey laxOps false false ⟨',' :: b, []⟩ = some (⟨none, .obj (), none, false⟩, ⟨b, [',']⟩) := by
    simp [readKey, Stream.read1, Stream.unread, readKeyBody, readUntil, readUntilAux, parseKeyText, laxOps,
      parseAllowed, KeyVal.allowHardened, KeyVal.hasDerive]
  intro n
  induction n with
  | zero => rfl
  | succ n ih =>
    have hk' : Res.ofOption (readKey laxOps false false ⟨',' :: b, []⟩) =
        .ok (⟨none, .obj (), none, false⟩, ⟨b, [',']⟩) := by
      rw [hk]; rfl
    simp only [readMore3, Stream.read1]
    rw [hk']
    simp only [ih]

/-- the whole parser on `wsh(multi(1,` with the lax decoder: `outOfFuel` -/
theorem lax_parse_runs_out_of_fuel : Desc.parse3 laxOps "wsh(multi(1,".toList = .outOfFuel :=
  eq_outOfFuel_of_isOutOfFuel (by decide +kernel)

/-- the same text with a decoder that refuses the empty text: `reject` -/
theorem toy_parse_rejects : Desc.parse3 toyOps "wsh(multi(1,".toList = .reject := by
  apply descriptor_rejection_is_not_fuel toyOps rfl
  have h : (Desc.parse toyOps "wsh(multi(1,".toList).isSome = false := by decide +kernel
  cases hp : Desc.parse toyOps "wsh(multi(1,".toList with
  | none => rfl
  | some d => rw [hp] at h; simp at h

/-! ### non-vacuity -/

example : NoEmptyKey toyOps := rfl
-- more fuel does not help the lax decoder: out of fuel at 40 and at 80
example : (Desc.readFrom3 laxOps 40 (Stream.ofStr "wsh(multi(1,".toList)).isOutOfFuel = true ∧
    (Desc.readFrom3 laxOps 80 (Stream.ofStr "wsh(multi(1,".toList)).isOutOfFuel = true := by decide +kernel
-- an accepted text and two rejected ones with the toy decoder: a value / no value, and never out of fuel
example : (Desc.parse3 toyOps "wsh(and_v(v:pk(A),after(10)))".toList).toOption.isSome = true ∧
    (Desc.parse3 toyOps "wsh(and_v(v:pk(A),after(10)))".toList).isOutOfFuel = false := by decide +kernel
example : (Desc.parse3 toyOps "wsh(multi(1,".toList).toOption.isSome = false ∧
    (Desc.parse3 toyOps "wsh(multi(1,".toList).isOutOfFuel = false := by decide +kernel
example : (Desc.parse3 toyOps "wsh(and_v(and_v(and_v(and_v(".toList).toOption.isSome = false ∧
    (Desc.parse3 toyOps "wsh(and_v(and_v(and_v(and_v(".toList).isOutOfFuel = false := by decide +kernel
-- too little fuel is reported as such (nesting depth 2 needs fuel 2), not as a rejection
example : (readMs3 toyOps false 1 (Stream.ofStr "and_v(v:pk(A),after(10))".toList)).isOutOfFuel = true ∧
    (readMs3 toyOps false 2 (Stream.ofStr "and_v(v:pk(A),after(10))".toList)).toOption.isSome = true := by
  decide +kernel

end Embit.Props.C17Z
