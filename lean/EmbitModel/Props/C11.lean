import EmbitModel.Proofs.Bech32Sound
import EmbitModel.Generated.AddrFacts
/-
  C11 — Addresses and their base58/bech32 codecs are exact inverses and reject errors.
  Property theorems only. `Model.*` follows embit (`base58.py`, `bech32.py`, `script.py` after
  `fixes/c11-address-decoding-strict.diff`) and is tied to the repository by the correspondence check;
  `Spec.*` is Base58Check / BIP173 / BIP350 / the standard script templates.
  Hash functions are parameters (`dsha`, `sha`): every statement holds for every function.
  The substitution-detection theorems live in `Props/C11Detect.lean`.
-/
namespace Embit.Props.C11
open Embit Model Spec.Address

/-! ### constants -/

/-- the constants the model uses are the ones of the loaded embit modules (re-extracted on every run) -/
theorem generated_constants_match :
    Base58.digits = Generated.b58Digits ∧ Bech32.charset = Generated.bech32Charset
    ∧ Bech32.bech32Const = Generated.bech32Const ∧ Bech32.bech32mConst = Generated.bech32mConst
    ∧ Bech32.generator = Generated.bech32Generator := by decide

/-- embit's `NETWORKS` table (as extracted from the loaded module) satisfies what the address theorems need:
    one-byte version prefixes, p2pkh and p2sh prefixes disjoint, lower-case printable HRPs without `1` -/
theorem generated_networks_ok : Address.TableOk Generated.addrNetworks :=
  Address.tableOk_of_B _ (by decide)

/-! ### base58 -/

/-- `decode (encode b) = b` for every byte string (empty, leading zeros, any length) -/
theorem b58_decode_encode (b : Bytes) : Base58.decode (Base58.encode b) = some b := Base58.decode_encode b

/-- `encode (decode s) = s` for every string the decoder accepts -/
theorem b58_encode_decode (s : List Char) (b : Bytes) (h : Base58.decode s = some b) : Base58.encode b = s :=
  Base58.encode_decode s b h

/-- the decoder accepts exactly the strings over the alphabet -/
theorem b58_accepts_iff_alphabet (s : List Char) : (Base58.decode s).isSome ↔ ∀ c ∈ s, c ∈ Base58.digits :=
  Base58.decode_isSome_iff s

/-- the encoder is the specified Base58 encoding -/
theorem b58_encode_is_spec (b : Bytes) : Base58.encode b = Spec.Base58.encode b := Base58.encode_eq_spec b

/-- the decoder accepts exactly the specified encodings: `decode s = b ↔ s` is the Base58 text of `b` -/
theorem b58_decode_iff_spec (s : List Char) (b : Bytes) : Base58.decode s = some b ↔ Spec.Base58.Decodes s b := by
  rw [Base58.decode_iff, Spec.Base58.Decodes, b58_encode_is_spec]

/-- Base58Check: encoder is the specification, `decode_check ∘ encode_check = id`, and the decoder accepts
    exactly the Base58Check texts — for every hash function with at least four output bytes -/
theorem b58check_encode_is_spec (sha : Bytes → Bytes) (p : Bytes) :
    Base58.encodeCheck (fun x => sha (sha x)) p = Spec.Base58.encodeCheck sha p := Base58.encodeCheck_eq_spec sha p

theorem b58check_decode_encode (dsha : Bytes → Bytes) (h4 : ∀ x, 4 ≤ (dsha x).length) (p : Bytes) :
    Base58.decodeCheck dsha (Base58.encodeCheck dsha p) = some p := Base58.decodeCheck_encodeCheck dsha h4 p

theorem b58check_decode_iff_spec (sha : Bytes → Bytes) (h4 : ∀ x, 4 ≤ (sha x).length) (s : List Char) (p : Bytes) :
    Base58.decodeCheck (fun x => sha (sha x)) s = some p ↔ Spec.Base58.DecodesCheck sha s p := by
  rw [Base58.decodeCheck_iff _ (fun x => h4 (sha x)), Spec.Base58.DecodesCheck, b58check_encode_is_spec]

/-- a wrong checksum is never accepted, whatever the hash function (no hypothesis on it) -/
theorem b58check_sound (dsha : Bytes → Bytes) (s : List Char) (p : Bytes)
    (h : Base58.decodeCheck dsha s = some p) : s = Base58.encodeCheck dsha p := Base58.decodeCheck_sound dsha s p h

/-! ### bech32 -/

/-- `convertbits` 8→5 (padded) followed by 5→8 (strict) is the identity on byte lists -/
theorem convertbits_roundtrip (b : List Nat) (hb : ∀ v ∈ b, v < 256) :
    ∃ c, Bech32.convertbits b 8 5 true = some c ∧ (∀ x ∈ c, x < 32) ∧ Bech32.convertbits c 5 8 false = some b := by
  obtain ⟨c, h1, h2, _, _, h5⟩ := Bech32.convertbits_8_5_8 b hb
  exact ⟨c, h1, h2, h5⟩

/-- the polymod step is XOR-linear -/
theorem polymod_step_linear (a b v w : Nat) :
    Bech32.polymodStep (a ^^^ b) (v ^^^ w) = Bech32.polymodStep a v ^^^ Bech32.polymodStep b w :=
  Bech32.polymodStep_xor a b v w

/-- create/verify identity: `polymod (hrp_expand hrp ++ data ++ checksum) = const`, every hrp, every data -/
theorem bech32_create_verify (e : Bech32.Encoding) (hrp : List Char) (data : List Nat) :
    Bech32.polymod (Bech32.hrpExpand hrp ++ data ++ Bech32.createChecksum e hrp data) = e.const :=
  Bech32.polymod_createChecksum e hrp data

theorem bech32_verify_after_create (e : Bech32.Encoding) (hrp : List Char) (data : List Nat) :
    Bech32.verifyChecksum hrp (data ++ Bech32.createChecksum e hrp data) = some e := by
  rw [Bech32.verifyChecksum_eq_some, ← List.append_assoc]; exact bech32_create_verify e hrp data

/-- the six checksum symbols are the only ones that verify -/
theorem bech32_checksum_unique (e : Bech32.Encoding) (hrp : List Char) (data c : List Nat)
    (hc : ∀ x ∈ c, x < 32) (hl : c.length = 6)
    (h : Bech32.polymod (Bech32.hrpExpand hrp ++ data ++ c) = e.const) : c = Bech32.createChecksum e hrp data :=
  Bech32.checksum_unique e hrp data c hc hl h

/-- `bech32_decode (bech32_encode enc hrp data) = (enc, hrp, data)` for a printable lower-case hrp, 5-bit
    data and at most 90 characters -/
theorem bech32_decode_encode (e : Bech32.Encoding) (hrp : List Char) (data : List Nat) (hh : Bech32.HrpOk hrp)
    (hd : ∀ d ∈ data, d < 32) (hlen : hrp.length + 1 + data.length + 6 ≤ 90) :
    ∃ s, Bech32.bech32Encode e hrp data = some s ∧ Bech32.bech32Decode s = some (e, hrp, data) :=
  ⟨_, Bech32.bech32Encode_eq e hrp data hd, Bech32.bech32Decode_encode e hrp data hh hd hlen⟩

/-- segwit addresses: `encode` succeeds on every valid (hrp, version 0–16, program 2–40 bytes), its text is the
    BIP173/BIP350 encoding, and `decode` returns the version and program -/
theorem segwit_decode_encode (hrp : List Char) (ver : Nat) (prog : Bytes)
    (h : Bech32.SegwitOk hrp ver (prog.map UInt8.toNat)) :
    Bech32.encode hrp ver (prog.map UInt8.toNat) = some (Spec.Bech32.segwitEncode hrp ver prog)
    ∧ Bech32.decode hrp (Spec.Bech32.segwitEncode hrp ver prog) = some (ver, prog.map UInt8.toNat) := by
  obtain ⟨conv, h1, _, _, _, h5, h6⟩ := Bech32.encode_segwit hrp ver _ h
  have hc : Address.convOf prog = conv := by simp [Address.convOf, h1]
  have := Bech32.segwitText_eq_spec hrp ver prog (by have := h.verOk; omega)
  rw [hc] at this
  rw [← this]; exact ⟨h5, h6⟩

/-! ### addresses -/

/-- the address text of each of the five standard scripts is the Base58Check / BIP173 / BIP350 encoding -/
theorem address_is_spec (sha : Bytes → Bytes) (net : Network) (hn : Address.NetOk net) (s : Std) (hs : s.WF) :
    Address.address (fun x => sha (sha x)) net s.script
      = some (some (addressOf sha (Address.paramsOf net) s)) := by
  rw [Address.address_std _ net hn s hs, Address.textOf_eq_spec sha net hn s]

/-- script → address → script is the identity: five standard types × every network of a well-formed table -/
theorem addr_script_addr (sha : Bytes → Bytes) (h4 : ∀ x, 4 ≤ (sha x).length) (nets : List Network)
    (ht : Address.TableOk nets) (net : Network) (hmem : net ∈ nets) (s : Std) (hs : s.WF) :
    ∃ text, Address.address (fun x => sha (sha x)) net s.script = some (some text)
      ∧ text = addressOf sha (Address.paramsOf net) s
      ∧ Address.toScript (fun x => sha (sha x)) nets text = some (some s.script) := by
  refine ⟨_, Address.address_std _ net (ht.each net hmem) s hs, Address.textOf_eq_spec sha net (ht.each net hmem) s, ?_⟩
  exact Address.toScript_address _ (fun x => h4 (sha x)) nets ht net hmem s hs

/-- … in particular for embit's own table -/
theorem addr_script_addr_embit (sha : Bytes → Bytes) (h4 : ∀ x, 4 ≤ (sha x).length) (net : Network)
    (hmem : net ∈ Generated.addrNetworks) (s : Std) (hs : s.WF) :
    ∃ text, Address.address (fun x => sha (sha x)) net s.script = some (some text)
      ∧ text = addressOf sha (Address.paramsOf net) s
      ∧ Address.toScript (fun x => sha (sha x)) Generated.addrNetworks text = some (some s.script) :=
  addr_script_addr sha h4 _ generated_networks_ok net hmem s hs

/-! ### rejection -/

/-- mixed case is never decoded (bech32 level and segwit level) -/
theorem mixed_case_rejected (hrp s : List Char) (h1 : Bech32.lower s ≠ s) (h2 : Bech32.upper s ≠ s) :
    Bech32.bech32Decode s = none ∧ Bech32.decode hrp s = none :=
  ⟨Bech32.bech32Decode_mixed_case s h1 h2, Bech32.decode_mixed_case hrp s h1 h2⟩

/-- whatever `bech32.decode` returns obeys the program rules (version ≤ 16, 2–40 bytes, 20/32 for v0) and was
    checked with the checksum variant of its version (BECH32 for 0, BECH32M otherwise) -/
theorem segwit_decode_rules (hrp s : List Char) (ver : Nat) (prog : List Nat)
    (h : Bech32.decode hrp s = some (ver, prog)) :
    ver ≤ 16 ∧ 2 ≤ prog.length ∧ prog.length ≤ 40 ∧ (ver = 0 → prog.length = 20 ∨ prog.length = 32)
    ∧ ∃ data, Bech32.bech32Decode s = some (Bech32.encOf ver, hrp, ver :: data)
        ∧ Bech32.convertbits data 5 8 false = some prog :=
  Bech32.decode_some_rules hrp s ver prog h

/-- soundness of the segwit decoder: whatever `bech32.decode(hrp, s)` returns, `s` is a valid BIP173/BIP350
    segwit address for `hrp` (≤ 90 characters, not mixed case, valid hrp, correct checksum of the variant belonging
    to the version, zero padding of fewer than 5 bits, program rules) with exactly that version and program.
    Together with `segwit_decode_encode` (every valid triple's canonical text decodes): the decoder accepts
    only valid addresses and every canonical one. -/
theorem segwit_decode_sound (hrp s : List Char) (ver : Nat) (prog : List Nat)
    (h : Bech32.decode hrp s = some (ver, prog)) :
    ∃ pb : Bytes, prog = pb.map UInt8.toNat ∧ Spec.Bech32.IsSegwitAddress hrp s ver pb :=
  Bech32.decode_sound hrp s ver prog h

/-- a checksum of the wrong variant for the witness version is rejected -/
theorem wrong_variant_rejected (hrp s : List Char) (e : Bech32.Encoding) (hg : List Char) (d0 : Nat)
    (rest : List Nat) (hd : Bech32.bech32Decode s = some (e, hg, d0 :: rest)) (hw : e ≠ Bech32.encOf d0) :
    Bech32.decode hrp s = none := Bech32.decode_wrong_variant hrp s e hg d0 rest hd hw

/-- `address_to_scriptpubkey` yields a script only (a) for a Base58Check string whose payload is exactly
    21 bytes and starts with a version byte of the table, or (b) for a segwit address whose HRP is in the table,
    version 0 with 20/32 bytes or version 1 with 32 bytes -/
theorem to_script_yields (dsha : Bytes → Bytes) (nets : List Network) (s : List Char) (sc : Bytes)
    (h : Address.toScript dsha nets s = some (some sc)) :
    (∃ data, Base58.decodeCheck dsha s = some data ∧ data.length = 21 ∧
        ∃ net ∈ nets, (data.take 1 = net.p2pkh ∧ sc = [0x76, 0xa9, 0x14] ++ data.drop 1 ++ [0x88, 0xac])
          ∨ (data.take 1 = net.p2sh ∧ sc = [0xa9, 0x14] ++ data.drop 1 ++ [0x87]))
    ∨ (Address.splitOne s ∈ nets.map (·.bech32) ∧ ∃ ver prog,
        Bech32.decode (Address.splitOne s) s = some (ver, prog)
        ∧ ((ver = 0 ∧ (prog.length = 20 ∨ prog.length = 32)) ∨ (ver = 1 ∧ prog.length = 32))
        ∧ sc = UInt8.ofNat (if ver > 0 then ver + 0x50 else ver) :: UInt8.ofNat prog.length :: prog.map UInt8.ofNat) := by
  rcases Address.toScript_yields dsha nets s sc h with ⟨data, h1, h2, h3⟩ | hb
  · exact Or.inl ⟨data, h1, h2, Address.matchPrefix_yields data nets sc h3⟩
  · exact Or.inr (Address.bech32Branch_yields nets s sc hb)

/-- soundness of `address_to_scriptpubkey`: a yielded script is a standard script and the input string is a valid
    address for it on a network of the table — Base58Check text of `version byte ++ 20-byte hash`, or a valid
    BIP173/BIP350 segwit address (v0 with 20/32 bytes, v1 with 32 bytes) whose HRP is in the table. In particular
    no script is ever yielded for a wrong checksum or checksum variant, mixed case, an invalid program or hash
    length, or an unknown prefix. -/
theorem to_script_sound (dsha : Bytes → Bytes) (nets : List Network) (s : List Char) (sc : Bytes)
    (h : Address.toScript dsha nets s = some (some sc)) :
    (∃ net ∈ nets, ∃ hash : Bytes, hash.length = 20 ∧
        ((s = Base58.encodeCheck dsha (net.p2pkh ++ hash) ∧ sc = (Std.p2pkh hash).script)
          ∨ (s = Base58.encodeCheck dsha (net.p2sh ++ hash) ∧ sc = (Std.p2sh hash).script)))
    ∨ (∃ net ∈ nets, ∃ ver, ∃ pb : Bytes, Spec.Bech32.IsSegwitAddress net.bech32 s ver pb
        ∧ ((ver = 0 ∧ pb.length = 20 ∧ sc = (Std.p2wpkh pb).script)
          ∨ (ver = 0 ∧ pb.length = 32 ∧ sc = (Std.p2wsh pb).script)
          ∨ (ver = 1 ∧ pb.length = 32 ∧ sc = (Std.p2tr pb).script))) := by
  rcases to_script_yields dsha nets s sc h with ⟨data, h1, h2, net, hn, hk⟩ | ⟨hh, ver, prog, hd, hv, hsc⟩
  · left
    have hs := Base58.decodeCheck_sound dsha s data h1
    have hsplit : data = data.take 1 ++ data.drop 1 := (List.take_append_drop 1 data).symm
    refine ⟨net, hn, data.drop 1, by simp [h2], ?_⟩
    rcases hk with ⟨hp, hsc⟩ | ⟨hp, hsc⟩
    · left; refine ⟨?_, by simpa [Std.script] using hsc⟩
      rw [← hp, ← hsplit]; exact hs
    · right; refine ⟨?_, by simpa [Std.script] using hsc⟩
      rw [← hp, ← hsplit]; exact hs
  · right
    simp only [List.mem_map] at hh
    obtain ⟨net, hn, hnb⟩ := hh
    obtain ⟨pb, hpb, hvalid⟩ := Bech32.decode_sound _ s ver prog hd
    rw [← hnb] at hvalid
    refine ⟨net, hn, ver, pb, hvalid, ?_⟩
    have hlen : prog.length = pb.length := by rw [hpb]; simp
    have hmap : prog.map UInt8.ofNat = pb := by
      rw [hpb, List.map_map]
      conv => rhs; rw [← List.map_id pb]
      apply List.map_congr_left; intro x _; simp
    rw [hmap, hlen] at hsc
    rcases hv with ⟨rfl, hl⟩ | ⟨rfl, hl⟩
    · rw [hlen] at hl
      rcases hl with hl | hl
      · left; exact ⟨rfl, hl, by rw [hsc, hl]; rfl⟩
      · right; left; exact ⟨rfl, hl, by rw [hsc, hl]; rfl⟩
    · rw [hlen] at hl
      right; right; exact ⟨rfl, hl, by rw [hsc, hl]; rfl⟩

/-- unknown prefix: a string that is not a 21-byte Base58Check payload and whose HRP is not in the table is
    rejected (D15 repaired) -/
theorem unknown_hrp_rejected (dsha : Bytes → Bytes) (nets : List Network) (s : List Char)
    (hb : ∀ data, Base58.decodeCheck dsha s = some data → data.length ≠ 21)
    (hh : Address.splitOne s ∉ nets.map (·.bech32)) : Address.toScript dsha nets s = none := by
  have hbr := Address.bech32Branch_unknown_hrp nets s hh
  unfold Address.toScript
  cases hd : Base58.decodeCheck dsha s with
  | none => simp [hbr]
  | some data => simp [hb data hd, hbr]

/-- invalid hash length: a Base58Check payload that is not 21 bytes never yields a script through the Base58
    branch (D16 repaired); a mixed-case string is rejected by the segwit branch as well -/
theorem bad_payload_length_rejected (dsha : Bytes → Bytes) (nets : List Network) (s : List Char) (data : Bytes)
    (hd : Base58.decodeCheck dsha s = some data) (hl : data.length ≠ 21)
    (h1 : Bech32.lower s ≠ s) (h2 : Bech32.upper s ≠ s) : Address.toScript dsha nets s = none := by
  unfold Address.toScript
  simp only [hd, ne_eq, hl, not_false_eq_true, if_true]
  have : Address.bech32Branch true nets s = none := by
    unfold Address.bech32Branch
    simp only [Bech32.decode_mixed_case _ s h1 h2]
    split <;> rfl
  simp [this]

/-- an unknown version byte gives `None` (no script) -/
theorem unknown_version_none (dsha : Bytes → Bytes) (nets : List Network) (s : List Char) (data : Bytes)
    (hd : Base58.decodeCheck dsha s = some data) (hl : data.length = 21)
    (hv : ∀ net ∈ nets, data.take 1 ≠ net.p2pkh ∧ data.take 1 ≠ net.p2sh) :
    Address.toScript dsha nets s = some none := by
  unfold Address.toScript
  simp only [hd, hl, ne_eq, not_true_eq_false, if_false]
  congr 1
  induction nets with
  | nil => rfl
  | cons m rest ih =>
    unfold Address.matchPrefix
    have := hv m (by simp)
    simp only [beq_iff_eq, this.1, this.2, if_false]
    exact ih (fun n hn => hv n (by simp [hn]))

/-! ### the defects that were repaired (theorems about the code before the fix) -/

/-- D15: before the fix any HRP was accepted (`xx1…`); D16: a one-byte Base58Check payload gave a malformed
    "p2pkh" script. Both are rejected by the fixed code. (Shown with a constant checksum function; the harness
    replays the SHA-256 instances `xx1qqqqsyqcyq5rqwzqfpg9scrgwpugpzysnec80ce` and `1Wh4bh` on embit.) -/
theorem old_code_accepts_unknown_hrp_and_short_payload :
    let d : Bytes → Bytes := fun _ => [1, 2, 3, 4]
    let a := "xx1qqqqsyqcyq5rqwzqfpg9scrgwpugpzysnec80ce".toList
    Address.toScriptOld d Generated.addrNetworks a
        = some (some ([0x00, 0x14] ++ (List.range 20).map UInt8.ofNat))
    ∧ Address.toScript d Generated.addrNetworks a = none
    ∧ Address.toScriptOld d Generated.addrNetworks (Base58.encodeCheck d [0x00]) = some (some [0x76, 0xa9, 0x14, 0x88, 0xac])
    ∧ Address.toScript d Generated.addrNetworks (Base58.encodeCheck d [0x00]) = none := by
  decide +kernel

/-! ### non-vacuity -/

def exNet : Network := { p2pkh := [0x00], p2sh := [0x05], bech32 := "bc".toList }

example : exNet ∈ Generated.addrNetworks := by decide
example : Address.NetOk exNet := Address.netOk_of_B _ (by decide)
example : (Std.p2wsh (List.replicate 32 7)).WF ∧ (Std.p2pkh (List.replicate 20 9)).WF := by decide
example : Bech32.SegwitOk "bc".toList 1 ((List.replicate 32 (7 : UInt8)).map UInt8.toNat) :=
  ⟨⟨by decide, by decide, by decide⟩, by decide, by decide, by decide, by decide, by decide, by decide⟩
/-- the BIP173 example address, decoded by the model -/
example : Bech32.decode "bc".toList "bc1qw508d6qejxtdg4y5r3zarvary0c5xw7kv8f3t4".toList
    = some (0, [0x75, 0x1e, 0x76, 0xe8, 0x19, 0x91, 0x96, 0xd4, 0x54, 0x94, 0x1c, 0x45, 0xd1, 0xb3, 0xa3, 0x23,
                0xf1, 0x43, 0x3b, 0xd6]) := by decide +kernel
/-- mixed case and wrong-variant instances (BIP350 test vectors) are rejected -/
example : Bech32.decode "bc".toList "bc1qw508d6qejxtdg4y5r3zarvary0c5xw7kv8f3T4".toList = none := by decide +kernel
example : Bech32.decode "bc".toList "bc1qw508d6qejxtdg4y5r3zarvary0c5xw7kemeawh".toList = none := by decide +kernel
example : Base58.decode (Base58.encode [0, 0, 1, 255]) = some [0, 0, 1, 255] ∧ Base58.encode [] = [] := by decide +kernel
/-- observation (modelled, not demanded by C11): the all-upper-case spelling of a valid address, which BIP173 says
    a decoder must accept, is rejected by `address_to_scriptpubkey` because the HRP comparison is case-sensitive -/
example : Address.toScript (fun _ => []) Generated.addrNetworks "BC1QW508D6QEJXTDG4Y5R3ZARVARY0C5XW7KV8F3T4".toList = none
    ∧ (Bech32.decode "bc".toList "BC1QW508D6QEJXTDG4Y5R3ZARVARY0C5XW7KV8F3T4".toList).isSome = true := by decide +kernel


end Embit.Props.C11
