import EmbitModel.Proofs.Lock
/-
  C20 — concurrent use gives the serial results (PARTIAL: the GIL, ctypes and the C library are outside the model).

  (1) the protocol: for every number of threads, programs of any length and every schedule, a thread that follows the
      discipline (`safe`: native calls only while holding the lock, out-buffers private or — if shared — read only inside
      the lock hold that wrote them) gets the results it gets when run alone; complete schedules give the serial results.
  (2),(3) the facts probed from the loaded binding module on this run and their combination with (1):
      Props/C20Facts.lean (separate module, so that a drifted fact breaks only what depends on it).
  (4) the hypotheses are not vacuous: a shared out-buffer read after the release, and a native call outside the lock,
      each break serialisability in the model (concrete schedules).
-/
namespace Embit.Props.C20
open Embit.Model.Lock

/-! ### (1) the protocol -/

/-- after ANY schedule (any preemptions, complete or not) every thread's results are those of the part of its program
    executed so far, run alone -/
theorem results_prefix (progs : Tid → List Step) (hs : ∀ t, safe t none (progs t) = true) (sched : List Tid) (t : Tid) :
    ∃ pre, progs t = pre ++ (run sched (init progs)).rest t ∧ (run sched (init progs)).res t = solo pre :=
  results_prefix_aux hs sched t

/-- a thread that has finished returns what it returns if run alone -/
theorem results_alone (progs : Tid → List Step) (hs : ∀ t, safe t none (progs t) = true) (sched : List Tid) (t : Tid)
    (hdone : (run sched (init progs)).rest t = []) : (run sched (init progs)).res t = solo (progs t) :=
  results_complete_aux hs sched t hdone

/-- the serial execution (thread 0 to the end, then thread 1, …) never blocks and finishes every thread -/
theorem serial_completes (progs : Tid → List Step) (n : Nat) (hs : ∀ t, safe t none (progs t) = true)
    (hn : ∀ t, n ≤ t → progs t = []) : complete (run (serialSched progs n) (init progs)) :=
  serial_complete_aux hs n hn

/-- NO DEADLOCK: whatever has been scheduled so far (any preemptions), the run can be continued so that every thread
    finishes — so "the schedule completes" is never an empty condition -/
theorem can_always_finish (progs : Tid → List Step) (n : Nat) (hs : ∀ t, safe t none (progs t) = true)
    (hn : ∀ t, n ≤ t → progs t = []) (sched : List Tid) : ∃ ext, complete (run (sched ++ ext) (init progs)) :=
  can_finish_aux hs n hn sched

/-- `solo` is the machine itself running one thread -/
theorem solo_is_run_alone (p : List Step) (t : Tid) (hs : safe t none p = true) :
    (run (List.replicate (ticks p) t) (init (fun u => if u = t then p else []))).res t = solo p := by
  have hsafe : ∀ u, safe u none ((fun u => if u = t then p else []) u) = true := by
    intro u; by_cases h : u = t
    · subst h; simpa using hs
    · simp [h, safe]
  obtain ⟨ls', I, _, _, hdone⟩ := run_thread (progs := fun u => if u = t then p else []) t (ticks p) _ _
    (inv_init _ hsafe) (fun _ _ => rfl) (by simp [ticksLeft, init])
  have := results_complete_aux hsafe (List.replicate (ticks p) t) t hdone
  simpa using this

/-- SERIALISABLE: any number of threads, programs of any length, any schedule that lets every thread finish —
    each thread's results equal those of the serial execution -/
theorem serialisable (progs : Tid → List Step) (n : Nat) (hs : ∀ t, safe t none (progs t) = true)
    (hn : ∀ t, n ≤ t → progs t = []) (sched : List Tid) (hc : complete (run sched (init progs))) (t : Tid) :
    (run sched (init progs)).res t = (run (serialSched progs n) (init progs)).res t := by
  rw [results_complete_aux hs sched t (hc t),
      results_complete_aux hs (serialSched progs n) t (serial_complete_aux hs n hn t)]

/-- the statement in terms of per-function facts: if every function of a table reaches native code only under the lock
    and writes only fresh buffers (and the summaries describe the steps), every program built from the table — any
    number of threads, any number of operations — is serialisable -/
theorem serialisable_of_facts (table : List BindingFn)
    (hcons : ∀ f ∈ table, f.nativeUnderLock = stepsLocked false f.steps ∧ f.outBuffersFresh = stepsFresh f.steps)
    (hfacts : ∀ f ∈ table, f.nativeUnderLock = true ∧ f.outBuffersFresh = true)
    (threads : List (List BindingFn)) (hin : ∀ ops ∈ threads, ∀ f ∈ ops, f ∈ table)
    (sched : List Tid) :
    let progs := progsOf (threads.map (·.map (·.steps)))
    complete (run sched (init progs)) →
    ∀ t, (run sched (init progs)).res t = (run (serialSched progs threads.length) (init progs)).res t := by
  intro progs hc t
  have hs : ∀ t, safe t none (progs t) = true := by
    apply progsOf_safe
    intro ops hops f hf
    simp only [List.mem_map] at hops
    obtain ⟨ops', hops', rfl⟩ := hops
    simp only [List.mem_map] at hf
    obtain ⟨g, hg, rfl⟩ := hf
    have hg' := hin ops' hops' g hg
    have h1 := hcons g hg'
    have h2 := hfacts g hg'
    exact ok_of_locked_fresh g.steps none (by simpa [← h1.1] using h2.1) (by simpa [← h1.2] using h2.2)
  exact serialisable progs threads.length hs
    (fun u hu => progsOf_beyond _ u (by simpa using hu)) sched hc t

/-! ### (4) the hypotheses matter: witnesses on the model -/

/-- `rangeproof_rewind` as it was (DESIGN §6 D32): C writes the blinding factor into the shared constant
    `b"\x00" * 32`, the caller reads it after the lock is released -/
def rewindShared (v : Val) : List Step :=
  [.acquire, .nativeCall "secp256k1_rangeproof_rewind" [(.shared 0, v)], .release, .copyOut (.shared 0)]

def twoRewinds : Tid → List Step
  | 0 => rewindShared 111
  | 1 => rewindShared 222
  | _ => []

/-- T0: rewind … release; T1: rewind … release; T0: copy — thread 0 reads thread 1's blinding factor -/
theorem shared_buffer_breaks_serialisability :
    let sched := [0, 0, 0, 0, 1, 1, 1, 1, 0, 1]
    complete (run sched (init twoRewinds))
    ∧ (run sched (init twoRewinds)).res 0 = [222]
    ∧ (run (serialSched twoRewinds 2) (init twoRewinds)).res 0 = [111]
    ∧ safe 0 none (twoRewinds 0) = false := by
  refine ⟨?_, rfl, rfl, rfl⟩
  intro t
  match t with
  | 0 => rfl
  | 1 => rfl
  | _ + 2 => rfl

/-- even two SEQUENTIAL calls of one thread disturb each other: the first call's result object is the buffer the
    second call writes (the returned bytes object changes under the caller) -/
theorem shared_buffer_aliases_sequential_calls :
    let p : List Step := [.acquire, .nativeCall "rewind" [(.shared 0, 111)], .release,
                          .acquire, .nativeCall "rewind" [(.shared 0, 222)], .release,
                          .copyOut (.shared 0), .copyOut (.shared 0)]
    (run (List.replicate (ticks p) 0) (init (fun t => if t = 0 then p else []))).res 0 = [222, 222] := rfl

/-- the same buffer copied BEFORE the release is harmless (so `outBuffersFresh` is sufficient, not necessary) -/
theorem shared_buffer_copied_under_lock_is_safe (t : Tid) (v : Val) :
    safe t none [.acquire, .nativeCall "rewind" [(.shared 0, v)], .copyOut (.shared 0), .release] = true := by
  simp [safe, okWrite, okRead]

def unlockedCall (t : Tid) (v : Val) : List Step :=
  [.nativeCall "secp256k1_ec_pubkey_create" [(.priv t 0, v)], .copyOut (.priv t 0)]

def twoUnlocked : Tid → List Step
  | 0 => unlockedCall 0 111
  | 1 => unlockedCall 1 222
  | _ => []

/-- a native call outside the lock: two calls overlap in the shared context (ctypes releases the GIL) and thread 0's
    output is garbage although its buffer is private -/
theorem unlocked_native_call_breaks_serialisability :
    let sched := [0, 1, 0, 1, 0, 1]
    complete (run sched (init twoUnlocked))
    ∧ (run sched (init twoUnlocked)).res 0 = [garble 111]
    ∧ (run (serialSched twoUnlocked 2) (init twoUnlocked)).res 0 = [111]
    ∧ safe 0 none (twoUnlocked 0) = false := by
  refine ⟨?_, rfl, rfl, rfl⟩
  intro t
  match t with
  | 0 => rfl
  | 1 => rfl
  | _ + 2 => rfl

/-! ### non-vacuity -/

/-- the hypotheses of `serialisable` are satisfiable by a non-trivial program: three threads, a preempted schedule
    with a blocked acquire, and the schedule completes -/
example :
    let p : Tid → List Step := fun t => if t < 3 then compile t 0
      [.acq, .native "secp256k1_ecdsa_sign" true [⟨.fresh, 0⟩], .rel, .read ⟨.fresh, 0⟩] else []
    (∀ t, safe t none (p t) = true) ∧ complete (run [0, 0, 1, 2, 0, 0, 1, 1, 0, 1, 1, 2, 2, 2, 1, 2, 2] (init p))
      ∧ (run [0, 0, 1, 2, 0, 0, 1, 1, 0, 1, 1, 2, 2, 2, 1, 2, 2] (init p)).res 1 = [token 1 0] := by
  refine ⟨?_, ?_, rfl⟩
  · intro t
    by_cases h : t < 3
    · have := compile_safe t 0 [.acq, .native "secp256k1_ecdsa_sign" true [⟨.fresh, 0⟩], .rel, .read ⟨.fresh, 0⟩] none rfl
      simpa [h] using this
    · simp [h, safe]
  · intro t
    match t with
    | 0 => rfl
    | 1 => rfl
    | 2 => rfl
    | _ + 3 => rfl

-- fairness (every fair schedule of sufficient length completes): proved in Props/C20X.lean (`fair_completes`, `fair_infinite_completes`, `round_robin_completes`)

end Embit.Props.C20
