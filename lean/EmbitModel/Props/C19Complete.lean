import EmbitModel.Props.C19Facts
import EmbitModel.Props.C19X
import EmbitModel.Generated.AliasNames
/-
  C19, completeness of the extracted tables (audit2 A-7; part2-C19-C20 X3/X4; first audit A8/I3).

  `Gen.Alias.sites` / `sharedSites` hold one record per HAZARD the translator found. `facts_safe_partial`,
  `unsafe_sites_exactly`, `shared_facts_safe` quantify over those tables and hold over the empty table; only 33 site names
  were pinned from below. Here the tables are bounded by an enumeration made in a brand-new interpreter by routes the
  translator does not use (`Generated/AliasNames.lean`, harness/aliasnames.py): every live function object of the package
  (gc), every parameter whose default VALUE is a mutable object, every mutable object bound at module / class level.
  A module that drops out of the translator's walk, or a function / default / object it no longer reports, breaks the build.
-/
namespace Embit.Props.C19
open Embit Embit.Heap Embit.Gen.AliasNames

set_option maxRecDepth 1000000

/-- strictly ascending: no duplicate keys -/
def ascending : List Nat → Bool
  | a :: b :: l => decide (a < b) && ascending (b :: l)
  | _ => true

/-- `a ⊆ b` for ascending lists, by one merge pass -/
def subAsc : List Nat → List Nat → Bool
  | [], _ => true
  | _ :: _, [] => false
  | a :: as, b :: bs => if a = b then subAsc as bs else if b < a then subAsc (a :: as) bs else false

def noDupNames : List String → Bool
  | [] => true
  | a :: l => !(l.any (· == a)) && noDupNames l

/-- keys of the live functions of the package -/
def reachableKeys : List Nat := reachableFns.map (·.1)

/-- merge of two ascending lists -/
def mergeAsc : List Nat → List Nat → List Nat
  | [], l => l
  | l, [] => l
  | a :: as, b :: bs => if a < b then a :: mergeAsc as (b :: bs) else if b < a then b :: mergeAsc (a :: as) bs
      else a :: mergeAsc as bs
termination_by a b => a.length + b.length

/-- everything the translator analysed, plus the named exemptions -/
def scannedOrExempt : List Nat := mergeAsc (mergeAsc scannedLoaded scannedAstOnly) (unscannedExempt.map (·.1))

/-- no duplicate keys in the enumeration and in the translator's own list of analysed functions -/
theorem function_keys_distinct :
    ascending reachableKeys = true ∧ ascending scannedLoaded = true ∧ ascending scannedAstOnly = true
      ∧ ascending (unscannedExempt.map (·.1)) = true := by decide +kernel

/-- COMPLETENESS of the translator's walk: every function object alive after importing the whole package was analysed by
    the translator (or is in the named exemption list `Gen.AliasNames.unscannedExempt`, empty at present) -/
theorem every_reachable_function_scanned : subAsc reachableKeys scannedOrExempt = true := by decide +kernel

/-- vice versa: every function the translator took from the loaded modules is a live function of the enumeration, and no
    exemption is claimed for a function that was analysed -/
theorem every_scanned_function_reachable :
    subAsc scannedLoaded reachableKeys = true
      ∧ (unscannedExempt.all fun e => !scannedLoaded.contains e.1 && reachableKeys.contains e.1) = true := by
  decide +kernel

/-- the site of the table that speaks about the default of `name` (= "module.qualname(param)") -/
def defaultSiteSafe (name : String) : Bool :=
  Gen.Alias.sites.any fun s => s.name == name && s.safe &&
    (match s.kind with
     | .ctorParam _ => true
     | .mutableDefault _ => true
     | .sharedConstantDefault => true
     | _ => false)

/-- "no shared mutable default" restated over the ENUMERATION: every parameter of every live function whose default value
    is a list / dict / set / bytearray has a site of a default-argument kind in the table, and that site is safe (copied
    or guarded by the constructor, only read, or a constant table shared by design) - unless it is named in one of the
    two exclusion lists `contractMutators` / `knownUnsafe` (none is, `no_default_is_excluded`; `knownUnsafe` is empty
    since D31 was repaired, `knownUnsafe_is_empty`) -/
theorem every_mutable_default_has_a_safe_site :
    (mutableDefaults.all fun n => defaultSiteSafe n || contractMutators.contains n || knownUnsafe.contains n) = true := by
  decide +kernel

theorem no_default_is_excluded :
    (mutableDefaults.all fun n => !contractMutators.contains n && !knownUnsafe.contains n) = true := by decide +kernel

/-- "no hidden module state" restated over the ENUMERATION: every distinct mutable object bound at module or class level
    has, under one of the names it is bound to, a `sharedObject` site in `Gen.Alias.sharedSites`, confirmed safe by an
    executed probe -/
theorem every_shared_object_has_a_safe_site :
    (sharedObjects.all fun o => Gen.Alias.sharedSites.any fun s =>
      (match s.kind with | .sharedObject _ => true | _ => false) && s.safe && o.2.any (· == s.name)) = true := by
  decide +kernel

/-- vice versa: every `sharedObject` site of the table is one of the enumerated objects -/
theorem every_shared_object_site_is_enumerated :
    (Gen.Alias.sharedSites.all fun s =>
      (match s.kind with | .sharedObject _ => false | _ => true) ||
        sharedObjects.any fun o => o.2.any (· == s.name)) = true := by decide +kernel

/-- the tables have no duplicate keys (site names are what the exclusion lists and the known finding refer to) -/
theorem site_names_distinct :
    noDupNames (Gen.Alias.sites.map (·.name)) = true ∧ noDupNames (Gen.Alias.sharedSites.map (·.name)) = true
      ∧ noDupNames (Gen.Alias.memoKeys.map (·.1)) = true := by decide +kernel

/-- the exact exclusion list (`C19X.unsafe_sites_exactly`) together with the lower bounds: the unsafe rows of the table
    are exactly the contract mutators (no recorded defect is excused any more: D31 is repaired, round 6), AND the table is complete for the enumeration, so "everything else is safe" speaks
    about every live function's defaults and every module- / class-level object, not about whatever rows were emitted -/
theorem unsafe_sites_exactly_over_the_enumeration :
    (Gen.Alias.sites.all fun s => (!s.safe) == contractMutators.contains s.name) = true
      ∧ subAsc reachableKeys scannedOrExempt = true
      ∧ (mutableDefaults.all fun n => defaultSiteSafe n) = true
      ∧ (sharedObjects.all fun o => Gen.Alias.sharedSites.any fun s => s.safe && o.2.any (· == s.name)) = true := by
  refine ⟨unsafe_sites_exactly, every_reachable_function_scanned, ?_, ?_⟩ <;> decide +kernel

/-- non-vacuity: the enumeration is large, the translator analysed as many functions, and defaults / objects exist -/
example : (decide (700 ≤ reachableKeys.length) && decide (700 ≤ scannedLoaded.length)
    && decide (10 ≤ mutableDefaults.length) && decide (15 ≤ sharedObjects.length)
    && decide (unscannedExempt.length = 0)) = true := by decide +kernel

end Embit.Props.C19
