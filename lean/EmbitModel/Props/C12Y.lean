import EmbitModel.Props.C12X
import EmbitModel.Proofs.DescKeyCodec
/-
  C12 (audit-2 item A-2) — `parse_print_idem` FOR THE KEY LAYER THE DRIVER EVALUATES, with no codec hypothesis.

  `C12X.parse_print_idem` assumes `KeyCodec ops` (every key decoder is sound); its only instance was a toy record.
  Here the hypothesis is PROVED for `Concrete.ops` (Model/DescKeys.lean) — the record behind every `desc.*` / `dk.*`
  driver op, compared with embit on every run: hex SEC public keys (`Crypto.Secp.secParse`), x-only keys, WIF and
  xpub / xprv texts (Base58Check, version bytes, depth-0 rules). So the theorem now speaks about the object that is
  corresponded with embit.

  What it rests on:
    * Base58 canonicity is NOT re-proved: the descriptor layer's own Base58 functions are proved EQUAL to the C11 model
      (`Model/Base58.lean`), and C11's `encode_decode` (accepted text = encoding of the decoded bytes) is used;
    * compressed SEC keys: a decompressed `y` is never 0 — `−7` is not a cube modulo `p` (C08Z, kernel-evaluated power
      plus Fermat); without it `03‖x` with `y = 0` would print as `02‖x`;
    * the double SHA-256 of the checksum is the executable reference hash; no property of it is used.
  `Model/DescKeys.lean parseWif` was corrected on the way: it accepted a WIF version byte of no network (embit refuses
  it since fix 36f2981), for which `KeyCodec.wif` is false (`text = none`); see `wif_unknown_prefix_refused`.
-/
namespace Embit.Props.C12Y
open Embit Embit.Miniscript Embit.Model Embit.Model.Descriptor

/-! ### the bridge: the descriptor layer's Base58 is the C11 model -/

theorem driver_base58_decode_is_c11 (s : Str) : Concrete.b58decode s = Base58.decode s := Concrete.b58decode_eq s

theorem driver_base58_encode_is_c11 (b : Bytes) : Concrete.b58encode b = Base58.encode b := Concrete.b58encode_eq b

/-- Base58Check of the driver's key layer is canonical: an accepted text is THE encoding of its payload -/
theorem driver_base58check_canonical (s : Str) (body : Bytes) (h : Concrete.b58decodeCheck s = some body) :
    Concrete.b58encodeCheck body = s :=
  (Concrete.b58decodeCheck_sound s body h).1

/-! ### the three decoders -/

/-- hex SEC keys: `PublicKey.parse` accepts 33 bytes `02/03‖x` or 65 bytes `04‖x‖y` only, and `.sec()` of the result
    is the accepted byte string -/
theorem driver_sec_sound (b : Bytes) (key : Concrete.CKey) (h : Concrete.parseSec b = some key) :
    key.kind = .pub ∧ key.sec = b ∧ SecShape b :=
  Concrete.parseSec_sound b key h

/-- extended keys: `HDKey.from_base58(s).to_base58() = s` for every accepted `s` (any version bytes) -/
theorem driver_xkey_sound (s : Str) (key : Concrete.CKey) (h : Concrete.parseXkey s = some key) :
    key.kind = .xkey ∧ key.text = some s :=
  let ⟨h1, h2, _⟩ := Concrete.parseXkey_sound s key h; ⟨h1, h2⟩

/-- WIF: `PrivateKey.from_wif(s).wif() = s` for every accepted `s` -/
theorem driver_wif_sound (s : Str) (key : Concrete.CKey) (h : Concrete.parseWif s = some key) :
    key.kind = .priv ∧ key.text = some s :=
  let ⟨h1, h2, _⟩ := Concrete.parseWif_sound s key h; ⟨h1, h2⟩

/-- a WIF payload whose version byte belongs to no network is refused (embit: "Unknown WIF version byte") -/
theorem wif_unknown_prefix_refused (s : Str) (b : Bytes) (h : Concrete.b58decodeCheck s = some b)
    (hp : Concrete.knownWifPrefix (b.take 1) = false) : Concrete.parseWif s = none := by
  simp [Concrete.parseWif, h, hp]

/-- **`KeyCodec` holds of the record the driver evaluates** — no hypothesis -/
theorem driver_key_codec : KeyCodec Concrete.ops := Concrete.concrete_codec

/-! ### the descriptor theorems at the driver's record -/

/-- every descriptor the driver's parser returns is normal -/
theorem driver_parse_normal (t : Str) (d : Desc Concrete.CKey) (h : Desc.parse Concrete.ops t = some d) :
    DescNormal Concrete.ops d :=
  C12X.parse_normal Concrete.ops driver_key_codec t d h

/-- MAIN (`driver_parse_print_idem`): for EVERY text the model parser accepts over the driver's key layer, the parsed
    descriptor prints, the printed text is accepted, and it parses to the SAME object. No codec hypothesis. -/
theorem driver_parse_print_idem (t : Str) (d : Desc Concrete.CKey) (h : Desc.parse Concrete.ops t = some d) :
    ∃ text, d.print Concrete.ops = some text ∧ Desc.parse Concrete.ops text = some d :=
  C12X.parse_print_idem Concrete.ops driver_key_codec t d h

/-- the driver op `desc.parse` answers `(parse t).bind print`; on its own answers it is the identity:
    an answer `ok text` to ANY text implies the answer `ok text` to `text` -/
theorem driver_desc_parse_op_idem (t text : Str)
    (h : (Desc.parse Concrete.ops t).bind (fun d => d.print Concrete.ops) = some text) :
    (Desc.parse Concrete.ops text).bind (fun d => d.print Concrete.ops) = some text := by
  cases hp : Desc.parse Concrete.ops t with
  | none => simp [hp] at h
  | some d =>
    simp only [hp, Option.bind_some] at h
    obtain ⟨text', h1, h2⟩ := driver_parse_print_idem t d hp
    rw [h] at h1
    simp only [Option.some.injEq] at h1
    subst h1
    simp [h2, h]

/-- accepted texts never fail to print (the driver op `desc.parse` answers `none` only when the parser refuses) -/
theorem driver_accepted_prints (t : Str) :
    ((Desc.parse Concrete.ops t).bind (fun d => d.print Concrete.ops)).isSome = (Desc.parse Concrete.ops t).isSome := by
  cases hp : Desc.parse Concrete.ops t with
  | none => rfl
  | some d =>
    obtain ⟨text, h1, _⟩ := driver_parse_print_idem t d hp
    simp [h1]

/-! ### `KeyLaws` (hypothesis of the script theorems C12.script_eq_spec / to_public / branch): what holds of the driver's record

  Two of its four fields are proved. The other two are NOT, and one is false as stated:
    * `tweak_eq` quantifies over EVERY key object; for a junk object `CKey.pub (2^256 + Gx, Gy) true` the model's
      `tweak` is `none` (x ≥ p) while `tweakAdd (xonly (sec k)) …` succeeds (the SEC text truncates x) — evaluated with
      `#eval`, not a theorem (the kernel does not evaluate SHA-256 here). It needs a validity-relativised statement.
    * `derive_toPublic` ((il + d)·G = d·G + il·G) needs the group law of DescKeys' own Jacobian arithmetic.
-/

/-- `KeyLaws.derive_none` for the driver's record: `HDKey.child(None)` raises -/
theorem driver_derive_none (k : Concrete.CKey) (path : List (Option Nat)) (h : none ∈ path) :
    Concrete.ops.derive k path = none :=
  Concrete.ckdPath_none k path h

/-- `KeyLaws.sec_toPublic` for the driver's record: neutering keeps the public key -/
theorem driver_sec_toPublic (k p : Concrete.CKey) (h : Concrete.ops.toPublic k = some p) :
    Concrete.ops.sec p = Concrete.ops.sec k :=
  Concrete.sec_toPublic k p h

example : Concrete.ops.toPublic (.priv 1 true [0x80]) = some (.pub (Concrete.pointOfSecret 1) true) := rfl

/-! ### non-vacuity: the concrete parser accepts real keys (kernel-evaluated square root modulo p) -/

/-- the generator, compressed -/
def gSec : Bytes := 0x02 :: beN 32 Crypto.Secp.gx

set_option maxRecDepth 100000 in
example : (Concrete.parseSec gSec).isSome = true := by decide +kernel

def upperText : Str := "wpkh(0279BE667EF9DCBBAC55A06295CE870B07029BFCDB2DCE28D959F2815B16F81798)".toList
def lowerText : Str := "wpkh(0279be667ef9dcbbac55a06295ce870b07029bfcdb2dce28d959f2815b16f81798)".toList

set_option maxRecDepth 100000 in
/-- an upper-case hex key is accepted by the driver's parser and normalised to lower case, which is stable
    (extended keys and WIF need SHA-256, which the kernel does not evaluate: those are exercised by the harness ops
    `dk.xkey` / `dk.wif` on every run, whose answers carry `text` = the input) -/
example : (Desc.parse Concrete.ops upperText).bind (fun d => d.print Concrete.ops) = some lowerText
    ∧ (Desc.parse Concrete.ops lowerText).bind (fun d => d.print Concrete.ops) = some lowerText := by
  decide +kernel

end Embit.Props.C12Y
