import EmbitModel.Props.C08Z
import EmbitModel.Proofs.PyCurveLawful
import EmbitModel.Crypto.SecpLawful
import EmbitModel.Driver.Secp
import EmbitModel.Driver.Keys
import EmbitModel.Driver.SigCheck
/-
  C08W — the record the native driver EVALUATES is lawful (second audit, finding A-1).

  `Crypto.secpLawful` (Crypto/SecpLawful.lean; `= lawfulOps secp256k1 secp256k1N G`, Model/PyCurveOps.lean) is an
  executable, Mathlib-free `EcOps` whose points are canonical affine values only — `none` or reduced coordinates accepted
  by the model of `EllipticCurve.on_curve` — and whose operations are the modelled arithmetic of `embit/util/key.py`
  (corresponded with the real functions on every run: `pycurve.*`, `proven=True`). This file proves

    * `lawful_iso`            the identity-on-values map `CPt → APt` is a bijection commuting with add / neg / mul / g /
                              xy / ofXY / liftX / invN: `lawfulOps C n g ≅ pyEcOps C n g` (any smooth curve, `p ≡ 3 mod 4` prime);
    * `norm_check_never_fails` the run-time re-check inside the record's normalisation is dead code;
    * `secpLawful_ec_laws`, `secpLawful_inf_unique`, `secpLawful_key_laws`
                              `EcLaws` / `InfUnique` / `Keys.EcLaws (toKeys ·)` for the driver's record, NO hypothesis
                              (the laws of Props/C08Z transported along the isomorphism);
    * `driver_record_eq`, `driver_key_record_eq`, `driver_sigcheck_record_eq`
                              the records the driver's handlers are written over ARE this record (by definition).
-/
namespace Embit.Props.C08W
open Embit Embit.Model Embit.Model.PyCurve Embit.Props.C08Y Embit.Props.C08Z

/-! ### the isomorphism, for any curve -/

/-- **the lawful record is isomorphic to the record the laws are proved of**: `toA` (the same underlying value, the
    carrier predicate `okPt` traded for `Valid`) is injective, surjective, and commutes with every field of `EcOps` -/
theorem lawful_iso (C : Curve) [Fact C.p.Prime] (hs : Smooth C) (h3 : C.p % 4 = 3) (n : ℕ) (g : CPt C) :
    let E := lawfulOps C n g
    let E' := pyEcOps C n (toA C hs g)
    let f : E.Pt → E'.Pt := toA C hs
    Function.Bijective f ∧
    (∀ P Q, f (E.add P Q) = E'.add (f P) (f Q)) ∧ (∀ P, f (E.neg P) = E'.neg (f P)) ∧
    (∀ k P, f (E.mul k P) = E'.mul k (f P)) ∧ f E.g = E'.g ∧ E.n = E'.n ∧ E.p = E'.p ∧
    (∀ P, E'.xy (f P) = E.xy P) ∧ (∀ x y, (E.ofXY x y).map f = E'.ofXY x y) ∧
    (∀ x, (E.liftX x).map f = E'.liftX x) ∧ (∀ a, E.invN a = E'.invN a) ∧
    (∀ P : E.Pt, (f P).1 = P.1) :=
  let φ := lawfulEmb C hs h3 n g
  ⟨⟨toA_injective C hs, toA_surjective C hs⟩, φ.add, φ.neg, φ.mul, φ.g, φ.n, φ.p, φ.xy, φ.ofXY, φ.liftX, φ.invN,
    fun _ => rfl⟩

/-- **the re-check in `norm` is dead code**: on every valid tuple (in particular every result of `add`, `negate`,
    `mul`, `ECPubKey.set` on canonical operands) `norm` returns `affine` of the tuple, never the fallback -/
theorem norm_check_never_fails (C : Curve) [Fact C.p.Prime] (hs : Smooth C) {J : JPt} (hv : Valid C J) :
    (norm C J).1 = (affineXY C J).getD none := norm_val C hs hv

/-- curve laws travel backwards along an embedding of curve records (generic) -/
theorem laws_transport {E E' : EcOps} (φ : EcEmb E E') (L : EcLaws E') : EcLaws E := φ.laws L

/-! ### secp256k1: the driver's record -/

/-- the generator of the driver's record is the generator of the record of Props/C08Y / C08Z -/
theorem secpLawful_g : toA secp256k1 secp256k1_smooth Crypto.secpLawfulG = secpG := Subtype.ext rfl

/-- the embedding of the driver's record into `pyEcOps secp256k1 secp256k1N secpG` -/
def secpLawfulEmb : EcEmb Crypto.secpLawful (pyEcOps secp256k1 secp256k1N secpG) :=
  secpLawful_g ▸ lawfulEmb secp256k1 secp256k1_smooth (by decide +kernel) secp256k1N Crypto.secpLawfulG

/-- **`EcLaws Crypto.secpLawful`, no hypothesis**: the record the native driver evaluates satisfies every law the
    C07 / C08 (and, bridged, C09 / C10 / C02) theorems assume -/
theorem secpLawful_ec_laws : EcLaws Crypto.secpLawful := secpLawfulEmb.laws secp256k1_ec_laws_unconditional

/-- **`InfUnique Crypto.secpLawful`**: `a·G` has no coordinates only for `n ∣ a` -/
theorem secpLawful_inf_unique : SignWith.InfUnique Crypto.secpLawful := secpLawfulEmb.infUnique secp256k1_inf_unique

set_option maxRecDepth 100000 in
theorem secpLawful_n_le : Crypto.secpLawful.n ≤ 2 ^ 256 := by show secp256k1N ≤ 2 ^ 256; decide +kernel

set_option maxRecDepth 100000 in
theorem secpLawful_p_le : Crypto.secpLawful.p ≤ 2 ^ 256 := by show secp256k1.p ≤ 2 ^ 256; decide +kernel

/-- **`Keys.EcLaws` for the key layer's record** (C09 / C10): the bridged lawful record -/
theorem secpLawful_key_laws : Embit.Keys.EcLaws (SignWith.toKeys Crypto.secpLawful) :=
  C02Y.bridge_laws secpLawful_ec_laws secpLawful_n_le secpLawful_p_le secpLawful_inf_unique

/-! ### the driver's records are this record -/

/-- the record of `py.*`, `contract.*`, `ecdsa.verify`, `schnorr.*`, `priv.sign`, `sign.*` (Driver/Secp.lean, SignWith.lean) -/
theorem driver_record_eq : Driver.E = Crypto.secpLawful := rfl

/-- the record of the key ops (Driver/Keys.lean, KeysX.lean: `bip32.*`, `sec.*`, `xkey.*`, `wif.*`, `tweak.*`, `spec.*`) -/
theorem driver_key_record_eq : Driver.KeyDrv.secpOps = SignWith.toKeys Crypto.secpLawful := rfl

/-- the record of the verifier ops `sig.*` / `sigcheck.*` (Driver/SigCheck.lean) -/
theorem driver_sigcheck_record_eq : Driver.sigE = Crypto.secpLawful := rfl

/-- so the laws hold of the objects the handlers are written over, literally -/
theorem driver_ec_laws : EcLaws Driver.E ∧ SignWith.InfUnique Driver.E ∧ Embit.Keys.EcLaws Driver.KeyDrv.secpOps :=
  ⟨secpLawful_ec_laws, secpLawful_inf_unique, secpLawful_key_laws⟩

/-! ### non-vacuity -/

/-- the carrier has no junk: the audit's witness `some (0, 0)` is not a point, `G` and infinity are -/
example : CPt.ofOption secp256k1 (some (0, 0)) = none ∧ (CPt.ofOption secp256k1 (some (Crypto.Secp.gx, Crypto.Secp.gy))).isSome = true ∧
    (CPt.ofOption secp256k1 none).isSome = true := by decide +kernel

/-- the isomorphism on the toy curve of Props/C08Y: hypotheses satisfiable, and the two records compute the same `3·G` -/
example : ((lawfulOps toy43 toy43N ⟨some (2, 12), by decide⟩).mul 3 ⟨some (2, 12), by decide⟩).1 = some (35, 21) := by decide +kernel

end Embit.Props.C08W
