import EmbitModel.Props.C18Z
import EmbitModel.Proofs.PsetOwnIssuance
/-
  C18 (round 7): finding C18-KF1 repaired by `fixes/c18-kf1.diff` — `LInputScope.read_value` refuses a `pset 01`
  issue_commitment / `pset 0b` token_commitment that is not 33 bytes with prefix 08 / 09 and a `pset 0c` issue_nonce /
  `pset 0d` issue_entropy that is not 32 bytes. The model (`LInScope.addPair`: `LInField.len`, `LInField.pfxOK`) follows
  the fixed code. Statements: the malformed fields are refused by one step of `read_value`, whatever the scope; and the
  issuance ANY parsed PSET's input scope builds from fields of its own (`LInputScope.asset_issuance`) is one an Elements
  transaction can hold (`WFIssuance`), so `AssetIssuance.write_to` followed by `AssetIssuance.read_from` returns it.
-/
set_option linter.unusedSimpArgs false
set_option linter.unusedVariables false
namespace Embit.Props.C18W
open Embit Embit.Model Embit.Spec.LWire Embit.Props.C18X Embit.Props.C18Z

/-- a commitment field (`pset 01`, `pset 0b`) that is not 33 bytes long or does not start with 08 / 09 is refused by
    `LInputScope.read_value`, whatever the scope holds -/
theorem input_scope_malformed_commitment_refused (ko : KeyOps) (s : LInScope) (k v : Bytes)
    (hk : k = LInField.key .issueCommitment ∨ k = LInField.key .tokenCommitment)
    (hv : ¬ (v.length = 33 ∧ (v.head? = some 8 ∨ v.head? = some 9))) :
    LInScope.addPair ko s k v = none := by
  rcases hk with rfl | rfl
  · have h1 : isLiquidKey (LInField.key .issueCommitment) = true := LInField.key_liquid _
    have h2 := LInField.ofKey_key .issueCommitment
    simp only [LInScope.addPair, h1, h2, LInField.len, LInField.pfxOK, lenOK]
    by_cases hd : (lget s.lf LInField.issueCommitment).isSome = true
    · simp [hd]
    · simp [hd]; intro hl; simp [hl] at hv; exact hv
  · have h1 : isLiquidKey (LInField.key .tokenCommitment) = true := LInField.key_liquid _
    have h2 := LInField.ofKey_key .tokenCommitment
    simp only [LInScope.addPair, h1, h2, LInField.len, LInField.pfxOK, lenOK]
    by_cases hd : (lget s.lf LInField.tokenCommitment).isSome = true
    · simp [hd]
    · simp [hd]; intro hl; simp [hl] at hv; exact hv

/-- an issuance nonce / entropy (`pset 0c`, `pset 0d`) that is not 32 bytes long is refused -/
theorem input_scope_malformed_nonce_refused (ko : KeyOps) (s : LInScope) (k v : Bytes)
    (hk : k = LInField.key .issueNonce ∨ k = LInField.key .issueEntropy) (hv : v.length ≠ 32) :
    LInScope.addPair ko s k v = none := by
  rcases hk with rfl | rfl
  · exact LInScope.wrong_length_rejected ko s _ v .issueNonce 32 (LInField.key_liquid _) (LInField.ofKey_key _) rfl hv
  · exact LInScope.wrong_length_rejected ko s _ v .issueEntropy 32 (LInField.key_liquid _) (LInField.ofKey_key _) rfl hv

/-- non-vacuity: the four keys are distinct proprietary keys; a 33-byte value with prefix 0a is refused, prefix 08 kept -/
example : LInScope.addPair trivialKo {} (LInField.key .issueCommitment) (0x0a :: List.replicate 32 6) = none
    ∧ (LInScope.addPair trivialKo {} (LInField.key .issueCommitment) (0x08 :: List.replicate 32 6)).isSome = true
    ∧ LInScope.addPair trivialKo {} (LInField.key .issueNonce) (List.replicate 31 6) = none
    ∧ (LInScope.addPair trivialKo {} (LInField.key .issueEntropy) (List.replicate 32 6)).isSome = true := by
  decide +kernel

/-- the fields of every input scope of every parsed PSET (version 0 or 2) have the shape a transaction can hold -/
theorem pset_parse_issuance_fields_shape (ko : KeyOps) (b : Bytes) (p : LPset) (h : LPset.parse ko b = some p)
    (s : LInScope) (hs : s ∈ p.inputs) (f : LInField) (v : Bytes) (hv : lget s.lf f = some v) :
    ((f = .issueCommitment ∨ f = .tokenCommitment) → v.length = 33 ∧ (v.head? = some 8 ∨ v.head? = some 9))
    ∧ ((f = .issueNonce ∨ f = .issueEntropy) → v.length = 32) := by
  have hw := LPset.parse_lfOK ko b p h s hs
  have h1 := (hw (f, v) (lget_mem s.lf f v hv)).1
  have h2 := (hw (f, v) (lget_mem s.lf f v hv)).2
  constructor
  · rintro (rfl | rfl) <;> simpa [LInField.len, lenOK, LInField.pfxOK] using And.intro h1 h2
  · rintro (rfl | rfl) <;> simpa [LInField.len, lenOK] using h1

/-- MAIN: the issuance an input scope of a parsed PSET builds from fields of its own — the one `PSET.tx` puts into the
    transaction in place of the global transaction's — is well-formed in the sense of the Elements wire spec
    (32-byte nonce and entropy, amount and token null / explicit below 2^64 / 33 bytes with a prefix other than 00, 01) -/
theorem pset_parse_own_issuance_wf (ko : KeyOps) (b : Bytes) (p : LPset) (h : LPset.parse ko b = some p)
    (s : LInScope) (hs : s ∈ p.inputs) (a : Issuance) (ha : s.assetIssuance = some a) : WFIssuance a :=
  LInScope.assetIssuance_wf s (LPset.parse_lfOK ko b p h s hs) a ha

/-- hence what `AssetIssuance.write_to` writes for it is read back by `AssetIssuance.read_from` as the same issuance,
    whatever follows (before the fix: refused or read as something else — C18-KF1) -/
theorem pset_parse_own_issuance_reads_back (ko : KeyOps) (b : Bytes) (p : LPset) (h : LPset.parse ko b = some p)
    (s : LInScope) (hs : s ∈ p.inputs) (a : Issuance) (ha : s.assetIssuance = some a) (r : Bytes) :
    Issuance.read (Issuance.ser a ++ r) = some (a, r) :=
  Issuance.read_ser a r (pset_parse_own_issuance_wf ko b p h s hs a ha)

/-- a version-0 PSET whose input scope holds well-formed issuance fields of its own (commitment, token commitment,
    nonce, entropy) -/
def wellFormedOwnPset : Bytes :=
  psetMagic ++ writeKVs [([0x00], LTx.ser peginTx)]
    ++ writeKVs [(LInField.key .issueCommitment, 0x08 :: List.replicate 32 6),
                 (LInField.key .tokenCommitment, 0x09 :: List.replicate 32 7),
                 (LInField.key .issueNonce, List.replicate 32 1), (LInField.key .issueEntropy, List.replicate 32 2)]
    ++ writeKVs []

set_option maxRecDepth 100000 in
/-- non-vacuity, and the round trip KF1 broke: the PSET is accepted, its scope builds an issuance of its own, it
    serialises and the bytes written are accepted again and are a fixed point -/
theorem pset_v0_own_issuance_roundtrips :
    (LPset.parse trivialKo wellFormedOwnPset).map (fun p => p.inputs.map (fun s => s.assetIssuance.isSome)) = some [true]
    ∧ ((LPset.parse trivialKo wellFormedOwnPset).bind LPset.ser).isSome = true
    ∧ ((((LPset.parse trivialKo wellFormedOwnPset).bind LPset.ser).bind (LPset.parse trivialKo)).bind LPset.ser)
        = (LPset.parse trivialKo wellFormedOwnPset).bind LPset.ser := by
  decide +kernel

-- GOAL (not proved): pset_v0_own_issuance_ser_parse — for every parsed version-0 PSET (own issuance fields allowed),
--   ∃ b' p', ser p = some b' ∧ parse b' = some p' ∧ ser p' = some b'  (p' differs from p.norm only in the kept `txIssuance`)

end Embit.Props.C18W
