import EmbitModel.Proofs.Slip39Layout
import EmbitModel.Proofs.Slip39Groups
import EmbitModel.Proofs.Slip39TwoLevel
/-
  C16 (deepening) — the share text format against the bit layout of SLIP-0039, and two-level (group) recovery
  against the standard's combination.  Property theorems only; `Model.Slip39.*` is the model of embit's
  slip39.py, `Spec.Slip39.*` is written from the standard (`Spec/Slip39Spec.lean`: `encodeShare`/`decodeShare`
  on bit lists; `Spec/Slip39Groups.lean`: validity of a share set and `combineShares`).

  Field mapping (`Share.toFields` / `Share.ofFields`): embit keeps ONE five-bit field `exponent` where the
  current standard has the extendable-backup flag (1 bit) followed by the iteration exponent (4 bits):
  ext = exponent / 16, e = exponent % 16; the share value is the big-endian byte string of `value`.
  embit always uses the customisation string "shamir"; the standard uses "shamir_extendable" when ext = 1.
  Hence the equalities with the standard hold for exponent < 16 (ext = 0); the data words agree for every
  exponent < 32 (`share_words_eq_spec`), and `extendable_flag_differs` shows the difference at exponent = 16.
-/
namespace Embit.Props.C16X
open Embit Embit.Model.Slip39

/-! ### share text = bit layout of the standard -/

/-- the words `Share.mnemonic` prints before the checksum (shifts and masks on one big integer) are the data words
    of the standard: header bits id(15) ext(1) e(4) GI(4) Gt−1(4) g−1(4) I(4) t−1(4), zero padding to a multiple
    of ten bits, the value bits, chopped into ten-bit words — for every well-formed share (any exponent < 32,
    any length ≡ 0 mod 16, ≥ 128 bits); the checksum is RS1024 with customisation string "shamir" -/
theorem share_words_eq_spec (s : Share) (h : s.WF) :
    s.mnemonic = Spec.Slip39.dataWords s.toFields ++ rs1024Create csShamir (Spec.Slip39.dataWords s.toFields) :=
  mnemonic_eq_dataWords s h

/-- **`Share.mnemonic s` = `encodeShare (fields of s)`** of the standard, for every well-formed share whose
    exponent field is below 16 (extendable-backup flag 0) -/
theorem share_mnemonic_eq_spec (s : Share) (h : s.WF) (he : s.exponent < 16) :
    s.mnemonic = Spec.Slip39.encodeShare s.toFields :=
  mnemonic_eq_encodeShare s h he

/-- **`Share.parse` = `decodeShare`** of the standard on EVERY sequence of words below 1024 whose
    extendable-backup bit (bit 4 of the second word) is 0: same refusals (checksum, fewer than 20 words, padding
    of more than 8 bits or non-zero padding, group threshold above group count), same fields — in both directions
    of the field mapping -/
theorem share_parse_eq_spec (idx : List Nat) (hw : ∀ w ∈ idx, w < 1024) (hext : (idx.getD 1 0 >>> 4) &&& 1 = 0) :
    Share.parse idx = (Spec.Slip39.decodeShare idx).map Share.ofFields ∧
    Spec.Slip39.decodeShare idx = (Share.parse idx).map Share.toFields :=
  ⟨parse_eq_decodeShare idx hw hext, decodeShare_eq_parse idx hw hext⟩

/-- consequently parse ∘ mnemonic = id is a statement about the standard's layout: embit parses the standard's
    encoding of the fields of `s` back to `s`, and the standard's decoder inverts the standard's encoder there -/
theorem share_roundtrip_spec (s : Share) (h : s.WF) (he : s.exponent < 16) :
    Share.parse (Spec.Slip39.encodeShare s.toFields) = some s ∧
    Spec.Slip39.decodeShare s.mnemonic = some s.toFields ∧
    Spec.Slip39.decodeShare (Spec.Slip39.encodeShare s.toFields) = some s.toFields := by
  refine ⟨?_, ?_, decode_encodeShare s h he⟩
  · rw [← mnemonic_eq_encodeShare s h he]; exact share_text_roundtrip s h
  · rw [mnemonic_eq_encodeShare s h he]; exact decode_encodeShare s h he

/-- the field mappings are inverse to each other on what the decoders produce -/
theorem fields_roundtrip (f : Spec.Slip39.ShareFields) (he : f.e < 16) : (Share.ofFields f).toFields = f :=
  toFields_ofFields f he

/-- the extendable-backup bit (observation, not demanded by C16): with `exponent = 16` embit prints and accepts a
    share whose second word has the extendable bit set but whose checksum uses "shamir"; the standard's decoder
    refuses it (it demands "shamir_extendable"), and embit refuses the standard's encoding of the same fields —
    a safe refusal in both directions; the data words are the same -/
theorem extendable_flag_differs :
    let s : Share := ⟨128, 7, 16, 2, 2, 3, 0, 1, 5⟩
    s.initOk = true ∧ Share.parse s.mnemonic = some s ∧
    Spec.Slip39.decodeShare s.mnemonic = none ∧
    s.mnemonic ≠ Spec.Slip39.encodeShare s.toFields ∧
    s.mnemonic.take 17 = (Spec.Slip39.encodeShare s.toFields).take 17 ∧
    Share.parse (Spec.Slip39.encodeShare s.toFields) = none ∧
    Spec.Slip39.decodeShare (Spec.Slip39.encodeShare s.toFields) = some s.toFields := by
  decide +kernel

/-! ### two-level recovery -/

/-- **group (two-level) recovery = the standard's combination.** For every list of well-formed shares
    (exponent < 16) that is a valid set in the sense of the standard — one identifier, exponent, group threshold,
    group count and length; group indices below the group count; exactly `group_threshold` groups; in each group
    one member threshold, distinct member indices and exactly that many shares —
    `ShareSet(shares).recover(passphrase)` equals `combineShares`: RecoverSecret(T_i, ·) on the members of each
    group (in ascending group index), RecoverSecret(GT, ·) on the group shares, then decryption; both sides fail
    together when a digest does not verify.  Every HMAC / PBKDF2. -/
theorem group_recover_eq_spec (P : Prims) (shares : List Share) (pass : Bytes) (hwf : ∀ s ∈ shares, s.WF)
    (hext : ∀ s ∈ shares, s.exponent < 16)
    (hv : Spec.Slip39.validSet (shares.map Share.toFields) = true) :
    (ShareSet.new? shares).bind (fun ss => ss.recover P pass) =
      Spec.Slip39.combineShares (toSpec P) (shares.map Share.toFields) pass :=
  recover_eq_combine P shares pass hwf hext hv

/-- … in terms of mnemonics: `recover_mnemonic` (up to the BIP39 conversion) on word sequences that parse to a
    valid set is the standard's combination of the decoded fields -/
theorem group_recover_mnemonics_eq_spec (P : Prims) (ms : List (List Nat)) (shares : List Share) (pass : Bytes)
    (hp : ms.mapM Share.parse = some shares) (hwf : ∀ s ∈ shares, s.WF) (hext : ∀ s ∈ shares, s.exponent < 16)
    (hv : Spec.Slip39.validSet (shares.map Share.toFields) = true) :
    recoverShares P ms pass = Spec.Slip39.combineShares (toSpec P) (shares.map Share.toFields) pass := by
  rw [← recover_eq_combine P shares pass hwf hext hv]
  unfold recoverShares
  rw [hp]
  show (match ShareSet.new? shares with
    | none => none
    | some ss => ss.recover P pass) = _
  cases ShareSet.new? shares <;> rfl

/-- fewer groups than the group threshold are refused (threshold ≥ 2): if the group indices of the given shares
    all lie in a list of fewer than `group_threshold` numbers, `recover` raises, whatever the shares contain -/
theorem fewer_groups_refused (P : Prims) (ss : ShareSet) (pass : Bytes) (hk : 2 ≤ ss.groupThreshold)
    (D : List Nat) (hD : ∀ s ∈ ss.shares, s.groupIndex ∈ D) (hfew : D.length < ss.groupThreshold) :
    ss.recover P pass = none :=
  Embit.Model.Slip39.fewer_groups_refused P ss pass hk D hD hfew

/-- a group with fewer shares than its member threshold is refused: if the group of some given share holds fewer
    shares than that share's member threshold, `recover` raises — as the code does it: also when the group
    threshold is 1 and another group is complete, because every non-empty group is processed first -/
theorem fewer_members_refused (P : Prims) (ss : ShareSet) (pass : Bytes) (s : Share) (hs : s ∈ ss.shares)
    (hfew : (ss.shares.filter fun t => t.groupIndex == s.groupIndex).length < s.memberThreshold) :
    ss.recover P pass = none :=
  Embit.Model.Slip39.fewer_members_refused P ss pass s hs hfew

/-! ### non-vacuity -/

example : (⟨128, 7, 1, 2, 2, 3, 0, 1, 5⟩ : Share).WF ∧ (⟨128, 7, 1, 2, 2, 3, 0, 1, 5⟩ : Share).exponent < 16 :=
  ⟨⟨by decide +kernel, by decide, by decide, by decide, by decide⟩, by decide⟩

set_option maxRecDepth 100000 in
/-- both sides of `share_mnemonic_eq_spec` / `share_parse_eq_spec` evaluated on a 128-bit and a 256-bit share -/
example :
    (⟨128, 7, 1, 2, 2, 3, 0, 1, 5⟩ : Share).mnemonic = Spec.Slip39.encodeShare (⟨128, 7, 1, 2, 2, 3, 0, 1, 5⟩ : Share).toFields ∧
    (⟨256, 32767, 15, 15, 16, 16, 15, 16, 2 ^ 256 - 1⟩ : Share).mnemonic =
      Spec.Slip39.encodeShare (⟨256, 32767, 15, 15, 16, 16, 15, 16, 2 ^ 256 - 1⟩ : Share).toFields ∧
    (Spec.Slip39.decodeShare (⟨128, 7, 1, 2, 2, 3, 0, 1, 5⟩ : Share).mnemonic).map Share.ofFields =
      some ⟨128, 7, 1, 2, 2, 3, 0, 1, 5⟩ := by
  decide +kernel

/-- toy primitives satisfying the length hypotheses used elsewhere (here no hypothesis on them is needed) -/
def toyPrims : Prims :=
  { hmac := fun key msg => (key ++ msg ++ [1, 2, 3, 4]).take 32 ++ List.replicate (32 - (key ++ msg ++ [1, 2, 3, 4]).length) 0,
    pbkdf2 := fun pw salt _ n => ((pw ++ salt).take n) ++ List.replicate (n - (pw ++ salt).length) 5 }

def exEms : Bytes := [0x7c, 0x33, 0x97, 0xa2, 0x92, 0xa5, 0x94, 0x16, 0x82, 0xd7, 0xa4, 0xae, 0x2d, 0x89, 0x8d, 0x11]
def exTape : List Nat := List.replicate 40 7 ++ List.replicate 40 200

/-- a two-level set built with the model's own `split_secret`: group threshold 2 of 3 groups; group 0 has member
    threshold 2 (of 3 members, members 2 and 0 given), group 2 has member threshold 1 -/
def exShares : List Share :=
  let gs := (splitSecret toyPrims exEms 2 3 exTape).getD []
  let g0 := (gs.getD 0 (0, [])).2
  let g2 := (gs.getD 2 (0, [])).2
  let ms := (splitSecret toyPrims g0 2 3 exTape.reverse).getD []
  [⟨128, 99, 1, 0, 2, 3, 2, 2, ofBe (ms.getD 2 (0, [])).2⟩,
   ⟨128, 99, 1, 2, 2, 3, 0, 1, ofBe g2⟩,
   ⟨128, 99, 1, 0, 2, 3, 0, 2, ofBe (ms.getD 0 (0, [])).2⟩]

set_option maxRecDepth 100000 in
example : (exShares.all fun s => s.initOk && decide (s.id < 2 ^ 15) && decide (s.exponent < 16) &&
      decide (s.shareBitLength % 16 = 0) && decide (128 ≤ s.shareBitLength)) = true ∧
    Spec.Slip39.validSet (exShares.map Share.toFields) = true ∧
    (ShareSet.new? exShares).bind (fun ss => ss.recover toyPrims [1, 2]) = decrypt toyPrims exEms 99 1 [1, 2] ∧
    Spec.Slip39.combineShares (toSpec toyPrims) (exShares.map Share.toFields) [1, 2] =
      some (Spec.Slip39.decryptMS (toSpec toyPrims) exEms 99 1 [1, 2]) := by
  decide +kernel

set_option maxRecDepth 100000 in
/-- the refusals are reachable: one group only (threshold 2), and group 0 with one of its two members -/
example :
    (ShareSet.new? (exShares.take 1 ++ exShares.drop 2)).bind (fun ss => ss.recover toyPrims []) = none ∧
    (ShareSet.new? (exShares.take 2)).bind (fun ss => ss.recover toyPrims []) = none ∧
    ((exShares.take 2).filter fun t => t.groupIndex == 0).length < 2 := by
  decide +kernel

/-! ### two levels: any sufficient set recovers (exact sets and supersets) -/

/-- **two-level generate-then-recover.** Let the group shares be `split_secret(ems, GT, G)` and the member shares of
    group `i` be `split_secret(group share i, T_i, N_i)` (any tapes, any HMAC with ≥ 4 output bytes). Every list of
    distinct share objects taken from these — same id / exponent / length, group threshold GT, group count G,
    member threshold T_i — in which at least GT groups are present and every present group holds at least its
    member threshold of shares, is accepted by `ShareSet(...)` and `recover` returns `decrypt(ems)`: exact sets
    (= the standard's combination by `group_recover_eq_spec`) and supersets (invalid for the standard, accepted by
    embit) alike, in any order. -/
theorem two_level_sufficient_set_recovers (P : Prims) (hH : ∀ key msg, 4 ≤ (P.hmac key msg).length)
    (ems : Bytes) (GT G : Nat) (tape0 : List Nat) (gsh : List (Nat × Bytes))
    (hg : splitSecret P ems GT G tape0 = some gsh)
    (Tof Nof : Nat → Nat) (tapeOf : Nat → List Nat) (msOf : Nat → List (Nat × Bytes))
    (hm : ∀ g ∈ gsh, splitSecret P g.2 (Tof g.1) (Nof g.1) (tapeOf g.1) = some (msOf g.1))
    (id e : Nat) (shares : List Share)
    (hsh : ∀ s ∈ shares, s.id = id ∧ s.exponent = e ∧ s.groupThreshold = GT ∧ s.groupCount = G ∧
        s.shareBitLength = 8 * ems.length ∧ s.groupIndex < G ∧ s.memberThreshold = Tof s.groupIndex ∧
        (s.memberIndex, s.bytes) ∈ msOf s.groupIndex)
    (hnd : (shares.map fun s => (s.groupIndex, s.memberIndex)).Nodup)
    (hfull : ∀ s ∈ shares, s.memberThreshold ≤ (shares.filter fun t => t.groupIndex == s.groupIndex).length)
    (D : List Nat) (hDnd : D.Nodup) (hD : ∀ d ∈ D, ∃ s ∈ shares, s.groupIndex = d) (hGT : GT ≤ D.length)
    (pass : Bytes) :
    (ShareSet.new? shares).bind (fun ss => ss.recover P pass) = decrypt P ems id e pass :=
  two_level_recover P hH ems GT G tape0 gsh hg Tof Nof tapeOf msOf hm id e shares hsh hnd hfull D hDnd hD hGT pass

/-- a superset of `exShares`: all three members of group 0 (threshold 2), groups 1 and 2 (threshold 2 of 3 groups) -/
def exSuperset : List Share :=
  let gs := (splitSecret toyPrims exEms 2 3 exTape).getD []
  let ms := (splitSecret toyPrims (gs.getD 0 (0, [])).2 2 3 exTape.reverse).getD []
  [⟨128, 99, 1, 0, 2, 3, 2, 2, ofBe (ms.getD 2 (0, [])).2⟩,
   ⟨128, 99, 1, 2, 2, 3, 0, 1, ofBe (gs.getD 2 (0, [])).2⟩,
   ⟨128, 99, 1, 0, 2, 3, 0, 2, ofBe (ms.getD 0 (0, [])).2⟩,
   ⟨128, 99, 1, 1, 2, 3, 0, 1, ofBe (gs.getD 1 (0, [])).2⟩,
   ⟨128, 99, 1, 0, 2, 3, 1, 2, ofBe (ms.getD 1 (0, [])).2⟩]

set_option maxRecDepth 100000 in
/-- the hypotheses of `two_level_sufficient_set_recovers` hold for it (group 0 split 2-of-3, groups 1 and 2 split
    1-of-1), the standard calls the set invalid, embit recovers -/
example :
    let gsh := (splitSecret toyPrims exEms 2 3 exTape).getD []
    let Tof : Nat → Nat := fun gi => if gi = 0 then 2 else 1
    let Nof : Nat → Nat := fun gi => if gi = 0 then 3 else 1
    let msOf : Nat → List (Nat × Bytes) := fun gi =>
      (splitSecret toyPrims (gsh.getD gi (0, [])).2 (Tof gi) (Nof gi) exTape.reverse).getD []
    splitSecret toyPrims exEms 2 3 exTape = some gsh ∧
    (gsh.all fun g => splitSecret toyPrims g.2 (Tof g.1) (Nof g.1) exTape.reverse == some (msOf g.1)) = true ∧
    (exSuperset.all fun s => s.id == 99 && s.exponent == 1 && s.groupThreshold == 2 && s.groupCount == 3 &&
      s.shareBitLength == 8 * exEms.length && decide (s.groupIndex < 3) && s.memberThreshold == Tof s.groupIndex &&
      (msOf s.groupIndex).contains (s.memberIndex, s.bytes) &&
      decide (s.memberThreshold ≤ (exSuperset.filter fun t => t.groupIndex == s.groupIndex).length)) = true ∧
    Spec.Slip39.validSet (exSuperset.map Share.toFields) = false ∧
    (ShareSet.new? exSuperset).bind (fun ss => ss.recover toyPrims [1, 2]) = decrypt toyPrims exEms 99 1 [1, 2] := by
  decide +kernel

end Embit.Props.C16X
