import EmbitModel.Props.C20X
import EmbitModel.Props.C20Facts
/-
  C20, deepened, part 2 — the machine with context contents instantiated with the facts PROBED from the loaded binding
  module on this run (Generated/BindingFacts.lean). Which native symbols write the context is read off the recorded
  symbol names (`ctxWriterSyms`: the API functions whose context parameter is not `const`).
-/
namespace Embit.Props.C20
open Embit.Model.Lock Embit.Model.LockCtx Embit.Gen.Binding

set_option maxRecDepth 100000

/-- every native call of the binding layer that WRITES the library context (`secp256k1_context_create`,
    `secp256k1_context_randomize`, …) is made while holding the library's lock -/
theorem context_writers_locked : ∀ f ∈ bindingFns, stepsCtxWritesLocked f.steps = true := by decide +kernel

/-- the probe has seen context writers: module import, `_init` and `context_randomize` write the context (so the
    statement above and the theorems below are about something) -/
theorem context_writers_present :
    (["<import>", "_init", "context_randomize"].all fun n =>
      bindingFns.any fun f => f.name == n && stepsWriteCtx f.steps) = true := by decide +kernel

/-- programs of probed binding functions follow the discipline, also as programs of the machine with context contents -/
theorem binding_programs_csafe (threads : List (List BindingFn))
    (hin : ∀ ops ∈ threads, ∀ f ∈ ops, f ∈ bindingFns ∧ f.callsNative = true) (t : Tid) :
    csafe t (progsOfC (threads.map (·.map (·.steps))) t) = true := by
  have h : (progsOfC (threads.map (·.map (·.steps))) t).map erase = progsOf (threads.map (·.map (·.steps))) t :=
    congrFun (erase_progsOfC _) t
  unfold csafe
  rw [h]
  apply progsOf_safe
  intro ops hops f hf
  simp only [List.mem_map] at hops
  obtain ⟨ops', hops', rfl⟩ := hops
  simp only [List.mem_map] at hf
  obtain ⟨g, hg, rfl⟩ := hf
  obtain ⟨hg1, hg2⟩ := hin ops' hops' g hg
  have hc := facts_consistent g hg1
  exact ok_of_locked_fresh g.steps none
    (by simpa [← hc.2.1] using every_entry_locked g hg1 hg2) (by simpa [← hc.2.2] using buffers_fresh g hg1)

/-- programs of binding-backed operations of the probed module in the machine where the context has contents, every
    call reads it and `_init` / `context_randomize` rewrite it: any threads, any operation sequences, any complete
    schedule — the results are the serial ones and the context is left consistent -/
theorem binding_ctx_serialisable (threads : List (List BindingFn))
    (hin : ∀ ops ∈ threads, ∀ f ∈ ops, f ∈ bindingFns ∧ f.callsNative = true) (sched : List Tid) :
    let progs := progsOfC (threads.map (·.map (·.steps)))
    ccomplete (crun sched (cinit progs)) →
    (∀ t, (crun sched (cinit progs)).res t = (crun (cserialSched progs threads.length) (cinit progs)).res t)
      ∧ (crun sched (cinit progs)).ctxA = (crun sched (cinit progs)).ctxB := by
  intro progs hc
  have hs := binding_programs_csafe threads hin
  have hn : ∀ t, threads.length ≤ t → progs t = [] := by
    intro t ht
    simp only [progs, progsOfC]
    rw [List.getElem?_eq_none (by simpa using ht)]
  exact ⟨ctx_serialisable progs threads.length hs hn sched hc, ctx_consistent_when_complete progs hs sched hc⟩

/-- … and every fair schedule of such programs completes (round robin as the instance) -/
theorem binding_round_robin_completes (threads : List (List BindingFn))
    (hin : ∀ ops ∈ threads, ∀ f ∈ ops, f ∈ bindingFns ∧ f.callsNative = true) (k : Nat) :
    let progs := progsOf (threads.map (·.map (·.steps)))
    threads.length * totalTicks progs threads.length ≤ k →
    complete (run (pref (· % threads.length) k) (init progs)) := by
  intro progs hk
  have hs : ∀ t, safe t none (progs t) = true := by
    intro t
    have := binding_programs_csafe threads hin t
    have h : (progsOfC (threads.map (·.map (·.steps))) t).map erase = progsOf (threads.map (·.map (·.steps))) t :=
      congrFun (erase_progsOfC _) t
    unfold csafe at this
    rwa [h] at this
  exact round_robin_completes progs threads.length hs
    (fun u hu => progsOf_beyond _ u (by simpa using hu)) k hk

/-- non-vacuity: `context_randomize` against `ecdsa_sign`, the writer scheduled while the signer is inside its native
    call (it is blocked): complete, serial results, context consistent and randomised -/
example :
    let fns := fun n => (bindingFns.filter (·.name == n)).map (·.steps)
    let progs := progsOfC [fns "ecdsa_sign", fns "context_randomize"]
    let sched := [0, 0, 1, 1, 0, 0, 0, 1, 1, 1, 1]
    (crun sched (cinit progs)).rest 0 = [] ∧ (crun sched (cinit progs)).rest 1 = []
      ∧ (crun sched (cinit progs)).res 0 = [token 0 0]
      ∧ (crun sched (cinit progs)).ctxA = token 1 0 ∧ (crun sched (cinit progs)).ctxB = token 1 0 := by
  decide +kernel

end Embit.Props.C20
