import EmbitModel.Proofs.AddressComplete
import EmbitModel.Proofs.Bech32CrossStr
import EmbitModel.Generated.AddrFacts
/-
  C11, deepened — (A) completeness: exactly which strings `bech32.decode` and `address_to_scriptpubkey`
  accept (non-canonical spellings included); (B) the cross-variant (BECH32 ↔ BECH32M) neighbours of an address
  within four substitutions, characterised exactly.
  Property theorems only; `Model.*` follows embit, `Spec.*` is BIP173/BIP350 / the standard templates;
  hash functions are parameters.
-/
namespace Embit.Props.C11X
open Embit Model Spec.Address

/-! ### A — completeness on non-canonical spellings -/

/-- `bech32.decode(hrp, s)` returns `(ver, prog)` **iff** `s` is a valid BIP173/BIP350 segwit address for `hrp`
    with that version and program — any spelling the BIPs allow: all lower case or all upper case, never mixed.
    (`IsSegwitAddress` is stated "for the lower-case `hrp`": its equation `toLower s = hrp ++ "1" ++ …` is
    unsatisfiable for an `hrp` with an upper-case letter, and `decode` compares the lower-cased prefix of `s`
    with `hrp`, so both sides are false for such an `hrp` and no side condition is needed.) -/
theorem segwit_decode_iff (hrp s : List Char) (ver : Nat) (prog : List Nat) :
    Bech32.decode hrp s = some (ver, prog) ↔
      ∃ pb : Bytes, prog = pb.map UInt8.toNat ∧ Spec.Bech32.IsSegwitAddress hrp s ver pb :=
  Bech32.decode_iff_spec hrp s ver prog

/-- `address_to_scriptpubkey` yields the script `sc` for the string `s` **iff**
    (a) `s` is exactly the Base58Check address of a p2pkh / p2sh script `sc` on a network of the table, or
    (b) `s` is, up to whole-string case, the BIP173/BIP350 address of a p2wpkh / p2wsh / p2tr script `sc` on a
        network of the table, is not mixed case, and its part before the first `1` equals the table's
        human-readable part literally (embit computes `addr.split("1")[0]` and tests membership in the table
        case-sensitively before it calls `bech32.decode`).
    Everything else — wrong checksum or variant, witness versions 2–16 (valid per BIP350), v1 programs that are
    not 32 bytes, unknown prefixes, mixed case — yields no script. Well-formed table, every hash function with
    at least four output bytes. -/
theorem to_script_iff (sha : Bytes → Bytes) (h4 : ∀ x, 4 ≤ (sha x).length) (nets : List Network)
    (ht : Address.TableOk nets) (s : List Char) (sc : Bytes) :
    Address.toScript (fun x => sha (sha x)) nets s = some (some sc) ↔
      (∃ net ∈ nets, ∃ std : Std, std.WF ∧ Address.isSegwit std = false ∧ sc = std.script
          ∧ s = addressOf sha (Address.paramsOf net) std)
      ∨ (∃ net ∈ nets, ∃ std : Std, std.WF ∧ Address.isSegwit std = true ∧ sc = std.script
          ∧ Bech32.lower s = addressOf sha (Address.paramsOf net) std
          ∧ Spec.Bech32.mixedCase s = false ∧ Address.splitOne s = net.bech32) := by
  constructor
  · intro h
    rcases Address.toScript_yields _ nets s sc h with ⟨data, h1, h2, h3⟩ | hb
    · left
      obtain ⟨net, hn, hk⟩ := Address.matchPrefix_yields data nets sc h3
      have hs := Base58.decodeCheck_sound _ s data h1
      have hsplit : data = data.take 1 ++ data.drop 1 := (List.take_append_drop 1 data).symm
      have hl : (data.drop 1).length = 20 := by simp [h2]
      rcases hk with ⟨hp, hsc⟩ | ⟨hp, hsc⟩
      · refine ⟨net, hn, .p2pkh (data.drop 1), hl, rfl, by simpa [Std.script] using hsc, ?_⟩
        rw [← Address.textOf_eq_spec sha net (ht.each net hn)]
        simp only [Address.textOf]
        rw [← hp, ← hsplit]; exact hs
      · refine ⟨net, hn, .p2sh (data.drop 1), hl, rfl, by simpa [Std.script] using hsc, ?_⟩
        rw [← Address.textOf_eq_spec sha net (ht.each net hn)]
        simp only [Address.textOf]
        rw [← hp, ← hsplit]; exact hs
    · right
      obtain ⟨net, hn, ver, hh, hv, hsc, hlow, hmix, hsp⟩ := Address.bech32Branch_sound nets s sc hb
      obtain ⟨std, hw, hseg, hscr, htext⟩ := Address.std_of_segwit ver hh hv
      refine ⟨net, hn, std, hw, hseg, by rw [hsc, hscr], ?_, hmix, hsp⟩
      rw [hlow, ← htext (fun x => sha (sha x)) net, Address.textOf_eq_spec sha net (ht.each net hn)]
  · rintro (⟨net, hn, std, hw, hseg, rfl, rfl⟩ | ⟨net, hn, std, hw, hseg, rfl, hlow, hmix, hsp⟩)
    · rw [← Address.textOf_eq_spec sha net (ht.each net hn)]
      exact Address.toScript_address _ (fun x => h4 (sha x)) nets ht net hn std hw
    · obtain ⟨ver, hh, hv, hl, h1, htext, hscr⟩ := Address.segwit_std_cases std hseg hw
      rw [← Address.textOf_eq_spec sha net (ht.each net hn), htext] at hlow
      obtain ⟨hbr, hlong⟩ :=
        Address.bech32Branch_complete nets net (ht.each net hn) hn ver hh hv hl h1 s hlow hmix hsp
      rw [Address.toScript_long _ nets s hlong, hbr, hscr]; rfl

/-- embit's table: every human-readable part contains an ASCII lower-case letter -/
theorem generated_hrps_have_lower : Address.hrpsHaveLower Generated.addrNetworks = true := by decide

/-- … hence, for a table all of whose human-readable parts contain a lower-case letter (embit's own table does:
    `generated_hrps_have_lower`), `address_to_scriptpubkey` accepts **exactly** the canonical address texts of
    the five standard script types on the networks of the table, and nothing else. (Observation, not a defect:
    C11 does not forbid rejecting more than the BIPs require.) -/
theorem to_script_iff_exact (sha : Bytes → Bytes) (h4 : ∀ x, 4 ≤ (sha x).length) (nets : List Network)
    (ht : Address.TableOk nets) (hL : Address.hrpsHaveLower nets = true) (s : List Char) (sc : Bytes) :
    Address.toScript (fun x => sha (sha x)) nets s = some (some sc) ↔
      ∃ net ∈ nets, ∃ std : Std, std.WF ∧ sc = std.script ∧ s = addressOf sha (Address.paramsOf net) std := by
  rw [to_script_iff sha h4 nets ht s sc]
  constructor
  · rintro (⟨net, hn, std, hw, _, hsc, hs⟩ | ⟨net, hn, std, hw, hseg, hsc, hlow, hmix, hsp⟩)
    · exact ⟨net, hn, std, hw, hsc, hs⟩
    · refine ⟨net, hn, std, hw, hsc, ?_⟩
      obtain ⟨ver, hh, hv, _, _, htext, _⟩ := Address.segwit_std_cases std hseg hw
      have hnet := ht.each net hn
      have hpl := Bech32.segwitText_printable net.bech32 ver (Address.convOf hh) hnet.hrpOk.range (by omega)
        (Bech32.convOf_lt hh)
      rw [← htext (fun x => sha (sha x)) net, Address.textOf_eq_spec sha net hnet, ← hlow] at hpl
      have hprint := Address.printable_of_lower s hpl
      have hl : net.bech32.any Spec.Bech32.isLower = true := by
        unfold Address.hrpsHaveLower at hL
        rw [List.all_eq_true] at hL
        exact hL net hn
      rw [← hlow, Address.lower_of_hrp_lower s net.bech32 hsp hl hmix hprint]
  · rintro ⟨net, hn, std, hw, hsc, hs⟩
    cases hseg : Address.isSegwit std with
    | false => exact Or.inl ⟨net, hn, std, hw, hseg, hsc, hs⟩
    | true =>
      right
      obtain ⟨ver, hh, hv, _, _, htext, _⟩ := Address.segwit_std_cases std hseg hw
      have hnet := ht.each net hn
      have htx : s = Bech32.segwitText net.bech32 ver (Address.convOf hh) := by
        rw [hs, ← Address.textOf_eq_spec sha net hnet, htext]
      have hlow : Bech32.lower s = s := by
        rw [htx]
        exact Address.segwitText_lower net.bech32 ver _ hnet.hrpOk (by omega) (Bech32.convOf_lt hh)
      have hpl := Bech32.segwitText_printable net.bech32 ver (Address.convOf hh) hnet.hrpOk.range (by omega)
        (Bech32.convOf_lt hh)
      rw [← htx] at hpl
      refine ⟨net, hn, std, hw, hseg, hsc, by rw [hlow, hs], ?_, ?_⟩
      · exact (Bech32.case_facts s hpl (fun hh => hh.1 hlow)).2.1
      · rw [htx]; exact Address.splitOne_segwitText _ _ _ hnet.noSep

/-- … for embit's table -/
theorem to_script_iff_exact_embit (sha : Bytes → Bytes) (h4 : ∀ x, 4 ≤ (sha x).length) (s : List Char) (sc : Bytes) :
    Address.toScript (fun x => sha (sha x)) Generated.addrNetworks s = some (some sc) ↔
      ∃ net ∈ Generated.addrNetworks, ∃ std : Std, std.WF ∧ sc = std.script
        ∧ s = addressOf sha (Address.paramsOf net) std :=
  to_script_iff_exact sha h4 _ (Address.tableOk_of_B _ (by decide)) generated_hrps_have_lower s sc

/-- a non-canonical spelling of a segwit address — all upper case (valid per BIP173) or mixed case (invalid) —
    raises, for such a table and every hash function -/
theorem noncanonical_spelling_rejected (dsha sha : Bytes → Bytes) (nets : List Network) (ht : Address.TableOk nets)
    (hL : Address.hrpsHaveLower nets = true) (net : Network) (hn : net ∈ nets) (std : Std) (hw : std.WF)
    (hseg : Address.isSegwit std = true) (s : List Char)
    (hlow : Bech32.lower s = addressOf sha (Address.paramsOf net) std)
    (hne : s ≠ addressOf sha (Address.paramsOf net) std) : Address.toScript dsha nets s = none := by
  obtain ⟨ver, hh, hv, hl, _, htext, _⟩ := Address.segwit_std_cases std hseg hw
  have hnet := ht.each net hn
  have hlow' : Bech32.lower s = Bech32.segwitText net.bech32 ver (Address.convOf hh) := by
    rw [hlow, ← Address.textOf_eq_spec sha net hnet, htext]
  have hlong : 35 < s.length := by
    have e : (Bech32.lower s).length = s.length := by simp [Bech32.lower]
    obtain ⟨_, _, hcl⟩ := Address.encode_convOf net hnet ver hh hv hl
    rw [← e, hlow', Address.segwitText_length]
    rcases hl with e | e <;> rw [e] at hcl <;> omega
  rw [Address.toScript_long dsha nets s hlong]
  cases hb : Address.bech32Branch true nets s with
  | none => rfl
  | some sc =>
    exfalso
    obtain ⟨net', hn', _, _, _, _, _, hmix, hsp⟩ := Address.bech32Branch_sound nets s sc hb
    have hpl := Bech32.segwitText_printable net.bech32 ver (Address.convOf hh) hnet.hrpOk.range (by omega)
      (Bech32.convOf_lt hh)
    rw [← hlow'] at hpl
    have hl' : net'.bech32.any Spec.Bech32.isLower = true := by
      unfold Address.hrpsHaveLower at hL
      rw [List.all_eq_true] at hL
      exact hL net' hn'
    have := Address.lower_of_hrp_lower s net'.bech32 hsp hl' hmix (Address.printable_of_lower s hpl)
    exact hne (by rw [← hlow, this])

/-- the all-upper-case spelling of a segwit address: `bech32.decode` accepts it (as BIP173 demands),
    `address_to_scriptpubkey` raises (for a table whose human-readable parts contain a lower-case letter) -/
theorem upper_case_spelling (dsha sha : Bytes → Bytes) (nets : List Network) (ht : Address.TableOk nets)
    (hL : Address.hrpsHaveLower nets = true) (net : Network) (hn : net ∈ nets) (std : Std) (hw : std.WF)
    (hseg : Address.isSegwit std = true) :
    let a := addressOf sha (Address.paramsOf net) std
    Address.toScript dsha nets (Bech32.upper a) = none
    ∧ Bech32.decode net.bech32 (Bech32.upper a) = Bech32.decode net.bech32 a
    ∧ (Bech32.decode net.bech32 a).isSome = true := by
  intro a
  obtain ⟨ver, hh, hv, hl, _, htext, _⟩ := Address.segwit_std_cases std hseg hw
  have hnet := ht.each net hn
  have ha : a = Bech32.segwitText net.bech32 ver (Address.convOf hh) := by
    show addressOf sha (Address.paramsOf net) std = _
    rw [← Address.textOf_eq_spec sha net hnet, htext]
  have hpl : ∀ c ∈ a, 33 ≤ c.toNat ∧ c.toNat ≤ 126 := by
    rw [ha]
    exact Bech32.segwitText_printable net.bech32 ver _ hnet.hrpOk.range (by omega) (Bech32.convOf_lt hh)
  have hlo : Bech32.lower a = a := by
    rw [ha]; exact Address.segwitText_lower net.bech32 ver _ hnet.hrpOk (by omega) (Bech32.convOf_lt hh)
  have hany : a.any Spec.Bech32.isLower = true := by
    have hl' : net.bech32.any Spec.Bech32.isLower = true := by
      unfold Address.hrpsHaveLower at hL
      rw [List.all_eq_true] at hL
      exact hL net hn
    rw [List.any_eq_true] at hl' ⊢
    obtain ⟨c, hc, hcl⟩ := hl'
    exact ⟨c, by rw [ha]; unfold Bech32.segwitText; simp [hc], hcl⟩
  refine ⟨?_, Address.decode_upper net.bech32 a hpl hlo, ?_⟩
  · exact noncanonical_spelling_rejected dsha sha nets ht hL net hn std hw hseg _
      (Address.lower_upper a hpl hlo) (Address.upper_ne a hpl hany)
  · rw [ha, (Address.encode_convOf net hnet ver hh hv hl).2.1]; rfl

/-! non-vacuity (A) -/

def exNet : Network := { p2pkh := [0x00], p2sh := [0x05], bech32 := "bc".toList }
/-- a table whose human-readable part has no letter: there the upper-case spelling IS accepted (case (b) of
    `to_script_iff` is strictly larger than the canonical texts) -/
def digitNet : Network := { p2pkh := [0x00], p2sh := [0x05], bech32 := "42".toList }

example : exNet ∈ Generated.addrNetworks := by decide
example : Address.TableOk [digitNet] := Address.tableOk_of_B _ (by decide)
example : Address.hrpsHaveLower [digitNet] = false := by decide
/-- the BIP173 example, upper case: its lower-casing is the address of the p2wpkh script, it is not mixed case,
    but the part before the first `1` is `BC`, not `bc` -/
example :
    let s := "BC1QW508D6QEJXTDG4Y5R3ZARVARY0C5XW7KV8F3T4".toList
    let std := Std.p2wpkh [0x75, 0x1e, 0x76, 0xe8, 0x19, 0x91, 0x96, 0xd4, 0x54, 0x94, 0x1c, 0x45, 0xd1, 0xb3, 0xa3, 0x23,
                           0xf1, 0x43, 0x3b, 0xd6]
    std.WF ∧ Address.isSegwit std = true
    ∧ Bech32.lower s = addressOf (fun _ => []) (Address.paramsOf exNet) std
    ∧ s ≠ addressOf (fun _ => []) (Address.paramsOf exNet) std
    ∧ Spec.Bech32.mixedCase s = false ∧ Address.splitOne s = "BC".toList := by decide +kernel
/-- with the letter-free human-readable part `42` the upper-case spelling yields the script -/
example :
    let std := Std.p2wsh (List.replicate 32 7)
    let a := addressOf (fun _ => []) (Address.paramsOf digitNet) std
    Bech32.upper a ≠ a
    ∧ Address.toScript (fun _ => []) [digitNet] (Bech32.upper a) = some (some std.script) := by decide +kernel
example : Spec.Bech32.IsSegwitAddress "bc".toList "BC1QW508D6QEJXTDG4Y5R3ZARVARY0C5XW7KV8F3T4".toList 0
    [0x75, 0x1e, 0x76, 0xe8, 0x19, 0x91, 0x96, 0xd4, 0x54, 0x94, 0x1c, 0x45, 0xd1, 0xb3, 0xa3, 0x23,
     0xf1, 0x43, 0x3b, 0xd6] :=
  (segwit_decode_iff _ _ _ _).mp (by decide +kernel : Bech32.decode "bc".toList
    "BC1QW508D6QEJXTDG4Y5R3ZARVARY0C5XW7KV8F3T4".toList = some (0, [0x75, 0x1e, 0x76, 0xe8, 0x19, 0x91, 0x96, 0xd4,
      0x54, 0x94, 0x1c, 0x45, 0xd1, 0xb3, 0xa3, 0x23, 0xf1, 0x43, 0x3b, 0xd6])) |>.elim fun pb h => by
    have : pb = [0x75, 0x1e, 0x76, 0xe8, 0x19, 0x91, 0x96, 0xd4, 0x54, 0x94, 0x1c, 0x45, 0xd1, 0xb3, 0xa3, 0x23,
      0xf1, 0x43, 0x3b, 0xd6] := by
      have h1 := h.1
      have : pb = ([0x75, 0x1e, 0x76, 0xe8, 0x19, 0x91, 0x96, 0xd4, 0x54, 0x94, 0x1c, 0x45, 0xd1, 0xb3, 0xa3, 0x23,
        0xf1, 0x43, 0x3b, 0xd6] : List Nat).map UInt8.ofNat := by
        rw [h1, List.map_map]; conv => lhs; rw [← List.map_id pb]
        apply List.map_congr_left; intro x _; simp
      rw [this]; decide
    rw [← this]; exact h.2

/-! ### B — the cross-variant (BECH32 ↔ BECH32M) neighbours, characterised

  `Props/C11Detect.lean` shows that 1–4 substituted data-part characters are never accepted under the *same*
  checksum variant and that a 4-substitution neighbour under the *other* variant exists. Here: which ones exist.
  The kernel-checked part (`Proofs/Cross/Part*.lean`, 184 `decide +kernel` rank computations over all
  C(58,3) = 30 856 placements of three further error positions next to the version symbol, `Proofs/CrossTable.lean`
  for the tables) is not shift-invariant, unlike the same-variant case, so it is specific to data parts of
  59 symbols = 32-byte programs. -/

open Bech32 Detect Cross

/-- the pattern: witness-version symbol XOR 1, and the symbols 45, 36 and 16 places before the last one XOR
    22 (`k`), 31 (`l`), 25 (`e`); its syndrome is BECH32 xor BECH32M -/
theorem cross_pattern :
    crossPattern = [1, 0, 0, 0, 0, 0, 0, 0, 0, 0, 0, 0, 0, 22, 0, 0, 0, 0, 0, 0, 0, 0, 31, 0, 0, 0, 0, 0, 0, 0, 0, 0, 0, 0,
      0, 0, 0, 0, 0, 0, 0, 0, 25, 0, 0, 0, 0, 0, 0, 0, 0, 0, 0, 0, 0, 0, 0, 0, 0]
    ∧ polymodFrom 0 crossPattern = bech32Const ^^^ bech32mConst :=
  ⟨crossPattern_eq, crossPattern_syndrome⟩

/-- words (the reusable core): two words of 59 five-bit symbols whose polymods — from any start state, after any
    common prefix, e.g. the expanded human-readable part — differ by BECH32 xor BECH32M, whose first symbols
    differ by XOR 1 and which differ in at most four positions, differ exactly by `crossPattern` -/
theorem cross_variant_words (s : Nat) (p u u' : List Nat) (hl : u.length = 59) (hl' : u'.length = 59)
    (hu : ∀ x ∈ u, x < 32) (hu' : ∀ x ∈ u', x < 32) (hham : hamming u u' ≤ 4)
    (hhead : (xorW u u').head? = some 1)
    (hx : polymodFrom s (p ++ u) ^^^ polymodFrom s (p ++ u') = bech32Const ^^^ bech32mConst) :
    xorW u u' = crossPattern :=
  cross_words s p u u' hl hl' hu hu' hham hhead hx

/-- strings: two strings of the same length with a 59-character data part that `bech32_decode` accepts with the
    same human-readable part and *different* variants, whose first data symbols differ by XOR 1, and that differ
    in at most four characters: the second is, up to case, `neighbour` of the first -/
theorem cross_variant_strings (s s' : List Char) (e e' : Encoding) (h : List Char) (v v' : Nat) (d d' : List Nat)
    (hd : bech32Decode s = some (e, h, v :: d)) (hd' : bech32Decode s' = some (e', h, v' :: d'))
    (he : e ≠ e') (hvv : v ^^^ v' = 1) (hlen : s.length = s'.length) (hN : s.length = h.length + 60)
    (hham : charHamming s s' ≤ 4) : lower s' = neighbour (lower s) :=
  cross_strings s s' e e' h v v' d d' hd hd' he hvv hlen hN hham

/-- (i) p2wpkh: NO string of the same length within four substitutions of a p2wpkh address, with the
    human-readable part untouched and not equal to the address up to case, is accepted by
    `address_to_scriptpubkey` — the same-variant case is excluded by the detection theorem, the other variant
    would be a 20-byte v1 program, which embit refuses. Every hash function, well-formed table. -/
theorem cross_variant_p2wpkh_none (dsha sha : Bytes → Bytes) (nets : List Network) (ht : Address.TableOk nets)
    (net : Network) (hmem : net ∈ nets) (h : Bytes) (hl : h.length = 20) (s' : List Char)
    (hlen : (addressOf sha (Address.paramsOf net) (.p2wpkh h)).length = s'.length)
    (hham : charHamming (addressOf sha (Address.paramsOf net) (.p2wpkh h)) s' ≤ 4)
    (hne : lower (addressOf sha (Address.paramsOf net) (.p2wpkh h)) ≠ lower s')
    (hsplit : Address.splitOne s' = net.bech32) : Address.toScript dsha nets s' = none := by
  have hn := ht.each net hmem
  have ha : addressOf sha (Address.paramsOf net) (.p2wpkh h) = segwitText net.bech32 0 (Address.convOf h) := by
    simp only [addressOf, Address.paramsOf]; exact (segwitText_eq_spec _ 0 h (by decide)).symm
  rw [ha] at hlen hham hne
  have hlong : 35 < s'.length := by
    rw [← hlen, Address.segwitText_length, convOf_length, hl]; omega
  rw [Address.toScript_long dsha nets s' hlong,
    Address.le4_p2wpkh_none nets net hn h hl s' hlen hham hne hsplit]
  rfl

/-- (ii, only-if) p2wsh / p2tr: let `a` be the address of a 32-byte v0/v1 program on a network of a well-formed
    table and `s'` a string of the same length within four substitutions of it, human-readable part untouched,
    not equal to `a` up to case. If `address_to_scriptpubkey` yields a script for `s'` at all, then `s'` is
    (up to case) exactly `neighbour a`: version character `q`↔`p` and the characters 45, 36, 16 places before
    the last one changed by XOR 22, 31, 25 of their symbol values. Every hash function. -/
theorem cross_variant_characterised (dsha sha : Bytes → Bytes) (nets : List Network) (ht : Address.TableOk nets)
    (net : Network) (hmem : net ∈ nets) (ver : Nat) (h : Bytes) (hv : ver ≤ 1) (hl : h.length = 32)
    (s' : List Char) (sc : Bytes)
    (hlen : (addressOf sha (Address.paramsOf net) (Address.std32 ver h)).length = s'.length)
    (hham : charHamming (addressOf sha (Address.paramsOf net) (Address.std32 ver h)) s' ≤ 4)
    (hne : lower (addressOf sha (Address.paramsOf net) (Address.std32 ver h)) ≠ lower s')
    (hsplit : Address.splitOne s' = net.bech32)
    (hy : Address.toScript dsha nets s' = some (some sc)) :
    lower s' = neighbour (addressOf sha (Address.paramsOf net) (Address.std32 ver h)) := by
  have hn := ht.each net hmem
  rw [Address.std32_text sha net ver h hv] at hlen hham hne ⊢
  have hlong : 35 < s'.length := by
    rw [← hlen, Address.segwitText_length, convOf_length, hl]; omega
  rw [Address.toScript_long dsha nets s' hlong] at hy
  cases hb : Address.bech32Branch true nets s' with
  | none => simp [hb] at hy
  | some sc' => exact Address.le4_cross_only nets net hn ver h hv hl s' sc' hlen hham hne hsplit hb

/-- (ii, if) conversely `neighbour a` IS accepted: it is the canonical address of a 32-byte program `h'` of the
    other type (p2wsh ↔ p2tr) on the same network, at the same length and exactly four substitutions away, and
    `address_to_scriptpubkey` yields that script for it -/
theorem cross_variant_neighbour_accepted (dsha sha : Bytes → Bytes) (nets : List Network)
    (ht : Address.TableOk nets) (net : Network) (hmem : net ∈ nets) (ver : Nat) (h : Bytes) (hv : ver ≤ 1)
    (hl : h.length = 32) :
    let a := addressOf sha (Address.paramsOf net) (Address.std32 ver h)
    ∃ h' : Bytes, h'.length = 32
      ∧ neighbour a = addressOf sha (Address.paramsOf net) (Address.std32 (1 - ver) h')
      ∧ (neighbour a).length = a.length ∧ charHamming a (neighbour a) = 4
      ∧ Address.splitOne (neighbour a) = net.bech32
      ∧ Address.toScript dsha nets (neighbour a) = some (some (Address.std32 (1 - ver) h').script) := by
  intro a
  have hn := ht.each net hmem
  have ha : a = segwitText net.bech32 ver (Address.convOf h) := Address.std32_text sha net ver h hv
  obtain ⟨h', hl', ht', hs'⟩ := Address.neighbour_accepted dsha nets net hn hmem ver h hv hl
  have hvals32 : ∀ v ∈ (ver :: Address.convOf h) ++ createChecksum (encOf ver) net.bech32 (ver :: Address.convOf h),
      v < 32 := by
    intro v hv'; simp at hv'; rcases hv' with rfl | hv' | hv'
    · omega
    · exact convOf_lt h v hv'
    · exact createChecksum_lt _ _ _ v hv'
  have hvalsl : ((ver :: Address.convOf h)
      ++ createChecksum (encOf ver) net.bech32 (ver :: Address.convOf h)).length = 59 := by
    simp [convOf_length, hl, createChecksum_length]
  have hform : a = net.bech32 ++ '1' :: ((ver :: Address.convOf h)
      ++ createChecksum (encOf ver) net.bech32 (ver :: Address.convOf h)).map chr := by
    rw [ha]; simp [segwitText]
  obtain ⟨hh1, hh2⟩ := neighbour_hamming net.bech32 _ hvalsl hvals32
  rw [← hform] at hh1 hh2
  refine ⟨h', hl', ?_, hh1, hh2, ?_, ?_⟩
  · rw [ha, ht', Address.std32_text sha net (1 - ver) h' (by omega)]
  · rw [ha, ht']; exact Address.splitOne_segwitText _ _ _ hn.noSep
  · rw [ha, hs', Address.std32_script (1 - ver) h' (by omega) hl']

/-- (ii) for a table whose human-readable parts contain a lower-case letter (embit's: `generated_hrps_have_lower`),
    as one equivalence: among the strings of the same length within four substitutions of the address `a` of a
    32-byte v0/v1 program, with the human-readable part untouched and different from `a`, `address_to_scriptpubkey`
    yields a script for exactly one, `neighbour a`, and the script is that of the other type for the program `h'`
    whose canonical address `neighbour a` is. -/
theorem cross_variant_iff (dsha sha : Bytes → Bytes) (nets : List Network) (ht : Address.TableOk nets)
    (hL : Address.hrpsHaveLower nets = true) (net : Network) (hmem : net ∈ nets) (ver : Nat) (h : Bytes)
    (hv : ver ≤ 1) (hl : h.length = 32) :
    let a := addressOf sha (Address.paramsOf net) (Address.std32 ver h)
    ∃ h' : Bytes, h'.length = 32 ∧ neighbour a = addressOf sha (Address.paramsOf net) (Address.std32 (1 - ver) h')
      ∧ ∀ (s' : List Char) (sc : Bytes), a.length = s'.length → charHamming a s' ≤ 4 → s' ≠ a
          → Address.splitOne s' = net.bech32
          → (Address.toScript dsha nets s' = some (some sc)
              ↔ s' = neighbour a ∧ sc = (Address.std32 (1 - ver) h').script) := by
  intro a
  have hn := ht.each net hmem
  obtain ⟨h', hl', hnb, _, _, _, hacc⟩ := cross_variant_neighbour_accepted dsha sha nets ht net hmem ver h hv hl
  refine ⟨h', hl', hnb, ?_⟩
  intro s' sc hlen hham hne hsplit
  have ha : a = segwitText net.bech32 ver (Address.convOf h) := Address.std32_text sha net ver h hv
  have halow : lower a = a := by
    rw [ha]; exact Address.segwitText_lower net.bech32 ver _ hn.hrpOk (by omega) (convOf_lt h)
  constructor
  · intro hy
    have hlong : 35 < s'.length := by
      rw [← hlen, ha, Address.segwitText_length, convOf_length, hl]; omega
    have hy' := hy
    rw [Address.toScript_long dsha nets s' hlong] at hy'
    cases hb : Address.bech32Branch true nets s' with
    | none => simp [hb] at hy'
    | some sc' =>
      obtain ⟨net', hn', ver', h'', hv'', _, hlow', hmix, hsp'⟩ := Address.bech32Branch_sound nets s' sc' hb
      have hnet' := ht.each net' hn'
      have hv32 : ver' < 32 := by rcases hv'' with ⟨e, _⟩ | ⟨e, _⟩ <;> omega
      have hpl := segwitText_printable net'.bech32 ver' (Address.convOf h'') hnet'.hrpOk.range hv32 (convOf_lt h'')
      rw [← hlow'] at hpl
      have hany : net'.bech32.any Spec.Bech32.isLower = true := by
        unfold Address.hrpsHaveLower at hL
        rw [List.all_eq_true] at hL
        exact hL net' hn'
      have hslow := Address.lower_of_hrp_lower s' net'.bech32 hsp' hany hmix (Address.printable_of_lower s' hpl)
      have hne' : lower a ≠ lower s' := by
        rw [halow, hslow]; exact fun e => hne e.symm
      have hch := cross_variant_characterised dsha sha nets ht net hmem ver h hv hl s' sc hlen hham hne' hsplit hy
      rw [hslow] at hch
      refine ⟨hch, ?_⟩
      rw [hch] at hy
      have hacc' : Address.toScript dsha nets (neighbour a) = some (some (Address.std32 (1 - ver) h').script) := hacc
      rw [hacc'] at hy
      simpa using hy.symm
  · rintro ⟨rfl, rfl⟩
    exact hacc

/-! non-vacuity (B) -/

/-- the Appendix-D pair is an instance: `neighbour` maps one onto the other and back -/
example :
    neighbour "bc1qqqqqqqqqqqqqqqqqqqqqqqqqqqqqqqqqqqqqqqqqqqqqqqqqqqqqthqst8".toList
      = "bc1pqqqqqqqqqqqqkqqqqqqqqlqqqqqqqqqqqqqqqqqqqeqqqqqqqqqqthqst8".toList
    ∧ neighbour "bc1pqqqqqqqqqqqqkqqqqqqqqlqqqqqqqqqqqqqqqqqqqeqqqqqqqqqqthqst8".toList
      = "bc1qqqqqqqqqqqqqqqqqqqqqqqqqqqqqqqqqqqqqqqqqqqqqqqqqqqqqthqst8".toList := by decide +kernel
/-- the hypotheses of `cross_variant_characterised` / `cross_variant_iff` hold for it -/
example :
    let a := addressOf (fun _ => []) (Address.paramsOf exNet) (Address.std32 0 (List.replicate 32 0))
    let s' := "bc1pqqqqqqqqqqqqkqqqqqqqqlqqqqqqqqqqqqqqqqqqqeqqqqqqqqqqthqst8".toList
    a = "bc1qqqqqqqqqqqqqqqqqqqqqqqqqqqqqqqqqqqqqqqqqqqqqqqqqqqqqthqst8".toList
    ∧ a.length = s'.length ∧ charHamming a s' = 4 ∧ lower a ≠ lower s' ∧ Address.splitOne s' = exNet.bech32
    ∧ Address.toScript (fun _ => []) Generated.addrNetworks s'
        = some (some (Address.std32 1 [0, 0, 0, 0, 0, 0, 0, 0x0b, 0, 0, 0, 0, 0, 0x7c, 0, 0, 0, 0, 0, 0, 0, 0, 0, 0, 0,
            0x06, 0x40, 0, 0, 0, 0, 0]).script) := by decide +kernel
/-- the hypotheses of `cross_variant_p2wpkh_none` hold for a string that `bech32.decode` itself accepts (a valid
    v1 address with a 20-byte program, four substitutions away from the p2wpkh address): the 39-symbol pattern
    exists as well, only `address_to_scriptpubkey` refuses its result -/
example :
    let a := addressOf (fun _ => []) (Address.paramsOf exNet) (.p2wpkh (List.replicate 20 0))
    let s' := "bc1pqqqqaqqqq9qqqqqqqqqqqqqqqqqqqq6q9e75rs".toList
    a = "bc1qqqqqqqqqqqqqqqqqqqqqqqqqqqqqqqqq9e75rs".toList
    ∧ a.length = s'.length ∧ charHamming a s' = 4 ∧ lower a ≠ lower s' ∧ Address.splitOne s' = exNet.bech32
    ∧ (decode "bc".toList s').map Prod.fst = some 1
    ∧ Address.toScript (fun _ => []) Generated.addrNetworks s' = none := by decide +kernel
example : hamming crossPattern (List.replicate 59 0) = 4 := by decide

-- GOAL (not proved): at the level of `bech32.decode` alone (which also accepts witness versions 2–16 and v1 programs of every length 2–40): which strings within four data-part substitutions of a valid segwit address decode under the other checksum variant when the data part does not have 59 symbols or the version symbol changes otherwise than 0 ↔ 1 (0 ↔ 2…16) — `cross_variant_words` covers 59 symbols with first symbols differing by XOR 1, which is all that `address_to_scriptpubkey` can yield (39-symbol data parts are closed by `cross_variant_p2wpkh_none`); the syndrome target is not shift-invariant, so every length and version pair needs its own rank computation

end Embit.Props.C11X
