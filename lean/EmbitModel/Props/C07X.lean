import EmbitModel.Props.C07
/-
  C07X — what "deterministic per RFC 6979" means for the signer (audit item A15).

  `C07.sign_deterministic` is `f x = f x` after rewriting equal byte strings: the model is a pure function, so it is
  trivially deterministic.  The statement with content is *which* function of the arguments the signature is: the
  ECDSA pair built from the RFC 6979 nonce of `(d, z, extra)` and from nothing else.  `ecdsaSign` composes
  `deterministic_k`, `sign_ecdsa` and a DER round trip; the theorems below read the composition back.
-/
namespace Embit.Props.C07X
open Embit Embit.Model Embit.Model.Der Embit.Model.PySecp

variable (E : EcOps) (H : HashOps)

/-- **The signature is the pair made from libsecp256k1's RFC 6979 nonce**, for every input on which `ecdsa_sign`
    answers: with `d`, `z` the integers of the 32-byte secret and message, `k = nonce_function_rfc6979(z-octets, d,
    extra)` exists, `(r, s) = sign_ecdsa(d, z, k)` after the low-S normalisation is in range, and the 64-byte result
    is `r ‖ s` (little endian, as the library's internal format). Nothing else enters the result. -/
theorem sign_eq_nonce_pair (hn : E.n ≤ 2 ^ 256) (fuel : Nat) (msg secret : Bytes) (extra : Option Bytes) (sig : Bytes)
    (h : ecdsaSign E H fuel msg secret extra = some sig) :
    ∃ k r s, Spec.Rfc6979.nonceRaw H.hmac256 fuel E.n (ofBe secret) msg extra = some k ∧
      signRS E (ofBe secret) (ofBe msg) k = some (r, s) ∧ rangeOk E.n true r s = true ∧
      sig = leN 32 r ++ leN 32 s := by
  obtain ⟨hm, _, _, k, r, s, hk, hrs, hok, rfl⟩ := ecdsaSign_inv E H hn fuel msg secret extra sig h
  refine ⟨k, r, s, ?_, hrs, hok, rfl⟩
  rw [C07.nonce_eq_libsecp] at hk
  rwa [← hm, beN_ofBe] at hk

/-- … and from the nonce of RFC 6979 §3.2 proper whenever the message value is below the group order (the excluded
    region is the known finding C07-KF1, witness `C07.rfc6979_differs_ge_n`) -/
theorem sign_eq_rfc6979_pair_partial (hn : E.n ≤ 2 ^ 256) (fuel : Nat) (msg secret : Bytes) (extra : Option Bytes)
    (sig : Bytes) (hz : ofBe msg < E.n) (h : ecdsaSign E H fuel msg secret extra = some sig) :
    ∃ k r s, Spec.Rfc6979.nonce H.hmac256 fuel E.n (ofBe secret) msg extra = some k ∧
      signRS E (ofBe secret) (ofBe msg) k = some (r, s) ∧ rangeOk E.n true r s = true ∧
      sig = leN 32 r ++ leN 32 s := by
  obtain ⟨hm, _, _, k, r, s, hk, hrs, hok, rfl⟩ := ecdsaSign_inv E H hn fuel msg secret extra sig h
  refine ⟨k, r, s, ?_, hrs, hok, rfl⟩
  rw [C07.rfc6979_eq_spec_partial H fuel E.n _ _ extra hz hn] at hk
  rwa [← hm, beN_ofBe] at hk

/-- consequently the signature is determined by the nonce: any two answers whose RFC 6979 nonces (libsecp variant)
    agree, for the same key and message integers, are the same 64 bytes — whatever the `extra` data were -/
theorem sign_determined_by_nonce (hn : E.n ≤ 2 ^ 256) (fuel fuel' : Nat) (msg msg' secret secret' : Bytes)
    (extra extra' : Option Bytes) (sig sig' : Bytes)
    (hz : ofBe msg = ofBe msg') (hd : ofBe secret = ofBe secret')
    (hk : Spec.Rfc6979.nonceRaw H.hmac256 fuel E.n (ofBe secret) msg extra =
          Spec.Rfc6979.nonceRaw H.hmac256 fuel' E.n (ofBe secret') msg' extra')
    (h : ecdsaSign E H fuel msg secret extra = some sig) (h' : ecdsaSign E H fuel' msg' secret' extra' = some sig') :
    sig = sig' := by
  obtain ⟨k, r, s, h1, h2, _, rfl⟩ := sign_eq_nonce_pair E H hn fuel msg secret extra sig h
  obtain ⟨k', r', s', h1', h2', _, rfl⟩ := sign_eq_nonce_pair E H hn fuel' msg' secret' extra' sig' h'
  rw [hk, h1'] at h1
  cases h1
  rw [hz, hd, h2'] at h2
  cases h2
  rfl

/-! ### non-vacuity: a signing call that answers, on the toy curve of `C07` with its toy HMAC -/

example : (ecdsaSign toyCurve C07.toyH 4 (beN 32 9) (beN 32 5) none).isSome = true := by decide +kernel

end Embit.Props.C07X
