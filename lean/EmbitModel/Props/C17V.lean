import EmbitModel.Proofs.ViewCost
import EmbitModel.Proofs.ViewCost2
/-
  C17, part V — the STREAMING VIEWS terminate promptly: iteration and stream-call bounds of the seeking loops of
  `psbtview.py` / `liquid/psetview.py` (instrumented in `Model/ViewCost.lean`), for EVERY buffer, every start position and
  every claimed count / caller-supplied index. The stream is Python's: `seek` beyond the end never fails.

  The bounds hold because every loop body must really FIND bytes in the buffer before the next iteration (`read` +
  length check, or `compact.read_from`, which raises at the end of the stream). The body of `_skip_input` as it was
  before `fix: PSETView stops at the end of the stream …` only seeks: `old_skip_input_follows_the_claimed_count` shows
  that its loop does exactly as many iterations as the count field says, on a 30-byte stream.
-/
namespace Embit.Props.C17V
open Embit Embit.Model Embit.Model.ViewCost

/-! ### erasure: the instrumented loops are the loops of the C05 model (`Model/View.lean`) -/

/-- the `_skip_output` loop: same outcome as `Model.skipOutputs` (which `GTx.vout` / `GTx.locktime` of the C05 model use) -/
theorem skip_outputs_erases (buf : Bytes) : ∀ (n pos : Nat),
    (skipOutputsC buf n pos).out = (match skipOutputs buf n pos with | some p => .cont () p | none => .fail) := by
  intro n
  induction n with
  | zero => intro pos; simp [skipOutputsC, loop, skipOutputs]
  | succ n ih =>
    intro pos
    simp only [skipOutputsC] at ih ⊢
    unfold loop
    cases h : skipOutputAt buf pos with
    | none =>
      have hb : skipOutputBody buf () pos = (.fail, 3) := by simp [skipOutputBody, h]
      rw [hb]; simp [skipOutputs, h]
    | some p =>
      have hb : skipOutputBody buf () pos = (.cont () p, 4) := by simp [skipOutputBody, h]
      rw [hb]; simp only [skipOutputs, h]; exact ih p

/-- `_skip_scope`: same outcome as `Model.skipScopeAt` of the C05 model for every fuel (out of fuel ↦ `none` there) -/
theorem skip_scope_erases (buf : Bytes) : ∀ (fuel pos : Nat),
    skipScopeAt buf fuel pos = (match (skipScopeC buf fuel pos).out with | .done _ p => some p | _ => none) := by
  intro fuel
  induction fuel with
  | zero => intro pos; simp [skipScopeC, loop, skipScopeAt]
  | succ n ih =>
    intro pos
    simp only [skipScopeC] at ih ⊢
    unfold loop
    cases h : skipStringAt buf pos with
    | none =>
      have hb : skipScopeBody buf () pos = (.fail, 2) := by simp [skipScopeBody, h]
      rw [hb]; simp [skipScopeAt, h]
    | some q =>
      obtain ⟨klen, p1⟩ := q
      by_cases hk : klen = 1
      · have hb : skipScopeBody buf () pos = (.done () p1, 3) := by simp [skipScopeBody, h, hk]
        rw [hb]; simp [skipScopeAt, h, hk]
      · cases h2 : skipStringAt buf p1 with
        | none =>
          have hb : skipScopeBody buf () pos = (.fail, 5) := by simp [skipScopeBody, h, hk, h2]
          rw [hb]; simp [skipScopeAt, h, hk, h2]
        | some q2 =>
          obtain ⟨x, p2⟩ := q2
          have hb : skipScopeBody buf () pos = (.cont () p2, 6) := by simp [skipScopeBody, h, hk, h2]
          rw [hb]; simp only [skipScopeAt, h, hk, h2, if_false]; exact ih p2
-- GOAL (not proved): seek_to_value / PSBTView.view global loop — rounds <= |buf| - pos + 1, steps <= c·|buf| + d with the read_bytes pieces amortised
-- GOAL (not proved): hash_rangeproofs — <= (|buf|+1)·(c·|buf|+d) steps (the loop over num_outputs re-seeks from the first scope)
-- GOAL (not proved): instrumented PSET scope parser and LTransaction.read_from (style of C17Y)

/-! ### `GlobalTransactionView`: `vout(i)` (n = i), `locktime` (n = num_vout) -/

/-- the skip loop does at most `min n ((|buf| - pos)/9 + 1)` iterations and at most 5 stream calls per iteration -/
theorem skip_outputs_linear (buf : Bytes) (n pos : Nat) :
    (skipOutputsC buf n pos).iters ≤ min n ((buf.length - pos) / 9 + 1) ∧
    (skipOutputsC buf n pos).steps ≤ 5 * min n ((buf.length - pos) / 9 + 1) := by
  have h1 := loop_iters_le (skipOutputBody buf) n () pos
  have h2 := loop_iters_bound (skipOutputBody buf) buf.length 9 9 (by omega) (by omega)
    (skipOutputBody_progress buf) n () pos
  have h3 := loop_steps_le (skipOutputBody buf) 4 (skipOutputBody_cost buf) n () pos
  unfold skipOutputsC
  omega

example : (skipOutputsC (List.replicate 8 0 ++ [0] ++ List.replicate 8 0 ++ [0]) 1000 0).iters = 3 := by decide +kernel

/-! ### `GlobalLTransactionView` -/

/-- `num_vout_offset` as it is: whatever the count field says, at most `(|buf| - vin0 + 46)/41` iterations
    (each iteration but the last found the 36 bytes up to the end of its `vout` field and went on ≥ 41 bytes) -/
theorem num_vout_offset_iterations (buf : Bytes) (numVin vin0 : Nat) :
    (numVoutOffsetLoop true buf numVin vin0).iters ≤ numVin ∧
    41 * (numVoutOffsetLoop true buf numVin vin0).iters ≤ (buf.length - vin0) + 46 ∧
    (numVoutOffsetLoop true buf numVin vin0).steps ≤ 9 * (numVoutOffsetLoop true buf numVin vin0).iters := by
  have h1 := loop_iters_le (skipInputBody true buf) numVin vin0 vin0
  have h2 := loop_iters_bound (skipInputBody true buf) buf.length 36 41 (by omega) (by omega)
    (skipInputBody_progress buf) numVin vin0 vin0
  have h3 := loop_steps_le (skipInputBody true buf) 8 (skipInputBody_cost true buf) numVin vin0 vin0
  unfold numVoutOffsetLoop
  omega

/-- `GlobalLTransactionView(stream, off).num_vout_offset`: at most `|buf|/41 + 1` iterations and `9·(|buf|/41 + 1) + 4`
    stream calls for EVERY buffer, every offset and every claimed number of inputs -/
theorem num_vout_offset_linear (buf : Bytes) (off : Nat) :
    (numVoutOffsetC true buf off).2.1 ≤ buf.length / 41 + 1 ∧
    (numVoutOffsetC true buf off).2.2 ≤ 9 * (buf.length / 41 + 1) + 4 := by
  unfold numVoutOffsetC
  cases h : compactAt buf (off + 5) with
  | none => simp
  | some q =>
    obtain ⟨n, vin0⟩ := q
    obtain ⟨_, hp⟩ := compactAt_progress h
    obtain ⟨_, h2, h3⟩ := num_vout_offset_iterations buf n vin0
    simp only
    split <;> (simp only; omega)

/-- 30 bytes of a PSET global transaction (version 2, marker 0) that claim 2^28 inputs -/
def hostile30 : Bytes := [2, 0, 0, 0, 0, 0xfe, 0, 0, 0, 0x10] ++ List.replicate 20 0

/-- BEFORE the fix (`_skip_input` only seeks, `seek` beyond the end never fails): once the position is within 32 bytes
    of the end, the loop does exactly as many iterations as the claimed count — no bound in |buf| exists -/
theorem old_skip_input_loop_unbounded (buf : Bytes) : ∀ (n off pos : Nat), buf.length ≤ pos + 32 →
    (loop (skipInputBody false buf) n off pos).iters = n := by
  intro n
  induction n with
  | zero => intro off pos _; simp [loop]
  | succ n ih =>
    intro off pos hl
    have hr : readAt buf (pos + 32) 4 = [] := by simp [readAt, List.drop_eq_nil_of_le hl]
    have hs : skipInputL false buf pos = (some (41, pos + 32 + 0 + 5), 3) := by
      unfold skipInputL; simp only [hr]; simp [ofLe]
    have hb : skipInputBody false buf off pos = (.cont (off + 41) (pos + 32 + 0 + 5), 3) := by
      unfold skipInputBody; rw [hs]
    unfold loop
    rw [hb]
    simp only
    have := ih (off + 41) (pos + 32 + 0 + 5) (by omega)
    omega

theorem num_vout_offset_iters_eq (ce : Bool) (buf : Bytes) (off n v : Nat) (h : compactAt buf (off + 5) = some (n, v)) :
    (numVoutOffsetC ce buf off).2.1 = (numVoutOffsetLoop ce buf n v).iters := by
  unfold numVoutOffsetC
  rw [h]
  simp only
  split <;> rfl

/-- the witness: on the 30-byte stream the old code does 2^28 iterations (and for every other count `n` in the count
    field just as many: `old_skip_input_loop_unbounded`), the code as it is does at most one -/
theorem old_skip_input_follows_the_claimed_count :
    (numVoutOffsetC false hostile30 0).2.1 = 2^28 ∧ hostile30.length = 30 ∧
    (numVoutOffsetC true hostile30 0).2.1 ≤ 1 := by
  have hc : compactAt hostile30 (0 + 5) = some (2^28, 10) := by decide +kernel
  refine ⟨?_, by decide, ?_⟩
  · rw [num_vout_offset_iters_eq false hostile30 0 (2^28) 10 hc]
    exact old_skip_input_loop_unbounded hostile30 (2^28) 10 10 (by decide)
  · have := (num_vout_offset_linear hostile30 0).1
    have hl : hostile30.length = 30 := by decide
    omega

/-- the Liquid `_skip_output` loop of `vout(i)` / `locktime`: at most `min n ((|buf| - pos)/42 + 1)` iterations -/
theorem skip_outputs_liquid_linear (buf : Bytes) (n pos : Nat) :
    (skipOutputsLC buf n pos).iters ≤ min n ((buf.length - pos) / 42 + 1) ∧
    (skipOutputsLC buf n pos).steps ≤ 9 * min n ((buf.length - pos) / 42 + 1) := by
  have h1 := loop_iters_le (skipOutputLBody buf) n () pos
  have h2 := loop_iters_bound (skipOutputLBody buf) buf.length 42 42 (by omega) (by omega)
    (skipOutputLBody_progress buf) n () pos
  have h3 := loop_steps_le (skipOutputLBody buf) 8 (skipOutputLBody_cost buf) n () pos
  unfold skipOutputsLC
  omega

/-! ### `PSETView._hash_to` (as fixed) -/

/-- never out of fuel, at most `(|buf| - pos)/32 + 1` iterations and 2 stream calls per iteration, for EVERY length
    prefix `l` -/
theorem hash_to_linear (buf : Bytes) (l pos : Nat) :
    (∀ s p, (hashToC buf l pos).out ≠ .cont s p) ∧
    (hashToC buf l pos).iters ≤ (buf.length - pos) / 32 + 1 ∧
    (hashToC buf l pos).steps ≤ 2 * ((buf.length - pos) / 32 + 1) := by
  have h0 := hashTo_fuel buf (l + 1) l pos (by omega)
  have h2 := loop_iters_bound (hashToBody buf) buf.length 32 32 (by omega) (by omega)
    (fun s pos s' p' c h => by obtain ⟨a, b, _, _⟩ := hashToBody_progress buf s pos s' p' c h; exact ⟨a, b⟩) (l + 1) l pos
  have h3 := loop_steps_le (hashToBody buf) 1 (hashToBody_cost buf) (l + 1) l pos
  unfold hashToC
  exact ⟨h0, by omega, by omega⟩

example : (hashToC (List.replicate 40 7) 5000 0).iters = 2 ∧
    (match (hashToC (List.replicate 40 7) 5000 0).out with | .fail => true | _ => false) = true := by decide +kernel

/-! ### `PSBTView._skip_scope` -/

/-- for EVERY fuel: at most `(|buf| - pos)/2 + 1` rounds, 7 stream calls per round; the fuel is never the reason to stop
    when it exceeds that number of rounds -/
theorem skip_scope_linear (buf : Bytes) (fuel pos : Nat) :
    (skipScopeC buf fuel pos).iters ≤ (buf.length - pos) / 2 + 1 ∧
    (skipScopeC buf fuel pos).steps ≤ 7 * ((buf.length - pos) / 2 + 1) ∧
    ((buf.length - pos) / 2 + 1 < fuel → ∀ s p, (skipScopeC buf fuel pos).out ≠ .cont s p) := by
  have h2 := loop_iters_bound (skipScopeBody buf) buf.length 2 2 (by omega) (by omega)
    (skipScopeBody_progress buf) fuel () pos
  have h3 := loop_steps_le (skipScopeBody buf) 6 (skipScopeBody_cost buf) fuel () pos
  unfold skipScopeC
  refine ⟨by omega, by omega, fun hf s p ho => ?_⟩
  have := loop_exhausted (skipScopeBody buf) fuel () pos s p ho
  omega

example : (match (skipScopeC [1, 7, 1, 9, 0] 10 0).out with | .done _ p => p | _ => 0) = 5 := by decide +kernel

/-! ### `GlobalLTransactionView.vin(i)`: the `_skip_input` loop with the caller's index as counter -/

/-- the loop of `vin(i)`: at most `min i ((|buf| - vin0 + 5)/41 + 1)` iterations, 9 stream calls per iteration,
    for every buffer, start and index -/
theorem vin_skip_loop_linear (buf : Bytes) (i vin0 : Nat) :
    (vinSkipLoop true buf i vin0).iters ≤ min i ((buf.length - vin0 + 5) / 41 + 1) ∧
    (vinSkipLoop true buf i vin0).steps ≤ 9 * min i ((buf.length - vin0 + 5) / 41 + 1) := by
  have h1 := loop_iters_le (skipInputBody true buf) i 0 vin0
  have h2 := loop_iters_bound (skipInputBody true buf) buf.length 36 41 (by omega) (by omega)
    (skipInputBody_progress buf) i 0 vin0
  have h3 := loop_steps_le (skipInputBody true buf) 8 (skipInputBody_cost true buf) i 0 vin0
  unfold vinSkipLoop
  omega

/-- `GlobalLTransactionView(stream, off).vin(i)` up to the input parser: at most `min i (|buf|/41 + 1)` iterations and
    `9·min i (|buf|/41 + 1) + 4` stream calls for EVERY buffer, offset, index and claimed number of inputs -/
theorem vin_seek_linear (buf : Bytes) (off i : Nat) :
    (vinSeekC true buf off i).2.1 ≤ min i (buf.length / 41 + 1) ∧
    (vinSeekC true buf off i).2.2 ≤ 9 * min i (buf.length / 41 + 1) + 4 := by
  unfold vinSeekC
  cases h : compactAt buf (off + 5) with
  | none => simp
  | some q =>
    obtain ⟨n, vin0⟩ := q
    obtain ⟨_, hp⟩ := compactAt_progress h
    obtain ⟨h2, h3⟩ := vin_skip_loop_linear buf i vin0
    simp only
    split
    · simp
    · split <;> (simp only; omega)

/-- the code BEFORE the fix: `vin(i)` does exactly `i` iterations once the position is within 32 bytes of the end -/
theorem old_vin_skip_loop_unbounded (buf : Bytes) (i vin0 : Nat) (h : buf.length ≤ vin0 + 32) :
    (vinSkipLoop false buf i vin0).iters = i :=
  old_skip_input_loop_unbounded buf i 0 vin0 h

example : (vinSeekC true hostile30 0 1000).2.1 = 1 ∧ (vinSeekC true hostile30 0 1000).1 = none := by decide +kernel
example : (vinSeekC true ([2, 0, 0, 0, 0, 2] ++ List.replicate 82 0) 0 1).1 = some 47 := by decide +kernel

/-! ### `PSBTView.seek_to_scope(n)`: the nested loop, amortised -/

/-- a `_skip_scope` that returns has walked over what it counted: `2·rounds ≤ (p - pos) + 1`, and it stands inside the
    buffer, at least one byte further. Hence a `_skip_scope` started AT or PAST the end of the stream never returns
    (it raises: `compact.read_from` finds no byte) -/
theorem skip_scope_consumes (buf : Bytes) (fuel pos : Nat) (a : Unit) (p : Nat)
    (h : (skipScopeC buf fuel pos).out = .done a p) :
    2 * (skipScopeC buf fuel pos).iters + pos ≤ p + 1 ∧ pos + 1 ≤ p ∧ p ≤ buf.length := by
  unfold skipScopeC at h ⊢
  have h1 := loop_done_progress (skipScopeBody buf) 2 1
    (fun s pos s' p' c hb => (skipScopeBody_progress buf s pos s' p' c hb).2)
    (fun s pos a p' c hb => (skipScopeBody_done buf s pos a p' c hb).1) fuel () pos a p h
  have h2 := loop_done_inv (skipScopeBody buf) (fun q => q ≤ buf.length)
    (fun s pos a p' c hb => (skipScopeBody_done buf s pos a p' c hb).2) fuel () pos a p h
  have h3 : 1 ≤ (loop (skipScopeBody buf) fuel () pos).iters := by
    cases fuel with
    | zero => simp [loop] at h
    | succ m => unfold loop; split <;> (simp only; omega)
  omega

/-- the invariant of the outer loop (every fuel, every n, every start) -/
theorem seek_scopes_invariant (buf : Bytes) (fuel : Nat) : ∀ (n pos : Nat),
    (seekScopesC buf fuel n pos).scopes ≤ n ∧
    (seekScopesC buf fuel n pos).steps ≤ 7 * (seekScopesC buf fuel n pos).rounds + (seekScopesC buf fuel n pos).scopes ∧
    (buf.length < pos → (seekScopesC buf fuel n pos).scopes ≤ 1 ∧
      (seekScopesC buf fuel n pos).rounds ≤ (seekScopesC buf fuel n pos).scopes) ∧
    (pos ≤ buf.length → (seekScopesC buf fuel n pos).scopes + pos ≤ buf.length + 1 ∧
      2 * (seekScopesC buf fuel n pos).rounds + pos ≤ buf.length + (seekScopesC buf fuel n pos).scopes + 1) := by
  intro n
  induction n with
  | zero => intro pos; simp [seekScopesC]; omega
  | succ n ih =>
    intro pos
    have hb := loop_iters_bound (skipScopeBody buf) buf.length 2 2 (by omega) (by omega)
      (skipScopeBody_progress buf) fuel () pos
    have hs := loop_steps_le (skipScopeBody buf) 6 (skipScopeBody_cost buf) fuel () pos
    unfold seekScopesC
    simp only
    split
    · rename_i a p ho
      obtain ⟨c1, c2, c3⟩ := skip_scope_consumes buf fuel pos a p ho
      obtain ⟨i1, i2, _, i4⟩ := ih p
      obtain ⟨i5, i6⟩ := i4 c3
      unfold skipScopeC at c1 ⊢
      simp only
      refine ⟨by omega, by omega, fun hl => by omega, fun hl => by omega⟩
    · unfold skipScopeC
      simp only
      refine ⟨by omega, by omega, fun hl => by omega, fun hl => by omega⟩

/-- `seek_to_scope(n)` (the loop from `pos = first_scope`), for EVERY buffer, start, n and fuel:
    * `_skip_scope` is called at most `min n (|buf| - pos + 1)` times — past the end of the stream `_skip_scope` raises, so `n`
      enters only through that minimum;
    * the inner rounds of ALL these calls together: `2·rounds ≤ (|buf| - pos) + scopes + 1`, hence `rounds ≤ |buf| - pos + 1`;
    * steps ≤ 7·rounds + scopes, hence `2·steps ≤ 7·(|buf| - pos) + 9·min n (|buf| - pos + 1) + 7` and
      `steps ≤ 8·(|buf| - pos + 1)` whatever n. -/
theorem seek_scopes_linear (buf : Bytes) (fuel n pos : Nat) :
    (seekScopesC buf fuel n pos).scopes ≤ min n (buf.length - pos + 1) ∧
    2 * (seekScopesC buf fuel n pos).rounds ≤ (buf.length - pos) + (seekScopesC buf fuel n pos).scopes + 1 ∧
    (seekScopesC buf fuel n pos).rounds ≤ buf.length - pos + 1 ∧
    2 * (seekScopesC buf fuel n pos).steps ≤ 7 * (buf.length - pos) + 9 * min n (buf.length - pos + 1) + 7 ∧
    (seekScopesC buf fuel n pos).steps ≤ 8 * (buf.length - pos + 1) := by
  obtain ⟨h1, h2, h3, h4⟩ := seek_scopes_invariant buf fuel n pos
  by_cases hl : buf.length < pos
  · obtain ⟨a, b⟩ := h3 hl
    omega
  · obtain ⟨a, b⟩ := h4 (by omega)
    omega

/-- `seek_to_scope(n)` with its `seek(first_scope)` -/
theorem seek_to_scope_linear (buf : Bytes) (first n : Nat) :
    (seekToScopeC buf first n).scopes ≤ min n (buf.length - first + 1) ∧
    (seekToScopeC buf first n).rounds ≤ buf.length - first + 1 ∧
    2 * (seekToScopeC buf first n).steps ≤ 7 * (buf.length - first) + 9 * min n (buf.length - first + 1) + 9 ∧
    (seekToScopeC buf first n).steps ≤ 8 * (buf.length - first + 1) + 1 := by
  obtain ⟨h1, _, h3, h4, h5⟩ := seek_scopes_linear buf (buf.length + 2) n first
  unfold seekToScopeC
  simp only
  omega

/-- past the end: started at or beyond `|buf|` with n ≥ 1, the first `_skip_scope` raises after one round -/
theorem seek_scopes_past_end (buf : Bytes) (fuel n pos : Nat) (h : buf.length ≤ pos) :
    (seekScopesC buf (fuel + 1) (n + 1) pos).pos = none ∧ (seekScopesC buf (fuel + 1) (n + 1) pos).scopes = 1 ∧
    (seekScopesC buf (fuel + 1) (n + 1) pos).rounds = 1 := by
  have hc : compactAt buf pos = none := by
    cases hq : compactAt buf pos with
    | none => rfl
    | some q => obtain ⟨v, p⟩ := q; have := (compactAt_progress hq).1; omega
  have hb : skipScopeBody buf () pos = (.fail, 2) := by simp [skipScopeBody, skipStringAt, hc]
  have hr : (skipScopeC buf (fuel + 1) pos) = ⟨.fail, 1, 1 + 2⟩ := by
    unfold skipScopeC loop; rw [hb]
  unfold seekScopesC
  simp [hr]

/-- ERASURE: the position reached is that of `View.scopeOffset.go` of the C05 model when both use the same inner fuel -/
theorem seek_scopes_erases (buf : Bytes) : ∀ (n pos : Nat),
    (seekScopesC buf (buf.length + 1) n pos).pos = View.scopeOffset.go buf n pos := by
  intro n
  induction n with
  | zero => intro pos; simp [seekScopesC, View.scopeOffset.go]
  | succ n ih =>
    intro pos
    have he := skip_scope_erases buf (buf.length + 1) pos
    unfold seekScopesC View.scopeOffset.go
    rw [he]
    simp only
    cases ho : (skipScopeC buf (buf.length + 1) pos).out with
    | done a p => simp only; exact ih p
    | cont s p => simp
    | fail => simp

-- two scopes (one pair + separator, separator), then the end: n = 1000 stops at the third call
example : (seekToScopeC [1, 7, 1, 9, 0, 0] 0 1000).scopes = 3 ∧ (seekToScopeC [1, 7, 1, 9, 0, 0] 0 1000).rounds = 4 ∧
    (seekToScopeC [1, 7, 1, 9, 0, 0] 0 2).pos = some 6 := by decide +kernel

end Embit.Props.C17V
