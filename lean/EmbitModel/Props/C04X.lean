import EmbitModel.Proofs.PsbtReject
import EmbitModel.Proofs.PsbtBip370
import EmbitModel.Proofs.PsbtDupUtxo
import EmbitModel.Props.C04
/-
  C04X — deepening of C04 (PSBT parse/serialise is lossless): the serialise-then-parse direction, the
  well-formedness of everything the parser returns, and the rejection rules as standalone theorems.

  `Model.Psbt.*` is the model of embit's psbt.py (tied to /repo by the correspondence check of C04); statements
  are about arbitrary key validators `ko`, arbitrary hash `sha`, KEEP_ALL mode (`compress = 0`) unless a theorem
  quantifies over the mode `c`.

  Well-formedness (`InWF`, `OutWF`, `PsbtWF` in Proofs/PsbtWF.lean) is explicit and decidable: size bounds of the
  wire format (every key / value fits a CompactSize prefix, 32-bit / 64-bit integers), the validity checks
  `read_value` performs on keys (`ko`), absence of duplicate keys, unknown keys that do not collide with a typed
  key, the streamed-parse fields (`_utxo`, `_txhash`, `verified`) unset, and for version 0 what comes from the
  global transaction (every scope carries its transaction fields, at least one input, tx version / locktime set).
-/
set_option linter.unusedSimpArgs false
set_option linter.unusedVariables false
namespace Embit.Props.C04X
open Embit Model Spec.Wire

/-! ### 1. serialise-then-parse: scopes -/

/-- an input scope: the pairs `write_to` emits are read back as exactly those pairs, and folding `read_value`
    over them (from the seed `read_from` starts with: empty for PSBTv2, the transaction fields for PSBTv0)
    gives the scope back -/
theorem input_scope_ser_parse (ko : KeyOps) (sha : Bytes → Bytes) (version : Option Nat) (s : InScope) (r : Bytes)
    (h : InWF ko s) :
    readKVs (writeKVs (s.pairs version) ++ r) = some (s.pairs version, r)
    ∧ InScope.addPairs ko sha 0 (InScope.seedOf version s) (s.pairs version) = some s :=
  ⟨readKVs_write _ r (InScope.pairs_wf ko version s h), InScope.addPairs_pairs ko sha version s h⟩

theorem output_scope_ser_parse (ko : KeyOps) (version : Option Nat) (s : OutScope) (r : Bytes) (h : OutWF ko s) :
    readKVs (writeKVs (s.pairs version) ++ r) = some (s.pairs version, r)
    ∧ OutScope.addPairs ko (OutScope.seedOf version s) (s.pairs version) = some s :=
  ⟨readKVs_write _ r (OutScope.pairs_wf ko version s h), OutScope.addPairs_pairs ko version s h⟩

/-- the same as `PSBT.read_from` sees it: scope number `i` read from the stream, followed by anything -/
theorem input_scope_read_ser (ko : KeyOps) (sha : Bytes → Bytes) (tx : Option Tx) (version : Option Nat)
    (s : InScope) (i : Nat) (r : Bytes) (h : InWF ko s) (hseed : seedIn tx i = InScope.seedOf version s) :
    readIns ko sha 0 tx 1 i (writeKVs (s.pairs version) ++ r) = some ([s], r) := by
  have := readIns_write ko sha tx version [s] i r (by simpa using h) (by
    intro j x hx
    cases j with
    | zero => simp at hx; subst hx; simpa using hseed
    | succ j => simp at hx)
  simpa using this

theorem output_scope_read_ser (ko : KeyOps) (tx : Option Tx) (version : Option Nat)
    (s : OutScope) (i : Nat) (r : Bytes) (h : OutWF ko s) (hseed : seedOut tx i = OutScope.seedOf version s) :
    readOuts ko tx 1 i (writeKVs (s.pairs version) ++ r) = some ([s], r) := by
  have := readOuts_write ko tx version [s] i r (by simpa using h) (by
    intro j x hx
    cases j with
    | zero => simp at hx; subst hx; simpa using hseed
    | succ j => simp at hx)
  simpa using this

/-! ### 1. serialise-then-parse: whole PSBT -/

/-- serialise-then-parse is the identity on well-formed PSBT objects, version 0 and version 2:
    `write_to` succeeds and `parse` of its output is the object, field for field -/
theorem ser_parse (ko : KeyOps) (sha : Bytes → Bytes) (p : Psbt) (h : PsbtWF ko p) :
    ∃ b, Psbt.ser p = some b ∧ Psbt.parse ko sha 0 b = some p := Psbt.parse_ser ko sha p h

/-- everything `PSBT.parse` returns is well-formed (so `ser_parse` applies to it) -/
theorem parse_wf (ko : KeyOps) (sha : Bytes → Bytes) (b : Bytes) (p : Psbt)
    (h : Psbt.parse ko sha 0 b = some p) : PsbtWF ko p := Psbt.parse_wf ko sha b p h

/-- the round trip starting from bytes: what was parsed can be written, and parsing that gives the same object
    (with `C04.parse_lossless` — nothing of `b` is missing in the object — both directions are covered) -/
theorem parse_ser_parse (ko : KeyOps) (sha : Bytes → Bytes) (b : Bytes) (p : Psbt)
    (h : Psbt.parse ko sha 0 b = some p) : ∃ b', Psbt.ser p = some b' ∧ Psbt.parse ko sha 0 b' = some p :=
  ser_parse ko sha p (parse_wf ko sha b p h)

/-- serialisation is injective on well-formed objects: two different PSBT objects never serialise alike -/
theorem ser_injective (ko : KeyOps) (p q : Psbt) (hp : PsbtWF ko p) (hq : PsbtWF ko q)
    (h : Psbt.ser p = Psbt.ser q) : p = q := by
  obtain ⟨b, e1, e2⟩ := ser_parse ko id p hp
  obtain ⟨b', e1', e2'⟩ := ser_parse ko id q hq
  rw [e1, e1'] at h
  obtain rfl := Option.some.inj h
  rw [e2] at e2'
  exact Option.some.inj e2'

/-! ### 3. rejection rules -/

/-- PSBTv2 must not carry the global unsigned transaction (any mode; `rest` = everything after the global scope) -/
theorem tx_in_v2_rejected (ko : KeyOps) (sha : Bytes → Bytes) (c : Nat) (g : List KV) (rest v w : Bytes)
    (hg : ∀ kv ∈ g, KVWF kv) (htx : ([0x00], v) ∈ g) (hver : ([0xfb], w) ∈ g) (h2 : ofLe w = 2) :
    Psbt.parse ko sha c (psbtMagic ++ (writeKVs g ++ rest)) = none := by
  apply parse_global_none ko sha c g rest hg
  intro tx ver unk hgf
  left
  obtain ⟨t, ht⟩ : ∃ t, tx = some t := by
    rcases (globalFold_spec g _ _ _ _ _ _ hgf).2.2.2.2 _ htx with ⟨_, t, ht, _⟩ | ⟨e, _⟩ | ⟨_, e, _⟩
    · exact ⟨t, ht⟩
    · simp at e
    · simp at e
  have hv := (globalFold_ver g _ _ _ _ _ _ hgf).1 _ hver rfl
  simp [ht, hv, h2]

/-- a PSBT that is not version 2 must carry the global unsigned transaction (any mode) -/
theorem missing_tx_v0_rejected (ko : KeyOps) (sha : Bytes → Bytes) (c : Nat) (g : List KV) (rest : Bytes)
    (hg : ∀ kv ∈ g, KVWF kv) (hno : ∀ kv ∈ g, kv.1 ≠ [0x00]) (hver : ∀ w, ([0xfb], w) ∈ g → ofLe w ≠ 2) :
    Psbt.parse ko sha c (psbtMagic ++ (writeKVs g ++ rest)) = none := by
  apply parse_global_none ko sha c g rest hg
  intro tx ver unk hgf
  right
  have ht : tx = none := globalFold_tx_absent g _ _ _ _ _ _ hgf hno
  have hv : ver ≠ some 2 := by
    obtain ⟨r1, r2⟩ := globalFold_ver g _ _ _ _ _ _ hgf
    by_cases hfb : ∃ kv ∈ g, kv.1 = [0xfb]
    · obtain ⟨kv, hkv, hk⟩ := hfb
      rw [r1 kv hkv hk]
      intro e
      obtain ⟨k, w⟩ := kv
      simp at hk; subst hk
      exact hver w hkv (Option.some.inj e)
    · rw [r2 (fun kv hkv e => hfb ⟨kv, hkv, e⟩)]; simp
  simp [ht, hv]

/-- a key that occurs twice in the global scope is refused (any mode) -/
theorem global_duplicate_key_rejected (ko : KeyOps) (sha : Bytes → Bytes) (c : Nat) (g : List KV) (rest : Bytes)
    (hg : ∀ kv ∈ g, KVWF kv) (hd : ¬ (g.map Prod.fst).Nodup) :
    Psbt.parse ko sha c (psbtMagic ++ (writeKVs g ++ rest)) = none := by
  apply parse_global_none ko sha c g rest hg
  intro tx ver unk hgf
  exact absurd (globalFold_keys_nodup g _ _ _ _ _ _ hgf (by simp)).1 hd

/-- a key that occurs twice in any input or output scope is refused (KEEP_ALL) -/
theorem scope_duplicate_key_rejected (ko : KeyOps) (sha : Bytes → Bytes) (g : List KV) (scopes : List (List KV))
    (hg : ∀ kv ∈ g, KVWF kv) (hs : ∀ kvs ∈ scopes, ∀ kv ∈ kvs, KVWF kv)
    (hd : ∃ kvs ∈ scopes, ¬ (kvs.map Prod.fst).Nodup) :
    Psbt.parse ko sha 0 (framePsbt g scopes) = none := by
  cases hp : Psbt.parse ko sha 0 (framePsbt g scopes) with
  | none => rfl
  | some p =>
    exfalso
    obtain ⟨tx, unk, gs, _, _, _, _, _, _, _, hl, _, _, fi, fo, _⟩ := parse_framed_decomp ko sha g scopes p hg hs hp
    obtain ⟨kvs, hk, hdup⟩ := hd
    obtain ⟨j, hj⟩ := List.mem_iff_getElem?.mp hk
    have hjl : j < scopes.length := (List.getElem?_eq_some_iff.mp hj).1
    have hne : ∀ kv ∈ kvs, kv.1 ≠ [] := fun kv hkv => (hs kvs hk kv hkv).1
    by_cases hin : j < p.inputs.length
    · obtain ⟨kvs', s, a1, _, a3⟩ := fi j hin
      rw [hj] at a1; obtain rfl := Option.some.inj a1
      exact hdup (InScope.addPairs_nodup ko sha kvs _ s hne a3).1
    · obtain ⟨kvs', s, a1, _, a3⟩ := fo (j - p.inputs.length) (by omega)
      rw [show p.inputs.length + (j - p.inputs.length) = j by omega, hj] at a1
      obtain rfl := Option.some.inj a1
      exact hdup (OutScope.addPairs_nodup ko kvs _ s hne a3).1

/-- EVERY reader mode `c` (KEEP_ALL and the two memory-saving ones), every scope object `s` the reader may start from
    (empty for PSBTv2, seeded with the transaction fields for PSBTv0): the pairs of an input scope in which key `00`
    (PSBT_IN_NON_WITNESS_UTXO) occurs twice are refused — `read_value` raises at the second pair at the latest.
    (Before `fixes/fix-compress-dup-utxo.diff` the memory-saving modes accepted them, the last one won: audit B3.) -/
theorem utxo_duplicate_rejected_all_modes (ko : KeyOps) (sha : Bytes → Bytes) (c : Nat) (s : InScope)
    (a b d : List KV) (v1 v2 : Bytes) :
    InScope.addPairs ko sha c s (a ++ ([0x00], v1) :: (b ++ ([0x00], v2) :: d)) = none :=
  InScope.addPairs_dup_utxo_none ko sha c s a b d v1 v2

/-- the same at the level of `PSBT.parse`, version 0, every mode: input scope number `j` (below the number of inputs
    of the global transaction) carries key `00` twice -/
theorem utxo_duplicate_parse_rejected_v0 (ko : KeyOps) (sha : Bytes → Bytes) (c : Nat) (g : List KV)
    (scopes : List (List KV)) (hg : ∀ kv ∈ g, KVWF kv) (hs : ∀ kvs ∈ scopes, ∀ kv ∈ kvs, KVWF kv)
    (v : Bytes) (t : Tx) (htx : ([0x00], v) ∈ g) (ht : Tx.parse v = some t)
    (j : Nat) (hj : j < t.vin.length) (a b d : List KV) (v1 v2 : Bytes)
    (hsc : scopes[j]? = some (a ++ ([0x00], v1) :: (b ++ ([0x00], v2) :: d))) :
    Psbt.parse ko sha c (framePsbt g scopes) = none := by
  apply parse_input_scope_none ko sha c g scopes hg hs j _ hsc
    (fun s => InScope.addPairs_dup_utxo_none ko sha c s a b d v1 v2)
  intro tx ver unk gs hgf c1 _ hpu
  obtain ⟨t', e1, e2⟩ := globalFold_tx_of_mem g tx ver unk v hgf htx
  rw [ht] at e2; obtain rfl := Option.some.inj e2
  subst e1
  have hv : (ver == some 2) = false := by simpa using c1
  rw [hv] at hpu
  have hnd := globalFold_nodup g none none [] _ ver unk hgf (by simp)
  have := ((parseUnknowns_spec ko false unk _ gs hnd hpu).2.2.2.2.2.2.1 rfl).2.2.1
  rw [this]
  simpa [gstate0] using hj

/-- … and version 2, every mode: input scope number `j` below the input count (key `04`) carries key `00` twice -/
theorem utxo_duplicate_parse_rejected_v2 (ko : KeyOps) (sha : Bytes → Bytes) (c : Nat) (g : List KV)
    (scopes : List (List KV)) (hg : ∀ kv ∈ g, KVWF kv) (hs : ∀ kvs ∈ scopes, ∀ kv ∈ kvs, KVWF kv)
    (w wi : Bytes) (n : Nat) (hver : ([0xfb], w) ∈ g) (h2 : ofLe w = 2)
    (hi : ([0x04], wi) ∈ g) (hn : parseAll Compact.read wi = some n)
    (j : Nat) (hj : j < n) (a b d : List KV) (v1 v2 : Bytes)
    (hsc : scopes[j]? = some (a ++ ([0x00], v1) :: (b ++ ([0x00], v2) :: d))) :
    Psbt.parse ko sha c (framePsbt g scopes) = none := by
  apply parse_input_scope_none ko sha c g scopes hg hs j _ hsc
    (fun s => InScope.addPairs_dup_utxo_none ko sha c s a b d v1 v2)
  intro tx ver unk gs hgf c1 _ hpu
  have hpv : ver = some 2 := by
    rw [(globalFold_ver g _ _ _ _ _ _ hgf).1 _ hver rfl, h2]
  subst hpv
  have htx : tx = none := by cases tx <;> simp_all
  subst htx
  obtain ⟨c1', _⟩ := parse_v2_counts ko g unk _ gs hgf (by simpa using hpu)
  rw [c1' wi hi, hn]
  simpa using hj

/-- what is accepted has exactly as many scopes as inputs plus outputs (KEEP_ALL) -/
theorem accepted_scope_count (ko : KeyOps) (sha : Bytes → Bytes) (g : List KV) (scopes : List (List KV)) (p : Psbt)
    (hg : ∀ kv ∈ g, KVWF kv) (hs : ∀ kvs ∈ scopes, ∀ kv ∈ kvs, KVWF kv)
    (h : Psbt.parse ko sha 0 (framePsbt g scopes) = some p) :
    scopes.length = p.inputs.length + p.outputs.length := by
  obtain ⟨_, _, _, _, _, _, _, _, _, _, hl, _⟩ := parse_framed_decomp ko sha g scopes p hg hs h
  exact hl

/-- version 0: the number of scopes must be the number of inputs plus outputs of the global transaction -/
theorem count_mismatch_rejected_v0 (ko : KeyOps) (sha : Bytes → Bytes) (g : List KV) (scopes : List (List KV))
    (hg : ∀ kv ∈ g, KVWF kv) (hs : ∀ kvs ∈ scopes, ∀ kv ∈ kvs, KVWF kv)
    (v : Bytes) (t : Tx) (htx : ([0x00], v) ∈ g) (ht : Tx.parse v = some t)
    (hc : scopes.length ≠ t.vin.length + t.vout.length) :
    Psbt.parse ko sha 0 (framePsbt g scopes) = none := by
  cases hp : Psbt.parse ko sha 0 (framePsbt g scopes) with
  | none => rfl
  | some p =>
    exfalso
    obtain ⟨tx, unk, gs, hgf, _, _, _, _, _, _, hl, _, _, _, _, ft⟩ := parse_framed_decomp ko sha g scopes p hg hs hp
    obtain ⟨t', e1, e2⟩ := globalFold_tx_of_mem g tx _ unk v hgf htx
    rw [ht] at e2; obtain rfl := Option.some.inj e2
    obtain ⟨_, l1, l2⟩ := ft t e1
    omega

/-- version 2: the number of scopes must be the sum of the two count fields -/
theorem count_mismatch_rejected_v2 (ko : KeyOps) (sha : Bytes → Bytes) (g : List KV) (scopes : List (List KV))
    (hg : ∀ kv ∈ g, KVWF kv) (hs : ∀ kvs ∈ scopes, ∀ kv ∈ kvs, KVWF kv)
    (w wi wo : Bytes) (a b : Nat) (hver : ([0xfb], w) ∈ g) (h2 : ofLe w = 2)
    (hi : ([0x04], wi) ∈ g) (ha : parseAll Compact.read wi = some a)
    (ho : ([0x05], wo) ∈ g) (hb : parseAll Compact.read wo = some b)
    (hc : scopes.length ≠ a + b) :
    Psbt.parse ko sha 0 (framePsbt g scopes) = none := by
  cases hp : Psbt.parse ko sha 0 (framePsbt g scopes) with
  | none => rfl
  | some p =>
    exfalso
    obtain ⟨tx, unk, gs, hgf, hpu, hv, _, _, _, _, hl, l3, l4, _, _, _⟩ :=
      parse_framed_decomp ko sha g scopes p hg hs hp
    have hpv : p.version = some 2 := by
      rw [(globalFold_ver g _ _ _ _ _ _ hgf).1 _ hver rfl, h2]
    rcases hv with ⟨_, rfl⟩ | ⟨hn, _⟩
    · rw [hpv] at hpu
      obtain ⟨c1, c2⟩ := parse_v2_counts ko g unk _ gs hgf (by simpa using hpu)
      rw [c1 wi hi, ha] at l3
      rw [c2 wo ho, hb] at l4
      simp at l3 l4
      omega
    · exact hn hpv

/-- version 0: a scope must not carry the PSBTv2 transaction fields — keys 0e / 0f / 10 in an input scope,
    03 / 04 in an output scope (they would contradict the global transaction; embit reports a duplicate) -/
theorem v2_scope_fields_in_v0_rejected (ko : KeyOps) (sha : Bytes → Bytes) (g : List KV) (scopes : List (List KV))
    (hg : ∀ kv ∈ g, KVWF kv) (hs : ∀ kvs ∈ scopes, ∀ kv ∈ kvs, KVWF kv)
    (v : Bytes) (t : Tx) (htx : ([0x00], v) ∈ g) (ht : Tx.parse v = some t)
    (j : Nat) (kvs : List KV) (hj : scopes[j]? = some kvs)
    (hbad : (j < t.vin.length ∧ ∃ kv ∈ kvs, txFieldKey kv.1 = true)
          ∨ (t.vin.length ≤ j ∧ ∃ kv ∈ kvs, txFieldKeyOut kv.1 = true)) :
    Psbt.parse ko sha 0 (framePsbt g scopes) = none := by
  cases hp : Psbt.parse ko sha 0 (framePsbt g scopes) with
  | none => rfl
  | some p =>
    exfalso
    obtain ⟨tx, unk, gs, hgf, _, _, _, _, _, _, hl, _, _, fi, fo, ft⟩ := parse_framed_decomp ko sha g scopes p hg hs hp
    obtain ⟨t', e1, e2⟩ := globalFold_tx_of_mem g tx _ unk v hgf htx
    rw [ht] at e2; obtain rfl := Option.some.inj e2
    subst e1
    obtain ⟨_, l1, l2⟩ := ft t rfl
    have hjl : j < scopes.length := (List.getElem?_eq_some_iff.mp hj).1
    rcases hbad with ⟨hlt, kv, hkv, hk⟩ | ⟨hge, kv, hkv, hk⟩
    · obtain ⟨kvs', s, a1, _, a3⟩ := fi j (by omega)
      rw [hj] at a1; obtain rfl := Option.some.inj a1
      have hseed : InSeeded (seedIn (some t) j) := by simp [seedIn, List.getElem?_eq_getElem hlt, InSeeded]
      have := InScope.addPairs_seeded_keys ko sha 0 kvs _ s hseed a3 kv hkv
      rw [hk] at this; simp at this
    · obtain ⟨kvs', s, a1, _, a3⟩ := fo (j - p.inputs.length) (by omega)
      rw [show p.inputs.length + (j - p.inputs.length) = j by omega, hj] at a1
      obtain rfl := Option.some.inj a1
      have hlt : j - p.inputs.length < t.vout.length := by omega
      have hseed : OutSeeded (seedOut (some t) (j - p.inputs.length)) := by
        simp [seedOut, List.getElem?_eq_getElem hlt, OutSeeded]
      have := OutScope.addPairs_seeded_keys ko kvs _ s hseed a3 kv hkv
      rw [hk] at this; simp at this

/-! ### 2. the PSBTv2 transaction is the BIP370 transaction -/

/-- Version 2: the transaction `PSBT.tx` reconstructs from the per-scope fields is the transaction BIP370
    (Spec/Bip370.lean: tx version, lock-time rule, input i = (previous txid, output index, sequence or 0xffffffff),
    output j = (amount, script)) assigns to the RAW maps `g`, `ins`, `outs` of the byte string — as `Option`s: a
    required field is missing on one side iff on the other.

    `_partial`: two explicit, decidable hypotheses exclude the regions where embit deviates from BIP370
    * `hreq` — no input carries PSBT_IN_REQUIRED_TIME_LOCKTIME (11) / PSBT_IN_REQUIRED_HEIGHT_LOCKTIME (12).
      Of BIP370's "Determining Lock Time" embit implements exactly the first case (fallback lock time, 0 when
      absent); the required lock times are carried as unknown keys and ignored: `required_locktime_ignored`.
    * `htv` — PSBT_GLOBAL_TX_VERSION (02) is present. BIP370 requires it; embit substitutes 2:
      `missing_tx_version_defaults_to_2`.
    `hcnt` says which of the scopes are the inputs (`p.inputs.length` is the value of the count field 04, see
    `count_mismatch_rejected_v2`). -/
theorem v2_tx_eq_bip370_partial (ko : KeyOps) (sha : Bytes → Bytes) (g : List KV) (ins outs : List (List KV))
    (p : Psbt) (hg : ∀ kv ∈ g, KVWF kv) (hs : ∀ kvs ∈ ins ++ outs, ∀ kv ∈ kvs, KVWF kv)
    (h : Psbt.parse ko sha 0 (framePsbt g (ins ++ outs)) = some p)
    (hv : p.version = some 2) (hcnt : p.inputs.length = ins.length)
    (htv : (Spec.Bip370.get g Spec.Bip370.GLOBAL_TX_VERSION).isSome = true)
    (hreq : ∀ m ∈ ins, Spec.Bip370.get m Spec.Bip370.IN_REQUIRED_TIME_LOCKTIME = none
                      ∧ Spec.Bip370.get m Spec.Bip370.IN_REQUIRED_HEIGHT_LOCKTIME = none) :
    p.tx = Spec.Bip370.unsignedTx g ins outs :=
  Psbt.tx_eq_bip370 ko sha g ins outs p hg hs h hv hcnt htv hreq

/-- on the wire: the serialised transactions are the same bytes -/
theorem v2_tx_wire_eq_bip370_partial (ko : KeyOps) (sha : Bytes → Bytes) (g : List KV) (ins outs : List (List KV))
    (p : Psbt) (hg : ∀ kv ∈ g, KVWF kv) (hs : ∀ kvs ∈ ins ++ outs, ∀ kv ∈ kvs, KVWF kv)
    (h : Psbt.parse ko sha 0 (framePsbt g (ins ++ outs)) = some p)
    (hv : p.version = some 2) (hcnt : p.inputs.length = ins.length)
    (htv : (Spec.Bip370.get g Spec.Bip370.GLOBAL_TX_VERSION).isSome = true)
    (hreq : ∀ m ∈ ins, Spec.Bip370.get m Spec.Bip370.IN_REQUIRED_TIME_LOCKTIME = none
                      ∧ Spec.Bip370.get m Spec.Bip370.IN_REQUIRED_HEIGHT_LOCKTIME = none) :
    p.tx.map Tx.ser = (Spec.Bip370.unsignedTx g ins outs).map Spec.Wire.encode := by
  rw [v2_tx_eq_bip370_partial ko sha g ins outs p hg hs h hv hcnt htv hreq]
  cases Spec.Bip370.unsignedTx g ins outs with
  | none => rfl
  | some t => simp [C03.ser_eq_wire]

/-! ### non-vacuity and witnesses -/

def exIn : InScope :=
  { txid := some (List.replicate 32 7), vout := some 1, sequence := some 0xfffffffe,
    witnessUtxo := some { value := 5000, spk := [0x00, 0x14] ++ List.replicate 20 1 },
    partialSigs := [(2 :: List.replicate 32 3, [0x30, 0x01])], sighashType := some 1,
    bip32 := [(2 :: List.replicate 32 3, { fingerprint := [1, 2, 3, 4], path := [0x80000054, 0, 5] })],
    tapBip32 := [(List.replicate 32 4, ([List.replicate 32 8], { fingerprint := [1, 2, 3, 4], path := [1] }))],
    finalWitness := some [[1, 2], []],
    unknown := [([0xf0, 0x01], [0xaa])] }

def exOut : OutScope :=
  { value := some 4000, spk := some [0x51], tapInternalKey := some (List.replicate 32 9), unknown := [([0xfc, 1], [])] }

/-- a version-2 object with every kind of field -/
def exV2 : Psbt :=
  { version := some 2, txVersion := some 2, locktime := some 0, inputs := [exIn], outputs := [exOut],
    xpubs := [(List.replicate 78 5, { fingerprint := [0, 0, 0, 0], path := [] })], unknown := [([0xfc, 0x05], [1])] }

/-- a version-0 object (no version field; a global key 02 is an unknown key there) -/
def exV0 : Psbt := { exV2 with version := none, unknown := [([0x02], [9])] }

set_option maxRecDepth 100000 in
example : InWF C04.trivialKo exIn ∧ OutWF C04.trivialKo exOut := by decide
set_option maxRecDepth 100000 in
example : PsbtWF C04.trivialKo exV2 := by decide
set_option maxRecDepth 100000 in
example : PsbtWF C04.trivialKo exV0 := by decide
set_option maxRecDepth 100000 in
example : ((Psbt.ser exV2).bind (Psbt.parse C04.trivialKo id 0)).isSome = true
    ∧ ((Psbt.ser exV0).bind (Psbt.parse C04.trivialKo id 0)).isSome = true := by decide
set_option maxRecDepth 100000 in
/-- … and re-serialising what was parsed gives the same bytes (kernel computation on the examples) -/
example : ((Psbt.ser exV2).bind (Psbt.parse C04.trivialKo id 0)).bind Psbt.ser = Psbt.ser exV2
    ∧ ((Psbt.ser exV0).bind (Psbt.parse C04.trivialKo id 0)).bind Psbt.ser = Psbt.ser exV0 := by decide
/-- well-formedness is not vacuous the other way either: a scope with a duplicate key is not well-formed -/
example : ¬ InWF C04.trivialKo { exIn with unknown := [([0xf0], [1]), ([0xf0], [2])] } := by decide

/-- raw maps of a small version-2 PSBT: tx version 2, fallback lock time 7, one input (sequence absent), one output -/
def exG : List KV :=
  [([0xfb], [2, 0, 0, 0]), ([0x02], [2, 0, 0, 0]), ([0x03], [7, 0, 0, 0]), ([0x04], [1]), ([0x05], [1])]
def exInKV : List KV := [([0x0e], List.replicate 32 7), ([0x0f], [1, 0, 0, 0])]
def exOutKV : List KV := [([0x03], [0x88, 0x13, 0, 0, 0, 0, 0, 0]), ([0x04], [0x51])]

set_option maxRecDepth 100000 in
/-- the hypotheses of `v2_tx_eq_bip370_partial` hold for it, and the common value is a transaction -/
example : (∀ kv ∈ exG, KVWF kv) ∧ (∀ kvs ∈ [exInKV] ++ [exOutKV], ∀ kv ∈ kvs, KVWF kv)
    ∧ ((Psbt.parse C04.trivialKo id 0 (framePsbt exG ([exInKV] ++ [exOutKV]))).map
        (fun p => (p.version, p.inputs.length))) = some (some 2, 1)
    ∧ Spec.Bip370.unsignedTx exG [exInKV] [exOutKV]
      = some { version := 2, locktime := 7,
               vin := [{ txid := List.replicate 32 7, vout := 1, scriptSig := [], sequence := 0xffffffff, witness := [] }],
               vout := [{ value := 5000, spk := [0x51] }] } := by decide

set_option maxRecDepth 100000 in
/-- witness for `hreq`: an input that requires the height lock time 200000 — BIP370 assigns lock time 200000,
    embit's `PSBT.tx` uses the fallback lock time 7 -/
theorem required_locktime_ignored :
    let ins := [exInKV ++ [([0x12], [0x40, 0x0d, 0x03, 0x00])]]
    ((Psbt.parse C04.trivialKo id 0 (framePsbt exG (ins ++ [exOutKV]))).bind Psbt.tx).map (·.locktime) = some 7
    ∧ (Spec.Bip370.unsignedTx exG ins [exOutKV]).map (·.locktime) = some 200000 := by decide

set_option maxRecDepth 100000 in
/-- witness for `htv`: without PSBT_GLOBAL_TX_VERSION BIP370 assigns no transaction, embit builds one of version 2 -/
theorem missing_tx_version_defaults_to_2 :
    let g := exG.filter (fun kv => kv.1 != [0x02])
    ((Psbt.parse C04.trivialKo id 0 (framePsbt g ([exInKV] ++ [exOutKV]))).bind Psbt.tx).map (·.version) = some 2
    ∧ Spec.Bip370.unsignedTx g [exInKV] [exOutKV] = none := by decide

/-- a global scope with the unsigned transaction AND version 2 (hypotheses of `tx_in_v2_rejected`) -/
example : let g : List KV := [([0x00], Tx.ser C03.exLegacy), ([0xfb], [2, 0, 0, 0])]
    (∀ kv ∈ g, KVWF kv) ∧ ([0x00], Tx.ser C03.exLegacy) ∈ g ∧ ([0xfb], [2, 0, 0, 0]) ∈ g ∧ ofLe [2, 0, 0, 0] = 2 := by
  decide

/-- a global scope without transaction and with version 0 (hypotheses of `missing_tx_v0_rejected`) -/
example : let g : List KV := [([0xfb], [0, 0, 0, 0]), ([0xf0], [1])]
    (∀ kv ∈ g, KVWF kv) ∧ (∀ kv ∈ g, kv.1 ≠ [0x00]) ∧ (∀ w, ([0xfb], w) ∈ g → ofLe w ≠ 2) := by
  refine ⟨by decide, by decide, ?_⟩
  intro w hw
  simp at hw
  subst hw; decide

/-- duplicate key in a scope / count mismatch / v2 field in a v0 scope: the hypotheses are satisfiable -/
example : (∃ kvs ∈ [exInKV ++ [([0x0f], [2, 0, 0, 0])], exOutKV], ¬ (kvs.map Prod.fst).Nodup) := by decide
example : ([0x04], [1]) ∈ exG ∧ parseAll Compact.read [1] = some 1 ∧ ([0x05], [1]) ∈ exG
    ∧ [exInKV].length ≠ 1 + 1 := by decide
def exUnsigned : Tx :=
  { C03.exLegacy with vin := [{ txid := List.replicate 32 7, vout := 1, scriptSig := [], sequence := 0, witness := [] }] }
example : Tx.parse (Tx.ser exUnsigned) ≠ none ∧ txFieldKey [0x0e] = true ∧ txFieldKeyOut [0x03] = true := by decide

/-- a previous transaction with two outputs, and the input scope of `exG`'s PSBT carrying it once / twice -/
def exPrev : Tx := { C03.exLegacy with vout := [{ value := 1, spk := [0x51] }, { value := 5000, spk := [0x6a] }] }
def exInOnce : List KV := exInKV ++ [([0x00], Tx.ser exPrev)]
def exInDup : List KV := exInKV ++ ([0x00], Tx.ser exPrev) :: ([] ++ ([0x00], Tx.ser exPrev) :: [])

set_option maxRecDepth 100000 in
/-- `utxo_duplicate_rejected_all_modes` / `utxo_duplicate_parse_rejected_v2` are not vacuous: the hypotheses hold for
    `exG`, `[exInDup, exOutKV]` (scope 0 of 1 input), and with the key ONCE the memory-saving modes accept the PSBT and
    keep only the hash and the spent output (`_txhash`, `_utxo`) — the very state the repaired check looks at -/
example : (∀ kv ∈ exG, KVWF kv) ∧ (∀ kvs ∈ [exInDup, exOutKV], ∀ kv ∈ kvs, KVWF kv)
    ∧ ([0xfb], [2, 0, 0, 0]) ∈ exG ∧ ofLe [2, 0, 0, 0] = 2 ∧ ([0x04], [1]) ∈ exG ∧ parseAll Compact.read [1] = some 1
    ∧ [exInDup, exOutKV][0]? = some exInDup
    ∧ (Psbt.parse C04.trivialKo id 1 (framePsbt exG [exInOnce, exOutKV])).map
        (fun p => p.inputs.map fun s => (s.txhash.isSome, s.nonWitnessUtxo.isSome, s.utxoS))
        = some [(true, false, some { value := 5000, spk := [0x6a] })]
    ∧ (Psbt.parse C04.trivialKo id 2 (framePsbt exG [exInOnce, exOutKV])).isSome = true := by decide
example : ∀ c, Psbt.parse C04.trivialKo id c (framePsbt exG [exInDup, exOutKV]) = none := fun c =>
  utxo_duplicate_parse_rejected_v2 C04.trivialKo id c exG [exInDup, exOutKV] (by decide) (by decide)
    [2, 0, 0, 0] [1] 1 (by decide) (by decide) (by decide) (by decide) 0 (by decide) exInKV [] [] _ _ rfl

/-- embit does NOT refuse the PSBTv2-only GLOBAL keys (02–05) in a version-0 PSBT: they stay in `unknown`
    (and are written back), as for any unknown key -/
theorem v2_global_keys_in_v0_kept :
    (Psbt.parse C04.trivialKo id 0 (psbtMagic ++ writeKVs [([0x00], Tx.ser exUnsigned), ([0x02], [9, 0, 0, 0])]
      ++ writeKVs [] ++ writeKVs [])).map (·.unknown) = some [([0x02], [9, 0, 0, 0])] := by decide

end Embit.Props.C04X
