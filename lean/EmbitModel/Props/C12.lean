import EmbitModel.Proofs.DescChecksum
import EmbitModel.Proofs.DescCommute
import EmbitModel.Proofs.DescText
import EmbitModel.Proofs.DescMs
/-
  C12 — Descriptors print/parse stably and derive the scripts BIP380-386 prescribe.
  Property theorems only. `Model.Descriptor.*` is the model of embit's descriptor code (descriptor.py, arguments.py,
  taptree.py, checksum.py, the text parser of miniscript.py, the script builders of script.py), tied to the repo by
  the correspondence check; `Spec.Descriptor.*` is what BIP380-386 (+BIP341, BIP67, BIP389) prescribe.
  Key objects and hashes are parameters: `KeyOps`, `Hashes`; what is assumed of them is the explicit hypothesis
  `KeyLaws` (C09) / the `text` field of `KeyNormal` (C10/C11) — never an axiom.
-/
namespace Embit.Props.C12
open Embit Embit.Miniscript Embit.Model.Descriptor Embit.Spec.Descriptor

/-! ### BIP380 checksum -/

/-- `checksum(desc)` (checksum.py: streaming loop) is the checksum of BIP380 (`descsum_expand` then
    `descsum_polymod` over the symbol list, eight zero symbols, `^ 1`, checksum alphabet) — for every text; both
    reject exactly the texts with a character outside INPUT_CHARSET -/
theorem checksum_eq_bip380 (s : Str) : checksum s = descsumChecksum s := checksum_eq_spec s

/-- `add_checksum(desc)` of a text without `#` is BIP380's `descsum_create(desc)` -/
theorem add_checksum_eq_create (s : Str) (h : s.contains '#' = false) : addChecksum s = descsumCreate s := by
  unfold addChecksum descsumCreate
  simp only [h, Bool.false_eq_true, if_false, checksum_eq_spec]
  cases descsumChecksum s <;> rfl

/-- `add_checksum` applied to its own output changes nothing -/
theorem add_checksum_idempotent (s t : Str) (h : addChecksum s = some t) : addChecksum t = some t :=
  addChecksum_idem s t h

/-- create/verify: the checksum BIP380 creates (= the one embit appends) passes BIP380's `descsum_check`.
    Proof: the eight trailing symbols never reach the feedback taps of the polymod, so they enter it XOR-linearly
    (`round_delta`, `fold_delta`), and packing the eight 5-bit digits of a 40-bit value returns it. -/
theorem checksum_verifies (s cs : Str) (h : descsumChecksum s = some cs) : descsumCheck s cs = true := by
  unfold descsumChecksum at h
  cases he : descsumExpand s with
  | none => simp [he] at h
  | some sym =>
    simp only [he, Option.map_some, Option.some.injEq] at h
    subst h
    let Z := descsumPolymod (sym ++ [0, 0, 0, 0, 0, 0, 0, 0])
    have hZ : Z < 2 ^ 40 := by
      show List.foldl polymodRound 1 (sym ++ [0, 0, 0, 0, 0, 0, 0, 0]) < 2 ^ 40
      have : sym ++ [0, 0, 0, 0, 0, 0, 0, 0] = (sym ++ [0, 0, 0, 0, 0, 0, 0]) ++ [0] := by simp
      rw [this, List.foldl_append]
      exact round_lt _ 0 (by decide)
    have hX : Z ^^^ 1 < 2 ^ 40 := Nat.xor_lt_two_pow hZ (by decide)
    unfold descsumCheck
    simp only [he, List.length_map, checksumSymbols_length, decide_true, Bool.true_and,
      mapFind_symbols _ (checksumSymbols_lt _)]
    show decide (descsumPolymod (sym ++ checksumSymbols (Z ^^^ 1)) = 1) = true
    have key : descsumPolymod (sym ++ checksumSymbols (Z ^^^ 1)) = 1 := by
      unfold descsumPolymod
      rw [List.foldl_append]
      have := fold_delta (checksumSymbols (Z ^^^ 1)) (List.foldl polymodRound 1 sym) 0 0 (by decide)
        (by rw [checksumSymbols_length]; decide) (checksumSymbols_lt _)
      rw [Nat.xor_zero] at this
      rw [this, checksumSymbols_length, pack_symbols _ hX]
      have hz : List.foldl polymodRound (List.foldl polymodRound 1 sym) (List.replicate 8 0) = Z := by
        show _ = List.foldl polymodRound 1 (sym ++ [0, 0, 0, 0, 0, 0, 0, 0])
        rw [List.foldl_append]
        rfl
      rw [hz, ← Nat.xor_assoc, Nat.xor_self, Nat.zero_xor]
    simp [key]

/-- … in particular the text embit produces with `add_checksum` verifies -/
theorem add_checksum_verifies (s t : Str) (hs : s.contains '#' = false) (h : addChecksum s = some t) :
    ∃ cs, t = s ++ '#' :: cs ∧ descsumCheck s cs = true := by
  rw [add_checksum_eq_create s hs] at h
  unfold descsumCreate at h
  cases hc : descsumChecksum s with
  | none => simp [hc] at h
  | some cs =>
    simp only [hc, Option.map_some, Option.some.injEq] at h
    exact ⟨cs, h.symm, checksum_verifies s cs hc⟩

set_option maxRecDepth 100000 in
/-- non-vacuity: BIP380's own example `raw(deadbeef)#89f8spxm` -/
example : checksum ['r', 'a', 'w', '(', 'd', 'e', 'a', 'd', 'b', 'e', 'e', 'f', ')']
    = some ['8', '9', 'f', '8', 's', 'p', 'x', 'm'] := by decide +kernel

/-! ### scripts -/

variable {K : Type}

/-- SCRIPT = SPEC. For every descriptor object of one of the seven forms (`formOf`), every index below 2^31 and
    every branch: whenever `derive(i, b)` succeeds, `script_pubkey()` of the derived descriptor is the script
    BIP380–386 prescribe for that form (pkh, wpkh, sh(wpkh), sh / wsh / sh(wsh) over the miniscript translation
    table incl. multi / sortedmulti, tr with the BIP341 merkle root and output-key tweak) from the public keys
    `deriveKey k i b` of its key expressions (BIP32 itself = `ops.derive`, abstract: C09).
    `laws`: named hypotheses on the key operations; `hargs`: every pushed key/hash is a direct push and the keys of
    a `sortedmulti` have one length (the hypothesis of C13's template theorem — holds when all keys are compressed). -/
theorem script_eq_spec {ops : KeyOps K} {h : Hashes} {tweakAdd : Bytes → Bytes → Option Bytes}
    (laws : KeyLaws ops h tweakAdd) (d d' : Desc K) (fm : Form K) (i b : Nat) (hi : i < 2 ^ 31)
    (hs : d.Shaped) (hform : formOf d = some fm) (hd : d.derive ops h i (some b) = some d')
    (hargs : ∀ e ∈ d.exprs, ∀ m,
      e.toMs (argBytes h d.taproot (fun k => deriveKey ops k i b)) = some m → m.argsOk = true) :
    d'.scriptPubkey ops h = scriptAt ops h tweakAdd d i b :=
  script_eq_spec_core laws d d' fm i b hi hs hform hd hargs

/-- the miniscript template of `multi` / `sortedmulti` is the BIP383 script (`sortedmulti`: keys in BIP67 order) -/
theorem multi_eq_bip383 (k : Nat) (keys : List Bytes) :
    Spec.Miniscript.scriptBytes (.multi .multi k keys) = multiScript k keys
    ∧ Spec.Miniscript.scriptBytes (.multi .sortedmulti k keys) = sortedmultiScript k keys := by
  constructor <;>
    simp [Spec.Miniscript.scriptBytes, Spec.Miniscript.desugar, Spec.Miniscript.script, Spec.Miniscript.serScript,
      Spec.Miniscript.Elem.ser, multiScript, sortedmultiScript, List.flatMap_append, List.flatMap_map,
      Spec.Miniscript.Op.code, OP_CHECKMULTISIG]

/-- `sortedmulti` is sorted AFTER derivation: the compiled script of the derived expression is the BIP383 script
    over the DERIVED public keys in lexicographic order (not the order of the key expressions, nor of the xpubs) -/
theorem sortedmulti_sorted_after_derivation {ops : KeyOps K} {h : Hashes}
    {tweakAdd : Bytes → Bytes → Option Bytes} (laws : KeyLaws ops h tweakAdd) (k : Nat)
    (keys keys' : List (KeyExpr K)) (i b : Nat) (hi : i < 2 ^ 31)
    (hm : mapOpt (fun ke => ke.derive ops h (some i) (some b)) keys = some keys')
    (hacc : Model.Miniscript.accepts .wsh (DMs.multi .sortedmulti k keys' : DMs K).shape = true)
    (pubs : List Bytes) (hp : mapOpt (fun ke => deriveKey ops ke i b) keys = some pubs)
    (hlen : sameLen pubs = true ∧ ∀ a ∈ pubs, a.length < 76) :
    compileMs ops h false (.multi .sortedmulti k keys') = some (sortedmultiScript k pubs) := by
  have hq : (DMs.multi .sortedmulti k keys : DMs K).toMs (argBytes h false (fun ke => deriveKey ops ke i b))
      = some (.multi .sortedmulti k pubs) := by
    simp only [DMs.toMs]
    have : mapOpt (argBytes h false (fun ke => deriveKey ops ke i b) .pk_k) keys = some pubs := by
      rw [← hp]
      apply mapOpt_congr
      intro x _
      simp only [argBytes, Bool.false_eq_true, if_false]
      cases deriveKey ops x i b <;> rfl
    rw [this]
    rfl
  have := compile_derived_eq laws false (.multi .sortedmulti k keys) (.multi .sortedmulti k keys') i b hi
    (by simp only [DMs.mapKeys, hm, Option.map_some]) (by simpa [ctxOf] using hacc)
    (by
      intro m hmm
      rw [hq] at hmm
      cases hmm
      simp only [Ms.argsOk, Bool.and_eq_true, List.all_eq_true, decide_eq_true_eq]
      exact ⟨hlen.2, hlen.1⟩)
  rw [this, hq]
  simp only [Option.map_some, (multi_eq_bip383 k pubs).2]

/-- the hash `_tweak_helper` computes for a tap tree is BIP341's merkle root over the compiled leaf scripts:
    leaves `TapLeaf(0xc0 ‖ compact_size(len) ‖ script)`, branches `TapBranch` over the two child hashes in
    ascending order -/
theorem taptree_hash_eq_bip341 (ops : KeyOps K) (h : Hashes) (t : TapTree K) :
    (tweakHelper ops h t).map (·.2) =
      (compiledTree ops h t).map (merkleRoot h) := by
  rw [tweakHelper_root]
  induction t with
  | empty => rfl
  | leaf ms =>
    simp only [treeRoot, compiledTree]
    cases compileMs ops h true ms <;> rfl
  | node l r ihl ihr =>
    simp only [treeRoot, compiledTree, ihl, ihr]
    cases compiledTree ops h l <;> cases compiledTree ops h r <;> rfl

/-- … and for a DERIVED tree that root is the root of the specification's resolved tree (leaf scripts = the
    specified scripts over `deriveKey` public keys) -/
theorem taptree_hash_derived_eq_bip341 {ops : KeyOps K} {h : Hashes} {tweakAdd : Bytes → Bytes → Option Bytes}
    (laws : KeyLaws ops h tweakAdd) (t t' : TapTree K) (i b : Nat) (hi : i < 2 ^ 31)
    (ht : t.mapKeys (fun k => k.derive ops h (some i) (some b)) = some t') (hne : t ≠ .empty)
    (hargs : ∀ e ∈ t.leaves, ∀ m, e.toMs (argBytes h true (fun k => deriveKey ops k i b)) = some m →
      m.argsOk = true) :
    t'.tweak ops h = (resolveTree h (fun k => deriveKey ops k i b) t).map (merkleRoot h) :=
  tree_tweak_derived laws t t' i b hi ht hne hargs

/-- CONVERTING TO PUBLIC KEYS FIRST never changes a derived script: if `to_public()` succeeds and the public
    descriptor can be derived at (i, b) (no hardened step after a private key), its script is the script of the
    private descriptor derived at (i, b). Uses C09's neutering laws (`KeyLaws`). -/
theorem to_public_commutes {ops : KeyOps K} {h : Hashes} {tweakAdd : Bytes → Bytes → Option Bytes}
    (laws : KeyLaws ops h tweakAdd) (d dp d1 d2 : Desc K) (i : Nat) (br : Option Nat) (hs : d.Shaped)
    (hp : d.toPublic ops = some dp) (h1 : dp.derive ops h i br = some d1) (h2 : d.derive ops h i br = some d2) :
    d1.scriptPubkey ops h = d2.scriptPubkey ops h :=
  Desc.scripts_agree laws _ _ _ d dp d1 d2 hs hp h1 h2
    (fun k kp k1 k2 _ hkp hk1 hk2 => toPublic_derive_agree laws (some i) br k kp k1 k2 hkp hk1 hk2)

/-- … and neutering AFTER deriving does not change it either -/
theorem derive_then_to_public {ops : KeyOps K} {h : Hashes} {tweakAdd : Bytes → Bytes → Option Bytes}
    (laws : KeyLaws ops h tweakAdd) (d d2 d3 : Desc K) (i : Nat) (br : Option Nat) (hs : d.Shaped)
    (h2 : d.derive ops h i br = some d2) (h3 : d2.toPublic ops = some d3) :
    d3.scriptPubkey ops h = d2.scriptPubkey ops h := by
  refine Desc.scripts_agree laws _ _ _ d d2 d3 d2 hs h2 h3 h2 ?_
  intro k kd k1 k2 _ hkd hk1 hk2
  rw [hkd] at hk2
  cases hk2
  -- k1 = to_public of kd
  unfold KeyExpr.toPublic at hk1
  cases hk : kd.key with
  | raw s => simp only [hk, Option.some.injEq] at hk1; subst hk1; exact KeyAgree.refl' _ _ rfl
  | obj key =>
    simp only [hk] at hk1
    split at hk1
    · cases hk1; exact KeyAgree.refl' _ _ rfl
    · cases hpub : ops.toPublic key with
      | none => simp [hpub] at hk1
      | some p =>
        simp only [hpub, Option.map_some, Option.some.injEq] at hk1
        subst hk1
        exact fragPayload_of_sec _ _ p key rfl hk (laws.sec_toPublic key p hpub)

/-- BRANCHING FIRST never changes a derived script: `branch(b)` then `derive(i)` (with any branch argument) gives
    the script of `derive(i, b)` -/
theorem branch_commutes {ops : KeyOps K} {h : Hashes} {tweakAdd : Bytes → Bytes → Option Bytes}
    (laws : KeyLaws ops h tweakAdd) (d db d1 d2 : Desc K) (i : Nat) (br bn : Option Nat) (hs : d.Shaped)
    (hb : d.branch br = some db) (h1 : db.derive ops h i bn = some d1) (h2 : d.derive ops h i br = some d2) :
    d1.scriptPubkey ops h = d2.scriptPubkey ops h :=
  Desc.scripts_agree laws _ _ _ d db d1 d2 hs hb h1 h2
    (fun k kb k1 k2 _ hkb hk1 hk2 => branch_derive_agree laws i br bn k kb k1 k2 hkb hk1 hk2)

/-! ### print / parse -/

/-- KEY EXPRESSIONS. `Key.read_from` inverts `Key.to_string` in front of `,` or `)`, for every normal key
    expression: optional origin `[fingerprint/path]` (any non-negative elements, hardened printed `h`), the key's
    own text (hex SEC, x-only, WIF, xpub/xprv: whatever the codec of `KeyOps` prints and decodes again),
    derivation steps `/n`, `/nh`, `/*`, `/<a;b;…>` (at most one set, at most one wildcard, hardened only on
    extended private keys, elements below 2^31 before the marker). The stream is left exactly at the delimiter. -/
theorem read_key_expression (ops : KeyOps K) (tap hash : Bool) (k : KeyExpr K) (hn : KeyNormal ops tap hash k)
    (b : Str) (c : Char) (r : Str) (hc : c = ',' ∨ c = ')') :
    ∃ t, showKey ops k = some t ∧
      readKey ops tap hash ⟨b, t ++ c :: r⟩ = some (k, ⟨t.reverse ++ b, c :: r⟩) :=
  readKey_showKey ops tap hash k hn b c r hc

/-- the `text` hypothesis of `KeyNormal` holds for public keys printed as SEC hex as soon as `PublicKey.parse`
    inverts `sec()` (so for that key form the round trip rests on the modelled hex / dispatch code only) -/
theorem key_text_sec_hex (ops : KeyOps K) (tap hash : Bool) (k : KeyExpr K) (key : K) (hk : k.key = .obj key)
    (hkind : ops.kind key = .pub) (hx : k.xonlyRepr = false)
    (hshape : ∃ x rest, ops.sec key = x :: rest ∧
      ((rest.length = 32 ∧ (x = 2 ∨ x = 3)) ∨ (rest.length = 64 ∧ x = 4)))
    (hparse : ops.parseSec (ops.sec key) = some key) :
    ∃ kt, keyText ops k = some kt ∧ kt.head? ≠ some '[' ∧ kt ≠ [] ∧
      (∀ x ∈ kt, x ≠ ',' ∧ x ≠ ')' ∧ x ≠ '/') ∧
      (if hash then parseKeyHashText ops tap kt else parseKeyText ops tap kt) = some (k.key, k.xonlyRepr) :=
  keyText_pub_sec ops tap hash k key hk hkind hx hshape hparse

/-- PRINT then PARSE, the key-only forms `pkh(K)`, `wpkh(K)`, `sh(wpkh(K))`, `tr(K)`: for every normal key
    expression, `Descriptor.from_string(str(d))` returns `d` itself (same object field for field) -/
theorem print_parse_key_forms (ops : KeyOps K) (f : KeyForm) (k : KeyExpr K) (hn : KeyNormal ops f.tap false k)
    (hlen : ∀ t, showKey ops k = some t → t.length ≥ 4) :
    ∃ text, (f.desc k).print ops = some text ∧ Desc.parse ops text = some (f.desc k) :=
  print_parse_keyForm ops f k hn hlen

/-- … hence printing is stable: print(parse(print d)) = print d, and the reparsed descriptor has the same scripts
    at every index and branch (it is the same descriptor) -/
theorem print_stable_key_forms (ops : KeyOps K) (f : KeyForm) (k : KeyExpr K) (hn : KeyNormal ops f.tap false k)
    (hlen : ∀ t, showKey ops k = some t → t.length ≥ 4) :
    ∃ text, (f.desc k).print ops = some text ∧
      ∃ d', Desc.parse ops text = some d' ∧ d'.print ops = some text ∧
        ∀ (h : Hashes) i b, (d'.derive ops h i b).bind (·.scriptPubkey ops h)
          = ((f.desc k).derive ops h i b).bind (·.scriptPubkey ops h) := by
  obtain ⟨text, h1, h2⟩ := print_parse_key_forms ops f k hn hlen
  exact ⟨text, h1, f.desc k, h2, h1, fun _ _ _ => rfl⟩

/-- MINISCRIPT TEXT. `Miniscript.read_from` inverts `__str__` for every normal expression under any wrappers
    (`asc:` written in one word), with fuel above the expression's size, whatever character follows: operator name,
    wrapper split at `:`, `Key` / `KeyHash` / `Number` / `Raw32` / `Raw20` arguments, the `thresh` / `multi` lists -/
theorem read_miniscript (ops : KeyOps K) (tap : Bool) (e : DMs K) (hn : MsNormal ops tap e) (fuel : Nat)
    (hf : fuel > e.size) (b : Str) (c : Char) (r : Str) :
    ∃ t, showMs ops e = some t ∧ readMs ops tap fuel ⟨b, t ++ c :: r⟩ = some (e, ⟨t.reverse ++ b, c :: r⟩) :=
  readMs_roundtrip ops tap e hn [] fuel hf b c r

/-- PRINT then PARSE, all seven forms — pkh(K), wpkh(K), sh(wpkh(K)), tr(K), sh(M), wsh(M), sh(wsh(M)),
    tr(K, TREE): for every normal descriptor `Descriptor.from_string(str(d))` returns `d` itself.
    `DescNormal`: normal key expressions (`KeyNormal`), miniscripts that `Descriptor.__init__` / `TapLeaf.__init__`
    accept with arguments in their printable range (`MsNormal`: hash arguments of the right length, multi in its
    context), no empty sub-tree. The parser model runs with fuel = text length + 1, shown sufficient. -/
theorem print_parse (ops : KeyOps K) (d : Desc K) (hn : DescNormal ops d) :
    ∃ text, d.print ops = some text ∧ Desc.parse ops text = some d :=
  print_parse_all ops d hn

/-- … hence PRINT STABILITY: printing the parsed text again gives the same text, and the reparsed descriptor
    derives the same scripts at every index and branch (it is the same descriptor) -/
theorem print_stable (ops : KeyOps K) (d : Desc K) (hn : DescNormal ops d) :
    ∃ text, d.print ops = some text ∧
      ∃ d', Desc.parse ops text = some d' ∧ d'.print ops = some text ∧
        ∀ (h : Hashes) i b, (d'.derive ops h i b).bind (·.scriptPubkey ops h)
          = (d.derive ops h i b).bind (·.scriptPubkey ops h) := by
  obtain ⟨text, h1, h2⟩ := print_parse ops d hn
  exact ⟨text, h1, d, h2, h1, fun _ _ _ => rfl⟩

-- Normalisation of ARBITRARY accepted text (`parse_print_idem`: parse s = some d → print d is accepted and parses to d;
-- the parser only produces `DescNormal` objects) is proved in Props/C12X.lean.

/-! ### non-vacuity: a toy instance of the key operations satisfies the hypotheses -/

/-- keys = their own SEC bytes; derivation keeps the key; neutering is the identity; the output key is the x-only key -/
def toyOps : KeyOps Bytes where
  kind := fun _ => .pub
  parseSec := fun b => some b
  parseXkey := fun _ => none
  parseWif := fun _ => none
  text := fun _ => none
  sec := fun k => k
  isPrivate := fun _ => false
  derive := fun k p => if none ∈ p then none else some k
  toPublic := fun k => some k
  tweak := fun k _ => some (xonlyOf k)

def toyHashes : Hashes := ⟨fun b => b, fun b => b.take 20, fun _ b => b.take 32⟩

example : KeyLaws toyOps toyHashes (fun x _ => some x) := by
  refine ⟨?_, ?_, ?_, ?_⟩
  · intro k path h; simp [toyOps, h]
  · intro k m; rfl
  · intro k p h; simp [toyOps] at h; subst h; rfl
  · intro k p path c c' hp h1 h2
    simp only [toyOps, Option.some.injEq] at hp
    subst hp
    rw [h1] at h2
    cases h2
    rfl

def toyKey : KeyExpr Bytes := ⟨some ⟨[0xd3, 0x4d, 0xb3, 0x3f], [2147483732, 0]⟩, .obj (2 :: List.replicate 32 7), none, false⟩

theorem toyKey_normal : KeyNormal toyOps false false toyKey := by
  refine ⟨?_, ?_, ?_, ?_⟩
  · intro o ho
    simp only [toyKey, Option.some.injEq] at ho
    subst ho
    exact rfl
  · obtain ⟨kt, h1, h2, h3, h4, h5⟩ := keyText_pub_sec toyOps false false toyKey (2 :: List.replicate 32 7) rfl rfl rfl
      ⟨2, List.replicate 32 7, rfl, Or.inl ⟨by simp, Or.inl rfl⟩⟩ rfl
    exact ⟨kt, h1, fun _ => h2, h3, h4, h5⟩
  · intro h; cases h
  · intro ix h; cases h

/-- `wsh(pk([d34db33f/84h/0]02…))` and `sh(wpkh(…))` over the toy key are normal descriptors -/
example : DescNormal toyOps (MsForm.wsh.desc (.key .pk toyKey)) :=
  .msForm .wsh _ (by
    have : (KeyFrag.pk == KeyFrag.pk_h || KeyFrag.pk == KeyFrag.pkh) = false := by decide
    simp only [MsNormal, this]
    exact toyKey_normal) (by decide)

example : DescNormal toyOps (KeyForm.shwpkh.desc toyKey) :=
  .keyForm .shwpkh toyKey toyKey_normal (by
    intro t ht
    obtain ⟨kt, hkt, _, _, _, _⟩ := toyKey_normal.text
    have := showKey_eq toyOps toyKey kt hkt (fun ix hix => by cases hix)
    rw [this] at ht
    simp only [toyKey, Option.map_some, Option.some.injEq] at ht
    subst ht
    have h8 : (showOrigin ⟨[211, 77, 179, 63], [2147483732, 0]⟩).length ≥ 8 := by
      unfold showOrigin
      simp [hexlify]
    simp
    omega)

end Embit.Props.C12
