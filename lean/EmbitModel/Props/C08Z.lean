import EmbitModel.Props.C08Y
import EmbitModel.Props.C07
import EmbitModel.Props.C02Y
import EmbitModel.Proofs.SecpCardSecp
import EmbitModel.Proofs.SecpCardBridge
/-
  C08Z — the last assumption of Props/C08Y about secp256k1, `#E(𝔽_p) = n`, PROVED. No Hasse bound, no point counting:

    (1) #E ≤ 2p + 1         above every `x` at most two points (`y₁² = y₂² ⇒ y₁ = ± y₂`), plus infinity      `secp256k1_card_le`
    (2) n ∣ #E              Lagrange; `G` has order `n` (`n` prime, `n•G = 0` evaluated by the kernel, `G ≠ 0`)
    (3) 2p + 1 < 3n         the literals                                                                     ⇒ #E ∈ {n, 2n}
    (4) #E is odd           an even group has an element of order two (Cauchy); a point of order two is `(x, 0)`
                            with `x³ = −7`; but `p ≡ 1 (mod 3)` and `(−7)^((p−1)/3) ≢ 1 (mod p)` — ONE 256-bit modular
                            power run by the kernel through the model's `powMod` — so `−7` is not a cube
                            (`x³ = c ≠ 0 ⇒ c^((p−1)/3) = x^(p−1) = 1`, Fermat)         `secp256k1_neg7_not_cube`, `secp256k1_no_two_torsion`
    ⇒ #E = n                                                                                                 `secp256k1_card_eq`

  Hence `EcLaws (pyEcOps secp256k1 n G)` holds with NO hypothesis (`secp256k1_ec_laws_unconditional`): the law structure
  assumed by every theorem of C07 / C08 (and, with `InfUnique` — also proved here — and the bridge of C02Y, of C09 / C10 /
  C02Y) is a THEOREM for the record built from the modelled arithmetic of `embit/util/key.py`. The corollaries below
  restate a few of those theorems at that record, with no curve hypothesis left.
  What is still not proved in Lean: that the fast executable record `Crypto.secpOps` (and libsecp256k1) compute the
  same functions as key.py — that is the correspondence check `ecops.*` of the harness. (Since Props/C08W the driver no
  longer evaluates `Crypto.secpOps` but `Crypto.secpLawful`, which is proved isomorphic to the record below.)
-/
namespace Embit.Props.C08Z
open Embit Embit.Model Embit.Model.PyCurve WeierstrassCurve Embit.Props.C08Y

/-- the record built from key.py's arithmetic on secp256k1 -/
noncomputable abbrev secpE : EcOps := pyEcOps secp256k1 secp256k1N secpG

/-! ### the counting argument -/

/-- **`−7` is not a cube modulo `p`** (`p ≡ 1 mod 3`, `(−7)^((p−1)/3) ≠ 1` by kernel evaluation, Fermat) -/
theorem secp256k1_neg7_not_cube (x : ZMod secp256k1.p) : x ^ 3 ≠ -7 := by
  have h := PyCurve.secp256k1_neg7_not_cube x
  intro hx
  apply h
  rw [hx]; push_cast; rfl

/-- no point of secp256k1 has `y = 0`: `x³ + 7` has no root in `𝔽_p` -/
theorem secp256k1_no_root (x : ZMod secp256k1.p) : x ^ 3 + 7 ≠ 0 := fun h =>
  secp256k1_neg7_not_cube x (by linear_combination h)

/-- **secp256k1 has no point of order two**: `2 • P = 0` only for the point at infinity -/
theorem secp256k1_no_two_torsion (P : (W secp256k1).toAffine.Point) (h : 2 • P = 0) : P = 0 :=
  no_two_torsion secp256k1 secp256k1_smooth PyCurve.secp256k1_no_root P h

/-- **#E(𝔽_p) ≤ 2p + 1** (at most two points above every `x`, and infinity) -/
theorem secp256k1_card_le : Nat.card (W secp256k1).toAffine.Point ≤ 2 * secp256k1.p + 1 := card_le secp256k1

/-- **#E(𝔽_p) is odd** (Cauchy's theorem + no point of order two) -/
theorem secp256k1_card_odd : ¬ 2 ∣ Nat.card (W secp256k1).toAffine.Point :=
  card_odd secp256k1 secp256k1_smooth PyCurve.secp256k1_no_root

/-- **#E(𝔽_p) = n** — the curve group of secp256k1 has exactly `n` elements. This was the one remaining
    assumption of Props/C08Y. -/
theorem secp256k1_card_eq : CardEq secp256k1 secp256k1N :=
  cardEq_of_odd secp256k1 (secp256k1_params secp256k1_n_prime) secp256k1_3n secp256k1_card_odd

/-- the same, spelled out -/
theorem secp256k1_card : Nat.card (W secp256k1).toAffine.Point = secp256k1N := secp256k1_card_eq

/-- equivalently: `on_curve`, run on all `p²` reduced pairs, would accept exactly `n − 1` of them -/
theorem secp256k1_point_count : pointCount secp256k1 = secp256k1N :=
  (card_eq_iff_point_count secp256k1 secp256k1_smooth secp256k1N).mp secp256k1_card_eq

/-! ### the laws, unconditionally -/

/-- **`EcLaws` for secp256k1, no hypothesis**: the record built from key.py's own arithmetic (`add`, `negate`,
    `mul`, `affine`, `on_curve`, `lift_x`, `modinv` as modelled branch for branch and corresponded on every run)
    satisfies every law the C07 / C08 theorems assume. Every ingredient — `p` prime, `n` prime, `n•G = 0`, `#E = n`,
    `7` a non-residue — is proved in Lean (kernel evaluation of the certificates; no axiom beyond the three standard ones). -/
theorem secp256k1_ec_laws_unconditional : EcLaws (pyEcOps secp256k1 secp256k1N secpG) :=
  secp256k1_ec_laws secp256k1_card_eq

/-- **`InfUnique`** (the extra law of Props/C02Y's bridge): `a·G` is the point at infinity only for `n ∣ a` -/
theorem secp256k1_inf_unique : SignWith.InfUnique (pyEcOps secp256k1 secp256k1N secpG) :=
  py_infUnique secp256k1 (secp256k1_params secp256k1_n_prime)

set_option maxRecDepth 100000 in
theorem secp256k1_n_le : secpE.n ≤ 2 ^ 256 := by show secp256k1N ≤ 2 ^ 256; decide +kernel

set_option maxRecDepth 100000 in
theorem secp256k1_p_le : secpE.p ≤ 2 ^ 256 := by show secp256k1.p ≤ 2 ^ 256; decide +kernel

/-- every element of the curve group is killed by `n`, and is a multiple `k•G`, `k < n` (the group is cyclic) -/
theorem secp256k1_cyclic (P : (W secp256k1).toAffine.Point) :
    secp256k1N • P = 0 ∧ ∃ k, k < secp256k1N ∧ P = k • ι secp256k1 secpG := by
  refine ⟨nsmul_all secp256k1 secp256k1_card_eq P, ?_⟩
  obtain ⟨Q, rfl⟩ := ι_surjective secp256k1 secp256k1_smooth P
  obtain ⟨k, hk, hQ⟩ := secp256k1_ec_laws_unconditional.generated Q
  refine ⟨k, hk, ?_⟩
  have hQ' : Q = eMul secp256k1 secp256k1N k secpG := hQ
  have hp : Params secp256k1 secp256k1N secpG := secp256k1_params secp256k1_n_prime
  rw [hQ']
  exact ι_mul_g secp256k1 hp k

/-- the side condition of C08Y's `pipeline_*` theorems is vacuous on secp256k1 -/
theorem secp256k1_all_points_killed_by_n (P : APt secp256k1) : secp256k1N • ι secp256k1 P = 0 :=
  nsmul_all secp256k1 secp256k1_card_eq (ι secp256k1 P)

/-! ### corollaries: `EcLaws`-relative theorems of C07 / C08 / C02Y at key.py's arithmetic, no curve hypothesis left -/

/-- C08: py's `ec_pubkey_negate` equals the libsecp256k1 contract (C08Y had this under `CardEq`) -/
theorem py_negate_matches_contract_secp256k1 (pub : Bytes) :
    PySecp.ecPubkeyNegate secpE pub = Spec.Libsecp.ec_pubkey_negate secpE pub :=
  C08Y.py_negate_matches_contract_secp256k1 secp256k1_card_eq pub

/-- C07 `ecdsa_correct`: whatever `ecdsa_sign` returns verifies with `ecdsa_verify` under `ec_pubkey_create(secret)`,
    for every hash record `H` — over key.py's secp256k1 arithmetic -/
theorem ecdsa_correct_secp256k1 (H : HashOps) (fuel : Nat) (msg secret : Bytes) (extra : Option Bytes) (sig pub : Bytes)
    (hs : PySecp.ecdsaSign secpE H fuel msg secret extra = some sig) (hpub : PySecp.ecPubkeyCreate secpE secret = some pub) :
    PySecp.ecdsaVerify secpE sig msg pub = some true :=
  C07.ecdsa_correct secpE H secp256k1_ec_laws_unconditional secp256k1_n_le secp256k1_p_le fuel msg secret extra sig pub hs hpub

/-- C07 `schnorr_correct` (BIP340): `sign_schnorr` passes `verify_schnorr` under the x-only key of `key·G` -/
theorem schnorr_correct_secp256k1 (H : HashOps) (key msg : Bytes) (aux : Option Bytes) (sig : Bytes)
    (h : PySecp.signSchnorr secpE H key msg aux = some sig) :
    ∃ px py, secpE.xy (secpE.mul (ofBe key) secpE.g) = some (px, py) ∧
      PySecp.verifySchnorr secpE H (beN 32 px) sig msg = some true :=
  C07.schnorr_correct secpE H secp256k1_ec_laws_unconditional secp256k1_p_le secp256k1_n_le key msg aux sig h

/-- C02Y `bridge_laws`: the curve laws of the key development (C09 / C10) for the bridged record -/
theorem key_laws_secp256k1 : Embit.Keys.EcLaws (SignWith.toKeys secpE) :=
  C02Y.bridge_laws secp256k1_ec_laws_unconditional secp256k1_n_le secp256k1_p_le secp256k1_inf_unique

/-- C02Y `sigLaws_concrete`: the signing environment over key.py's secp256k1 arithmetic satisfies `SigLaws`, for any
    hash functions — so every signature `PSBT.sign_with` adds verifies (C02X / C02Y), with no curve hypothesis -/
theorem sigLaws_secp256k1 (hs : SignWith.Hashes) (fuel : Nat) :
    SignWith.SigLaws (SignWith.opsOf secpE hs fuel) (SignWith.validSecKey secpE) (SignWith.ecdsaVerifySec secpE)
      (SignWith.schnorrVerifyX secpE hs.H) :=
  C02Y.sigLaws_concrete secp256k1_ec_laws_unconditional secp256k1_n_le secp256k1_p_le secp256k1_inf_unique hs fuel

/-- C02Y `sigLaws_standards`: the same against the verifiers written from SEC 1 / BIP340 only -/
theorem sigLaws_standards_secp256k1 (hs : SignWith.Hashes) (fuel : Nat) :
    SignWith.SigLaws (SignWith.opsOf secpE hs fuel) (SignWith.validSecKey secpE) (SignWith.ecdsaVerifySpec secpE)
      (fun xo m sig => Spec.Bip340.verify secpE hs.H xo m sig) :=
  C02Y.sigLaws_standards secp256k1_ec_laws_unconditional secp256k1_n_le secp256k1_p_le secp256k1_inf_unique hs fuel

/-! ### non-vacuity -/

/-- the same chain on the toy curve, where `#E = 31` is also obtained by brute force (`C08Y.toy_card`): the counting
    argument's ingredients are satisfiable and agree with enumeration -/
example : Nat.card (W toy43).toAffine.Point ≤ 2 * 43 + 1 ∧ CardEq toy43 toy43N := ⟨card_le toy43, toy_card⟩
/-- `G` is a point of the group that is not killed by 2 (and the group is not trivial) -/
example : ι secp256k1 secpG ≠ 0 ∧ 2 • ι secp256k1 secpG ≠ 0 :=
  ⟨ι_g_ne secp256k1 (secp256k1_params secp256k1_n_prime),
   fun h => ι_g_ne secp256k1 (secp256k1_params secp256k1_n_prime) (secp256k1_no_two_torsion _ h)⟩
example : EcLaws secpE ∧ SignWith.InfUnique secpE := ⟨secp256k1_ec_laws_unconditional, secp256k1_inf_unique⟩

end Embit.Props.C08Z
