import EmbitModel.Proofs.KeysSound
import EmbitModel.Proofs.KeysB58Canon
import EmbitModel.Proofs.KeyToyCurve
import EmbitModel.Props.C10
/-
  C10X — decoder soundness for C10 (key encodings validate strictly): whatever a decoder ACCEPTS re-encodes to
  exactly the input, so no key has a second accepted spelling. `Props/C10.lean` proves this for the SEC parser
  (`sec_parse_sound`) and proves the encode-then-decode direction plus 24 rejection classes for the others; here
  the "accepted ⇒ re-encodes to itself" direction is proved for every remaining decoder of the model:

    PrivateKey(secret) / PrivateKey.parse · PrivateKey.from_wif · PublicKey.read_from (stream) ·
    PublicKey.from_xonly · HDKey.read_from (stream) · HDKey.parse · HDKey.from_base58.

  Same conventions as C10: arbitrary curve (`EcLaws E` where a point is re-encoded), arbitrary text codec; for the
  two text decoders the codec law is used in the decoding direction, `DecodeCanonical env`:
  `dec t = some b → enc b = t` (Base58Check has one spelling per payload). The law is PROVED here for the concrete
  Base58Check text layer of the key models (`Model/Base58Check.lean`, the one the driver runs and every check
  corresponds with `embit.base58`), for any checksum function, by reading it as C11's Base58 model through the
  character codes (`base58check_decode_canonical`); the `_b58` theorems have no text-layer hypothesis left.
-/
namespace Embit.Props.C10X
open Embit Embit.Keys Embit.Spec

variable {E : EcOps}

/-! ### private keys -/

/-- the constructor accepts exactly a 32-byte string with a valid scalar, and the key serialises to that string -/
theorem priv_init_sound (secret : Bytes) (c : Bool) (net : Nat) (k : PrivateKey)
    (h : PrivateKey.init E secret c net = some k) :
    k.serialize = secret ∧ secret.length = 32 ∧ k.compressed = c ∧ k.network = net
      ∧ seckeyValid E k.secret = true :=
  privInit_sound secret c net k h

theorem priv_parse_sound (b : Bytes) (k : PrivateKey) (h : PrivateKey.parse E b = some k) :
    k.serialize = b ∧ b.length = 32 ∧ k.compressed = true ∧ k.network = Generated.privDefaultNet
      ∧ seckeyValid E k.secret = true :=
  privParse_sound b k h

/-! ### WIF -/

/-- the network chosen by `from_wif` carries exactly the version byte of the text (for every NETWORKS table) -/
theorem wif_network_sound (pre : Bytes) (j : Nat) (h : wifNetwork pre = some j) : netWif j = some pre :=
  wifNetwork_sound pre j h

/-- the former GOAL `wif_parse_sound`: an accepted WIF text re-encodes to itself — version byte, secret and
    compression flag are all determined by the text, and nothing else is accepted for this key and network
    version; the key it holds is a valid scalar -/
theorem wif_parse_sound (env : Env) (hcanon : DecodeCanonical env) (t : Text) (k : PrivateKey)
    (h : PrivateKey.fromWif E env t = some k) :
    k.wif env = some t ∧ seckeyValid E k.secret = true :=
  let ⟨h1, h2, _⟩ := fromWif_sound env hcanon t k h
  ⟨h1, h2⟩

/-- two accepted WIF texts holding the same key, flag and network are the same text -/
theorem wif_parse_injective (env : Env) (hcanon : DecodeCanonical env) (t t' : Text) (k : PrivateKey)
    (h : PrivateKey.fromWif E env t = some k) (h' : PrivateKey.fromWif E env t' = some k) : t = t' := by
  have a := (fromWif_sound env hcanon t k h).1
  have b := (fromWif_sound env hcanon t' k h').1
  rw [a] at b
  exact Option.some.inj b

/-! ### SEC stream reads and x-only keys -/

/-- whatever `PublicKey.read_from` accepts: the encoding of the key followed by the unread rest is the stream -/
theorem sec_read_from_sound (L : EcLaws E) (s : Bytes) (k : PublicKey E) (rest : Bytes)
    (h : PublicKey.readFrom E s = some (k, rest)) : k.sec ++ rest = s ∧ E.isInf k.point = false :=
  readFrom_sec_sound L s k rest h

/-- whatever `from_xonly` accepts is the even-Y key whose x-only encoding is the input -/
theorem from_xonly_sound (L : EcLaws E) (data : Bytes) (k : PublicKey E)
    (h : PublicKey.fromXonly E data = some k) :
    k.xonly = data ∧ k.compressed = true ∧ E.yOdd k.point = false ∧ E.isInf k.point = false :=
  fromXonly_sound L data k h

/-! ### extended keys -/

/-- the former GOAL `xkey_parse_sound`: whatever `HDKey.parse` accepts serialises to exactly the input bytes
    (78 of them), and the text of these bytes says the kind of the key held -/
theorem xkey_parse_sound (L : EcLaws E) (env : Env) (b : Bytes) (k : HDKey E)
    (h : HDKey.parse E env b = some k) :
    k.serialize = some b ∧ b.length = 78 ∧ sub14 (env.b58enc b) = kindText k.key.isPrivate :=
  parse_hd_sound L env b k h

/-- stream form: the serialization followed by the unread rest is the stream -/
theorem xkey_read_from_sound (L : EcLaws E) (env : Env) (s : Bytes) (k : HDKey E) (rest : Bytes)
    (h : HDKey.readFrom E env s = some (k, rest)) :
    ∃ b, k.serialize = some b ∧ b ++ rest = s ∧ b.length = 78 :=
  let ⟨b, h1, h2, h3, _⟩ := readFrom_hd_sound L env s k rest h
  ⟨b, h1, h2, h3⟩

/-- `parse` is injective on what it accepts: two byte strings parsed to the same key are equal -/
theorem xkey_parse_injective (L : EcLaws E) (env : Env) (b b' : Bytes) (k : HDKey E)
    (h : HDKey.parse E env b = some k) (h' : HDKey.parse E env b' = some k) : b = b' := by
  have a := (parse_hd_sound L env b k h).1
  have c := (parse_hd_sound L env b' k h').1
  rw [a] at c
  exact Option.some.inj c

/-- whatever `HDKey.parse` accepts prints as the Base58Check text of the input bytes -/
theorem xkey_parse_to_base58 (L : EcLaws E) (env : Env) (b : Bytes) (k : HDKey E)
    (h : HDKey.parse E env b = some k) : k.toBase58 env = some (env.b58enc b) :=
  parse_hd_toBase58 L env b k h

/-- text form: an accepted xprv / xpub text re-encodes to itself -/
theorem xkey_text_parse_sound (L : EcLaws E) (env : Env) (hcanon : DecodeCanonical env) (t : Text) (k : HDKey E)
    (h : HDKey.fromBase58 E env t = some k) : k.toBase58 env = some t :=
  fromBase58_sound L env hcanon t k h

/-! ### the codec law holds for the real Base58Check layer -/

/-- `base58.decode` accepts one spelling per byte string: `decode s = b → encode b = s` (embit's `decode` with its
    `s[:-1]` padding loop and `encode` are mutually inverse also in this direction) -/
theorem base58_decode_canonical (s : Text) (b : Bytes) (h : B58.decode s = some b) : B58.encode b = s :=
  B58.encode_decode s b h

/-- … hence whatever `decode_check` accepts is the `encode_check` of its result, for any checksum function -/
theorem base58check_decode_canonical (env : Env) (dsha : Bytes → Bytes) (henc : env.b58enc = B58.encodeCheck dsha)
    (hdec : env.b58dec = B58.decodeCheck dsha) : DecodeCanonical env :=
  B58.decodeCanonical env dsha henc hdec

/-- WIF over the real text layer: no hypothesis about the codec is left -/
theorem wif_parse_sound_b58 (env : Env) (dsha : Bytes → Bytes) (henc : env.b58enc = B58.encodeCheck dsha)
    (hdec : env.b58dec = B58.decodeCheck dsha) (t : Text) (k : PrivateKey)
    (h : PrivateKey.fromWif E env t = some k) : k.wif env = some t ∧ seckeyValid E k.secret = true :=
  wif_parse_sound env (B58.decodeCanonical env dsha henc hdec) t k h

/-- xprv / xpub text over the real text layer -/
theorem xkey_text_parse_sound_b58 (L : EcLaws E) (env : Env) (dsha : Bytes → Bytes)
    (henc : env.b58enc = B58.encodeCheck dsha) (hdec : env.b58dec = B58.decodeCheck dsha) (t : Text) (k : HDKey E)
    (h : HDKey.fromBase58 E env t = some k) : k.toBase58 env = some t :=
  xkey_text_parse_sound L env (B58.decodeCanonical env dsha henc hdec) t k h

/-! ### non-vacuity (toy curve, the toy environment of C10) -/

open Embit.Props.C10 in
/-- C10's toy codec satisfies `dec (enc b) = b` but not the decoding-direction law (it ignores the first four
    characters of a text); an environment with the law: texts are the payloads themselves -/
def idEnv : Env := { exEnv with b58enc := fun b => b, b58dec := fun t => some t }

example : DecodeCanonical idEnv := by intro t b h; cases h; rfl

/-- an accepted WIF (mainnet version 0x80, secret 5, compressed) and its re-encoding -/
example : (PrivateKey.fromWif toy idEnv ([0x80] ++ beN 32 5 ++ [0x01])).isSome = true := by decide
example : ∀ k, PrivateKey.fromWif toy idEnv ([0x80] ++ beN 32 5 ++ [0x01]) = some k →
    k.wif idEnv = some ([0x80] ++ beN 32 5 ++ [0x01]) :=
  fun k h => (wif_parse_sound idEnv (by intro t b h; cases h; rfl) _ k h).1

open Embit.Props.C10 in
/-- an accepted extended key: the serialization of the C10 example key parses, and re-serialises to itself -/
example : (HDKey.parse toy exEnv ((exHd.serialize).getD [])).isSome = true := by decide
open Embit.Props.C10 in
example : ∀ k, HDKey.parse toy exEnv ((exHd.serialize).getD []) = some k → k.serialize = exHd.serialize :=
  fun k h => by
    have := (xkey_parse_sound toy_laws exEnv _ k h).1
    rw [this]; decide

/-- an accepted x-only key and a stream read with trailing bytes -/
example : (PublicKey.fromXonly toy (beN 32 2)).isSome = true := by decide
example : (PublicKey.readFrom toy ((⟨3, false⟩ : PublicKey toy).sec ++ [9, 9])).isSome = true := by decide
/-- the real text layer: a Base58 string and its decoding (`"2g"` = 0x61), and a string with leading `1`s -/
example : B58.decode [0x32, 0x67] = some [0x61] ∧ B58.encode [0x61] = [0x32, 0x67] := by decide +kernel
example : B58.decode [0x31, 0x31, 0x32] = some [0, 0, 1] ∧ B58.encode [0, 0, 1] = [0x31, 0x31, 0x32] := by decide +kernel

end Embit.Props.C10X
