import EmbitModel.Props.C17
import EmbitModel.Proofs.CostBin
/-
  C17, third part — the BYTE parsers with a step counter attached (audit2 A-3, first audit A5).

  `Props/C17.lean` bounds `readManySteps`, a function defined there and linked to no parser. Here the parsers
  themselves are instrumented (`Model/CostBin.lean`): `txReadC`, `scriptReadC`, `witnessReadC`, `txInReadC`,
  `txOutReadC`, `readVoutC`, `readKVsC` (one PSBT / PSET scope), `readInsC` / `readOutsC`, `psbtParseC` return the value together
  with the number of steps of the run, accepted or rejected. Two kinds of theorem:
    * ERASURE  — the value part of the instrumented parser is the model parser (`Tx.read`, `Psbt.parse`, … — the
                 functions that C03/C04/C06 prove correct and that the driver runs against embit), for every input;
    * BOUND    — steps ≤ 5·|input| + 12 (transactions), ≤ 7·|input| + 12 (PSBT, both versions, every compress mode),
                 and what an accepted run builds has at most as many elements / scopes as bytes were consumed.
  Termination: `Tx.read` and everything below it is structural recursion on the count (`readMany`), no fuel — there
  is nothing to state except the bound (the count field may be 2^64-1; the loop stops at the first element that
  cannot be read, after ≤ |input| + 1 iterations). The only fuelled byte parser is the `while True` loop of a PSBT
  scope (`readKVsFuel`, which answers `none` both for "rejected" and for "fuel used up"): `readKVsFuelC` keeps the two
  apart (`Res`), and `scope_never_out_of_fuel` shows that with the fuel the model uses the third answer never occurs.
  What a step is: see the header of `Model/CostBin.lean`.
-/
set_option linter.unusedSimpArgs false
set_option linter.unusedVariables false
namespace Embit.Props.C17Y
open Embit Embit.Model Embit.Model.CostBin

/-! ## erasure: the instrumented parser is the model parser -/

/-- the counted loop: value = `readMany` of the element reader's value -/
theorem counted_loop_erases {α : Type} (p : CP α) (n : Nat) (b : Bytes) :
    (readManyC p n b).1 = readMany (erase p) n b := readManyC_fst p n b

theorem script_erases (b : Bytes) : (scriptReadC b).1 = scriptRead b := scriptReadC_fst b
theorem witness_erases (b : Bytes) : (witnessReadC b).1 = witnessRead b := witnessReadC_fst b
theorem txin_erases (b : Bytes) : (txInReadC b).1 = TxIn.read b := txInReadC_fst b
theorem txout_erases (b : Bytes) : (txOutReadC b).1 = TxOut.read b := txOutReadC_fst b

/-- **`Transaction.read_from`**: the instrumented parser returns exactly what `Model.Tx.read` returns -/
theorem tx_read_erases (b : Bytes) : (txReadC b).1 = Tx.read b := txReadC_fst b

/-- **`Transaction.parse`** -/
theorem tx_parse_erases (b : Bytes) : (txParseC b).1 = Tx.parse b := txParseC_fst b

/-- **one PSBT / PSET scope**, any fuel: forgetting the difference between "rejected" and "out of fuel" gives the
    model's `readKVsFuel` -/
theorem scope_erases (fuel : Nat) (b : Bytes) : (readKVsFuelC fuel b).1.toOption = readKVsFuel fuel b :=
  readKVsFuelC_fst fuel b

/-- **`PSBT.parse(b, compress)`**, version 0 and 2, every compress mode -/
theorem psbt_parse_erases (ko : KeyOps) (sha : Bytes → Bytes) (compress : Nat) (b : Bytes) :
    (psbtParseC ko sha compress b).1 = Psbt.parse ko sha compress b := psbtParseC_fst ko sha compress b

/-! ## bounds -/

/-- **the counted loop of the parsers**: if the element reader spends ≤ 5 steps per byte it consumes (`Amort`), then
    whatever the count `n` says the loop spends ≤ 5·|b| + D steps; an accepted loop spends ≤ 5 steps per byte consumed
    and returns no more elements than it consumed bytes -/
theorem counted_loop_linear {α : Type} (D : Nat) (p : CP α) (hp : Amort D p) (n : Nat) (b : Bytes) :
    (readManyC p n b).2 ≤ 5 * b.length + D ∧
    ∀ xs r, (readManyC p n b).1 = some (xs, r) →
      (readManyC p n b).2 + 5 * r.length ≤ 5 * b.length ∧ xs.length + r.length ≤ b.length :=
  ⟨(readManyC_bound D p hp n b).2, (readManyC_bound D p hp n b).1⟩

/-- the four element readers of a transaction are such readers -/
theorem element_readers_amortised :
    Amort 8 scriptReadC ∧ Amort 8 witnessReadC ∧ Amort 8 txInReadC ∧ Amort 8 txOutReadC :=
  ⟨scriptReadC_amort, witnessReadC_amort, txInReadC_amort, txOutReadC_amort⟩

/-- **`Transaction.read_from`: steps ≤ 5·|b| + 12 for EVERY byte string**, accepted or not; an accepted transaction
    cost at most 5 steps per byte it occupies -/
theorem tx_read_steps_linear (b : Bytes) :
    (txReadC b).2 ≤ 5 * b.length + 12 ∧
    ∀ t r, (txReadC b).1 = some (t, r) → (txReadC b).2 + 5 * r.length ≤ 5 * b.length :=
  txReadC_bound b

/-- **`Transaction.parse`: steps ≤ 5·|b| + 13** -/
theorem tx_parse_steps_linear (b : Bytes) : (txParseC b).2 ≤ 5 * b.length + 13 := by
  have := (txReadC_bound b).1
  simp only [txParseC]
  omega

/-- **the old stand-alone iteration count is a lower bound of the instrumented parser's steps**: `C17.readManySteps`
    of the VALUE reader counts iterations only, the instrumented loop counts them and the element reader's steps -/
theorem iterations_le_steps {α : Type} (p : CP α) (n : Nat) (b : Bytes) :
    C17.readManySteps (erase p) n b ≤ (readManyC p n b).2 := by
  induction n generalizing b with
  | zero => simp [C17.readManySteps, readManyC]
  | succ n ih =>
    simp only [C17.readManySteps, readManyC, erase]
    cases h : (p b).1 with
    | none => simp only []; omega
    | some xr =>
      obtain ⟨x, r⟩ := xr
      have := ih r
      simp only []
      cases h2 : (readManyC p n r).1 with
      | none => simp only []; omega
      | some q => simp only []; omega

/-- **one PSBT / PSET scope: steps ≤ 5·|b| + 8 for EVERY fuel** (so no run spins until the fuel is gone); an accepted
    scope has fewer pairs than it consumed bytes -/
theorem scope_steps_linear (fuel : Nat) (b : Bytes) :
    (readKVsFuelC fuel b).2 ≤ 5 * b.length + 8 ∧
    ∀ kvs r, (readKVsFuelC fuel b).1 = .ok (kvs, r) →
      (readKVsFuelC fuel b).2 + 5 * r.length ≤ 5 * b.length ∧ kvs.length + r.length < b.length :=
  ⟨(readKVsFuelC_bound fuel b).1, (readKVsFuelC_bound fuel b).2.1⟩

/-- **termination of the scope loop, stated as such**: there is a fuel ≤ |b| + 1 — the one the model uses — with which
    the loop does not answer "out of fuel"; every larger fuel does as well -/
theorem scope_never_out_of_fuel (b : Bytes) :
    (∃ fuel, fuel ≤ b.length + 1 ∧ (readKVsFuelC fuel b).1.isOutOfFuel = false) ∧
    ∀ fuel, b.length < fuel → (readKVsFuelC fuel b).1.isOutOfFuel = false :=
  ⟨⟨b.length + 1, Nat.le_refl _, (readKVsFuelC_bound _ b).2.2 (by omega)⟩,
   fun fuel h => (readKVsFuelC_bound fuel b).2.2 h⟩

/-- hence a `none` of the model's `readKVs` is a rejection, never a lack of fuel -/
theorem scope_rejection_is_not_fuel (b : Bytes) (h : readKVs b = none) : (readKVsC b).1 = .reject := by
  have e := readKVsC_fst b
  have f := readKVsC_fuel b
  rw [h] at e
  cases hq : (readKVsC b).1 with
  | ok x => simp [hq, Res.toOption] at e
  | reject => rfl
  | outOfFuel => simp [hq, Res.isOutOfFuel] at f

/-- **the two scope loops of `PSBT.read_from`** (counts from the unsigned transaction or, in version 2, from
    attacker-chosen fields): steps ≤ 6·|b| + 9; accepted ⇒ no more scopes than bytes consumed -/
theorem psbt_scope_loops_linear (ko : KeyOps) (sha : Bytes → Bytes) (compress : Nat) (tx : Option Tx) (n i : Nat)
    (b : Bytes) :
    ((readInsC ko sha compress tx n i b).2 ≤ 6 * b.length + 9 ∧
      ∀ ss r, (readInsC ko sha compress tx n i b).1 = some (ss, r) → ss.length + r.length ≤ b.length) ∧
    ((readOutsC ko tx n i b).2 ≤ 6 * b.length + 9 ∧
      ∀ ss r, (readOutsC ko tx n i b).1 = some (ss, r) → ss.length + r.length ≤ b.length) :=
  ⟨⟨(readInsC_bound ko sha compress tx n i b).1, fun ss r h => ((readInsC_bound ko sha compress tx n i b).2 ss r h).2⟩,
   ⟨(readOutsC_bound ko tx n i b).1, fun ss r h => ((readOutsC_bound ko tx n i b).2 ss r h).2⟩⟩

/-- **`PSBT.parse`: steps ≤ 7·|b| + 12 for every byte string, version 0 and 2, every compress mode** -/
theorem psbt_parse_steps_linear (ko : KeyOps) (sha : Bytes → Bytes) (compress : Nat) (b : Bytes) :
    (psbtParseC ko sha compress b).2 ≤ 7 * b.length + 12 :=
  psbtParseC_bound ko sha compress b

/-- **`Transaction.read_vout(stream, idx)`** (streamed previous transaction): the instrumented reader is the model's -/
theorem read_vout_erases (sha : Bytes → Bytes) (idx : Nat) (b : Bytes) :
    (readVoutC sha idx b).1 = Tx.readVout sha idx b := readVoutC_fst sha idx b

/-- **`Transaction.read_vout`: steps ≤ 5·|b| + 12 for every byte string and index** -/
theorem read_vout_steps_linear (sha : Bytes → Bytes) (idx : Nat) (b : Bytes) :
    (readVoutC sha idx b).2 ≤ 5 * b.length + 12 := readVoutC_bound sha idx b

-- GOAL (not proved): instrumented versions of the PSET parser (Model/Pset.lean: same `readKVs` loop — `scope_*` above
--   apply to each of its scopes — but Liquid element readers and its own global fold) and of the PSBTView readers
--   (Model/View.lean, offset-based). For those `C17X.ltx_loops_le_input` / `pset_scopes_le_input` remain what is proved.
-- GOAL (not proved): the steps of the field decoders applied to a value already read (`Tx.parse` of the global
--   transaction and of NON_WITNESS_UTXO, `Deriv.parse`, `tapDerivParse`) are not part of `psbtParseC`'s count; for
--   the transaction-valued ones the count is `txParseC`'s on the value (≤ 5·|value| + 13 by `tx_parse_steps_linear`).
-- GOAL (not proved): allocations of a REJECTED run (elements built before the failing one) — bounded by the
--   iterations, hence by the steps, but not stated separately.

/-! ### non-vacuity -/
-- a 60-byte legacy transaction, its steps; a count field of 2^64-1 on 14 bytes: 2 iterations' worth of steps
example : (txReadC ([1,0,0,0, 1] ++ List.replicate 32 7 ++ [0,0,0,0, 0, 255,255,255,255, 1] ++ [1,0,0,0,0,0,0,0, 0]
    ++ [0,0,0,0])).2 = 20 := by decide +kernel
example : ((txReadC ([1,0,0,0, 1] ++ List.replicate 32 7 ++ [0,0,0,0, 0, 255,255,255,255, 1] ++ [1,0,0,0,0,0,0,0, 0]
    ++ [0,0,0,0])).1).isSome = true := by decide +kernel
example : txReadC [1,0,0,0, 0xff, 255,255,255,255,255,255,255,255, 9] = (none, 5) := by decide +kernel
example : (readKVsFuelC 0 [0]).1 = .outOfFuel := by decide +kernel
example : (readKVsFuelC 1 [0]).1 = .ok ([], []) := by decide +kernel
example : (readKVsFuelC 5 [1]).1 = .reject := by decide +kernel
-- too little fuel is reported as such, not as a rejection
example : (readKVsFuelC 1 [1, 9, 1, 8, 0]).1 = .outOfFuel := by decide +kernel
example : (readKVsC [1, 9, 1, 8, 0]) = (.ok ([([9], [8])], []), 14) := by decide +kernel

end Embit.Props.C17Y
