import EmbitModel.Props.C07
import EmbitModel.Props.C08W
import EmbitModel.Proofs.SigLawsSpec
import EmbitModel.Driver.Secp
import EmbitModel.Driver.SigCheck
/-
  C07Z — the sign-then-verify theorems of C07 AT THE RECORD THE DRIVER EVALUATES, with no curve hypothesis
  (second audit, finding A-1).

  Props/C07 proves "whatever the signer returns the verifier accepts" relative to `EcLaws E` for an abstract curve record.
  The record the native driver evaluated (`Crypto.secpOps`) did not satisfy `EcLaws` (junk points), so those theorems said
  nothing about the object compared with embit. The driver's ops `py.*` / `contract.*` / `priv.sign` / `ecdsa.verify` /
  `schnorr.*` (Driver/Secp.lean, record `Driver.E`) and `sig.*` / `sigcheck.*` (Driver/SigCheck.lean, record `Driver.sigE`)
  now run over `Crypto.secpLawful`, for which `EcLaws` is a theorem (Props/C08W). Below: C07's correctness theorems
  instantiated at exactly these records, hashes (`Driver.Hs` = the executable SHA-256 / HMAC-SHA256) and RFC 6979 fuel — the
  functions the ops evaluate — and the link from the signer models to the verification functions of the `sig.*` /
  `sigcheck.*` ops (`Spec.Ecdsa.verify Driver.sigE`, `Driver.sigSchnorr`).
-/
set_option linter.unusedVariables false
namespace Embit.Props.C07Z
open Embit Embit.Model Embit.Model.Der Embit.Model.PySecp Embit.Props.C08W

/-! ### the bindings: what `py.ecdsa_sign` returns, `py.ecdsa_verify` accepts -/

/-- **C07 `ecdsa_correct` at the driver's record**: whatever the op `py.ecdsa_sign msg secret extra` answers verifies with
    `py.ecdsa_verify` under what `py.ec_pubkey_create secret` answers — every message, key, extra data; no hypothesis -/
theorem driver_ecdsa_correct (msg secret : Bytes) (extra : Option Bytes) (sig pub : Bytes)
    (hs : ecdsaSign Driver.E Driver.Hs Driver.fuel msg secret extra = some sig)
    (hpub : ecPubkeyCreate Driver.E secret = some pub) :
    ecdsaVerify Driver.E sig msg pub = some true :=
  C07.ecdsa_correct Driver.E Driver.Hs secpLawful_ec_laws secpLawful_n_le secpLawful_p_le Driver.fuel msg secret extra sig
    pub hs hpub

/-- … in particular for the result of `PrivateKey.sign` with or without grinding (op `priv.sign`) -/
theorem driver_private_key_sign_verifies (msg secret : Bytes) (grind : Bool) (res pub : Bytes) (c : Nat)
    (h : privateKeySign (fun ex => ecdsaSign Driver.E Driver.Hs Driver.fuel msg secret ex) grind = some (res, c))
    (hpub : ecPubkeyCreate Driver.E secret = some pub) : ecdsaVerify Driver.E res msg pub = some true :=
  C07.private_key_sign_verifies Driver.E Driver.Hs secpLawful_ec_laws secpLawful_n_le secpLawful_p_le Driver.fuel msg secret
    grind res pub c h hpub

/-- **C07 `schnorr_correct` (BIP340) at the driver's record**: `sign_schnorr` passes `verify_schnorr` under the x-only
    key of `key·G` -/
theorem driver_schnorr_correct (key msg : Bytes) (aux : Option Bytes) (sig : Bytes)
    (h : signSchnorr Driver.E Driver.Hs key msg aux = some sig) :
    ∃ px py, Driver.E.xy (Driver.E.mul (ofBe key) Driver.E.g) = some (px, py) ∧
      verifySchnorr Driver.E Driver.Hs (beN 32 px) sig msg = some true :=
  C07.schnorr_correct Driver.E Driver.Hs secpLawful_ec_laws secpLawful_p_le secpLawful_n_le key msg aux sig h

/-- C07 `schnorr_correct_binding` at the driver's record: what `py.schnorrsig_sign` answers, `py.schnorrsig_verify`
    accepts under `py.xonly_pubkey_from_pubkey (py.ec_pubkey_create secret)` -/
theorem driver_schnorr_correct_binding (msg secret : Bytes) (aux : Option Bytes) (sig pub xo : Bytes) (par : Bool)
    (hlen : secret.length = 32) (hs : schnorrsigSign Driver.E Driver.Hs msg secret aux = some sig)
    (hpub : ecPubkeyCreate Driver.E secret = some pub) (hxo : xonlyPubkeyFromPubkey Driver.E pub = some (xo, par)) :
    schnorrsigVerify Driver.E Driver.Hs sig msg xo = some true :=
  C07.schnorr_correct_binding Driver.E Driver.Hs secpLawful_ec_laws secpLawful_p_le secpLawful_n_le msg secret aux sig pub xo
    par hlen hs hpub hxo

/-! ### the verifier ops `sig.*` / `sigcheck.*` / `ecdsa.verify` / `schnorr.verify` -/

/-- **what the ECDSA signer returns, the verification function of `sig.ecdsa` / `sigcheck.legacy` / `sigcheck.segwit` /
    `ecdsa.verify` accepts**: the 64-byte structure `py.ecdsa_sign` answers is `(r, s)` with low `s`, its DER form is
    `serRS r s`, which the strict parser maps back to `(r, s)`, and SEC 1 §4.1.4 verification over the SAME record
    (`Spec.Ecdsa.verify Driver.sigE`, the function those ops evaluate) says yes under the point `secret·G`.
    (The ops' own key / DER decoders `SecpLawful.secParse`, `Crypto.parseDerStrict` are outside this statement.) -/
theorem driver_ecdsa_verifier_accepts (msg secret : Bytes) (extra : Option Bytes) (sig : Bytes)
    (h : ecdsaSign Driver.E Driver.Hs Driver.fuel msg secret extra = some sig) :
    ∃ r s, sig = leN 32 r ++ leN 32 s ∧ s ≤ Driver.E.n / 2 ∧
      Der.parse Driver.E.n true (serRS r s) = some (r, s) ∧
      Spec.Ecdsa.verify Driver.sigE (Driver.E.mul (ofBe secret) Driver.E.g) (ofBe msg) r s = true := by
  obtain ⟨_, _, _, k, r, s, hk, hrs, hok, rfl⟩ :=
    ecdsaSign_inv Driver.E Driver.Hs secpLawful_n_le Driver.fuel msg secret extra sig h
  have hr := (rangeOk_iff Driver.E.n true r s).mp hok
  have hkr := C07.nonce_range Driver.Hs Driver.fuel Driver.E.n (ofBe secret) (ofBe msg) extra k hk
  have hp := parse_serRS Driver.E.n true r s secpLawful_n_le hok
  have hv := C07.ecdsa_correct_key Driver.E secpLawful_ec_laws secpLawful_n_le (ofBe secret) (ofBe msg) k r s
    ⟨by omega, hkr.2⟩ hrs (by omega) (by omega) msg rfl
  rw [SignWith.verifyEcdsaKey_eq_spec, hp] at hv
  exact ⟨r, s, rfl, hr.2.2.2.2 rfl, hp, hv⟩

/-- **what the BIP340 signer returns, the function of `sig.schnorr` / `sigcheck.taproot` accepts**: `Driver.sigSchnorr`
    (length checks + `Spec.Bip340.verify` over the same record and SHA-256) says yes under the x-only key of `key·G` -/
theorem driver_schnorr_verifier_accepts (key msg : Bytes) (aux : Option Bytes) (sig : Bytes)
    (h : signSchnorr Driver.E Driver.Hs key msg aux = some sig) :
    ∃ px py, Driver.E.xy (Driver.E.mul (ofBe key) Driver.E.g) = some (px, py) ∧
      Driver.sigSchnorr (beN 32 px) msg sig = true := by
  obtain ⟨px, py, hxy, hv⟩ := driver_schnorr_correct key msg aux sig h
  refine ⟨px, py, hxy, ?_⟩
  have h1 : SignWith.schnorrVerifyX Driver.E Driver.Hs (beN 32 px) msg sig = true := by
    unfold SignWith.schnorrVerifyX; rw [hv]; rfl
  rw [SignWith.schnorrVerifyX_eq_spec (E := Driver.E) secpLawful_ec_laws] at h1
  simp only [Bool.and_eq_true, decide_eq_true_eq] at h1
  unfold Driver.sigSchnorr
  simp only [Bool.and_eq_true, decide_eq_true_eq]
  exact ⟨⟨⟨h1.1.1, h1.1.2.1⟩, h1.1.2.2⟩, h1.2⟩

/-! ### non-vacuity -/

/-- the record of both handler families is the lawful record, whose laws are theorems -/
example : Driver.E = Crypto.secpLawful ∧ Driver.sigE = Crypto.secpLawful ∧ EcLaws Driver.E :=
  ⟨rfl, rfl, secpLawful_ec_laws⟩

end Embit.Props.C07Z
