import EmbitModel.Props.C02Y
import EmbitModel.Props.C08W
import EmbitModel.Driver.SignWith
/-
  C02Z — the driver-level validity theorems of C02Y with NO curve hypothesis (second audit, finding A-1).

  Until the second audit the native driver evaluated `PSBT.sign_with` over `Crypto.secpOps`, a record whose carrier
  `Option (Nat × Nat)` contains junk values: `EcLaws Crypto.secpOps` is REFUTABLE (`old_driver_record_unlawful`, the
  audit's witness), so `C02Y.driver_added_sigs_valid (L : EcLaws Crypto.secpOps) …` was vacuous. The driver now evaluates
  `Crypto.secpLawful` (canonical affine points only, key.py's modelled arithmetic; Crypto/SecpLawful.lean), for which
  `EcLaws` and `InfUnique` are THEOREMS (Props/C08W, transported from Props/C08Z along an isomorphism of records). Hence the
  statements below have no premise about the curve at all, and they speak about the very objects the ops `sign.run` /
  `sign.trace` / `sign.view` / `sign.verify` evaluate and compare with embit on every run of `./check C02`:
  `Driver.SignDrv.concreteOps` (the `Ops` instance), `Driver.SignDrv.signKeyOps` (the key predicates of the parse),
  the executable hashes.

  `Crypto.secpOps` is still in the tree: it is used ONLY by the differential ops `ecops.*` (Driver/PyCurve.lean, compared with
  key.py's arithmetic by `./check C08`, `proven=False`) and as the subject of `old_driver_record_unlawful`.
-/
set_option linter.unusedVariables false
namespace Embit.Props.C02Z
open Embit Model Model.SignWith Embit.Props.C08W

/-! ### why the record was replaced -/

/-- **the audit's witness**: the record the driver USED to evaluate does not satisfy the curve laws — `xy_range` fails
    at the junk point `some (0, 0)` (`xy` is the identity there). Every theorem with the premise `EcLaws Crypto.secpOps`
    was therefore vacuous; the driver's record is now `Crypto.secpLawful` (`C08W.driver_record_eq`). -/
theorem old_driver_record_unlawful : Embit.EcLaws Crypto.secpOps → False := fun L =>
  absurd (L.xy_range (some (0, 0)) 0 0 rfl).1 (by decide)

/-- likewise for the key layer: the bridged old record (and the hand-written key record the driver had) violates
    `coord_lt` at the junk point `some (2^256, 0)` -/
theorem old_key_record_unlawful : Embit.Keys.EcLaws (toKeys Crypto.secpOps) → False := fun L => by
  have h := L.coord_lt (some (2 ^ 256, 0)) rfl
  have h1 : (2 : Nat) ^ 256 < 2 ^ 256 := h.1
  omega

/-! ### the driver's environment satisfies `SigLaws`, unconditionally -/

/-- `SigLaws` of the driver's `Ops` instance, with embit's verification path as verifiers -/
theorem driver_sigLaws :
    SigLaws Driver.SignDrv.concreteOps (validSecKey Driver.E) (ecdsaVerifySec Driver.E)
      (schnorrVerifyX Driver.E Driver.Hs) :=
  C02Y.sigLaws_concrete secpLawful_ec_laws secpLawful_n_le secpLawful_p_le secpLawful_inf_unique
    Driver.SignDrv.realHashes Driver.fuel

/-- … and with the verifiers written from SEC 1 / BIP340 only -/
theorem driver_sigLaws_standards :
    SigLaws Driver.SignDrv.concreteOps (validSecKey Driver.E) (ecdsaVerifySpec Driver.E)
      (fun xo m sig => Spec.Bip340.verify Driver.E Driver.Hs xo m sig) :=
  C02Y.sigLaws_standards secpLawful_ec_laws secpLawful_n_le secpLawful_p_le secpLawful_inf_unique
    Driver.SignDrv.realHashes Driver.fuel

/-! ### validity of every added signature, for the driver's runs, no curve hypothesis -/

/-- **`C02Y.driver_added_sigs_valid` without its two premises**: every slot content of the result of the driver's
    `signWith concreteOps` (= what `sign.run` / `sign.trace` evaluate) that is not the original content is a signature that
    verifies under the key it is filed under against `PSBT.sighash` of the PSBT handed in, with the authorised flag -/
theorem driver_added_sigs_valid_unconditional
    (signer : Signer Driver.SignDrv.HD) (auth : Option Nat)
    (p p' : Psbt) (n : Nat) (ws : List Write) (h : signWith Driver.SignDrv.concreteOps signer auth p = some (p', n, ws))
    (i : Nat) (s s' : InScope) (hsi : p.inputs[i]? = some s) (hsi' : p'.inputs[i]? = some s')
    (hkeys : KeysValid (validSecKey Crypto.secpLawful) s)
    (sl : Slot) (v : Bytes) (hv : slotValue s' sl = some v) (hnew : slotValue s sl ≠ some v) :
    ∃ u, s.utxo = some u ∧ C02.authorisedFlag auth s.sighashType (isTaprootSpk u.spk) ∧
      ValidWrite (ecdsaVerifySec Crypto.secpLawful) (schnorrVerifyX Crypto.secpLawful Crypto.shaOps)
        Driver.SignDrv.concreteOps s u (C02.effective auth s.sighashType (isTaprootSpk u.spk))
        (fun f leaf => psbtSighash Crypto.sha256 p i f leaf) (sl, v) :=
  C02Y.driver_added_sigs_valid secpLawful_ec_laws secpLawful_inf_unique signer auth p p' n ws h i s s' hsi hsi' hkeys sl v
    hv hnew

/-- **the same for `PSBTView.sign_with`** (`viewSignWith concreteOps` = what `sign.view` evaluates): every signature
    written to the stream that was not in the PSBT verifies -/
theorem driver_view_added_sigs_valid_unconditional
    (signer : Signer Driver.SignDrv.HD) (auth : Option Nat) (p : Psbt) (b : Bytes) (n : Nat) (p' : Psbt) (ws : List Write)
    (h : viewSignWith Driver.SignDrv.concreteOps signer auth p = some (b, n, p', ws))
    (i : Nat) (s s' : InScope) (hsi : p.inputs[i]? = some s) (hsi' : p'.inputs[i]? = some s')
    (hkeys : KeysValid (validSecKey Crypto.secpLawful) s)
    (sl : Slot) (v : Bytes) (hv : slotValue s' sl = some v) (hnew : slotValue s sl ≠ some v) :
    ∃ u, s.utxo = some u ∧ C02.authorisedFlag auth s.sighashType (isTaprootSpk u.spk) ∧
      ValidWrite (ecdsaVerifySec Crypto.secpLawful) (schnorrVerifyX Crypto.secpLawful Crypto.shaOps)
        Driver.SignDrv.concreteOps s u (C02.effective auth s.sighashType (isTaprootSpk u.spk))
        (fun f leaf => psbtSighash Crypto.sha256 p i f leaf) (sl, v) :=
  C02Y.view_added_sigs_valid_concrete secpLawful_ec_laws secpLawful_n_le secpLawful_p_le secpLawful_inf_unique
    Driver.SignDrv.realHashes Driver.fuel signer auth p b n p' ws h i s s' hsi hsi' hkeys sl v hv hnew

/-- **for PSBTs the driver parses** (`Psbt.parse signKeyOps sha256 0 raw`, the first step of every `sign.*` op) the
    hypothesis about the keys of the input is discharged too, and the verifiers are the standards' (strict SEC decoding +
    strict low-S DER + SEC 1 §4.1.4; BIP340): NOTHING is assumed — what `sign.run` answers for a byte string `raw` and a
    signer is covered as it stands -/
theorem driver_parsed_added_sigs_valid_unconditional (compress : Nat) (raw : Bytes)
    (signer : Signer Driver.SignDrv.HD) (auth : Option Nat) (p p' : Psbt) (n : Nat) (ws : List Write)
    (hparse : Psbt.parse Driver.SignDrv.signKeyOps Crypto.sha256 compress raw = some p)
    (h : signWith Driver.SignDrv.concreteOps signer auth p = some (p', n, ws))
    (i : Nat) (s s' : InScope) (hsi : p.inputs[i]? = some s) (hsi' : p'.inputs[i]? = some s')
    (sl : Slot) (v : Bytes) (hv : slotValue s' sl = some v) (hnew : slotValue s sl ≠ some v) :
    ∃ u, s.utxo = some u ∧ C02.authorisedFlag auth s.sighashType (isTaprootSpk u.spk) ∧
      ValidWrite (ecdsaVerifySpec Crypto.secpLawful)
        (fun xo m sig => Spec.Bip340.verify Crypto.secpLawful Crypto.shaOps xo m sig)
        Driver.SignDrv.concreteOps s u (C02.effective auth s.sighashType (isTaprootSpk u.spk))
        (fun f leaf => psbtSighash Crypto.sha256 p i f leaf) (sl, v) :=
  C02Y.parsed_added_sigs_valid secpLawful_ec_laws secpLawful_n_le secpLawful_p_le secpLawful_inf_unique
    Driver.SignDrv.realHashes Driver.fuel Driver.concreteKeyOps.validXpub compress raw signer auth p p' n ws hparse h
    i s s' hsi hsi' sl v hv hnew

/-- the same for the view: a PSBT the driver parses, signed through `viewSignWith` -/
theorem driver_parsed_view_added_sigs_valid_unconditional (compress : Nat) (raw : Bytes)
    (signer : Signer Driver.SignDrv.HD) (auth : Option Nat) (p : Psbt) (b : Bytes) (n : Nat) (p' : Psbt) (ws : List Write)
    (hparse : Psbt.parse Driver.SignDrv.signKeyOps Crypto.sha256 compress raw = some p)
    (h : viewSignWith Driver.SignDrv.concreteOps signer auth p = some (b, n, p', ws))
    (i : Nat) (s s' : InScope) (hsi : p.inputs[i]? = some s) (hsi' : p'.inputs[i]? = some s')
    (sl : Slot) (v : Bytes) (hv : slotValue s' sl = some v) (hnew : slotValue s sl ≠ some v) :
    ∃ u, s.utxo = some u ∧ C02.authorisedFlag auth s.sighashType (isTaprootSpk u.spk) ∧
      ValidWrite (ecdsaVerifySpec Crypto.secpLawful)
        (fun xo m sig => Spec.Bip340.verify Crypto.secpLawful Crypto.shaOps xo m sig)
        Driver.SignDrv.concreteOps s u (C02.effective auth s.sighashType (isTaprootSpk u.spk))
        (fun f leaf => psbtSighash Crypto.sha256 p i f leaf) (sl, v) :=
  C02Y.view_added_sigs_valid_standards secpLawful_ec_laws secpLawful_n_le secpLawful_p_le secpLawful_inf_unique
    Driver.SignDrv.realHashes Driver.fuel signer auth p b n p' ws h i s s' hsi hsi'
    (C02X.parsed_keys_valid Driver.SignDrv.signKeyOps (keyOpsOf_x Driver.concreteKeyOps.validXpub) Crypto.sha256 compress raw
      p hparse s (List.mem_of_getElem? hsi)) sl v hv hnew

/-- the key-path statement of C02Y (`added_keypath_sig_bip341`: a new key-path witness is one BIP340 signature under the
    BIP341 output key of a secret the signer holds) for the driver's runs; the only premise left is the output length of
    the tagged hash, which for the driver's SHA-256 is a fact about `Crypto.sha256` this development does not prove -/
theorem driver_added_keypath_sig_bip341
    (htag : ∀ t m, (Driver.SignDrv.realHashes.env.tagged t m).length = 32)
    (signer : Signer Driver.SignDrv.HD) (auth : Option Nat)
    (p p' : Psbt) (n : Nat) (ws : List Write) (h : signWith Driver.SignDrv.concreteOps signer auth p = some (p', n, ws))
    (i : Nat) (s s' : InScope) (hsi : p.inputs[i]? = some s) (hsi' : p'.inputs[i]? = some s')
    (v : Bytes) (hv : slotValue s' .tapKeySig = some v) (hnew : slotValue s .tapKeySig ≠ some v) :
    ∃ sg ∈ signer.keys, ∃ u sk c x par X hh sig,
      s.utxo = some u ∧ isTaprootSpk u.spk = true ∧ OwnKey Driver.SignDrv.concreteOps sg s sk c ∧
      xonlyOfSec (Driver.SignDrv.concreteOps.secOf sk c) = beN 32 x ∧
      Spec.Bip341.tweakPubkey (toKeys Crypto.secpLawful) Driver.SignDrv.realHashes.env.tagged x (s.tapMerkleRoot.getD [])
        = some (par, X) ∧
      isInfix (beN 32 X) u.spk = true ∧
      psbtSighash Crypto.sha256 p i (C02.effective auth s.sighashType true) none = some hh ∧
      v = sig ++ flagSuffix (C02.effective auth s.sighashType true) ∧ sig.length = 64 ∧
      Spec.Bip340.verify Crypto.secpLawful Crypto.shaOps (beN 32 X) hh sig = true :=
  C02Y.added_keypath_sig_bip341 secpLawful_ec_laws secpLawful_n_le secpLawful_p_le secpLawful_inf_unique
    Driver.SignDrv.realHashes Driver.fuel htag signer auth p p' n ws h i s s' hsi hsi' v hv hnew

/-! ### non-vacuity -/

/-- the premises that were removed are facts about the driver's record -/
example : Embit.EcLaws Driver.E ∧ InfUnique Driver.E := ⟨secpLawful_ec_laws, secpLawful_inf_unique⟩
/-- the driver's `Ops` instance is `opsOf` over that record -/
example : Driver.SignDrv.concreteOps = opsOf Crypto.secpLawful Driver.SignDrv.realHashes Driver.fuel := rfl
/-- the key predicates of the driver's parse are the key model's parsers over that record -/
example : Driver.SignDrv.signKeyOps = keyOpsOf Crypto.secpLawful Driver.concreteKeyOps.validXpub := rfl

end Embit.Props.C02Z
