import EmbitModel.Props.C20
import EmbitModel.Generated.BindingFacts
/-
  C20, part 2 — the per-function facts of embit's binding layer as PROBED from the loaded module on this run
  (harness/bindprobe.py -> Generated/BindingFacts.lean), decided by kernel evaluation, and their combination with the
  protocol theorem of Props/C20.lean.
-/
namespace Embit.Props.C20
open Embit.Model.Lock Embit.Gen.Binding

/-! ### (2) the facts probed from the loaded module on this run -/

set_option maxRecDepth 100000

/-- every function that can reach native code was exercised by the probe, and so was every `_secp.…(…)` call site -/
theorem all_probed : unprobed = [] ∧ ∀ f ∈ bindingFns, f.probed = true := by decide +kernel

/-- the summaries emitted by the probe are the ones the recorded steps give -/
theorem facts_consistent : ∀ f ∈ bindingFns,
    f.callsNative = stepsCallNative f.steps ∧ f.nativeUnderLock = stepsLocked false f.steps
      ∧ f.outBuffersFresh = stepsFresh f.steps := by decide +kernel

/-- every entry point of the native binding runs under the library's lock -/
theorem every_entry_locked : ∀ f ∈ bindingFns, f.callsNative = true → f.nativeUnderLock = true := by decide +kernel

/-- no function lets C write into a buffer that another call or thread can see -/
theorem buffers_fresh : ∀ f ∈ bindingFns, f.outBuffersFresh = true := by decide +kernel

/-- (weaker than `buffers_fresh`, what `safe` really needs) a shared out-buffer is at least copied before the release -/
theorem buffers_private_or_copied : ∀ f ∈ bindingFns, f.outBuffersFresh = true ∨ f.copiesBeforeRelease = true := by
  decide +kernel

/-- no function acquires the (non-reentrant) lock while holding it -/
theorem no_reentrant_acquire : ∀ f ∈ bindingFns, f.lockReentered = false := by decide +kernel

/-! ### (3) protocol + facts -/

/-- programs of binding-backed operations of the probed module: any threads, any operation sequences, any complete
    schedule — the results are the serial ones -/
theorem binding_serialisable (threads : List (List BindingFn))
    (hin : ∀ ops ∈ threads, ∀ f ∈ ops, f ∈ bindingFns ∧ f.callsNative = true) (sched : List Tid) :
    let progs := progsOf (threads.map (·.map (·.steps)))
    complete (run sched (init progs)) →
    ∀ t, (run sched (init progs)).res t = (run (serialSched progs threads.length) (init progs)).res t := by
  have key := serialisable_of_facts (bindingFns.filter (·.callsNative))
    (fun f hf => by
      have hf' := (List.mem_filter.1 hf).1
      exact ⟨(facts_consistent f hf').2.1, (facts_consistent f hf').2.2⟩)
    (fun f hf => by
      have hf' := List.mem_filter.1 hf
      exact ⟨every_entry_locked f hf'.1 (by simpa using hf'.2), buffers_fresh f hf'.1⟩)
    threads
    (fun ops hops f hf => List.mem_filter.2 ⟨(hin ops hops f hf).1, by simpa using (hin ops hops f hf).2⟩)
    sched
  exact key

/-- the probed table is not empty and contains the Liquid unblinding primitive, and it calls native code -/
example : (bindingFns.filter (fun f => f.name == "rangeproof_rewind" && f.callsNative)).length = 1 := by decide +kernel

example : 40 ≤ bindingFns.length := by decide +kernel


end Embit.Props.C20
