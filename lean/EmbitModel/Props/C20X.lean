import EmbitModel.Props.C20
import EmbitModel.Proofs.LockCtx
/-
  C20, deepened.

  (5) FAIRNESS. `Fair W progs sched`: in every window of `W` consecutive ticks of the schedule, every thread that is
      still unfinished at the end of the window has been scheduled at least once (finished threads need not be
      scheduled; a tick spent blocked in front of `acquire` counts as "scheduled" but NOT as progress). For any number of
      threads and programs of any length that follow the discipline: a `W`-fair schedule of at least
      `W * totalTicks progs n` ticks — `totalTicks` = the length of the serial schedule, a native call counting two —
      finishes every thread, hence gives the serial results. Same for infinite schedules (every long enough prefix) and,
      as an instance, for round robin. Witness: without fairness nothing is guaranteed — a schedule that starves the
      lock holder never completes, however long; the bound is tight up to `W - 1` ticks (`fair_bound_is_tight`).
  (6) THE LIBRARY CONTEXT AS SHARED STATE (`Model/LockCtx.lean`): the context has contents (two words that must match);
      every native call reads it, `context_randomize`-style calls write it, non-atomically. Properly locked programs
      still obtain the serial results after every schedule, the context is consistent whenever no call is in flight,
      and fair schedules complete. Witnesses: ONE unlocked context writer makes a properly locked reader return garbage;
      two unlocked writers leave the context torn for ever; overlapping unlocked READERS are harmless in this machine
      (the lock is needed for the context writers and the shared buffers).
-/
namespace Embit.Props.C20
open Embit.Model.Lock Embit.Model.LockCtx

/-! ### (5) fairness -/

/-- a `W`-fair finite schedule for the programs `progs` -/
def Fair (W : Nat) (progs : Tid → List Step) (sched : List Tid) : Prop := fairFrom W (init progs) sched

/-- FAIRNESS: every `W`-fair schedule that is long enough — `W` ticks per tick of work — completes. Any number of
    threads, any program lengths, any `W`. -/
theorem fair_completes (progs : Tid → List Step) (n : Nat) (hs : ∀ t, safe t none (progs t) = true)
    (hn : ∀ t, n ≤ t → progs t = []) (W : Nat) (sched : List Tid) (hf : Fair W progs sched)
    (hlen : W * totalTicks progs n ≤ sched.length) : complete (run sched (init progs)) :=
  fair_completes_from n hn W (totalTicks progs n) (init progs) _ sched (inv_init progs hs)
    (by rw [totalLeft_init]; exact Nat.le_refl _) hf hlen

/-- … and therefore gives every thread the results of the serial execution -/
theorem fair_serialisable (progs : Tid → List Step) (n : Nat) (hs : ∀ t, safe t none (progs t) = true)
    (hn : ∀ t, n ≤ t → progs t = []) (W : Nat) (sched : List Tid) (hf : Fair W progs sched)
    (hlen : W * totalTicks progs n ≤ sched.length) (t : Tid) :
    (run sched (init progs)).res t = (run (serialSched progs n) (init progs)).res t :=
  serialisable progs n hs hn sched (fair_completes progs n hs hn W sched hf hlen) t

/-- the bound is stated in the unit of the serial schedule: `totalTicks progs n` is its length -/
theorem totalTicks_is_serial_length (progs : Tid → List Step) (n : Nat) :
    (serialSched progs n).length = totalTicks progs n := serialSched_length progs n

/-- infinite schedules: `σ` is `W`-fair when every window `[i, i+W)` contains every thread still unfinished after
    `i + W` ticks -/
def FairInf (W : Nat) (progs : Tid → List Step) (σ : Nat → Tid) : Prop := fairInf W (init progs) σ

/-- every prefix of a fair infinite schedule of length at least `W * totalTicks` is complete -/
theorem fair_infinite_completes (progs : Tid → List Step) (n : Nat) (hs : ∀ t, safe t none (progs t) = true)
    (hn : ∀ t, n ≤ t → progs t = []) (W : Nat) (σ : Nat → Tid) (hf : FairInf W progs σ)
    (k : Nat) (hk : W * totalTicks progs n ≤ k) : complete (run (pref σ k) (init progs)) :=
  fair_completes progs n hs hn W (pref σ k) (fairFrom_of_fairInf W (init progs) σ hf k) (by rw [pref_length]; exact hk)

/-- a decidable sufficient condition: every window contains EVERY thread below `n` -/
theorem fair_of_all_scheduled (progs : Tid → List Step) (n : Nat) (hs : ∀ t, safe t none (progs t) = true)
    (hn : ∀ t, n ≤ t → progs t = []) (W : Nat) (sched : List Tid)
    (h : ∀ i t, i + W ≤ sched.length → t < n → t ∈ (sched.drop i).take W) : Fair W progs sched := by
  intro i t hi hrest
  exact h i t hi (unfinished_lt (inv_run (sched.take (i + W)) (inv_init progs hs)) n hn t hrest)

/-- ROUND ROBIN over `n` threads (`σ j = j mod n`) is `n`-fair, so it completes after `n * totalTicks` ticks -/
theorem round_robin_completes (progs : Tid → List Step) (n : Nat) (hs : ∀ t, safe t none (progs t) = true)
    (hn : ∀ t, n ≤ t → progs t = []) (k : Nat) (hk : n * totalTicks progs n ≤ k) :
    complete (run (pref (· % n) k) (init progs)) := by
  apply fair_infinite_completes progs n hs hn n (· % n) _ k hk
  intro i t hrest
  have ht := unfinished_lt (inv_run (pref (· % n) (i + n)) (inv_init progs hs)) n hn t hrest
  exact round_robin_window n i t ht

/-- FAIRNESS IS NEEDED: thread 0 takes the lock and is never scheduled again; thread 1 is scheduled for ever but stands
    blocked in front of its `acquire` — being scheduled is not progress, the run never completes -/
theorem starved_holder_never_completes (k : Nat) :
    let p : Tid → List Step := fun t => if t < 2 then [.acquire, .local, .release] else []
    (∀ t, safe t none (p t) = true) ∧ ¬ complete (run (0 :: List.replicate k 1) (init p)) := by
  intro p
  refine ⟨?_, ?_⟩
  · intro t
    by_cases h : t < 2 <;> simp [p, h, safe]
  · have hblocked : ∀ k, run (List.replicate k 1) (step 0 (init p)) = step 0 (init p) := by
      intro k
      induction k with
      | zero => rfl
      | succ k ih => rw [List.replicate_succ, run_cons]; exact ih
    intro hc
    have := hc 1
    rw [run_cons, hblocked k] at this
    simp [step, init, p, upd] at this

/-- the bound is tight up to `W - 1` ticks: one thread with 4 ticks of work, `W = 3`; the schedule gives the thread
    every third tick (the other ticks go to a thread id that has no program). It is 3-fair, `3 * 4 = 12` ticks complete
    it (as `fair_completes` says), `3 * 4 - 1 = 11` ticks do not. -/
theorem fair_bound_is_tight :
    let p : Tid → List Step := fun t => if t = 0 then [.acquire, .nativeCall "f" [(.priv 0 0, 5)], .release] else []
    let sched := [9, 9, 0, 9, 9, 0, 9, 9, 0, 9, 9, 0]
    (∀ t, safe t none (p t) = true) ∧ totalTicks p 1 = 4 ∧ Fair 3 p sched ∧ Fair 3 p (sched.take 11)
      ∧ complete (run sched (init p)) ∧ ¬ complete (run (sched.take 11) (init p)) := by
  intro p sched
  have hs : ∀ t, safe t none (p t) = true := by
    intro t
    by_cases h : t = 0
    · subst h; rfl
    · simp [p, h, safe]
  have hn : ∀ t, 1 ≤ t → p t = [] := by
    intro t ht
    have : t ≠ 0 := Nat.ne_of_gt ht
    simp [p, this]
  have w12 : ∀ i, i < 10 → ∀ t, t < 1 → t ∈ (sched.drop i).take 3 := by decide
  have w11 : ∀ i, i < 9 → ∀ t, t < 1 → t ∈ ((sched.take 11).drop i).take 3 := by decide
  refine ⟨hs, rfl, ?_, ?_, ?_, ?_⟩
  · exact fair_of_all_scheduled p 1 hs hn 3 sched (fun i t hi ht => w12 i (by simp [sched] at hi; omega) t ht)
  · exact fair_of_all_scheduled p 1 hs hn 3 (sched.take 11)
      (fun i t hi ht => w11 i (by simp [sched] at hi; omega) t ht)
  · exact fair_completes p 1 hs hn 3 sched
      (fair_of_all_scheduled p 1 hs hn 3 sched (fun i t hi ht => w12 i (by simp [sched] at hi; omega) t ht))
      (by decide)
  · intro hc
    exact absurd (hc 0) (by decide +kernel)
/-- non-vacuity of `fair_completes`: three threads, a 3-fair schedule in which acquires are blocked, the bound is
    `3 * 15 = 45` ticks -/
example :
    let p : Tid → List Step := fun t => if t < 3 then compile t 0
      [.acq, .native "secp256k1_ecdsa_sign" true [⟨.fresh, 0⟩], .rel, .read ⟨.fresh, 0⟩] else []
    (∀ t, safe t none (p t) = true) ∧ totalTicks p 3 = 15 ∧ complete (run (pref (· % 3) 45) (init p))
      ∧ ¬ complete (run (pref (· % 3) 12) (init p)) ∧ (run (pref (· % 3) 45) (init p)).res 2 = [token 2 0] := by
  intro p
  have hs : ∀ t, safe t none (p t) = true := by
    intro t
    by_cases h : t < 3
    · have := compile_safe t 0 [.acq, .native "secp256k1_ecdsa_sign" true [⟨.fresh, 0⟩], .rel, .read ⟨.fresh, 0⟩] none rfl
      simpa [p, h] using this
    · simp [p, h, safe]
  refine ⟨hs, rfl, ?_, ?_, by decide +kernel⟩
  · exact round_robin_completes p 3 hs (fun t ht => by have : ¬ t < 3 := Nat.not_lt.2 ht; simp [p, this]) 45 (by decide)
  · intro hc
    exact absurd (hc 2) (by decide +kernel)

/-! ### (6) the library context as shared state -/

/-- after ANY schedule every thread's results are those of the executed part of its program run alone — although every
    native call reads the shared context and some calls rewrite it -/
theorem ctx_results_prefix (progs : Tid → List CStep) (hs : ∀ t, csafe t (progs t) = true) (sched : List Tid) (t : Tid) :
    ∃ pre, progs t = pre ++ (crun sched (cinit progs)).rest t ∧ (crun sched (cinit progs)).res t = csolo pre :=
  results_prefix_ctx progs hs sched t

theorem ctx_results_alone (progs : Tid → List CStep) (hs : ∀ t, csafe t (progs t) = true) (sched : List Tid) (t : Tid)
    (hdone : (crun sched (cinit progs)).rest t = []) : (crun sched (cinit progs)).res t = csolo (progs t) := by
  obtain ⟨pre, h1, h2⟩ := results_prefix_ctx progs hs sched t
  rw [hdone, List.append_nil] at h1
  rw [h2, h1]

/-- the serial execution completes in the machine with context contents too -/
theorem ctx_serial_completes (progs : Tid → List CStep) (n : Nat) (hs : ∀ t, csafe t (progs t) = true)
    (hn : ∀ t, n ≤ t → progs t = []) : ccomplete (crun (cserialSched progs n) (cinit progs)) :=
  (ccomplete_iff progs hs _).2
    (serial_completes (eraseProgs progs) n hs (fun t ht => by simp [eraseProgs, hn t ht]))

/-- SERIALISABLE with context writers: the context write is serialised by the lock, so every complete schedule gives
    each thread the results of the serial execution -/
theorem ctx_serialisable (progs : Tid → List CStep) (n : Nat) (hs : ∀ t, csafe t (progs t) = true)
    (hn : ∀ t, n ≤ t → progs t = []) (sched : List Tid) (hc : ccomplete (crun sched (cinit progs))) (t : Tid) :
    (crun sched (cinit progs)).res t = (crun (cserialSched progs n) (cinit progs)).res t := by
  rw [ctx_results_alone progs hs sched t (hc t),
      ctx_results_alone progs hs _ t (ctx_serial_completes progs n hs hn t)]

/-- the context is never left torn: whenever no native call is in flight (in particular when the schedule is complete)
    its two words match -/
theorem ctx_consistent (progs : Tid → List CStep) (hs : ∀ t, csafe t (progs t) = true) (sched : List Tid)
    (hq : ∀ t, (crun sched (cinit progs)).mid t = false) :
    (crun sched (cinit progs)).ctxA = (crun sched (cinit progs)).ctxB :=
  (sim_of_safe progs hs sched).quiet hq

theorem ctx_consistent_when_complete (progs : Tid → List CStep) (hs : ∀ t, csafe t (progs t) = true) (sched : List Tid)
    (hc : ccomplete (crun sched (cinit progs))) :
    (crun sched (cinit progs)).ctxA = (crun sched (cinit progs)).ctxB := by
  apply ctx_consistent progs hs sched
  intro t
  cases hm : (crun sched (cinit progs)).mid t with
  | false => rfl
  | true =>
    obtain ⟨_, f, w, o, r, h, _⟩ := (sim_of_safe progs hs sched).rd t hm
    rw [hc t] at h; cases h

/-- fairness for the machine with context contents -/
theorem ctx_fair_completes (progs : Tid → List CStep) (n : Nat) (hs : ∀ t, csafe t (progs t) = true)
    (hn : ∀ t, n ≤ t → progs t = []) (W : Nat) (sched : List Tid)
    (hf : ∀ i t, i + W ≤ sched.length → (crun (sched.take (i + W)) (cinit progs)).rest t ≠ [] →
      t ∈ (sched.drop i).take W)
    (hlen : W * totalTicks (eraseProgs progs) n ≤ sched.length) : ccomplete (crun sched (cinit progs)) :=
  (ccomplete_iff progs hs sched).2
    (fair_completes (eraseProgs progs) n hs (fun t ht => by simp [eraseProgs, hn t ht]) W sched
      (fun i t hi hrest => hf i t hi ((rest_ne_nil_iff progs hs _ t).1 hrest)) hlen)

/-! #### witnesses: what the lock around the context writers is for -/

/-- a properly locked signer and an UNLOCKED `context_randomize` -/
def lockedReaderUnlockedWriter : Tid → List CStep
  | 0 => [.acquire, .native "secp256k1_ecdsa_sign" none [(.priv 0 0, 111)], .release, .copyOut (.priv 0 0)]
  | 1 => [.native "secp256k1_context_randomize" (some 7) []]
  | _ => []

/-- T0: acquire, sign starts (reads word 1); T1: randomize rewrites both words; T0: sign finishes on a context that
    does not match what it read — thread 0 follows the discipline, its buffer is private, and its result is garbage -/
theorem unlocked_context_writer_breaks_locked_reader :
    let sched := [0, 0, 1, 1, 0, 0, 0]
    ccomplete (crun sched (cinit lockedReaderUnlockedWriter))
    ∧ (crun sched (cinit lockedReaderUnlockedWriter)).res 0 = [garble 111]
    ∧ (crun (cserialSched lockedReaderUnlockedWriter 2) (cinit lockedReaderUnlockedWriter)).res 0 = [111]
    ∧ csafe 0 (lockedReaderUnlockedWriter 0) = true ∧ csafe 1 (lockedReaderUnlockedWriter 1) = false := by
  refine ⟨?_, rfl, rfl, rfl, rfl⟩
  intro t
  match t with
  | 0 => rfl
  | 1 => rfl
  | _ + 2 => rfl

/-- the same two programs with the writer under the lock: the same preemption pattern (thread 1 is scheduled while
    thread 0 is inside its call, and is blocked) gives the serial result -/
theorem locked_context_writer_is_harmless :
    let p : Tid → List CStep := fun t => match t with
      | 0 => lockedReaderUnlockedWriter 0
      | 1 => [.acquire, .native "secp256k1_context_randomize" (some 7) [], .release]
      | _ => []
    let sched := [0, 0, 1, 1, 0, 0, 0, 1, 1, 1, 1]
    (∀ t, csafe t (p t) = true) ∧ ccomplete (crun sched (cinit p)) ∧ (crun sched (cinit p)).res 0 = [111]
      ∧ (crun sched (cinit p)).ctxA = 7 ∧ (crun sched (cinit p)).ctxB = 7 := by
  refine ⟨?_, ?_, rfl, rfl, rfl⟩
  · intro t
    match t with
    | 0 => rfl
    | 1 => rfl
    | _ + 2 => rfl
  · intro t
    match t with
    | 0 => rfl
    | 1 => rfl
    | _ + 2 => rfl

/-- two unlocked writers that overlap leave the context TORN FOR EVER: a properly locked call made afterwards, with
    nothing else running, still returns garbage -/
theorem unlocked_context_writers_tear_the_context :
    let p : Tid → List CStep := fun t => match t with
      | 0 => [.native "secp256k1_context_randomize" (some 5) []]
      | 1 => [.native "secp256k1_context_randomize" (some 7) []]
      | 2 => [.acquire, .native "secp256k1_ec_pubkey_create" none [(.priv 2 0, 333)], .release, .copyOut (.priv 2 0)]
      | _ => []
    let sched := [0, 1, 1, 0, 2, 2, 2, 2, 2]
    ccomplete (crun sched (cinit p)) ∧ (crun sched (cinit p)).ctxA = 7 ∧ (crun sched (cinit p)).ctxB = 5
      ∧ (crun sched (cinit p)).res 2 = [garble 333] ∧ csafe 2 (p 2) = true := by
  refine ⟨?_, rfl, rfl, rfl, rfl⟩
  intro t
  match t with
  | 0 => rfl
  | 1 => rfl
  | 2 => rfl
  | _ + 3 => rfl

/-- what the finer machine does NOT punish: two overlapping unlocked READERS with private buffers (the coarse machine of
    `Model/Lock.lean` garbles them: `unlocked_native_call_breaks_serialisability`). The property still demands the lock
    at every entry point (`every_entry_locked`); this records that in the model it is needed for the context writers
    and the shared buffers only. -/
theorem unlocked_readers_do_not_disturb_each_other :
    let p : Tid → List CStep := fun t => match t with
      | 0 => [.native "secp256k1_ec_pubkey_create" none [(.priv 0 0, 111)], .copyOut (.priv 0 0)]
      | 1 => [.native "secp256k1_ec_pubkey_create" none [(.priv 1 0, 222)], .copyOut (.priv 1 0)]
      | _ => []
    (crun [0, 1, 0, 1, 0, 1] (cinit p)).res 0 = [111] ∧ (crun [0, 1, 0, 1, 0, 1] (cinit p)).res 1 = [222] := ⟨rfl, rfl⟩

end Embit.Props.C20
