import EmbitModel.Props.C19X
import EmbitModel.Proofs.HeapDeep
/-
  C19, audit2 B-7 / X5 — keyed memos under in-place edits ONE LEVEL DOWN (`Model/HeapDeep.lean`).

  `C19.embit_keyed_memos_survive_in_place_edits` (Props/C19X.lean) is a statement about FLAT arguments: the model's
  `.copies` key stores the entire contents, so "whatever the caller does to its own argument lists" there does not speak
  about the buffers INSIDE the list's elements. On the real code the key of `hash_script_pubkeys` was
  `tuple([sc.data for sc in script_pubkeys])` — a new tuple of references to the callers' `Script.data` objects; with
  `Script(bytearray)` and an in-place edit of that bytearray, `Transaction.sighash_taproot` / `PSBTView.sighash_taproot`
  answered with the digest of the OLD scripts (reproduced; repaired by fixes/memo-key.diff: `bytes(sc.data)`).

  Here the argument is a list of references to caller-owned buffers, and there are three key kinds: deep / shallow /
  aliases. * `deep_keys_safe`: deep keys answer `f(receiver, bytes the argument denotes NOW)` after ANY history, edits of
  lists and of buffers included. * `shallow_key_is_stale_after_buffer_edit`: the pre-fix key is wrong after one buffer
  edit (and right after list edits: that is all the old probe tried); ONLY buffer edits break it:
  `shallow_keys_safe_without_buffer_edits`. * the row of `Gen.Alias.memoKeys` is now `true`
  only if the AST of the key rebuilds every element as an immutable object AND a probe with bytearray-backed scripts
  edited byte by byte agrees with a fresh receiver (harness/aliasfacts.py), so `embit_memo_keys_copy` is the hypothesis
  of `embit_keyed_memos_survive_nested_in_place_edits`.
-/
namespace Embit.Props.C19
open Embit

section deep
open Embit.HeapDeep

/-- DEEP KEYS ARE SAFE: if every keyed memo builds its key from the BYTES of every element of the argument, then after
    any history — the caller may replace the elements of its lists in place, edit the buffers in them in place, and hand
    the same objects in again — every query answers `f m (receiver's contents) (the bytes the argument denotes now)` -/
theorem deep_keys_safe (env : HeapDeep.Env) (hd : env.keysDeep = true) (h : List HeapDeep.Op) (i m k : Nat) :
    HeapDeep.answer env (HeapDeep.run env HeapDeep.init h) i m k
      = env.f m ((HeapDeep.run env HeapDeep.init h).recv i) (HeapDeep.deref (HeapDeep.run env HeapDeep.init h) k) :=
  answer_of_memoOk env _ (run_memoOk env hd h _ (memoOk_init env)) i m k

/-- a digest that sees every byte of every element -/
def fDeep : Nat → List HeapDeep.Val → List (List HeapDeep.Val) → HeapDeep.Val :=
  fun _ recv a => recv.sum + 100 * (a.map List.sum).sum + 10000 * a.length

/-- WITNESS (the code before fixes/memo-key.diff): `key = tuple([sc.data for sc in spks])`.
    `d = bytearray(..); spks = [Script(d)]; t.digest(spks); d[1] = 45; t.digest(spks)`: the stored key holds `d` itself,
    compares equal to the new key (the same `d`), and the answer is the one for the OLD bytes (10302) instead of the
    present ones (14602). A deep key answers 14602. The shallow key does survive what the old probe tried — the list's
    elements replaced in place by OTHER buffers (`hist2`) -/
theorem shallow_key_is_stale_after_buffer_edit :
    let hist : List HeapDeep.Op := [.newObj [2], .newCell [1, 2], .newArg [0], .query 0 0 0, .editCell 0 [1, 45]]
    let hist2 : List HeapDeep.Op :=
      [.newObj [2], .newCell [1, 2], .newCell [1, 45], .newArg [0], .query 0 0 0, .editArg 0 [1]]
    let shallow : HeapDeep.Env := { methods := [.shallow], f := fDeep }
    let deep : HeapDeep.Env := { methods := [.deep], f := fDeep }
    HeapDeep.answer shallow (HeapDeep.run shallow HeapDeep.init hist) 0 0 0 = 10302
    ∧ shallow.f 0 ((HeapDeep.run shallow HeapDeep.init hist).recv 0) (HeapDeep.deref (HeapDeep.run shallow HeapDeep.init hist) 0) = 14602
    ∧ HeapDeep.answer deep (HeapDeep.run deep HeapDeep.init hist) 0 0 0 = 14602
    ∧ HeapDeep.answer shallow (HeapDeep.run shallow HeapDeep.init hist2) 0 0 0 = 14602
    ∧ shallow.keysDeep = false ∧ shallow.noListAlias = true ∧ deep.keysDeep = true := by
  decide

/-- SHALLOW KEYS FAIL ONLY THROUGH BUFFER EDITS: if no keyed memo stores the caller's list itself (keys are deep or
    shallow), then after any history WITHOUT an in-place edit of a buffer — the caller may still replace the elements of its
    lists in place and hand the same list in again — every query answers from the present bytes. Together with
    `shallow_key_is_stale_after_buffer_edit`: the pre-fix key `tuple([sc.data …])` was wrong exactly for callers that edit
    a bytearray they gave to a `Script` (what the old probe, which only replaced elements, could not see) -/
theorem shallow_keys_safe_without_buffer_edits (env : HeapDeep.Env) (hn : env.noListAlias = true) (h : List HeapDeep.Op)
    (hne : (h.all fun o => !o.isCellEdit) = true) (i m k : Nat) :
    HeapDeep.answer env (HeapDeep.run env HeapDeep.init h) i m k
      = env.f m ((HeapDeep.run env HeapDeep.init h).recv i) (HeapDeep.deref (HeapDeep.run env HeapDeep.init h) k) :=
  answer_of_memoOkS env _ (run_memoOkS env hn h _ hne (memoOkS_init env)) i m k

/-- non-vacuity: a shallow-keyed method, lists built, edited in place and queried again, no buffer edit -/
example :
    let env : HeapDeep.Env := { methods := [.shallow, .deep], f := fDeep }
    let h : List HeapDeep.Op :=
      [.newObj [2], .newCell [1, 2], .newCell [1, 45], .newArg [0], .query 0 0 0, .editArg 0 [1, 0], .query 0 0 0, .query 0 1 0]
    env.noListAlias = true ∧ (h.all fun o => !o.isCellEdit) = true ∧ env.keysDeep = false
      ∧ HeapDeep.answer env (HeapDeep.run env HeapDeep.init h) 0 0 0 = 24902 := by
  decide

/-- the keyed memos of the loaded embit modules over nested arguments: a row of `Gen.Alias.memoKeys` that is `true` is a
    deep key; anything else is treated as the worst kind -/
def embitDeepEnv (f : Nat → List HeapDeep.Val → List (List HeapDeep.Val) → HeapDeep.Val) : HeapDeep.Env :=
  { methods := Gen.Alias.memoKeys.map fun r => if r.2 then .deep else .aliases, f := f }

/-- embit's keyed memos (after fixes/memo-key.diff) answer from the present bytes of receiver and argument after every
    history, whatever the caller does to its own lists AND to the byte buffers of the scripts in them between the calls.
    Rests on `embit_memo_keys_copy` (every extracted row is `true`), whose rows are established by the AST rule and the
    byte-level in-place probe of harness/aliasfacts.py — on the code before the fix two rows are `false` and this does
    not build -/
theorem embit_keyed_memos_survive_nested_in_place_edits
    (f : Nat → List HeapDeep.Val → List (List HeapDeep.Val) → HeapDeep.Val) (h : List HeapDeep.Op) (i m k : Nat) :
    HeapDeep.answer (embitDeepEnv f) (HeapDeep.run (embitDeepEnv f) HeapDeep.init h) i m k
      = f m ((HeapDeep.run (embitDeepEnv f) HeapDeep.init h).recv i)
          (HeapDeep.deref (HeapDeep.run (embitDeepEnv f) HeapDeep.init h) k) := by
  have hd : (embitDeepEnv f).keysDeep = true := by
    have h1 := embit_memo_keys_copy.1
    simp only [List.all_eq_true] at h1
    simp only [HeapDeep.Env.keysDeep, embitDeepEnv, List.all_eq_true, List.mem_map]
    rintro x ⟨r, hr, rfl⟩
    simp [h1 r hr]
  exact deep_keys_safe (embitDeepEnv f) hd h i m k

/-- non-vacuity: a history over the extracted methods with a buffer edited in place between two queries of the same
    list object (method 1 = `PSBTView.hash_script_pubkeys`), a list edited in place, two objects -/
example :
    let env := embitDeepEnv fDeep
    let st := HeapDeep.run env HeapDeep.init
      [.newObj [2], .newObj [3], .newCell [1, 2], .newCell [7], .newArg [0, 1], .query 0 1 0, .editCell 0 [1, 45],
       .query 0 1 0, .editArg 0 [1], .mutate 0 5, .query 1 3 0]
    HeapDeep.answer env st 0 1 0 = 10707 ∧ HeapDeep.answer env st 1 3 0 = 10703 ∧ st.nobjs = 2 ∧ st.nargs = 1
      ∧ st.ncells = 2 ∧ env.methods.length = 4 := by
  decide +kernel

end deep

end Embit.Props.C19
