import EmbitModel.Proofs.Slip39EndToEnd
import EmbitModel.Proofs.Slip39RsDetect
import EmbitModel.Proofs.Slip39CryptSpec
import EmbitModel.Proofs.Slip39RsSpec
import EmbitModel.Proofs.Slip39ParseSound
import EmbitModel.Proofs.Slip39InterpSpec
/-
  C16 — SLIP39 shares: any threshold subset recovers, fewer never yield a secret.
  Property theorems only. `Model.Slip39.*` is the model of embit's slip39.py (tied to the repo by the
  correspondence check), `Spec.Slip39.*` the SLIP-0039 arithmetic; HMAC and PBKDF2 are arbitrary functions
  (`Prims`) subject only to the stated output-length hypotheses.
-/
namespace Embit.Props.C16
open Embit Embit.Model.Slip39 Polynomial

/-! ### GF(256): tables and field -/

/-- the exp table built by `_load` holds the powers of 3 in GF(2)[x]/(x^8+x^4+x^3+x+1) (carry-less
    multiplication of the spec), the log table inverts it, and the cycle has length 255 -/
theorem tables_correct :
    (∀ i < 255, exp i = Spec.Slip39.gfPow 3 i ∧ log (exp i) = i ∧ 0 < exp i ∧ exp i < 256) ∧
    (∀ a < 256, a ≠ 0 → log a < 255 ∧ exp (log a) = a) ∧ Spec.Slip39.gfMul (exp 254) 3 = 1 := by
  rw [exp_eq_expL, log_eq_logL]
  refine ⟨?_, logL_facts, ?_⟩
  · intro i hi
    refine ⟨?_, (expL_facts i hi).2.2, (expL_facts i hi).1, (expL_facts i hi).2.1⟩
    induction i with
    | zero => exact expL_zero
    | succ i ih =>
      have := expL_step i (by omega)
      rw [Nat.mod_eq_of_lt hi] at this
      rw [this, ih (by omega)]; rfl
  · have := expL_step 254 (by decide)
    rw [← this]; exact expL_zero

/-- multiplication through the tables (as `interpolate` does it) is the spec's GF(256) multiplication -/
theorem table_mul_eq_spec (a b : Nat) (ha : a < 256) (hb : b < 256) :
    (if a = 0 ∨ b = 0 then 0 else exp ((log a + log b) % 255)) = Spec.Slip39.gfMul a b := by
  rw [exp_eq_expL, log_eq_logL]; exact mulL_eq_gfMul a b ha hb

/-- numbers below 256 with XOR and the spec's multiplication form a field -/
theorem gf256_field : ∃ F : Field GF256, (∀ a b : GF256, (F.add a b).val = a.val ^^^ b.val) ∧
    (∀ a b : GF256, (F.mul a b).val = Spec.Slip39.gfMul a.val b.val) :=
  ⟨GF256.instField, fun _ _ => rfl, fun a b => mulL_eq_gfMul a.val b.val a.lt b.lt⟩

/-! ### interpolation -/

/-- `ShareSet.interpolate` (sums of logarithms, "log 0 = 0" trick) computes, byte by byte, the value at `x` of the
    Lagrange interpolation polynomial through the shares (Mathlib `Lagrange.interpolate` over GF(256)), whenever
    the x-coordinates are distinct bytes and `x` is none of them -/
theorem interpolate_eq_lagrange (data : List (Nat × Bytes)) (L : Nat) (g : Good data L) (x : Nat) (hx : x < 256)
    (hnot : x ∉ data.map (·.1)) :
    (interpolate x data).length = L ∧
    ∀ b < L, toG ((interpolate x data).getD b 0) = eval (GF256.ofNat x) (sharePoly data b) :=
  ⟨interpolate_length' g x, fun b hb => interpolate_eq_eval' g x hx hnot b hb⟩

/-- … and therefore equals the executable `Interpolation` of the spec (Lagrange formula with carry-less
    multiplication and a^254 inverses) -/
theorem interpolate_eq_spec (data : List (Nat × Bytes)) (L : Nat) (g : Good data L) (x : Nat) (hx : x < 256)
    (hnot : x ∉ data.map (·.1)) : interpolate x data = Spec.Slip39.interpolation L x data :=
  Embit.Model.Slip39.interpolate_eq_spec g x hx hnot

/-! ### any k of n recover, fewer / bad digest / mixed sets are refused -/

/-- `split_secret` (k ≥ 2) = SLIP-0039 `SplitSecret` on the same random choices; `recover_secret` = `RecoverSecret`
    for thresholds ≠ 1 -/
theorem split_recover_eq_spec (P : Prims) (hH : ∀ key msg, 4 ≤ (P.hmac key msg).length) :
    (∀ (secret : Bytes) (k n : Nat) (tape : List Nat) (shares : List (Nat × Bytes)),
      splitSecret P secret k n tape = some shares → 2 ≤ k →
      ∃ (r : Bytes) (ys : List Bytes), r.length = secret.length - 4 ∧ ys.length = k - 2 ∧
        Spec.Slip39.splitSecret ⟨P.hmac, P.pbkdf2⟩ k n secret r ys = some shares) ∧
    (∀ (T : List (Nat × Bytes)) (L : Nat), Good T L → ∀ t, t ≠ 1 → 254 ∉ T.map (·.1) → 255 ∉ T.map (·.1) →
      recoverSecret P T = Spec.Slip39.recoverSecret ⟨P.hmac, P.pbkdf2⟩ t T) :=
  ⟨fun secret k n tape shares hs hk => splitSecret_eq_spec P hH secret k n tape shares hs hk,
   fun _ _ g t ht h254 h255 => recoverSecret_eq_spec P g t ht h254 h255⟩

/-- `split_secret` is SLIP-0039's SplitSecret: for k ≥ 2 there are k base points — k−2 random shares at
    x = 0 … k−3, the digest share `HMAC(r, secret)[:4] ‖ r` at x = 254 and the secret at x = 255 — and the n
    shares have x-coordinates 0 … n−1 and are, byte by byte, the values of the polynomials of degree < k through
    the base points -/
theorem split_on_polynomial (P : Prims) (hH : ∀ key msg, 4 ≤ (P.hmac key msg).length)
    (secret : Bytes) (k n : Nat) (tape : List Nat) (shares : List (Nat × Bytes))
    (hs : splitSecret P secret k n tape = some shares) (hk : 2 ≤ k) :
    ∃ (r : Bytes) (B : List (Nat × Bytes)),
      Good B secret.length ∧ B.length = k ∧
      (254, digest P r secret ++ r) ∈ B ∧ (255, secret) ∈ B ∧ (∀ b, (sharePoly B b).degree < k) ∧
      shares.map (·.1) = List.range n ∧
      ∀ t ∈ shares, t.2.length = secret.length ∧
        ∀ b < secret.length, toG (t.2.getD b 0) = eval (GF256.ofNat t.1) (sharePoly B b) := by
  obtain ⟨r, B, _, gB, hlen, hD, hS, hx, _, _, _, hsh⟩ := splitSecret_onpoly P hH secret k n tape shares hs hk
  exact ⟨r, B, gB, hlen, hD, hS, fun b => by have := sharePoly_degree gB b; rwa [hlen] at this, hx, hsh⟩

/-- raw level: for k ≥ 2, ANY collection of at least k distinct shares out of the n produced by `split_secret`
    (any order) passes the digest check of `recover_secret` and returns the secret — every tape, both secret
    sizes, every HMAC with ≥ 4 output bytes -/
theorem any_k_recover (P : Prims) (hH : ∀ key msg, 4 ≤ (P.hmac key msg).length)
    (secret : Bytes) (k n : Nat) (tape : List Nat) (shares : List (Nat × Bytes))
    (hs : splitSecret P secret k n tape = some shares) (hk : 2 ≤ k)
    (T : List (Nat × Bytes)) (hT : ∀ t ∈ T, t ∈ shares) (hnd : (T.map (·.1)).Nodup) (hkT : k ≤ T.length) :
    recoverSecret P T = some secret :=
  recoverSecret_of_split P hH secret k n tape shares hs hk T hT hnd hkT

/-- whole pipeline: `generate_shares` then `recover_mnemonic` on ANY ≥ k distinct mnemonics out of the n gives
    the secret back — every 1 ≤ k ≤ n ≤ 16 (whenever generation succeeds), passphrase, exponent, tape, Feistel
    round function and HMAC of the right output lengths -/
theorem generate_then_recover (P : Prims) (hF : ∀ pw s it n, (P.pbkdf2 pw s it n).length = n)
    (hH : ∀ key msg, 4 ≤ (P.hmac key msg).length)
    (secret : Bytes) (k n : Nat) (pass : Bytes) (e : Nat) (tape : List Nat) (ms : List (List Nat))
    (hgen : generateShares P secret k n pass e tape = some ms)
    (hid : ∀ id rest, tape = id :: rest → id < 2 ^ 15) (he : e < 32)
    (sub : List (List Nat)) (hsub : ∀ m ∈ sub, m ∈ ms) (hnd : sub.Nodup) (hk : k ≤ sub.length) :
    recoverShares P sub pass = some secret :=
  generate_recover P hF hH secret k n pass e tape ms hgen hid he sub hsub hnd hk

/-- splitting yields exactly n pairwise distinct share mnemonics (also for k = 1, after the fix of D23) -/
theorem n_distinct_shares (P : Prims) (hH : ∀ key msg, 4 ≤ (P.hmac key msg).length)
    (secret : Bytes) (k n : Nat) (pass : Bytes) (e : Nat) (tape : List Nat) (ms : List (List Nat))
    (hgen : generateShares P secret k n pass e tape = some ms)
    (hid : ∀ id rest, tape = id :: rest → id < 2 ^ 15) (he : e < 32) : ms.length = n ∧ ms.Nodup :=
  generate_distinct P hH secret k n pass e tape ms hgen hid he

/-- fewer shares than the threshold (k ≥ 2) never yield a secret, whatever the shares contain -/
theorem fewer_refused (P : Prims) (ss : ShareSet) (pass : Bytes) (hk : 2 ≤ ss.groupThreshold)
    (hfew : ss.shares.length < ss.groupThreshold) : ss.recover P pass = none :=
  Embit.Model.Slip39.fewer_refused P ss pass hk hfew

/-- a set whose interpolated digest share does not match the interpolated secret is refused; what
    `recover_secret` returns always satisfies the digest equation -/
theorem bad_digest_refused (P : Prims) (T : List (Nat × Bytes)) :
    ((interpolate 254 T).take 4 ≠ digest P ((interpolate 254 T).drop 4) (interpolate 255 T) →
      recoverSecret P T = none) ∧
    (∀ s, recoverSecret P T = some s →
      s = interpolate 255 T ∧ (interpolate 254 T).take 4 = digest P ((interpolate 254 T).drop 4) s) :=
  ⟨recoverSecret_bad_digest P T, fun s h => recoverSecret_digest P T s h⟩

/-- mixed share sets are refused: whatever `ShareSet(shares)` accepts has one identifier, iteration exponent,
    group threshold, group count and share length, and no (group index, member index) twice -/
theorem mixed_sets_refused (shares : List Share) (ss : ShareSet) (h : ShareSet.new? shares = some ss) :
    (∀ s ∈ shares, s.id = ss.id ∧ s.exponent = ss.exponent ∧ s.groupThreshold = ss.groupThreshold ∧
      s.groupCount = ss.groupCount ∧ s.shareBitLength = ss.shareBitLength) ∧
    (shares.map fun s => (s.groupIndex, s.memberIndex)).Nodup :=
  (shareSet_consistent shares ss h).2.2

/-! ### encryption -/

/-- the Feistel network is inverted by running the rounds backwards: `decrypt (encrypt x) = x` and
    `encrypt (decrypt x) = x` for EVERY round function with the requested output length, every identifier below
    2^16, exponent, passphrase and every non-empty even-length x -/
theorem feistel_inverse (P : Prims) (hF : ∀ pw s it n, (P.pbkdf2 pw s it n).length = n) (x : Bytes) (id e : Nat)
    (pass : Bytes) (hx : x.length % 2 = 0) (hne : x ≠ []) (hid : id < 65536) :
    (∃ y, encrypt P x id e pass = some y ∧ y.length = x.length ∧ decrypt P y id e pass = some x) ∧
    (∃ y, decrypt P x id e pass = some y ∧ y.length = x.length ∧ encrypt P y id e pass = some x) :=
  ⟨crypt_reverse P hF pass x id e [0, 1, 2, 3] hx hne hid, crypt_reverse P hF pass x id e [3, 2, 1, 0] hx hne hid⟩

/-- `_crypt` = the four-round Feistel cipher of the standard (round function F(i, R) = PBKDF2(i ‖ passphrase,
    "shamir" ‖ id ‖ R, 2500·2^e, n/2)), in both directions -/
theorem feistel_eq_spec (P : Prims) (x : Bytes) (id e : Nat) (pass : Bytes) (hx : x.length % 2 = 0) (hne : x ≠ [])
    (hid : id < 65536) :
    encrypt P x id e pass = some (Spec.Slip39.encryptMS (toSpec P) x id e pass) ∧
    decrypt P x id e pass = some (Spec.Slip39.decryptMS (toSpec P) x id e pass) :=
  crypt_eq_spec P x id e pass hx hne hid

/-! ### share text -/

/-- parse ∘ mnemonic = id on well-formed share fields (any length that is a multiple of 16 bits, ≥ 128) -/
theorem share_text_roundtrip (s : Share) (h : s.WF) : Share.parse s.mnemonic = some s :=
  Embit.Model.Slip39.share_text_roundtrip s h

/-- the parser accepts exactly the printed format: a word sequence (words < 1024) parses to `s` iff `s` is
    well-formed and the sequence is `s.mnemonic()` — in particular an accepted mnemonic re-encodes to itself
    (after the fix of the length check, D37) -/
theorem share_parse_iff (idx : List Nat) (hw : ∀ w ∈ idx, w < 1024) (s : Share) :
    Share.parse idx = some s ↔ s.WF ∧ s.mnemonic = idx :=
  ⟨parse_sound idx hw s, fun ⟨wf, e⟩ => e ▸ Embit.Model.Slip39.share_text_roundtrip s wf⟩

/-- the created checksum always verifies (any customisation string, any data) -/
theorem rs1024_create_verify (cs data : List Nat) : rs1024Verify cs (data ++ rs1024Create cs data) = true :=
  Embit.Model.Slip39.rs1024_create_verify cs data

/-- embit's RS1024 (polymod with the ten generator constants, customisation "shamir") is the Reed-Solomon code of
    the standard: verification = zero residue modulo g(x) = (x−a)(x−a²)(x−a³) over GF(1024), creation = the
    systematic encoding -/
theorem rs1024_eq_spec (ws : List Nat) (hw : ∀ w ∈ ws, w < 1024) :
    rs1024Verify csShamir ws = Spec.Slip39.rsValid 0 ws ∧ rs1024Create csShamir ws = Spec.Slip39.rsChecksum 0 ws :=
  ⟨verify_eq_spec ws hw, create_eq_spec ws hw⟩

/-- XOR-linearity of the polymod step -/
theorem rs1024_step_linear (a b v w : Nat) :
    rs1024Step (a ^^^ b) (v ^^^ w) = rs1024Step a v ^^^ rs1024Step b w := rs1024Step_xor a b v w

/-- RS1024 detects every substitution of 1, 2 or 3 words in a share of at most 33 words (20- and 33-word shares
    included): two word sequences that both verify and differ in at most three positions are equal -/
theorem rs1024_detects_le3 (cs ws ws' : List Nat) (hl : ws'.length = ws.length) (hlen : ws.length ≤ 33)
    (hw : ∀ w ∈ ws, w < 1024) (hw' : ∀ w ∈ ws', w < 1024)
    (p1 p2 p3 : Nat) (h12 : p1 < p2) (h23 : p2 < p3) (h3 : p3 < ws.length)
    (hagree : ∀ i, i ≠ p1 → i ≠ p2 → i ≠ p3 → ws'[i]? = ws[i]?)
    (hW : rs1024Verify cs ws = true) (hV : rs1024Verify cs ws' = true) : ws' = ws :=
  rs1024_detects_le3_pos cs ws ws' hl hlen hw hw' p1 p2 p3 h12 h23 h3 hagree hW hV

/-- consequently a share mnemonic with 1–3 substituted words is never parsed -/
theorem corrupted_share_rejected (ws ws' : List Nat) (hl : ws'.length = ws.length) (hlen : ws.length ≤ 33)
    (hw : ∀ w ∈ ws, w < 1024) (hw' : ∀ w ∈ ws', w < 1024)
    (p1 p2 p3 : Nat) (h12 : p1 < p2) (h23 : p2 < p3) (h3 : p3 < ws.length)
    (hagree : ∀ i, i ≠ p1 → i ≠ p2 → i ≠ p3 → ws'[i]? = ws[i]?)
    (hok : (Share.parse ws).isSome) (hne : ws' ≠ ws) : Share.parse ws' = none := by
  have hW : rs1024Verify csShamir ws = true := by
    unfold Share.parse at hok
    cases h : rs1024Verify csShamir ws with
    | true => rfl
    | false => simp [h] at hok
  cases hV : rs1024Verify csShamir ws' with
  | false => unfold Share.parse; simp [hV]
  | true => exact absurd (rs1024_detects_le3 csShamir ws ws' hl hlen hw hw' p1 p2 p3 h12 h23 h3 hagree hW hV) hne

/-! ### non-vacuity -/

/-- toy primitives satisfying the length hypotheses -/
def toyPrims : Prims :=
  { hmac := fun key msg => (key ++ msg ++ [1, 2, 3, 4]).take 32 ++ List.replicate (32 - (key ++ msg ++ [1, 2, 3, 4]).length) 0,
    pbkdf2 := fun pw salt _ n => ((pw ++ salt).take n) ++ List.replicate (n - (pw ++ salt).length) 5 }

example : ∀ pw s it n, (toyPrims.pbkdf2 pw s it n).length = n := by
  intro pw s it n; simp [toyPrims]; omega
example : ∀ key msg, 4 ≤ (toyPrims.hmac key msg).length := by
  intro key msg; simp [toyPrims]; omega

def exSecret : Bytes := [0x7c, 0x33, 0x97, 0xa2, 0x92, 0xa5, 0x94, 0x16, 0x82, 0xd7, 0xa4, 0xae, 0x2d, 0x89, 0x8d, 0x11]
def exTape : List Nat := List.replicate 40 7 ++ List.replicate 40 200

set_option maxRecDepth 100000 in
example : (splitSecret toyPrims exSecret 3 5 exTape).map (·.map (·.1)) = some [0, 1, 2, 3, 4] := by decide +kernel

set_option maxRecDepth 100000 in
example : ∃ sh, splitSecret toyPrims exSecret 3 5 exTape = some sh ∧
    recoverSecret toyPrims [sh.getD 4 (0, []), sh.getD 1 (0, []), sh.getD 2 (0, [])] = some exSecret ∧
    recoverSecret toyPrims [sh.getD 4 (0, []), sh.getD 1 (0, [])] = none := by
  refine ⟨(splitSecret toyPrims exSecret 3 5 exTape).getD [], ?_⟩
  decide +kernel

example : (⟨128, 7, 1, 2, 2, 3, 0, 1, 5⟩ : Share).WF :=
  ⟨by decide +kernel, by decide, by decide, by decide, by decide⟩

set_option maxRecDepth 100000 in
example : Share.parse (Share.mnemonic ⟨128, 7, 1, 2, 2, 3, 0, 1, 5⟩) = some ⟨128, 7, 1, 2, 2, 3, 0, 1, 5⟩ := by
  decide +kernel

example : rs1024Verify csShamir ([1, 2, 3] ++ rs1024Create csShamir [1, 2, 3]) = true := by decide +kernel

example : Good [(0, [1, 2]), (1, [3, 4]), (255, [5, 6])] 2 :=
  ⟨by decide, by decide, by decide, by decide⟩

/-! ### deepening

  The two former GOAL lines of this file are theorems of `Props/C16X.lean` now: `share_mnemonic_eq_spec`,
  `share_parse_eq_spec`, `share_roundtrip_spec` (share text = bit layout of the standard) and
  `group_recover_eq_spec`, `two_level_sufficient_set_recovers`, `fewer_groups_refused`, `fewer_members_refused`
  (two-level recovery). -/

end Embit.Props.C16
