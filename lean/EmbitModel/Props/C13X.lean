import EmbitModel.Props.C13
import EmbitModel.Proofs.MiniscriptX
/-
  C13, deepened — gaps of Props/C13.lean against the property text closed.

  * CONTEXT, at depth: `multi_context` (Props/C13) speaks about the top level only. Here: an expression accepted in
    tapscript contains `multi` / `sortedmulti` NOWHERE, one accepted in P2WSH contains `multi_a` / `sortedmulti_a`
    nowhere — same for "well-typed by the specification" (`multi_family_fits_context`).
  * NO SIDE CONDITIONS ON ACCEPTED EXPRESSIONS: `compile_eq_template` needs `argsOk`, `len_eq_compiled` needs `lensOk`.
    Both follow from acceptance and the SHAPE of the arguments the descriptor parser produces in the context
    (`Ms.parserArgs`: SEC keys — compressed or uncompressed, any mixture — in P2WSH, 32-byte x-only keys in tapscript,
    20-byte key hashes, 32/20-byte digests): `accepted_compiles_to_template`, the end-to-end statement of the
    property's second and third sentence for BOTH contexts at the same strength.
  * `sortedmulti*`: the one-length condition of `argsOk` is replaced by the exact condition "sorting the pushes =
    sorting the keys on these keys" (`compile_eq_template_exact`), which valid SEC keys of mixed length satisfy; the
    witness `sortedmulti_orders_pushes_not_keys` shows the condition is needed (byte strings that are not keys).
  NOT MODELLED, because neither the property text nor embit has it: script size / opcode-count / stack limits, timelock
  mixing (height vs time `after`/`older` in one spending path), duplicate keys, malleability (s/f/e properties).
  embit checks none of them (`grep` of descriptor/miniscript.py: only MAX_KEYS), so "accepted ⇔ well-typed" is stated
  for the B/V/K/W + z/o/n/d/u system the property names.
-/
namespace Embit.Props.C13
open Embit Embit.Miniscript

/-! ### context rules at depth -/

/-- a fragment of the multi family that occurs ANYWHERE in an accepted expression belongs to the context:
    `multi`/`sortedmulti` only in P2WSH, `multi_a`/`sortedmulti_a` only in tapscript -/
theorem multi_family_fits_context (ctx : Ctx) (e : Ms) (h : Model.Miniscript.accepts ctx e = true) (f : MultiFrag)
    (hm : mentions f e = true) :
    (ctx = .wsh → f = .multi ∨ f = .sortedmulti) ∧ (ctx = .tap → f = .multi_a ∨ f = .sortedmulti_a) := by
  simp only [Model.Miniscript.accepts, Bool.and_eq_true] at h
  have := constructible_mentions ctx e h.1.1 f hm
  constructor
  · intro hc; subst hc; cases f <;> simp [Gen.Ms.multiTaproot] at this ⊢
  · intro hc; subst hc; cases f <;> simp [Gen.Ms.multiTaproot] at this ⊢

/-- in the specification's terms: a well-typed tapscript expression mentions no CHECKMULTISIG fragment, a well-typed
    P2WSH expression no CHECKSIGADD fragment — at any depth -/
theorem wellTyped_multi_family (e : Ms) :
    (Spec.Miniscript.wellTyped .tap e = true → mentions .multi e = false ∧ mentions .sortedmulti e = false)
    ∧ (Spec.Miniscript.wellTyped .wsh e = true → mentions .multi_a e = false ∧ mentions .sortedmulti_a e = false) := by
  constructor
  · intro h
    have ha := complete .tap e h
    constructor
    · cases hm : mentions .multi e with
      | false => rfl
      | true => have := (multi_family_fits_context .tap e ha .multi hm).2 rfl; simp at this
    · cases hm : mentions .sortedmulti e with
      | false => rfl
      | true => have := (multi_family_fits_context .tap e ha .sortedmulti hm).2 rfl; simp at this
  · intro h
    have ha := complete .wsh e h
    constructor
    · cases hm : mentions .multi_a e with
      | false => rfl
      | true => have := (multi_family_fits_context .wsh e ha .multi_a hm).1 rfl; simp at this
    · cases hm : mentions .sortedmulti_a e with
      | false => rfl
      | true => have := (multi_family_fits_context .wsh e ha .sortedmulti_a hm).1 rfl; simp at this

/-! ### compilation and length without side conditions -/

/-- `compile_eq_template` under the exact condition on `sortedmulti*` keys (implied by `argsOk`) -/
theorem compile_eq_template_exact (ctx : Ctx) (e : Ms) (ha : e.argsOkW = true)
    (hv : Model.Miniscript.verify ctx e = true) :
    Model.Miniscript.compile e = Spec.Miniscript.scriptBytes e :=
  compile_eqW ctx e ha hv

/-- the condition matters: on byte strings that are not keys of one kind, embit's order of the pushes (length byte
    first) is not the order of the keys — `sortedmulti(1, 05, 0101)` compiles with `05` first, the specification
    (BIP383: keys in lexicographic order) puts `0101` first. Unreachable through the parser (`parserArgs`). -/
theorem sortedmulti_orders_pushes_not_keys :
    let e : Ms := .multi .sortedmulti 1 [[5], [1, 1]]
    Model.Miniscript.verify .wsh e = true ∧ e.argsOkW = false
    ∧ Model.Miniscript.compile e = [0x51, 1, 5, 2, 1, 1, 0x52, 0xae]
    ∧ Spec.Miniscript.scriptBytes e = [0x51, 2, 1, 1, 1, 5, 0x52, 0xae] := by
  decide

/-- END TO END, both contexts: an accepted expression whose arguments have the shape the parser produces in that
    context compiles to exactly the script the specification assigns, and its reported length is the length of that
    script. No `argsOk` / `lensOk` hypothesis. -/
theorem accepted_compiles_to_template (ctx : Ctx) (e : Ms) (hp : e.parserArgs ctx = true)
    (ha : Model.Miniscript.accepts ctx e = true) :
    Model.Miniscript.compile e = Spec.Miniscript.scriptBytes e
    ∧ Model.Miniscript.len e = (Model.Miniscript.compile e).length
    ∧ Model.Miniscript.len e = (Spec.Miniscript.scriptBytes e).length := by
  simp only [Model.Miniscript.accepts, Bool.and_eq_true] at ha
  have hv := ha.1.2
  have h1 := compile_eqW ctx e (argsOkW_of_parserArgs ctx e hp) hv
  have h2 := len_eq_compiled e (lensOk_of_parserArgs ctx e hp hv)
  exact ⟨h1, h2, by rw [h2]; exact congrArg List.length h1⟩

/-- the same from the specification's side: well-typed + parser-shaped arguments -/
theorem wellTyped_compiles_to_template (ctx : Ctx) (e : Ms) (hp : e.parserArgs ctx = true)
    (hw : Spec.Miniscript.wellTyped ctx e = true) :
    Model.Miniscript.compile e = Spec.Miniscript.scriptBytes e
    ∧ Model.Miniscript.len e = (Spec.Miniscript.scriptBytes e).length :=
  let h := accepted_compiles_to_template ctx e hp (complete ctx e hw)
  ⟨h.1, h.2.2⟩

/-- `argsOk` (Props/C13) implies the exact condition, so `compile_eq_template_exact` subsumes `compile_eq_template`
    on key lists -/
theorem sameLen_keys_satisfy_exact_condition (keys : List Bytes) (hs : sameLen keys = true)
    (hl : ∀ a ∈ keys, a.length < 253) : pushOrderOk keys = true :=
  pushOrderOk_of_sameLen keys hs hl

/-! ### non-vacuity -/

set_option maxRecDepth 100000

/-- an uncompressed key (65 bytes, 04…) -/
def kU : Bytes := 4 :: List.replicate 64 1

/-- wsh(sortedmulti(2, U, B, A)) with a MIXTURE of compressed and uncompressed keys: outside `argsOk` (keys of two
    lengths), inside `parserArgs`; accepted, and the compiled script has the keys in BIP67 order A(02…) B(03…) U(04…) -/
example :
    let e : Ms := .multi .sortedmulti 2 [kU, kB, kA]
    e.argsOk = false ∧ e.parserArgs .wsh = true ∧ Model.Miniscript.accepts .wsh e = true
      ∧ Model.Miniscript.compile e = [0x52] ++ (0x21 :: kA) ++ (0x21 :: kB) ++ (0x41 :: kU) ++ [0x53, 0xae] := by
  decide

/-- tapscript with x-only keys: tr(K, and_v(v:pk(A), multi_a(2, B, C))) and the P2WSH-only / tapscript-only split -/
example :
    let e : Ms := .bin .and_v (.wrap .v (.key .pk xA)) (.multi .multi_a 2 [xB, xC])
    e.parserArgs .tap = true ∧ e.parserArgs .wsh = false ∧ Model.Miniscript.accepts .tap e = true
      ∧ Model.Miniscript.accepts .wsh e = false ∧ mentions .multi_a e = true ∧ mentions .multi e = false
      ∧ Model.Miniscript.len e = 104 := by
  decide

/-- the five examples of Props/C13 have parser-shaped arguments in the context they are valid in -/
example : ex1.parserArgs .wsh = true ∧ ex2.parserArgs .wsh = true ∧ (ex3 xA xB xC).parserArgs .tap = true
    ∧ ex4.parserArgs .wsh = true ∧ ex5.parserArgs .wsh = true := by decide

/-- a nested wrong-context fragment is rejected (not only at the top level) -/
example : Model.Miniscript.accepts .tap (.bin .or_d (.multi .multi 1 [xA]) (.key .pk xB)) = false
    ∧ Spec.Miniscript.wellTyped .tap (.bin .or_d (.multi .multi 1 [xA]) (.key .pk xB)) = false
    ∧ Model.Miniscript.accepts .wsh (.thresh 1 [.key .pk kA, .wrap .a (.multi .multi_a 1 [kB])]) = false := by
  decide

end Embit.Props.C13
