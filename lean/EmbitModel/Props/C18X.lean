import EmbitModel.Props.C18
import EmbitModel.Proofs.PsetEmit
import EmbitModel.Proofs.LiquidAddrB58
import EmbitModel.Proofs.PsetSerParse
import EmbitModel.Proofs.PsetParseWF
import EmbitModel.Proofs.PsetSerParseV0
/-
  C18 (deepening) — the whole-PSET statements, key uniqueness, base58 confidential addresses.

  `Model.LPset.*` is the model of embit's `liquid/pset.py` (KEEP_ALL), tied to the repository by the correspondence ops
  `pset.parse` / `pset.roundtrip` / `pset.tx` on every run. Statements are about arbitrary byte strings and arbitrary
  key validators `ko`.
-/
set_option linter.unusedSimpArgs false
set_option linter.unusedVariables false
namespace Embit.Props.C18X
open Embit Model Spec.LWire

/-! ## 1. `PSET.parse` is lossless (composition of the per-scope theorems with the global framing) -/

/-- MAIN. Whatever `PSET.parse` accepts is the canonical framing of a global scope `g`, input scopes `ins` and output
    scopes `outs` (so "the pairs of the original" are exactly these); the scope counts are those of the object;
    what `LInputScope.write_to` emits for an input scope is a PERMUTATION of the pairs read for it (every pair of the
    original is there with identical bytes, nothing else is, no key is written twice); what `LOutputScope.write_to`
    emits is a permutation of the pairs read with each key in the spelling of the PSET's version (`canonKey`), and
    `write_to` does not raise; the global pairs are in the global scope that `PSET.write_to` emits —
    version 2: all of them (and there is no transaction pair); version 0: every pair except the transaction whenever
    the global scope can be written at all, and — OUTSIDE the D53 region `D53Free t ins` (explicit, decidable: the
    global transaction has no issuance, no peg-in flag, no witness data, no output nonce, and no input scope carries
    the PSETv2 issuance fields) — the transaction rebuilt from the scopes IS the global transaction, it serialises,
    and all global pairs including the transaction are written back bit-identically. -/
theorem pset_parse_lossless (ko : KeyOps) (b : Bytes) (p : LPset) (h : LPset.parse ko b = some p) :
    ∃ (g : List KV) (ins outs : List (List KV)),
      b = psetMagic ++ writeKVs g ++ ins.flatMap writeKVs ++ outs.flatMap writeKVs
      ∧ (∀ kv ∈ g, KVWF kv) ∧ (∀ kvs ∈ ins, ∀ kv ∈ kvs, KVWF kv) ∧ (∀ kvs ∈ outs, ∀ kv ∈ kvs, KVWF kv)
      ∧ ins.length = p.inputs.length ∧ outs.length = p.outputs.length
      ∧ (∀ (j : Nat) (kvs : List KV) (s : LInScope), ins[j]? = some kvs → p.inputs[j]? = some s →
            (∀ kv ∈ kvs, kv ∈ s.pairs p.version) ∧ kvs.Perm (s.pairs p.version)
            ∧ ((s.pairs p.version).map Prod.fst).Nodup)
      ∧ (∀ (j : Nat) (kvs : List KV) (s : LOutScope), outs[j]? = some kvs → p.outputs[j]? = some s →
            s.pairs p.version = some (s.pairsL p.version)
            ∧ (∀ kv ∈ kvs, (LOutField.canonKey p.version kv.1, kv.2) ∈ s.pairsL p.version)
            ∧ (kvs.map (fun kv => (LOutField.canonKey p.version kv.1, kv.2))).Perm (s.pairsL p.version)
            ∧ ((s.pairsL p.version).map Prod.fst).Nodup)
      ∧ (p.version = some 2 → (∀ kv ∈ g, kv.1 ≠ [0x00]) ∧ ∃ gp, p.globalPairs = some gp ∧ ∀ kv ∈ g, kv ∈ gp)
      ∧ (p.version ≠ some 2 → ∃ t, ([0x00], LTx.ser t) ∈ g ∧ WF t
            ∧ p.inputs.length = t.vin.length ∧ p.outputs.length = t.vout.length
            ∧ (∀ gp, p.globalPairs = some gp → ∀ kv ∈ g, kv.1 ≠ [0x00] → kv ∈ gp)
            ∧ (D53Free t ins = true → p.tx = some t ∧ LTx.serOpt t = some (LTx.ser t)
                 ∧ ∃ gp, p.globalPairs = some gp ∧ ∀ kv ∈ g, kv ∈ gp)) :=
  LPset.parse_lossless ko b p h

/-- consequence, version 2: a parsed PSETv2 always re-serialises, to the framing of a global scope that contains
    every original global pair, followed by one written scope per original scope (same counts), each containing every
    original pair of that scope -/
theorem pset_v2_reserialise (ko : KeyOps) (b : Bytes) (p : LPset) (h : LPset.parse ko b = some p)
    (hv : p.version = some 2) :
    ∃ (g gp : List KV) (ins outs : List (List KV)),
      b = psetMagic ++ writeKVs g ++ ins.flatMap writeKVs ++ outs.flatMap writeKVs
      ∧ LPset.ser p = some (psetMagic ++ writeKVs gp
          ++ p.inputs.flatMap (fun s => writeKVs (s.pairs p.version))
          ++ p.outputs.flatMap (fun s => writeKVs (s.pairsL p.version)))
      ∧ (∀ kv ∈ g, kv ∈ gp) ∧ ins.length = p.inputs.length ∧ outs.length = p.outputs.length := by
  obtain ⟨g, ins, outs, eb, _, _, _, l1, l2, _, fo, g2, _⟩ := pset_parse_lossless ko b p h
  obtain ⟨_, gp, hgp, hm⟩ := g2 hv
  refine ⟨g, gp, ins, outs, eb, LPset.ser_of_globalPairs p gp hgp ?_, hm, l1, l2⟩
  intro s hs
  obtain ⟨j, hj⟩ := List.mem_iff_getElem?.mp hs
  have hjl : j < outs.length := by rw [l2]; exact (List.getElem?_eq_some_iff.mp hj).1
  exact (fo j outs[j] s (List.getElem?_eq_getElem hjl) hj).1

/-- consequence, version 0 outside the D53 region: the same, and the transaction pair is written back bit-identically
    (`g ⊆ gp` includes `([0x00], LTx.ser t)`) -/
theorem pset_v0_reserialise_partial (ko : KeyOps) (b : Bytes) (p : LPset) (h : LPset.parse ko b = some p)
    (hv : p.version ≠ some 2) :
    ∃ (g : List KV) (ins outs : List (List KV)) (t : LTx),
      b = psetMagic ++ writeKVs g ++ ins.flatMap writeKVs ++ outs.flatMap writeKVs
      ∧ ([0x00], LTx.ser t) ∈ g
      ∧ (D53Free t ins = true → p.tx = some t ∧ ∃ gp,
          LPset.ser p = some (psetMagic ++ writeKVs gp
            ++ p.inputs.flatMap (fun s => writeKVs (s.pairs p.version))
            ++ p.outputs.flatMap (fun s => writeKVs (s.pairsL p.version)))
          ∧ (∀ kv ∈ g, kv ∈ gp)) := by
  obtain ⟨g, ins, outs, eb, _, _, _, l1, l2, _, fo, _, g0⟩ := pset_parse_lossless ko b p h
  obtain ⟨t, hm, _, _, _, _, hfree⟩ := g0 hv
  refine ⟨g, ins, outs, t, eb, hm, ?_⟩
  intro hf
  obtain ⟨htx, _, gp, hgp, hall⟩ := hfree hf
  refine ⟨htx, gp, LPset.ser_of_globalPairs p gp hgp ?_, hall⟩
  intro s hs
  obtain ⟨j, hj⟩ := List.mem_iff_getElem?.mp hs
  have hjl : j < outs.length := by rw [l2]; exact (List.getElem?_eq_some_iff.mp hj).1
  exact (fo j outs[j] s (List.getElem?_eq_getElem hjl) hj).1

/-! ## 2. no key twice: in what is accepted, and in what `write_to` emits -/

/-- a scope in which a key occurs twice is refused (input scopes) -/
theorem lscope_keys_nodup_input (ko : KeyOps) (kvs : List KV) (s0 s : LInScope) (hne : ∀ kv ∈ kvs, kv.1 ≠ [])
    (h : LInScope.addPairs ko s0 kvs = some s) : (kvs.map Prod.fst).Nodup :=
  (LInScope.addPairs_nodup ko kvs s0 s hne h).1

/-- output scopes: no canonical key twice — a key given twice, or a field given once in each of its two spellings
    (`elements` / `pset`), is refused, whatever the version the scope is later written in -/
theorem lscope_keys_nodup_output (ko : KeyOps) (ver : Option Nat) (kvs : List KV) (s0 s : LOutScope)
    (hne : ∀ kv ∈ kvs, kv.1 ≠ []) (h : LOutScope.addPairs ko s0 kvs = some s) :
    (kvs.map (fun kv => LOutField.canonKey ver kv.1)).Nodup :=
  (LOutScope.addPairs_nodup ko ver kvs s0 s hne h).1

theorem lscope_duplicate_key_rejected (ko : KeyOps) (kvs : List KV) (si : LInScope) (so : LOutScope) (ver : Option Nat)
    (hne : ∀ kv ∈ kvs, kv.1 ≠ []) :
    (¬ (kvs.map Prod.fst).Nodup → LInScope.addPairs ko si kvs = none)
    ∧ (¬ (kvs.map (fun kv => LOutField.canonKey ver kv.1)).Nodup → LOutScope.addPairs ko so kvs = none) := by
  constructor
  · intro hd
    cases h : LInScope.addPairs ko si kvs with
    | none => rfl
    | some s => exact absurd (lscope_keys_nodup_input ko kvs si s hne h) hd
  · intro hd
    cases h : LOutScope.addPairs ko so kvs with
    | none => rfl
    | some s => exact absurd (lscope_keys_nodup_output ko ver kvs so s hne h) hd

/-- what `LInputScope.write_to` emits for a scope built by `read_from` (from a seed that itself writes nothing: `{}`
    for PSETv2, the transaction fields for version 0) is a permutation of the pairs read — so no key is written twice
    and no pair is invented -/
theorem lscope_written_perm_input (ko : KeyOps) (ver : Option Nat) (kvs : List KV) (s0 s : LInScope)
    (hv : ver = some 2 ∨ InSeeded s0.base) (h0 : s0.pairs ver = []) (hne : ∀ kv ∈ kvs, kv.1 ≠ [])
    (h : LInScope.addPairs ko s0 kvs = some s) :
    kvs.Perm (s.pairs ver) ∧ ((s.pairs ver).map Prod.fst).Nodup :=
  ⟨LInScope.pairs_perm ko ver kvs s0 s hv h0 hne h, LInScope.pairs_keys_nodup ko ver kvs s0 s hv h0 hne h⟩

/-- the same for `LOutputScope.write_to`, keys in the spelling of the version written (`LOutSeededG`: the version-0 seed
    with explicit or confidential value) -/
theorem lscope_written_perm_output (ko : KeyOps) (ver : Option Nat) (kvs : List KV) (s0 s : LOutScope)
    (hv : ver = some 2 ∨ LOutSeededG s0) (h0 : s0.pairsL ver = []) (hne : ∀ kv ∈ kvs, kv.1 ≠ [])
    (h : LOutScope.addPairs ko s0 kvs = some s) :
    (kvs.map (fun kv => (LOutField.canonKey ver kv.1, kv.2))).Perm (s.pairsL ver)
    ∧ ((s.pairsL ver).map Prod.fst).Nodup :=
  ⟨LOutScope.pairsL_perm ko ver kvs s0 s hv h0 hne h, LOutScope.pairsL_keys_nodup ko ver kvs s0 s hv h0 hne h⟩

/-- version-0 output scopes seeded with a CONFIDENTIAL value (not covered by `C18.lscope_lossless_output`, whose seed
    has an integer value): nothing lost either -/
theorem lscope_lossless_output_conf (ko : KeyOps) (ver : Option Nat) (kvs : List KV) (s0 s : LOutScope)
    (hv : ver = some 2 ∨ LOutSeededG s0) (hne : ∀ kv ∈ kvs, kv.1 ≠ [])
    (h : LOutScope.addPairs ko s0 kvs = some s) :
    ∀ kv ∈ kvs, (LOutField.canonKey ver kv.1, kv.2) ∈ s.pairsL ver :=
  (LOutScope.addPairs_losslessG ko ver kvs s0 s hv hne h).1

def confTx : LTx :=
  { version := 2, vin := [], locktime := 0,
    vout := [{ asset := List.replicate 32 4, value := .conf (8 :: List.replicate 32 6), nonce := none, spk := [] }] }

example : LOutSeededG (lseedOut (some confTx) 0) := by
  simp [LOutSeededG, lseedOut, lget, confTx]

example : LOutScope.addPairs C18.trivialKo {} [(ek 0x00, [8, 1]), (pk 0x01, [8, 1])] = none := by decide
example : ¬ ([(ek 0x00, ([8, 1] : Bytes)), (pk 0x01, [8, 1])].map (fun kv => LOutField.canonKey (some 2) kv.1)).Nodup := by
  decide

/-! the excluded region is not empty (known finding D53): a version-0 PSET whose global transaction has a peg-in input -/

def trivialKo : KeyOps := C18.trivialKo

def peginTx : LTx :=
  { version := 2, locktime := 0,
    vin := [{ txid := List.replicate 32 7, vout := 1, scriptSig := [], sequence := 0xfffffffd, isPegin := true }],
    vout := [{ asset := List.replicate 32 4, value := .explicit 1000, nonce := none, spk := [0x51] }] }

def peginPset : Bytes := psetMagic ++ writeKVs [([0x00], LTx.ser peginTx)] ++ writeKVs [] ++ writeKVs []

-- REMOVED with the repair of D53 (fixes/d53.diff; the model follows the fixed code): the witness theorem
-- `pset_v0_tx_dropped_D53` ("the transaction rebuilt from the scopes has lost the peg-in flag") is FALSE of the fixed
-- code. Its positive counterpart is `C18Z.pset_v0_pegin_kept` (same PSET: the transaction is the global transaction),
-- and the statements without `D53Free` are in Props/C18Z.lean.

/-! non-vacuity: a version-2 PSET with one input (liquid value, unknown proprietary key) and one output read in the
    legacy spelling, and a version-0 PSET outside the D53 region -/

def exV2 : Bytes :=
  psetMagic ++ writeKVs [([0x02], leN 4 2), ([0x04], [1]), ([0x05], [1]), ([0xfb], leN 4 2)]
    ++ writeKVs [([0x0e], List.replicate 32 9), ([0x0f], leN 4 0), (LInField.key .value, leN 8 7), (psetTag ++ [0x7f], [1])]
    ++ writeKVs [([0x03], leN 8 5), ([0x04], [0x51]), (ek 0x00, [8, 1])]

set_option maxRecDepth 100000 in
example : ((LPset.parse trivialKo exV2).bind LPset.ser).isSome = true
    ∧ (LPset.parse trivialKo exV2).map (·.version) = some (some 2) := by decide +kernel

def plainTx : LTx :=
  { peginTx with vin := [{ txid := List.replicate 32 7, vout := 1, scriptSig := [], sequence := 0xfffffffd }] }

def exV0 : Bytes := psetMagic ++ writeKVs [([0x00], LTx.ser plainTx)] ++ writeKVs [(LInField.key .value, leN 8 7)] ++ writeKVs []

set_option maxRecDepth 100000 in
example : (LPset.parse trivialKo exV0).bind LPset.tx = some plainTx
    ∧ D53Free plainTx [[(LInField.key .value, leN 8 7)]] = true
    ∧ (LPset.parse trivialKo exV0).bind LPset.ser = some exV0 := by decide +kernel

/-! ## 3. base58 Liquid addresses (`bp2sh` confidential, `p2sh` unconfidential) -/

open Model.LAddr in
/-- MAIN: `addr_decode(address(script, blinding_key, network)) = (script, blinding_key)` for every P2SH script, every
    33-byte key `PublicKey.parse` accepts, every network of `liquid.networks.NETWORKS` that has a `bp2sh` prefix
    (liquidv1, elementsregtest, liquidtestnet), and EVERY checksum function of at least 4 bytes. Besides
    Base58Check decode∘encode this needs the dispatch of `addr_decode`: the text is not `"Fee"` and the part before
    its first `'1'`, lower-cased, is no bech32 / blech32 prefix — true because the version bytes confine the two
    leading base-58 characters to `VJ` (liquidv1), `Az` / `B1` (regtest), `vj` (testnet); table checked by evaluation. -/
theorem confidential_p2sh_address_roundtrip (validSec : Bytes → Bool) (dsha : Bytes → Bytes)
    (hd : ∀ b, 4 ≤ (dsha b).length) (net : Net) (hn : net ∈ nets) (pre : Bytes) (hpre : net.bp2sh = some pre)
    (hash pub : Bytes) (hh : hash.length = 20) (hpl : pub.length = 33) (hv : validSec pub = true) :
    ∃ addr, addressP2sh dsha net ([0xa9, 0x14] ++ hash ++ [0x87]) (some pub) = some addr
      ∧ addr = Base58.encodeCheck dsha (pre ++ pub ++ hash)
      ∧ addrDecode validSec dsha addr = .base58 (some ([0xa9, 0x14] ++ hash ++ [0x87], some pub)) := by
  obtain ⟨addr, h1, h2⟩ := addrDecode_addressP2sh_conf validSec dsha hd net hn pre hpre hash pub hh hpl hv
  refine ⟨addr, h1, ?_, h2⟩
  have hspk : isP2sh ([0xa9, 0x14] ++ hash ++ [0x87]) = true := by
    simp only [isP2sh, p2sh_last]; simp [hh]
  simp only [addressP2sh, hspk, hpre] at h1
  simp at h1
  rw [← h1]; simp

open Model.LAddr in
/-- the unconfidential P2SH address (`p2sh` prefix), every network of the table including the bitcoin ones -/
theorem p2sh_address_roundtrip (validSec : Bytes → Bool) (dsha : Bytes → Bytes) (hd : ∀ b, 4 ≤ (dsha b).length)
    (net : Net) (hn : net ∈ nets) (hash : Bytes) (hh : hash.length = 20) :
    ∃ addr, addressP2sh dsha net ([0xa9, 0x14] ++ hash ++ [0x87]) none = some addr
      ∧ addrDecode validSec dsha addr = .base58 (some ([0xa9, 0x14] ++ hash ++ [0x87], none)) :=
  addrDecode_addressP2sh_plain validSec dsha hd net hn hash hh

open Model.LAddr in
/-- whatever the base58 branch of `addr_decode` returns comes from the Base58Check text of a payload with a `bp2sh`
    (then the 33 bytes after it are the key, accepted by `PublicKey.parse`) or `p2sh` prefix; the bytes after that are
    wrapped as `a914 … 87` WITHOUT a length check (observation: a payload of another length gives a non-P2SH script) -/
theorem base58_address_decode_sound (validSec : Bytes → Bool) (dsha : Bytes → Bytes) (addr : List Char) (sc : Bytes)
    (k : Option Bytes) (h : addrDecode validSec dsha addr = .base58 (some (sc, k))) :
    ∃ data, addr = Base58.encodeCheck dsha data
      ∧ ((bp2shPrefixes.contains (data.take 2) = true ∧ k = some ((data.drop 2).take 33)
            ∧ validSec ((data.drop 2).take 33) = true ∧ sc = [0xa9, 0x14] ++ data.drop 35 ++ [0x87])
         ∨ (bp2shPrefixes.contains (data.take 2) = false ∧ p2shPrefixes.contains (data.take 1) = true ∧ k = none
            ∧ sc = [0xa9, 0x14] ++ data.drop 1 ++ [0x87])) :=
  addrDecode_base58_sound validSec dsha addr sc k h

open Model.LAddr in
/-- non-vacuity: the liquidv1 entry, a toy 4-byte "hash", an all-accepting key validator -/
example : (nets.filter (fun n => n.bp2sh.isSome)).map (·.name) = ["liquidv1", "elementsregtest", "liquidtestnet"] := by
  decide

open Model.LAddr in
set_option maxRecDepth 100000 in
example : (addressP2sh (fun b => b ++ [1, 2, 3, 4]) (nets.headD default) ([0xa9, 0x14] ++ List.replicate 20 7 ++ [0x87])
      (some (2 :: List.replicate 32 9))).map (addrDecode (fun _ => true) (fun b => b ++ [1, 2, 3, 4]))
    = some (.base58 (some ([0xa9, 0x14] ++ List.replicate 20 7 ++ [0x87], some (2 :: List.replicate 32 9)))) := by
  decide +kernel

/-! ## 4. serialise-then-parse (scopes of both versions, whole PSETv2 objects) -/

/-- input scope: for a well-formed scope (`LInWF`: explicit, every clause a size bound of the wire format, a validity
    check `read_value` performs, the absence of duplicate keys, or "no typed bitcoin key contains a proprietary tag")
    the pairs `write_to` emits fit the key-value framing, are read back as they were written, and folding `read_value`
    over them from the seed `read_from` starts with (`{}` for PSETv2, the transaction fields for version 0) gives the
    scope back — with the liquid-field table in `write_to` order (`norm`; the model keeps the table in reading order,
    Python keeps attributes) -/
theorem input_scope_ser_parse (ko : KeyOps) (ver : Option Nat) (s : LInScope) (h : LInWF ko s) (r : Bytes) :
    readKVs (writeKVs (s.pairs ver) ++ r) = some (s.pairs ver, r)
    ∧ LInScope.addPairs ko (LInScope.seedOf ver s) (s.pairs ver) = some s.norm :=
  ⟨readKVs_write _ r (LInScope.pairs_wf ko ver s h), LInScope.addPairs_pairs ko ver s h⟩

/-- output scope, PSETv2 -/
theorem output_scope_ser_parse (ko : KeyOps) (s : LOutScope) (h : LOutWF ko s) (r : Bytes) :
    s.pairs (some 2) = some (s.pairsL (some 2))
    ∧ readKVs (writeKVs (s.pairsL (some 2)) ++ r) = some (s.pairsL (some 2), r)
    ∧ LOutScope.addPairs ko {} (s.pairsL (some 2)) = some s.norm :=
  ⟨by simp [LOutScope.pairs_eq, h.valueConf], readKVs_write _ r (LOutScope.pairsL_wf ko s h),
   LOutScope.addPairs_pairs ko s h⟩

/-- MAIN: a well-formed version-2 PSET object serialises, and parsing the bytes gives the object back (liquid tables
    in `write_to` order). `LPsetWF`: version 2, the global fields as in C04X's `PsbtWF`, every scope well-formed. -/
theorem pset_v2_ser_parse (ko : KeyOps) (p : LPset) (h : LPsetWF ko p) :
    ∃ b, LPset.ser p = some b ∧ LPset.parse ko b = some p.norm :=
  LPset.parse_ser_v2 ko p h

/-- normalising is idempotent, keeps well-formedness, changes nothing in the bytes written, and the normalised object is
    a fixed point of parse ∘ serialise — so parse ∘ serialise is idempotent on well-formed objects -/
theorem pset_v2_norm (ko : KeyOps) (p : LPset) (h : LPsetWF ko p) :
    p.norm.norm = p.norm ∧ LPsetWF ko p.norm ∧ LPset.ser p.norm = LPset.ser p
    ∧ ∃ b, LPset.ser p.norm = some b ∧ LPset.parse ko b = some p.norm :=
  ⟨LPset.norm_norm p, h.norm, LPset.ser_norm p h.version, LPset.parse_ser_norm ko p h⟩

/-- consequence: serialisation is injective on well-formed version-2 objects up to the order of the liquid tables -/
theorem pset_v2_ser_injective (ko : KeyOps) (p q : LPset) (hp : LPsetWF ko p) (hq : LPsetWF ko q)
    (h : LPset.ser p = LPset.ser q) : p.norm = q.norm := by
  obtain ⟨b, h1, h2⟩ := pset_v2_ser_parse ko p hp
  obtain ⟨b', h1', h2'⟩ := pset_v2_ser_parse ko q hq
  rw [h, h1'] at h1
  cases h1
  rw [h2] at h2'
  exact Option.some.inj h2'

/-- every version-2 PSET that `PSET.parse` returns is well-formed (one step of `read_value` preserves `LInWF` / `LOutWF`,
    branch by branch) -/
theorem pset_v2_parse_wf (ko : KeyOps) (b : Bytes) (p : LPset) (h : LPset.parse ko b = some p) (hv : p.version = some 2) :
    LPsetWF ko p :=
  LPset.parse_wf_v2 ko b p h hv

/-- hence parse ∘ serialise ∘ parse = norm ∘ parse on version-2 PSETs: whatever was accepted re-serialises and the bytes
    parse to the same object (liquid tables in `write_to` order); and the bytes written are a fixed point:
    serialise (parse (serialise (parse b))) = serialise (parse b) -/
theorem pset_v2_parse_ser_parse (ko : KeyOps) (b : Bytes) (p : LPset) (h : LPset.parse ko b = some p)
    (hv : p.version = some 2) :
    ∃ b', LPset.ser p = some b' ∧ LPset.parse ko b' = some p.norm ∧ LPset.ser p.norm = some b' := by
  obtain ⟨b', h1, h2⟩ := LPset.parse_ser_parse_v2 ko b p h hv
  exact ⟨b', h1, h2, by rw [LPset.ser_norm p hv]; exact h1⟩

/-- version-0 output scope: from the seed `LOutputScope(vout=vout)` (script, asset, value as integer or raw commitment) the
    pairs written in the legacy spellings fold back to the scope -/
theorem output_scope_ser_parse_v0 (ko : KeyOps) (ver : Option Nat) (hv : ver ≠ some 2) (s : LOutScope) (h : LOutWF0 ko s)
    (r : Bytes) :
    s.pairs ver = some (s.pairsL ver)
    ∧ readKVs (writeKVs (s.pairsL ver) ++ r) = some (s.pairsL ver, r)
    ∧ LOutScope.addPairs ko s.seedOf0 (s.pairsL ver) = some s.norm :=
  ⟨by simp [LOutScope.pairs_eq, hv], readKVs_write _ r (LOutScope.pairsL_wf0 ko ver s h),
   LOutScope.addPairs_pairs0 ko ver hv s h⟩

/-- MAIN, version 0: a well-formed version-0 object (`LPsetWF0`: it carries its transaction, and the seeds derived from that
    transaction are the seeds of its scopes) serialises, and parsing the bytes gives the object back. Note that this direction
    is NOT affected by D53: an object whose input scopes hold issuance fields writes them into its transaction AND into the
    scopes, and gets both back. -/
theorem pset_v0_ser_parse (ko : KeyOps) (p : LPset) (h : LPsetWF0 ko p) :
    ∃ b, LPset.ser p = some b ∧ LPset.parse ko b = some p.norm :=
  LPset.parse_ser_v0 ko p h

-- (the former GOAL `pset_v0_parse_wf_partial` is proved as `C18Z.pset_v0_parse_wf` / `pset_v0_parse_ser_parse`, for the
--  well-formedness `LPsetWF0K` that admits the transaction parts kept since fix `d53`, under `LPset.noOwnIssuance`; the
--  witness that the condition is needed is `C18Z.pset_v0_own_issuance_overrides`.)

/-! non-vacuity: a PSETv2 object with liquid fields, a liquid-unknown key and a bitcoin field in every scope -/

def exIn : LInScope :=
  { base := { txid := some (List.replicate 32 9), vout := some 0, sighashType := some 1,
              unknown := [(psetTag ++ [0x7f], [1])] },
    lf := [(.issueValue, leN 8 0), (.value, leN 8 7)] }

def exOut : LOutScope :=
  { base := { value := some 5, spk := some [0x51], unknown := [([0xf0], [2])] },
    lf := [(.blinderIndex, leN 4 0), (.valueCommitment, [8, 1])] }

def exP : LPset := { version := some 2, txVersion := some 2, inputs := [exIn], outputs := [exOut] }

theorem exIn_wf : LInWF trivialKo exIn :=
  ⟨rfl, rfl, by decide, by decide, by decide, by decide, trivial, trivial, by decide, ⟨rfl, rfl⟩, by decide⟩

theorem exOut_wf : LOutWF trivialKo exOut :=
  ⟨rfl, by decide, by decide, by decide, by decide, by decide, rfl⟩

theorem exP_wf : LPsetWF trivialKo exP :=
  ⟨rfl, by decide, fun s hs => by simp [exP] at hs; subst hs; exact exIn_wf,
   fun s hs => by simp [exP] at hs; subst hs; exact exOut_wf⟩

set_option maxRecDepth 100000 in
/-- the liquid tables were given in reading order; the parsed object has them in `write_to` order -/
example : ((LPset.ser exP).bind (LPset.parse trivialKo)).map (fun q => q.inputs.map (·.lf))
      = some [[(.value, leN 8 7), (.issueValue, leN 8 0)]]
    ∧ ((LPset.ser exP).bind (LPset.parse trivialKo)).bind LPset.ser = LPset.ser exP
    ∧ (LPset.ser exP).isSome = true := by decide +kernel

/-! non-vacuity, version 0 -/

def exIn0 : LInScope :=
  { base := { txid := some (List.replicate 32 7), vout := some 1, sequence := some 0xfffffffd }, lf := [(.value, leN 8 7)] }

def exOut0 : LOutScope :=
  { base := { value := some 1000, spk := some [0x51] }, lf := [(.asset, List.replicate 32 4), (.blindingPubkey, [2, 3])] }

def exP0 : LPset := { version := none, txVersion := some 2, locktime := some 0, inputs := [exIn0], outputs := [exOut0] }

theorem plainTx_wf : WF plainTx := by
  refine ⟨by decide, by decide, by decide, by decide, ?_, ?_⟩
  · intro i hi
    simp [plainTx, peginTx] at hi
    subst hi
    exact ⟨by decide, Or.inl ⟨by decide, by decide⟩, by decide, by decide, (fun a h => by cases h), wfInWitness_default⟩
  · intro o ho
    simp [plainTx, peginTx] at ho
    subst ho
    exact ⟨Or.inl (by decide), (by show (1000 : Nat) < 2 ^ 64; decide), trivial, by decide, ⟨by decide, by decide⟩⟩

set_option maxRecDepth 100000 in
theorem exP0_wf : LPsetWF0 trivialKo exP0 := by
  refine ⟨by decide, trivial, by simp [exP0], by simp [exP0], by simp [exP0], by simp [exP0], ?_, ?_, ?_⟩
  · intro s hs
    simp [exP0] at hs; subst hs
    exact ⟨rfl, rfl, by decide, by decide, by decide, by decide, trivial, trivial, by decide, ⟨rfl, rfl⟩, by decide⟩
  · intro s hs
    simp [exP0] at hs; subst hs
    exact ⟨by decide, by decide, by decide, by decide, by decide, by decide, rfl⟩
  · refine ⟨plainTx, by decide +kernel, plainTx_wf, by decide +kernel, rfl, rfl, ?_, ?_⟩
    · intro j s hs
      cases j with
      | zero => simp [exP0] at hs; subst hs; rfl
      | succ j => simp [exP0] at hs
    · intro j s hs
      cases j with
      | zero => simp [exP0] at hs; subst hs; rfl
      | succ j => simp [exP0] at hs

set_option maxRecDepth 100000 in
example : ((LPset.ser exP0).bind (LPset.parse trivialKo)).bind LPset.ser = LPset.ser exP0
    ∧ (LPset.ser exP0).isSome = true := by decide +kernel

end Embit.Props.C18X
