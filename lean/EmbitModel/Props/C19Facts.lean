import EmbitModel.Props.C19
import EmbitModel.Generated.AliasFacts
/-
  C19, part 2 — the theorems about the descriptors EXTRACTED from the loaded embit modules
  (`Generated/AliasFacts.lean`, rewritten by `harness/aliasfacts.py` on every run of the check).
  `facts_safe_partial` is the proof obligation that stops building when the code (re)introduces a shared default, a
  memo keyed on nothing, an argument mutation, a shared out-buffer, or anything the translator cannot classify;
  `embit_descriptors_safe` discharges the hypotheses of the theorems of `Props/C19.lean` for the extracted library.
-/
namespace Embit.Props.C19
open Embit Embit.Heap

/-! ### Part 2 — the descriptors of the real code -/

/-- functions that modify an argument BY DOCUMENTED CONTRACT and are therefore outside the property (DESIGN
    Appendix D): the in-place `tweak` variants of the secp256k1 binding (both back ends; the copying variants
    `ec_privkey_add / ec_pubkey_add` exist beside them), sink parameters (a hash object / output pointer that the
    callee exists to write into), and the PSBT scope handed to `sign_input_with_tapkey` / the private `_sign_scope`, which is the
    receiver's own scope being signed, and the slot-set accumulator of the private `count_slot` helpers (one set per
    `sign_with` call, created by the caller for exactly this purpose) -/
def contractMutators : List String := [
  "util.ctypes_secp256k1.ec_privkey_tweak_add",
  "util.ctypes_secp256k1.ec_pubkey_tweak_add",
  "util.ctypes_secp256k1.ec_privkey_tweak_mul",
  "util.ctypes_secp256k1.ec_pubkey_tweak_mul",
  "util.py_secp256k1.ec_privkey_tweak_add(secret)",
  "util.py_secp256k1.ec_pubkey_tweak_add(pub)",
  "util.ctypes_secp256k1.ecdh.<locals>._hashfn(out)",
  "liquid.psetview.PSETView._hash_to(h)",
  "liquid.transaction.AssetIssuance.hash_to(h)",
  "psbt.PSBT.sign_input_with_tapkey(inp)",
  "psbtview.PSBTView.sign_input_with_tapkey(inp)",
  "psbtview.PSBTView._sign_scope(inp)",
  "psbt.count_slot(signed)",
  "psbtview._count_slot(signed)"]

/-- recorded, unrepaired defects that `facts_safe_partial` would have to exclude by name: NONE at present. Until round 6
    this list held the five D31 names (`Descriptor.__init__[k]`, `TapTree.__init__[k]` and three probes: the two
    constructors assigned `k.taproot` on the caller's key objects); the library was repaired (fixes/d31.diff: the flag is
    set on copies), the regenerated table has no such site and the three probes are confirmed safe. The list is kept as
    the (empty) hook the statements below and in Props/C19Complete.lean mention; `knownUnsafe_is_empty` pins it. -/
def knownUnsafe : List String := []

def inScope (s : Site) : Bool := !(contractMutators.contains s.name) && !(knownUnsafe.contains s.name)

/-- no site is excused as a known defect: `inScope` leaves out the contract mutators only -/
theorem knownUnsafe_is_empty : knownUnsafe = [] ∧ ∀ s : Site, inScope s = !(contractMutators.contains s.name) := by
  exact ⟨rfl, fun s => by simp [inScope, knownUnsafe]⟩

set_option maxRecDepth 100000 in
/-- every place of the loaded embit modules where hidden shared state or argument mutation could arise (mutable
    defaults, memos, writes through parameters, constructor writes into argument objects, buffers handed to native
    code, the always-on probes; nothing unclassified) is safe — except the listed contract mutators (hence `_partial`; `knownUnsafe` is
    empty since D31 was repaired, `knownUnsafe_is_empty`; the model-level witness for that class is
    `mutating_method_changes_argument`) -/
theorem facts_safe_partial : ((Gen.Alias.sites.filter inScope).all Site.safe) = true := by
  decide +kernel

/-- the facts are not an empty list: the sites the repairs touched are present and classified as repaired -/
theorem facts_cover_the_anchors :
    (["transaction.Transaction.__init__(vin)", "transaction.Transaction.__init__(vout)", "psbt.PSBT.__init__(unknown)",
      "psbt.PSBTScope.__init__(unknown)", "psbt.InputScope.__init__(unknown)", "psbt.OutputScope.__init__(unknown)",
      "script.Witness.__init__(items)", "descriptor.arguments.AllowedDerivation.__init__(indexes)",
      "transaction.Transaction.hash_amounts[_hash_amounts]", "transaction.Transaction.hash_script_pubkeys[_hash_script_pubkeys]",
      "psbtview.PSBTView.hash_amounts[_hash_amounts]", "psbtview.PSBTView.hash_script_pubkeys[_hash_script_pubkeys]",
      "probe:bip39.mnemonic_from_bytes(bytearray)", "probe:Transaction() twice shares no list",
      "probe:PSBT(tx) after unknown[...] set on another PSBT(tx)",
      "probe:rangeproof_rewind twice returns independent blinding factors"].all
      fun n => Gen.Alias.sites.any fun s => s.name == n && s.safe) = true := by
  decide +kernel

/-- the library as extracted: one class per constructor parameter site, one method per memo / argument site -/
def classOfSite (s : Site) : Option ClassDesc :=
  match s.kind with
  | .ctorParam k => some ⟨[k], (Gen.Alias.sites.any fun p =>
      p.name == "probe:PSBT(tx) after unknown[...] set on another PSBT(tx)" && p.safe)⟩
  | _ => none

def methodOfSite (s : Site) : Option MethodDesc :=
  match s.kind with
  | .memo dep _ => some ⟨if dep then .keyedOnNothing else .uncached, false⟩   -- receiver-only memo + invalidation = uncached
  | .memoKeyed => some ⟨.keyedOnArgs, false⟩
  | .argMutation mu => some ⟨.uncached, mu⟩
  | .inPlaceNative mu => some ⟨.uncached, mu⟩
  | .ctorWritesArgObjects => some ⟨.uncached, true⟩
  | _ => none

def embitEnv (f : Nat → List (List Val) → List Val → Val) : Env :=
  { classes := (Gen.Alias.sites.filter inScope).filterMap classOfSite,
    methods := (Gen.Alias.sites.filter inScope).filterMap methodOfSite,
    defaultRef := fun c p => c + p, f := f }

set_option maxRecDepth 100000 in
/-- the extracted descriptors satisfy the hypotheses of the theorems of Part 1 (for every digest function `f`) -/
theorem embit_descriptors_safe (f : Nat → List (List Val) → List Val → Val) :
    (embitEnv f).classesSafe = true ∧ (embitEnv f).memosKeyed = true ∧ (embitEnv f).noArgMutation = true := by
  refine ⟨?_, ?_, ?_⟩
  · show (((Gen.Alias.sites.filter inScope).filterMap classOfSite).all
      fun d => d.params.all ParamKind.safe && d.copiesSource) = true
    decide +kernel
  · show (((Gen.Alias.sites.filter inScope).filterMap methodOfSite).all fun d => d.memo != .keyedOnNothing) = true
    decide +kernel
  · show (((Gen.Alias.sites.filter inScope).filterMap methodOfSite).all fun d => !d.mutatesArg) = true
    decide +kernel

/-- Part 1 instantiated with the extracted descriptors: in every history over the extracted constructors and methods
    (contract mutators excluded; no recorded defect is, `knownUnsafe_is_empty`) answers are functions of receiver and arguments -/
theorem embit_results_depend_only_on_arguments (f : Nat → List (List Val) → List Val → Val)
    (d : Nat) (dflt : Nat → List Val) (h : List Op) (hraw : (h.all fun o => !o.isRaw) = true) (i m k : Nat) :
    answer (embitEnv f) (run (embitEnv f) (init d dflt) h) i m k
      = f m (obs (run (embitEnv f) (init d dflt) h) i) (argObs (run (embitEnv f) (init d dflt) h) k) :=
  result_depends_only_on_receiver_and_args (embitEnv f) (embit_descriptors_safe f).1 (embit_descriptors_safe f).2.1
    d dflt h hraw i m k

end Embit.Props.C19
