import EmbitModel.Proofs.ContractDer
import EmbitModel.Proofs.ContractCurve
import EmbitModel.Proofs.ContractSchnorr
import EmbitModel.Proofs.ToyCurve
/-
  C08 — the pure-python secp256k1 fallback is interchangeable with libsecp256k1.
  Property theorems only. `Model.PySecp.*` models `embit/util/py_secp256k1.py` (+ key.py), `Spec.Libsecp.*` is the
  contract of the same function of `ctypes_secp256k1.py` (libsecp256k1's documented behaviour + what the wrapper
  does); both are tied to the real modules by the correspondence check on every run, and the two real modules are
  compared with each other directly. A theorem `py_eq_contract_f` says: for ALL byte-string arguments the two return
  the same bytes or both reject (`Option` equality). Curve operations are the same abstract `EcOps` on both sides, so
  the theorems are about validation, encoding and dispatch; where the two sides compute a point along different
  routes the group laws `EcLaws E` are an explicit hypothesis. `E.n % 2 = 1` (the group order is odd) is needed
  wherever the two formulations of the low-S rule (`s > n // 2` vs `s > (n-1)/2`) meet.
-/
namespace Embit.Props.C08
open Embit Embit.Model Embit.Model.PySecp

variable (E : EcOps) (H : HashOps)

/-! ### scalar arithmetic modulo n — all 32-byte (and wrong-length) inputs -/

theorem py_eq_contract_seckey_verify (secret : Bytes) :
    ecSeckeyVerify E secret = Spec.Libsecp.ec_seckey_verify E secret := eq_seckey_verify E secret

theorem py_eq_contract_privkey_negate (secret : Bytes) :
    ecPrivkeyNegate E secret = Spec.Libsecp.ec_privkey_negate E secret := eq_privkey_negate E secret

/-- includes: invalid secret, tweak ≥ n, operands summing to 0 mod n — rejected by both -/
theorem py_eq_contract_privkey_add (secret tweak : Bytes) :
    ecPrivkeyAdd E secret tweak = Spec.Libsecp.ec_privkey_add E secret tweak := eq_privkey_add E secret tweak

theorem py_eq_contract_privkey_tweak_add (secret tweak : Bytes) :
    ecPrivkeyTweakAdd E secret tweak = Spec.Libsecp.ec_privkey_tweak_add E secret tweak := eq_privkey_add E secret tweak

/-! ### signature codecs — all 64 / 65-byte (and wrong-length) inputs -/

theorem py_eq_contract_parse_compact (c : Bytes) :
    ecdsaSignatureParseCompact E c = Spec.Libsecp.ecdsa_signature_parse_compact E c := eq_parse_compact E c

theorem py_eq_contract_serialize_compact (sig : Bytes) :
    ecdsaSignatureSerializeCompact sig = Spec.Libsecp.ecdsa_signature_serialize_compact sig := eq_serialize_compact sig

/-- the Python `bit_length` serialiser is the X.690 shortest-form encoder -/
theorem py_eq_contract_serialize_der (sig : Bytes) :
    ecdsaSignatureSerializeDer sig = Spec.Libsecp.ecdsa_signature_serialize_der sig := eq_serialize_der sig

theorem py_eq_contract_normalize (hodd : E.n % 2 = 1) (sig : Bytes) :
    ecdsaSignatureNormalize E sig = Spec.Libsecp.ecdsa_signature_normalize E sig := eq_normalize E hodd sig

theorem py_eq_contract_recoverable_parse_compact (c : Bytes) (recid : Int) :
    ecdsaRecoverableSignatureParseCompact E c recid =
      Spec.Libsecp.ecdsa_recoverable_signature_parse_compact E c recid := eq_rec_parse_compact E c recid

theorem py_eq_contract_recoverable_serialize_compact (sig : Bytes) :
    ecdsaRecoverableSignatureSerializeCompact sig =
      Spec.Libsecp.ecdsa_recoverable_signature_serialize_compact sig := eq_rec_serialize_compact sig

theorem py_eq_contract_recoverable_convert (sig : Bytes) :
    ecdsaRecoverableSignatureConvert sig = Spec.Libsecp.ecdsa_recoverable_signature_convert sig := rfl

/-! ### public keys: validation, encoding, dispatch -/

theorem py_eq_contract_pubkey_create (secret : Bytes) :
    ecPubkeyCreate E secret = Spec.Libsecp.ec_pubkey_create E secret := eq_pubkey_create E secret

/-- includes coordinates ≥ p, wrong headers / lengths -/
theorem py_eq_contract_pubkey_parse (sec : Bytes) :
    ecPubkeyParse E sec = Spec.Libsecp.ec_pubkey_parse E sec := eq_pubkey_parse E sec

theorem py_eq_contract_pubkey_serialize (pub : Bytes) (flag : Nat) :
    ecPubkeySerialize E pub flag = Spec.Libsecp.ec_pubkey_serialize E pub flag := eq_pubkey_serialize E pub flag

/-- includes tweak ≥ n and a sum at infinity — rejected by both -/
theorem py_eq_contract_pubkey_add (pub tweak : Bytes) :
    ecPubkeyAdd E pub tweak = Spec.Libsecp.ec_pubkey_add E pub tweak := eq_pubkey_add E pub tweak

theorem py_eq_contract_pubkey_tweak_add (pub tweak : Bytes) :
    ecPubkeyTweakAdd E pub tweak = Spec.Libsecp.ec_pubkey_tweak_add E pub tweak := eq_pubkey_add E pub tweak

/-- py negates by re-parsing the compressed encoding with the other parity byte; libsecp negates the point -/
theorem py_eq_contract_pubkey_negate (L : EcLaws E) (hp : E.p ≤ 2 ^ 256) (pub : Bytes) :
    ecPubkeyNegate E pub = Spec.Libsecp.ec_pubkey_negate E pub := eq_pubkey_negate E L hp pub

/-- py goes through the compressed encoding and `lift_x`; libsecp negates the point when Y is odd -/
theorem py_eq_contract_xonly_from_pubkey (L : EcLaws E) (hp : E.p ≤ 2 ^ 256) (pub : Bytes) :
    xonlyPubkeyFromPubkey E pub = Spec.Libsecp.xonly_pubkey_from_pubkey E pub := eq_xonly E L hp pub

theorem py_eq_contract_keypair_create (L : EcLaws E) (hp : E.p ≤ 2 ^ 256) (secret : Bytes) :
    keypairCreate E secret = Spec.Libsecp.keypair_create E secret := eq_keypair_create E L hp secret

/-! ### ECDSA verification and arbitrary DER encodings -/

/-- py re-encodes the structure to DER and runs the strict parser of `verify_ecdsa`; libsecp checks range and low-S
    directly — the same verdict for every 64-byte structure, message and key structure -/
theorem py_eq_contract_ecdsa_verify (hodd : E.n % 2 = 1) (sig msg pub : Bytes) :
    ecdsaVerify E sig msg pub = Spec.Libsecp.ecdsa_verify E sig msg pub := eq_ecdsa_verify E hodd sig msg pub

/-- what py's strict parser accepts, libsecp parses to the same structure -/
theorem parse_der_py_to_contract (hn : E.n ≤ 2 ^ 256) (der sig : Bytes)
    (h : ecdsaSignatureParseDer E der = some sig) : Spec.Libsecp.ecdsa_signature_parse_der E der = some sig := by
  unfold ecdsaSignatureParseDer at h
  split at h
  · cases h
  · rename_i r s hp
    cases h
    obtain ⟨hb, hok⟩ := parse_strict _ _ _ _ _ hp
    have hr := (rangeOk_iff E.n true r s).mp hok
    unfold Spec.Libsecp.ecdsa_signature_parse_der
    rw [hb, contract_parses_strict E hn r s hr.2.1 hr.2.2.2.1]
    rfl

/-- `parse_der` of py = `parse_der` of libsecp restricted to verifiable signatures: libsecp additionally parses
    encodings that denote r = 0, s = 0 (negative / overflowing numbers are stored as 0) or a high S — none of which
    any key verifies -/
theorem py_eq_contract_parse_der (hn : E.n ≤ 2 ^ 256) (der sig : Bytes) :
    ecdsaSignatureParseDer E der = some sig ↔
      ∃ r s, Spec.Libsecp.parseDerRS E der = some (r, s) ∧ sig = Spec.Libsecp.sigStruct r s ∧
        r ≠ 0 ∧ s ≠ 0 ∧ s ≤ E.n / 2 := by
  constructor
  · intro h
    have hc := parse_der_py_to_contract E hn der sig h
    unfold ecdsaSignatureParseDer at h
    split at h
    · cases h
    · rename_i r s hp
      cases h
      obtain ⟨hb, hok⟩ := parse_strict _ _ _ _ _ hp
      have hr := (rangeOk_iff E.n true r s).mp hok
      refine ⟨r, s, ?_, rfl, by omega, by omega, hr.2.2.2.2 rfl⟩
      rw [hb]; exact contract_parses_strict E hn r s hr.2.1 hr.2.2.2.1
  · rintro ⟨r, s, hp, rfl, hr, hs, hlow⟩
    obtain ⟨hstrict, hrn, hsn⟩ := strict_of_contract E der r s hp hr hs
    unfold ecdsaSignatureParseDer Der.parse
    rw [hstrict]
    have : Der.rangeOk E.n true r s = true :=
      (rangeOk_iff E.n true r s).mpr ⟨by omega, hrn, by omega, hsn, fun _ => hlow⟩
    simp [this, Spec.Libsecp.sigStruct]

/-- **the final verdict is the same for arbitrary signature encodings**: a DER byte string is accepted
    (parses and verifies) under the pure-python backend iff it is under libsecp256k1 -/
theorem verdict_agree (hn : E.n ≤ 2 ^ 256) (hodd : E.n % 2 = 1) (der msg pub : Bytes) :
    (∃ sig, ecdsaSignatureParseDer E der = some sig ∧ ecdsaVerify E sig msg pub = some true) ↔
    (∃ sig, Spec.Libsecp.ecdsa_signature_parse_der E der = some sig ∧
            Spec.Libsecp.ecdsa_verify E sig msg pub = some true) := by
  constructor
  · rintro ⟨sig, hp, hv⟩
    exact ⟨sig, parse_der_py_to_contract E hn der sig hp, by rw [← eq_ecdsa_verify E hodd]; exact hv⟩
  · rintro ⟨sig, hp, hv⟩
    refine ⟨sig, ?_, by rw [eq_ecdsa_verify E hodd]; exact hv⟩
    -- a structure that verifies has r, s ≠ 0 and low S
    unfold Spec.Libsecp.ecdsa_signature_parse_der at hp
    cases hrs : Spec.Libsecp.parseDerRS E der with
    | none => rw [hrs] at hp; cases hp
    | some rs =>
      obtain ⟨r, s⟩ := rs
      rw [hrs] at hp
      simp only [Option.map_some, Option.some.injEq] at hp
      subst hp
      have hle := parseDerRS_le E der r s hrs
      have hv' := contract_verify_true_range E r s msg pub (by omega) (by omega) hv
      rw [py_eq_contract_parse_der E hn]
      exact ⟨r, s, hrs, rfl, hv'.1, hv'.2.1, hv'.2.2⟩

/-! ### ECDSA signing -/

/-- `ecdsa_sign` under both backends: same bytes or both reject, for every message, key and extra data — away
    from the region where the first valid RFC 6979 candidate yields r = 0 or s = 0 (there libsecp256k1 moves on to
    the next candidate and py raises; probability ≈ 2^-256 per signature) -/
theorem py_eq_contract_ecdsa_sign_partial (hn : E.n < 2 ^ 256) (hodd : E.n % 2 = 1) (fuel : Nat)
    (msg secret : Bytes) (extra : Option Bytes)
    (hgood : ∀ k, deterministicK H fuel E.n (ofBe secret) (ofBe msg) extra = some k →
      (Spec.Ecdsa.signWith E (ofBe secret) (ofBe msg) k).isSome) :
    ecdsaSign E H fuel msg secret extra = Spec.Libsecp.ecdsa_sign E H fuel msg secret extra :=
  eq_ecdsa_sign_partial E H hn hodd fuel msg secret extra hgood

/-- witness that the excluded region is real: on a toy group where the first candidate gives r = 0 the model
    rejects while the contract signs with the next candidate -/
theorem ecdsa_sign_differs_when_r_zero :
    ecdsaSign toyE toyHs 4 (beN 32 1) (beN 32 1) none = none ∧
    (Spec.Libsecp.ecdsa_sign toyE toyHs 4 (beN 32 1) (beN 32 1) none).isSome = true := by
  decide +kernel

/-! ### BIP340 -/

/-- key.py's `sign_schnorr` is BIP340 default signing (with libsecp256k1's convention for absent auxiliary data) -/
theorem py_sign_schnorr_eq_bip340 (key msg : Bytes) (aux : Option Bytes) (hk : key.length = 32)
    (hm : msg.length = 32) (ha : badExtra aux = false) :
    signSchnorr E H key msg aux = Spec.Bip340.sign E H (ofBe key) msg aux := signSchnorr_eq_spec E H key msg aux hk hm ha

/-- key.py's `verify_schnorr` is BIP340 verification (`(n−e)·P` for `−e·P`, explicit `x = 0` test) -/
theorem py_verify_schnorr_eq_bip340 (L : EcLaws E) (key sig msg : Bytes) (hk : key.length = 32)
    (hm : msg.length = 32) (hs : sig.length = 64) :
    verifySchnorr E H key sig msg = some (Spec.Bip340.verify E H key msg sig) :=
  verifySchnorr_eq_spec E H L key sig msg hk hm hs

/-- includes odd-Y and invalid key structures, wrong lengths — same verdict or both reject -/
theorem py_eq_contract_schnorrsig_verify (L : EcLaws E) (hp : E.p ≤ 2 ^ 256) (sig msg pub : Bytes) :
    schnorrsigVerify E H sig msg pub = Spec.Libsecp.schnorrsig_verify E H sig msg pub :=
  eq_schnorrsig_verify E H L hp sig msg pub

/-- includes 32-byte secrets, 96-byte keypairs (consistent or not), invalid secrets, bad aux lengths -/
theorem py_eq_contract_schnorrsig_sign (L : EcLaws E) (hp : E.p ≤ 2 ^ 256) (msg keypair : Bytes) (aux : Option Bytes) :
    schnorrsigSign E H msg keypair aux = Spec.Libsecp.schnorrsig_sign E H msg keypair aux :=
  eq_schnorrsig_sign E H L hp msg keypair aux

/-! ### the defects that were repaired (theorems about the old code) -/

/-- D9: before fix 01 `ec_privkey_add` accepted the invalid secret 0 and returned a zero result -/
theorem privkey_add_legacy_witness :
    Legacy.ecPrivkeyAdd toyE (beN 32 0) (beN 32 1) = some (beN 32 1) ∧
    Spec.Libsecp.ec_privkey_add toyE (beN 32 0) (beN 32 1) = none ∧
    Legacy.ecPrivkeyAdd toyE (beN 32 1) (beN 32 10) = some (beN 32 0) ∧
    Spec.Libsecp.ec_privkey_add toyE (beN 32 1) (beN 32 10) = none := by decide +kernel

/-- D10: before fix 05 `ec_privkey_negate(0)` returned n; before fix 04 `parse_compact` accepted r = n -/
theorem negate_parse_compact_legacy_witness :
    Legacy.ecPrivkeyNegate toyE (beN 32 0) = some (beN 32 11) ∧
    Spec.Libsecp.ec_privkey_negate toyE (beN 32 0) = none ∧
    (Legacy.ecdsaSignatureParseCompact (beN 32 11 ++ beN 32 1)).isSome = true ∧
    Spec.Libsecp.ecdsa_signature_parse_compact toyE (beN 32 11 ++ beN 32 1) = none := by decide +kernel

-- (`ecdsa_recover` and `ecdsa_sign_recoverable` are in Props/C08X.lean: the first in full, the second `_partial` with witnesses)

/-! ### non-vacuity -/

/-- the law hypothesis is satisfiable: `y² = x³ + 7` over 𝔽₄₃ (31 points, prime order) satisfies it -/
example : EcLaws toyCurve := toyCurve_laws
/-- negating the key structure of 3G = (35, 21) on that curve gives (35, 22) under both formulations -/
example : ecPubkeyNegate toyCurve (leN 32 35 ++ leN 32 21) = some (leN 32 35 ++ leN 32 22) ∧
    Spec.Libsecp.ec_pubkey_negate toyCurve (leN 32 35 ++ leN 32 21) = some (leN 32 35 ++ leN 32 22) := by
  decide +kernel

example : ecPrivkeyAdd toyE (beN 32 3) (beN 32 4) = some (beN 32 7) := by decide +kernel
example : Spec.Libsecp.ec_privkey_add toyE (beN 32 7) (beN 32 4) = none := by decide +kernel
example : ecPrivkeyAdd toyE (beN 32 7) (beN 32 5) = some (beN 32 1) := by decide +kernel
example : Spec.Libsecp.parseDerRS toyE [0x30, 0x06, 0x02, 0x01, 0x05, 0x02, 0x01, 0x0a] = some (5, 10) := by decide +kernel
example : ecdsaSignatureParseDer toyE [0x30, 0x06, 0x02, 0x01, 0x05, 0x02, 0x01, 0x0a] = none := by decide +kernel
example : ecdsaSignatureParseDer toyE [0x30, 0x06, 0x02, 0x01, 0x05, 0x02, 0x01, 0x05]
    = some (leN 32 5 ++ leN 32 5) := by decide +kernel
example : Spec.Libsecp.parseDerRS toyE [0x30, 0x06, 0x02, 0x01, 0xff, 0x02, 0x01, 0x01] = some (0, 1) := by decide +kernel

end Embit.Props.C08
