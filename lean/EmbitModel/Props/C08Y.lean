import EmbitModel.Proofs.PyCurveCount
import EmbitModel.Proofs.ContractCurve
import Mathlib.Tactic.NormNum.Prime
import EmbitModel.Proofs.SecpPrimes
/-
  C08 (audit A1 / A2) — the curve and field arithmetic of the pure-Python backend, `embit/util/key.py` lines 17–245.

  `Model/PyCurve.lean` follows that code branch for branch over Python integers, for an arbitrary
  `EllipticCurve(p, a, b)` (`modinv`, `jacobi_symbol`, `modsqrt`, `affine`, `negate`, `on_curve`, `is_x_coord`,
  `lift_x`, `double`, `add_mixed`, `add` with all special cases, the 256-step multi-scalar `mul`); the harness ties
  the model to the real functions on every run (ops `pycurve.*`, ≈ 4 700 cases per quick run).

  This file proves, for a PRIME modulus `p` (`[Fact C.p.Prime]`, an explicit hypothesis, never an axiom):

  (1) the modelled functions implement the group law of the curve `y² = x³ + a x + b` over `ZMod p` — Mathlib's
      `WeierstrassCurve.Affine.Point` — via the map `pt C : JPt → (W C).toAffine.Point`
      (`Jacobian.Point.toAffine` of the residues): `add`, `add_mixed`, `double`, `negate`, `mul` (single, pair
      and general multi-scalar form, 256 bits read), `affine`, `on_curve`, `lift_x`, `is_x_coord`,
      `ECPubKey.set`; and the field functions: `pow`, `modinv`, `jacobi_symbol`, `modsqrt`.
      `Valid C P` = entries reduced, and `z = 0` or a nonsingular point of the curve; every operation returns a
      `Valid` tuple on `Valid` operands (closure is part of each theorem).
  (2) `pyEcOps C n g` — the abstract record `EcOps` over which `Model/PySecp.lean` and every C07 / C08 theorem
      are stated, INSTANTIATED with the modelled key.py arithmetic — satisfies the law structure `EcLaws`
      (`py_ec_laws`), from
        `Params C n g`  facts decided by RUNNING the modelled code on the parameters:
                        p ≡ 3 (mod 4), discriminant ≠ 0, `jacobi_symbol(b, p) = -1`, n ≠ 2, n ≤ 2^256,
                        G finite and on the curve, `mul([(G, n)])` is infinity — plus `n` prime,
        `CardEq C n`    the curve group has exactly n elements (equivalently `pointCount C = n`: run `on_curve`
                        on all p² pairs — `card_eq_iff_point_count`).
  (3) both are instantiated: for the toy curve `y² = x³ + 7` over 𝔽₄₃ everything is discharged by evaluation
      (`toy_ec_laws`, no hypothesis left); for secp256k1 the kernel evaluates `mul([(G, n)])`, `on_curve(G)`,
      `jacobi_symbol(7, p)` and the discriminant, so that

        THE ONLY REMAINING ASSUMPTION ABOUT secp256k1 IS
          #E(𝔽_p) = n          (`hc : CardEq secp256k1 secp256k1N`, equivalently `pointCount secp256k1 = n`;
                               by `secp256k1_card_of_bound` any bound `#E(𝔽_p) < 2n`, e.g. Hasse's, suffices)
        PROVED, not assumed:
          p = 2^256 − 2^32 − 977 is prime   `secp256k1_p_prime`  (Pratt certificate, 10 Lucas steps)
          n is prime                        `secp256k1_n_prime`  (Pratt certificate, 12 Lucas steps)
          n • G = 0                         `secp256k1_nG`       (the modelled `mul([(G, n)])`, run by the kernel)
          G has order exactly n             `secp256k1_G_order`
        (`Proofs/SecpPrimes.lean`: every modular power of the certificates is evaluated by the kernel through the
        model's `powMod`; the factorisations found off-line are not trusted.)
        `secp256k1_ec_laws'` is the same statement with "p prime" and "n prime" kept as hypotheses, for readers
        who want the list "p prime, n prime, #E = n" literally.

      Under that one hypothesis `secp256k1_ec_laws` gives `EcLaws (pyEcOps secp256k1 …)`, hence every `EcLaws`-relative
      theorem of C07 / C08 for the record built from key.py's own arithmetic (`py_negate_matches_contract_secp256k1`
      is one instance), and the `pipeline_*` theorems show that the abstract decompositions written in
      `Model/PySecp.lean` (`E.add (E.mul u1 E.g) (E.mul u2 P)` …) equal what the real Jacobian pipelines
      (`affine(mul([(G, u1), (P, u2)]))` …) return. The group-law theorems of part (1) hold for secp256k1
      UNCONDITIONALLY (`secp256k1_add`, `secp256k1_mul_G`).
-/
namespace Embit.Props.C08Y
open Embit Embit.Model Embit.Model.PyCurve WeierstrassCurve NumberTheorySymbols

/-! ### field functions -/

/-- the model of Python's built-in `pow(b, e, m)` (square and multiply) is `b ^ e mod m` -/
theorem pow_is_modpow (m : ℕ) (hm : 0 < m) (b : ℤ) (e : ℕ) : powMod b e m = b ^ e % (m : ℤ) := powMod_eq m hm b e

/-- `modinv(a, n)` (extended Euclid as written, `a ≥ 0`): answers `t` with `t·a ≡ 1 (mod n)` when `gcd(a, n) = 1` … -/
theorem modinv_coprime (n : ℕ) (a : ℤ) (ha : 0 ≤ a) (hg : Int.gcd a n = 1) :
    ∃ t : ℤ, modinv a n = some t ∧ (t : ZMod n) * a = 1 := modinv_some n a ha hg

/-- … and `None` otherwise (`modinv(0, n)`, `modinv(n, n)`, a common factor) -/
theorem modinv_not_coprime (n : ℕ) (hn : 0 < n) (a : ℤ) (ha : 0 ≤ a) (hg : Int.gcd a n ≠ 1) : modinv a n = none :=
  modinv_none n hn a ha hg

/-- **`modinv` is the field inverse** for a prime modulus and an argument that is not ≡ 0 -/
theorem modinv_is_field_inverse (p : ℕ) [Fact p.Prime] (a : ℤ) (ha : 0 ≤ a) (hne : (a : ZMod p) ≠ 0) :
    ∃ t : ℤ, modinv a p = some t ∧ (t : ZMod p) = (a : ZMod p)⁻¹ := modinv_inv p a ha hne

/-- **`modinv` answers the canonical representative**: for `0 ≤ a < n` the value lies in `[0, n)` -/
theorem modinv_canonical (n : ℕ) (a : ℤ) (h0 : 0 ≤ a) (h1 : a < n) (t : ℤ) (h : modinv a n = some t) : 0 ≤ t ∧ t < n :=
  modinv_range n a h0 h1 t h

theorem modinv_of_multiple (p : ℕ) [Fact p.Prime] (a : ℤ) (ha : 0 ≤ a) (h0 : (a : ZMod p) = 0) : modinv a p = none :=
  modinv_zero p a ha h0

/-- **`jacobi_symbol(n, k)` is the Jacobi symbol** `J(n | k)` for every integer `n` and odd `k > 0`; both `while`
    loops terminate within the fuel given -/
theorem jacobi_symbol_is_jacobi (n : ℤ) (k : ℕ) (hk0 : 0 < k) (hk : k % 2 = 1) : jacobiSymbol n k = some (J(n | k)) :=
  jacobiSymbol_eq n k hk0 hk

/-- `modsqrt` (`a^((p+1)/4)`, p ≡ 3 mod 4): what it returns is a reduced square root … -/
theorem modsqrt_sound (p : ℕ) [Fact p.Prime] (a y : ℤ) (h : modsqrt a p = some (some y)) :
    0 ≤ y ∧ y < p ∧ (y : ZMod p) ^ 2 = (a : ZMod p) := PyCurve.modsqrt_sound p a y h

/-- … it finds a root of every square, and answers `None` exactly for the non-squares -/
theorem modsqrt_complete (p : ℕ) [Fact p.Prime] (h3 : p % 4 = 3) (a : ℤ) :
    (IsSquare (a : ZMod p) → ∃ y, modsqrt a p = some (some y)) ∧
    (¬ IsSquare (a : ZMod p) → modsqrt a p = some none) :=
  ⟨PyCurve.modsqrt_complete p h3 a, modsqrt_nonsquare p h3 a⟩

/-! ### the group law -/

section group
variable (C : Curve) [Fact C.p.Prime]

/-- **`negate` is the group inverse** -/
theorem negate_is_neg {P : JPt} (hv : Valid C P) : pt C (negate C P) = - pt C P ∧ Valid C (negate C P) :=
  ⟨pt_negate C hv, valid_negate C hv⟩

/-- **`double` doubles** (including `z = 0` and points of order two, where it returns `z = 0`) -/
theorem double_is_double {P : JPt} (hv : Valid C P) : pt C (double C P) = 2 • pt C P ∧ Valid C (double C P) :=
  ⟨by rw [pt_double C hv, two_nsmul], valid_double C hv⟩

/-- `double` is literally Mathlib's Jacobian doubling formula `dblXYZ` on the residues -/
theorem double_is_dblXYZ (x y z : ℤ) (hz : z ≠ 0) : toF C (double C (x, y, z)) = (W C).dblXYZ (toF C (x, y, z)) :=
  double_toF C x y z hz

/-- **`add_mixed(P, Q)` (`Q.z = 1`) is the group sum** — all its branches -/
theorem add_mixed_is_add {P Q : JPt} (hP : Valid C P) (hQ : Valid C Q) (hz : Q.2.2 = 1) :
    pt C (addMixed C P Q) = pt C P + pt C Q ∧ Valid C (addMixed C P Q) := pt_addMixed C hP hQ hz

/-- **`add(P, Q)` is the group sum** — infinity on either side, the `z = 1` fast paths, equal `x` with equal /
    opposite `y`, the general formulas; for ALL valid Jacobian representatives -/
theorem add_is_add {P Q : JPt} (hP : Valid C P) (hQ : Valid C Q) :
    pt C (add C P Q) = pt C P + pt C Q ∧ Valid C (add C P Q) := pt_add C hP hQ

/-- **`mul(ps)` is the multi-scalar product** `Σ (nᵢ mod 2^256) • Pᵢ` — the loop as written, for any list -/
theorem mul_is_multiscalar (ps : List (JPt × ℕ)) (hps : ∀ pn ∈ ps, Valid C pn.1) :
    pt C (mul C ps) = scalSum C (fun n => n % 2 ^ 256) ps ∧ Valid C (mul C ps) := pt_mul C ps hps

/-- `mul([(P, k)]) = k • P` for `k < 2^256` -/
theorem mul_single {P : JPt} (hP : Valid C P) (k : ℕ) (hk : k < 2 ^ 256) : pt C (mul C [(P, k)]) = k • pt C P :=
  pt_mul_single C hP k hk

/-- `mul([(P, a), (Q, b)]) = a • P + b • Q` (Shamir's trick as the code does it) -/
theorem mul_pair {P Q : JPt} (hP : Valid C P) (hQ : Valid C Q) (a b : ℕ) (ha : a < 2 ^ 256) (hb : b < 2 ^ 256) :
    pt C (mul C [(P, a), (Q, b)]) = a • pt C P + b • pt C Q := pt_mul_pair C hP hQ a b ha hb

/-- `affine` of a finite valid tuple: the reduced representative `(x/z², y/z³, 1)` of the same point; of `z = 0`: `None` -/
theorem affine_is_normal_form {x y z : ℤ} (hv : Valid C (x, y, z)) :
    (z = 0 → affine C (x, y, z) = some none) ∧
    (z ≠ 0 → ∃ x' y' : ℤ, affine C (x, y, z) = some (some (x', y', 1)) ∧ Valid C (x', y', 1) ∧
      (x' : ZMod C.p) = (x : ZMod C.p) / (z : ZMod C.p) ^ 2 ∧ (y' : ZMod C.p) = (y : ZMod C.p) / (z : ZMod C.p) ^ 3 ∧
      pt C (x', y', 1) = pt C (x, y, z)) :=
  ⟨fun h => by subst h; exact affine_inf C x y, affine_finite C hv⟩

/-- **the serialised coordinates depend on the group element only** (not on the Jacobian representative) -/
theorem affine_depends_on_point_only {P : JPt} (hv : Valid C P) : affineXY C P = some (ptXY C (pt C P)) :=
  affineXY_eq C hv

/-- **`on_curve` decides membership** -/
theorem on_curve_decides (x y z : ℤ) :
    onCurve C (x, y, z) = true ↔ z ≠ 0 ∧
      (y : ZMod C.p) ^ 2 = (x : ZMod C.p) ^ 3 + (C.a : ZMod C.p) * x * (z : ZMod C.p) ^ 4 + (C.b : ZMod C.p) * (z : ZMod C.p) ^ 6 :=
  onCurve_iff C x y z

/-- on a smooth curve the reduced tuples `on_curve` accepts are exactly the finite `Valid` ones -/
theorem on_curve_iff_valid (hs : Smooth C) (x y : ℤ) (hx : 0 ≤ x ∧ x < C.p) (hy : 0 ≤ y ∧ y < C.p) :
    Valid C (x, y, 1) ↔ onCurve C (x, y, 1) = true := valid_affine_iff C hs x y hx hy

/-- **`is_x_coord` decides whether `x³ + a x + b` is a square** -/
theorem is_x_coord_decides (hodd : C.p % 2 = 1) (x : ℤ) :
    isXCoord C x = some (decide (IsSquare ((x : ZMod C.p) ^ 3 + (C.a : ZMod C.p) * x + (C.b : ZMod C.p)))) :=
  isXCoord_eq C hodd x

/-- **`lift_x` returns the point with that `x` and the EVEN root** … -/
theorem lift_x_selects_even_root (hs : Smooth C) (h3 : C.p % 4 = 3) (x : ℤ) (hx : 0 ≤ x ∧ x < C.p) (P : JPt)
    (h : liftX C x = some (some P)) : ∃ y : ℤ, P = (x, y, 1) ∧ y % 2 = 0 ∧ Valid C P := liftX_sound C hs h3 x hx P h

/-- … every point with an even `y` is found, and `None` is answered exactly when there is no point with that `x` -/
theorem lift_x_complete (h3 : C.p % 4 = 3) (x : ℤ) :
    (∀ y : ℤ, Valid C (x, y, 1) → y % 2 = 0 → liftX C x = some (some (x, y, 1))) ∧
    (¬ IsSquare ((x : ZMod C.p) ^ 3 + (C.a : ZMod C.p) * x + (C.b : ZMod C.p)) → liftX C x = some none) :=
  ⟨fun y hv hy => liftX_complete C h3 x y hv hy, liftX_nonsquare C h3 x⟩

/-- `ECPubKey.set`, uncompressed branch: accepts exactly the reduced pairs on the curve -/
theorem set_uncompressed (hs : Smooth C) (x y : ℕ) (P : JPt) :
    setUncompressed C x y = some P ↔ P = ((x : ℤ), (y : ℤ), 1) ∧ x < C.p ∧ y < C.p ∧ Valid C P :=
  setUncompressed_iff C hs x y P

/-- `ECPubKey.set`, compressed branch: never raises; accepts exactly `x < p` with a point above it and stores the
    point with the demanded parity (`lift_x`, then `negate` for an odd prefix) -/
theorem set_compressed (hs : Smooth C) (h3 : C.p % 4 = 3) (odd : Bool) (x : ℕ) :
    (x < C.p ∧ IsSquare (((x : ℤ) : ZMod C.p) ^ 3 + (C.a : ZMod C.p) * ((x : ℤ) : ZMod C.p) + (C.b : ZMod C.p)) →
      ∃ y : ℤ, liftX C x = some (some ((x : ℤ), y, 1)) ∧ y % 2 = 0 ∧ Valid C ((x : ℤ), y, 1) ∧
        setCompressed C odd x = some (some (if odd then negate C ((x : ℤ), y, 1) else ((x : ℤ), y, 1)))) ∧
    (¬ (x < C.p ∧ IsSquare (((x : ℤ) : ZMod C.p) ^ 3 + (C.a : ZMod C.p) * ((x : ℤ) : ZMod C.p) + (C.b : ZMod C.p))) →
      setCompressed C odd x = some none) := setCompressed_spec C hs h3 odd x

end group

/-! ### the abstract record instantiated with key.py's arithmetic -/

section record
variable (C : Curve) [Fact C.p.Prime] {n : ℕ} {g : APt C}

/-- **`EcLaws` holds for the record built from the modelled key.py arithmetic**, from the decidable facts
    `Params C n g` and `CardEq C n` -/
theorem py_ec_laws (hp : Params C n g) (hc : CardEq C n) : EcLaws (pyEcOps C n g) := pyEcLaws C hp hc

/-- `CardEq` is the executable count: `on_curve` accepted on exactly `n − 1` of the `p²` reduced pairs -/
theorem card_eq_iff_point_count (hs : Smooth C) (n : ℕ) : CardEq C n ↔ pointCount C = n := cardEq_iff C hs n

/-- `ec_pubkey_create`: `affine(mul([(G, d)]))` is `xy (d·G)` of the record -/
theorem pipeline_pubkey_create (hp : Params C n g) (d : ℕ) (hd : d < 2 ^ 256) :
    affineXY C (mul C [(toJ g.1, d)]) = some ((pyEcOps C n g).xy ((pyEcOps C n g).mul d g)) := pipeline_create C hp d hd

/-- `verify_ecdsa`, `verify_schnorr`, `ec_pubkey_add`: the two-scalar `mul` is `a·G + b·P` of the record -/
theorem pipeline_verify (hp : Params C n g) (P : APt C) (hP : n • ι C P = 0) (a b : ℕ) (ha : a < 2 ^ 256) (hb : b < 2 ^ 256) :
    affineXY C (mul C [(toJ g.1, a), (toJ P.1, b)]) =
      some ((pyEcOps C n g).xy ((pyEcOps C n g).add ((pyEcOps C n g).mul a g) ((pyEcOps C n g).mul b P))) :=
  pipeline_two_scalars C hp P hP a b ha hb

/-- `ecdsa_recover`: `affine(add(mul([(R, u1)]), negate(mul([(G, u2)]))))` is `u1·R + (−(u2·G))` of the record -/
theorem pipeline_ecdsa_recover (hp : Params C n g) (R : APt C) (hR : n • ι C R = 0) (u1 u2 : ℕ) (h1 : u1 < 2 ^ 256)
    (h2 : u2 < 2 ^ 256) :
    affineXY C (add C (mul C [(toJ R.1, u1)]) (negate C (mul C [(toJ g.1, u2)]))) =
      some ((pyEcOps C n g).xy ((pyEcOps C n g).add ((pyEcOps C n g).mul u1 R)
        ((pyEcOps C n g).neg ((pyEcOps C n g).mul u2 g)))) := pipeline_recover C hp R hR u1 u2 h1 h2

/-- with `CardEq`, every canonical point is killed by `n` (the side condition of the pipelines is vacuous) -/
theorem all_points_killed_by_n (hc : CardEq C n) (P : APt C) : n • ι C P = 0 := nsmul_all C hc (ι C P)

end record

/-! ### instance 1: the toy curve — every hypothesis discharged by evaluation -/

instance toy_p_prime : Fact toy43.p.Prime := ⟨by show Nat.Prime 43; norm_num⟩

theorem toy_smooth : Smooth toy43 := ⟨by decide, by decide⟩

/-- `G = (2, 12)` on `y² = x³ + 7` over 𝔽₄₃ -/
def toyG : APt toy43 :=
  ⟨some (2, 12), (valid_affine_iff toy43 toy_smooth 2 12 (by decide) (by decide)).mpr (by decide)⟩

set_option maxRecDepth 100000 in
theorem toy_params : Params toy43 toy43N toyG where
  p34 := by decide
  disc := by decide
  b_nonsquare := by decide +kernel
  n_prime := by show Nat.Prime 31; norm_num
  n_odd := by decide
  n_le := by decide
  g_finite := by decide
  nG := by decide +kernel

set_option maxRecDepth 100000 in
/-- the toy curve has exactly 31 points: `on_curve` run on all 43² pairs -/
theorem toy_card : CardEq toy43 toy43N :=
  (cardEq_iff toy43 toy_smooth toy43N).mpr (by decide +kernel)

/-- **non-vacuity of the whole chain**: the same key.py code on `(43, 0, 7)` satisfies `EcLaws`, no hypothesis left -/
theorem toy_ec_laws : EcLaws (pyEcOps toy43 toy43N toyG) := py_ec_laws toy43 toy_params toy_card

/-! ### instance 2: secp256k1 — what remains is #E = n -/

/-- **the field size of secp256k1 is prime** (Pratt certificate checked by the kernel) -/
theorem secp256k1_p_prime : secp256k1.p.Prime := Primes.secp256k1P_prime

/-- **the order of secp256k1's generator is prime** (Pratt certificate checked by the kernel) -/
theorem secp256k1_n_prime : secp256k1N.Prime := Primes.secp256k1N_prime

set_option maxRecDepth 100000 in
/-- `on_curve(G)`, by running the model on the 256-bit parameters in the kernel -/
theorem secp256k1_G_on_curve : onCurve secp256k1 secp256k1G = true := by decide +kernel

set_option maxRecDepth 100000 in
/-- **`n • G = 0` for secp256k1**: the modelled `mul([(G, n)])` (256 doublings, 128-odd additions on 256-bit
    integers) evaluates to a tuple with `z = 0` — evaluated by the Lean kernel, not assumed -/
theorem secp256k1_nG : (mul secp256k1 [(secp256k1G, secp256k1N)]).2.2 = 0 := by decide +kernel

set_option maxRecDepth 100000 in
/-- `jacobi_symbol(7, p) = -1`: 7 is not a square modulo p (no point with x = 0) -/
theorem secp256k1_7_nonresidue : jacobiSymbol secp256k1.b secp256k1.p = some (-1) := by decide +kernel

set_option maxRecDepth 100000 in
theorem secp256k1_smooth : Smooth secp256k1 := ⟨by decide +kernel, by decide +kernel⟩

/-- the generator as a canonical point; needs `p` prime to speak of the group at all -/
def secpG' [Fact secp256k1.p.Prime] : APt secp256k1 :=
  ⟨some (secp256k1G.1.toNat, secp256k1G.2.1.toNat),
    valid_of_onCurve secp256k1 secp256k1_smooth
      ⟨⟨by decide +kernel, by decide +kernel⟩, ⟨by decide +kernel, by decide +kernel⟩, ⟨by decide, by decide +kernel⟩⟩
      secp256k1_G_on_curve⟩

set_option maxRecDepth 100000 in
/-- all of `Params` for secp256k1 is computed, except that `n` is prime -/
theorem secp256k1_params [Fact secp256k1.p.Prime] (hn : secp256k1N.Prime) : Params secp256k1 secp256k1N secpG' where
  p34 := by decide +kernel
  disc := by decide +kernel
  b_nonsquare := secp256k1_7_nonresidue
  n_prime := hn
  n_odd := by decide +kernel
  n_le := by decide +kernel
  g_finite := by simp [secpG']
  nG := secp256k1_nG

/-- secp256k1 with the primality of `p` and of `n` kept as hypotheses: "p prime, n prime, #E = n" -/
theorem secp256k1_ec_laws' [Fact secp256k1.p.Prime] (hn : secp256k1N.Prime) (hc : CardEq secp256k1 secp256k1N) :
    EcLaws (pyEcOps secp256k1 secp256k1N secpG') := py_ec_laws secp256k1 (secp256k1_params hn) hc

instance secp256k1_p_fact : Fact secp256k1.p.Prime := ⟨secp256k1_p_prime⟩

/-- the generator of secp256k1 as a canonical point -/
def secpG : APt secp256k1 := secpG'

/-- **secp256k1**: if the curve has exactly `n` points, then the record built from key.py's own arithmetic
    satisfies `EcLaws` — the hypothesis of the C07 / C08 theorems. Nothing else about secp256k1 is assumed. -/
theorem secp256k1_ec_laws (hc : CardEq secp256k1 secp256k1N) : EcLaws (pyEcOps secp256k1 secp256k1N secpG) :=
  secp256k1_ec_laws' secp256k1_n_prime hc

/-- the one remaining assumption follows from ANY bound `#E(𝔽_p) < 2n` — in particular from Hasse's theorem
    (`#E ≤ p + 1 + 2√p < 2n`), which Mathlib does not contain -/
theorem secp256k1_card_of_bound (h : Nat.card (W secp256k1).toAffine.Point < 2 * secp256k1N) :
    CardEq secp256k1 secp256k1N := cardEq_of_lt secp256k1 (secp256k1_params secp256k1_n_prime) h

/-- **`G` has order exactly `n`** in the group of secp256k1 — unconditionally -/
theorem secp256k1_G_order : addOrderOf (ι secp256k1 secpG) = secp256k1N :=
  addOrderOf_g secp256k1 (secp256k1_params secp256k1_n_prime)

/-- key.py's `add` on secp256k1 is the group law — unconditionally, for all valid Jacobian representatives -/
theorem secp256k1_add {P Q : JPt} (hP : Valid secp256k1 P) (hQ : Valid secp256k1 Q) :
    pt secp256k1 (add secp256k1 P Q) = pt secp256k1 P + pt secp256k1 Q ∧ Valid secp256k1 (add secp256k1 P Q) :=
  pt_add secp256k1 hP hQ

/-- key.py's `mul([(G, k)])` on secp256k1 is `k • G` for every 256-bit scalar — unconditionally -/
theorem secp256k1_mul_G (k : ℕ) (hk : k < 2 ^ 256) :
    pt secp256k1 (mul secp256k1 [(secp256k1G, k)]) = k • pt secp256k1 secp256k1G :=
  pt_mul_single secp256k1 secpG.2 k hk

/-- one `EcLaws`-relative theorem of C08 at the record built from key.py's arithmetic: py's `ec_pubkey_negate`
    (re-parsing with the other parity byte) equals the libsecp256k1 contract, on secp256k1, assuming only #E = n -/
theorem py_negate_matches_contract_secp256k1 (hc : CardEq secp256k1 secp256k1N) (pub : Bytes) :
    PySecp.ecPubkeyNegate (pyEcOps secp256k1 secp256k1N secpG) pub =
      Spec.Libsecp.ec_pubkey_negate (pyEcOps secp256k1 secp256k1N secpG) pub :=
  eq_pubkey_negate _ (secp256k1_ec_laws hc) (show secp256k1.p ≤ 2 ^ 256 by decide +kernel) pub

-- `CardEq secp256k1 secp256k1N` (#E(𝔽_p) = n) is PROVED in Props/C08Z.lean (`secp256k1_card_eq`, elementary counting — no Hasse bound), and with it `secp256k1_ec_laws_unconditional`.

/-! ### non-vacuity -/

/-- the toy group, as key.py computes it: `3·G = (35, 21)`, `31·G = ∞`, `30·G = −G` -/
example : affineXY toy43 (mul toy43 [(toy43G, 3)]) = some (some (35, 21)) ∧
    affineXY toy43 (mul toy43 [(toy43G, 31)]) = some none ∧
    affineXY toy43 (mul toy43 [(toy43G, 30)]) = some (some (2, 31)) := by decide +kernel
/-- every branch of `add` on the toy curve: infinity, doubling through the `z = 1` path, opposite points, generic -/
example : add toy43 inf toy43G = toy43G ∧ add toy43 toy43G toy43G = double toy43 toy43G ∧
    add toy43 toy43G (negate toy43 toy43G) = inf ∧
    affine toy43 (add toy43 (double toy43 toy43G) (double toy43 (double toy43 toy43G))) = some (some (29, 31, 1)) := by
  decide +kernel
example : Valid toy43 toy43G := toyG.2
example : modinv 3 43 = some 29 ∧ modinv 0 43 = none ∧ modinv 43 43 = none := by decide +kernel
example : jacobiSymbol 7 43 = some (-1) ∧ jacobiSymbol 8 43 = some (-1) ∧ jacobiSymbol 15 43 = some 1 := by decide +kernel
example : liftX toy43 2 = some (some (2, 12, 1)) ∧ liftX toy43 3 = some none := by decide +kernel
set_option maxRecDepth 100000 in
/-- secp256k1: `(n−1)·G = −G` as the model computes it -/
example : affine secp256k1 (mul secp256k1 [(secp256k1G, secp256k1N - 1)]) = some (some (negate secp256k1 secp256k1G)) := by
  decide +kernel
example : EcLaws (pyEcOps toy43 toy43N toyG) := toy_ec_laws

end Embit.Props.C08Y
