import EmbitModel.Proofs.ViewCompose
import EmbitModel.Props.C05
/-
  C05X — the composed refinement theorem of C05: for every byte string `b` that `PSBT.parse` (KEEP_ALL) accepts,
  embedded at any offset of a stream (`buf = pre ++ (b ++ post)`), the streaming `PSBTView` opened at that offset
  succeeds and every observation through it — counts, version, `vin(i)` / `vout(j)`, locktime, tx version,
  `input(i)` / `output(j)` — equals the corresponding observation of the in-memory PSBT.

  `Model.View` is the model of psbtview.py and `Model.Psbt` the model of psbt.py (tied to /repo by the
  correspondence checks of C04 / C05). The statements hold for every key validator `ko`, every hash `sha`,
  every prefix `pre` and suffix `post`.

  The two theorems are named `_partial` because each excludes, by an explicit decidable hypothesis on the pairs
  of the global scope (`globalKVs b`), a region where the view and the in-memory parser really differ; both
  regions are outside the respective PSBT version's format, and a witness (by `decide`) is given for each:

  * version 0 (`view_refines_parse_v0_partial`): no global pair with key 04 or 05. These key types are not
    defined for a version-0 PSBT; `PSBT.parse` keeps such a pair in `unknown`, but the view's scan does not look
    at the version and reads the value as the input / output count (refusing the stream when the pair comes
    before the unsigned transaction or is not a CompactSize, and OVERRIDING the transaction's count when it comes
    after it) — see `v0_count_key_misread`.
  * version 2 (`view_refines_parse_v2_partial`): the global scope carries both count keys 04 and 05. Without
    them `PSBT.parse` builds a PSBT with no scopes of that kind while the view refuses the stream
    (`None in [..., num_inputs, num_outputs]`); such a stream is not a valid PSBTv2 (BIP370 requires both) —
    see `v2_missing_count_refused`.

  Remark on defaults (version 2): for a missing global tx-version field (02) the view's `tx_version` answers 2,
  exactly like the in-memory `PSBT.tx` (`self.tx_version if not None else 2`) — since the C01X `fix:` commit; before
  it the view answered 0, so `PSBTView.sighash` and `PSBT.sighash` hashed different transactions (finding C01X-D46,
  see Props/C01X.lean). For a missing locktime (03) both sides default to 0. For a missing sequence field
  (10) the view's `vin(i)` defaults to 0xffffffff exactly like `InputScope.vin` (`InScope.vin`).
-/
set_option linter.unusedSimpArgs false
set_option linter.unusedVariables false
namespace Embit.Props.C05X
open Embit Model Spec.Wire

/-- the pairs of the global scope of a PSBT byte string (what lies between the magic and the first separator) -/
def globalKVs (b : Bytes) : List KV :=
  match readKVs (b.drop 5) with
  | some (g, _) => g
  | none => []

theorem globalKVs_eq (g : List KV) (rest : Bytes) (hw : ∀ kv ∈ g, KVWF kv) :
    globalKVs (psbtMagic ++ (writeKVs g ++ rest)) = g := by
  have : (psbtMagic ++ (writeKVs g ++ rest)).drop 5 = writeKVs g ++ rest := by simp [psbtMagic]
  simp [globalKVs, this, readKVs_write g rest hw]

/-! ### (A) version 0 -/

/-- version 0: the view over any stream that embeds an accepted PSBT (global scope with the unsigned transaction
    and without the PSBTv2 count keys) is observationally equal to the parsed PSBT; `t` is the PSBT's transaction -/
theorem view_refines_parse_v0_partial (ko : KeyOps) (sha : Bytes → Bytes) (pre post b : Bytes) (p : Psbt)
    (h : Psbt.parse ko sha 0 b = some p)
    (htx : ∃ x, ([0x00], x) ∈ globalKVs b)
    (hcnt : ∀ kv ∈ globalKVs b, kv.1 ≠ [0x04] ∧ kv.1 ≠ [0x05]) :
    ∃ (t : Tx) (v : View), p.tx = some t ∧ View.open (pre ++ (b ++ post)) pre.length = some v
      ∧ v.numIn = p.inputs.length ∧ v.numOut = p.outputs.length ∧ v.version = p.version
      ∧ (∀ i, View.vin (pre ++ (b ++ post)) v i = t.vin[i]?)
      ∧ (∀ j, View.vout (pre ++ (b ++ post)) v j = t.vout[j]?)
      ∧ View.getLocktime (pre ++ (b ++ post)) v = some t.locktime
      ∧ View.getTxVersion (pre ++ (b ++ post)) v = some t.version
      ∧ (∀ i, View.input ko sha (pre ++ (b ++ post)) v i 0 = p.inputs[i]?)
      ∧ (∀ j, View.output ko (pre ++ (b ++ post)) v j = p.outputs[j]?) := by
  obtain ⟨g, kin, kout, tx, unk, gs, eb, wg, ws, hgf, hpu, hver, etv, elt, _, _, lki, lko, lni, lno, fi, fo, ftx⟩ :=
    parse_decomp ko sha b p h
  have hgk : globalKVs b = g := by rw [eb]; exact globalKVs_eq g _ wg
  rw [hgk] at htx hcnt
  obtain ⟨x0, hx0⟩ := htx
  -- the global transaction
  obtain ⟨t, rfl⟩ : ∃ t, tx = some t := by
    rcases (globalFold_spec g _ _ _ _ _ _ hgf).2.2.2.2 _ hx0 with ⟨_, t, ht, _⟩ | ⟨e, _⟩ | ⟨_, e, _⟩
    · exact ⟨t, ht⟩
    · simp at e
    · simp at e
  have hv2 : p.version ≠ some 2 := by
    rcases hver with ⟨_, e⟩ | ⟨e, _⟩
    · simp at e
    · exact e
  obtain ⟨ptx, lnt, lot⟩ := ftx t rfl
  obtain ⟨g1, w, g2, eg, n1, n2, hparse, hu⟩ := globalFold_split g _ _ _ _ _ hgf
  have hwf : WF t := (Props.C03.parse_sound w t hparse).1
  have hser : Tx.ser t = w := Props.C03.reencode w t hparse
  subst hser
  have hc1 : ∀ kv ∈ g1, kv.1 ≠ [0x00] ∧ kv.1 ≠ [0x04] ∧ kv.1 ≠ [0x05] := fun kv hkv =>
    ⟨n1 kv hkv, hcnt kv (by simp [eg, hkv])⟩
  have hc2 : ∀ kv ∈ g2, kv.1 ≠ [0x00] ∧ kv.1 ≠ [0x04] ∧ kv.1 ≠ [0x05] := fun kv hkv =>
    ⟨n2 kv hkv, hcnt kv (by simp [eg, hkv])⟩
  obtain ⟨gv1, gv2⟩ := globalFold_ver g _ _ _ _ _ _ hgf
  have hverfold : lastFold [0xfb] (fun v => some (ofLe v)) none g = p.version :=
    lastFold_char _ _ _ g none (fun kv hkv hk => (gv1 kv hkv hk).symm) (fun hh => (gv2 hh).symm)
  have hv1 : lastFold [0xfb] (fun v => some (ofLe v)) none g1 ≠ some 2 := by
    rcases lastFold_mem [0xfb] (fun v => some (ofLe v)) g1 none with e | ⟨kv, hkv, hk, e⟩
    · rw [e]; simp
    · rw [e, ← gv1 kv (by simp [eg, hkv]) hk]; exact hv2
  -- the buffer
  generalize hbuf : pre ++ (b ++ post) = buf
  have hb1 : buf = (pre ++ psbtMagic) ++ (writeKVs g ++ ((kin ++ kout).flatMap writeKVs ++ post)) := by
    rw [← hbuf, eb]; simp [List.append_assoc]
  have hb2 : buf = (pre ++ psbtMagic ++ writeKVs g) ++ ((kin ++ kout).flatMap writeKVs ++ post) := by
    rw [hb1]; simp [List.append_assoc]
  have hlen : g.length + 1 ≤ buf.length := by
    have := writeKVs_length g
    rw [hb1]; simp only [List.length_append]; omega
  obtain ⟨P, Q, gx, eP, hopen, hscan⟩ := viewScan_v0 buf (pre ++ psbtMagic) _ g1 g2 t hwf hu
    (by rw [hb1, eg]) (by rw [← eg]; exact wg) hc1 hc2 hv1 (buf.length + 1)
    (by rw [eg] at hlen; simp at hlen; omega)
  rw [← eg, hverfold] at hscan
  have hpm : (pre ++ psbtMagic).length = pre.length + 5 := by simp [psbtMagic]
  rw [hpm] at hscan
  have hopen' : GTx.open (P ++ (Tx.ser t ++ Q)) P.length = some gx := by rw [← eP]; exact hopen
  obtain ⟨hlock, hvers⟩ := GTx.locktime_spec P Q t hwf hu gx hopen'
  have hvin := GTx.vin_spec P Q t hwf hu gx hopen'
  have hvout := GTx.vout_spec P Q t hwf hu gx hopen'
  rw [← eP] at hlock hvers hvin hvout
  have hmagic : readAt buf pre.length 5 = psbtMagic := by
    rw [hb1]; simp [readAt, psbtMagic, List.append_assoc]
  have hview : View.open buf pre.length
      = some { offset := pre.length, firstScope := pre.length + 5 + (writeKVs g).length,
               numIn := t.vin.length, numOut := t.vout.length, version := p.version,
               tx := some gx, txVersion := some t.version, locktime := some t.locktime } := by
    simp [View.open, hmagic, hscan, hlock, hvers]
  refine ⟨t, _, ptx, hview, lnt.symm, lot.symm, rfl, ?_, ?_, ?_, ?_, ?_, ?_⟩
  · intro i
    by_cases hi : i ≥ t.vin.length
    · simp [View.vin, hi, List.getElem?_eq_none hi]
    · simp [View.vin, hi, hvin i]
  · intro j
    by_cases hj : j ≥ t.vout.length
    · simp [View.vout, hj, List.getElem?_eq_none hj]
    · simp [View.vout, hj, hvout j]
  · simp [View.getLocktime]
  · simp [View.getTxVersion]
  · intro i
    by_cases hi : i ≥ t.vin.length
    · have : p.inputs[i]? = none := List.getElem?_eq_none (by omega)
      simp [View.input, hi, this]
    · have hi' : i < t.vin.length := by omega
      obtain ⟨kvs, s, a1, a2, a3⟩ := fi i (by omega)
      have hk : (kin ++ kout)[i]? = some kvs := by
        rw [List.getElem?_append_left (by omega)]; exact a1
      have hvi : GTx.vin buf gx i = some t.vin[i] := by rw [hvin i, List.getElem?_eq_getElem hi']
      rw [hb2] at hvi ⊢
      rw [View.input_v0 ko sha 0 _ post (kin ++ kout) _ i kvs gx t.vin[i] ws (by simp [psbtMagic]; omega)
        (by simp; omega) hi' hk rfl hvi, a2]
      rw [← a3]
      simp [seedIn, List.getElem?_eq_getElem hi']
  · intro j
    by_cases hj : j ≥ t.vout.length
    · have : p.outputs[j]? = none := List.getElem?_eq_none (by omega)
      simp [View.output, hj, this]
    · have hj' : j < t.vout.length := by omega
      obtain ⟨kvs, s, a1, a2, a3⟩ := fo j (by omega)
      have hk : (kin ++ kout)[t.vin.length + j]? = some kvs := by
        rw [List.getElem?_append_right (by omega)]
        rw [show t.vin.length + j - kin.length = j by omega]; exact a1
      have hvo : GTx.vout buf gx j = some t.vout[j] := by rw [hvout j, List.getElem?_eq_getElem hj']
      rw [hb2] at hvo ⊢
      rw [View.output_v0 ko _ post (kin ++ kout) _ j kvs gx t.vout[j] ws (by simp [psbtMagic]; omega)
        (by simp; omega) hj' hk rfl hvo, a2]
      rw [← a3]
      simp [seedOut, List.getElem?_eq_getElem hj']

/-! ### (B) version 2 -/

/-- version 2: the same for a PSBTv2 whose global scope carries both counts. `vin(i)` / `vout(j)` of the view are
    the transaction input / output the scope itself describes (`InputScope.vin` / `OutputScope.vout`); locktime and
    tx version are the stored global fields (defaults 0 and 2 — those of `PSBT.tx`, see the remark in the file header) -/
theorem view_refines_parse_v2_partial (ko : KeyOps) (sha : Bytes → Bytes) (pre post b : Bytes) (p : Psbt)
    (h : Psbt.parse ko sha 0 b = some p) (hv : p.version = some 2)
    (h4 : ∃ x, ([0x04], x) ∈ globalKVs b) (h5 : ∃ x, ([0x05], x) ∈ globalKVs b) :
    ∃ (v : View), View.open (pre ++ (b ++ post)) pre.length = some v
      ∧ v.numIn = p.inputs.length ∧ v.numOut = p.outputs.length ∧ v.version = p.version
      ∧ (∀ i, View.vin (pre ++ (b ++ post)) v i = (p.inputs[i]?).bind InScope.vin)
      ∧ (∀ j, View.vout (pre ++ (b ++ post)) v j = (p.outputs[j]?).bind OutScope.vout)
      ∧ View.getLocktime (pre ++ (b ++ post)) v = some (p.locktime.getD 0)
      ∧ View.getTxVersion (pre ++ (b ++ post)) v = some (p.txVersion.getD 2)
      ∧ (∀ i, View.input ko sha (pre ++ (b ++ post)) v i 0 = p.inputs[i]?)
      ∧ (∀ j, View.output ko (pre ++ (b ++ post)) v j = p.outputs[j]?) := by
  obtain ⟨g, kin, kout, tx, unk, gs, eb, wg, ws, hgf, hpu, hver, etv, elt, _, _, lki, lko, lni, lno, fi, fo, ftx⟩ :=
    parse_decomp ko sha b p h
  have hgk : globalKVs b = g := by rw [eb]; exact globalKVs_eq g _ wg
  rw [hgk] at h4 h5
  have htx : tx = none := by
    rcases hver with ⟨_, e⟩ | ⟨e, _⟩
    · exact e
    · exact absurd hv e
  subst htx
  have hunk : unk = g.filter notTxVer := by
    have := globalFold_unk g _ _ _ _ _ _ hgf; simpa using this
  have hnd := globalFold_nodup g none none [] _ _ _ hgf (by simp)
  have h00 : ∀ kv ∈ g, kv.1 ≠ [0x00] := by
    intro kv hkv
    rcases (globalFold_spec g _ _ _ _ _ _ hgf).2.2.2.2 kv hkv with ⟨_, t, ht, _⟩ | ⟨e, _⟩ | ⟨_, e, _⟩
    · simp at ht
    · rw [e]; decide
    · exact e
  have hv' : (p.version == some 2) = true := by rw [hv]; rfl
  rw [hv'] at hpu
  obtain ⟨q1, q2, q3, q4, q5⟩ := parseUnknowns_fold ko unk _ gs hpu
  simp only [gstate0, Option.map_none] at q1 q2 q3 q4
  have k2 : ∀ kv : KV, kv.1 = [0x02] → notTxVer kv = true := fun kv e => by simp [notTxVer, e]
  have k3 : ∀ kv : KV, kv.1 = [0x03] → notTxVer kv = true := fun kv e => by simp [notTxVer, e]
  have k4 : ∀ kv : KV, kv.1 = [0x04] → notTxVer kv = true := fun kv e => by simp [notTxVer, e]
  have k5 : ∀ kv : KV, kv.1 = [0x05] → notTxVer kv = true := fun kv e => by simp [notTxVer, e]
  rw [hunk, lastFold_filter _ _ _ k4] at q3
  rw [hunk, lastFold_filter _ _ _ k5] at q4
  have hparse : ∀ kv ∈ g, kv.1 = [0x04] ∨ kv.1 = [0x05] → (parseAll Compact.read kv.2).isSome := by
    intro kv hkv hk
    apply q5 kv _ hk
    rw [hunk]; apply List.mem_filter.mpr ⟨hkv, ?_⟩
    rcases hk with e | e
    · exact k4 kv e
    · exact k5 kv e
  -- the counts
  obtain ⟨x4, hx4⟩ := h4
  obtain ⟨x5, hx5⟩ := h5
  obtain ⟨nin, hnin⟩ : ∃ n, gs.nin = some n := by
    obtain ⟨kv, hkv, hk, e⟩ := lastFold_occ [0x04] (parseAll Compact.read) g none ⟨_, hx4, rfl⟩
    rw [q3, e]; exact Option.isSome_iff_exists.mp (hparse kv hkv (Or.inl hk))
  obtain ⟨nout, hnout⟩ : ∃ n, gs.nout = some n := by
    obtain ⟨kv, hkv, hk, e⟩ := lastFold_occ [0x05] (parseAll Compact.read) g none ⟨_, hx5, rfl⟩
    rw [q4, e]; exact Option.isSome_iff_exists.mp (hparse kv hkv (Or.inr hk))
  rw [hnin] at lni q3; rw [hnout] at lno q4
  simp only [Option.getD_some] at lni lno
  obtain ⟨gv1, gv2⟩ := globalFold_ver g _ _ _ _ _ _ hgf
  have hverfold : lastFold [0xfb] (fun v => some (ofLe v)) none g = p.version :=
    lastFold_char _ _ _ g none (fun kv hkv hk => (gv1 kv hkv hk).symm) (fun hh => (gv2 hh).symm)
  -- the buffer
  generalize hbuf : pre ++ (b ++ post) = buf
  have hb1 : buf = (pre ++ psbtMagic) ++ (writeKVs g ++ ((kin ++ kout).flatMap writeKVs ++ post)) := by
    rw [← hbuf, eb]; simp [List.append_assoc]
  have hb2 : buf = (pre ++ psbtMagic ++ writeKVs g) ++ ((kin ++ kout).flatMap writeKVs ++ post) := by
    rw [hb1]; simp [List.append_assoc]
  have hlen : g.length + 1 ≤ buf.length := by
    have := writeKVs_length g
    rw [hb1]; simp only [List.length_append]; omega
  have hscan := viewScan_v2 buf (pre ++ psbtMagic) _ g hb1 wg h00 hparse (buf.length + 1) (by omega)
  have hpm : (pre ++ psbtMagic).length = pre.length + 5 := by simp [psbtMagic]
  rw [hverfold, hv, ← q3, ← q4, hpm] at hscan
  have hmagic : readAt buf pre.length 5 = psbtMagic := by
    rw [hb1]; simp [readAt, psbtMagic, List.append_assoc]
  have hview : View.open buf pre.length
      = some { offset := pre.length, firstScope := pre.length + 5 + (writeKVs g).length,
               numIn := nin, numOut := nout, version := some 2,
               tx := none, txVersion := none, locktime := none } := by
    simp [View.open, hmagic, hscan]
  -- global fields looked up by the view
  have hval : ∀ key : Bytes, key ≠ [] → View.getValue buf key (pre.length + 5) = some (lookup key g) := by
    intro key hkey
    rw [hb1]
    apply valueAt_spec _ key hkey g (pre ++ psbtMagic) _ _ wg hpm.symm
    rw [← hb1]; omega
  have hlt : p.locktime = (lookup [0x03] g).map ofLe := by
    rw [elt, q2]; exact v2_field_lookup g unk hunk hnd [0x03] k3 ofLe
  have htv : p.txVersion = (lookup [0x02] g).map ofLe := by
    rw [etv, q1]; exact v2_field_lookup g unk hunk hnd [0x02] k2 ofLe
  refine ⟨_, hview, lni.symm, lno.symm, hv.symm, ?_, ?_, ?_, ?_, ?_, ?_⟩
  · intro i
    by_cases hi : i ≥ nin
    · have : p.inputs[i]? = none := List.getElem?_eq_none (by omega)
      simp [View.vin, hi, this]
    · have hi' : i < nin := by omega
      obtain ⟨kvs, s, a1, a2, a3⟩ := fi i (by omega)
      have hk : (kin ++ kout)[i]? = some kvs := by
        rw [List.getElem?_append_left (by omega)]; exact a1
      rw [hb2, View.vin_v2 ko sha 0 _ post (kin ++ kout) _ i kvs s ws (by simp [psbtMagic]; omega)
        (by simp; omega) hi' hk rfl (by simpa [seedIn] using a3), a2]
      rfl
  · intro j
    by_cases hj : j ≥ nout
    · have : p.outputs[j]? = none := List.getElem?_eq_none (by omega)
      simp [View.vout, hj, this]
    · have hj' : j < nout := by omega
      obtain ⟨kvs, s, a1, a2, a3⟩ := fo j (by omega)
      have hk : (kin ++ kout)[nin + j]? = some kvs := by
        rw [List.getElem?_append_right (by omega)]
        rw [show nin + j - kin.length = j by omega]; exact a1
      rw [hb2, View.vout_v2 ko _ post (kin ++ kout) _ j kvs s ws (by simp [psbtMagic]; omega)
        (by simp; omega) hj' hk rfl (by simpa [seedOut] using a3), a2]
      rfl
  · simp only [View.getLocktime, hval [0x03] (by decide), hlt]
    cases lookup [0x03] g <;> rfl
  · simp only [View.getTxVersion, hval [0x02] (by decide), htv]
    cases lookup [0x02] g <;> rfl
  · intro i
    by_cases hi : i ≥ nin
    · have : p.inputs[i]? = none := List.getElem?_eq_none (by omega)
      simp [View.input, hi, this]
    · have hi' : i < nin := by omega
      obtain ⟨kvs, s, a1, a2, a3⟩ := fi i (by omega)
      have hk : (kin ++ kout)[i]? = some kvs := by
        rw [List.getElem?_append_left (by omega)]; exact a1
      rw [hb2, View.input_v2 ko sha 0 _ post (kin ++ kout) _ i kvs ws (by simp [psbtMagic]; omega)
        (by simp; omega) hi' hk rfl, a2, ← a3]
      simp [seedIn]
  · intro j
    by_cases hj : j ≥ nout
    · have : p.outputs[j]? = none := List.getElem?_eq_none (by omega)
      simp [View.output, hj, this]
    · have hj' : j < nout := by omega
      obtain ⟨kvs, s, a1, a2, a3⟩ := fo j (by omega)
      have hk : (kin ++ kout)[nin + j]? = some kvs := by
        rw [List.getElem?_append_right (by omega)]
        rw [show nin + j - kin.length = j by omega]; exact a1
      rw [hb2, View.output_v2 ko _ post (kin ++ kout) _ j kvs ws (by simp [psbtMagic]; omega)
        (by simp; omega) hj' hk rfl, a2, ← a3]
      simp [seedOut]

/-! ### the hypotheses of (A), read off the parsed object -/

/-- for a parsed PSBT that is not version 2 and whose `unknown` map has no key 04 / 05, the hypotheses of
    `view_refines_parse_v0_partial` hold -/
theorem v0_hyps_of_parsed (ko : KeyOps) (sha : Bytes → Bytes) (b : Bytes) (p : Psbt)
    (h : Psbt.parse ko sha 0 b = some p) (hver : p.version ≠ some 2)
    (hunk : ∀ kv ∈ p.unknown, kv.1 ≠ [0x04] ∧ kv.1 ≠ [0x05]) :
    (∃ x, ([0x00], x) ∈ globalKVs b) ∧ ∀ kv ∈ globalKVs b, kv.1 ≠ [0x04] ∧ kv.1 ≠ [0x05] := by
  obtain ⟨g, kin, kout, tx, unk, gs, eb, wg, ws, hgf, hpu, hv, etv, elt, _, eunk, lki, lko, lni, lno, fi, fo, ftx⟩ :=
    parse_decomp ko sha b p h
  have hgk : globalKVs b = g := by rw [eb]; exact globalKVs_eq g _ wg
  rw [hgk]
  obtain ⟨t, rfl⟩ : ∃ t, tx = some t := by
    rcases hv with ⟨e, _⟩ | ⟨_, e⟩
    · exact absurd e hver
    · exact e
  obtain ⟨g1, w, g2, eg, _, _, _, _⟩ := globalFold_split g _ _ _ _ _ hgf
  refine ⟨⟨w, by simp [eg]⟩, ?_⟩
  have hfilter : unk = g.filter notTxVer := by
    have := globalFold_unk g _ _ _ _ _ _ hgf; simpa using this
  have hnd := globalFold_nodup g none none [] _ _ _ hgf (by simp)
  have hfalse : (p.version == some 2) = false := by simp [hver]
  rw [hfalse] at hpu
  have u8 := (parseUnknowns_spec ko false unk _ gs hnd hpu).2.2.2.2.2.2.2
  have key : ∀ kv ∈ g, kv.1 = [0x04] ∨ kv.1 = [0x05] → False := by
    intro kv hkv hk
    have hm : kv ∈ unk := by
      rw [hfilter]; apply List.mem_filter.mpr ⟨hkv, ?_⟩
      rcases hk with e | e <;> simp [notTxVer, e]
    rcases u8 kv hm with ⟨x, d, e1, _⟩ | ⟨c, _⟩ | ⟨c, _⟩ | ⟨c, _⟩ | ⟨c, _⟩ | e1
    · rcases hk with e | e <;> rw [e] at e1 <;> simp at e1
    · simp at c
    · simp at c
    · simp at c
    · simp at c
    · rw [← eunk] at e1
      have := hunk kv e1
      rcases hk with e | e
      · exact this.1 e
      · exact this.2 e
  intro kv hkv
  exact ⟨fun e => key kv hkv (Or.inl e), fun e => key kv hkv (Or.inr e)⟩

/-- (A) with the hypotheses stated on the parsed object -/
theorem view_refines_parsed_v0_partial (ko : KeyOps) (sha : Bytes → Bytes) (pre post b : Bytes) (p : Psbt)
    (h : Psbt.parse ko sha 0 b = some p) (hver : p.version ≠ some 2)
    (hunk : ∀ kv ∈ p.unknown, kv.1 ≠ [0x04] ∧ kv.1 ≠ [0x05]) :
    ∃ (t : Tx) (v : View), p.tx = some t ∧ View.open (pre ++ (b ++ post)) pre.length = some v
      ∧ v.numIn = p.inputs.length ∧ v.numOut = p.outputs.length ∧ v.version = p.version
      ∧ (∀ i, View.vin (pre ++ (b ++ post)) v i = t.vin[i]?)
      ∧ (∀ j, View.vout (pre ++ (b ++ post)) v j = t.vout[j]?)
      ∧ View.getLocktime (pre ++ (b ++ post)) v = some t.locktime
      ∧ View.getTxVersion (pre ++ (b ++ post)) v = some t.version
      ∧ (∀ i, View.input ko sha (pre ++ (b ++ post)) v i 0 = p.inputs[i]?)
      ∧ (∀ j, View.output ko (pre ++ (b ++ post)) v j = p.outputs[j]?) := by
  obtain ⟨h1, h2⟩ := v0_hyps_of_parsed ko sha b p h hver hunk
  exact view_refines_parse_v0_partial ko sha pre post b p h h1 h2

/-! ### witnesses: outside the hypotheses the view and the parser really differ -/

def exTx : Tx :=
  { C03.exLegacy with vin := [{ txid := List.replicate 32 7, vout := 1, scriptSig := [], sequence := 0, witness := [] }] }

/-- a version-0 PSBT (one input, one output) with an extra global pair `04 -> 02` behind the transaction -/
def exV0Count : Bytes :=
  psbtMagic ++ writeKVs [([0x00], Tx.ser exTx), ([0x04], [0x02])] ++ writeKVs [] ++ writeKVs []

/-- the parser keeps the pair as unknown (one input); the view reads it as the input count (two inputs) -/
theorem v0_count_key_misread :
    (Psbt.parse C04.trivialKo id 0 exV0Count).map (fun p => (p.inputs.length, p.unknown)) = some (1, [([0x04], [0x02])])
    ∧ (View.open exV0Count 0).map (·.numIn) = some 2 := by decide

/-- the same pair in front of the transaction: the parser accepts, the view refuses the stream -/
theorem v0_count_key_refused :
    (Psbt.parse C04.trivialKo id 0
      (psbtMagic ++ writeKVs [([0x04], [0x02]), ([0x00], Tx.ser exTx)] ++ writeKVs [] ++ writeKVs [])).isSome = true
    ∧ View.open (psbtMagic ++ writeKVs [([0x04], [0x02]), ([0x00], Tx.ser exTx)] ++ writeKVs [] ++ writeKVs []) 0
        = none := by decide

/-- a version-2 global scope without count fields: the parser builds a PSBT without scopes, the view refuses -/
theorem v2_missing_count_refused :
    (Psbt.parse C04.trivialKo id 0 (psbtMagic ++ writeKVs [([0xfb], [2, 0, 0, 0])])).map
        (fun p => (p.version, p.inputs.length, p.outputs.length)) = some (some 2, 0, 0)
    ∧ View.open (psbtMagic ++ writeKVs [([0xfb], [2, 0, 0, 0])]) 0 = none := by decide

/-! ### non-vacuity -/

/-- the hypotheses of (A) hold for the small version-0 PSBT of C04 (one input with a sighash type and an
    unknown key, one output) -/
example : (Psbt.parse C04.trivialKo id 0 C04.exPsbtBytes).isSome = true
    ∧ (∃ x, ([0x00], x) ∈ globalKVs C04.exPsbtBytes)
    ∧ ∀ kv ∈ globalKVs C04.exPsbtBytes, kv.1 ≠ [0x04] ∧ kv.1 ≠ [0x05] := by
  have hg : globalKVs C04.exPsbtBytes = [([0x00], Tx.ser exTx)] := by decide
  refine ⟨by decide, ⟨Tx.ser exTx, by rw [hg]; simp⟩, ?_⟩
  rw [hg]; intro kv hkv; simp at hkv; subst hkv; decide

/-- … so (A) applies to it at a non-zero stream offset with trailing bytes -/
example : ∃ (p : Psbt) (t : Tx) (v : View), Psbt.parse C04.trivialKo id 0 C04.exPsbtBytes = some p ∧ p.tx = some t
    ∧ View.open ([1, 2, 3] ++ (C04.exPsbtBytes ++ [9])) 3 = some v ∧ v.numIn = p.inputs.length
    ∧ (∀ i, View.input C04.trivialKo id ([1, 2, 3] ++ (C04.exPsbtBytes ++ [9])) v i 0 = p.inputs[i]?) := by
  have hg : globalKVs C04.exPsbtBytes = [([0x00], Tx.ser exTx)] := by decide
  obtain ⟨p, hp⟩ := Option.isSome_iff_exists.mp (show (Psbt.parse C04.trivialKo id 0 C04.exPsbtBytes).isSome = true by decide)
  obtain ⟨t, v, a1, a2, a3, _, _, _, _, _, _, a10, _⟩ :=
    view_refines_parse_v0_partial C04.trivialKo id [1, 2, 3] [9] C04.exPsbtBytes p hp
      ⟨Tx.ser exTx, by rw [hg]; simp⟩ (by rw [hg]; intro kv hkv; simp at hkv; subst hkv; decide)
  exact ⟨p, t, v, hp, a1, a2, a3, a10⟩

/-- a small PSBTv2: tx version, both counts, version; one input (txid, vout, no sequence), one output -/
def exV2Bytes : Bytes :=
  psbtMagic ++ writeKVs [([0x02], [2, 0, 0, 0]), ([0x04], [1]), ([0x05], [1]), ([0xfb], [2, 0, 0, 0])]
    ++ writeKVs [([0x0e], List.replicate 32 7), ([0x0f], [1, 0, 0, 0])]
    ++ writeKVs [([0x03], [0x88, 0x13, 0, 0, 0, 0, 0, 0]), ([0x04], [0x6a])]

/-- the hypotheses of (B) hold for it -/
example : (Psbt.parse C04.trivialKo id 0 exV2Bytes).map (·.version) = some (some 2)
    ∧ (∃ x, ([0x04], x) ∈ globalKVs exV2Bytes) ∧ (∃ x, ([0x05], x) ∈ globalKVs exV2Bytes) := by
  have hg : globalKVs exV2Bytes = [([0x02], [2, 0, 0, 0]), ([0x04], [1]), ([0x05], [1]), ([0xfb], [2, 0, 0, 0])] := by
    decide
  refine ⟨by decide, ⟨[1], by rw [hg]; simp⟩, ⟨[1], by rw [hg]; simp⟩⟩

/-- … and the view's `vin(0)` is the input the scope describes, with the default sequence -/
example : (View.open exV2Bytes 0).bind (fun v => View.vin exV2Bytes v 0)
    = some { txid := List.replicate 32 7, vout := 1, scriptSig := [], sequence := 0xffffffff, witness := [] } := by
  decide

-- write_to_eq_memory: see Props/C05Y.lean.

end Embit.Props.C05X
