import EmbitModel.Proofs.SigLawsSpec
import EmbitModel.Props.C02X
import EmbitModel.Driver.SignWith
/-
  C02Y — the hypothesis `SigLaws` of C02X discharged: for the environment `opsOf E hs fuel` (Model/SignWithOps.lean —
  the executable signer models of C07 and key models of C09 / C10 put together, over an ABSTRACT curve `E` and abstract
  hash functions) every signature `PSBT.sign_with` / `PSBTView.sign_with` adds verifies under the key it is filed under
  against the consensus digest, relative to the CURVE LAWS ALONE.

  Hypotheses of the validity theorems, all explicit:
    `L : EcLaws E`         the group / coordinate laws of C07 / C08,
    `hn : E.n ≤ 2^256`, `hp : E.p ≤ 2^256`   (as in Props/C07),
    `hinf : InfUnique E`   the one law the bridge to the curve record of C09 / C10 needs on top (`a·G` infinite ⇒ n ∣ a).
  No hypothesis about hash functions is needed for validity (only the taproot statement `tweak_is_bip341_output` uses the
  output length of the tagged hash, as Props/C09 does). The driver's environment IS `opsOf` over the executable
  secp256k1 and hashes (`driver_ops_eq`, by `rfl`), so the object corresponded with embit on every run is the object
  these theorems speak about. Since the second audit (A-1) that executable record is `Crypto.secpLawful` (no junk
  points), for which the curve hypotheses are theorems: Props/C02Z states the driver-level results unconditionally.
-/
set_option linter.unusedVariables false
namespace Embit.Props.C02Y
open Embit Model Model.SignWith

variable {E : Embit.EcOps}

/-! ### 1. the bridge between the two curve records -/

/-- the curve laws of the signature development (C07 / C08) imply the curve laws of the key development (C09 / C10)
    for the bridged record `toKeys E` — all sixteen fields — given the two size bounds and `InfUnique E` -/
theorem bridge_laws (L : Embit.EcLaws E) (hn : E.n ≤ 2 ^ 256) (hp : E.p ≤ 2 ^ 256) (hinf : InfUnique E) :
    Embit.Keys.EcLaws (toKeys E) := toKeys_laws L hn hp hinf

/-- the extra law is necessary: it follows from the key laws of the bridged record (it is one direction of their
    `mulG_inf`), so the bridge theorem holds EXACTLY when it holds -/
theorem bridge_needs_infUnique (K : Embit.Keys.EcLaws (toKeys E)) : InfUnique E := infUnique_of_keyLaws K

/-- the other direction of `mulG_inf` is a consequence of `Embit.EcLaws` alone -/
theorem zero_multiple_infinite (L : Embit.EcLaws E) (a : Nat) (h : a % E.n = 0) : E.xy (E.mul a E.g) = none :=
  xy_mul_of_mod L a h

/-! ### 2./3. `SigLaws` of the concrete environment -/

/-- **sigLaws_concrete** (the GOAL of Props/C02X): the environment built from the C07 signers and the C09 / C10 key
    models satisfies `SigLaws`, with `validSec` = `ec.PublicKey.parse` succeeds, ECDSA verification = strict SEC parse of
    the key + key.py's `verify_ecdsa` (strict DER, range, low-S, SEC 1 equation), Schnorr verification = key.py's
    `verify_schnorr` (= BIP340 verification, `schnorr_verifier_is_bip340`) -/
theorem sigLaws_concrete (L : Embit.EcLaws E) (hn : E.n ≤ 2 ^ 256) (hp : E.p ≤ 2 ^ 256) (hinf : InfUnique E)
    (hs : Hashes) (fuel : Nat) :
    SigLaws (opsOf E hs fuel) (validSecKey E) (ecdsaVerifySec E) (schnorrVerifyX E hs.H) where
  ecdsa_own := fun sk c m sig h => ecdsa_own_concrete hs fuel L hn hp hinf sk c m sig h
  ecdsa_entry := fun sk m sig pub hv h hc => ecdsa_entry_concrete hs fuel L hn hp hinf sk m sig pub hv h hc
  schnorr_ok := fun sk c m sig h => schnorr_ok_concrete hs fuel L hn hp sk c m sig h

/-- the set iteration orders of `opsOf` (insertion order) are permutations -/
theorem orderLaws_concrete (hs : Hashes) (fuel : Nat) : OrderLaws (opsOf E hs fuel) :=
  ⟨fun _ => List.Perm.refl _, fun _ => List.Perm.refl _⟩

/-- **added_sigs_valid_concrete**: C02X's validity theorem without the `SigLaws` hypothesis. Every slot content of the
    result of `PSBT.sign_with` (model `signWith` over `opsOf E hs fuel`) that is not the original content is a signature
    that verifies under the key it is filed under against the digest `PSBT.sighash` assigns to that input of the PSBT as
    handed in (= the consensus digest: `C02X.digest_*`), with the authorised flag appended — from the curve laws alone -/
theorem added_sigs_valid_concrete (L : Embit.EcLaws E) (hn : E.n ≤ 2 ^ 256) (hp : E.p ≤ 2 ^ 256) (hinf : InfUnique E)
    (hs : Hashes) (fuel : Nat) (signer : Signer (Embit.Keys.HDKey (toKeys E))) (auth : Option Nat)
    (p p' : Psbt) (n : Nat) (ws : List Write) (h : signWith (opsOf E hs fuel) signer auth p = some (p', n, ws))
    (i : Nat) (s s' : InScope) (hsi : p.inputs[i]? = some s) (hsi' : p'.inputs[i]? = some s')
    (hkeys : KeysValid (validSecKey E) s)
    (sl : Slot) (v : Bytes) (hv : slotValue s' sl = some v) (hnew : slotValue s sl ≠ some v) :
    ∃ u, s.utxo = some u ∧ C02.authorisedFlag auth s.sighashType (isTaprootSpk u.spk) ∧
      ValidWrite (ecdsaVerifySec E) (schnorrVerifyX E hs.H) (opsOf E hs fuel) s u
        (C02.effective auth s.sighashType (isTaprootSpk u.spk))
        (fun f leaf => psbtSighash hs.H.sha256 p i f leaf) (sl, v) :=
  C02X.added_sigs_valid (opsOf E hs fuel) (orderLaws_concrete hs fuel) (validSecKey E) (ecdsaVerifySec E)
    (schnorrVerifyX E hs.H) (sigLaws_concrete L hn hp hinf hs fuel) signer auth p p' n ws h i s s' hsi hsi' hkeys sl v hv
    hnew

/-- the same for `PSBTView.sign_with`: every signature written to the stream that was not in the PSBT verifies -/
theorem view_added_sigs_valid_concrete (L : Embit.EcLaws E) (hn : E.n ≤ 2 ^ 256) (hp : E.p ≤ 2 ^ 256)
    (hinf : InfUnique E) (hs : Hashes) (fuel : Nat) (signer : Signer (Embit.Keys.HDKey (toKeys E)))
    (auth : Option Nat) (p : Psbt) (b : Bytes) (n : Nat) (p' : Psbt) (ws : List Write)
    (h : viewSignWith (opsOf E hs fuel) signer auth p = some (b, n, p', ws))
    (i : Nat) (s s' : InScope) (hsi : p.inputs[i]? = some s) (hsi' : p'.inputs[i]? = some s')
    (hkeys : KeysValid (validSecKey E) s)
    (sl : Slot) (v : Bytes) (hv : slotValue s' sl = some v) (hnew : slotValue s sl ≠ some v) :
    ∃ u, s.utxo = some u ∧ C02.authorisedFlag auth s.sighashType (isTaprootSpk u.spk) ∧
      ValidWrite (ecdsaVerifySec E) (schnorrVerifyX E hs.H) (opsOf E hs fuel) s u
        (C02.effective auth s.sighashType (isTaprootSpk u.spk))
        (fun f leaf => psbtSighash hs.H.sha256 p i f leaf) (sl, v) :=
  C02X.view_added_sigs_valid (opsOf E hs fuel) (orderLaws_concrete hs fuel) (validSecKey E) (ecdsaVerifySec E)
    (schnorrVerifyX E hs.H) (sigLaws_concrete L hn hp hinf hs fuel) signer auth p b n p' ws h i s s' hsi hsi' hkeys sl v
    hv hnew

/-! ### the verifiers are the standards' verifiers -/

/-- the ECDSA verifier of the theorems above is SEC 1 §4.1.4 verification (`Spec.Ecdsa.verify`) of the message value
    under the strictly decoded SEC key (`Spec.KeyEnc.secDecode`: 02/03 ‖ X or 04 ‖ X ‖ Y on the curve, nothing else) and
    the strictly decoded signature (`Der.parse n true`: BIP66 by `C07.der_accepts_iff_bip66`, 1 ≤ r, s < n, low S) -/
theorem ecdsa_verifier_is_sec1 (pub msg sig : Bytes) :
    ecdsaVerifySec E pub msg sig = ecdsaVerifySpec E pub msg sig := ecdsaVerifySec_eq_spec pub msg sig

/-- the Schnorr verifier of the theorems above is BIP340 verification on a 32-byte key, 32-byte message and 64-byte
    signature (and `false` for any other lengths) -/
theorem schnorr_verifier_is_bip340 (L : Embit.EcLaws E) (H : HashOps) (xo msg sig : Bytes) :
    schnorrVerifyX E H xo msg sig =
      (decide (xo.length = 32 ∧ msg.length = 32 ∧ sig.length = 64) && Spec.Bip340.verify E H xo msg sig) :=
  schnorrVerifyX_eq_spec L H xo msg sig

/-- `SigLaws` with the verifiers written from the standards only -/
theorem sigLaws_standards (L : Embit.EcLaws E) (hn : E.n ≤ 2 ^ 256) (hp : E.p ≤ 2 ^ 256) (hinf : InfUnique E)
    (hs : Hashes) (fuel : Nat) :
    SigLaws (opsOf E hs fuel) (validSecKey E) (ecdsaVerifySpec E) (fun xo m sig => Spec.Bip340.verify E hs.H xo m sig) where
  ecdsa_own := fun sk c m sig h => by
    rw [← ecdsaVerifySec_eq_spec]; exact ecdsa_own_concrete hs fuel L hn hp hinf sk c m sig h
  ecdsa_entry := fun sk m sig pub hv h hc => by
    rw [← ecdsaVerifySec_eq_spec]; exact ecdsa_entry_concrete hs fuel L hn hp hinf sk m sig pub hv h hc
  schnorr_ok := fun sk c m sig h => (schnorr_bip340 hs fuel L hn hp sk c m sig h).2.2.2

/-- **every added signature verifies as the standards define verification**: SEC 1 on strictly decoded key and
    signature for `partial_sigs`, BIP340 for the taproot key path and script path — against the digest of the PSBT as
    handed in, which is the consensus digest (`C02X.digest_legacy`, `digest_segwit`, `digest_taproot_keypath`,
    `digest_taproot_leaf`) -/
theorem added_sigs_valid_standards (L : Embit.EcLaws E) (hn : E.n ≤ 2 ^ 256) (hp : E.p ≤ 2 ^ 256) (hinf : InfUnique E)
    (hs : Hashes) (fuel : Nat) (signer : Signer (Embit.Keys.HDKey (toKeys E))) (auth : Option Nat)
    (p p' : Psbt) (n : Nat) (ws : List Write) (h : signWith (opsOf E hs fuel) signer auth p = some (p', n, ws))
    (i : Nat) (s s' : InScope) (hsi : p.inputs[i]? = some s) (hsi' : p'.inputs[i]? = some s')
    (hkeys : KeysValid (validSecKey E) s)
    (sl : Slot) (v : Bytes) (hv : slotValue s' sl = some v) (hnew : slotValue s sl ≠ some v) :
    ∃ u, s.utxo = some u ∧ C02.authorisedFlag auth s.sighashType (isTaprootSpk u.spk) ∧
      ValidWrite (ecdsaVerifySpec E) (fun xo m sig => Spec.Bip340.verify E hs.H xo m sig) (opsOf E hs fuel) s u
        (C02.effective auth s.sighashType (isTaprootSpk u.spk))
        (fun f leaf => psbtSighash hs.H.sha256 p i f leaf) (sl, v) :=
  C02X.added_sigs_valid (opsOf E hs fuel) (orderLaws_concrete hs fuel) (validSecKey E) _ _
    (sigLaws_standards L hn hp hinf hs fuel) signer auth p p' n ws h i s s' hsi hsi' hkeys sl v hv hnew

theorem view_added_sigs_valid_standards (L : Embit.EcLaws E) (hn : E.n ≤ 2 ^ 256) (hp : E.p ≤ 2 ^ 256)
    (hinf : InfUnique E) (hs : Hashes) (fuel : Nat) (signer : Signer (Embit.Keys.HDKey (toKeys E)))
    (auth : Option Nat) (p : Psbt) (b : Bytes) (n : Nat) (p' : Psbt) (ws : List Write)
    (h : viewSignWith (opsOf E hs fuel) signer auth p = some (b, n, p', ws))
    (i : Nat) (s s' : InScope) (hsi : p.inputs[i]? = some s) (hsi' : p'.inputs[i]? = some s')
    (hkeys : KeysValid (validSecKey E) s)
    (sl : Slot) (v : Bytes) (hv : slotValue s' sl = some v) (hnew : slotValue s sl ≠ some v) :
    ∃ u, s.utxo = some u ∧ C02.authorisedFlag auth s.sighashType (isTaprootSpk u.spk) ∧
      ValidWrite (ecdsaVerifySpec E) (fun xo m sig => Spec.Bip340.verify E hs.H xo m sig) (opsOf E hs fuel) s u
        (C02.effective auth s.sighashType (isTaprootSpk u.spk))
        (fun f leaf => psbtSighash hs.H.sha256 p i f leaf) (sl, v) :=
  C02X.view_added_sigs_valid (opsOf E hs fuel) (orderLaws_concrete hs fuel) (validSecKey E) _ _
    (sigLaws_standards L hn hp hinf hs fuel) signer auth p b n p' ws h i s s' hsi hsi' hkeys sl v hv hnew

/-- the hypothesis `hkeys` holds of every input of every PSBT `PSBT.parse` accepts when its key predicates are the
    parsers of the key model (`keyOpsOf`), so for parsed PSBTs nothing but the curve laws is assumed -/
theorem parsed_added_sigs_valid (L : Embit.EcLaws E) (hn : E.n ≤ 2 ^ 256) (hp : E.p ≤ 2 ^ 256) (hinf : InfUnique E)
    (hs : Hashes) (fuel : Nat) (validXpub : Bytes → Bool) (compress : Nat) (raw : Bytes)
    (signer : Signer (Embit.Keys.HDKey (toKeys E))) (auth : Option Nat) (p p' : Psbt) (n : Nat) (ws : List Write)
    (hparse : Psbt.parse (keyOpsOf E validXpub) hs.H.sha256 compress raw = some p)
    (h : signWith (opsOf E hs fuel) signer auth p = some (p', n, ws))
    (i : Nat) (s s' : InScope) (hsi : p.inputs[i]? = some s) (hsi' : p'.inputs[i]? = some s')
    (sl : Slot) (v : Bytes) (hv : slotValue s' sl = some v) (hnew : slotValue s sl ≠ some v) :
    ∃ u, s.utxo = some u ∧ C02.authorisedFlag auth s.sighashType (isTaprootSpk u.spk) ∧
      ValidWrite (ecdsaVerifySpec E) (fun xo m sig => Spec.Bip340.verify E hs.H xo m sig) (opsOf E hs fuel) s u
        (C02.effective auth s.sighashType (isTaprootSpk u.spk))
        (fun f leaf => psbtSighash hs.H.sha256 p i f leaf) (sl, v) :=
  added_sigs_valid_standards L hn hp hinf hs fuel signer auth p p' n ws h i s s' hsi hsi'
    (C02X.parsed_keys_valid (keyOpsOf E validXpub) (keyOpsOf_x validXpub) hs.H.sha256 compress raw p hparse s
      (List.mem_of_getElem? hsi)) sl v hv hnew

/-! ### the taproot key path: the key the signature verifies under is BIP341's output key -/

/-- when `PrivateKey.taproot_tweak(h)` (model over `opsOf`) of the secret `sk` returns `tsk`, the x-only public key of
    `tsk` is what BIP341's `taproot_tweak_pubkey` computes from the x-only public key of `sk` and `h`
    (Props/C09 `taproot_commutes`, `taproot_output_key` carried over the bridge; `htag` as in Props/C09) -/
theorem tweak_is_bip341_output (L : Embit.EcLaws E) (hn : E.n ≤ 2 ^ 256) (hp : E.p ≤ 2 ^ 256) (hinf : InfUnique E)
    (hs : Hashes) (fuel : Nat) (htag : ∀ t m, (hs.env.tagged t m).length = 32) (sk h tsk : Bytes) (c : Bool)
    (ht : (opsOf E hs fuel).tapTweak sk h = some tsk) :
    ∃ x par X, xonlyOfSec ((opsOf E hs fuel).secOf sk c) = beN 32 x ∧ x < 2 ^ 256 ∧
      Spec.Bip341.tweakPubkey (toKeys E) hs.env.tagged x h = some (par, X) ∧
      xonlyOfSec ((opsOf E hs fuel).secOf tsk true) = beN 32 X ∧ X < 2 ^ 256 :=
  tweak_is_bip341 hs fuel L hn hp hinf htag sk h tsk c ht

/-- **a new key-path witness is a BIP340 signature under the BIP341 output key of a key the signer holds**: some key
    `sg` of the signer owns or controls (by a matching derivation entry) a secret whose x-only public key `x`, tweaked
    with the input's merkle root as BIP341 prescribes, gives the key `X` that stands in the scriptPubKey; the witness is
    one 64-byte signature (+ flag unless DEFAULT) that BIP340 verification accepts under `X` against the BIP341 digest -/
theorem added_keypath_sig_bip341 (L : Embit.EcLaws E) (hn : E.n ≤ 2 ^ 256) (hp : E.p ≤ 2 ^ 256) (hinf : InfUnique E)
    (hs : Hashes) (fuel : Nat) (htag : ∀ t m, (hs.env.tagged t m).length = 32)
    (signer : Signer (Embit.Keys.HDKey (toKeys E))) (auth : Option Nat)
    (p p' : Psbt) (n : Nat) (ws : List Write) (h : signWith (opsOf E hs fuel) signer auth p = some (p', n, ws))
    (i : Nat) (s s' : InScope) (hsi : p.inputs[i]? = some s) (hsi' : p'.inputs[i]? = some s')
    (v : Bytes) (hv : slotValue s' .tapKeySig = some v) (hnew : slotValue s .tapKeySig ≠ some v) :
    ∃ sg ∈ signer.keys, ∃ u sk c x par X hh sig,
      s.utxo = some u ∧ isTaprootSpk u.spk = true ∧ OwnKey (opsOf E hs fuel) sg s sk c ∧
      xonlyOfSec ((opsOf E hs fuel).secOf sk c) = beN 32 x ∧
      Spec.Bip341.tweakPubkey (toKeys E) hs.env.tagged x (s.tapMerkleRoot.getD []) = some (par, X) ∧
      isInfix (beN 32 X) u.spk = true ∧
      psbtSighash hs.H.sha256 p i (C02.effective auth s.sighashType true) none = some hh ∧
      v = sig ++ flagSuffix (C02.effective auth s.sighashType true) ∧ sig.length = 64 ∧
      Spec.Bip340.verify E hs.H (beN 32 X) hh sig = true := by
  obtain ⟨sg, hsg, hj⟩ := C02X.added_sigs_authorised (opsOf E hs fuel) (orderLaws_concrete hs fuel) signer auth p p' n
    ws h i s s' hsi hsi' .tapKeySig v hv hnew
  obtain ⟨s0, u, h1, h2, h3, h4⟩ := C02X.justified_flag (opsOf E hs fuel) sg auth p _ hj
  rw [hsi] at h1; cases h1
  refine ⟨sg, hsg, u, ?_⟩
  generalize hf : C02.effective auth s.sighashType (isTaprootSpk u.spk) = f at h4
  cases h4 with
  | tapKey sk c tsk hh sig htap hown htw hinfix hd hsig =>
    obtain ⟨x, par, X, hx, _, hpar, hX, _⟩ := tweak_is_bip341 hs fuel L hn hp hinf htag sk _ tsk c htw
    obtain ⟨_, _, hlen, hver⟩ := schnorr_bip340 hs fuel L hn hp tsk true hh sig hsig
    rw [htap] at hf
    subst hf
    rw [hX] at hinfix hver
    exact ⟨sk, c, x, par, X, hh, sig, h2, htap, hown, hx, hpar, hinfix, hd, rfl, hlen, hver⟩

/-! ### 4. the driver's environment is the object of the theorems -/

/-- the `Ops` instance `sign.run` / `sign.trace` / `sign.view` of the driver run over (and that is compared with embit
    on every run of the check) is `opsOf` over the executable secp256k1, the executable SHA-256 / HMAC / RIPEMD-160 and
    the RFC 6979 fuel of the driver — by definition. RESTATED after the second audit (A-1): the record is now the lawful
    record `Crypto.secpLawful` (= `Driver.E`); it was `Crypto.secpOps`, of which `EcLaws` is refutable
    (`Props/C02Z.old_driver_record_unlawful`). -/
theorem driver_ops_eq :
    Driver.SignDrv.concreteOps = opsOf Crypto.secpLawful Driver.SignDrv.realHashes Driver.fuel := rfl

/-- … whose hash fields are the executable reference hashes -/
theorem driver_hashes :
    Driver.SignDrv.realHashes.H.sha256 = Crypto.sha256 ∧ Driver.SignDrv.realHashes.H.hmac256 = Crypto.hmacSha256 ∧
    Driver.SignDrv.realHashes.env.hmac512 = Crypto.hmacSha512 ∧
    Driver.SignDrv.realHashes.env.hash160 = (fun b => Crypto.ripemd160 (Crypto.sha256 b)) :=
  ⟨rfl, rfl, rfl, rfl⟩

/-- the driver op `sign.verify` decides the conclusion of the validity theorems per write (`writeValid`); its answer
    `true` IS that conclusion: `ValidWrite` with the standards' verifiers for the flag the value carries -/
theorem write_valid_sound (hs : Hashes) (fuel : Nat) (p : Psbt) (w : Write)
    (h : writeValid E hs.H p w = true) :
    ∃ s u f, p.inputs[w.1]? = some s ∧ s.utxo = some u ∧
      ValidWrite (ecdsaVerifySpec E) (fun xo m sig => Spec.Bip340.verify E hs.H xo m sig) (opsOf E hs fuel) s u f
        (fun f leaf => psbtSighash hs.H.sha256 p w.1 f leaf) w.2 :=
  writeValid_sound (opsOf E hs fuel) hs.H rfl p w h

/-- so the validity theorem holds of the driver's runs, given the curve laws of the record the driver evaluates.
    RESTATED after the second audit (A-1): the hypotheses were about `Crypto.secpOps` (junk points, `EcLaws` refutable —
    the old statement was vacuous); they are now about `Crypto.secpLawful`, the record the driver evaluates, and both ARE
    theorems (Props/C08W `secpLawful_ec_laws`, `secpLawful_inf_unique`): `Props/C02Z.driver_added_sigs_valid_unconditional`
    is this statement with no curve hypothesis. -/
theorem driver_added_sigs_valid (L : Embit.EcLaws Crypto.secpLawful) (hinf : InfUnique Crypto.secpLawful)
    (signer : Signer Driver.SignDrv.HD) (auth : Option Nat)
    (p p' : Psbt) (n : Nat) (ws : List Write) (h : signWith Driver.SignDrv.concreteOps signer auth p = some (p', n, ws))
    (i : Nat) (s s' : InScope) (hsi : p.inputs[i]? = some s) (hsi' : p'.inputs[i]? = some s')
    (hkeys : KeysValid (validSecKey Crypto.secpLawful) s)
    (sl : Slot) (v : Bytes) (hv : slotValue s' sl = some v) (hnew : slotValue s sl ≠ some v) :
    ∃ u, s.utxo = some u ∧ C02.authorisedFlag auth s.sighashType (isTaprootSpk u.spk) ∧
      ValidWrite (ecdsaVerifySec Crypto.secpLawful) (schnorrVerifyX Crypto.secpLawful Crypto.shaOps)
        Driver.SignDrv.concreteOps s u (C02.effective auth s.sighashType (isTaprootSpk u.spk))
        (fun f leaf => psbtSighash Crypto.sha256 p i f leaf) (sl, v) :=
  added_sigs_valid_concrete L (by decide +kernel) (by decide +kernel) hinf Driver.SignDrv.realHashes Driver.fuel signer auth
    p p' n ws h i s s' hsi hsi' hkeys sl v hv hnew

/-! ### non-vacuity -/

/-- the hypotheses about the curve are satisfiable together: the 31-point curve `y² = x³ + 7` over 𝔽₄₃ of Props/C07 -/
example : Embit.EcLaws toyCurve ∧ toyCurve.n ≤ 2 ^ 256 ∧ toyCurve.p ≤ 2 ^ 256 ∧ InfUnique toyCurve :=
  ⟨toyCurve_laws, by decide, by decide, toyCurve_infUnique⟩
/-- … so the bridged record satisfies the key laws, and `SigLaws` holds of an actual instance -/
example : Embit.Keys.EcLaws (toKeys toyCurve) := bridge_laws toyCurve_laws (by decide) (by decide) toyCurve_infUnique

/-- toy hash functions (32-byte outputs; the HMAC lands in the nonce range of the toy group) -/
def toyH : HashOps where
  sha256 := fun b => beN 32 ((ofBe b + b.length) % 29 + 1)
  hmac256 := fun k m => beN 32 ((ofBe k + ofBe m) % 30 + 1)

def toyEnv : Embit.Keys.Env where
  hmac512 := fun _ _ => List.replicate 31 0 ++ [2] ++ List.replicate 32 9
  hash160 := fun b => b.take 20
  tagged := fun _ _ => beN 32 2
  b58enc := fun b => b
  b58dec := fun _ => none

def toyHashes : Hashes := ⟨toyH, toyEnv⟩
/-- the environment of the theorems over the toy curve -/
def toyO := opsOf toyCurve toyHashes 8

/-- the secret 5: public key 5·G = (12, 12); its taproot tweak (t = 2, no script tree) is 7 with 7·G = (25, 18) -/
def sk5 : Bytes := beN 32 5

def toyOut : OutScope := { value := some 900, spk := some [0x51] }
def toyPsbt (ins : List InScope) : Psbt := { version := some 2, inputs := ins, outputs := [toyOut] }
/-- pay-to-pubkey input for the key of `sk5` -/
def toyInE : InScope :=
  { txid := some [1], vout := some 0, witnessUtxo := some { value := 1000, spk := [0x21] ++ toyO.secOf sk5 true ++ [0xac] } }
/-- taproot input whose output key is the tweaked key of `sk5` -/
def toyInT : InScope :=
  { txid := some [2], vout := some 1, witnessUtxo := some { value := 2000, spk := [0x51, 0x20] ++ beN 32 25 } }

set_option maxRecDepth 100000

example : toyO.secOf sk5 true = 0x02 :: beN 32 12 := by decide +kernel
example : (toyO.tapTweak sk5 []).map (fun t => xonlyOfSec (toyO.secOf t true)) = some (beN 32 25) := by decide +kernel
example : ∀ t m, (toyHashes.env.tagged t m).length = 32 := fun _ _ => rfl

/-- a run of the model over the toy curve that signs both ways: one ECDSA signature (RFC 6979 nonce, DER, flag 01) and
    one taproot key-path signature (64 bytes, DEFAULT) -/
theorem toy_run :
    (signWith toyO (.single (.wif sk5 true)) (some 0) (toyPsbt [toyInE, toyInT])).map (fun r => (r.2.1, r.2.2))
    = some (2, [(0, .partialSig (0x02 :: beN 32 12), [48, 6, 2, 1, 7, 2, 1, 3, 1]),
                (1, .tapKeySig, beN 32 34 ++ beN 32 9)]) := by decide +kernel

/-- … and, as the theorems say, both verify under the standards' verifiers against the digests of the PSBT handed in -/
example :
    (psbtSighash toyH.sha256 (toyPsbt [toyInE, toyInT]) 0 1 none).map
      (fun hh => ecdsaVerifySpec toyCurve (0x02 :: beN 32 12) hh [48, 6, 2, 1, 7, 2, 1, 3]) = some true ∧
    (psbtSighash toyH.sha256 (toyPsbt [toyInE, toyInT]) 1 0 none).map
      (fun hh => Spec.Bip340.verify toyCurve toyH (beN 32 25) hh (beN 32 34 ++ beN 32 9)) = some true := by
  decide +kernel

/-- the decider of the driver accepts exactly these two writes and refuses an altered `s`, an altered Schnorr `s` and a
    foreign key -/
example :
    writeValid toyCurve toyH (toyPsbt [toyInE, toyInT]) (0, .partialSig (0x02 :: beN 32 12), [48, 6, 2, 1, 7, 2, 1, 3, 1]) = true ∧
    writeValid toyCurve toyH (toyPsbt [toyInE, toyInT]) (1, .tapKeySig, beN 32 34 ++ beN 32 9) = true ∧
    writeValid toyCurve toyH (toyPsbt [toyInE, toyInT]) (0, .partialSig (0x02 :: beN 32 12), [48, 6, 2, 1, 7, 2, 1, 4, 1]) = false ∧
    writeValid toyCurve toyH (toyPsbt [toyInE, toyInT]) (1, .tapKeySig, beN 32 34 ++ beN 32 10) = false ∧
    writeValid toyCurve toyH (toyPsbt [toyInE, toyInT])
      (0, .partialSig (toyO.secOf (beN 32 2) true), [48, 6, 2, 1, 7, 2, 1, 3, 1]) = false := by
  decide +kernel

/-! ### witness: why `schnorrSign` of `opsOf` checks the length of the secret -/

/-- a 96-byte keypair `secret ‖ pubkey structure` of the secret 5 -/
def kp96 : Bytes := sk5 ++ leN 32 12 ++ leN 32 12

/-- the binding `schnorrsig_sign` also accepts a consistent 96-byte keypair in place of the secret; `SigLaws.schnorr_ok`
    quantifies over all byte strings, and for such a string `secOf` (= `PrivateKey(secret).sec()`) has no key to give. An
    `ec.PrivateKey` never holds anything but 32 bytes (its constructor raises), which `opsOf.schnorrSign` models -/
theorem keypair_secret_witness :
    (PySecp.schnorrsigSign toyCurve toyH (beN 32 1) kp96 none).isSome = true ∧ toyO.secOf kp96 true = [] ∧
    toyO.schnorrSign kp96 (beN 32 1) = none := by decide +kernel

end Embit.Props.C02Y
