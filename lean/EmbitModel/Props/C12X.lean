import EmbitModel.Props.C12
import EmbitModel.Proofs.DescParseNormal
/-
  C12 (deepening) — normalisation of ARBITRARY accepted text: whatever `Descriptor.from_string` accepts is an object
  that prints to a text which is accepted again and parses to the very same object. So print∘parse normalises every
  variant spelling and is idempotent on accepted texts.

  `Model.Descriptor.*` follows embit AFTER the fix `descriptor-print-wildcard-in-set` (a `*` inside a branch set,
  which the parser accepts and stores as `None`, is printed `*`; before it `str()` raised TypeError on a descriptor
  `from_string` had just returned — e.g. `wpkh(xpub…/<0;*>)`, replayed on embit by the check).

  Key objects are parameters (`KeyOps`); what is assumed of their codecs in the parse direction is the explicit
  hypothesis `KeyCodec` (C10 / C11: every key decoder is sound — accepted ⇒ re-encodes to itself): never an axiom.
-/
namespace Embit.Props.C12X
open Embit Embit.Miniscript Embit.Model.Descriptor

variable {K : Type}

/-- THE PARSER ONLY PRODUCES NORMAL DESCRIPTORS: every accepted text — whatever its spelling (`{a,b}` or `<a;b>`; `'`,
    `h` or `H`; upper- or lower-case hex; `int()` spellings with sign, leading zeros, `_`, surrounding white space;
    trailing `/`; negative or oversized origin elements; an empty wrapper list; a `*` inside a set; a raw 40-character
    key hash, even one starting with `[` behind an origin) — yields an object satisfying `DescNormal`, the hypothesis of
    `C12.print_parse`. -/
theorem parse_normal (ops : KeyOps K) (hc : KeyCodec ops) (t : Str) (d : Desc K) (h : Desc.parse ops t = some d) :
    DescNormal ops d :=
  Model.Descriptor.parse_normal ops hc t d h

/-- MAIN (`parse_print_idem`): for every text `t` the parser accepts, `print (parse t)` exists, is accepted, and parses
    to the SAME descriptor object — `parse (print (parse t)) = parse t`. -/
theorem parse_print_idem (ops : KeyOps K) (hc : KeyCodec ops) (t : Str) (d : Desc K) (h : Desc.parse ops t = some d) :
    ∃ text, d.print ops = some text ∧ Desc.parse ops text = some d :=
  parse_print_parse ops hc t d h

/-- the same as an equation between the partial functions: `parse ∘ print ∘ parse = parse` -/
theorem parse_print_parse_eq (ops : KeyOps K) (hc : KeyCodec ops) (t : Str) :
    ((Desc.parse ops t).bind (fun d => d.print ops)).bind (Desc.parse ops) = Desc.parse ops t := by
  cases h : Desc.parse ops t with
  | none => rfl
  | some d =>
    obtain ⟨text, h1, h2⟩ := parse_print_idem ops hc t d h
    simp [h1, h2]

/-- hence normalisation is idempotent on texts: printing the re-parsed normal form gives the normal form again, and
    the re-parsed descriptor derives the same script at every index and branch (it is the same object) -/
theorem normal_form_stable (ops : KeyOps K) (hc : KeyCodec ops) (t : Str) (d : Desc K) (h : Desc.parse ops t = some d) :
    ∃ text, d.print ops = some text ∧
      ∃ d', Desc.parse ops text = some d' ∧ d'.print ops = some text ∧
        ∀ (hs : Hashes) i b, (d'.derive ops hs i b).bind (·.scriptPubkey ops hs)
          = (d.derive ops hs i b).bind (·.scriptPubkey ops hs) := by
  obtain ⟨text, h1, h2⟩ := parse_print_idem ops hc t d h
  exact ⟨text, h1, d, h2, h1, fun _ _ _ => rfl⟩

/-- two spellings that parse to the same object have the same normal form -/
theorem same_object_same_text (ops : KeyOps K) (t₁ t₂ : Str) (h : Desc.parse ops t₁ = Desc.parse ops t₂) :
    (Desc.parse ops t₁).bind (fun d => d.print ops) = (Desc.parse ops t₂).bind (fun d => d.print ops) := by
  rw [h]

/-! ### the layers on their own -/

/-- key expressions: whatever `Key.read_from` / `KeyHash.read_from` returns is normal (`hash`: argument of pk_h / pkh) -/
theorem read_key_normal (ops : KeyOps K) (hc : KeyCodec ops) (tap hash : Bool) (s s' : Stream) (k : KeyExpr K)
    (h : readKey ops tap hash s = some (k, s')) : KeyNormal ops tap hash k :=
  (readKey_normal ops hc tap hash s s' k h).1

/-- miniscript text: whatever `Miniscript.read_from` returns is normal, for every fuel -/
theorem read_miniscript_normal (ops : KeyOps K) (hc : KeyCodec ops) (tap : Bool) (fuel : Nat) (s s' : Stream) (e : DMs K)
    (h : readMs ops tap fuel s = some (e, s')) : MsNormal ops tap e :=
  readMs_normal ops hc tap fuel s s' e h

/-- derivation steps: `AllowedDerivation.from_string` returns printable, re-readable steps (elements below 2^31 before
    the hardened marker, hardened only where allowed, sets non-empty, a `*` inside a set allowed) -/
theorem parse_steps_normal (ah : Bool) (der : Str) (ix : List Step) (h : parseAllowed ah der = some (some ix)) :
    StepsOk ah ix ∧ ∃ ts, showSteps ix = some ('/' :: joinWith '/' ts) ∧ parseAllowed ah (joinWith '/' ts) = some (some ix) := by
  have hok := parseAllowed_sound ah der ix h
  obtain ⟨ts, _, _, h1, h2⟩ := parseAllowed_showSteps ah ix hok
  exact ⟨hok, ts, h1, h2⟩

/-- origins: `KeyOrigin.from_string` inverts `__str__` for EVERY integer path (negative and ≥ 2^32 elements included:
    `int()` puts no bound) -/
theorem origin_roundtrip (t : Str) (o : Origin) (h : parseOrigin t = some o) : parseOrigin (showOrigin o) = some o :=
  parseOrigin_showOrigin o (parseOrigin_sound t o h)

/-! ### the defect that was repaired: a parsed descriptor that could not be printed -/

/-- the printer of set elements BEFORE the fix `descriptor-print-wildcard-in-set`: `i < HARDENED_INDEX` raised
    TypeError on the `None` that stands for a `*` -/
def showSetElemsOld : List (Option Nat) → Option (List Str)
  | [] => some []
  | none :: _ => none
  | some n :: r => (showSetElemsOld r).map (showIndex n :: ·)

/-- WITNESS (replayed on embit by the check): the derivation `<0;*>/1` is accepted by `AllowedDerivation.from_string`;
    the old printer raises on the steps it returns, the repaired one prints them — so without the fix the full statement
    `parse_print_idem` was false (`print (parse t)` did not exist) -/
theorem old_printer_fails_on_parsed_set :
    parseAllowed false ['<', '0', ';', '*', '>', '/', '1'] = some (some [.set [some 0, none], .idx 1])
    ∧ showSetElemsOld [some 0, none] = none
    ∧ showSetElems [some 0, none] = some [['0'], ['*']] := by decide

/-! ### non-vacuity: a toy instance of the key operations with extended keys -/

/-- keys: a public key = its SEC bytes; an extended key = its text (any text of ≥ 4 characters whose characters
    [1:4] are `pub` and that does not start with `[`); no WIF -/
inductive ToyKey
  | pub (b : Bytes)
  | x (s : Str)
deriving DecidableEq, Repr

def secShapeB (b : Bytes) : Bool :=
  match b with
  | [] => false
  | x :: rest => (rest.length == 32 && (x == 2 || x == 3)) || (rest.length == 64 && x == 4)

def toyOps : KeyOps ToyKey where
  kind := fun k => match k with | .pub _ => .pub | .x _ => .xkey
  parseSec := fun b => if secShapeB b then some (.pub b) else none
  parseXkey := fun s => if 4 ≤ s.length ∧ s.head? ≠ some '[' then some (.x s) else none
  parseWif := fun _ => none
  text := fun k => match k with | .pub _ => none | .x s => some s
  sec := fun k => match k with | .pub b => b | .x _ => 2 :: List.replicate 32 1
  isPrivate := fun _ => false
  derive := fun k p => if none ∈ p then none else some k
  toPublic := fun k => some k
  tweak := fun _ _ => none

theorem toy_codec : KeyCodec toyOps where
  sec := by
    intro b key h
    simp only [toyOps] at h
    split at h
    · rename_i hs
      simp at h; subst h
      refine ⟨rfl, rfl, ?_⟩
      unfold secShapeB at hs
      cases b with
      | nil => simp at hs
      | cons x rest =>
        refine ⟨x, rest, rfl, ?_⟩
        simp only [Bool.or_eq_true, Bool.and_eq_true, beq_iff_eq] at hs
        exact hs
    · simp at h
  xkey := by
    intro s key h
    simp only [toyOps] at h
    split at h
    · simp at h; subst h; exact ⟨rfl, rfl⟩
    · simp at h
  wif := by intro s key h; simp [toyOps] at h
  textShape := by
    intro s key h
    rcases h with h | h
    · simp only [toyOps] at h
      split at h
      · rename_i hs; exact hs
      · simp at h
    · simp [toyOps] at h

/-- `X` stands for an extended public key text -/
def X : Str := ['x', 'p', 'u', 'b', '1']

def variantText : Str :=
  "wpkh([D34DB33F/84H/-1/+5/0_1'/]".toList ++ X ++ "/{0, 1}/007/*)".toList

def normalText : Str :=
  "wpkh([d34db33f/84h/-1/5/1h]".toList ++ X ++ "/<0;1>/7/*)".toList

set_option maxRecDepth 100000 in
/-- a variant spelling ({a,b}, upper-case fingerprint, `H` / `'`, a negative element, `+5`, `0_1`, trailing `/`, a
    space, leading zeros) is accepted, prints to its normal form, and that normal form parses to the same object -/
example : (Desc.parse toyOps variantText).bind (fun d => d.print toyOps) = some normalText
    ∧ (Desc.parse toyOps normalText).bind (fun d => d.print toyOps) = some normalText := by
  decide +kernel

def wildSetText : Str := "tr(".toList ++ X ++ "/<0;*>/1)".toList

set_option maxRecDepth 100000 in
/-- a wildcard inside a set (the case that could not be printed before the fix): accepted, printed, stable -/
example : (Desc.parse toyOps wildSetText).bind (fun d => d.print toyOps) = some wildSetText := by decide +kernel

end Embit.Props.C12X
