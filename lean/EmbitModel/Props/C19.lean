import EmbitModel.Proofs.Heap
/-
  C19 — results depend only on arguments: no hidden shared state, no argument mutation.

  Part 1 (model): for the object store of `Model/Heap.lean` and EVERY history of public operations (construct with
  defaults / with fresh literals / from another object, mutate one object, query with arbitrary arguments; no
  bound on length or pool size): if no constructor stores a default object or a container of its source, no method
  writes through its argument and no memo is keyed on nothing, then objects created independently are independent,
  argument objects are never changed, and every answer is a function of the receiver's contents and the arguments.
  Each hypothesis is necessary: witness theorems exhibit the dependence for an unsafe descriptor.

  Part 2 (facts) is `Props/C19Facts.lean`: the descriptors of the real code are the GENERATED `Gen.Alias.sites`;
  `facts_safe_partial` is the obligation that breaks (at build time) when the code (re)introduces a shared default, a
  memo keyed on nothing, an argument mutation, a shared out-buffer, or anything the translator cannot classify.
  (Two files so that a regression in the code breaks exactly the theorems about the code.)
-/
namespace Embit.Props.C19
open Embit Embit.Heap

/-! ### Part 1 — theorems about all histories -/

/-- a state reached by some history from the state right after import -/
def Reachable (env : Env) (st : State) : Prop :=
  ∃ (d : Nat) (dflt : Nat → List Val) (h : List Op), st = run env (init d dflt) h

theorem reachable_inv {env : Env} (hs : env.classesSafe = true) {st : State} (hr : Reachable env st) : Inv st := by
  obtain ⟨d, dflt, h, rfl⟩ := hr
  exact run_inv hs h (inv_init d dflt)

/-- **independence**: after any history, mutating object `i` (with or without cache invalidation) leaves what can
    be seen of every other object `j` unchanged — provided no constructor stores its default object (or a container
    of the object it is built from) by reference -/
theorem independence (env : Env) (hs : env.classesSafe = true) (st : State) (hr : Reachable env st)
    (i j f : Nat) (v : Val) (hij : i ≠ j) (hj : j < st.objs.length) :
    obs (step env st (.mutate i f v)) j = obs st j ∧ obs (step env st (.mutateRaw i f v)) j = obs st j := by
  have hI := reachable_inv hs hr
  constructor
  · apply step_obs hs hI _ j hj
    intro f' v'; constructor
    · intro h; cases h; exact hij rfl
    · intro h; cases h
  · apply step_obs hs hI _ j hj
    intro f' v'; constructor
    · intro h; cases h
    · intro h; cases h; exact hij rfl

/-- the same over whole continuations: whatever happens to the other objects (construction, mutation, queries, in any
    number and order), object `j` shows the same contents as long as `j` itself is not mutated -/
theorem independence_history (env : Env) (hs : env.classesSafe = true) (st : State) (hr : Reachable env st)
    (j : Nat) (hj : j < st.objs.length) :
    ∀ ops : List Op, (∀ op ∈ ops, ∀ f v, op ≠ .mutate j f v ∧ op ≠ .mutateRaw j f v) →
      obs (run env st ops) j = obs st j := by
  have hI := reachable_inv hs hr
  clear hr
  intro ops
  induction ops generalizing st with
  | nil => intro _; rfl
  | cons op ops ih =>
    intro h
    simp only [run]
    rw [ih (step env st op) (Nat.lt_of_lt_of_le hj (step_objs_length st op)) (step_inv hs hI op)
      (fun o ho => h o (List.mem_cons_of_mem _ ho))]
    exact step_obs hs hI op j hj (h op List.mem_cons_self)

/-- **no argument mutation**: if no method writes through its argument, every argument object the caller holds
    shows the same contents after any further history -/
theorem no_arg_mutation (env : Env) (hs : env.classesSafe = true) (hm : env.noArgMutation = true)
    (st : State) (hr : Reachable env st) (k : Nat) (hk : k < st.pool.length) :
    ∀ ops : List Op, argObs (run env st ops) k = argObs st k := by
  have hI := reachable_inv hs hr
  clear hr
  intro ops
  induction ops generalizing st with
  | nil => rfl
  | cons op ops ih =>
    simp only [run]
    rw [ih (step env st op) (Nat.lt_of_lt_of_le hk (step_pool_length hs st op)) (step_inv hs hI op)]
    exact step_argObs hs hm hI op k hk

/-- **results depend only on the receiver and the arguments**: after any history whose mutations invalidate the memos
    (`mutate` = change + `clear_cache()`), every query answers `f m (contents of the receiver) (contents of the
    argument)` — nothing that was constructed, mutated elsewhere or computed before enters -/
theorem result_depends_only_on_receiver_and_args (env : Env) (hs : env.classesSafe = true)
    (hk : env.memosKeyed = true) (d : Nat) (dflt : Nat → List Val) (h : List Op)
    (hraw : (h.all fun o => !o.isRaw) = true) (i m k : Nat) :
    answer env (run env (init d dflt) h) i m k
      = env.f m (obs (run env (init d dflt) h) i) (argObs (run env (init d dflt) h) k) := by
  obtain ⟨_, hM⟩ := run_memoInv hs hk h (inv_init d dflt) (memoInv_init env d dflt) hraw
  exact answer_eq hM (memoKind_keyed hk m) i k

theorem run_append (env : Env) : ∀ (h qs : List Op) (s : State), run env (run env s h) qs = run env s (h ++ qs) := by
  intro h
  induction h with
  | nil => intro qs s; rfl
  | cons o os ih => intro qs s; simp only [run, List.cons_append]; exact ih qs _

/-- **query stability**: repeating a query with the same arguments gives the same answer, whatever queries (on any
    object, with any arguments) were made in between -/
theorem query_stable (env : Env) (hs : env.classesSafe = true) (hk : env.memosKeyed = true)
    (hm : env.noArgMutation = true) (d : Nat) (dflt : Nat → List Val) (h qs : List Op)
    (hraw : (h.all fun o => !o.isRaw) = true) (hq : (qs.all Op.isQuery) = true)
    (i m k : Nat) (hi : i < (run env (init d dflt) h).objs.length) (hkk : k < (run env (init d dflt) h).pool.length) :
    answer env (run env (run env (init d dflt) h) qs) i m k = answer env (run env (init d dflt) h) i m k := by
  have hrun : run env (run env (init d dflt) h) qs = run env (init d dflt) (h ++ qs) := run_append env h qs _
  have hraw2 : ((h ++ qs).all fun o => !o.isRaw) = true := by
    rw [List.all_append, hraw, Bool.true_and]
    apply List.all_eq_true.mpr
    intro o ho
    have := List.all_eq_true.mp hq o ho
    cases o <;> simp [Op.isQuery, Op.isRaw] at this ⊢
  rw [hrun, result_depends_only_on_receiver_and_args env hs hk d dflt (h ++ qs) hraw2,
    result_depends_only_on_receiver_and_args env hs hk d dflt h hraw, ← hrun]
  have hr : Reachable env (run env (init d dflt) h) := ⟨d, dflt, h, rfl⟩
  rw [no_arg_mutation env hs hm _ hr k hkk qs]
  rw [independence_history env hs _ hr i hi qs]
  intro op hop f v
  have := List.all_eq_true.mp hq op hop
  cases op <;> simp [Op.isQuery] at this ⊢

/-! ### the hypotheses are necessary (witnesses on the model) and satisfiable -/

def fHash : Nat → List (List Val) → List Val → Val := fun _ recv a => recv.flatten.sum + 100 * a.sum

/-- `class Tx: def __init__(self, vin=[]): self.vin = vin` and a method with a memo keyed on nothing that appends
    to its argument -/
def envUnsafe : Env :=
  { classes := [⟨[.storesDefault], false⟩], methods := [⟨.keyedOnNothing, false⟩, ⟨.uncached, true⟩],
    defaultRef := fun _ _ => 0, f := fHash }

/-- the repaired library: None-guard / copy, memo keyed on the arguments, no write through the argument -/
def envSafe : Env :=
  { classes := [⟨[.noneGuard, .copies], true⟩], methods := [⟨.keyedOnArgs, false⟩, ⟨.uncached, false⟩],
    defaultRef := fun _ p => p, f := fHash }

def s0 : State := init 2 (fun _ => [])

/-- `a = Tx(); b = Tx(); a.vin.append(7)` — `b.vin` is `[7]` -/
theorem shared_default_breaks_independence :
    let st := run envUnsafe s0 [.construct 0 [], .construct 0 []]
    obs st 1 = [[]] ∧ obs (step envUnsafe st (.mutate 0 0 7)) 1 = [[7]] := by
  decide

/-- `p = PSBT(tx)` storing the containers of `tx` by reference: mutating `tx` changes `p` -/
theorem shared_source_breaks_independence :
    let st := run envUnsafe s0 [.construct 0 [some [1]], .constructFrom 0 0]
    obs st 1 = [[1]] ∧ obs (step envUnsafe st (.mutate 0 0 7)) 1 = [[1, 7]] := by
  decide

/-- `t.digest([1])` then `t.digest([2])` with a memo keyed on nothing: the second answer is the first one's, while a
    fresh object answers differently -/
theorem stale_memo :
    let st := run envUnsafe s0 [.construct 0 [some [5]], .newArg [1], .newArg [2]]
    answer envUnsafe st 0 0 1 = 205 ∧
    answer envUnsafe (step envUnsafe st (.query 0 0 0)) 0 0 1 = 105 := by
  decide

/-- `mnemonic_from_bytes(e)` with `e += checksum`: the caller's bytearray is longer afterwards -/
theorem mutating_method_changes_argument :
    let st := run envUnsafe s0 [.construct 0 [some [5]], .newArg [1]]
    argObs st 0 = [1] ∧ argObs (step envUnsafe st (.query 0 1 0)) 0 = [1, 0] := by
  decide

/-- mutating the receiver WITHOUT invalidating the memo gives a stale answer even for a memo keyed on the arguments:
    `clear_cache()` after a direct mutation is part of the contract (histories use `mutate`, not `mutateRaw`) -/
theorem stale_after_raw_mutation :
    let st := run envSafe s0 [.construct 0 [some [5], none], .newArg [1], .query 0 0 0]
    answer envSafe (step envSafe st (.mutateRaw 0 0 3)) 0 0 0 = 105 ∧
    answer envSafe (step envSafe st (.mutate 0 0 3)) 0 0 0 = 108 := by
  decide

example : envSafe.classesSafe = true ∧ envSafe.memosKeyed = true ∧ envSafe.noArgMutation = true := by decide

/-- non-vacuity of the theorems: the safe library has non-trivial histories, and on them the statements hold with
    distinct objects, non-empty containers and different arguments -/
example :
    let st := run envSafe s0 [.construct 0 [], .construct 0 [some [4], some [9]], .newArg [1], .newArg [2],
      .query 0 0 0, .mutate 0 0 7, .query 0 0 1, .query 1 0 0]
    st.objs.length = 2 ∧ obs st 0 = [[7], []] ∧ obs st 1 = [[4], [9]] ∧
    answer envSafe st 0 0 0 = 107 ∧ answer envSafe st 0 0 1 = 207 ∧ answer envSafe st 1 0 0 = 113 := by
  decide

end Embit.Props.C19
