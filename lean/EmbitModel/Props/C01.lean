import EmbitModel.Proofs.Sighash
import EmbitModel.Props.C03
/-
  C01 — signature hashes equal the consensus digests (legacy, BIP143, BIP341).
  `Model.sighash*` model embit's `Transaction.sighash_*` / `PSBTView.sighash_*`; `Spec.Consensus.*` is consensus.
  All theorems hold for every hash function `sha`, every transaction, index and flag — no size bounds.
-/
set_option linter.unusedSimpArgs false

namespace Embit.Props.C01
open Embit Model Spec.Wire Spec.Consensus

/-- legacy digest = Satoshi's algorithm (serialise the modified copy, append the hash type), all 8 flags,
    every index, including `uint256::ONE` for SINGLE without a matching output -/
theorem legacy_eq_consensus (sha : Bytes → Bytes) (t : Tx) (idx : Nat) (sc : Bytes) (f : Nat)
    (hf : validFlag f = true) (hi : idx < t.vin.length) :
    sighashLegacy sha t idx sc f = some (legacy sha t idx sc f) := by
  have hnot : ¬ idx ≥ t.vin.length := by omega
  have hget : t.vin[idx]? = some t.vin[idx] := List.getElem?_eq_getElem hi
  have hmapidx : ∀ g : Nat → TxIn → TxIn, (t.vin.mapIdx g)[idx]? = some (g idx t.vin[idx]) := by
    intro g; simp [List.getElem?_mapIdx, hget]
  by_cases hacp : anyoneCanPay f = true
  · -- ANYONECANPAY: only this input
    rcases validFlag_cases hf with rfl | rfl | rfl | rfl | rfl | rfl | rfl | rfl <;>
      simp [anyoneCanPay] at hacp
    all_goals
      rcases Nat.lt_or_ge idx t.vout.length with ho | ho
      · have ho' : ¬ t.vout.length ≤ idx := by omega
        have hoget : t.vout[idx]? = some t.vout[idx] := List.getElem?_eq_getElem ho
        simp [sighashLegacy, hnot, sighashCheck, SIGHASH_ALL, SIGHASH_NONE, SIGHASH_SINGLE, legacy, legacyTxCopy,
          anyoneCanPay, isSingle, isNone, base, dsha, hget, hmapidx, serWith_one, encodeLegacy, ho, ho', hoget,
          TxOut.ser_fun, flatten_replicate_flatMap, blankOut, List.append_assoc, encIn, outpoint,
          show TxOut.ser t.vout[idx] = encOut t.vout[idx] from rfl]
      · have ho' : ¬ idx < t.vout.length := by omega
        simp [sighashLegacy, hnot, sighashCheck, SIGHASH_ALL, SIGHASH_NONE, SIGHASH_SINGLE, legacy, legacyTxCopy,
          anyoneCanPay, isSingle, isNone, base, dsha, hget, hmapidx, serWith_one, encodeLegacy, ho, ho',
          TxOut.ser_fun, flatten_replicate_flatMap, blankOut, List.append_assoc, encIn, outpoint]
  · have hacp' : anyoneCanPay f = false := by simpa using hacp
    have hins := ins_nonacp t idx sc hf hacp'
    simp only [SIGHASH_ALL] at hins
    rcases validFlag_cases hf with rfl | rfl | rfl | rfl | rfl | rfl | rfl | rfl <;>
      simp [anyoneCanPay] at hacp'
    all_goals
      rcases Nat.lt_or_ge idx t.vout.length with ho | ho
      · have ho' : ¬ t.vout.length ≤ idx := by omega
        have hoget : t.vout[idx]? = some t.vout[idx] := List.getElem?_eq_getElem ho
        simp [sighashLegacy, hnot, sighashCheck, SIGHASH_ALL, SIGHASH_NONE, SIGHASH_SINGLE, legacy, legacyTxCopy,
          anyoneCanPay, isSingle, isNone, base, dsha, hins, encodeLegacy, ho, ho', hoget,
          TxOut.ser_fun, flatten_replicate_flatMap, blankOut, List.append_assoc,
          show TxOut.ser t.vout[idx] = encOut t.vout[idx] from rfl]
      · have ho' : ¬ idx < t.vout.length := by omega
        simp [sighashLegacy, hnot, sighashCheck, SIGHASH_ALL, SIGHASH_NONE, SIGHASH_SINGLE, legacy, legacyTxCopy,
          anyoneCanPay, isSingle, isNone, base, dsha, hins, encodeLegacy, ho, ho',
          TxOut.ser_fun, flatten_replicate_flatMap, blankOut, List.append_assoc]

/-- BIP143 digest, all 8 flags, every index -/
theorem segwit_eq_bip143 (sha : Bytes → Bytes) (t : Tx) (idx : Nat) (inp : TxIn) (sc : Bytes) (value : Nat)
    (f : Nat) (hf : validFlag f = true) (hget : t.vin[idx]? = some inp) :
    sighashSegwit sha t idx sc value f = some (bip143 sha t idx inp sc value f) := by
  have hi : idx < t.vin.length := by
    rcases Nat.lt_or_ge idx t.vin.length with h | h
    · exact h
    · rw [List.getElem?_eq_none h] at hget; simp at hget
  have hnot : ¬ idx ≥ t.vin.length := by omega
  have e1 : hashPrevoutsPre t = t.vin.flatMap outpoint := rfl
  have e2 : hashSequencePre t = t.vin.flatMap fun i => leN 4 i.sequence := rfl
  have e3 : hashOutputsPre t = t.vout.flatMap encOut := rfl
  rcases validFlag_cases hf with rfl | rfl | rfl | rfl | rfl | rfl | rfl | rfl
  all_goals
    rcases Nat.lt_or_ge idx t.vout.length with ho | ho
    · have ho' : ¬ t.vout.length ≤ idx := by omega
      have hoget : t.vout[idx]? = some t.vout[idx] := List.getElem?_eq_getElem ho
      simp [sighashSegwit, hnot, sighashCheck, SIGHASH_ALL, SIGHASH_NONE, SIGHASH_SINGLE, bip143,
        anyoneCanPay, isSingle, isNone, base, dsha, hget, ho, ho', hoget, e1, e2, e3, zero32, outpoint, varStr,
        scriptSer, List.append_assoc, show TxOut.ser t.vout[idx] = encOut t.vout[idx] from rfl]
    · have ho' : ¬ idx < t.vout.length := by omega
      simp [sighashSegwit, hnot, sighashCheck, SIGHASH_ALL, SIGHASH_NONE, SIGHASH_SINGLE, bip143,
        anyoneCanPay, isSingle, isNone, base, dsha, hget, ho, ho', e1, e2, e3, zero32, outpoint, varStr,
        scriptSer, List.append_assoc]

theorem validTaprootFlag_cases {f : Nat} (h : validTaprootFlag f = true) :
    f = 0 ∨ f = 1 ∨ f = 2 ∨ f = 3 ∨ f = 0x81 ∨ f = 0x82 ∨ f = 0x83 := by
  simpa [validTaprootFlag] using h

def leafOf (script : Option Bytes) (leafVer : Nat) (codesep : Option Nat) : Option Leaf :=
  script.map fun s => { script := s, version := leafVer, codesepPos := codesep.getD 0xffffffff }

/-- BIP341 digest — the FULL statement: every hash type `f` (any natural number, not only the seven BIP341 defines),
    every index, lists `spks` / `values` of every length. Where BIP341 defines no digest (`bip341 … = none`: hash type
    outside {0,1,2,3,0x81,0x82,0x83} — 0x80 included —, a list of spent scripts or amounts whose length is not the
    number of inputs, index out of range, SINGLE without a matching output) the code refuses; everywhere else it
    returns BIP341's digest. (Before `fixes/fix-taproot-hashtype.diff` this needed the hypotheses
    `validTaprootFlag f` and `spks.length = t.vin.length`: audit item A4.) `leafVer < 256`: the leaf version is a
    byte (`bytes([leaf_version])`). -/
theorem taproot_eq_bip341 (sha : Bytes → Bytes) (t : Tx) (idx : Nat) (spks : List Bytes) (values : List Nat)
    (f : Nat) (annex script : Option Bytes) (leafVer : Nat) (codesep : Option Nat) (hlv : leafVer < 256) :
    sighashTaproot sha t idx spks values f (if script.isSome then 1 else 0) annex script leafVer codesep
      = bip341 sha t idx spks values f annex (leafOf script leafVer codesep) := by
  cases hf : validTaprootFlag f with
  | false => rw [sighashTaproot_invalid_flag sha t idx spks values f _ annex script leafVer codesep hf]; simp [bip341, hf]
  | true =>
  by_cases hs : spks.length = t.vin.length
  case neg => rw [sighashTaproot_spks_length sha t idx spks values f _ annex script leafVer codesep hs]; simp [bip341, hs]
  have e1 : hashPrevoutsPre t = t.vin.flatMap outpoint := rfl
  have e2 : hashSequencePre t = t.vin.flatMap fun i => leN 4 i.sequence := rfl
  have e3 : hashOutputsPre t = t.vout.flatMap encOut := rfl
  have e4 : hashAmountsPre values = values.flatMap (leN 8) := rfl
  have e5 : hashSpksPre spks = spks.flatMap varStr := rfl
  have e6 : leN 4 0xffffffff = [0xff, 0xff, 0xff, 0xff] := by decide
  have hlv' : ¬ leafVer ≥ 256 := by omega
  rcases Nat.lt_or_ge idx t.vin.length with hi | hi
  · have hnot : ¬ idx ≥ t.vin.length := by omega
    have hget : t.vin[idx]? = some t.vin[idx] := List.getElem?_eq_getElem hi
    by_cases hv : values.length = t.vin.length
    · have hvget : values[idx]? = some values[idx] := List.getElem?_eq_getElem (by omega)
      have hsget : spks[idx]? = some spks[idx] := List.getElem?_eq_getElem (by omega)
      rcases validTaprootFlag_cases hf with rfl | rfl | rfl | rfl | rfl | rfl | rfl
      all_goals
        cases script <;> cases annex <;> cases codesep <;>
        rcases Nat.lt_or_ge idx t.vout.length with ho | ho
      all_goals
        first
        | (have ho' : ¬ t.vout.length ≤ idx := by omega
           have hoget : t.vout[idx]? = some t.vout[idx] := List.getElem?_eq_getElem ho
           simp [sighashTaproot, hnot, hv, hs, sighashCheck, SIGHASH_NONE, SIGHASH_SINGLE, bip341, validTaprootFlag,
             leafOf, hget, hvget, hsget, ho, ho', hoget, e1, e2, e3, e4, e5, e6, outpoint, varStr, scriptSer,
             taggedHash, tagged, hlv', List.append_assoc,
             show TxOut.ser t.vout[idx] = encOut t.vout[idx] from rfl])
        | (have ho' : ¬ idx < t.vout.length := by omega
           have hoget : t.vout[idx]? = none := List.getElem?_eq_none ho
           simp [sighashTaproot, hnot, hv, hs, sighashCheck, SIGHASH_NONE, SIGHASH_SINGLE, bip341, validTaprootFlag,
             leafOf, hget, hvget, hsget, ho, ho', hoget, e1, e2, e3, e4, e5, e6, outpoint, varStr, scriptSer,
             taggedHash, tagged, hlv', List.append_assoc])
    · simp [sighashTaproot, hnot, hv, bip341, hf, hs]
  · have hget : t.vin[idx]? = none := List.getElem?_eq_none hi
    simp [sighashTaproot, hi, bip341, hget]

/-- the two refusals the full statement adds, spelled out: hash type 0x80 (ANYONECANPAY with base type DEFAULT) has no
    BIP341 digest and is refused … -/
theorem taproot_0x80_rejected (sha : Bytes → Bytes) (t : Tx) (idx : Nat) (spks : List Bytes) (values : List Nat)
    (e : Nat) (a s : Option Bytes) (lv : Nat) (cs : Option Nat) (l : Option Leaf) :
    sighashTaproot sha t idx spks values 0x80 e a s lv cs = none ∧ bip341 sha t idx spks values 0x80 a l = none :=
  ⟨sighashTaproot_invalid_flag sha t idx spks values 0x80 e a s lv cs (by decide), by simp [bip341, validTaprootFlag]⟩

/-- … and so is a list of spent scripts that does not have one entry per input -/
theorem taproot_spks_length_rejected (sha : Bytes → Bytes) (t : Tx) (idx : Nat) (spks : List Bytes)
    (values : List Nat) (f e : Nat) (a s : Option Bytes) (lv : Nat) (cs : Option Nat) (l : Option Leaf)
    (h : spks.length ≠ t.vin.length) :
    sighashTaproot sha t idx spks values f e a s lv cs = none ∧ bip341 sha t idx spks values f a l = none :=
  ⟨sighashTaproot_spks_length sha t idx spks values f e a s lv cs h, by simp [bip341, h]⟩

/-- a hash type outside {DEFAULT, ALL, NONE, SINGLE} (± ANYONECANPAY) is refused by all three algorithms -/
theorem invalid_flag_rejected (sha : Bytes → Bytes) (t : Tx) (idx : Nat) (sc : Bytes) (v : Nat) (f : Nat)
    (hf : sighashCheck f = none) :
    sighashLegacy sha t idx sc f = none ∧ sighashSegwit sha t idx sc v f = none
    ∧ ∀ spks values e a s lv cs, sighashTaproot sha t idx spks values f e a s lv cs = none := by
  refine ⟨?_, ?_, ?_⟩
  · unfold sighashLegacy; split <;> simp [hf]
  · unfold sighashSegwit; split <;> simp [hf]
  · intro spks values e a s lv cs
    unfold sighashTaproot; split <;> (try split) <;> simp [hf]

/-- `SIGHASH.check` accepts exactly the eight flags the property quantifies over (below 256) -/
theorem check_accepts_iff (f : Nat) (h : f < 256) : (sighashCheck f).isSome = validFlag f := by
  revert f; decide +kernel

/-- out-of-range input index is refused -/
theorem bad_index_rejected (sha : Bytes → Bytes) (t : Tx) (idx : Nat) (sc : Bytes) (v f : Nat)
    (h : idx ≥ t.vin.length) :
    sighashLegacy sha t idx sc f = none ∧ sighashSegwit sha t idx sc v f = none := by
  simp [sighashLegacy, sighashSegwit, h]

-- entry_points_agree — PSBT.sighash / PSBTView.sighash (dispatch, the view's streaming digests) equal each other and
--   the consensus digest — is proved in Props/C01X.lean.

/-! ### non-vacuity -/
example : validFlag 0x83 = true ∧ validTaprootFlag 0x83 = true ∧ 0 < C03.exLegacy.vin.length := by decide
example : (legacy id C03.exLegacy 0 [0x51] 0x03).length = 66 := by decide
example : (sighashLegacy id C03.exLegacy 0 [0x51] 0x03) = some (legacy id C03.exLegacy 0 [0x51] 0x03) :=
  legacy_eq_consensus id _ _ _ _ (by decide) (by decide)

-- the full taproot statement is not vacuous on either side: a digest for 0x81 with one script per input, refusals for
-- 0x80, for an empty script list, for a hash type above a byte
example : (sighashTaproot id C03.exLegacy 0 [[0x51]] [7] 0x81 0 none none 0xC0 none).isSome = true := by decide
example : sighashTaproot id C03.exLegacy 0 [[0x51]] [7] 0x81 0 none none 0xC0 none
    = bip341 id C03.exLegacy 0 [[0x51]] [7] 0x81 none none :=
  taproot_eq_bip341 id C03.exLegacy 0 [[0x51]] [7] 0x81 none none 0xC0 none (by decide)
example : bip341 id C03.exLegacy 0 [[0x51]] [7] 0x80 none none = none
    ∧ bip341 id C03.exLegacy 0 [] [7] 0x81 none none = none
    ∧ bip341 id C03.exLegacy 0 [[0x51]] [7] 0x181 none none = none := by decide

end Embit.Props.C01
