import EmbitModel.Props.C19Facts
import EmbitModel.Proofs.HeapAlias
/-
  C19, deepened — the exclusion behind `facts_safe_partial` made exact, and its witness.

  `facts_safe_partial` says: every extracted site outside the excluded names is safe. Here:
  * the exclusion is EXACTLY the unsafe sites (`unsafe_sites_exactly`): a site of the loaded embit modules is unsafe if
    and only if its name is in `contractMutators` (in-place by documented contract, outside the property) — so no name
    can be dropped from the list, nothing else hides behind it (each name denotes exactly one site:
    `excluded_names_denote_one_site_each`), and NO site is excused as a recorded defect (`knownUnsafe = []`);
  * with the contract mutators removed by name the environment is safe and no history changes an argument
    (`embit_safe`: Part 1 of Props/C19.lean instantiated).

  ROUND 6: until then the exclusion had a second list, `d31Sites` (= `knownUnsafe`: finding D31, `Descriptor(...)` and
  `TapTree(...)` assigned `k.taproot` on the caller's key objects), and `d31_sites_make_the_environment_unsafe` proved that
  the extracted environment with those sites left in was NOT safe. The library is repaired (fixes/d31.diff), the regenerated
  table has no such site, and the statements that asserted the defect were replaced by the stronger ones above
  (`unsafe_sites_exactly` without `d31Sites`, `embit_safe` instead of `embit_safe_without_d31`). What the old witness showed
  is kept as a REGRESSION statement: `d31Regression` are the two records the translator emitted for the defective
  constructors; put back into the table they break `unsafe_sites_exactly` and make the environment unsafe, with the history
  that changes the caller's key (`returning_d31_sites_would_be_caught`).

  Second part — a pattern `Model/Heap.lean` does not cover: THE CALLER EDITS ITS OWN ARGUMENT OBJECT IN PLACE between two
  calls (`Model/HeapAlias.lean`). A keyed memo whose key COPIES the argument's contents answers `f(receiver, argument)`
  after every history, in-place edits included (`copying_keys_safe`); a key that ALIASES the caller's object answers
  from the past after an in-place edit (`aliasing_key_is_stale_after_in_place_edit`) — and only then
  (`aliasing_keys_safe_without_in_place_edits`). The key kinds of embit's keyed memos are extracted
  (`Gen.Alias.memoKeys`: AST of the key expression + a probe that edits the caller's list and its elements in place):
  all copy (`embit_memo_keys_copy`), so `embit_keyed_memos_survive_in_place_edits`.
-/
namespace Embit.Props.C19
open Embit Embit.Heap

set_option maxRecDepth 100000

/-- EXACT: a site is unsafe iff it is a contract mutator (stronger than `facts_safe_partial`, which is the direction
    "outside the list ⇒ safe"; stronger than the statement of this name before the repair of D31, which had
    `d31Sites.contains s.name ||` on the right-hand side) -/
theorem unsafe_sites_exactly :
    (Gen.Alias.sites.all fun s => (!s.safe) == contractMutators.contains s.name) = true := by
  decide +kernel

/-- every excluded name denotes exactly one extracted site (no name is stale, none matches several sites), and no name
    is excluded as a recorded defect -/
theorem excluded_names_denote_one_site_each :
    (contractMutators.all fun n => (Gen.Alias.sites.filter (·.name == n)).length == 1) = true
    ∧ knownUnsafe = [] := by
  constructor
  · decide +kernel
  · rfl

/-- the records `harness/aliasfacts.py` emitted for the two constructors before the repair of D31 (AST rule: a constructor
    assigning an attribute of objects reached from its arguments; a site of this kind is unsafe whatever the probe says) -/
def d31Regression : List Site := [
  { name := "descriptor.descriptor.Descriptor.__init__[k]", kind := .ctorWritesArgObjects, probe := .notProbed,
    evidence := "k.taproot = ... where k ranges over objects reached from the constructor's arguments" },
  { name := "descriptor.taptree.TapTree.__init__[k]", kind := .ctorWritesArgObjects, probe := .notProbed,
    evidence := "k.taproot = ... where k ranges over objects reached from the constructor's arguments" }]

/-- the library as it would be extracted if the records `extra` came back (contract mutators left out by name) -/
def embitEnvWith (extra : List Site) (f : Nat → List (List Val) → List Val → Val) : Env :=
  { classes := ((Gen.Alias.sites ++ extra).filter inScope).filterMap classOfSite,
    methods := ((Gen.Alias.sites ++ extra).filter inScope).filterMap methodOfSite,
    defaultRef := fun c p => c + p, f := f }

/-- position of a site's method in that environment -/
def methodIndexWith (extra : List Site) (name : String) : Nat :=
  ((((Gen.Alias.sites ++ extra).filter inScope).filter fun s => (methodOfSite s).isSome).map (·.name)).idxOf name

/-- a digest that sees every cell of the argument (`fHash` sums, and the model's in-place write appends a 0) -/
def fSees : Nat → List (List Val) → List Val → Val := fun _ recv a => recv.flatten.sum + 100 * a.length

/-- nothing extra = the extracted environment -/
theorem embitEnvWith_nil (f : Nat → List (List Val) → List Val → Val) : embitEnvWith [] f = embitEnv f := by
  simp [embitEnvWith, embitEnv]

/-- REGRESSION WITNESS (D31 in the heap model; before the repair this was `d31_sites_make_the_environment_unsafe`, a
    statement about the extracted table itself): the repaired table has no constructor writing into argument objects;
    if the two D31 records came back, (1) `unsafe_sites_exactly` would be false of the table — the build of the check
    stops —, (2) the environment would not be safe, and (3) the history
    `k = Key(pub)  [newArg]; Descriptor(key=k, taproot=True)  [the constructor as a call on k]` changes the caller's object
    `k`: a call that answered `f … [0]` on `k` before answers `f … [0, 0]` afterwards (different for a digest that reads all
    of `k`) — for both constructors -/
theorem returning_d31_sites_would_be_caught :
    (Gen.Alias.sites.all fun s => match s.kind with | .ctorWritesArgObjects => false | _ => true) = true
    ∧ ((Gen.Alias.sites ++ d31Regression).all fun s => (!s.safe) == contractMutators.contains s.name) = false
    ∧ (embitEnvWith d31Regression fSees).noArgMutation = false
    ∧ (d31Regression.all fun site =>
        let env := embitEnvWith d31Regression fSees
        let m := methodIndexWith d31Regression site.name
        let st := run env (init 64 fun _ => []) [.construct 0 [], .newArg [0]]
        let st' := step env st (.query 0 m 0)
        m < env.methods.length && argObs st 0 == [0] && argObs st' 0 == [0, 0]
          && answer env st 0 0 0 != answer env st' 0 0 0) = true := by
  refine ⟨?_, ?_, ?_, ?_⟩ <;> decide +kernel

/-- SAFE (no exemption for a recorded defect; before the repair of D31: `embit_safe_without_d31`, over an environment
    that left the D31 sites out by name): in every history over the extracted constructors and methods other than the
    contract mutators no argument object the caller holds is ever changed, objects are independent, and — `embitEnv`
    excludes nothing else — the methods are those of every site that is not a contract mutator -/
theorem embit_safe (f : Nat → List (List Val) → List Val → Val) (d : Nat) (dflt : Nat → List Val)
    (h : List Op) :
    (∀ k, k < (run (embitEnv f) (init d dflt) h).pool.length → ∀ ops,
        argObs (run (embitEnv f) (run (embitEnv f) (init d dflt) h) ops) k = argObs (run (embitEnv f) (init d dflt) h) k)
    ∧ (∀ i j fld v, i ≠ j → j < (run (embitEnv f) (init d dflt) h).objs.length →
        obs (step (embitEnv f) (run (embitEnv f) (init d dflt) h) (.mutate i fld v)) j
          = obs (run (embitEnv f) (init d dflt) h) j)
    ∧ (embitEnv f).methods
        = (Gen.Alias.sites.filter fun s => !contractMutators.contains s.name).filterMap methodOfSite := by
  have hsafe := embit_descriptors_safe f
  have hr : Reachable (embitEnv f) (run (embitEnv f) (init d dflt) h) := ⟨d, dflt, h, rfl⟩
  refine ⟨fun k hk ops => no_arg_mutation (embitEnv f) hsafe.1 hsafe.2.2 _ hr k hk ops,
    fun i j fld v hij hj => (independence (embitEnv f) hsafe.1 _ hr i j fld v hij hj).1, ?_⟩
  show (Gen.Alias.sites.filter inScope).filterMap methodOfSite = _
  have hf : Gen.Alias.sites.filter inScope = Gen.Alias.sites.filter fun s => !contractMutators.contains s.name :=
    List.filter_congr fun s _ => knownUnsafe_is_empty.2 s
  rw [hf]

/-- non-vacuity: the safe environment has classes and methods, none of them mutating; with the D31 records back there
    would be two more methods, the only mutating ones -/
example : 0 < (embitEnv fHash).classes.length ∧ 0 < (embitEnv fHash).methods.length
    ∧ ((embitEnv fHash).methods.filter (·.mutatesArg)).length = 0
    ∧ (embitEnvWith d31Regression fHash).methods.length = (embitEnv fHash).methods.length + 2
    ∧ ((embitEnvWith d31Regression fHash).methods.filter (·.mutatesArg)).length = 2 := by
  refine ⟨?_, ?_, ?_, ?_, ?_⟩ <;> decide +kernel

/-! ### keyed memos and in-place edits of the caller's argument objects -/

section alias
open Embit.HeapAlias

/-- COPYING KEYS ARE SAFE: if every keyed memo builds its key from a copy of the argument's contents, then after ANY
    history — the caller may edit its argument objects in place at any time and hand the same object in again — every
    query answers `f m (contents of the receiver) (present contents of the argument)` -/
theorem copying_keys_safe (env : HeapAlias.Env) (hc : env.keysCopy = true) (h : List HeapAlias.Op) (i m k : Nat) :
    HeapAlias.answer env (HeapAlias.run env HeapAlias.init h) i m k
      = env.f m ((HeapAlias.run env HeapAlias.init h).recv i) ((HeapAlias.run env HeapAlias.init h).args k) :=
  answer_of_memoOk env _ (run_memoOk env h _ (Or.inl hc) (memoOk_init env)) i m k

/-- aliasing keys are harmless exactly as long as the caller never edits an argument object in place -/
theorem aliasing_keys_safe_without_in_place_edits (env : HeapAlias.Env) (h : List HeapAlias.Op)
    (hne : (h.all fun o => !o.isEdit) = true) (i m k : Nat) :
    HeapAlias.answer env (HeapAlias.run env HeapAlias.init h) i m k
      = env.f m ((HeapAlias.run env HeapAlias.init h).recv i) ((HeapAlias.run env HeapAlias.init h).args k) :=
  answer_of_memoOk env _ (run_memoOk env h _ (Or.inr hne) (memoOk_init env)) i m k

def fSum : Nat → List HeapAlias.Val → List HeapAlias.Val → HeapAlias.Val := fun _ recv a => recv.sum + 100 * a.sum

/-- WITNESS: `key = amounts` (the list itself). `t.digest(vals)`, then `vals[1] = 45` in place, then `t.digest(vals)`
    with the same list object: the stored key is that object, it compares equal to itself, and the answer is the one
    for the OLD contents (302) instead of the present ones (4602); with a copying key the second answer is right -/
theorem aliasing_key_is_stale_after_in_place_edit :
    let hist : List HeapAlias.Op := [.newObj [2], .newArg [1, 2], .query 0 0 0, .editArg 0 [1, 45]]
    let alias : HeapAlias.Env := { methods := [.aliases], f := fSum }
    let copy : HeapAlias.Env := { methods := [.copies], f := fSum }
    HeapAlias.answer alias (HeapAlias.run alias HeapAlias.init hist) 0 0 0 = 302
    ∧ alias.f 0 ((HeapAlias.run alias HeapAlias.init hist).recv 0) ((HeapAlias.run alias HeapAlias.init hist).args 0) = 4602
    ∧ HeapAlias.answer copy (HeapAlias.run copy HeapAlias.init hist) 0 0 0 = 4602
    ∧ alias.keysCopy = false ∧ copy.keysCopy = true := by
  decide

/-- a second way the aliasing key goes wrong: ANOTHER argument object with the old contents — the stored reference now
    compares as the edited contents, so the memo misses where it should hit and (worse) hits where it should miss -/
theorem aliasing_key_hits_for_a_different_argument :
    let alias : HeapAlias.Env := { methods := [.aliases], f := fSum }
    let hist : List HeapAlias.Op := [.newObj [2], .newArg [1, 2], .newArg [7, 7], .query 0 0 0, .editArg 0 [7, 7]]
    HeapAlias.answer alias (HeapAlias.run alias HeapAlias.init hist) 0 0 1 = 302
    ∧ alias.f 0 ((HeapAlias.run alias HeapAlias.init hist).recv 0) ((HeapAlias.run alias HeapAlias.init hist).args 1) = 1402 := by
  decide

/-- the keyed memos of the loaded embit modules, as extracted: one method per row of `Gen.Alias.memoKeys` -/
def embitMemoEnv (f : Nat → List HeapAlias.Val → List HeapAlias.Val → HeapAlias.Val) : HeapAlias.Env :=
  { methods := Gen.Alias.memoKeys.map fun r => if r.2 then .copies else .aliases, f := f }

/-- every keyed memo of embit stores a COPY of the argument's contents as its key (AST of the key expression and the
    in-place probe, harness/aliasfacts.py), and the table covers exactly the `memoKeyed` sites -/
theorem embit_memo_keys_copy :
    (Gen.Alias.memoKeys.all fun r => r.2) = true
    ∧ Gen.Alias.memoKeys.map (·.1) = (Gen.Alias.sites.filter fun s => s.kind == .memoKeyed).map (·.name)
    ∧ 0 < Gen.Alias.memoKeys.length := by
  refine ⟨?_, ?_, ?_⟩ <;> decide +kernel

/-- … hence embit's keyed memos answer from the present contents of receiver and argument after every history, whatever
    the caller does to its own argument lists between the calls -/
theorem embit_keyed_memos_survive_in_place_edits (f : Nat → List HeapAlias.Val → List HeapAlias.Val → HeapAlias.Val)
    (h : List HeapAlias.Op) (i m k : Nat) :
    HeapAlias.answer (embitMemoEnv f) (HeapAlias.run (embitMemoEnv f) HeapAlias.init h) i m k
      = f m ((HeapAlias.run (embitMemoEnv f) HeapAlias.init h).recv i) ((HeapAlias.run (embitMemoEnv f) HeapAlias.init h).args k) := by
  have hc : (embitMemoEnv f).keysCopy = true := by
    have h1 := embit_memo_keys_copy.1
    simp only [List.all_eq_true] at h1
    simp only [HeapAlias.Env.keysCopy, embitMemoEnv, List.all_eq_true, List.mem_map]
    rintro x ⟨r, hr, rfl⟩
    simp [h1 r hr]
  exact copying_keys_safe (embitMemoEnv f) hc h i m k

/-- non-vacuity: a history over the extracted methods with in-place edits, distinct objects and arguments -/
example :
    let env := embitMemoEnv fSum
    let st := HeapAlias.run env HeapAlias.init
      [.newObj [2], .newObj [3], .newArg [1, 2], .query 0 0 0, .editArg 0 [1, 45], .query 0 0 0, .mutate 0 5, .query 1 2 0]
    HeapAlias.answer env st 0 0 0 = 4607 ∧ HeapAlias.answer env st 1 2 0 = 4603 ∧ st.nobjs = 2 ∧ st.nargs = 1 := by
  decide +kernel

end alias

end Embit.Props.C19
