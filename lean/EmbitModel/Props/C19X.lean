import EmbitModel.Props.C19Facts
import EmbitModel.Proofs.HeapAlias
/-
  C19, deepened — the exclusion behind `facts_safe_partial` made exact, and its witness.

  `facts_safe_partial` says: every extracted site outside two name lists is safe. Here:
  * the two lists are EXACTLY the unsafe sites (`unsafe_sites_exactly`): a site of the loaded embit modules is unsafe if
    and only if its name is in `d31Sites` (the recorded defect D31, known_findings.json) or in `contractMutators`
    (in-place by documented contract, outside the property) — so no name can be dropped from either list, and nothing
    else hides behind them (each name denotes exactly one site: `excluded_names_denote_one_site_each`);
  * the environment extracted with ONLY the contract mutators removed — i.e. with the D31 sites left in — is not safe
    (`d31_sites_make_the_environment_unsafe`), and the D31 history `k = Key(pub); Descriptor(key=k, taproot=True)`
    changes the caller's key object in the heap model, which changes what a later call on `k` answers;
  * with exactly the D31 sites removed by name on top, the environment is safe and no history changes an argument
    (`embit_safe_without_d31`: Part 1 of Props/C19.lean instantiated).

  Second part — a pattern `Model/Heap.lean` does not cover: THE CALLER EDITS ITS OWN ARGUMENT OBJECT IN PLACE between two
  calls (`Model/HeapAlias.lean`). A keyed memo whose key COPIES the argument's contents answers `f(receiver, argument)`
  after every history, in-place edits included (`copying_keys_safe`); a key that ALIASES the caller's object answers
  from the past after an in-place edit (`aliasing_key_is_stale_after_in_place_edit`) — and only then
  (`aliasing_keys_safe_without_in_place_edits`). The key kinds of embit's keyed memos are extracted
  (`Gen.Alias.memoKeys`: AST of the key expression + a probe that edits the caller's list and its elements in place):
  all copy (`embit_memo_keys_copy`), so `embit_keyed_memos_survive_in_place_edits`.
-/
namespace Embit.Props.C19
open Embit Embit.Heap

/-- the sites of the recorded, unrepaired defect D31, by name: the two constructors that assign `k.taproot` on the
    caller's key objects, and the three always-on probes that reproduce it -/
def d31Sites : List String := [
  "descriptor.descriptor.Descriptor.__init__[k]",
  "descriptor.taptree.TapTree.__init__[k]",
  "probe:Descriptor(key=k) twice with different taproot flags",
  "probe:Descriptor(key=k, taproot=True) leaves k unchanged",
  "probe:TapTree(leaf) leaves the keys of the leaf unchanged"]

/-- the list literal above is the list `facts_safe_partial` excludes -/
theorem d31Sites_eq_knownUnsafe : d31Sites = knownUnsafe := rfl

set_option maxRecDepth 100000

/-- EXACT: a site is unsafe iff it is a D31 site or a contract mutator (stronger than `facts_safe_partial`, which is
    the direction "outside the lists ⇒ safe") -/
theorem unsafe_sites_exactly :
    (Gen.Alias.sites.all fun s => (!s.safe) == (d31Sites.contains s.name || contractMutators.contains s.name)) = true := by
  decide +kernel

/-- every excluded name denotes exactly one extracted site (no name is stale, none matches several sites), and the
    two lists do not overlap -/
theorem excluded_names_denote_one_site_each :
    ((d31Sites ++ contractMutators).all fun n => (Gen.Alias.sites.filter (·.name == n)).length == 1) = true
    ∧ (d31Sites.all fun n => !contractMutators.contains n) = true := by
  constructor <;> decide +kernel

/-- the library as extracted with ONLY the contract mutators left out: the D31 sites are in -/
def embitEnvWithD31 (f : Nat → List (List Val) → List Val → Val) : Env :=
  { classes := (Gen.Alias.sites.filter inScope).filterMap classOfSite,
    methods := (Gen.Alias.sites.filter fun s => !contractMutators.contains s.name).filterMap methodOfSite,
    defaultRef := fun c p => c + p, f := f }

/-- position of a site's method in that environment -/
def methodIndexWithD31 (name : String) : Nat :=
  (((Gen.Alias.sites.filter fun s => !contractMutators.contains s.name).filter
      fun s => (methodOfSite s).isSome).map (·.name)).idxOf name

/-- a digest that sees every cell of the argument (`fHash` sums, and the model's in-place write appends a 0) -/
def fSees : Nat → List (List Val) → List Val → Val := fun _ recv a => recv.flatten.sum + 100 * a.length

/-- WITNESS (D31 in the heap model): with the D31 sites the environment is not safe, and the history
    `k = Key(pub)  [newArg]; Descriptor(key=k, taproot=True)  [the constructor as a call on k]` changes the caller's
    object `k`; a call that answered `f … [0]` on `k` before answers `f … [0, 0]` afterwards (different for a digest that reads all of `k`) — for both D31
    constructors -/
theorem d31_sites_make_the_environment_unsafe :
    (embitEnvWithD31 fSees).noArgMutation = false
    ∧ (["descriptor.descriptor.Descriptor.__init__[k]", "descriptor.taptree.TapTree.__init__[k]"].all fun site =>
        let env := embitEnvWithD31 fSees
        let m := methodIndexWithD31 site
        let st := run env (init 64 fun _ => []) [.construct 0 [], .newArg [0]]
        let st' := step env st (.query 0 m 0)
        m < env.methods.length && argObs st 0 == [0] && argObs st' 0 == [0, 0]
          && answer env st 0 0 0 != answer env st' 0 0 0) = true := by
  constructor <;> decide +kernel

/-- with exactly the D31 sites (and the contract mutators) removed by name, the extracted environment is the safe
    `embitEnv`: removing `d31Sites` from `embitEnvWithD31` gives it back -/
theorem embitEnv_is_embitEnvWithD31_minus_d31 (f : Nat → List (List Val) → List Val → Val) :
    (embitEnv f).methods
      = ((Gen.Alias.sites.filter fun s => !contractMutators.contains s.name).filter
          fun s => !d31Sites.contains s.name).filterMap methodOfSite
    ∧ (embitEnv f).classes = (embitEnvWithD31 f).classes := by
  refine ⟨?_, rfl⟩
  show (Gen.Alias.sites.filter inScope).filterMap methodOfSite = _
  rw [List.filter_filter]
  rfl

/-- SAFE WITHOUT D31: in every history over the extracted constructors and methods other than the D31 sites (and the
    contract mutators) no argument object the caller holds is ever changed, objects are independent, and answers are
    functions of receiver and arguments -/
theorem embit_safe_without_d31 (f : Nat → List (List Val) → List Val → Val) (d : Nat) (dflt : Nat → List Val)
    (h : List Op) :
    (∀ k, k < (run (embitEnv f) (init d dflt) h).pool.length → ∀ ops,
        argObs (run (embitEnv f) (run (embitEnv f) (init d dflt) h) ops) k = argObs (run (embitEnv f) (init d dflt) h) k)
    ∧ (∀ i j fld v, i ≠ j → j < (run (embitEnv f) (init d dflt) h).objs.length →
        obs (step (embitEnv f) (run (embitEnv f) (init d dflt) h) (.mutate i fld v)) j
          = obs (run (embitEnv f) (init d dflt) h) j) := by
  have hsafe := embit_descriptors_safe f
  have hr : Reachable (embitEnv f) (run (embitEnv f) (init d dflt) h) := ⟨d, dflt, h, rfl⟩
  exact ⟨fun k hk ops => no_arg_mutation (embitEnv f) hsafe.1 hsafe.2.2 _ hr k hk ops,
    fun i j fld v hij hj => (independence (embitEnv f) hsafe.1 _ hr i j fld v hij hj).1⟩

/-- non-vacuity: the safe environment has classes and methods, and the D31 methods are the only mutating ones of
    `embitEnvWithD31` -/
example : 0 < (embitEnv fHash).classes.length ∧ 0 < (embitEnv fHash).methods.length
    ∧ (embitEnvWithD31 fHash).methods.length = (embitEnv fHash).methods.length + 2
    ∧ ((embitEnvWithD31 fHash).methods.filter (·.mutatesArg)).length = 2 := by
  refine ⟨?_, ?_, ?_, ?_⟩ <;> decide +kernel

/-! ### keyed memos and in-place edits of the caller's argument objects -/

section alias
open Embit.HeapAlias

/-- COPYING KEYS ARE SAFE: if every keyed memo builds its key from a copy of the argument's contents, then after ANY
    history — the caller may edit its argument objects in place at any time and hand the same object in again — every
    query answers `f m (contents of the receiver) (present contents of the argument)` -/
theorem copying_keys_safe (env : HeapAlias.Env) (hc : env.keysCopy = true) (h : List HeapAlias.Op) (i m k : Nat) :
    HeapAlias.answer env (HeapAlias.run env HeapAlias.init h) i m k
      = env.f m ((HeapAlias.run env HeapAlias.init h).recv i) ((HeapAlias.run env HeapAlias.init h).args k) :=
  answer_of_memoOk env _ (run_memoOk env h _ (Or.inl hc) (memoOk_init env)) i m k

/-- aliasing keys are harmless exactly as long as the caller never edits an argument object in place -/
theorem aliasing_keys_safe_without_in_place_edits (env : HeapAlias.Env) (h : List HeapAlias.Op)
    (hne : (h.all fun o => !o.isEdit) = true) (i m k : Nat) :
    HeapAlias.answer env (HeapAlias.run env HeapAlias.init h) i m k
      = env.f m ((HeapAlias.run env HeapAlias.init h).recv i) ((HeapAlias.run env HeapAlias.init h).args k) :=
  answer_of_memoOk env _ (run_memoOk env h _ (Or.inr hne) (memoOk_init env)) i m k

def fSum : Nat → List HeapAlias.Val → List HeapAlias.Val → HeapAlias.Val := fun _ recv a => recv.sum + 100 * a.sum

/-- WITNESS: `key = amounts` (the list itself). `t.digest(vals)`, then `vals[1] = 45` in place, then `t.digest(vals)`
    with the same list object: the stored key is that object, it compares equal to itself, and the answer is the one
    for the OLD contents (302) instead of the present ones (4602); with a copying key the second answer is right -/
theorem aliasing_key_is_stale_after_in_place_edit :
    let hist : List HeapAlias.Op := [.newObj [2], .newArg [1, 2], .query 0 0 0, .editArg 0 [1, 45]]
    let alias : HeapAlias.Env := { methods := [.aliases], f := fSum }
    let copy : HeapAlias.Env := { methods := [.copies], f := fSum }
    HeapAlias.answer alias (HeapAlias.run alias HeapAlias.init hist) 0 0 0 = 302
    ∧ alias.f 0 ((HeapAlias.run alias HeapAlias.init hist).recv 0) ((HeapAlias.run alias HeapAlias.init hist).args 0) = 4602
    ∧ HeapAlias.answer copy (HeapAlias.run copy HeapAlias.init hist) 0 0 0 = 4602
    ∧ alias.keysCopy = false ∧ copy.keysCopy = true := by
  decide

/-- a second way the aliasing key goes wrong: ANOTHER argument object with the old contents — the stored reference now
    compares as the edited contents, so the memo misses where it should hit and (worse) hits where it should miss -/
theorem aliasing_key_hits_for_a_different_argument :
    let alias : HeapAlias.Env := { methods := [.aliases], f := fSum }
    let hist : List HeapAlias.Op := [.newObj [2], .newArg [1, 2], .newArg [7, 7], .query 0 0 0, .editArg 0 [7, 7]]
    HeapAlias.answer alias (HeapAlias.run alias HeapAlias.init hist) 0 0 1 = 302
    ∧ alias.f 0 ((HeapAlias.run alias HeapAlias.init hist).recv 0) ((HeapAlias.run alias HeapAlias.init hist).args 1) = 1402 := by
  decide

/-- the keyed memos of the loaded embit modules, as extracted: one method per row of `Gen.Alias.memoKeys` -/
def embitMemoEnv (f : Nat → List HeapAlias.Val → List HeapAlias.Val → HeapAlias.Val) : HeapAlias.Env :=
  { methods := Gen.Alias.memoKeys.map fun r => if r.2 then .copies else .aliases, f := f }

/-- every keyed memo of embit stores a COPY of the argument's contents as its key (AST of the key expression and the
    in-place probe, harness/aliasfacts.py), and the table covers exactly the `memoKeyed` sites -/
theorem embit_memo_keys_copy :
    (Gen.Alias.memoKeys.all fun r => r.2) = true
    ∧ Gen.Alias.memoKeys.map (·.1) = (Gen.Alias.sites.filter fun s => s.kind == .memoKeyed).map (·.name)
    ∧ 0 < Gen.Alias.memoKeys.length := by
  refine ⟨?_, ?_, ?_⟩ <;> decide +kernel

/-- … hence embit's keyed memos answer from the present contents of receiver and argument after every history, whatever
    the caller does to its own argument lists between the calls -/
theorem embit_keyed_memos_survive_in_place_edits (f : Nat → List HeapAlias.Val → List HeapAlias.Val → HeapAlias.Val)
    (h : List HeapAlias.Op) (i m k : Nat) :
    HeapAlias.answer (embitMemoEnv f) (HeapAlias.run (embitMemoEnv f) HeapAlias.init h) i m k
      = f m ((HeapAlias.run (embitMemoEnv f) HeapAlias.init h).recv i) ((HeapAlias.run (embitMemoEnv f) HeapAlias.init h).args k) := by
  have hc : (embitMemoEnv f).keysCopy = true := by
    have h1 := embit_memo_keys_copy.1
    simp only [List.all_eq_true] at h1
    simp only [HeapAlias.Env.keysCopy, embitMemoEnv, List.all_eq_true, List.mem_map]
    rintro x ⟨r, hr, rfl⟩
    simp [h1 r hr]
  exact copying_keys_safe (embitMemoEnv f) hc h i m k

/-- non-vacuity: a history over the extracted methods with in-place edits, distinct objects and arguments -/
example :
    let env := embitMemoEnv fSum
    let st := HeapAlias.run env HeapAlias.init
      [.newObj [2], .newObj [3], .newArg [1, 2], .query 0 0 0, .editArg 0 [1, 45], .query 0 0 0, .mutate 0 5, .query 1 2 0]
    HeapAlias.answer env st 0 0 0 = 4607 ∧ HeapAlias.answer env st 1 2 0 = 4603 ∧ st.nobjs = 2 ∧ st.nargs = 1 := by
  decide +kernel

end alias

end Embit.Props.C19
