import EmbitModel.Proofs.ReadVout
import EmbitModel.Model.Psbt
import EmbitModel.Props.C03
/-
  C06 — previous-output verification binds amounts and scripts to the spent txid.
  `sha` is SHA-256 as an arbitrary function: the statements are about pre-images; the step from "different
  pre-image" to "different txid" is collision resistance of SHA-256d (an assumption, named where used).
-/
set_option linter.unusedSimpArgs false
namespace Embit.Props.C06
open Embit Model Spec.Wire

/-- the memory-saving (streamed) reader returns exactly what the full parser yields: output `idx` of the
    transaction and the hash of its witness-stripped encoding — for every byte string -/
theorem readVout_eq_parse (sha : Bytes → Bytes) (idx : Nat) (b : Bytes) :
    Tx.readVout sha idx b =
      match Tx.read b with
      | some (t, r) => (match t.vout[idx]? with
        | some o => some ((o, Tx.hash sha t), r)
        | none => none)
      | none => none := Tx.readVout_eq sha idx b

/-- on a complete value: streamed = parse-then-project; an out-of-range index is refused -/
theorem readVoutAll_eq (sha : Bytes → Bytes) (v : Bytes) (idx : Nat) :
    readVoutAll sha v idx =
      match Tx.parse v with
      | some t => (match t.vout[idx]? with
        | some o => some (o, Tx.hash sha t)
        | none => none)
      | none => none := by
  unfold readVoutAll Tx.parse parseAll
  rw [readVout_eq_parse]
  cases h : Tx.read v with
  | none => rfl
  | some p =>
    obtain ⟨t, r⟩ := p
    cases r with
    | nil => cases hv : t.vout[idx]? <;> simp [hv]
    | cons x xs => cases hv : t.vout[idx]? <;> simp [hv]

/-- **verification succeeds only if the hash matches**: full mode -/
theorem verify_full_iff (sha : Bytes → Bytes) (s : InScope) (t : Tx) (ign : Bool)
    (hn : s.nonWitnessUtxo = some t) (hh : s.txhash = none) (s' : InScope)
    (h : InScope.verify sha s ign = some (true, s')) : s.txid = some (Spec.Wire.txid sha t) := by
  unfold InScope.verify at h
  simp only [hn, hh, Option.isSome_some, Bool.true_or, if_true, InScope.expectedTxid, Option.map_some] at h
  split at h
  · rename_i hc
    simp only [Bool.and_eq_true, beq_iff_eq] at hc
    rw [hc.2, Props.C03.txid_spec]
  · simp at h

/-- **verification succeeds only if the hash matches**: streamed mode (the scope holds the hash computed by
    `read_vout` while streaming, see `readVoutAll_eq`) -/
theorem verify_streamed_iff (sha : Bytes → Bytes) (s : InScope) (h32 : Bytes) (ign : Bool)
    (hh : s.txhash = some h32) (s' : InScope)
    (h : InScope.verify sha s ign = some (true, s')) : s.txid = some h32.reverse := by
  unfold InScope.verify at h
  simp only [hh, Option.isSome_some, Bool.or_true, if_true, InScope.expectedTxid] at h
  split at h
  · rename_i hc
    simp only [Bool.and_eq_true, beq_iff_eq] at hc
    exact hc.2
  · simp at h

/-- verification never succeeds without previous-transaction data -/
theorem verify_needs_prev (sha : Bytes → Bytes) (s : InScope) (ign : Bool)
    (hn : s.nonWitnessUtxo = none) (hh : s.txhash = none) (s' : InScope) :
    InScope.verify sha s ign ≠ some (true, s') := by
  unfold InScope.verify
  cases ign <;> simp [hn, hh]

/-- `verify` changes nothing but the `verified` flag -/
theorem verify_frame (sha : Bytes → Bytes) (s s' : InScope) (ign ok : Bool)
    (h : InScope.verify sha s ign = some (ok, s')) : s' = s ∨ s' = { s with verified := true } := by
  unfold InScope.verify at h
  repeat' (split at h)
  all_goals (simp at h)
  all_goals (first | exact Or.inr h.2.symm | exact Or.inl h.2.symm)

/-- **after successful verification the amount and script in use are those of the verified previous output**:
    an accompanying `witness_utxo` that contradicts it makes verification fail -/
theorem verified_utxo_is_prev_output (sha : Bytes → Bytes) (s s' : InScope) (ign : Bool)
    (h : InScope.verify sha s ign = some (true, s')) (hw : s.witnessUtxo.isSome ∨ s.prevOut.isSome) :
    s'.utxo = s.prevOut ∧ s'.verified = true := by
  unfold InScope.verify at h
  repeat' (split at h)
  all_goals (simp at h)
  · rename_i hw
    subst h
    refine ⟨?_, rfl⟩
    simp only [InScope.utxo, InScope.prevOut, hw]
  · rename_i w hw hpw
    subst h
    refine ⟨?_, rfl⟩
    simp only [InScope.utxo, hw, hpw]
    cases hs : s.utxoS with
    | none => rfl
    | some o => simp [InScope.prevOut, hs] at hpw; simp [hpw]

/-- the fee/sighash accessor of the PSBT returns the verified output for a verified input -/
theorem psbt_utxo_verified (p : Psbt) (i : Nat) (s : InScope) (hs : p.inputs[i]? = some s)
    (hv : s.verified = true) : p.utxo i = s.utxo := by
  simp [Psbt.utxo, hs, hv]

/-- two previous transactions that differ after witness stripping have different hash pre-images: accepting an
    altered previous transaction under the same txid therefore exhibits a SHA-256d collision
    (`sha (sha a) = sha (sha b)` with `a ≠ b`) -/
theorem altered_prev_is_collision (sha : Bytes → Bytes) (t t' : Tx) (hwf : WF t) (hwf' : WF t')
    (hne : ({ t with vin := t.vin.map clearWitness } : Tx) ≠ { t' with vin := t'.vin.map clearWitness })
    (hsame : Spec.Wire.txid sha t = Spec.Wire.txid sha t') :
    encodeLegacy t ≠ encodeLegacy t' ∧ sha (sha (encodeLegacy t)) = sha (sha (encodeLegacy t')) := by
  refine ⟨?_, ?_⟩
  · intro he
    apply hne
    -- the stripped transactions are well-formed and have the same wire encoding, hence are equal
    have strip_wf : ∀ u : Tx, WF u → WF { u with vin := u.vin.map clearWitness } := by
      intro u hu
      refine ⟨hu.version, hu.locktime, by simpa using hu.nin, by simpa using hu.ninLt, hu.noutLt, ?_, hu.outs⟩
      intro i hi
      simp at hi
      obtain ⟨j, hj, rfl⟩ := hi
      have := hu.ins j hj
      exact ⟨this.txid, this.vout, this.script, this.sequence, by simp [clearWitness], by simp [clearWitness]⟩
    have strip_enc : ∀ u : Tx, encode { u with vin := u.vin.map clearWitness } = encodeLegacy u := by
      intro u
      have hw : hasWitness { u with vin := u.vin.map clearWitness } = false := by
        simp [hasWitness, clearWitness]
      have : (u.vin.map clearWitness).flatMap encIn = u.vin.flatMap encIn := by
        rw [List.flatMap_map]; rfl
      simp [encode, hw, encodeLegacy, this]
    exact Props.C03.wire_unique (encodeLegacy t) _ _
      ⟨strip_wf t hwf, strip_enc t⟩ ⟨strip_wf t' hwf', by rw [strip_enc t', he]⟩
  · have := congrArg List.reverse hsame
    simpa [Spec.Wire.txid] using this

/-! ### non-vacuity -/
example : ∃ s : InScope, s.prevOut.isSome ∧ s.nonWitnessUtxo.isSome :=
  ⟨{ nonWitnessUtxo := some C03.exLegacy, vout := some 0 }, by decide, by decide⟩

end Embit.Props.C06
