import EmbitModel.Proofs.SignRecoverable
import EmbitModel.Proofs.ToyCurve
import EmbitModel.Props.C08
/-
  C08X — the two recoverable-signature primitives of C08 (pure-python secp256k1 fallback interchangeable with
  libsecp256k1), which `Props/C08.lean` only corresponded.

  * `ecdsa_recover`: py computes `u1·R − u2·G` with `u1 = s/r`, `u2 = z/r` from its own candidate list and then
    re-verifies the signature under the recovered key; the contract is SEC 1 §4.1.6 `Q = r⁻¹(sR − zG)` with the
    candidate chosen by the recovery id. Relative to `EcLaws E` they return the same bytes or both reject, for ALL
    65-byte structures, messages and recovery ids (wrong lengths, r or s ≥ n, r = 0, s = 0, ids ≥ 4, `r + n ≥ p`,
    abscissas off the curve, a recovered point at infinity included).
  * `ecdsa_sign_recoverable`: py signs and then SEARCHES the recovery id by trial recovery, libsecp256k1 computes it
    from the nonce point. They are proved equal away from an explicit decidable region (`recidSearchSafe`), in
    which the code really differs: witness theorems on the toy curve for both parts of the region. On secp256k1 a
    witness cannot be exhibited: it needs a nonce point with `x(R) ≥ n` (a 2^-128 event; finding such a nonce is
    a discrete-logarithm problem) or `2z + r·d ≡ 0 (mod n)` (2^-256).
-/
namespace Embit.Props.C08X
open Embit Embit.Model Embit.Model.PySecp

variable (E : EcOps) (H : HashOps)

/-- `ecdsa_recover` under both backends: same 64-byte key structure or both reject, for every 65-byte (or
    wrong-length) structure and every message -/
theorem py_eq_contract_ecdsa_recover (L : EcLaws E) (hn : E.n ≤ 2 ^ 256) (hp : E.p ≤ 2 ^ 256) (sig msg : Bytes) :
    ecdsaRecover E sig msg = Spec.Libsecp.ecdsa_recover E sig msg :=
  eq_ecdsa_recover E L hn hp sig msg

/-- the re-verification at the end of py's `ecdsa_recover` never rejects a recovered key: for `R = cG` and
    `Q = r⁻¹(sR − zG)` the verification point `z/s·G + r/s·Q` is `R` (so the two formulations cannot differ there) -/
theorem recovered_key_verifies (L : EcLaws E) (r s z c e : Nat) (hr : 0 < r ∧ r < E.n) (hs : 0 < s ∧ s < E.n)
    (he : (e : ZMod E.n) = (E.invN r : ZMod E.n) * ((s : ZMod E.n) * c - z)) :
    E.add (E.mul (z * E.invN s % E.n) E.g) (E.mul (r * E.invN s % E.n) (E.mul e E.g)) = E.mul c E.g :=
  reverify_point L r s z c e hr hs he

/-- `ecdsa_sign_recoverable` under both backends: same 65 bytes or both reject, for every message and key, away
    from (i) the region of `py_eq_contract_ecdsa_sign_partial` (first valid RFC 6979 candidate gives r = 0 or
    s = 0) and (ii) the region `recidSearchSafe = false`: the nonce point has `x(R) ≥ n` (recovery id 2 or 3), or
    the id is 1 and `2z + r·d ≡ 0 (mod n)`. `FiniteMultiples E`: the points `aG`, `0 < a < n`, are finite. -/
theorem py_eq_contract_ecdsa_sign_recoverable_partial (L : EcLaws E) (hn : E.n < 2 ^ 256) (hodd : E.n % 2 = 1)
    (hp : E.p ≤ 2 ^ 256) (hfinite : FiniteMultiples E) (fuel : Nat) (msg secret : Bytes)
    (hgood : ∀ k, deterministicK H fuel E.n (ofBe secret) (ofBe msg) none = some k →
      (Spec.Ecdsa.signWith E (ofBe secret) (ofBe msg) k).isSome)
    (hsafe : recidSearchSafe E H fuel msg secret = true) :
    ecdsaSignRecoverable E H fuel msg secret = Spec.Libsecp.ecdsa_sign_recoverable E H fuel msg secret :=
  eq_ecdsa_sign_recoverable_partial E H L hn hodd hp hfinite fuel msg secret hgood hsafe

/-- the recovery id the contract attaches is the one its own `ecdsa_recover` needs: recovering from the output of
    `ecdsa_sign_recoverable` gives the signer's public key (inside the safe region) -/
theorem recid_recovers_signer (L : EcLaws E) (k d z xR yR r s : Nat) (hk : 0 < k ∧ k < E.n)
    (hK : E.xy (E.mul k E.g) = some (xR, yR)) (hxn : xR < E.n) (hr : r = xR % E.n)
    (hs : s = (E.invN k * (z + r * d)) % E.n) (hr0 : r ≠ 0) (hs0 : s ≠ 0)
    (hfin : (E.xy (E.mul d E.g)).isSome = true) :
    Spec.Libsecp.recoverPoint E r (Spec.Ecdsa.normalizeS E s) z (nonceRecid E xR yR s) = some (E.mul d E.g) :=
  recover_right L k d z xR yR r s hk hK hxn hr hs hr0 hs0 hfin

/-! ### witnesses for the excluded region (toy curve `y² = x³ + 7` over 𝔽₄₃, n = 31; nonce fixed by a constant HMAC) -/

/-- a hash record whose HMAC always returns `k`: RFC 6979 then yields the nonce `k` -/
def constH (k : Nat) : HashOps := { sha256 := id, hmac256 := fun _ _ => beN 32 k }

/-- `x(R) ≥ n`: nonce 3, `R = 3G = (35, 21)`, `r = 4`. libsecp256k1's contract answers with recovery id 3; py tries
    id 0 first, i.e. the abscissa 4, which is not on the curve — `ECPubKey.set` fails and the loop is left by the
    exception -/
theorem sign_recoverable_differs_when_x_ge_n :
    ecdsaSignRecoverable toyCurve (constH 3) 2 (beN 32 1) (beN 32 1) = none ∧
    Spec.Libsecp.ecdsa_sign_recoverable toyCurve (constH 3) 2 (beN 32 1) (beN 32 1)
      = some (leN 32 4 ++ leN 32 12 ++ [3]) ∧
    recidSearchSafe toyCurve (constH 3) 2 (beN 32 1) (beN 32 1) = false := by
  decide +kernel

/-- id 1 with `2z + r·d ≡ 0`: nonce 2, `R = 2G = (7, 7)`, `r = 7`, `d = 3`, `z = 5` (`2·5 + 7·3 = 31`). The wrong
    candidate tried first (id 0) recovers the point at infinity, whose serialisation raises; the contract
    answers id 1 -/
theorem sign_recoverable_differs_when_wrong_candidate_is_infinite :
    ecdsaSignRecoverable toyCurve (constH 2) 2 (beN 32 5) (beN 32 3) = none ∧
    Spec.Libsecp.ecdsa_sign_recoverable toyCurve (constH 2) 2 (beN 32 5) (beN 32 3)
      = some (leN 32 7 ++ leN 32 13 ++ [1]) ∧
    recidSearchSafe toyCurve (constH 2) 2 (beN 32 5) (beN 32 3) = false := by
  decide +kernel

/-- the region `x(R) ≥ n` is an over-approximation: when `r = x(R) − n` happens to be an abscissa too (here
    `R = 15G = (38, 21)`, `r = 7`), py's search gets through ids 0, 1, 2 and finds id 3 as well -/
theorem sign_recoverable_agrees_at_a_lucky_x_ge_n :
    ecdsaSignRecoverable toyCurve (constH 15) 2 (beN 32 6) (beN 32 3)
      = Spec.Libsecp.ecdsa_sign_recoverable toyCurve (constH 15) 2 (beN 32 6) (beN 32 3) ∧
    (Spec.Libsecp.ecdsa_sign_recoverable toyCurve (constH 15) 2 (beN 32 6) (beN 32 3)).isSome = true ∧
    recidSearchSafe toyCurve (constH 15) 2 (beN 32 6) (beN 32 3) = false := by
  decide +kernel

/-! ### non-vacuity -/

example : EcLaws toyCurve := toyCurve_laws
example : FiniteMultiples toyCurve := by
  have H : ∀ a, a < 31 → 0 < a → (toyCurve.xy (toyCurve.mul a toyCurve.g)).isSome = true := by decide +kernel
  intro a h0 h1
  exact H a h1 h0
example : toyCurve.n < 2 ^ 256 ∧ toyCurve.n % 2 = 1 ∧ toyCurve.p ≤ 2 ^ 256 := by decide
/-- inside the safe region both ids occur: id 0 (first candidate) and id 1 (the search goes on past a finite wrong key) -/
example : recidSearchSafe toyCurve (constH 2) 2 (beN 32 6) (beN 32 3) = true ∧
    ecdsaSignRecoverable toyCurve (constH 2) 2 (beN 32 6) (beN 32 3) = some (leN 32 7 ++ leN 32 2 ++ [0]) := by
  decide +kernel
example : recidSearchSafe toyCurve (constH 2) 2 (beN 32 1) (beN 32 3) = true ∧
    ecdsaSignRecoverable toyCurve (constH 2) 2 (beN 32 1) (beN 32 3) = some (leN 32 7 ++ leN 32 11 ++ [1]) := by
  decide +kernel
/-- recovery with id 2 (`x = r + n = 35`): both formulations give the same key structure -/
example : ecdsaRecover toyCurve (leN 32 4 ++ leN 32 5 ++ [2]) (beN 32 9)
    = Spec.Libsecp.ecdsa_recover toyCurve (leN 32 4 ++ leN 32 5 ++ [2]) (beN 32 9) ∧
    (ecdsaRecover toyCurve (leN 32 4 ++ leN 32 5 ++ [2]) (beN 32 9)).isSome = true := by
  decide +kernel
/-- … and both refuse id 0 there (abscissa 4 is not on the curve) and id 2 when `r + n ≥ p` -/
example : ecdsaRecover toyCurve (leN 32 4 ++ leN 32 5 ++ [0]) (beN 32 9) = none ∧
    Spec.Libsecp.ecdsa_recover toyCurve (leN 32 4 ++ leN 32 5 ++ [0]) (beN 32 9) = none ∧
    ecdsaRecover toyCurve (leN 32 12 ++ leN 32 5 ++ [2]) (beN 32 9) = none ∧
    Spec.Libsecp.ecdsa_recover toyCurve (leN 32 12 ++ leN 32 5 ++ [2]) (beN 32 9) = none := by
  decide +kernel

end Embit.Props.C08X
