import EmbitModel.Proofs.ViewFrame
import EmbitModel.Props.C01
import EmbitModel.Props.C02
/-
  C01X — the three signature-hash entry points of embit agree and yield the consensus digest.

    Transaction.sighash_*            Model.sighashLegacy / sighashSegwit / sighashTaproot      (Props/C01)
    PSBT.sighash(i, flag, …)         Model.Psbt.sighash      = dispatch + Transaction methods on `PSBT.tx`
    PSBTView.sighash(i, flag, …)     Model.View.sighash      = dispatch + the view's OWN streaming copies
                                                               (hash_prevouts … over vin(i) / vout(j) at offsets)

  (1) `view_*_eq_memory`: whenever the view's accessors describe a transaction `t` (`ViewObs`), the streaming
      digests are the in-memory digests of `t` — every index, every flag (also refused ones), every argument.
  (2) `entry_points_agree_v0_partial` / `_v2_partial`: for every byte string `PSBT.parse(b, compress=c)` accepts,
      embedded at any offset of any stream, and every reader mode `c`, `PSBTView.sighash` = `PSBT.sighash` for
      every input index, flag and taproot argument (composition with the refinement of Props/C05X, re-proved for
      every mode in Proofs/ViewFrame.lean). The excluded regions are those of C05X (v0: a PSBTv2 count key in the
      global scope; v2: a missing count key), plus — for version 2 — scopes without their transaction fields
      (`PSBT.tx` undefined). Witness for the v0 region: `v0_count_key_sighash_differs`.
  (3) `psbt_sighash_*_consensus`, `all_entry_points_*`: what both compute is the consensus digest
      (Spec.Consensus: Satoshi legacy / BIP143 / BIP341) of `PSBT.tx` under the script code `sighashDispatch`
      selects; with Props/C02's `dispatch_*` this gives the digest per script type (`p2wpkh_all_entry_points` …).

  All statements hold for every hash function `sha` (equality of pre-images) and every key validator `ko`.
  Finding fixed on the way (C01X-D46): a PSBTv2 without PSBT_GLOBAL_TX_VERSION was hashed with nVersion 2 by
  `PSBT.sighash` and nVersion 0 by `PSBTView.sighash`; after the `fix:` commit both use 2.
-/
set_option linter.unusedSimpArgs false
set_option linter.unusedVariables false
set_option maxRecDepth 100000
namespace Embit.Props.C01X
open Embit Model Spec.Wire Spec.Consensus Props.C05X

/-! ### (1) streaming digest = in-memory digest -/

/-- `PSBTView.sighash_legacy` streams the same digest `Transaction.sighash_legacy` computes in memory -/
theorem view_legacy_eq_memory (sha : Bytes → Bytes) (buf : Bytes) (v : View) (t : Tx) (o : ViewObs buf v t)
    (idx : Nat) (sc : Bytes) (f : Nat) :
    View.sighashLegacy sha buf v idx sc f = sighashLegacy sha t idx sc f :=
  View.sighashLegacy_eq sha buf v t o idx sc f

/-- `PSBTView.sighash_segwit` (hash_prevouts / hash_sequence / hash_outputs streamed) = `Transaction.sighash_segwit` -/
theorem view_segwit_eq_memory (sha : Bytes → Bytes) (buf : Bytes) (v : View) (t : Tx) (o : ViewObs buf v t)
    (idx : Nat) (sc : Bytes) (value f : Nat) :
    View.sighashSegwit sha buf v idx sc value f = sighashSegwit sha t idx sc value f :=
  View.sighashSegwit_eq sha buf v t o idx sc value f

/-- `PSBTView.sighash_taproot` = `Transaction.sighash_taproot` -/
theorem view_taproot_eq_memory (sha : Bytes → Bytes) (buf : Bytes) (v : View) (t : Tx) (o : ViewObs buf v t)
    (idx : Nat) (spks : List Bytes) (values : List Nat) (f extFlag : Nat) (annex script : Option Bytes)
    (leafVer : Nat) (codesep : Option Nat) :
    View.sighashTaproot sha buf v idx spks values f extFlag annex script leafVer codesep
      = sighashTaproot sha t idx spks values f extFlag annex script leafVer codesep :=
  View.sighashTaproot_eq sha buf v t o idx spks values f extFlag annex script leafVer codesep

/-! ### (2) PSBTView.sighash = PSBT.sighash on every accepted PSBT, at every offset, in every reader mode -/

/-- version 0 -/
theorem entry_points_agree_v0_partial (ko : KeyOps) (sha : Bytes → Bytes) (c : Nat) (pre post b : Bytes) (p : Psbt)
    (h : Psbt.parse ko sha c b = some p)
    (htx : ∃ x, ([0x00], x) ∈ globalKVs b)
    (hcnt : ∀ kv ∈ globalKVs b, kv.1 ≠ [0x04] ∧ kv.1 ≠ [0x05]) :
    ∃ (t : Tx) (v : View), p.tx = some t ∧ View.open (pre ++ (b ++ post)) pre.length = some v
      ∧ ViewObs (pre ++ (b ++ post)) v t
      ∧ ∀ (i f : Nat) (x : TapExtra),
          View.sighash ko sha (pre ++ (b ++ post)) v c i f x = Psbt.sighash sha p i f x := by
  obtain ⟨t, v, ptx, vo, obs⟩ := view_of_parse_v0 ko sha c pre post b p h htx hcnt
  exact ⟨t, v, ptx, vo.opened, obs, fun i f x =>
    View.sighash_eq_psbt ko sha _ v c p t obs ptx vo.numIn vo.input i f x⟩

/-- version 2 (both counts present, every scope carries its transaction fields so that `PSBT.tx` is defined) -/
theorem entry_points_agree_v2_partial (ko : KeyOps) (sha : Bytes → Bytes) (c : Nat) (pre post b : Bytes) (p : Psbt)
    (t : Tx) (h : Psbt.parse ko sha c b = some p) (hv : p.version = some 2)
    (h4 : ∃ x, ([0x04], x) ∈ globalKVs b) (h5 : ∃ x, ([0x05], x) ∈ globalKVs b) (ptx : p.tx = some t) :
    ∃ (v : View), View.open (pre ++ (b ++ post)) pre.length = some v
      ∧ ViewObs (pre ++ (b ++ post)) v t
      ∧ ∀ (i f : Nat) (x : TapExtra),
          View.sighash ko sha (pre ++ (b ++ post)) v c i f x = Psbt.sighash sha p i f x := by
  obtain ⟨v, vo, a1, a2, a3, a4⟩ := view_of_parse_v2 ko sha c pre post b p h hv h4 h5
  have obs := viewObs_v2 _ v p t ptx vo.numIn vo.numOut a1 a2 a3 a4
  exact ⟨v, vo.opened, obs, fun i f x =>
    View.sighash_eq_psbt ko sha _ v c p t obs ptx vo.numIn vo.input i f x⟩

/-! ### (3) what `PSBT.sighash` computes is the consensus digest of `PSBT.tx` under the dispatched script code -/

theorem tx_len_of_psbt (p : Psbt) (t : Tx) (htx : p.tx = some t) :
    t.vin.length = p.inputs.length ∧ ∀ i : Nat, t.vin[i]? = (p.inputs[i]?).bind InScope.vin := by
  unfold Psbt.tx at htx
  cases h1 : optAll (p.inputs.map InScope.vin) with
  | none => rw [h1] at htx; simp at htx
  | some vin =>
    cases h2 : optAll (p.outputs.map OutScope.vout) with
    | none => rw [h1, h2] at htx; simp at htx
    | some vout =>
      rw [h1, h2] at htx
      simp only [Option.some.injEq] at htx
      subst htx
      exact optAll_getElem? InScope.vin p.inputs vin h1

/-- the dispatch of `PSBT.sighash` made explicit: it is the `Transaction` method `sighashDispatch` selects,
    called on `PSBT.tx` with the selected script code and the input's utxo amount -/
theorem psbt_sighash_tx_path (sha : Bytes → Bytes) (p : Psbt) (t : Tx) (i f : Nat) (x : TapExtra) (inp : InScope)
    (u : TxOut) (htx : p.tx = some t) (hi : p.inputs[i]? = some inp) (hu : inp.utxo = some u) :
    Psbt.sighash sha p i f x =
      match sighashDispatch u.spk inp.witnessScript inp.redeemScript inp.witnessUtxo.isSome with
      | (Algo.legacy, sc) => sighashLegacy sha t i sc f
      | (Algo.segwit, sc) => sighashSegwit sha t i sc u.value f
      | (Algo.taproot, _) =>
        match optAll (p.inputs.map InScope.utxo) with
        | some us => sighashTaproot sha t i (us.map (·.spk)) (us.map (·.value)) f x.extFlag x.annex x.script
                       x.leafVer x.codesep
        | none => none := by
  unfold Psbt.sighash
  rw [hi]; simp only [hu, htx, InScope.dispatch]
  rcases sighashDispatch u.spk inp.witnessScript inp.redeemScript inp.witnessUtxo.isSome with ⟨algo, sc⟩
  cases algo <;> simp only []
  cases optAll (p.inputs.map InScope.utxo) <;> rfl

/-- legacy inputs: Satoshi's digest of `PSBT.tx` -/
theorem psbt_sighash_legacy_consensus (sha : Bytes → Bytes) (p : Psbt) (t : Tx) (i f : Nat) (x : TapExtra)
    (inp : InScope) (u : TxOut) (sc : Bytes) (htx : p.tx = some t) (hi : p.inputs[i]? = some inp)
    (hu : inp.utxo = some u)
    (hd : sighashDispatch u.spk inp.witnessScript inp.redeemScript inp.witnessUtxo.isSome = (Algo.legacy, sc))
    (hf : validFlag f = true) :
    Psbt.sighash sha p i f x = some (legacy sha t i sc f) := by
  rw [psbt_sighash_tx_path sha p t i f x inp u htx hi hu, hd]
  have hlen : i < t.vin.length := by
    rw [(tx_len_of_psbt p t htx).1]; exact (List.getElem?_eq_some_iff.mp hi).1
  exact C01.legacy_eq_consensus sha t i sc f hf hlen

/-- segwit v0 inputs: the BIP143 digest of `PSBT.tx` with the utxo's amount -/
theorem psbt_sighash_segwit_consensus (sha : Bytes → Bytes) (p : Psbt) (t : Tx) (i f : Nat) (x : TapExtra)
    (inp : InScope) (u : TxOut) (sc : Bytes) (htx : p.tx = some t) (hi : p.inputs[i]? = some inp)
    (hu : inp.utxo = some u)
    (hd : sighashDispatch u.spk inp.witnessScript inp.redeemScript inp.witnessUtxo.isSome = (Algo.segwit, sc))
    (hf : validFlag f = true) :
    ∃ ti, t.vin[i]? = some ti ∧ inp.vin = some ti
      ∧ Psbt.sighash sha p i f x = some (bip143 sha t i ti sc u.value f) := by
  rw [psbt_sighash_tx_path sha p t i f x inp u htx hi hu, hd]
  obtain ⟨l, e⟩ := tx_len_of_psbt p t htx
  have hlen : i < t.vin.length := by
    rw [l]; exact (List.getElem?_eq_some_iff.mp hi).1
  have hget : t.vin[i]? = some t.vin[i] := List.getElem?_eq_getElem hlen
  refine ⟨t.vin[i], hget, ?_, C01.segwit_eq_bip143 sha t i t.vin[i] sc u.value f hf hget⟩
  have := e i
  rw [hget, hi] at this
  simpa using this.symm

/-- taproot inputs: the BIP341 digest of `PSBT.tx` over the utxos of all inputs (key path or script path, annex,
    code separator as passed by the caller; `ext_flag` is 1 exactly on the script path) — for EVERY hash type `f`:
    where BIP341 defines none (0x80 included) both sides are `none`, i.e. `PSBT.sighash` raises -/
theorem psbt_sighash_taproot_consensus (sha : Bytes → Bytes) (p : Psbt) (t : Tx) (i f : Nat) (x : TapExtra)
    (inp : InScope) (u : TxOut) (sc : Bytes) (us : List TxOut) (htx : p.tx = some t)
    (hi : p.inputs[i]? = some inp) (hu : inp.utxo = some u)
    (hd : sighashDispatch u.spk inp.witnessScript inp.redeemScript inp.witnessUtxo.isSome = (Algo.taproot, sc))
    (hus : optAll (p.inputs.map InScope.utxo) = some us)
    (hx : x.extFlag = if x.script.isSome then 1 else 0) (hlv : x.leafVer < 256) :
    Psbt.sighash sha p i f x
      = bip341 sha t i (us.map (·.spk)) (us.map (·.value)) f x.annex (C01.leafOf x.script x.leafVer x.codesep) := by
  rw [psbt_sighash_tx_path sha p t i f x inp u htx hi hu, hd]
  simp only [hus]
  rw [hx]
  exact C01.taproot_eq_bip341 sha t i _ _ f x.annex x.script x.leafVer x.codesep hlv

/-! ### all three entry points -/

/-- legacy input of an accepted version-0 PSBT: `Transaction.sighash_legacy` on the PSBT's transaction,
    `PSBT.sighash` and `PSBTView.sighash` (any stream offset, any reader mode) all give Satoshi's digest -/
theorem all_entry_points_legacy_v0 (ko : KeyOps) (sha : Bytes → Bytes) (c : Nat) (pre post b : Bytes) (p : Psbt)
    (h : Psbt.parse ko sha c b = some p)
    (htx : ∃ x, ([0x00], x) ∈ globalKVs b)
    (hcnt : ∀ kv ∈ globalKVs b, kv.1 ≠ [0x04] ∧ kv.1 ≠ [0x05])
    (i f : Nat) (x : TapExtra) (inp : InScope) (u : TxOut) (sc : Bytes)
    (hi : p.inputs[i]? = some inp) (hu : inp.utxo = some u)
    (hd : sighashDispatch u.spk inp.witnessScript inp.redeemScript inp.witnessUtxo.isSome = (Algo.legacy, sc))
    (hf : validFlag f = true) :
    ∃ (t : Tx) (v : View), p.tx = some t ∧ View.open (pre ++ (b ++ post)) pre.length = some v
      ∧ sighashLegacy sha t i sc f = some (legacy sha t i sc f)
      ∧ Psbt.sighash sha p i f x = some (legacy sha t i sc f)
      ∧ View.sighash ko sha (pre ++ (b ++ post)) v c i f x = some (legacy sha t i sc f) := by
  obtain ⟨t, v, ptx, ho, _, hag⟩ := entry_points_agree_v0_partial ko sha c pre post b p h htx hcnt
  have hp := psbt_sighash_legacy_consensus sha p t i f x inp u sc ptx hi hu hd hf
  have hlen : i < t.vin.length := by
    rw [(tx_len_of_psbt p t ptx).1]; exact (List.getElem?_eq_some_iff.mp hi).1
  exact ⟨t, v, ptx, ho, C01.legacy_eq_consensus sha t i sc f hf hlen, hp, by rw [hag, hp]⟩

/-- segwit v0 input of an accepted version-0 PSBT: all three entry points give the BIP143 digest -/
theorem all_entry_points_segwit_v0 (ko : KeyOps) (sha : Bytes → Bytes) (c : Nat) (pre post b : Bytes) (p : Psbt)
    (h : Psbt.parse ko sha c b = some p)
    (htx : ∃ x, ([0x00], x) ∈ globalKVs b)
    (hcnt : ∀ kv ∈ globalKVs b, kv.1 ≠ [0x04] ∧ kv.1 ≠ [0x05])
    (i f : Nat) (x : TapExtra) (inp : InScope) (u : TxOut) (sc : Bytes)
    (hi : p.inputs[i]? = some inp) (hu : inp.utxo = some u)
    (hd : sighashDispatch u.spk inp.witnessScript inp.redeemScript inp.witnessUtxo.isSome = (Algo.segwit, sc))
    (hf : validFlag f = true) :
    ∃ (t : Tx) (v : View) (ti : TxIn), p.tx = some t ∧ View.open (pre ++ (b ++ post)) pre.length = some v
      ∧ t.vin[i]? = some ti
      ∧ sighashSegwit sha t i sc u.value f = some (bip143 sha t i ti sc u.value f)
      ∧ Psbt.sighash sha p i f x = some (bip143 sha t i ti sc u.value f)
      ∧ View.sighash ko sha (pre ++ (b ++ post)) v c i f x = some (bip143 sha t i ti sc u.value f) := by
  obtain ⟨t, v, ptx, ho, _, hag⟩ := entry_points_agree_v0_partial ko sha c pre post b p h htx hcnt
  obtain ⟨ti, hti, _, hp⟩ := psbt_sighash_segwit_consensus sha p t i f x inp u sc ptx hi hu hd hf
  exact ⟨t, v, ti, ptx, ho, hti, C01.segwit_eq_bip143 sha t i ti sc u.value f hf hti, hp, by rw [hag, hp]⟩

/-- taproot input of an accepted version-0 PSBT: all three entry points give the BIP341 digest, for every hash type
    (`d = none`, all three refuse, where BIP341 defines no digest — 0x80 included) -/
theorem all_entry_points_taproot_v0 (ko : KeyOps) (sha : Bytes → Bytes) (c : Nat) (pre post b : Bytes) (p : Psbt)
    (h : Psbt.parse ko sha c b = some p)
    (htx : ∃ x, ([0x00], x) ∈ globalKVs b)
    (hcnt : ∀ kv ∈ globalKVs b, kv.1 ≠ [0x04] ∧ kv.1 ≠ [0x05])
    (i f : Nat) (x : TapExtra) (inp : InScope) (u : TxOut) (sc : Bytes) (us : List TxOut)
    (hi : p.inputs[i]? = some inp) (hu : inp.utxo = some u)
    (hd : sighashDispatch u.spk inp.witnessScript inp.redeemScript inp.witnessUtxo.isSome = (Algo.taproot, sc))
    (hus : optAll (p.inputs.map InScope.utxo) = some us)
    (hx : x.extFlag = if x.script.isSome then 1 else 0) (hlv : x.leafVer < 256) :
    ∃ (t : Tx) (v : View) (d : Option Bytes), p.tx = some t ∧ View.open (pre ++ (b ++ post)) pre.length = some v
      ∧ d = bip341 sha t i (us.map (·.spk)) (us.map (·.value)) f x.annex (C01.leafOf x.script x.leafVer x.codesep)
      ∧ sighashTaproot sha t i (us.map (·.spk)) (us.map (·.value)) f x.extFlag x.annex x.script x.leafVer x.codesep = d
      ∧ Psbt.sighash sha p i f x = d
      ∧ View.sighash ko sha (pre ++ (b ++ post)) v c i f x = d := by
  obtain ⟨t, v, ptx, ho, _, hag⟩ := entry_points_agree_v0_partial ko sha c pre post b p h htx hcnt
  have hp := psbt_sighash_taproot_consensus sha p t i f x inp u sc us ptx hi hu hd hus hx hlv
  refine ⟨t, v, _, ptx, ho, rfl, ?_, hp, by rw [hag, hp]⟩
  rw [hx]
  exact C01.taproot_eq_bip341 sha t i _ _ f x.annex x.script x.leafVer x.codesep hlv

/-- the same for version 2 (one statement for the three algorithms: whatever `PSBT.sighash` yields — by the three
    `psbt_sighash_*_consensus` theorems the consensus digest — the view yields too) -/
theorem all_entry_points_v2 (ko : KeyOps) (sha : Bytes → Bytes) (c : Nat) (pre post b : Bytes) (p : Psbt) (t : Tx)
    (h : Psbt.parse ko sha c b = some p) (hv : p.version = some 2)
    (h4 : ∃ x, ([0x04], x) ∈ globalKVs b) (h5 : ∃ x, ([0x05], x) ∈ globalKVs b) (ptx : p.tx = some t)
    (i f : Nat) (x : TapExtra) (inp : InScope) (u : TxOut)
    (hi : p.inputs[i]? = some inp) (hu : inp.utxo = some u) :
    ∃ (v : View), View.open (pre ++ (b ++ post)) pre.length = some v
      ∧ View.sighash ko sha (pre ++ (b ++ post)) v c i f x = Psbt.sighash sha p i f x
      ∧ Psbt.sighash sha p i f x =
          match sighashDispatch u.spk inp.witnessScript inp.redeemScript inp.witnessUtxo.isSome with
          | (Algo.legacy, sc) => sighashLegacy sha t i sc f
          | (Algo.segwit, sc) => sighashSegwit sha t i sc u.value f
          | (Algo.taproot, _) =>
            match optAll (p.inputs.map InScope.utxo) with
            | some us => sighashTaproot sha t i (us.map (·.spk)) (us.map (·.value)) f x.extFlag x.annex x.script
                           x.leafVer x.codesep
            | none => none := by
  obtain ⟨v, ho, _, hag⟩ := entry_points_agree_v2_partial ko sha c pre post b p t h hv h4 h5 ptx
  exact ⟨v, ho, hag i f x, psbt_sighash_tx_path sha p t i f x inp u ptx hi hu⟩

/-! ### per script type (composition with the dispatch theorems of Props/C02) -/

/-- P2WPKH input (utxo `0014‖h20`, no scripts in the scope): all entry points sign the BIP143 digest with the
    P2PKH script code of the same hash -/
theorem p2wpkh_all_entry_points (ko : KeyOps) (sha : Bytes → Bytes) (c : Nat) (pre post b : Bytes) (p : Psbt)
    (h : Psbt.parse ko sha c b = some p)
    (htx : ∃ x, ([0x00], x) ∈ globalKVs b)
    (hcnt : ∀ kv ∈ globalKVs b, kv.1 ≠ [0x04] ∧ kv.1 ≠ [0x05])
    (i f : Nat) (x : TapExtra) (inp : InScope) (amount : Nat) (h20 : Bytes) (hl : h20.length = 20)
    (hi : p.inputs[i]? = some inp) (hu : inp.utxo = some { value := amount, spk := [0x00, 0x14] ++ h20 })
    (hws : inp.witnessScript = none) (hrs : inp.redeemScript = none) (hf : validFlag f = true) :
    ∃ (t : Tx) (v : View) (ti : TxIn), p.tx = some t ∧ View.open (pre ++ (b ++ post)) pre.length = some v
      ∧ t.vin[i]? = some ti
      ∧ Psbt.sighash sha p i f x = some (bip143 sha t i ti (C02.p2pkhOf h20) amount f)
      ∧ View.sighash ko sha (pre ++ (b ++ post)) v c i f x = some (bip143 sha t i ti (C02.p2pkhOf h20) amount f) := by
  have hd := C02.dispatch_p2wpkh h20 hl inp.witnessUtxo.isSome
  obtain ⟨t, v, ti, a1, a2, a3, _, a5, a6⟩ := all_entry_points_segwit_v0 ko sha c pre post b p h htx hcnt i f x inp
    { value := amount, spk := [0x00, 0x14] ++ h20 } (C02.p2pkhOf h20) hi hu (by rw [hws, hrs]; exact hd) hf
  exact ⟨t, v, ti, a1, a2, a3, a5, a6⟩

/-- P2PKH input spent from a non-witness utxo: all entry points sign Satoshi's digest with the scriptPubKey -/
theorem p2pkh_all_entry_points (ko : KeyOps) (sha : Bytes → Bytes) (c : Nat) (pre post b : Bytes) (p : Psbt)
    (h : Psbt.parse ko sha c b = some p)
    (htx : ∃ x, ([0x00], x) ∈ globalKVs b)
    (hcnt : ∀ kv ∈ globalKVs b, kv.1 ≠ [0x04] ∧ kv.1 ≠ [0x05])
    (i f : Nat) (x : TapExtra) (inp : InScope) (amount : Nat) (h20 : Bytes) (hl : h20.length = 20)
    (hi : p.inputs[i]? = some inp) (hu : inp.utxo = some { value := amount, spk := C02.p2pkhOf h20 })
    (hws : inp.witnessScript = none) (hrs : inp.redeemScript = none) (hwu : inp.witnessUtxo = none)
    (hf : validFlag f = true) :
    ∃ (t : Tx) (v : View), p.tx = some t ∧ View.open (pre ++ (b ++ post)) pre.length = some v
      ∧ Psbt.sighash sha p i f x = some (legacy sha t i (C02.p2pkhOf h20) f)
      ∧ View.sighash ko sha (pre ++ (b ++ post)) v c i f x = some (legacy sha t i (C02.p2pkhOf h20) f) := by
  have hd := C02.dispatch_p2pkh h20 hl
  obtain ⟨t, v, a1, a2, _, a4, a5⟩ := all_entry_points_legacy_v0 ko sha c pre post b p h htx hcnt i f x inp
    { value := amount, spk := C02.p2pkhOf h20 } (C02.p2pkhOf h20) hi hu (by rw [hws, hrs, hwu]; exact hd) hf
  exact ⟨t, v, a1, a2, a4, a5⟩

/-! ### witness: inside the region excluded for version 0 the two PSBT-level entry points really differ -/

def exTx : Tx := Props.C05X.exTx

/-- a version-0 PSBT (one P2WPKH input with its witness utxo, one output) with an extra global pair `04 -> 02`
    behind the transaction -/
def exV0CountU : Bytes :=
  psbtMagic ++ writeKVs [([0x00], Tx.ser exTx), ([0x04], [0x02])]
    ++ writeKVs [([0x01], TxOut.ser { value := 9000, spk := [0x00, 0x14] ++ List.replicate 20 3 })] ++ writeKVs []

/-- `PSBT.sighash` hashes the one-input transaction; the view reads the pair as "two inputs" and its
    `hash_prevouts` asks the global transaction for an input that is not there -/
theorem v0_count_key_sighash_differs :
    ((Psbt.parse C04.trivialKo id 0 exV0CountU).bind fun p => Psbt.sighash id p 0 1 {}).isSome = true
    ∧ ((View.open exV0CountU 0).bind fun v => View.sighash C04.trivialKo id exV0CountU v 0 0 1 {}) = none := by
  decide

/-! ### non-vacuity -/

/-- a version-0 PSBT with one P2WPKH input carrying its witness utxo -/
def exPsbtU : Bytes :=
  psbtMagic ++ writeKVs [([0x00], Tx.ser exTx)]
    ++ writeKVs [([0x01], TxOut.ser { value := 9000, spk := [0x00, 0x14] ++ List.replicate 20 3 })] ++ writeKVs []

/-- the hypotheses of `entry_points_agree_v0_partial` / `p2wpkh_all_entry_points` are satisfiable, and the view's
    digest at a non-zero stream offset is the in-memory one (evaluated) -/
example : (Psbt.parse C04.trivialKo id 0 exPsbtU).isSome = true
    ∧ (∃ x, ([0x00], x) ∈ globalKVs exPsbtU) ∧ (∀ kv ∈ globalKVs exPsbtU, kv.1 ≠ [0x04] ∧ kv.1 ≠ [0x05])
    ∧ ((Psbt.parse C04.trivialKo id 0 exPsbtU).bind fun p => Psbt.sighash id p 0 1 {}).isSome = true
    ∧ ((View.open ([1, 2, 3] ++ (exPsbtU ++ [9])) 3).bind fun v =>
          View.sighash C04.trivialKo id ([1, 2, 3] ++ (exPsbtU ++ [9])) v 0 0 1 {})
        = ((Psbt.parse C04.trivialKo id 0 exPsbtU).bind fun p => Psbt.sighash id p 0 1 {}) := by
  have hg : globalKVs exPsbtU = [([0x00], Tx.ser exTx)] := by decide
  refine ⟨by decide, ⟨Tx.ser exTx, by rw [hg]; simp⟩, ?_, by decide, by decide⟩
  rw [hg]; intro kv hkv; simp at hkv; subst hkv; decide

/-- a small PSBTv2 with a P2WPKH input: hypotheses of `entry_points_agree_v2_partial` incl. `PSBT.tx` defined -/
def exV2U : Bytes :=
  psbtMagic ++ writeKVs [([0x02], [2, 0, 0, 0]), ([0x04], [1]), ([0x05], [1]), ([0xfb], [2, 0, 0, 0])]
    ++ writeKVs [([0x01], TxOut.ser { value := 9000, spk := [0x00, 0x14] ++ List.replicate 20 3 }),
                 ([0x0e], List.replicate 32 7), ([0x0f], [1, 0, 0, 0])]
    ++ writeKVs [([0x03], [0x88, 0x13, 0, 0, 0, 0, 0, 0]), ([0x04], [0x6a])]

example : (Psbt.parse C04.trivialKo id 0 exV2U).map (·.version) = some (some 2)
    ∧ ((Psbt.parse C04.trivialKo id 0 exV2U).bind Psbt.tx).isSome = true
    ∧ ((View.open exV2U 0).bind fun v => View.sighash C04.trivialKo id exV2U v 0 0 0x83 {})
        = ((Psbt.parse C04.trivialKo id 0 exV2U).bind fun p => Psbt.sighash id p 0 0x83 {})
    ∧ ((Psbt.parse C04.trivialKo id 0 exV2U).bind fun p => Psbt.sighash id p 0 0x83 {}).isSome = true := by
  decide

end Embit.Props.C01X
