import EmbitModel.Proofs.Owns
import EmbitModel.Proofs.DescDerive
/-
  C14 — A descriptor claims a PSBT scope only when the script really is its own.

  `ownsCore keys ty deriveScript scope` is the model of `Descriptor.owns` (Model/Owns.lean; after
  fixes/owns-keeps-looking.diff) over what it reads: per key a `KeyView` (fingerprints, origin path, allowed
  derivation, extended?), the descriptor's script type, `deriveScript i b = self.derive(i, b).script_pubkey()`
  (`none`: raises) and the scope (script, recorded derivations of both PSBT maps in order). The theorems hold for
  EVERY key list, EVERY scope and EVERY `deriveScript`; `desc_*` instantiate them with the C12 descriptor model.
  `Spec.Descriptor.Owned` is the relation in the property's words; `RecordOf k r i b` = record `r` is the metadata
  of key `k` at index `i` on branch `b`.
-/
namespace Embit.Props.C14
open Embit Embit.Model.Descriptor Embit.Spec.Descriptor

/-- SOUNDNESS. `owns` answers True only if the scope has a script, of the descriptor's script type, and some
    recorded derivation is the metadata of one of the descriptor's extended keys at an UNHARDENED index `i` on an
    ALLOWED branch `b` and the script the descriptor derives at (i, b) is the scope's script.
    `hhard`: deriving at a hardened index raises (true of `Descriptor.derive`: `desc_derive_hardened`). -/
theorem owns_sound (keys : List KeyView) (ty : Option SpkType) (ds : Nat → Nat → Option Bytes) (sc : Scope)
    (hwf : ∀ k, k ∈ keys → k.WF) (hhard : ∀ i b, i ≥ 2 ^ 31 → ds i b = none)
    (h : ownsCore keys ty ds sc = some true) :
    Owned keys ds sc ∧ ∃ spk, sc.spk = some spk ∧ scriptType spk = ty := by
  unfold ownsCore at h
  cases hspk : sc.spk with
  | none => simp [hspk] at h
  | some spk =>
    simp only [hspk] at h
    split at h
    · cases h
    · rename_i hty
      have hty' : scriptType spk = ty := by simpa using hty
      have core : ∀ recs, (∀ r, r ∈ recs → r ∈ sc.derivs ++ sc.tapDerivs) →
          scanRecords keys ds spk recs = some true → Owned keys ds sc := by
        intro recs hsub hs
        obtain ⟨r, hr, hk⟩ := scanRecords_true hs
        obtain ⟨k, hkm, hext, i, b, hc, hd⟩ := scanKeys_true hk
        have hcs := KeyView.check_sound (hwf k hkm) hc
        have hi : i < 2 ^ 31 := by
          by_cases hlt : i < 2 ^ 31
          · exact hlt
          · have := hhard i b (by omega)
            rw [this] at hd
            cases hd
        exact ⟨spk, hspk, r, hsub r hr, k, hkm, hext, i, b, hcs.1, hi, hcs.2, hd⟩
      refine ⟨?_, spk, rfl, hty'⟩
      split at h
      · cases h
      · rename_i h1
        exact core sc.derivs (fun r hr => List.mem_append_left _ hr) h1
      · exact core sc.tapDerivs (fun r hr => List.mem_append_right _ hr) h

/-- NEVER CLAIMS. If no recorded derivation is the metadata of an extended key at an unhardened index on an allowed
    branch with the derived script equal to the scope's script, `owns` does not answer True (it answers False, or
    raises when a matching record carries a hardened index) -/
theorem never_claims (keys : List KeyView) (ty : Option SpkType) (ds : Nat → Nat → Option Bytes) (sc : Scope)
    (hwf : ∀ k, k ∈ keys → k.WF) (hhard : ∀ i b, i ≥ 2 ^ 31 → ds i b = none)
    (h : ¬ Owned keys ds sc) : ownsCore keys ty ds sc ≠ some true :=
  fun ht => h (owns_sound keys ty ds sc hwf hhard ht).1

/-- … whose script differs: whatever the records say -/
theorem never_claims_script_differs (keys : List KeyView) (ty : Option SpkType) (ds : Nat → Nat → Option Bytes)
    (sc : Scope) (hwf : ∀ k, k ∈ keys → k.WF) (hhard : ∀ i b, i ≥ 2 ^ 31 → ds i b = none)
    (h : ∀ spk, sc.spk = some spk → ∀ i b, ds i b ≠ some spk) : ownsCore keys ty ds sc ≠ some true := by
  apply never_claims keys ty ds sc hwf hhard
  rintro ⟨spk, hspk, _, _, _, _, _, i, b, _, _, _, hd⟩
  exact h spk hspk i b hd

/-- … whose script is of another type than the descriptor's (same keys under another wrapper) -/
theorem never_claims_other_type (keys : List KeyView) (ty : Option SpkType) (ds : Nat → Nat → Option Bytes)
    (sc : Scope) (spk : Bytes) (hspk : sc.spk = some spk) (h : scriptType spk ≠ ty) :
    ownsCore keys ty ds sc = some false := by
  unfold ownsCore
  simp [hspk, h]

/-- … without a script -/
theorem never_claims_no_script (keys : List KeyView) (ty : Option SpkType) (ds : Nat → Nat → Option Bytes)
    (sc : Scope) (hspk : sc.spk = none) : ownsCore keys ty ds sc = some false := by
  unfold ownsCore
  simp [hspk]

/-- … whose recorded fingerprints are none of its keys' (origin or own) fingerprints -/
theorem never_claims_foreign_fingerprint (keys : List KeyView) (ty : Option SpkType)
    (ds : Nat → Nat → Option Bytes) (sc : Scope) (hwf : ∀ k, k ∈ keys → k.WF)
    (hhard : ∀ i b, i ≥ 2 ^ 31 → ds i b = none)
    (h : ∀ r, r ∈ sc.derivs ++ sc.tapDerivs → ∀ k, k ∈ keys →
      k.fingerprint ≠ some r.fingerprint ∧ k.myFingerprint ≠ some r.fingerprint) :
    ownsCore keys ty ds sc ≠ some true := by
  apply never_claims keys ty ds sc hwf hhard
  rintro ⟨_, _, r, hr, k, hk, _, i, b, ⟨_, _, _, _, hcl⟩, _⟩
  have := h r hr k hk
  cases hcl with
  | inl h1 => exact this.1 h1.1
  | inr h2 => exact this.2 h2.1

/-- … whose recorded paths are not (origin path ++) the key's steps at any index and branch: a wrong origin
    element, a wrong fixed step, a path that is too long or too short, or a branch element outside the key's set
    (`pathAt i b` picks the b-th element OF THE SET, so an element that is not in the set is no instance) -/
theorem never_claims_wrong_path (keys : List KeyView) (ty : Option SpkType) (ds : Nat → Nat → Option Bytes)
    (sc : Scope) (hwf : ∀ k, k ∈ keys → k.WF) (hhard : ∀ i b, i ≥ 2 ^ 31 → ds i b = none)
    (h : ∀ r, r ∈ sc.derivs ++ sc.tapDerivs → ∀ k, k ∈ keys → ∀ i b, ¬ RecordOf k r i b) :
    ownsCore keys ty ds sc ≠ some true := by
  apply never_claims keys ty ds sc hwf hhard
  rintro ⟨_, _, r, hr, k, hk, _, i, b, hrec, _⟩
  exact h r hr k hk i b hrec

/-- the branch element of an instance of the steps is an element of the key's set: a recorded branch outside the
    set is no instance -/
theorem instance_branch_in_set (pre : List Step) (l : List (Option Nat)) (post : List Step) (i b : Nat)
    (p : List Nat) (hp : pathAt i b (pre ++ .set l :: post) = some p) :
    ∃ v, p[pre.length]? = some v ∧ some v ∈ l := by
  induction pre generalizing p with
  | nil =>
    simp only [List.nil_append, pathAt] at hp
    cases hg : l[b]? with
    | none => simp [hg] at hp
    | some o =>
      cases o with
      | none => simp [hg] at hp
      | some n =>
        cases ht : pathAt i b post with
        | none => simp [hg, ht] at hp
        | some t =>
          simp [hg, ht] at hp
          subst hp
          exact ⟨n, by simp, List.mem_of_getElem? hg⟩
  | cons s pre ih =>
    cases s with
    | idx n =>
      simp only [List.cons_append, pathAt] at hp
      cases ht : pathAt i b (pre ++ .set l :: post) with
      | none => simp [ht] at hp
      | some t =>
        simp [ht] at hp; subst hp
        obtain ⟨v, hv, hm⟩ := ih t ht
        exact ⟨v, by simpa using hv, hm⟩
    | wild =>
      simp only [List.cons_append, pathAt] at hp
      cases ht : pathAt i b (pre ++ .set l :: post) with
      | none => simp [ht] at hp
      | some t =>
        simp [ht] at hp; subst hp
        obtain ⟨v, hv, hm⟩ := ih t ht
        exact ⟨v, by simpa using hv, hm⟩
    | set l' =>
      simp only [List.cons_append, pathAt] at hp
      cases ht : pathAt i b (pre ++ .set l :: post) with
      | none =>
        cases hg : l'[b]? with
        | none => simp [hg] at hp
        | some o => cases o <;> simp [hg, ht] at hp
      | some t =>
        cases hg : l'[b]? with
        | none => simp [hg] at hp
        | some o =>
          cases o with
          | none => simp [hg] at hp
          | some n =>
            simp [hg, ht] at hp; subst hp
            obtain ⟨v, hv, hm⟩ := ih t ht
            exact ⟨v, by simpa using hv, hm⟩

/-- … whose every matching record carries a HARDENED index: never True (the code raises: `fill` refuses it) -/
theorem never_claims_hardened_index (keys : List KeyView) (ty : Option SpkType) (ds : Nat → Nat → Option Bytes)
    (sc : Scope) (hwf : ∀ k, k ∈ keys → k.WF) (hhard : ∀ i b, i ≥ 2 ^ 31 → ds i b = none)
    (h : ∀ r, r ∈ sc.derivs ++ sc.tapDerivs → ∀ k, k ∈ keys → ∀ i b, RecordOf k r i b → i ≥ 2 ^ 31) :
    ownsCore keys ty ds sc ≠ some true := by
  apply never_claims keys ty ds sc hwf hhard
  rintro ⟨_, _, r, hr, k, hk, _, i, b, hrec, hi, _⟩
  have := h r hr k hk i b hrec
  omega

/-- COMPLETENESS. A scope is claimed when it carries the descriptor's script for (i, b), of the descriptor's
    type, and among its records the metadata at (i, b) of an extended ranged key whose steps fix the branch (it has
    a branch set, or b = 0), provided no matching record makes `derive` raise (`NoRaise`: true when every record
    of the scope is honest metadata at an unhardened index). Other records — foreign, stale, in either PSBT map,
    before or after — do not matter. -/
theorem owns_complete (keys : List KeyView) (ty : Option SpkType) (ds : Nat → Nat → Option Bytes) (sc : Scope)
    (spk : Bytes) (hspk : sc.spk = some spk) (hty : scriptType spk = ty)
    (r : DerivRec) (hr : r ∈ sc.derivs ++ sc.tapDerivs) (k : KeyView) (hk : k ∈ keys) (hext : k.extended = true)
    (ix : List Step) (ha : k.allowed = some ix) (hn : NoDupSteps ix = true) (hw : wildCount ix ≠ 0)
    (i b : Nat) (hb : setCount ix ≠ 0 ∨ b = 0) (hoc : k.OriginConsistent) (hrec : RecordOf k r i b)
    (hds : ds i b = some spk) (hnr : NoRaise keys ds (sc.derivs ++ sc.tapDerivs)) :
    ownsCore keys ty ds sc = some true := by
  have hc := KeyView.check_complete ha hn hw hb hoc hrec
  have wit : ∃ k, k ∈ keys ∧ k.extended = true ∧ ∃ i b, k.check r = some (i, b) ∧ ds i b = some spk :=
    ⟨k, hk, hext, i, b, hc, hds⟩
  have nr1 : NoRaise keys ds sc.derivs := fun r' hr' => hnr r' (List.mem_append_left _ hr')
  have nr2 : NoRaise keys ds sc.tapDerivs := fun r' hr' => hnr r' (List.mem_append_right _ hr')
  unfold ownsCore
  simp only [hspk]
  rw [if_neg (by simpa using hty)]
  cases List.mem_append.mp hr with
  | inl h1 =>
    rw [scanRecords_complete nr1 ⟨r, h1, wit⟩]
  | inr h2 =>
    have hne := scanRecords_ne_none (spk := spk) nr1
    cases h1 : scanRecords keys ds spk sc.derivs with
    | none => exact absurd h1 hne
    | some v =>
      cases v with
      | true => rfl
      | false => simp only; exact scanRecords_complete nr2 ⟨r, h2, wit⟩

/-- non-vacuity and the defect that was repaired (fixes/owns-keeps-looking.diff): keys `A/0/*` (no branch set) and
    `B/<0;1>/*`, a change output (branch 1, index 5) carrying exactly the two derivations embit itself records.
    The old rule (first matching record decides: `A`'s record matches with branch 0) rejects this honest scope;
    the repaired rule claims it. -/
def exKeys : List KeyView :=
  [ { extended := true, fingerprint := some [1, 1, 1, 1], originPath := [48], myFingerprint := some [9, 9, 9, 1],
      allowed := some [.idx 0, .wild] },
    { extended := true, fingerprint := some [2, 2, 2, 2], originPath := [48], myFingerprint := some [9, 9, 9, 2],
      allowed := some [.set [some 0, some 1], .wild] } ]

def exSpk (b : Nat) : Bytes := [0x00, 0x14] ++ List.replicate 19 0 ++ [UInt8.ofNat b]

def exDerive (i b : Nat) : Option Bytes := if i < 2 ^ 31 ∧ b < 2 then some (exSpk (2 * i + b)) else none

def exScope : Scope :=
  { spk := some (exSpk 11), derivs := [⟨[1, 1, 1, 1], [48, 0, 5]⟩, ⟨[2, 2, 2, 2], [48, 1, 5]⟩], tapDerivs := [] }

theorem old_first_match_rejected_honest_scope :
    ownsCoreOld exKeys (some .p2wpkh) exDerive exScope = some false
    ∧ ownsCore exKeys (some .p2wpkh) exDerive exScope = some true := by
  decide

/-- with adversarially ordered records the old rule also let a stale record hide a correct one; the repaired rule
    does not depend on the order of the records (both orders claimed) -/
theorem order_of_records_irrelevant_example :
    ownsCore exKeys (some .p2wpkh) exDerive { exScope with derivs := exScope.derivs.reverse } = some true
    ∧ ownsCoreOld exKeys (some .p2wpkh) exDerive
        { exScope with derivs := [⟨[2, 2, 2, 2], [48, 1, 6]⟩, ⟨[2, 2, 2, 2], [48, 1, 5]⟩] } = some false
    ∧ ownsCore exKeys (some .p2wpkh) exDerive
        { exScope with derivs := [⟨[2, 2, 2, 2], [48, 1, 6]⟩, ⟨[2, 2, 2, 2], [48, 1, 5]⟩] } = some true := by
  decide

/-- the hypotheses of `owns_sound` / `owns_complete` are satisfiable by the example -/
example : (∀ k, k ∈ exKeys → k.WF) ∧ (∀ i b, i ≥ 2 ^ 31 → exDerive i b = none) := by
  refine ⟨?_, ?_⟩
  · intro k hk ix ha
    simp only [exKeys, List.mem_cons, List.mem_nil_iff, or_false] at hk
    rcases hk with rfl | rfl <;> (simp at ha; subst ha; exact ⟨by decide, by decide⟩)
  · intro i b hi
    simp only [exDerive]
    rw [if_neg]
    omega

/-! ### the descriptor of C12 as the instance -/

/-- `Descriptor.owns` of the C12 model is `ownsCore` over the views of its keys, its script type and its own
    derive-then-script function -/
theorem desc_owns_eq {K : Type} (ops : KeyOps K) (h : Hashes) (d : Desc K) (sc : Scope) :
    d.owns ops h sc = ownsCore (d.keys.map (KeyExpr.view ops h)) d.spkType (d.deriveScript ops h) sc := rfl

/-- `Descriptor.derive` raises on a hardened index as soon as one key has a derivation (every key that can match
    a record has one), so the `hhard` hypothesis holds for descriptors -/
theorem desc_derive_hardened {K : Type} (ops : KeyOps K) (h : Hashes) (d : Desc K)
    (hshape : d.miniscript = none ∨ (d.key = none ∧ d.taptree = .empty))
    (k : KeyExpr K) (hk : k ∈ d.keys) (ix : List Step) (hix : k.deriv = some ix) (i b : Nat) (hi : i ≥ 2 ^ 31) :
    d.deriveScript ops h i b = none :=
  deriveScript_hardened ops h d hshape k hk ix hix i b hi

end Embit.Props.C14
