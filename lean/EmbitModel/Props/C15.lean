import EmbitModel.Proofs.Bip39
/-
  C15 — BIP39 mnemonics: entropy round-trip, exact validity, standard seed.
  Property theorems only. `Model.Bip39.*` is the model of embit/bip39.py (tied to the repository by the
  correspondence check), `Spec.Bip39.*` is BIP39 as a statement about bit strings.

  Standing hypotheses, all explicit:
    `hH  : ∀ x, (H x).length = 32`   the hash function returns 32 bytes (nothing else is assumed about SHA-256),
    `hwl : wl.length = 2048`, `hnd : wl.Nodup`   the word list has 2048 distinct entries (checked on the lists
                                                  actually used, on every run, by the harness).
-/
namespace Embit.Props.C15
open Embit Embit.Model.Bip39 Embit.Spec.Bip39

variable {W : Type} [DecidableEq W]
set_option linter.unusedSectionVars false

/-! ### the packing loop -/

/-- **Loop invariant of `mnemonic_to_bytes`.** From a state `(binary_seed, offset)` that holds an `L`-bit string
    of value `N` (⌈L/8⌉ bytes, bits left-aligned, `offset = L mod 8`), packing words whose indices are `idxs`
    succeeds and leaves the state that holds the `L + 11·n`-bit string `N ‖ idx₁ ‖ … ‖ idxₙ`. -/
theorem pack_invariant (wl : List W) (hwl : wl.length = 2048) (ws : List W) (idxs : List Nat)
    (st : Pack) (N L : Nat) (hr : Rep st N L) (hm : ws.mapM (indexOf? wl) = some idxs) :
    ∃ st', packWords wl st ws = some st' ∧ Rep st' (valOf N idxs) (L + 11 * ws.length) :=
  pack_words wl hwl ws idxs st N L hr hm

/-- the same for the whole loop, in terms of bits: afterwards `binary_seed` is the concatenation of the
    11-bit indices, padded with zero bits to a whole number of bytes -/
theorem pack_result_bits (wl : List W) (hwl : wl.length = 2048) (ws : List W) (idxs : List Nat)
    (hm : ws.mapM (indexOf? wl) = some idxs) :
    ∃ st', packWords wl ⟨[], 0⟩ ws = some st' ∧
      bytesToBits st'.seed =
        idxs.flatMap (bitsOfNat 11) ++ List.replicate (8 * st'.seed.length - 11 * ws.length) false ∧
      st'.seed.length = (11 * ws.length + 7) / 8 :=
  pack_result wl hwl ws idxs hm

/-- a word that is not in the list makes the loop raise, at whatever position it stands -/
theorem pack_rejects_unknown_word (wl : List W) (ws : List W) (st : Pack)
    (hm : ws.mapM (indexOf? wl) = none) : packWords wl st ws = none :=
  pack_words_none wl ws st hm

/-! ### `mnemonic_to_bytes` = BIP39 decoding -/

/-- for **every** word sequence: fewer than 12 words are rejected; otherwise the result is that of the bit-string
    rule "multiple of three, every word in the list, trailing bits = leading bits of SHA-256(entropy)" without an
    upper bound on the number of words (this is what embit does beyond 24 words) -/
theorem to_bytes_eq_spec_ext (H : Bytes → Bytes) (hH : ∀ x, (H x).length = 32) (wl : List W)
    (hwl : wl.length = 2048) (ws : List W) :
    toBytes H wl false ws = if ws.length < 12 then none else decodeExt H wl ws :=
  toBytes_eq_decodeExt H hH wl hwl ws

/-- on phrases of 12 to 24 words `mnemonic_to_bytes` *is* BIP39 decoding (same accept/reject, same entropy) -/
theorem to_bytes_eq_spec (H : Bytes → Bytes) (hH : ∀ x, (H x).length = 32) (wl : List W)
    (hwl : wl.length = 2048) (ws : List W) (h12 : 12 ≤ ws.length) (h24 : ws.length ≤ 24) :
    toBytes H wl false ws = decode H wl ws := by
  rw [to_bytes_eq_spec_ext H hH wl hwl, decode]
  simp [h12, h24, show ¬ ws.length < 12 by omega]

/-- **Exact validity.** A phrase of 12 to 24 words is accepted exactly when BIP39 says it is valid. Both
    directions: nothing invalid is accepted (every checksum bit is compared), nothing valid is refused. -/
theorem accepts_iff_valid (H : Bytes → Bytes) (hH : ∀ x, (H x).length = 32) (wl : List W)
    (hwl : wl.length = 2048) (ws : List W) (h12 : 12 ≤ ws.length) (h24 : ws.length ≤ 24) :
    (toBytes H wl false ws).isSome = true ↔ valid H wl ws := by
  rw [to_bytes_eq_spec H hH wl hwl ws h12 h24]; rfl

/-- `mnemonic_is_valid` decides BIP39 validity on 12…24 words -/
theorem is_valid_iff (H : Bytes → Bytes) (hH : ∀ x, (H x).length = 32) (wl : List W)
    (hwl : wl.length = 2048) (ws : List W) (h12 : 12 ≤ ws.length) (h24 : ws.length ≤ 24) :
    isValid H wl ws = true ↔ valid H wl ws :=
  accepts_iff_valid H hH wl hwl ws h12 h24

/-- what the code does outside the property's domain, part 1: short phrases and phrases whose length is not a
    multiple of three are always refused (also with `ignore_checksum=True`) -/
theorem short_or_ragged_rejected (H : Bytes → Bytes) (wl : List W) (ign : Bool) (ws : List W)
    (h : ws.length < 12 ∨ ws.length % 3 ≠ 0) : toBytes H wl ign ws = none := by
  rcases h with h | h <;> simp [toBytes, h]

/-- part 2: there is no upper bound. 27, 30, … words are accepted whenever the extended checksum rule holds
    (here 27 × word 0 under a hash returning zeros gives the 36 zero bytes); BIP39 stops at 24 words. -/
theorem long_phrase_accepted :
    toBytes (fun _ => List.replicate 32 0) (List.range 2048) false (List.replicate 27 0) = some (List.replicate 36 0)
    ∧ decode (fun _ => List.replicate 32 0) (List.range 2048) (List.replicate 27 0) = none := by
  decide +kernel

/-! ### `mnemonic_from_bytes` = BIP39 encoding -/

/-- for every entropy whose length is a multiple of 4 up to 1024 bytes (in particular the five lengths BIP39
    allows) the result is ENT ‖ first ENT/32 bits of SHA-256(ENT), cut into 11-bit groups, looked up in the list -/
theorem from_bytes_eq_spec (H : Bytes → Bytes) (hH : ∀ x, (H x).length = 32) (wl : List W)
    (e : Bytes) (h4 : e.length % 4 = 0) (hmax : e.length ≤ 1024) :
    fromBytes H wl e = encode H wl e :=
  fromBytes_eq_encode H hH wl e h4 hmax

/-- outside the domain: a length that is not a multiple of 4 raises; any other length is accepted — also 0, 4,
    8, 12 (fewer than 12 words, which `mnemonic_to_bytes` refuses) and 36, 40, … (beyond BIP39) -/
theorem from_bytes_ragged_rejected (H : Bytes → Bytes) (wl : List W) (e : Bytes) (h : e.length % 4 ≠ 0) :
    fromBytes H wl e = none := by
  simp [fromBytes, h]

theorem from_bytes_outside_domain :
    fromBytes (fun _ => List.replicate 32 0) (List.range 2048) [] = some []
    ∧ fromBytes (fun _ => List.replicate 32 0) (List.range 2048) [0, 0, 0, 0] = some [0, 0, 0]
    ∧ toBytes (fun _ => List.replicate 32 0) (List.range 2048) false [0, 0, 0] = none := by
  decide +kernel

/-! ### round trips -/

theorem allowed_lengths (e : Bytes) (h : allowedEntropy e) :
    ∃ k, e.length = 4 * k ∧ 4 ≤ k ∧ k ≤ 8 := by
  unfold allowedEntropy at h
  exact ⟨e.length / 4, by omega, by omega, by omega⟩

/-- **Entropy → mnemonic → entropy is the identity**, for the five BIP39 entropy lengths, any 32-byte hash
    function, any list of 2048 distinct words; the mnemonic has 12…24 words and is BIP39-valid. -/
theorem to_from (H : Bytes → Bytes) (hH : ∀ x, (H x).length = 32) (wl : List W)
    (hwl : wl.length = 2048) (hnd : wl.Nodup) (e : Bytes) (he : allowedEntropy e) :
    ∃ ws, fromBytes H wl e = some ws ∧ toBytes H wl false ws = some e ∧
      12 ≤ ws.length ∧ ws.length ≤ 24 ∧ valid H wl ws := by
  obtain ⟨k, hk, hk4, hk8⟩ := allowed_lengths e he
  obtain ⟨hl, hlt, _⟩ := encodeIdx_props H hH e k hk (by omega)
  have hdec := decodeIdx_encodeIdx H hH e k hk (by omega)
  obtain ⟨ws, hws, hlen', hidx'⟩ := lookup_words wl (encodeIdx H e) (fun i hi => hwl ▸ hlt i hi)
  have hidx := hidx' hnd
  have hlen : ws.length = 3 * k := by omega
  have htb : toBytes H wl false ws = some e := by
    rw [to_bytes_eq_spec_ext H hH wl hwl]
    have hfun : wordIndex wl = indexOf? wl := funext fun w => (indexOf?_eq_spec wl w).symm
    have h12 : ¬ ws.length < 12 := by omega
    rw [if_neg h12]
    simp [decodeExt, hlen, hfun, hidx, hdec]
  refine ⟨ws, ?_, htb, by omega, by omega, ?_⟩
  · rw [from_bytes_eq_spec H hH wl e (by omega) (by omega)]; exact hws
  · rw [← accepts_iff_valid H hH wl hwl ws (by omega) (by omega), htb]; rfl

/-- what a successful `mnemonic_to_bytes` tells, unpacked -/
theorem to_bytes_ok_inv (H : Bytes → Bytes) (hH : ∀ x, (H x).length = 32) (wl : List W)
    (hwl : wl.length = 2048) (ws : List W) (e : Bytes) (h : toBytes H wl false ws = some e) :
    12 ≤ ws.length ∧ ws.length % 3 = 0 ∧ ws.length ≤ 768 ∧
    ∃ idxs, ws.mapM (indexOf? wl) = some idxs ∧ decodeIdx H idxs = some e := by
  rw [to_bytes_eq_spec_ext H hH wl hwl] at h
  by_cases h12 : ws.length < 12
  · simp [h12] at h
  rw [if_neg h12] at h
  unfold decodeExt at h
  by_cases h3 : ws.length % 3 = 0
  · have hfun : wordIndex wl = indexOf? wl := funext fun w => (indexOf?_eq_spec wl w).symm
    simp only [h3, ne_eq, not_true_eq_false, if_false, hfun] at h
    cases hm : ws.mapM (indexOf? wl) with
    | none => simp [hm] at h
    | some idxs =>
      simp only [hm] at h
      refine ⟨by omega, h3, ?_, idxs, rfl, h⟩
      by_cases hmax : ws.length ≤ 768
      · exact hmax
      · have := (toBytes_long H hH wl hwl ws idxs h3 (by omega) hm).2
        rw [this] at h; simp at h
  · simp [h3] at h

/-- **Mnemonic → entropy → mnemonic is the identity** on everything `mnemonic_to_bytes` accepts (in particular
    on every BIP39-valid phrase). No distinctness of the list is needed in this direction. -/
theorem from_to (H : Bytes → Bytes) (hH : ∀ x, (H x).length = 32) (wl : List W)
    (hwl : wl.length = 2048) (ws : List W) (e : Bytes) (h : toBytes H wl false ws = some e) :
    fromBytes H wl e = some ws := by
  obtain ⟨h12, h3, hmax, idxs, hm, hd⟩ := to_bytes_ok_inv H hH wl hwl ws e h
  obtain ⟨hil, hlt⟩ := mapM_lt wl ws idxs hm
  obtain ⟨henc, hel⟩ := encodeIdx_decodeIdx H idxs e (ws.length / 3) (by omega) (fun i hi => hwl ▸ hlt i hi) hd
  rw [from_bytes_eq_spec H hH wl e (by omega) (by omega), encode, henc]
  exact words_lookup wl ws idxs hm

/-- for valid phrases, stated with the specification's predicate -/
theorem from_to_valid (H : Bytes → Bytes) (hH : ∀ x, (H x).length = 32) (wl : List W)
    (hwl : wl.length = 2048) (ws : List W) (hv : valid H wl ws) :
    ∃ e, toBytes H wl false ws = some e ∧ allowedEntropy e ∧ fromBytes H wl e = some ws := by
  unfold valid at hv
  have hb : 12 ≤ ws.length ∧ ws.length ≤ 24 := by
    by_cases hb : 12 ≤ ws.length ∧ ws.length ≤ 24
    · exact hb
    · simp [decode, hb] at hv
  obtain ⟨e, he⟩ := Option.isSome_iff_exists.mp hv
  rw [← to_bytes_eq_spec H hH wl hwl ws hb.1 hb.2] at he
  refine ⟨e, he, ?_, from_to H hH wl hwl ws e he⟩
  obtain ⟨h12, h3, hmax, idxs, hm, hd⟩ := to_bytes_ok_inv H hH wl hwl ws e he
  obtain ⟨hil, hlt⟩ := mapM_lt wl ws idxs hm
  obtain ⟨_, hel⟩ := encodeIdx_decodeIdx H idxs e (ws.length / 3) (by omega) (fun i hi => hwl ▸ hlt i hi) hd
  unfold allowedEntropy; omega

/-- the decidable rule and the generative definition of BIP39 agree: a phrase is valid exactly when it is the
    mnemonic of some entropy of an allowed length -/
theorem valid_iff_encoding (H : Bytes → Bytes) (hH : ∀ x, (H x).length = 32) (wl : List W)
    (hwl : wl.length = 2048) (hnd : wl.Nodup) (ws : List W) :
    valid H wl ws ↔ ∃ e, allowedEntropy e ∧ encode H wl e = some ws := by
  constructor
  · intro hv
    obtain ⟨e, _, ha, hf⟩ := from_to_valid H hH wl hwl ws hv
    obtain ⟨k, hk, _, _⟩ := allowed_lengths e ha
    exact ⟨e, ha, by rw [← from_bytes_eq_spec H hH wl e (by omega) (by omega)]; exact hf⟩
  · rintro ⟨e, ha, he⟩
    obtain ⟨ws', hf, _, _, _, hv⟩ := to_from H hH wl hwl hnd e ha
    obtain ⟨k, hk, _, _⟩ := allowed_lengths e ha
    rw [from_bytes_eq_spec H hH wl e (by omega) (by omega), he] at hf
    cases hf; exact hv

/-- two accepted phrases with the same entropy are the same phrase -/
theorem to_bytes_injective (H : Bytes → Bytes) (hH : ∀ x, (H x).length = 32) (wl : List W)
    (hwl : wl.length = 2048) (ws ws' : List W) (e : Bytes)
    (h : toBytes H wl false ws = some e) (h' : toBytes H wl false ws' = some e) : ws = ws' := by
  have a := from_to H hH wl hwl ws e h
  have b := from_to H hH wl hwl ws' e h'
  rw [a] at b; exact Option.some.inj b

/-- **Every checksum bit matters.** If `ws` is accepted with entropy `e`, any *other* phrase that carries the same
    entropy bits (that is what `ignore_checksum=True` returns) — i.e. differs from `ws` in checksum bits only, in
    whichever of them — is refused. -/
theorem wrong_checksum_rejected (H : Bytes → Bytes) (hH : ∀ x, (H x).length = 32) (wl : List W)
    (hwl : wl.length = 2048) (ws ws' : List W) (e : Bytes)
    (h : toBytes H wl false ws = some e) (hne : ws' ≠ ws) (hsame : toBytes H wl true ws' = some e) :
    toBytes H wl false ws' = none := by
  cases h' : toBytes H wl false ws' with
  | none => rfl
  | some e' =>
    exfalso
    obtain ⟨h12, h3, hmax, idxs, hm, _⟩ := to_bytes_ok_inv H hH wl hwl ws' e' h'
    have hi := toBytes_ignore H hH wl hwl ws' idxs h3 h12 hmax hm
    have hs := toBytes_some H hH wl hwl false ws' idxs h3 h12 hmax hm
    rw [h'] at hs
    split at hs
    · simp at hs
    · rw [hsame] at hi
      have : e' = e := by
        simp only [Option.some.injEq] at hs hi; rw [hs, hi]
      subst this
      exact hne (to_bytes_injective H hH wl hwl ws' ws e' h' h)

/-- the `ignore_checksum=True` + `mnemonic_from_bytes` idiom ("fix the checksum", see the repository's test):
    for any 12…24 list words, a multiple of three, it yields a valid phrase with the same entropy -/
theorem fix_checksum (H : Bytes → Bytes) (hH : ∀ x, (H x).length = 32) (wl : List W)
    (hwl : wl.length = 2048) (hnd : wl.Nodup) (ws : List W) (idxs : List Nat)
    (h12 : 12 ≤ ws.length) (h24 : ws.length ≤ 24) (h3 : ws.length % 3 = 0)
    (hm : ws.mapM (indexOf? wl) = some idxs) :
    ∃ e ws', toBytes H wl true ws = some e ∧ fromBytes H wl e = some ws' ∧ valid H wl ws' ∧
      toBytes H wl false ws' = some e ∧ ws'.length = ws.length := by
  have hi := toBytes_ignore H hH wl hwl ws idxs h3 h12 (by omega) hm
  obtain ⟨hil, hlt⟩ := mapM_lt wl ws idxs hm
  have hbl : (idxs.flatMap (bitsOfNat 11)).length = 33 * (ws.length / 3) := by
    rw [flatMap_bits_length, hil]; omega
  obtain ⟨_, hel⟩ := bytesToBits_bitsToBytes (4 * (ws.length / 3)) (entropyBits idxs)
    (by simp [entropyBits, hbl]; omega)
  have ha : allowedEntropy (bitsToBytes (entropyBits idxs)) := by unfold allowedEntropy; omega
  obtain ⟨ws', hf, ht, _, _, hv⟩ := to_from H hH wl hwl hnd _ ha
  refine ⟨_, ws', hi, hf, hv, ht, ?_⟩
  obtain ⟨_, h3', _, idxs', hm', hd'⟩ := to_bytes_ok_inv H hH wl hwl ws' _ ht
  obtain ⟨hil', hlt'⟩ := mapM_lt wl ws' idxs' hm'
  obtain ⟨_, hel'⟩ := encodeIdx_decodeIdx H idxs' _ (ws'.length / 3) (by omega) (fun i hi => hwl ▸ hlt' i hi) hd'
  omega

/-! ### seed -/

/-- **Standard seed** (definitional on the model): for a phrase the validation accepts, the seed is
    PBKDF2(password = UTF-8 of the phrase, salt = "mnemonic" ‖ UTF-8 of the passphrase, 2048 rounds, 64 bytes)
    — the BIP39 seed, for strings already in NFKD (embit does not normalise). `pbkdf2` is any function; the
    executable PBKDF2-HMAC-SHA512 of the driver is compared with `hashlib.pbkdf2_hmac` on every run. -/
theorem seed_eq_pbkdf2 (H : Bytes → Bytes) (pbkdf2 : Bytes → Bytes → Nat → Nat → Bytes) (wl : List W)
    (ws : List W) (m pw : Bytes) (h : (toBytes H wl false ws).isSome = true) :
    toSeed H pbkdf2 (some wl) ws m pw = some (Spec.Bip39.seed pbkdf2 m pw) := by
  obtain ⟨e, he⟩ := Option.isSome_iff_exists.mp h
  simp [toSeed, he, Spec.Bip39.seed, Model.Bip39.mnemonicLabel, Spec.Bip39.mnemonicLabel, pbkdf2Rounds]

/-- with a word list, a phrase that `mnemonic_to_bytes` refuses yields no seed -/
theorem seed_rejects_invalid (H : Bytes → Bytes) (pbkdf2 : Bytes → Bytes → Nat → Nat → Bytes) (wl : List W)
    (ws : List W) (m pw : Bytes) (h : toBytes H wl false ws = none) :
    toSeed H pbkdf2 (some wl) ws m pw = none := by
  simp [toSeed, h]

/-- `wordlist=None`: no validation, same derivation -/
theorem seed_unchecked (H : Bytes → Bytes) (pbkdf2 : Bytes → Bytes → Nat → Nat → Bytes)
    (ws : List W) (m pw : Bytes) :
    toSeed H pbkdf2 (none : Option (List W)) ws m pw = some (Spec.Bip39.seed pbkdf2 m pw) := by
  simp [toSeed, Spec.Bip39.seed, Model.Bip39.mnemonicLabel, Spec.Bip39.mnemonicLabel, pbkdf2Rounds]

/-- for valid 12…24-word phrases: seed defined and standard -/
theorem seed_of_valid (H : Bytes → Bytes) (hH : ∀ x, (H x).length = 32) (pbkdf2 : Bytes → Bytes → Nat → Nat → Bytes)
    (wl : List W) (hwl : wl.length = 2048) (ws : List W) (m pw : Bytes) (hv : valid H wl ws) :
    toSeed H pbkdf2 (some wl) ws m pw = some (Spec.Bip39.seed pbkdf2 m pw) := by
  obtain ⟨e, he, _, _⟩ := from_to_valid H hH wl hwl ws hv
  exact seed_eq_pbkdf2 H pbkdf2 wl ws m pw (by rw [he]; rfl)

/-! ### the string layer and `find_candidates` -/

/-- `" ".join(words).strip().split()` gives the words back when no word is empty or contains white space
    (a fact about the list, checked by the harness on the lists used) -/
theorem split_join_words {C : Type} (isSpace : C → Bool) (sp : C) (hsp : isSpace sp = true) (ws : List (List C))
    (hws : ∀ w ∈ ws, w ≠ [] ∧ ∀ c ∈ w, isSpace c = false) : splitWs isSpace [] (joinSp sp ws) = ws :=
  split_join isSpace sp hsp ws hws

/-- `find_candidates` returns the first `nmax` list words with the given prefix, in list order (`nmax ≥ 1`) -/
theorem find_candidates_spec (p : W → Bool) (nmax : Nat) (h : 1 ≤ nmax) (wl : List W) :
    findCandidates p nmax [] wl = (wl.filter p).take nmax := by
  rw [findCandidates_eq p nmax [] wl (by simp; omega)]; simp

/-- quirk outside the property: with `nmax = 0` the loop still lets one match of the first word through -/
theorem find_candidates_nmax_zero : findCandidates (fun _ => true) 0 [] [7, 8] = [7] := by decide

/-! ### non-vacuity: the hypotheses are satisfiable and the statements bite -/

def exH : Bytes → Bytes := fun b => List.replicate 32 (UInt8.ofNat (b.length + (b.headD 0).toNat))
def exList : List Nat := List.range 2048

example : ∀ x, (exH x).length = 32 := by intro x; simp [exH]
example : exList.length = 2048 ∧ exList.Nodup := ⟨by simp [exList], List.nodup_range⟩

/-- entropy `01 00 … 00` (16 bytes): its mnemonic, back to the entropy, valid; the checksum word matters -/
def exEntropy : Bytes := 1 :: List.replicate 15 0
example : allowedEntropy exEntropy := by decide
example : fromBytes exH exList exEntropy = some [8, 0, 0, 0, 0, 0, 0, 0, 0, 0, 0, 1] := by decide +kernel
example : toBytes exH exList false [8, 0, 0, 0, 0, 0, 0, 0, 0, 0, 0, 1] = some exEntropy := by decide +kernel
example : valid exH exList [8, 0, 0, 0, 0, 0, 0, 0, 0, 0, 0, 1] := by decide +kernel
-- each of the four checksum bits flipped: refused; with ignore_checksum the entropy is still read
example : ([0, 3, 5, 9] : List Nat).all (fun last =>
    (toBytes exH exList false [8, 0, 0, 0, 0, 0, 0, 0, 0, 0, 0, last]).isNone &&
    toBytes exH exList true [8, 0, 0, 0, 0, 0, 0, 0, 0, 0, 0, last] == some exEntropy) = true := by decide +kernel
-- an out-of-list word (index 2048 is not in `range 2048`), a wrong length
example : toBytes exH exList false [8, 0, 0, 0, 0, 2048, 0, 0, 0, 0, 0, 1] = none := by decide +kernel
example : toBytes exH exList false [8, 0, 0, 0, 0, 0, 0, 0, 0, 0, 0, 0, 1] = none := by decide +kernel
-- a state satisfying the loop invariant mid-way: 11 bits `00000001000` = two bytes `01 00`, offset 3
example : Rep ⟨[1, 0], 3⟩ 8 11 := by unfold Rep; decide

end Embit.Props.C15
