import EmbitModel.Props.C13X
import EmbitModel.Proofs.DescMsArgs
/-
  C13, audit item A-9 / X2 — `Ms.parserArgs` is no longer a bare hypothesis: it is PROVED of what the parser produces.

  Props/C13X `accepted_compiles_to_template` assumes `e.parserArgs ctx` ("the shape of the arguments the descriptor
  parser produces"). Here that is proved of the character-level parser `readMs` (Model/Descriptor.lean, the function
  Props/C12X `read_miniscript_normal` talks about), through the translation to script-level expressions that
  `compileMs` uses: `e.toMs (fragPayload ops h tap)` (keys → `Key.serialize()` / `KeyHash.serialize()` bytes).

  Assumptions, all explicit hypotheses (no axioms):
    `KeyCodec ops`   — the one of C12X (the key decoders are sound);
    `SecLaws ops h`  — `.sec()` of every key object is a SEC encoding (33 bytes 02/03…, 65 bytes 04…), HASH160 returns
                       20 bytes (satisfied by the toy instance below).
  `parserArgs` = `argShape` (shapes of keys / hashes) ∧ `threshSmall` (threshold of every `thresh` < 2^256):
    * `argShape` holds of EVERY parsed expression (`parsed_ms_argShape`);
    * `threshSmall` is NOT a consequence of parsing (`parsed_thresh_unbounded`: `thresh(2^256,pk(A))` parses) — it is a
      consequence of `verify()` (1 ≤ k ≤ n) for every expression of fewer than 2^256 nodes (`nodeCount`).
  So `parsed_ms_parserArgs` has the hypotheses "parsed, verified, fewer than 2^256 nodes", and the C13X end-to-end
  theorems hold of every parsed + accepted expression without the `parserArgs` hypothesis.
-/
namespace Embit.Props.C13
open Embit Embit.Miniscript Embit.Model.Descriptor

variable {K : Type}

/-- every expression `Miniscript.read_from` returns has parser-shaped arguments after translation to script level:
    SEC keys in P2WSH, 32-byte keys in tapscript (pk / pk_k / multi family), 20-byte key hashes, 32/20-byte digests -/
theorem parsed_ms_argShape (ops : KeyOps K) (hc : KeyCodec ops) (h : Hashes) (hl : SecLaws ops h) (tap : Bool)
    (fuel : Nat) (s s' : Stream) (e : DMs K) (m : Ms) (hp : readMs ops tap fuel s = some (e, s'))
    (hm : e.toMs (fragPayload ops h tap) = some m) : argShape (msCtx tap) m = true :=
  argShape_of_normal ops h hl tap e (readMs_normal ops hc tap fuel s s' e hp) m hm

/-- on parsed expressions `parserArgs` says exactly "the thresholds are below 2^256" -/
theorem parsed_ms_parserArgs_eq (ops : KeyOps K) (hc : KeyCodec ops) (h : Hashes) (hl : SecLaws ops h) (tap : Bool)
    (fuel : Nat) (s s' : Stream) (e : DMs K) (m : Ms) (hp : readMs ops tap fuel s = some (e, s'))
    (hm : e.toMs (fragPayload ops h tap) = some m) : m.parserArgs (msCtx tap) = threshSmall m := by
  rw [parserArgs_iff, parsed_ms_argShape ops hc h hl tap fuel s s' e m hp hm, Bool.true_and]

/-- MAIN: a parsed expression that passes `verify()` (and has fewer than 2^256 nodes) satisfies `Ms.parserArgs` -/
theorem parsed_ms_parserArgs (ops : KeyOps K) (hc : KeyCodec ops) (h : Hashes) (hl : SecLaws ops h) (tap : Bool)
    (fuel : Nat) (s s' : Stream) (e : DMs K) (m : Ms) (hp : readMs ops tap fuel s = some (e, s'))
    (hm : e.toMs (fragPayload ops h tap) = some m) (hv : Model.Miniscript.verify (msCtx tap) m = true)
    (hn : nodeCount m < 2 ^ 256) : m.parserArgs (msCtx tap) = true := by
  rw [parsed_ms_parserArgs_eq ops hc h hl tap fuel s s' e m hp hm]
  exact threshSmall_of_verify (msCtx tap) m hv hn

/-- COROLLARY (C13X `accepted_compiles_to_template` without its `parserArgs` hypothesis): a parsed and accepted
    expression compiles to exactly the script of the specification, and its reported length is that script's length -/
theorem parsed_accepted_compiles_to_template (ops : KeyOps K) (hc : KeyCodec ops) (h : Hashes) (hl : SecLaws ops h)
    (tap : Bool) (fuel : Nat) (s s' : Stream) (e : DMs K) (m : Ms) (hp : readMs ops tap fuel s = some (e, s'))
    (hm : e.toMs (fragPayload ops h tap) = some m) (ha : Model.Miniscript.accepts (msCtx tap) m = true)
    (hn : nodeCount m < 2 ^ 256) :
    Model.Miniscript.compile m = Spec.Miniscript.scriptBytes m
    ∧ Model.Miniscript.len m = (Model.Miniscript.compile m).length
    ∧ Model.Miniscript.len m = (Spec.Miniscript.scriptBytes m).length := by
  have hv : Model.Miniscript.verify (msCtx tap) m = true := by
    simp only [Model.Miniscript.accepts, Bool.and_eq_true] at ha; exact ha.1.2
  exact accepted_compiles_to_template (msCtx tap) m
    (parsed_ms_parserArgs ops hc h hl tap fuel s s' e m hp hm hv hn) ha

/-- the same from the specification's side (C13X `wellTyped_compiles_to_template` without `parserArgs`) -/
theorem parsed_wellTyped_compiles_to_template (ops : KeyOps K) (hc : KeyCodec ops) (h : Hashes) (hl : SecLaws ops h)
    (tap : Bool) (fuel : Nat) (s s' : Stream) (e : DMs K) (m : Ms) (hp : readMs ops tap fuel s = some (e, s'))
    (hm : e.toMs (fragPayload ops h tap) = some m) (hw : Spec.Miniscript.wellTyped (msCtx tap) m = true)
    (hn : nodeCount m < 2 ^ 256) :
    Model.Miniscript.compile m = Spec.Miniscript.scriptBytes m
    ∧ Model.Miniscript.len m = (Spec.Miniscript.scriptBytes m).length :=
  let r := parsed_accepted_compiles_to_template ops hc h hl tap fuel s s' e m hp hm (complete (msCtx tap) m hw) hn
  ⟨r.1, r.2.2⟩

/-- what `compileMs` (the descriptor's script, C12) returns for a parsed and accepted miniscript is the
    specification's script of its translation -/
theorem parsed_compileMs_eq_spec (ops : KeyOps K) (hc : KeyCodec ops) (h : Hashes) (hl : SecLaws ops h)
    (tap : Bool) (fuel : Nat) (s s' : Stream) (e : DMs K) (m : Ms) (hp : readMs ops tap fuel s = some (e, s'))
    (hm : e.toMs (fragPayload ops h tap) = some m) (ha : Model.Miniscript.accepts (msCtx tap) m = true)
    (hn : nodeCount m < 2 ^ 256) : compileMs ops h tap e = some (Spec.Miniscript.scriptBytes m) := by
  simp only [compileMs, hm, Option.map_some]
  rw [(parsed_accepted_compiles_to_template ops hc h hl tap fuel s s' e m hp hm ha hn).1]

/-- DESCRIPTOR LEVEL: the miniscript of every descriptor `Descriptor.from_string` returns (sh / wsh / sh(wsh) forms)
    has parser-shaped arguments after translation -/
theorem parsed_desc_argShape (ops : KeyOps K) (hc : KeyCodec ops) (h : Hashes) (hl : SecLaws ops h) (t : Str)
    (d : Desc K) (hp : Desc.parse ops t = some d) (e : DMs K) (he : d.miniscript = some e) (m : Ms)
    (hm : e.toMs (fragPayload ops h false) = some m) : argShape .wsh m = true := by
  have hn := parse_normal ops hc t d hp
  cases hn with
  | keyForm f k _ _ => cases f <;> simp [KeyForm.desc] at he
  | msForm f e' hn' _ =>
    have : e' = e := by cases f <;> simpa [MsForm.desc] using he
    subst this
    exact argShape_of_normal ops h hl false e' hn' m hm
  | trTree k tree _ _ _ => simp at he

/-! ### non-vacuity: a toy key type satisfying `KeyCodec` and `SecLaws`, and parses evaluated in the kernel -/

/-- keys = byte strings; `.sec()` is the string itself when it is a SEC encoding, else a fixed compressed key -/
def toyOpsY : KeyOps Bytes where
  kind := fun _ => .pub
  parseSec := fun b => if secKey b then some b else none
  parseXkey := fun _ => none
  parseWif := fun _ => none
  text := fun _ => none
  sec := fun k => if secKey k then k else 2 :: List.replicate 32 1
  isPrivate := fun _ => false
  derive := fun _ _ => none
  toPublic := fun k => some k
  tweak := fun _ _ => none

def toyHashesY : Hashes := ⟨fun b => b, fun b => (b ++ List.replicate 20 0).take 20, fun _ b => b⟩

theorem secShape_of_secKey (b : Bytes) (hs : secKey b = true) : SecShape b := by
  cases b with
  | nil => simp [secKey] at hs
  | cons x rest =>
    refine ⟨x, rest, rfl, ?_⟩
    simp only [secKey, List.length_cons, List.head?_cons, Bool.or_eq_true, Bool.and_eq_true, beq_iff_eq,
      Option.some.injEq] at hs
    rcases hs with ⟨h1, h2⟩ | ⟨h1, h2⟩
    · exact Or.inl ⟨by omega, h2⟩
    · exact Or.inr ⟨by omega, h2⟩

theorem toy_codecY : KeyCodec toyOpsY where
  sec := by
    intro b key h
    simp only [toyOpsY] at h
    split at h
    · rename_i hs
      simp only [Option.some.injEq] at h; subst h
      exact ⟨rfl, by simp only [toyOpsY, hs, if_true], secShape_of_secKey b hs⟩
    · simp at h
  xkey := by intro s key h; simp [toyOpsY] at h
  wif := by intro s key h; simp [toyOpsY] at h
  textShape := by intro s key h; simp [toyOpsY] at h

theorem toy_lawsY : SecLaws toyOpsY toyHashesY where
  sec := by
    intro k
    simp only [toyOpsY]
    split
    · assumption
    · decide
  h160 := by intro b; simp [toyHashesY, List.length_take]

/-- `and_v(v:pkh(<20-byte hash>),thresh(2,pk(A),s:pk(U),a:multi(1,B,A)))` with a compressed key A = 02…, an
    uncompressed key U = 04…, a compressed key B = 03… -/
def demoText : Str :=
  "and_v(v:pkh(".toList ++ hexlify (List.replicate 20 5) ++ "),thresh(2,pk(".toList ++ hexlify kA ++ "),s:pk(".toList
    ++ hexlify kU ++ "),a:multi(1,".toList ++ hexlify kB ++ ",".toList ++ hexlify kA ++ ")))".toList

def demoMs : Ms :=
  .bin .and_v (.wrap .v (.key .pkh (List.replicate 20 5)))
    (.thresh 2 [.key .pk kA, .wrap .s (.key .pk kU), .wrap .a (.multi .multi 1 [kB, kA])])

set_option maxRecDepth 100000 in
/-- the hypotheses of `parsed_ms_parserArgs` / `parsed_accepted_compiles_to_template` are satisfiable by a nested
    expression with a raw key hash, mixed key kinds, a thresh and a multi: it parses, translates, is accepted -/
example : (((readMs toyOpsY false 20 (Stream.ofStr demoText)).bind fun r =>
        r.1.toMs (fragPayload toyOpsY toyHashesY false)).map fun m =>
          (Model.Miniscript.compile m, Model.Miniscript.accepts (msCtx false) m, decide (nodeCount m < 2 ^ 256),
            m.parserArgs .wsh, mentions .multi m))
      = some (Model.Miniscript.compile demoMs, true, true, true, true)
    ∧ Model.Miniscript.accepts (msCtx false) demoMs = true ∧ nodeCount demoMs < 2 ^ 256
    ∧ demoMs.parserArgs .wsh = true := by
  decide +kernel

/-- tapscript: `multi_a(2,<x-only A>,<x-only B>)` parses to 32-byte keys -/
def demoTapText : Str := "multi_a(2,".toList ++ hexlify xA ++ ",".toList ++ hexlify xB ++ ")".toList

set_option maxRecDepth 100000 in
example : (((readMs toyOpsY true 20 (Stream.ofStr demoTapText)).bind fun r =>
        r.1.toMs (fragPayload toyOpsY toyHashesY true)).map fun m =>
          (Model.Miniscript.compile m, Model.Miniscript.accepts (msCtx true) m, m.parserArgs .tap))
      = some (Model.Miniscript.compile (.multi .multi_a 2 [xA, xB]), true, true) := by
  decide +kernel

/-- the threshold of `thresh` is the one thing `parserArgs` asks that parsing alone does not give:
    `thresh(2^256,pk(A))` is read (to be rejected by `verify()` only) -/
def bigThreshText : Str :=
  "thresh(115792089237316195423570985008687907853269984665640564039457584007913129639936,pk(".toList
    ++ hexlify kA ++ "))".toList

set_option maxRecDepth 100000 in
theorem parsed_thresh_unbounded :
    (((readMs toyOpsY false 20 (Stream.ofStr bigThreshText)).bind fun r =>
        r.1.toMs (fragPayload toyOpsY toyHashesY false)).map fun m =>
          (match m with | .thresh k xs => (k, xs.length) | _ => (0, 0), m.parserArgs .wsh, argShape .wsh m,
            Model.Miniscript.verify .wsh m))
      = some ((2 ^ 256, 1), false, true, false) := by
  decide +kernel

-- GOAL (not proved): nodeCount m < 2 ^ 256 from a bound on the length of the parsed text (every node consumes at least
--   one character), which would turn the `hn` hypothesis into "the descriptor text is shorter than 2^256 characters"
-- GOAL (not proved): `parsed_desc_argShape` for every tap leaf of a parsed `tr(K,TREE)` descriptor (`parse_normal` gives
--   `TreeNormal`, i.e. `MsNormal ops true` of every leaf; `argShape_of_normal` applies to it unchanged), and the
--   descriptor-level corollary with `msAccepted` (acceptance of the key-blanked shape) in place of `accepts m`

end Embit.Props.C13
