import EmbitModel.Proofs.MiniscriptLen
/-
  C13 — Accepted miniscript is well-typed and compiles to the specified script.
  Property theorems only. `Model.Miniscript.*` is the model of embit's `descriptor/miniscript.py` after the C13
  fixes (tied to the repo by the correspondence check and by `Generated/MiniscriptTable.lean`);
  `Spec.Miniscript.*` is the published type table and translation table, stated for core fragments with the
  sugar (`pk pkh and_n t: l: u: sortedmulti*`) removed by `desugar`.
  All statements are for EVERY expression tree (structural induction), both contexts, no depth bound.
-/
namespace Embit.Props.C13
open Embit Embit.Miniscript

/-- the class structure the hand-written model assumes (operator / wrapper lists, NARGS, argument classes, and
    for every class which class's `__init__ verify type properties inner_compile compile __len__ len_args
    read_arguments` runs) is the one extracted from the loaded module -/
theorem structure_as_modelled :
    Gen.Ms.classTable = Model.Miniscript.modelledClassTable
    ∧ Gen.Ms.operators = ["pk_k", "pk_h", "older", "after", "sha256", "hash256", "ripemd160", "hash160", "andor",
        "and_v", "and_b", "and_n", "or_b", "or_c", "or_d", "or_i", "thresh", "multi", "sortedmulti", "multi_a",
        "sortedmulti_a", "pk", "pkh"]
    ∧ Gen.Ms.wrappers = ["a", "s", "c", "t", "d", "v", "j", "n", "l", "u"] := by
  refine ⟨rfl, rfl, rfl⟩

/-! ### typing -/

/-- at every base type: the objects can be built and `verify()` passes exactly when the specification assigns
    a type, and then `.type` / `.properties` are that type -/
theorem typing_agrees (ctx : Ctx) (e : Ms) :
    Spec.Miniscript.typeOf ctx (Spec.Miniscript.desugar e) =
      if Model.Miniscript.constructible ctx e && Model.Miniscript.verify ctx e
      then some (Model.Miniscript.type e, Model.Miniscript.props ctx e) else none :=
  typeOf_desugar ctx e

/-- embit accepts an expression inside `wsh(…)` / as a `tr(…)` leaf exactly when it is well-typed with top-level B -/
theorem accepts_eq_wellTyped (ctx : Ctx) (e : Ms) :
    Model.Miniscript.accepts ctx e = Spec.Miniscript.wellTyped ctx e := by
  unfold Model.Miniscript.accepts Spec.Miniscript.wellTyped
  rw [typing_agrees]
  by_cases c1 : Model.Miniscript.constructible ctx e = true <;>
    by_cases c2 : Model.Miniscript.verify ctx e = true <;> simp [c1, c2]
  cases Model.Miniscript.type e <;> simp

/-- every well-typed expression over the supported fragments and wrappers is accepted -/
theorem complete (ctx : Ctx) (e : Ms) (h : Spec.Miniscript.wellTyped ctx e = true) :
    Model.Miniscript.accepts ctx e = true := by
  rw [accepts_eq_wellTyped]; exact h

/-- every accepted expression is well-typed (base types, properties, argument ranges, context rules, top level B) -/
theorem sound (ctx : Ctx) (e : Ms) (h : Model.Miniscript.accepts ctx e = true) :
    Spec.Miniscript.wellTyped ctx e = true := by
  rw [← accepts_eq_wellTyped]; exact h

theorem types_agree (ctx : Ctx) (e : Ms) (tp : Spec.Miniscript.TP)
    (h : Spec.Miniscript.typeOf ctx (Spec.Miniscript.desugar e) = some tp) : Model.Miniscript.type e = tp.1 := by
  rw [typing_agrees] at h
  split at h
  · simp at h; rw [← h]
  · simp at h

theorem props_agree (ctx : Ctx) (e : Ms) (tp : Spec.Miniscript.TP)
    (h : Spec.Miniscript.typeOf ctx (Spec.Miniscript.desugar e) = some tp) : Model.Miniscript.props ctx e = tp.2 := by
  rw [typing_agrees] at h
  split at h
  · simp at h; rw [← h]
  · simp at h

/-- context rules: `multi`/`sortedmulti` are never accepted in tapscript, `multi_a`/`sortedmulti_a` never in P2WSH
    (at the top level; inside an expression they make `constructible` fail) -/
theorem multi_context (k : Nat) (keys : List Bytes) :
    Model.Miniscript.accepts .tap (.multi .multi k keys) = false
    ∧ Model.Miniscript.accepts .tap (.multi .sortedmulti k keys) = false
    ∧ Model.Miniscript.accepts .wsh (.multi .multi_a k keys) = false
    ∧ Model.Miniscript.accepts .wsh (.multi .sortedmulti_a k keys) = false := by
  simp [Model.Miniscript.accepts, Model.Miniscript.constructible, Gen.Ms.multiTaproot]

/-! ### compilation -/

/-- `compile()` emits exactly the script the specification assigns — for every expression whose `verify()`
    passes (any base type), in particular for every accepted one -/
theorem compile_eq_template (ctx : Ctx) (e : Ms) (ha : e.argsOk = true)
    (hv : Model.Miniscript.verify ctx e = true) :
    Model.Miniscript.compile e = Spec.Miniscript.scriptBytes e :=
  compile_eq ctx e ha hv

theorem compile_eq_template_of_wellTyped (ctx : Ctx) (e : Ms) (ha : e.argsOk = true)
    (hw : Spec.Miniscript.wellTyped ctx e = true) :
    Model.Miniscript.compile e = Spec.Miniscript.scriptBytes e := by
  have h := complete ctx e hw
  simp only [Model.Miniscript.accepts, Bool.and_eq_true] at h
  exact compile_eq ctx e ha h.1.2

/-- the reported length equals the length of the compiled script — every expression, typed or not -/
theorem len_eq_compiled (e : Ms) (h : e.lensOk = true) :
    Model.Miniscript.len e = (Model.Miniscript.compile e).length :=
  len_eq_compile e h

/-- … and therefore the length of the script the specification assigns -/
theorem len_eq_template_length (ctx : Ctx) (e : Ms) (ha : e.argsOk = true) (hl : e.lensOk = true)
    (hw : Spec.Miniscript.wellTyped ctx e = true) :
    Model.Miniscript.len e = (Spec.Miniscript.scriptBytes e).length := by
  rw [len_eq_compiled e hl, compile_eq_template_of_wellTyped ctx e ha hw]

/-! ### the defects that were repaired (theorems about the old rules; fixes/*.diff) -/

/-- D17: `andor`/`and_n` with X having only `u` (n:older(1): Bzu) or only `d` passed the old check; the table
    demands `Bdu` -/
theorem old_andor_accepted_without_d :
    Model.Miniscript.andorVerifyOld .B { z := true, u := true } .B .B = true
    ∧ Model.Miniscript.andorVerifyOld .B { o := true, n := true, d := true } .B .B = true
    ∧ Spec.Miniscript.andorRule (.B, { z := true, u := true }) (.B, {}) (.B, {}) = none
    ∧ Spec.Miniscript.andorRule (.B, { o := true, n := true, d := true }) (.B, {}) (.B, {}) = none := by
  decide

/-- D18: `t:X` was accepted for X of any type (t:pk(K) with pk(K) : B); `t:X = and_v(X,1)` needs X : V -/
theorem old_t_accepted_non_V :
    Model.Miniscript.wrapVerifyTOld .B {} = true
    ∧ Spec.Miniscript.binRule .and_v (.B, {}) (.B, { z := true, u := true }) = none := by
  decide

/-- D19: `multi` with 21 keys passed; the table has n ≤ 20 -/
theorem old_multi_accepted_21_keys :
    Model.Miniscript.multiVerifyOld 1 21 = true ∧ Spec.Miniscript.multiRule .wsh 1 21 = none := by
  decide

/-- D20: `multi_a` claimed property n (so `j:multi_a(…)` was accepted); the table gives it only d, u -/
theorem old_multi_a_claimed_n :
    Model.Miniscript.multiAPropsOld.n = true
    ∧ Spec.Miniscript.multiARule .tap 1 1 = some (.B, { d := true, u := true })
    ∧ Spec.Miniscript.wrapRule .tap .j (.B, { d := true, u := true }) = none := by
  decide

set_option maxRecDepth 100000 in
/-- D22: `len(multi(…))` was one short from 17 keys on, and `len(key)` was 34 for a 65-byte key -/
theorem old_len_wrong :
    Model.Miniscript.multiLenOld 1 (List.replicate 17 (List.replicate 33 2)) + 1
      = (Model.Miniscript.compile (.multi .multi 1 (List.replicate 17 (List.replicate 33 2)))).length
    ∧ Model.Miniscript.keyLenOld false = 34
    ∧ (Model.Miniscript.pushCompact (List.replicate 65 4)).length = 66 := by
  decide

/-! ### non-vacuity -/

set_option maxRecDepth 100000

def kA : Bytes := List.replicate 33 2
def kB : Bytes := 3 :: List.replicate 32 7
def kC : Bytes := 2 :: List.replicate 32 9
def xA : Bytes := List.replicate 32 2
def xB : Bytes := List.replicate 32 7
def xC : Bytes := List.replicate 32 9

/-- wsh(andor(pk(A),older(1008),pk(B))) — from embit's test-suite -/
def ex1 : Ms := .andor (.key .pk kA) (.time .older 1008) (.key .pk kB)
/-- wsh(and_v(v:pk(A),or_d(pk(B),older(12960)))) -/
def ex2 : Ms := .bin .and_v (.wrap .v (.key .pk kA)) (.bin .or_d (.key .pk kB) (.time .older 12960))
/-- thresh(3,pk(A),s:pk(B),s:pk(C),sdv:older(12960)): valid in tapscript, invalid in P2WSH (d: has u only there) -/
def ex3 (a b c : Bytes) : Ms :=
  .thresh 3 [.key .pk a, .wrap .s (.key .pk b), .wrap .s (.key .pk c),
             .wrap .s (.wrap .d (.wrap .v (.time .older 12960)))]
/-- sortedmulti(2,C,B,A) -/
def ex4 : Ms := .multi .sortedmulti 2 [kB, kC, kA]
/-- t:or_c(pk(A),and_v(v:pk(B),or_c(pk(C),v:hash160(H)))) — from embit's test-suite -/
def ex5 : Ms :=
  .wrap .t (.bin .or_c (.key .pk kA) (.bin .and_v (.wrap .v (.key .pk kB))
    (.bin .or_c (.key .pk kC) (.wrap .v (.hash .hash160 (List.replicate 20 5))))))

example : Spec.Miniscript.wellTyped .wsh ex1 = true ∧ ex1.argsOk = true ∧ ex1.lensOk = true := by decide
example : Spec.Miniscript.wellTyped .wsh ex2 = true ∧ Spec.Miniscript.wellTyped .tap ex2 = true := by decide
example : Spec.Miniscript.wellTyped .tap (ex3 xA xB xC) = true ∧ Spec.Miniscript.wellTyped .wsh (ex3 kA kB kC) = false
    ∧ Model.Miniscript.accepts .tap (ex3 xA xB xC) = true ∧ Model.Miniscript.accepts .wsh (ex3 kA kB kC) = false := by
  decide
example : Spec.Miniscript.wellTyped .wsh ex4 = true ∧ ex4.argsOk = true ∧ ex4.lensOk = true := by decide
example : Spec.Miniscript.wellTyped .wsh ex5 = true ∧ ex5.argsOk = true ∧ ex5.lensOk = true := by decide
/-- the `v:` folding is exercised: CHECKSIG → CHECKSIGVERIFY, EQUAL → EQUALVERIFY -/
example : Model.Miniscript.compile (.wrap .v (.key .pk [1, 2])) = [2, 1, 2, 0xad]
    ∧ Spec.Miniscript.scriptBytes (.wrap .v (.hash .hash160 [9])) = [0x82, 0x01, 0x20, 0x88, 0xa9, 1, 9, 0x88] := by
  decide
/-- an ill-typed expression is rejected by both: s: needs property o, pkh has none -/
example : Model.Miniscript.accepts .wsh (.bin .or_b (.key .pk kA) (.wrap .s (.key .pkh (List.replicate 20 1)))) = false
    ∧ Spec.Miniscript.wellTyped .wsh (.bin .or_b (.key .pk kA) (.wrap .s (.key .pkh (List.replicate 20 1)))) = false := by
  decide

end Embit.Props.C13
