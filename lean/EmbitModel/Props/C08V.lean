import EmbitModel.Proofs.SignRecoverableDirect
import EmbitModel.Props.C08X
import EmbitModel.Props.C08W
import EmbitModel.Driver.SecpToy
/-
  C08V — `ecdsa_sign_recoverable` in FULL (audit item N6 / A-6(iii)).

  Props/C08X proved `py = contract` for the recoverable signer only away from the region `recidSearchSafe = false`
  (nonce point with `x(R) ≥ n`, or a wrong candidate that recovers the point at infinity), because py SEARCHED the
  recovery id by trial recovery and the first failing candidate left the loop by an exception. That was a genuine
  divergence from libsecp256k1 (C08-KF2, fixed by `fixes/c08-signrec.diff`): py now computes the id from the nonce
  point like libsecp256k1. `ecdsaSignRecoverableDirect` models the code after the fix; `ecdsaSignRecoverable` (the
  search) is kept for the C08X witnesses.

  The full statement needs NO curve law at all (the C08X statement needed `EcLaws`, `FiniteMultiples`, `p ≤ 2^256`):
  only `n < 2^256`, `n` odd, and the hypothesis `hgood` of `py_eq_contract_ecdsa_sign_partial` — it cannot be avoided:
  `ecdsa_sign_recoverable` starts with `ecdsa_sign`, and where the first valid RFC 6979 candidate yields r = 0 or s = 0
  libsecp256k1 moves on to the next candidate while py raises (`C08.ecdsa_sign_differs_when_r_zero`; ≈ 2^-256).
-/
namespace Embit.Props.C08V
open Embit Embit.Model Embit.Model.PySecp Embit.Model.PyCurve Embit.Props.C08X Embit.Props.C08Z Embit.Props.C08W

variable (E : EcOps) (H : HashOps)

/-- `ecdsa_sign_recoverable` under both backends: same 65 bytes or both reject, for EVERY message and key (nonce
    points with `x(R) ≥ n`, ids 2 and 3, negated S, wrong lengths, invalid keys included), on any curve record —
    wherever `ecdsa_sign` itself agrees (`hgood`) -/
theorem py_eq_contract_ecdsa_sign_recoverable (hn : E.n < 2 ^ 256) (hodd : E.n % 2 = 1) (fuel : Nat)
    (msg secret : Bytes)
    (hgood : ∀ k, deterministicK H fuel E.n (ofBe secret) (ofBe msg) none = some k →
      (Spec.Ecdsa.signWith E (ofBe secret) (ofBe msg) k).isSome) :
    ecdsaSignRecoverableDirect E H fuel msg secret = Spec.Libsecp.ecdsa_sign_recoverable E H fuel msg secret :=
  eq_ecdsa_sign_recoverable_direct E H hn hodd fuel msg secret hgood

set_option maxRecDepth 100000 in
/-- … at the record the native driver evaluates (`Driver.E = Crypto.secpLawful`, secp256k1): no curve hypothesis -/
theorem py_eq_contract_ecdsa_sign_recoverable_secpLawful (fuel : Nat) (msg secret : Bytes)
    (hgood : ∀ k, deterministicK H fuel Crypto.secpLawful.n (ofBe secret) (ofBe msg) none = some k →
      (Spec.Ecdsa.signWith Crypto.secpLawful (ofBe secret) (ofBe msg) k).isSome) :
    ecdsaSignRecoverableDirect Crypto.secpLawful H fuel msg secret
      = Spec.Libsecp.ecdsa_sign_recoverable Crypto.secpLawful H fuel msg secret :=
  eq_ecdsa_sign_recoverable_direct Crypto.secpLawful H
    (by show secp256k1N < 2 ^ 256; decide +kernel) (by show secp256k1N % 2 = 1; decide +kernel) fuel msg secret hgood

set_option maxRecDepth 100000 in
/-- … and at the record built from key.py's own arithmetic on secp256k1 (`pyEcOps secp256k1 n G`) -/
theorem py_eq_contract_ecdsa_sign_recoverable_secp256k1 (fuel : Nat) (msg secret : Bytes)
    (hgood : ∀ k, deterministicK H fuel secpE.n (ofBe secret) (ofBe msg) none = some k →
      (Spec.Ecdsa.signWith secpE (ofBe secret) (ofBe msg) k).isSome) :
    ecdsaSignRecoverableDirect secpE H fuel msg secret = Spec.Libsecp.ecdsa_sign_recoverable secpE H fuel msg secret :=
  eq_ecdsa_sign_recoverable_direct secpE H
    (by show secp256k1N < 2 ^ 256; decide +kernel) (by show secp256k1N % 2 = 1; decide +kernel) fuel msg secret hgood

/-- the repair changes nothing where the search was right: inside the region of `C08X.…_partial` the code before and
    after the fix return the same bytes -/
theorem direct_eq_search_when_safe (L : EcLaws E) (hn : E.n < 2 ^ 256) (hodd : E.n % 2 = 1)
    (hp : E.p ≤ 2 ^ 256) (hfinite : FiniteMultiples E) (fuel : Nat) (msg secret : Bytes)
    (hgood : ∀ k, deterministicK H fuel E.n (ofBe secret) (ofBe msg) none = some k →
      (Spec.Ecdsa.signWith E (ofBe secret) (ofBe msg) k).isSome)
    (hsafe : recidSearchSafe E H fuel msg secret = true) :
    ecdsaSignRecoverableDirect E H fuel msg secret = ecdsaSignRecoverable E H fuel msg secret := by
  rw [eq_ecdsa_sign_recoverable_direct E H hn hodd fuel msg secret hgood,
    eq_ecdsa_sign_recoverable_partial E H L hn hodd hp hfinite fuel msg secret hgood hsafe]

/-- at the three witness points of Props/C08X (the region the old statement excluded) the code after the fix answers
    what libsecp256k1's contract answers: id 3 for `x(R) ≥ n` (nonce 3), id 1 where the wrong candidate is infinite
    (nonce 2, d = 3, z = 5), id 3 at the lucky point (nonce 15) — and the code before the fix did not (first two) -/
theorem sign_recoverable_direct_at_old_witnesses :
    ecdsaSignRecoverableDirect toyCurve (constH 3) 2 (beN 32 1) (beN 32 1) = some (leN 32 4 ++ leN 32 12 ++ [3]) ∧
    Spec.Libsecp.ecdsa_sign_recoverable toyCurve (constH 3) 2 (beN 32 1) (beN 32 1)
      = some (leN 32 4 ++ leN 32 12 ++ [3]) ∧
    ecdsaSignRecoverable toyCurve (constH 3) 2 (beN 32 1) (beN 32 1) = none ∧
    ecdsaSignRecoverableDirect toyCurve (constH 2) 2 (beN 32 5) (beN 32 3) = some (leN 32 7 ++ leN 32 13 ++ [1]) ∧
    Spec.Libsecp.ecdsa_sign_recoverable toyCurve (constH 2) 2 (beN 32 5) (beN 32 3)
      = some (leN 32 7 ++ leN 32 13 ++ [1]) ∧
    ecdsaSignRecoverable toyCurve (constH 2) 2 (beN 32 5) (beN 32 3) = none ∧
    ecdsaSignRecoverableDirect toyCurve (constH 15) 2 (beN 32 6) (beN 32 3)
      = Spec.Libsecp.ecdsa_sign_recoverable toyCurve (constH 15) 2 (beN 32 6) (beN 32 3) := by
  decide +kernel

/-! ### the toy record of the driver ops `toy.*` (Driver/SecpToy.lean) is the curve with the `EcLaws` instance -/

theorem driver_toy_record_eq : Driver.Toy.curve = toyCurve := rfl

theorem driver_toy_hash_eq (k : Nat) : Driver.Toy.constH k = constH k := rfl

/-! ### non-vacuity -/

/-- `hgood` and the arithmetic hypotheses hold at a point of the old excluded region (toy curve, nonce 3, `x(R) = 35 ≥ 31`) -/
example : toyCurve.n < 2 ^ 256 ∧ toyCurve.n % 2 = 1 ∧
    (∀ k, deterministicK (constH 3) 2 toyCurve.n (ofBe (beN 32 1)) (ofBe (beN 32 1)) none = some k →
      (Spec.Ecdsa.signWith toyCurve (ofBe (beN 32 1)) (ofBe (beN 32 1)) k).isSome) := by
  refine ⟨by decide, by decide, ?_⟩
  have h : deterministicK (constH 3) 2 toyCurve.n (ofBe (beN 32 1)) (ofBe (beN 32 1)) none = some 3 := by decide +kernel
  intro k hk
  rw [h] at hk
  cases hk
  decide +kernel
/-- all four recovery ids occur on the toy curve -/
example : (ecdsaSignRecoverableDirect toyCurve (constH 2) 2 (beN 32 6) (beN 32 3)) = some (leN 32 7 ++ leN 32 2 ++ [0]) ∧
    (ecdsaSignRecoverableDirect toyCurve (constH 2) 2 (beN 32 1) (beN 32 3)) = some (leN 32 7 ++ leN 32 11 ++ [1]) ∧
    ((ecdsaSignRecoverableDirect toyCurve (constH 3) 2 (beN 32 1) (beN 32 1)).map fun b => b.getLast?) = some (some 3) := by
  decide +kernel

end Embit.Props.C08V
