import EmbitModel.Proofs.Bip32Path
import EmbitModel.Proofs.KeyTables
import EmbitModel.Proofs.KeyToyCurve
import EmbitModel.Props.C09
/-
  C09X — path-level statements for C09 (HD derivation follows BIP32 and commutes with neutering).

  `Props/C09.lean` proves the single step (`child` = CKDpriv / CKDpub with bookkeeping) and `derive` = fold of
  `child`. Here the two are composed, by induction over paths of ANY length:

  * `derive k p` IS the BIP32 fold `CKDpriv(CKDpriv(…(m, a), b) …)` resp. `CKDpub(…)` along `p`: key, chain code,
    depth, parent fingerprint, child number, version (`Spec/Bip32Path.lean` = `derivePriv` / `derivePub` of the
    spec plus the "Serialization format" bookkeeping), failure cases included;
  * a path that is not representable (an element outside [0, 2^32), or leading beyond depth 255) is refused;
  * neutering commutes with derivation along every non-hardened path (model level, and BIP32's own
    `N(CKDpriv(…)) = CKDpub(N(…))` at spec level).

  Same conventions as C09: arbitrary curve / HMAC / HASH160 / text layer; `EcLaws E`, the hash output lengths and
  `VersionSays` (discharged for the generated NETWORKS table by `C09.version_table_says`) are explicit hypotheses.
-/
namespace Embit.Props.C09X
open Embit Embit.Keys Embit.Spec

variable {E : EcOps}

/-- the extended private key (k, c) held by an HD key object -/
def xprvOf (k : HDKey E) : Option Bip32.XPrv :=
  match k.key with
  | .priv pk => some ⟨pk.secret, k.chainCode⟩
  | .pub _ => none

/-- the extended public key (K, c) held by an HD key object -/
def xpubOf (k : HDKey E) : Option (Bip32.XPub E) :=
  match k.key with
  | .pub pb => some ⟨pb.point, k.chainCode⟩
  | .priv _ => none

/-! ### derive = the BIP32 fold -/

/-- private start key: for every path of indices in [0, 2^32) that stays within depth 255, `derive` is the BIP32
    fold of CKDpriv with the serialization bookkeeping — it fails exactly when the fold hits an invalid key
    (I_L ≥ n or k_i = 0), and otherwise returns the object holding k_i, c_i, depth + |p|, the fingerprint of the
    last parent and the last index (for the empty path: the start key itself, with its own network attribute) -/
theorem derive_eq_spec_priv (L : EcLaws E) (env : Env) (hlen : ∀ key msg, (env.hmac512 key msg).length = 64)
    (hh160 : ∀ msg, 4 ≤ (env.hash160 msg).length)
    (k : HDKey E) (pk : PrivateKey) (hk : k.key = .priv pk) (hc : pk.compressed = true)
    (hv : seckeyValid E pk.secret = true) (hA : VersionSays env k.version tPrv)
    (p : List Int) (hp : PathInRange p) (hd : k.depth + p.length ≤ 255) :
    k.derive env p =
      (Bip32.deriveNodePrv E env.hmac512 env.hash160
          ⟨⟨pk.secret, k.chainCode⟩, k.depth, k.fingerprint, k.childNumber⟩ (p.map Int.toNat)).map
        (hdOfPrv k.version (if p = [] then pk.network else Generated.privDefaultNet)) :=
  derive_spec_priv L env hlen hh160 p k pk hk hc hv hA hp hd

/-- public start key: the same with CKDpub (a hardened element makes both sides fail) -/
theorem derive_eq_spec_pub (L : EcLaws E) (env : Env) (hlen : ∀ key msg, (env.hmac512 key msg).length = 64)
    (hh160 : ∀ msg, 4 ≤ (env.hash160 msg).length)
    (k : HDKey E) (pb : PublicKey E) (hk : k.key = .pub pb) (hc : pb.compressed = true)
    (hA : VersionSays env k.version tPub)
    (p : List Int) (hp : PathInRange p) (hd : k.depth + p.length ≤ 255) :
    k.derive env p =
      (Bip32.deriveNodePub E env.hmac512 env.hash160
          ⟨⟨pb.point, k.chainCode⟩, k.depth, k.fingerprint, k.childNumber⟩ (p.map Int.toNat)).map
        (hdOfPub k.version) :=
  derive_spec_pub L env hlen hh160 p k pb hk hc hA hp hd

/-- the key component of the fold with bookkeeping is `Spec.Bip32.derivePriv`, and the depth it records is the
    start depth plus the path length -/
theorem spec_node_key_priv (hmac : Bytes → Bytes → Bytes) (h160 : Bytes → Bytes) (nd : Bip32.NodePrv) (p : List Nat) :
    (Bip32.deriveNodePrv E hmac h160 nd p).map (·.x) = Bip32.derivePriv E hmac nd.x p :=
  deriveNodePrv_x hmac h160 p nd

theorem spec_node_key_pub (hmac : Bytes → Bytes → Bytes) (h160 : Bytes → Bytes) (nd : Bip32.NodePub E) (p : List Nat) :
    (Bip32.deriveNodePub E hmac h160 nd p).map (·.x) = Bip32.derivePub E hmac nd.x p :=
  deriveNodePub_x hmac h160 p nd

theorem spec_node_depth_priv (hmac : Bytes → Bytes → Bytes) (h160 : Bytes → Bytes) (nd r : Bip32.NodePrv)
    (p : List Nat) (h : Bip32.deriveNodePrv E hmac h160 nd p = some r) : r.depth = nd.depth + p.length :=
  deriveNodePrv_depth hmac h160 p nd r h

theorem spec_node_depth_pub (hmac : Bytes → Bytes → Bytes) (h160 : Bytes → Bytes) (nd r : Bip32.NodePub E)
    (p : List Nat) (h : Bip32.deriveNodePub E hmac h160 nd p = some r) : r.depth = nd.depth + p.length :=
  deriveNodePub_depth hmac h160 p nd r h

/-- the statement of the former GOAL `derive_eq_spec`, private half: key and chain code of `derive k p` are
    `Spec.Bip32.derivePriv` along `p` (failure ⇔ failure) -/
theorem derive_eq_spec (L : EcLaws E) (env : Env) (hlen : ∀ key msg, (env.hmac512 key msg).length = 64)
    (hh160 : ∀ msg, 4 ≤ (env.hash160 msg).length)
    (k : HDKey E) (pk : PrivateKey) (hk : k.key = .priv pk) (hc : pk.compressed = true)
    (hv : seckeyValid E pk.secret = true) (hA : VersionSays env k.version tPrv)
    (p : List Int) (hp : PathInRange p) (hd : k.depth + p.length ≤ 255) :
    (k.derive env p).bind xprvOf = Bip32.derivePriv E env.hmac512 ⟨pk.secret, k.chainCode⟩ (p.map Int.toNat) := by
  have hx := deriveNodePrv_x (E := E) env.hmac512 env.hash160 (p.map Int.toNat)
    ⟨⟨pk.secret, k.chainCode⟩, k.depth, k.fingerprint, k.childNumber⟩
  rw [derive_spec_priv L env hlen hh160 p k pk hk hc hv hA hp hd, ← hx]
  cases Bip32.deriveNodePrv E env.hmac512 env.hash160
      ⟨⟨pk.secret, k.chainCode⟩, k.depth, k.fingerprint, k.childNumber⟩ (p.map Int.toNat) <;> rfl

/-- … and the public half: `Spec.Bip32.derivePub` -/
theorem derive_eq_spec_pubkey (L : EcLaws E) (env : Env) (hlen : ∀ key msg, (env.hmac512 key msg).length = 64)
    (hh160 : ∀ msg, 4 ≤ (env.hash160 msg).length)
    (k : HDKey E) (pb : PublicKey E) (hk : k.key = .pub pb) (hc : pb.compressed = true)
    (hA : VersionSays env k.version tPub)
    (p : List Int) (hp : PathInRange p) (hd : k.depth + p.length ≤ 255) :
    (k.derive env p).bind xpubOf = Bip32.derivePub E env.hmac512 ⟨pb.point, k.chainCode⟩ (p.map Int.toNat) := by
  have hx := deriveNodePub_x (E := E) env.hmac512 env.hash160 (p.map Int.toNat)
    ⟨⟨pb.point, k.chainCode⟩, k.depth, k.fingerprint, k.childNumber⟩
  rw [derive_spec_pub L env hlen hh160 p k pb hk hc hA hp hd, ← hx]
  cases Bip32.deriveNodePub E env.hmac512 env.hash160
      ⟨⟨pb.point, k.chainCode⟩, k.depth, k.fingerprint, k.childNumber⟩ (p.map Int.toNat) <;> rfl

/-! ### paths that cannot be represented are refused (the two hypotheses above are sharp) -/

/-- an element outside [0, 2^32) anywhere in the path: refused, for every key -/
theorem derive_index_range (env : Env) (k : HDKey E) (p : List Int) (h : ∃ i ∈ p, i < 0 ∨ 2 ^ 32 ≤ i) :
    k.derive env p = none :=
  derive_out_of_range env p k h

/-- a non-empty path leading beyond depth 255: refused, for every key -/
theorem derive_depth_overflow (env : Env) (k : HDKey E) (p : List Int) (hp : p ≠ []) (h : 255 < k.depth + p.length) :
    k.derive env p = none :=
  derive_too_deep env p k h hp

/-! ### neutering commutes with derivation along non-hardened paths -/

/-- BIP32 itself: `N(CKDpriv(…CKDpriv(m, a)…, z)) = CKDpub(…CKDpub(N(m), a)…, z)` for non-hardened indices,
    invalid cases included — a consequence of the group laws -/
theorem spec_neuter_commutes (L : EcLaws E) (hmac : Bytes → Bytes → Bytes) (m : Bip32.XPrv) (p : List Nat)
    (hp : ∀ i ∈ p, i < 2 ^ 31) :
    (Bip32.derivePriv E hmac m p).map (Bip32.N E) = Bip32.derivePub E hmac (Bip32.N E m) p :=
  N_derive L hmac p hp m

/-- … and the bookkeeping of the two folds coincides (depth, parent fingerprint, child number) -/
theorem spec_neuter_commutes_node (L : EcLaws E) (hmac : Bytes → Bytes → Bytes) (h160 : Bytes → Bytes)
    (nd : Bip32.NodePrv) (p : List Nat) (hp : ∀ i ∈ p, i < 2 ^ 31) :
    (Bip32.deriveNodePrv E hmac h160 nd p).map (Bip32.NodePrv.neuter E)
      = Bip32.deriveNodePub E hmac h160 (nd.neuter E) p :=
  neuter_deriveNode L hmac h160 p hp nd

/-- the model: `derive(p).to_public() = to_public().derive(p)` for every path of non-hardened indices, of any
    length — key, chain code, depth, parent fingerprint, child number, version, and the failure cases (invalid
    child, depth 255, version without public counterpart) coincide -/
theorem neuter_commutes_path (L : EcLaws E) (env : Env) (hlen : ∀ key msg, (env.hmac512 key msg).length = 64)
    (hh160 : ∀ msg, 4 ≤ (env.hash160 msg).length)
    (k : HDKey E) (pk : PrivateKey) (hk : k.key = .priv pk) (hc : pk.compressed = true)
    (hv : seckeyValid E pk.secret = true)
    (hcc : k.chainCode.length = 32) (hfp : k.fingerprint.length = 4) (hcn : k.childNumber < 2 ^ 32)
    (hA : VersionSays env k.version tPrv)
    (hB : ∀ pv, detectPubVersion k.version = some pv → VersionSays env pv tPub)
    (p : List Int) (hp : PathSoft p) :
    (k.derive env p).bind (fun c => c.toPublic env) = (k.toPublic env).bind (fun K => K.derive env p) :=
  neuter_commutes_path_gen L env hlen hh160 k.version hA hB p k pk hk hc hv hcc hfp hcn rfl hp

/-- the same for the real Base58Check codec (any 4-byte checksum function) and every private SLIP-132 version of
    the generated NETWORKS table: no hypothesis about the text layer is left -/
theorem neuter_commutes_path_table (L : EcLaws E) (env : Env) (dsha : Bytes → Bytes) (hd : ∀ b, 4 ≤ (dsha b).length)
    (henc : env.b58enc = B58.encodeCheck dsha) (hlen : ∀ key msg, (env.hmac512 key msg).length = 64)
    (hh160 : ∀ msg, 4 ≤ (env.hash160 msg).length)
    (k : HDKey E) (pk : PrivateKey) (hk : k.key = .priv pk) (hc : pk.compressed = true)
    (hv : seckeyValid E pk.secret = true)
    (hcc : k.chainCode.length = 32) (hfp : k.fingerprint.length = 4) (hcn : k.childNumber < 2 ^ 32)
    (net : Generated.KeyNet) (hn : net ∈ Generated.keyNets) (e : String × Bytes × Bool) (he : e ∈ net.versions)
    (hprv : e.2.2 = true) (hver : k.version = e.2.1) (p : List Int) (hp : PathSoft p) :
    (k.derive env p).bind (fun c => c.toPublic env) = (k.toPublic env).bind (fun K => K.derive env p) := by
  obtain ⟨hA, hB⟩ := table_pub_says env dsha hd henc net hn e he hprv
  rw [← hver] at hA hB
  exact neuter_commutes_path_gen L env hlen hh160 k.version hA hB p k pk hk hc hv hcc hfp hcn rfl hp

/-! ### non-vacuity (toy curve Z/7 and the toy environment of C09) -/

open Embit.Props.C09 in
/-- the hypotheses hold for the toy key; the path [0] succeeds (k = 5) and the spec fold agrees -/
example : PathInRange [0] ∧ exKey.depth + [(0:Int)].length ≤ 255 := by
  refine ⟨?_, by decide⟩
  intro i hi; simp at hi; subst hi; decide
open Embit.Props.C09 in
example : ((exKey.derive exEnv [0]).bind xprvOf).map (·.k) = some 5 := by decide
open Embit.Props.C09 in
example : (Bip32.derivePriv toy exEnv.hmac512 ⟨3, exKey.chainCode⟩ [0]).map (·.k) = some 5 := by decide
open Embit.Props.C09 in
/-- the next step is BIP32's invalid case k_i = 0: both sides fail -/
example : (exKey.derive exEnv [0, 1]).isSome = false ∧
    (Bip32.derivePriv toy exEnv.hmac512 ⟨3, exKey.chainCode⟩ [0, 1]).isSome = false := by decide
open Embit.Props.C09 in
/-- a two-step path from 1: 1 → 3 → 5; derive-then-neuter = neuter-then-derive, and both exist -/
example : let k1 : HDKey toy := { exKey with key := .priv ⟨1, true, 0⟩ }
    ((k1.derive exEnv [0, 7]).bind (fun c => c.toPublic exEnv)).isSome = true ∧
    ((k1.toPublic exEnv).bind (fun K => K.derive exEnv [0, 7])).isSome = true := by decide
example : PathSoft [0, 7] := by
  intro i hi; simp at hi; rcases hi with rfl | rfl <;> decide
open Embit.Props.C09 in
/-- a public start key derives along a public path -/
example : let K : HDKey toy := { exKey with key := .pub ⟨toy.mulG 1, true⟩, version := [0x04, 0x88, 0xb2, 0x1e] }
    ((K.derive exEnv [0, 7]).bind xpubOf).isSome = true := by decide
open Embit.Props.C09 in
/-- the two refusal theorems have instances -/
example : exKey.derive exEnv [0, -1] = none := derive_index_range _ _ _ ⟨-1, by simp, Or.inl (by decide)⟩
open Embit.Props.C09 in
example : ({ exKey with depth := 255 } : HDKey toy).derive exEnv [0] = none :=
  derive_depth_overflow _ _ _ (by simp) (by decide)

end Embit.Props.C09X
