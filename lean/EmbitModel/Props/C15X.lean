import EmbitModel.Props.C15
import EmbitModel.Model.Bip39Str
/-
  C15X — the seed clause of C15 with phrase and bytes tied together (audit items A15 / C15-1).

  `C15.seed_eq_pbkdf2` is about `toSeed`, which takes the validated word sequence `ws` and the hashed bytes `m` as
  UNRELATED parameters: it holds for any `m`.  The statement that was meant is: *the seed is PBKDF2 over the UTF-8
  bytes of exactly the phrase whose words were validated*.  Here it is, for `Model.Bip39.mnemonicToSeed`, the model of
  `mnemonic_to_seed` as a function of the one string it receives (words = `strip().split()` of it, bytes =
  `encode("utf-8")` of it), and for the phrase `" ".join(words)` (the model's `joinSp`).

  The alphabet `C`, `isSpace`, the per-character encoder `utf8` and the token-to-entry map `word` are arbitrary;
  the only facts used are `isSpace sp = true` for the separator and "no word is empty or contains white space".
-/
namespace Embit.Props.C15X
open Embit Embit.Model.Bip39 Embit.Spec.Bip39

variable {C W : Type} [DecidableEq W]
set_option linter.unusedSectionVars false

/-- UTF-8 of `" ".join(words)` is the words' UTF-8 joined by the separator's UTF-8 (`List.intercalate`): the hashed
    byte string is determined by the word sequence alone -/
theorem utf8_of_phrase (utf8 : C → Bytes) (sp : C) (ws : List (List C)) :
    encodeStr utf8 (joinSp sp ws) = (utf8 sp).intercalate (ws.map (encodeStr utf8)) := by
  induction ws with
  | nil => rfl
  | cons w ws ih =>
    cases ws with
    | nil => simp [joinSp, encodeStr, List.intercalate]
    | cons v vs =>
      have : joinSp sp (w :: v :: vs) = w ++ sp :: joinSp sp (v :: vs) := rfl
      rw [this]
      simp only [encodeStr, List.flatMap_append, List.flatMap_cons] at ih ⊢
      rw [ih]
      simp [List.intercalate, encodeStr]

/-- **The seed of a phrase.** For words `ws` (none empty, none containing white space) whose entries `ws.map word`
    pass the validation, `mnemonic_to_seed(" ".join(ws), password)` is
    PBKDF2(password = UTF-8 of that very phrase, salt = "mnemonic" ‖ UTF-8 of the passphrase, 2048 rounds, 64 bytes):
    the words that were validated and the bytes that are hashed come from the same string. -/
theorem seed_of_phrase (isSpace : C → Bool) (utf8 : C → Bytes) (word : List C → W)
    (H : Bytes → Bytes) (pbkdf2 : Bytes → Bytes → Nat → Nat → Bytes) (wl : List W)
    (sp : C) (hsp : isSpace sp = true) (ws : List (List C))
    (hws : ∀ w ∈ ws, w ≠ [] ∧ ∀ c ∈ w, isSpace c = false) (pw : List C)
    (h : (toBytes H wl false (ws.map word)).isSome = true) :
    mnemonicToSeed isSpace utf8 word H pbkdf2 (some wl) (joinSp sp ws) pw =
      some (Spec.Bip39.seed pbkdf2 ((utf8 sp).intercalate (ws.map (encodeStr utf8))) (encodeStr utf8 pw)) := by
  unfold mnemonicToSeed
  rw [C15.split_join_words isSpace sp hsp ws hws, utf8_of_phrase]
  exact C15.seed_eq_pbkdf2 H pbkdf2 wl _ _ _ h

/-- the same for BIP39-valid phrases of 12 to 24 words: the seed exists and is the standard one over the phrase -/
theorem seed_of_valid_phrase (isSpace : C → Bool) (utf8 : C → Bytes) (word : List C → W)
    (H : Bytes → Bytes) (hH : ∀ x, (H x).length = 32) (pbkdf2 : Bytes → Bytes → Nat → Nat → Bytes)
    (wl : List W) (hwl : wl.length = 2048)
    (sp : C) (hsp : isSpace sp = true) (ws : List (List C))
    (hws : ∀ w ∈ ws, w ≠ [] ∧ ∀ c ∈ w, isSpace c = false) (pw : List C)
    (hv : valid H wl (ws.map word)) :
    mnemonicToSeed isSpace utf8 word H pbkdf2 (some wl) (joinSp sp ws) pw =
      some (Spec.Bip39.seed pbkdf2 ((utf8 sp).intercalate (ws.map (encodeStr utf8))) (encodeStr utf8 pw)) := by
  obtain ⟨e, he, _, _⟩ := C15.from_to_valid H hH wl hwl _ hv
  exact seed_of_phrase isSpace utf8 word H pbkdf2 wl sp hsp ws hws pw (by rw [he]; rfl)

/-- … and exactly those: for ANY string of 12 to 24 tokens a seed comes back iff its tokens form a BIP39-valid
    phrase, and then it is PBKDF2 over the UTF-8 of the string that was given -/
theorem seed_of_string_iff (isSpace : C → Bool) (utf8 : C → Bytes) (word : List C → W)
    (H : Bytes → Bytes) (hH : ∀ x, (H x).length = 32) (pbkdf2 : Bytes → Bytes → Nat → Nat → Bytes)
    (wl : List W) (hwl : wl.length = 2048) (s pw : List C)
    (h12 : 12 ≤ (splitWs isSpace [] s).length) (h24 : (splitWs isSpace [] s).length ≤ 24) :
    (valid H wl ((splitWs isSpace [] s).map word) →
      mnemonicToSeed isSpace utf8 word H pbkdf2 (some wl) s pw =
        some (Spec.Bip39.seed pbkdf2 (encodeStr utf8 s) (encodeStr utf8 pw))) ∧
    (¬ valid H wl ((splitWs isSpace [] s).map word) →
      mnemonicToSeed isSpace utf8 word H pbkdf2 (some wl) s pw = none) := by
  have hl : ((splitWs isSpace [] s).map word).length = (splitWs isSpace [] s).length := List.length_map _
  have hiff := C15.accepts_iff_valid H hH wl hwl ((splitWs isSpace [] s).map word) (by omega) (by omega)
  constructor
  · intro hv
    exact C15.seed_eq_pbkdf2 H pbkdf2 wl _ _ _ (hiff.mpr hv)
  · intro hv
    unfold mnemonicToSeed
    apply C15.seed_rejects_invalid
    cases hb : toBytes H wl false ((splitWs isSpace [] s).map word) with
    | none => rfl
    | some e => exact absurd (hiff.mp (by rw [hb]; rfl)) hv

/-- **What the code does with other spellings (audit B4).** Two strings with the same tokens (extra blanks, a
    trailing newline, …) are accepted or refused alike, but each is hashed as given: the seeds are PBKDF2 over
    different byte strings.  embit does not re-join the words (BIP39 says the sentence is the words joined by single
    spaces); callers must pass the canonical spelling — this is outside the property's domain and is recorded as an
    observation by the harness (`seed:*` tallies for non-canonical strings). -/
theorem seed_follows_spelling (isSpace : C → Bool) (utf8 : C → Bytes) (word : List C → W)
    (H : Bytes → Bytes) (pbkdf2 : Bytes → Bytes → Nat → Nat → Bytes) (wl : List W) (s s' pw : List C)
    (hsame : splitWs isSpace [] s = splitWs isSpace [] s') (seed : Bytes)
    (h : mnemonicToSeed isSpace utf8 word H pbkdf2 (some wl) s pw = some seed) :
    seed = Spec.Bip39.seed pbkdf2 (encodeStr utf8 s) (encodeStr utf8 pw) ∧
    mnemonicToSeed isSpace utf8 word H pbkdf2 (some wl) s' pw =
      some (Spec.Bip39.seed pbkdf2 (encodeStr utf8 s') (encodeStr utf8 pw)) := by
  unfold mnemonicToSeed at h ⊢
  cases hb : toBytes H wl false ((splitWs isSpace [] s).map word) with
  | none => rw [C15.seed_rejects_invalid H pbkdf2 wl _ _ _ hb] at h; cases h
  | some e =>
    have hs : (toBytes H wl false ((splitWs isSpace [] s).map word)).isSome = true := by rw [hb]; rfl
    rw [C15.seed_eq_pbkdf2 H pbkdf2 wl _ _ _ hs] at h
    refine ⟨(Option.some.inj h).symm, ?_⟩
    rw [← hsame]
    exact C15.seed_eq_pbkdf2 H pbkdf2 wl _ _ _ hs

/-! ### non-vacuity -/

/-- characters are numbers, `0` is the blank, a word is its first character, UTF-8 of `c` is the byte `c + 32` -/
def exUtf8 : Nat → Bytes := fun c => [UInt8.ofNat (c + 32)]
def exWord : List Nat → Nat := fun w => w.headD 0 - 1
def exPbkdf2 : Bytes → Bytes → Nat → Nat → Bytes := fun m salt _ n => (m ++ salt).take n

/-- the valid phrase of `C15` (`8 0 0 0 0 0 0 0 0 0 0 1`, words written as the single characters index + 1) -/
def exWords : List (List Nat) := [[9], [1], [1], [1], [1], [1], [1], [1], [1], [1], [1], [2]]

example : valid C15.exH C15.exList (exWords.map exWord) := by decide +kernel
example : ∀ w ∈ exWords, w ≠ [] ∧ ∀ c ∈ w, (c == 0) = false := by decide
example : joinSp 0 exWords = [9, 0, 1, 0, 1, 0, 1, 0, 1, 0, 1, 0, 1, 0, 1, 0, 1, 0, 1, 0, 1, 0, 2] := by decide
/-- the seed of the joined phrase is the PBKDF2 stand-in over its 23 bytes and "mnemonic" ‖ passphrase -/
example : mnemonicToSeed (· == 0) exUtf8 exWord C15.exH exPbkdf2 (some C15.exList) (joinSp 0 exWords) [7] =
    some (Spec.Bip39.seed exPbkdf2
      [41, 32, 33, 32, 33, 32, 33, 32, 33, 32, 33, 32, 33, 32, 33, 32, 33, 32, 33, 32, 33, 32, 34] [39]) := by
  decide +kernel
/-- a doubled blank: same tokens, accepted alike, a different seed (the string is hashed as given) -/
example :
    splitWs (· == 0) [] (9 :: 0 :: 0 :: (joinSp 0 exWords).drop 2) = splitWs (· == 0) [] (joinSp 0 exWords) ∧
    mnemonicToSeed (· == 0) exUtf8 exWord C15.exH exPbkdf2 (some C15.exList) (9 :: 0 :: 0 :: (joinSp 0 exWords).drop 2) []
      ≠ mnemonicToSeed (· == 0) exUtf8 exWord C15.exH exPbkdf2 (some C15.exList) (joinSp 0 exWords) [] := by
  decide +kernel

end Embit.Props.C15X
