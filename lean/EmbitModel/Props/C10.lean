import EmbitModel.Proofs.SecSpec
import EmbitModel.Proofs.Taproot
import EmbitModel.Proofs.KeyTables
import EmbitModel.Proofs.KeyToyCurve
import EmbitModel.Spec.Bip32
/-
  C10 — Key encodings (SEC, x-only, WIF, xpub/xprv) round-trip and validate strictly.

  Property theorems only. `Embit.Keys.*` is the model of embit (`ec.py`, `bip32.py`, `base.py`; tied to /repo by
  the correspondence check of harness/props/c10.py), `Spec.KeyEnc` / `Spec.Bip32` the encodings as the standards
  define them. The curve, the hashes and the Base58Check text layer are arbitrary (`EcOps`, `Env`); `EcLaws E`
  and the codec law `dec (enc b) = b` are explicit hypotheses where needed (C11 proves the codec law for the real
  Base58Check). The NETWORKS table is the generated one (`Generated/KeyVersions.lean`, re-extracted on every run).
  The model follows the code after fixes k01, k03, k04.
-/
namespace Embit.Props.C10
open Embit Embit.Keys Embit.Spec

variable {E : EcOps}

/-! ### SEC public keys -/

/-- `sec()` is the SEC1 encoding, compressed or not -/
theorem sec_eq_spec (k : PublicKey E) : k.sec = KeyEnc.sec E k.point k.compressed :=
  pubkeySerialize_eq_spec k.point k.compressed

/-- encode then decode: the same point and the same compression flag -/
theorem sec_roundtrip (L : EcLaws E) (k : PublicKey E) (hP : E.isInf k.point = false) :
    PublicKey.parse E k.sec = some k := parse_sec L k hP

/-- the parser is exactly the strict SEC decoder (02/03 + X on the curve, 04 + X + Y on the curve, nothing else),
    on EVERY byte string -/
theorem sec_parse_eq_spec (b : Bytes) :
    PublicKey.parse E b = (KeyEnc.secDecode E b).map (fun pc => ⟨pc.1, pc.2⟩) := parse_eq_secDecode b

/-- whatever the parser accepts is a finite point and re-encodes to exactly the same bytes: a key has one accepted
    compressed and one accepted uncompressed encoding, no more -/
theorem sec_parse_sound (L : EcLaws E) (b : Bytes) (k : PublicKey E) (h : PublicKey.parse E b = some k) :
    k.sec = b ∧ E.isInf k.point = false := parse_sec_sound L b k h

/-- reading from a stream consumes exactly the encoding -/
theorem sec_read_from (L : EcLaws E) (k : PublicKey E) (hP : E.isInf k.point = false) (rest : Bytes) :
    PublicKey.readFrom E (k.sec ++ rest) = some (k, rest) := readFrom_sec L k hP rest

/-! ### x-only -/

/-- an x-only key is the 32-byte X coordinate: public keys, whatever the compression flag … -/
theorem xonly_is_32_bytes (k : PublicKey E) : k.xonly = KeyEnc.xonly E k.point ∧ k.xonly.length = 32 := by
  have : k.xonly = beN 32 (E.x k.point) := xslice_serialize k.point k.compressed
  exact ⟨this, by rw [this]; simp⟩

/-- … and private keys, whatever the compression flag (after fix k01) -/
theorem xonly_private_is_32_bytes (k : PrivateKey) (hv : seckeyValid E k.secret = true) :
    k.xonly E = some (KeyEnc.xonly E (E.mulG k.secret)) ∧ ∀ x, k.xonly E = some x → x.length = 32 := by
  have h : k.xonly E = some (beN 32 (E.x (E.mulG k.secret))) := by
    simp only [PrivateKey.xonly, PrivateKey.sec, PrivateKey.getPublicKey, pubkeyCreate, hv, if_true,
      Option.map_some, PublicKey.sec, xslice_serialize]
  refine ⟨h, ?_⟩
  intro x hx
  rw [h] at hx
  rw [← Option.some.inj hx]; simp

/-- D13 (repaired by fix k01): the old `sec()[1:]` was 64 bytes (X ‖ Y) for an uncompressed private key -/
theorem old_xonly_uncompressed_is_64_bytes (k : PrivateKey) (hv : seckeyValid E k.secret = true)
    (hu : k.compressed = false) : ∃ x, k.xonlyOld E = some x ∧ x.length = 64 := by
  refine ⟨beN 32 (E.x (E.mulG k.secret)) ++ beN 32 (E.y (E.mulG k.secret)), ?_, by simp⟩
  simp [PrivateKey.xonlyOld, PrivateKey.sec, PrivateKey.getPublicKey, pubkeyCreate, hv, PublicKey.sec,
    pubkeySerialize, hu]

/-- `from_xonly` is `lift_x`: the even-Y point -/
theorem from_xonly_spec (v : Nat) (hv : v < 2 ^ 256) :
    PublicKey.fromXonly E (beN 32 v) = (E.liftX v).map (fun P => ⟨P, true⟩) := fromXonly_beN v hv

/-! ### WIF -/

/-- `wif()` is Base58Check(version ‖ secret ‖ [01 if compressed]) -/
theorem wif_eq_spec (env : Env) (k : PrivateKey) (pre : Bytes) (h : netWif k.network = some pre) :
    k.wif env = some (KeyEnc.wif env.b58enc pre k.secret k.compressed) := Keys.wif_eq_spec env k pre h

/-- encode then decode: secret, compression flag and network come back — the network as far as the version byte
    tells (`netWif net' = netWif k.network`; test / regtest / signet share 0xef and decode as the last of them) -/
theorem wif_roundtrip (L : EcLaws E) (env : Env) (hcodec : ∀ b, env.b58dec (env.b58enc b) = some b)
    (k : PrivateKey) (hv : seckeyValid E k.secret = true) (hnet : k.network < Generated.keyNets.length) :
    ∃ t net', k.wif env = some t ∧ PrivateKey.fromWif E env t = some ⟨k.secret, k.compressed, net'⟩
      ∧ netWif net' = netWif k.network := by
  have hpre : ∃ pre, netWif k.network = some pre := by
    unfold netWif
    rw [List.getElem?_eq_getElem hnet]
    exact ⟨_, rfl⟩
  obtain ⟨pre, hpre⟩ := hpre
  obtain ⟨hl, j, hj, hjn⟩ := wif_table k.network pre hpre
  refine ⟨_, j, Keys.wif_eq_spec env k pre hpre, ?_, by rw [hjn, hpre]⟩
  exact fromWif_payload L env _ pre k.secret k.compressed j (hcodec _) hl hj hv

/-- on the generated table the decoded network is exact for mainnet (its version byte is unique) -/
theorem wif_network_main : wifNetwork [0x80] = some 0 ∧ netWif 0 = some [0x80] := by decide

/-! ### extended keys -/

/-- `serialize()` is the BIP32 serialization format -/
theorem xkey_eq_spec_priv (k : HDKey E) (pk : PrivateKey) (hk : k.key = .priv pk) (hd : k.depth < 256)
    (hcn : k.childNumber < 2 ^ 32) :
    k.serialize = some (Bip32.serializePrv k.version k.depth k.fingerprint k.childNumber ⟨pk.secret, k.chainCode⟩) := by
  simp [HDKey.serialize, hd, hcn, hk, KeyObj.isPrivate, KeyObj.serialize, PrivateKey.serialize, Bip32.serializePrv]

theorem xkey_eq_spec_pub (k : HDKey E) (pb : PublicKey E) (hk : k.key = .pub pb) (hc : pb.compressed = true)
    (hd : k.depth < 256) (hcn : k.childNumber < 2 ^ 32) :
    k.serialize = some (Bip32.serializePub E k.version k.depth k.fingerprint k.childNumber ⟨pb.point, k.chainCode⟩) := by
  simp [HDKey.serialize, hd, hcn, hk, KeyObj.isPrivate, KeyObj.serialize, PublicKey.sec, hc, Bip32.serializePub,
    serP_eq]

/-- encode then decode of a constructed HD key: version, depth, parent fingerprint, child number, chain code and
    key all come back (the inner private key with the default network, which is all the 78 bytes carry) -/
theorem xkey_roundtrip (L : EcLaws E) (env : Env) (k : HDKey E)
    (hinit : HDKey.init env k.key k.chainCode (some k.version) k.depth k.fingerprint k.childNumber = some k)
    (hkey : k.key.Valid E) (hver : k.version.length = 4) (hcc : k.chainCode.length = 32)
    (hfp : k.fingerprint.length = 4)
    (h0 : k.depth = 0 → k.childNumber = 0 ∧ k.fingerprint = [0, 0, 0, 0]) :
    ∃ b, k.serialize = some b ∧ b.length = 78 ∧ HDKey.parse E env b = some k.normNet :=
  parse_serialize L env k hinit hkey hver hcc hfp h0

/-- … and through the text form -/
theorem xkey_text_roundtrip (L : EcLaws E) (env : Env) (hcodec : ∀ b, env.b58dec (env.b58enc b) = some b)
    (k : HDKey E)
    (hinit : HDKey.init env k.key k.chainCode (some k.version) k.depth k.fingerprint k.childNumber = some k)
    (hkey : k.key.Valid E) (hver : k.version.length = 4) (hcc : k.chainCode.length = 32)
    (hfp : k.fingerprint.length = 4)
    (h0 : k.depth = 0 → k.childNumber = 0 ∧ k.fingerprint = [0, 0, 0, 0]) :
    ∃ t, k.toBase58 env = some t ∧ HDKey.fromBase58 E env t = some k.normNet := by
  obtain ⟨b, hb, _, hp⟩ := parse_serialize L env k hinit hkey hver hcc hfp h0
  obtain ⟨_, _, hkeq, b', hb', htext⟩ := (init_iff env _ _ _ _ _ _ k).mp hinit
  rw [← hkeq, hb] at hb'
  have hbb := Option.some.inj hb'
  subst hbb
  refine ⟨env.b58enc b, ?_, by simp [HDKey.fromBase58, hcodec, hp]⟩
  unfold HDKey.toBase58
  rw [hb]
  cases hpv : k.key.isPrivate
  · simp [htext, hpv, kindText, tPrv_ne_tPub.symm]
  · simp [htext, hpv, kindText, tPrv_ne_tPub]

/-- over the GENERATED table and the real Base58Check codec (any 4-byte checksum function): for every network and
    each of its ten version prefixes, every valid key of the matching kind, every depth, fingerprint and child number
    is accepted by the constructor, serialises to 78 bytes and parses back unchanged -/
theorem xkey_roundtrip_table (L : EcLaws E) (env : Env) (dsha : Bytes → Bytes) (hd : ∀ b, 4 ≤ (dsha b).length)
    (henc : env.b58enc = B58.encodeCheck dsha)
    (net : Generated.KeyNet) (hn : net ∈ Generated.keyNets) (e : String × Bytes × Bool) (he : e ∈ net.versions)
    (key : KeyObj E) (hkey : key.Valid E) (hkind : key.isPrivate = e.2.2)
    (cc fp : Bytes) (depth cn : Nat) (hcc : cc.length = 32) (hfp : fp.length = 4) (hdep : depth < 256)
    (hcn : cn < 2 ^ 32) (h0 : depth = 0 → cn = 0 ∧ fp = [0, 0, 0, 0]) :
    ∃ k b, HDKey.init env key cc (some e.2.1) depth fp cn = some k ∧ k.serialize = some b ∧ b.length = 78 ∧
      HDKey.parse E env b = some k.normNet ∧ k.version = e.2.1 ∧ k.depth = depth ∧ k.fingerprint = fp ∧
      k.childNumber = cn ∧ k.chainCode = cc := by
  have hsays := B58.table_versionSays env dsha hd henc net hn e he
  have hcanon : key.Canon := by
    cases key with
    | priv k => exact hkey.2
    | pub k => exact hkey.2
  have hinit := init_some env key cc e.2.1 fp depth cn hcanon hcc hfp hdep hcn (by rw [hkind]; exact hsays)
  have hlen4 : e.2.1.length = 4 := by
    have := B58.table_ok
    unfold B58.tableOk at this
    rw [List.all_eq_true] at this
    have := this net hn
    rw [List.all_eq_true] at this
    have := this e he
    simp only [Bool.and_eq_true, beq_iff_eq] at this
    exact this.1.1
  obtain ⟨b, hb, hbl, hp⟩ := parse_serialize L env
    { key := key, chainCode := cc, version := e.2.1, depth := depth, fingerprint := fp, childNumber := cn }
    hinit hkey hlen4 hcc hfp h0
  exact ⟨_, b, hinit, hb, hbl, hp, rfl, rfl, rfl, rfl, rfl⟩

/-- there are ten version prefixes per network in the generated table, five private and five public -/
theorem ten_prefixes_per_network :
    (Generated.keyNets.all fun net => net.versions.length == 10 && (net.versions.filter (·.2.2)).length == 5) = true :=
  ten_versions_per_network

/-! ### decoders reject — one theorem per class; every input of the class is refused -/

/-- SEC: wrong length (every truncation and extension of a valid encoding lands here or in the next class) -/
theorem reject_sec_wrong_length (b : Bytes) (h : b.length ≠ 33 ∧ b.length ≠ 65) : PublicKey.parse E b = none :=
  sec_wrong_length b h

/-- SEC: prefix byte other than 02 / 03 / 04 — in particular the hybrid forms 06 / 07 -/
theorem reject_sec_bad_prefix (f : UInt8) (r : Bytes) (h : f ≠ 0x02 ∧ f ≠ 0x03 ∧ f ≠ 0x04) :
    PublicKey.parse E (f :: r) = none := sec_bad_prefix f r h

/-- SEC: prefix of the wrong kind for the length (04 with 32 more bytes, 02 / 03 with 64) -/
theorem reject_sec_prefix_length_mismatch (f : UInt8) (r : Bytes)
    (h : (f = 0x04 ∧ r.length ≠ 64) ∨ ((f = 0x02 ∨ f = 0x03) ∧ r.length ≠ 32)) :
    PublicKey.parse E (f :: r) = none := sec_prefix_length_mismatch f r h

/-- SEC: off-curve X in the compressed form (no finite point has this abscissa; X ≥ p is a special case) -/
theorem reject_sec_off_curve_x (L : EcLaws E) (f : UInt8) (r : Bytes) (hf : f = 0x02 ∨ f = 0x03)
    (h : ∀ P, E.isInf P = false → E.x P ≠ ofBe r) : PublicKey.parse E (f :: r) = none :=
  sec_off_curve_x f r hf (liftX_none_of_no_point L _ h)

/-- SEC: uncompressed form whose (X, Y) is not a point (off-curve X, substituted Y, coordinates ≥ p) -/
theorem reject_sec_off_curve_xy (L : EcLaws E) (r : Bytes)
    (h : ∀ P, E.isInf P = false → ¬ (E.x P = ofBe (r.take 32) ∧ E.y P = ofBe (r.drop 32))) :
    PublicKey.parse E (0x04 :: r) = none :=
  sec_off_curve_xy r (ofXY_none_of_no_point L _ _ h)

/-- private key: wrong length -/
theorem reject_priv_wrong_length (secret : Bytes) (c : Bool) (net : Nat) (h : secret.length ≠ 32) :
    PrivateKey.init E secret c net = none := priv_wrong_length secret c net h

/-- private key: scalar 0 or ≥ n -/
theorem reject_priv_bad_scalar (secret : Bytes) (c : Bool) (net : Nat) (h : ofBe secret = 0 ∨ ofBe secret ≥ E.n) :
    PrivateKey.init E secret c net = none := priv_bad_scalar secret c net h

/-- WIF: bad checksum / not Base58 (whatever `decode_check` refuses) -/
theorem reject_wif_bad_checksum (env : Env) (s : Text) (h : env.b58dec s = none) : PrivateKey.fromWif E env s = none :=
  wif_bad_checksum env s h

/-- the real `decode_check` refuses every string whose last four decoded bytes are not the checksum of the rest -/
theorem decode_check_rejects (dsha : Bytes → Bytes) (s : Text) (b : Bytes) (hb : B58.decode s = some b)
    (h : b.drop (b.length - 4) ≠ (dsha (b.take (b.length - 4))).take 4) : B58.decodeCheck dsha s = none := by
  simp [B58.decodeCheck, hb, h]

/-- WIF: payload length other than 33 / 34 (truncation, extension) -/
theorem reject_wif_wrong_length (env : Env) (s : Text) (b : Bytes) (h : env.b58dec s = some b)
    (hl : b.length ≠ 33 ∧ b.length ≠ 34) : PrivateKey.fromWif E env s = none := wif_wrong_length env s b h hl

/-- WIF: compression flag byte other than 01 -/
theorem reject_wif_bad_flag (env : Env) (s : Text) (b : Bytes) (h : env.b58dec s = some b) (hl : b.length = 34)
    (hf : b.getLast? ≠ some 0x01) : PrivateKey.fromWif E env s = none := wif_bad_flag env s b h hl hf

/-- WIF: scalar 0 or ≥ n -/
theorem reject_wif_bad_scalar (env : Env) (s : Text) (b : Bytes) (h : env.b58dec s = some b)
    (hs : ofBe ((b.drop 1).take 32) = 0 ∨ ofBe ((b.drop 1).take 32) ≥ E.n) : PrivateKey.fromWif E env s = none :=
  wif_bad_scalar env s b h hs

/-- WIF: version byte of no network (after fix k03) -/
theorem reject_wif_unknown_version (env : Env) (s : Text) (b : Bytes) (h : env.b58dec s = some b)
    (hv : wifNetwork (b.take 1) = none) : PrivateKey.fromWif E env s = none := wif_unknown_version env s b h hv

/-- extended key: fewer than 78 bytes -/
theorem reject_xkey_truncated (env : Env) (b : Bytes) (h : b.length < 78) : HDKey.parse E env b = none :=
  xkey_too_short env b h

/-- extended key: more than 78 bytes -/
theorem reject_xkey_extended (env : Env) (b : Bytes) (h : 78 < b.length) : HDKey.parse E env b = none :=
  xkey_too_long env b h

/-- extended key: bad checksum of the text form -/
theorem reject_xkey_bad_checksum (env : Env) (s : Text) (h : env.b58dec s = none) : HDKey.fromBase58 E env s = none :=
  xkey_bad_checksum env s h

/-- extended key: version bytes of the wrong kind — a version that renders `?pub…` over a private key field
    (key byte 00), or one that renders `?prv…` over a public key field -/
theorem reject_xkey_wrong_kind (env : Env) (b : Bytes) (d k0 : UInt8) (s2 kr : Bytes) (hs : b.drop 4 = d :: s2)
    (hk : (s2.drop 40).take 33 = k0 :: kr) (t : Text) (hv : VersionSays env (b.take 4) t)
    (hwrong : (k0 = 0 ∧ t = tPub) ∨ (k0 ≠ 0 ∧ t = tPrv)) : HDKey.parse E env b = none :=
  xkey_wrong_kind env b d k0 s2 kr hs hk t hv hwrong

/-- extended key: depth 0 with a non-zero child number -/
theorem reject_xkey_depth0_index (env : Env) (b : Bytes) (s2 : Bytes) (hs : b.drop 4 = 0 :: s2)
    (hi : ofBe ((s2.drop 4).take 4) ≠ 0) : HDKey.parse E env b = none :=
  xkey_depth0_index env b 0 s2 hs rfl hi

/-- extended key: depth 0 with a non-zero parent fingerprint -/
theorem reject_xkey_depth0_parent (env : Env) (b : Bytes) (s2 : Bytes) (hs : b.drop 4 = 0 :: s2)
    (hf : s2.take 4 ≠ [0, 0, 0, 0]) : HDKey.parse E env b = none :=
  xkey_depth0_parent env b 0 s2 hs rfl hf

/-- extended key: private scalar 0 or ≥ n -/
theorem reject_xkey_bad_scalar (env : Env) (b : Bytes) (d : UInt8) (s2 kr : Bytes) (hs : b.drop 4 = d :: s2)
    (hk : (s2.drop 40).take 33 = 0x00 :: kr) (h : ofBe (kr.take 32) = 0 ∨ ofBe (kr.take 32) ≥ E.n) :
    HDKey.parse E env b = none :=
  xkey_bad_key env b d 0x00 s2 kr hs hk (readKeyField_bad_scalar kr h)

/-- extended key: a public key field that is not a valid compressed SEC key (bad prefix incl. 04, off-curve X) -/
theorem reject_xkey_bad_pubkey (env : Env) (b : Bytes) (d k0 : UInt8) (s2 kr : Bytes) (hs : b.drop 4 = d :: s2)
    (hk : (s2.drop 40).take 33 = k0 :: kr) (h0 : k0 ≠ 0) (h : PublicKey.parse E (k0 :: kr) = none) :
    HDKey.parse E env b = none :=
  xkey_bad_key env b d k0 s2 kr hs hk (by simp [readKeyField, h0, h])

/-- the constructor refuses uncompressed keys: public ones always did, private ones after fix k04 -/
theorem reject_hdkey_uncompressed (env : Env) (key : KeyObj E) (cc : Bytes) (ver : Option Bytes) (depth : Nat)
    (fp : Bytes) (cn : Nat)
    (h : (∃ k, key = .priv k ∧ k.compressed = false) ∨ (∃ k, key = .pub k ∧ k.compressed = false)) :
    HDKey.init env key cc ver depth fp cn = none := by
  unfold HDKey.init
  rcases h with ⟨k, rfl, hk⟩ | ⟨k, rfl, hk⟩
  · split
    · rfl
    · simp [KeyObj.privUncompressed, hk]
  · rw [if_pos]
    simp [KeyObj.serialize, PublicKey.sec, pubkeySerialize_length, hk]

-- (decoder soundness — accepted ⇒ re-encodes to itself — for WIF, extended keys, stream reads, x-only and private keys is in Props/C10X.lean)

/-! ### non-vacuity -/

def exEnv : Env where
  hmac512 := fun _ _ => List.replicate 64 1
  hash160 := fun _ => List.replicate 20 5
  tagged := fun _ _ => List.replicate 32 0
  b58enc := fun b => 0x78 :: (if b.take 4 = [0x04, 0x88, 0xad, 0xe4] then tPrv else tPub) ++ b
  b58dec := fun t => some (t.drop 4)

def exPub : PublicKey toy := ⟨3, false⟩
def exPriv : PrivateKey := ⟨5, false, 1⟩
def exHd : HDKey toy :=
  { key := .pub ⟨4, true⟩, chainCode := List.replicate 32 7, version := [0x04, 0x88, 0xb2, 0x1e], depth := 3,
    fingerprint := [1, 2, 3, 4], childNumber := 2147483649 }

example : EcLaws toy := toy_laws
example : toy.isInf exPub.point = false := by decide
example : exPub.sec.length = 65 ∧ PublicKey.parse toy exPub.sec = some exPub := ⟨by decide, sec_roundtrip toy_laws exPub (by decide)⟩
example : ∀ b, exEnv.b58dec (exEnv.b58enc b) = some b := by intro b; simp [exEnv]; split <;> rfl
example : seckeyValid toy exPriv.secret = true ∧ exPriv.network < Generated.keyNets.length := by decide
example : (exPriv.xonly toy).map List.length = some 32 ∧ (exPriv.xonlyOld toy).map List.length = some 64 := by decide
example : HDKey.init exEnv exHd.key exHd.chainCode (some exHd.version) exHd.depth exHd.fingerprint exHd.childNumber
    = some exHd := by
  rw [init_iff]; exact ⟨by decide, by decide, rfl, _, rfl, by decide⟩
example : exHd.key.Valid toy := ⟨by decide, rfl⟩
example : (HDKey.parse toy exEnv ((exHd.serialize).getD [])).isSome = true := by decide
/-- rejection classes are inhabited: a hybrid key, a truncated one, a wrong-kind version -/
example : PublicKey.parse toy (0x06 :: List.replicate 64 0) = none := reject_sec_bad_prefix _ _ (by decide)
example : PublicKey.parse toy (exPub.sec.take 64) = none := reject_sec_wrong_length _ (by decide)
example : HDKey.parse toy exEnv (((exHd.serialize).getD []).take 77) = none := reject_xkey_truncated _ _ (by decide)

end Embit.Props.C10
