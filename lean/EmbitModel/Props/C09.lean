import EmbitModel.Proofs.Bip32Neuter
import EmbitModel.Proofs.Taproot
import EmbitModel.Proofs.PathText
import EmbitModel.Proofs.KeyTables
import EmbitModel.Proofs.KeyToyCurve
/-
  C09 — HD and taproot key derivation follow BIP32/BIP341 and commute with neutering.

  Property theorems only. `Embit.Keys.*` is the model of embit (`bip32.py`, `ec.py`; tied to /repo by the
  correspondence check of harness/props/c09.py), `Spec.Bip32` / `Spec.Bip341` are transcriptions of the BIPs.
  The curve `E`, HMAC-SHA512, HASH160, the tagged hash and the Base58Check text layer are ARBITRARY
  (`EcOps`, `Env`); group structure enters only through the explicit hypothesis `EcLaws E`, hash output lengths
  through explicit hypotheses. The model follows the code after fixes k02, k04, k05.
-/
namespace Embit.Props.C09
open Embit Embit.Keys Embit.Spec

variable {E : EcOps}

/-! ### child derivation is BIP32's CKD -/

/-- private parent: `child` is CKDpriv for every key, chain code and index below 2^32 — including the two
    invalid cases (I_L ≥ n, zero key), which embit reports by raising — wrapped into the HDKey bookkeeping
    (same version, depth + 1, fingerprint = first 4 bytes of HASH160(serP(point(k_par))), child number = i) -/
theorem child_eq_ckd_priv (L : EcLaws E) (env : Env) (hlen : ∀ key msg, (env.hmac512 key msg).length = 64)
    (k : HDKey E) (pk : PrivateKey) (hk : k.key = .priv pk) (hc : pk.compressed = true)
    (hv : seckeyValid E pk.secret = true) (i : Nat) (hi : i < 2 ^ 32) :
    k.child env i =
      (Bip32.CKDpriv E env.hmac512 ⟨pk.secret, k.chainCode⟩ i).bind fun r =>
        HDKey.init env (.priv ⟨r.k, true, Generated.privDefaultNet⟩) r.c (some k.version) (k.depth + 1)
          (Bip32.fingerprint E env.hash160 (Bip32.point E pk.secret)) i :=
  child_priv L env hlen k pk hk hc hv i hi

/-- public parent: `child` is CKDpub (failure for hardened indices, I_L ≥ n, point at infinity) -/
theorem child_eq_ckd_pub (L : EcLaws E) (env : Env) (hlen : ∀ key msg, (env.hmac512 key msg).length = 64)
    (k : HDKey E) (pb : PublicKey E) (hk : k.key = .pub pb) (hc : pb.compressed = true)
    (i : Nat) (hi : i < 2 ^ 32) :
    k.child env i =
      (Bip32.CKDpub E env.hmac512 ⟨pb.point, k.chainCode⟩ i).bind fun r =>
        HDKey.init env (.pub ⟨r.K, true⟩) r.c (some k.version) (k.depth + 1)
          (Bip32.fingerprint E env.hash160 pb.point) i :=
  child_pub L env hlen k pb hk hc i hi

/-- with version bytes that fix the text kind (every SLIP-132 version does, `version_table_says`) the
    bookkeeping never fails below depth 255: the child IS the CKD result -/
theorem child_eq_ckd_priv_total (L : EcLaws E) (env : Env) (hlen : ∀ key msg, (env.hmac512 key msg).length = 64)
    (hh160 : ∀ msg, 4 ≤ (env.hash160 msg).length)
    (k : HDKey E) (pk : PrivateKey) (hk : k.key = .priv pk) (hc : pk.compressed = true)
    (hv : seckeyValid E pk.secret = true) (hd : k.depth < 255) (hA : VersionSays env k.version tPrv)
    (i : Nat) (hi : i < 2 ^ 32) :
    k.child env i =
      (Bip32.CKDpriv E env.hmac512 ⟨pk.secret, k.chainCode⟩ i).map fun r =>
        { key := .priv ⟨r.k, true, Generated.privDefaultNet⟩, chainCode := r.c, version := k.version,
          depth := k.depth + 1, fingerprint := Bip32.fingerprint E env.hash160 (Bip32.point E pk.secret),
          childNumber := i } := by
  rw [child_priv L env hlen k pk hk hc hv i hi]
  cases hr : Bip32.CKDpriv E env.hmac512 ⟨pk.secret, k.chainCode⟩ i with
  | none => rfl
  | some r =>
    simp only [Option.bind_some, Option.map_some]
    have hrc : r.c.length = 32 := CKDpriv_cc_length env.hmac512 hlen _ i r hr
    have hfl : (Bip32.fingerprint E env.hash160 (Bip32.point E pk.secret)).length = 4 := by
      have := hh160 (Bip32.serP E (Bip32.point E pk.secret))
      simp [Bip32.fingerprint]; omega
    exact init_some env _ _ _ _ _ _ (by simp [KeyObj.Canon]) hrc hfl (by omega) hi
      (by simpa [kindText, KeyObj.isPrivate] using hA)

/-- the `hardened` argument only adds 2^31 to an index below 2^31 -/
theorem child_hardened_flag (env : Env) (k : HDKey E) (i : Nat) (hi : i < 2 ^ 32) :
    k.child env i true = k.child env (if i < 2 ^ 31 then i + 2 ^ 31 else i) := by
  rw [Keys.child_hardened_flag env k i hi]
  congr 1
  unfold normIndex
  rw [hardenedIndex_eq]
  simp

/-- indices from 2^32 on are refused -/
theorem child_index_range (env : Env) (k : HDKey E) (i : Nat) (h : Bool) (hi : 2 ^ 32 ≤ i) : k.child env i h = none := by
  unfold HDKey.child
  rw [if_pos (by omega)]

/-! ### paths -/

/-- path derivation is repeated child derivation (a negative element is refused) -/
theorem derive_eq_fold (env : Env) (k : HDKey E) (p : List Int) :
    k.derive env p = p.foldlM (fun c i => if i < 0 then none else c.child env i.toNat) k :=
  derive_eq_foldlM env p k

/-- a text path is parsed, then derived -/
theorem derive_text (env : Env) (k : HDKey E) (t : Text) :
    k.deriveStr env t = (parsePath t).bind (k.derive env) := by
  unfold HDKey.deriveStr
  cases parsePath t <;> rfl

/-- `parse_path(path_to_str(p)) == p` for every list of integers (so in particular for all indices in
    [0, 2^32), hardened ones printed as `…h`) -/
theorem path_text_roundtrip (p : List Int) : parsePath (pathToStr p) = some p := parsePath_pathToStr p

/-! ### hardened derivation from a public key is refused -/

theorem hardened_from_public_refused (env : Env) (k : HDKey E) (hk : k.key.isPrivate = false) (i : Nat) (h : Bool)
    (hh : h = true ∨ 2 ^ 31 ≤ i) : k.child env i h = none :=
  child_pub_hardened env k hk i h hh

/-! ### depth -/

/-- depth 255 → 256 cannot be represented: `child` of a depth-255 key RAISES (in the constructor's `to_base58()`:
    `bytes([256])`), for private and public keys, every index -/
theorem depth_overflow (env : Env) (k : HDKey E) (hd : 255 ≤ k.depth) (i : Nat) (h : Bool) : k.child env i h = none :=
  child_depth_overflow env k hd i h

/-! ### neutering commutes with non-hardened derivation -/

/-- `(child k i).to_public() = child (k.to_public()) i` for every non-hardened index: key, chain code, depth, parent
    fingerprint, child number and version, and the failure cases coincide. Hypotheses: the curve laws, hash output
    lengths, a well-formed private parent, and version bytes that fix the text kind. -/
theorem neuter_commutes (L : EcLaws E) (env : Env) (hlen : ∀ key msg, (env.hmac512 key msg).length = 64)
    (hh160 : ∀ msg, 4 ≤ (env.hash160 msg).length)
    (k : HDKey E) (pk : PrivateKey) (hk : k.key = .priv pk) (hc : pk.compressed = true)
    (hv : seckeyValid E pk.secret = true)
    (hcc : k.chainCode.length = 32) (hfp : k.fingerprint.length = 4) (hcn : k.childNumber < 2 ^ 32)
    (hA : VersionSays env k.version tPrv)
    (hB : ∀ pv, detectPubVersion k.version = some pv → VersionSays env pv tPub) (i : Nat) (hi : i < 2 ^ 31) :
    (k.child env i).bind (fun c => c.toPublic env) = (k.toPublic env).bind (fun K => K.child env i) :=
  neuter_commutes_gen L env hlen hh160 k pk hk hc hv hcc hfp hcn hA hB i hi

/-- the same for the real Base58Check codec (any 4-byte checksum function) and every private SLIP-132 version of
    the generated NETWORKS table: no hypothesis about the text layer is left -/
theorem neuter_commutes_table (L : EcLaws E) (env : Env) (dsha : Bytes → Bytes) (hd : ∀ b, 4 ≤ (dsha b).length)
    (henc : env.b58enc = B58.encodeCheck dsha) (hlen : ∀ key msg, (env.hmac512 key msg).length = 64)
    (hh160 : ∀ msg, 4 ≤ (env.hash160 msg).length)
    (k : HDKey E) (pk : PrivateKey) (hk : k.key = .priv pk) (hc : pk.compressed = true)
    (hv : seckeyValid E pk.secret = true)
    (hcc : k.chainCode.length = 32) (hfp : k.fingerprint.length = 4) (hcn : k.childNumber < 2 ^ 32)
    (net : Generated.KeyNet) (hn : net ∈ Generated.keyNets) (e : String × Bytes × Bool) (he : e ∈ net.versions)
    (hprv : e.2.2 = true) (hver : k.version = e.2.1) (i : Nat) (hi : i < 2 ^ 31) :
    (k.child env i).bind (fun c => c.toPublic env) = (k.toPublic env).bind (fun K => K.child env i) := by
  obtain ⟨hA, hB⟩ := table_pub_says env dsha hd henc net hn e he hprv
  rw [← hver] at hA hB
  exact neuter_commutes_gen L env hlen hh160 k pk hk hc hv hcc hfp hcn hA hB i hi

/-- what `to_public()` returns: the public key of the same scalar, same chain code / depth / fingerprint / child
    number, the version mapped through the network table -/
theorem to_public_spec (env : Env) (k : HDKey E) (pk : PrivateKey) (hk : k.key = .priv pk)
    (hc : pk.compressed = true) (hv : seckeyValid E pk.secret = true)
    (hcc : k.chainCode.length = 32) (hfp : k.fingerprint.length = 4) (hd : k.depth < 256)
    (hcn : k.childNumber < 2 ^ 32) (pv : Bytes) (hpv : detectPubVersion k.version = some pv)
    (hB : VersionSays env pv tPub) :
    k.toPublic env = some { key := .pub ⟨(Bip32.N E ⟨pk.secret, k.chainCode⟩).K, true⟩, chainCode := k.chainCode,
                            version := pv, depth := k.depth, fingerprint := k.fingerprint,
                            childNumber := k.childNumber } :=
  toPublic_some env k pk hk hc hv hcc hfp hd hcn pv hpv hB

/-- the version map of `to_public()` over the generated table: every `?prv` version goes to the `?pub` version of
    the same network and letter -/
theorem to_public_version_table :
    (Generated.keyNets.all fun net => net.prvPub.all fun e => detectPubVersion e.1 == e.2) = true := detect_table

/-- every SLIP-132 version of the generated table fixes the characters [1:4] of the text, so the constructor's
    version test never depends on the payload -/
theorem version_table_says (env : Env) (dsha : Bytes → Bytes) (hd : ∀ b, 4 ≤ (dsha b).length)
    (henc : env.b58enc = B58.encodeCheck dsha) (net : Generated.KeyNet) (hn : net ∈ Generated.keyNets)
    (e : String × Bytes × Bool) (he : e ∈ net.versions) : VersionSays env e.2.1 (kindText e.2.2) :=
  B58.table_versionSays env dsha hd henc net hn e he

/-! ### taproot -/

/-- tweaking a private key and taking its public key equals tweaking the public key: both Y parities, both
    compression flags, every `h` (also the empty one), failure cases included -/
theorem taproot_commutes (L : EcLaws E) (env : Env) (htag : ∀ t m, (env.tagged t m).length = 32)
    (k : PrivateKey) (hv : seckeyValid E k.secret = true) (h : Bytes) :
    (k.taprootTweak E env h).bind (fun r => r.getPublicKey E)
      = (k.getPublicKey E).bind (fun P => P.taprootTweak env h) :=
  taproot_commutes_gen L env htag k hv h

/-- the tweaked public key is BIP341's output key: `Q = lift_x(x(P)) + int(hash_TapTweak(x(P) ‖ h))·G`, returned as
    the even-Y point with `x(Q)`. (embit also refuses `t = 0`, which BIP341 does not: probability 2^-256.) -/
theorem taproot_eq_bip341 (L : EcLaws E) (env : Env) (htag : ∀ t m, (env.tagged t m).length = 32)
    (k : PublicKey E) (hP : E.isInf k.point = false) (h : Bytes) :
    k.taprootTweak env h =
      if Bip341.tweakOf env.tagged (E.x k.point) h = 0 then none
      else (Bip341.outputPoint E env.tagged (E.x k.point) h).map (fun Q => ⟨evenY E Q, true⟩) :=
  tweakPub_eq L env htag k hP h

/-- … so whatever it returns has even Y, and its x-only encoding is BIP341's `taproot_tweak_pubkey` result -/
theorem taproot_output_key (L : EcLaws E) (env : Env) (htag : ∀ t m, (env.tagged t m).length = 32)
    (k : PublicKey E) (hP : E.isInf k.point = false) (h : Bytes) (r : PublicKey E)
    (hr : k.taprootTweak env h = some r) :
    E.yOdd r.point = false ∧ r.compressed = true ∧
      ∃ par, Bip341.tweakPubkey E env.tagged (E.x k.point) h = some (par, E.x r.point) := by
  rw [tweakPub_eq L env htag k hP h] at hr
  split at hr
  · cases hr
  · cases hq : Bip341.outputPoint E env.tagged (E.x k.point) h with
    | none => simp [hq] at hr
    | some Q =>
      simp only [hq, Option.map_some, Option.some.injEq] at hr
      have hQ : E.isInf Q = false := by
        unfold Bip341.outputPoint at hq
        split at hq
        · cases hq
        · split at hq
          · cases hq
          · simp only at hq
            split at hq
            · cases hq
            · rename_i hni
              have := Option.some.inj hq
              rw [← this]
              simpa using hni
      obtain ⟨h1, h2, _⟩ := evenY_spec L Q hQ
      subst hr
      exact ⟨h1, rfl, E.yOdd Q, by simp [Bip341.tweakPubkey, hq, h2]⟩

/-- the tweaked private key is BIP341's `taproot_tweak_seckey` result `s`, or `n - s` when `s·G` has odd Y (the
    even-Y representative: BIP340 signing negates accordingly anyway) -/
theorem taproot_seckey_eq_bip341 (L : EcLaws E) (env : Env) (htag : ∀ t m, (env.tagged t m).length = 32)
    (k : PrivateKey) (hv : seckeyValid E k.secret = true) (h : Bytes) :
    k.taprootTweak E env h =
      if Bip341.tweakOf env.tagged (E.x (E.mulG k.secret)) h = 0 then none
      else match Bip341.tweakSeckey E env.tagged k.secret h with
        | none => none
        | some s =>
          if s = 0 then none
          else some ⟨if E.yOdd (E.mulG s) then E.n - s else s, true, Generated.privDefaultNet⟩ :=
  tweakPriv_eq L env htag k hv h

-- (the path-level statements — derive = the BIP32 fold with bookkeeping, neutering along non-hardened paths — are in Props/C09X.lean)

/-! ### the defects that were repaired (theorems about the old code) -/

/-- fix k05: the old private derivation called `ec_privkey_add(I_L, k_par)`, which refuses `I_L = 0`; BIP32 and
    the public derivation accept it (`k_i = k_par`) -/
theorem old_child_refused_il_zero (parent : Nat) : HDKey.childOldAdd E parent 0 = none := by
  simp [HDKey.childOldAdd, privkeyAdd, seckeyValid]

theorem child_accepts_il_zero (L : EcLaws E) (pk : PrivateKey) (hv : seckeyValid E pk.secret = true) :
    childPriv E pk 0 = some ⟨pk.secret, true, Generated.privDefaultNet⟩ := by
  have hvv := (seckeyValid_iff E pk.secret).mp hv
  rw [childPriv_eq L pk hv 0]
  have : (0 + pk.secret) % E.n = pk.secret := by rw [Nat.zero_add]; exact Nat.mod_eq_of_lt hvv.2
  rw [this, if_neg (by omega)]

/-- fix k02: the old parity test looked at `self.sec()`, which starts with 04 for an uncompressed key, so the
    secret was negated whatever the parity of Y -/
theorem old_tweak_negates_uncompressed (k : PrivateKey) (hv : seckeyValid E k.secret = true)
    (hu : k.compressed = false) : k.taprootNegateOld E = some true := by
  simp [PrivateKey.taprootNegateOld, PrivateKey.sec, PrivateKey.getPublicKey, pubkeyCreate, hv, PublicKey.sec,
    pubkeySerialize, hu]

/-! ### non-vacuity -/

/-- a toy environment over the seven-element curve: HMAC gives I_L = 2, the tagged hash gives t = 2, and the text
    layer renders the version 0488ade4 as `xprv`, everything else as `xpub` -/
def exEnv : Env where
  hmac512 := fun _ _ => List.replicate 31 0 ++ [2] ++ List.replicate 32 9
  hash160 := fun _ => List.replicate 20 5
  tagged := fun _ _ => List.replicate 31 0 ++ [2]
  b58enc := fun b => 0x78 :: (if b.take 4 = [0x04, 0x88, 0xad, 0xe4] then tPrv else tPub)
  b58dec := fun _ => none

def exKey : HDKey toy :=
  { key := .priv ⟨3, true, 0⟩, chainCode := List.replicate 32 1, version := [0x04, 0x88, 0xad, 0xe4], depth := 0,
    fingerprint := [0, 0, 0, 0], childNumber := 0 }

example : EcLaws toy := toy_laws
example : ∀ key msg, (exEnv.hmac512 key msg).length = 64 := by intro _ _; rfl
example : ∀ msg, 4 ≤ (exEnv.hash160 msg).length := by intro _; simp [exEnv]
example : ∀ t m, (exEnv.tagged t m).length = 32 := by intro _ _; rfl
example : seckeyValid toy 3 = true := by decide
example : VersionSays exEnv exKey.version tPrv := by
  intro rest _; simp [exEnv, exKey, sub14, tPrv]
example : detectPubVersion exKey.version = some [0x04, 0x88, 0xb2, 0x1e] := by decide
example : VersionSays exEnv [0x04, 0x88, 0xb2, 0x1e] tPub := by
  intro rest _; simp [exEnv, sub14, tPub]
/-- the child of the toy key exists (k = 2 + 3 mod 7 = 5), so does its neutered form, and a hardened child too -/
example : ((exKey.child exEnv 0).bind (fun c => c.toPublic exEnv)).isSome = true := by decide
example : (exKey.child exEnv (2 ^ 31)).isSome = true := by decide
example : ((exKey.toPublic exEnv).bind (fun K => K.child exEnv (2 ^ 31))).isSome = false := by decide
example : (exKey.derive exEnv [0]).isSome = true := by decide
/-- … and the next step hits BIP32's invalid case k_i = 2 + 5 mod 7 = 0, reported as failure -/
example : (exKey.derive exEnv [0, 1]).isSome = false := by decide
/-- both parities occur on the toy curve, and the tweak of either succeeds -/
example : toy.yOdd (toy.mulG 3) = true ∧ toy.yOdd (toy.mulG 4) = false := by decide
example : ((⟨3, true, 0⟩ : PrivateKey).taprootTweak toy exEnv []).isSome = true := by decide
example : ((⟨4, false, 0⟩ : PrivateKey).taprootTweak toy exEnv [1, 2]).isSome = true := by decide
example : parsePath (pathToStr [0, 1, 2147483647, 2147483648, 4294967295]) = some [0, 1, 2147483647, 2147483648, 4294967295] :=
  path_text_roundtrip _
example : pathToStr [44 + 2147483648, 0, 5] = [0x6d, 0x2f, 0x34, 0x34, 0x68, 0x2f, 0x30, 0x2f, 0x35] := by
  have d44 : decDigits 44 = [0x34, 0x34] := by
    rw [decDigits_unfold, if_neg (by decide), decDigits_unfold, if_pos (by decide)]; rfl
  have d0 : decDigits 0 = [0x30] := by rw [decDigits_unfold, if_pos (by decide)]; rfl
  have d5 : decDigits 5 = [0x35] := by rw [decDigits_unfold, if_pos (by decide)]; rfl
  simp [pathToStr, showInt, hardenedIndex, d44, d0, d5]

end Embit.Props.C09
