import EmbitModel.Proofs.LiquidTxRoundtrip
import EmbitModel.Proofs.Blech32
import EmbitModel.Model.Liquid
import EmbitModel.Proofs.LiquidBlind
import EmbitModel.Proofs.LiquidBalance
import EmbitModel.Proofs.PsetScope
import EmbitModel.Proofs.LiquidAddr
/-
  C18 — Liquid: confidential transactions round-trip, blind soundly and unblind exactly.

  PARTIAL by construction: range proofs, surjection proofs and Pedersen commitments live in the prebuilt
  libsecp256k1-zkp. Here: everything that is logic (codecs, key-value losslessness, the derivation of every
  blinding factor, the decision logic of `verify()` / `unblind()`, balance relative to explicit algebraic laws,
  blech32). What the C library actually does is observed in differential runs (harness/liquid_worker.py) and is
  never presented as proved.

  `Model.*` = model of embit (tied to the repository by the correspondence check), `Spec.LWire.*` = the Elements
  wire format, `Zkp` = the commitment library as arbitrary functions.
-/
set_option linter.unusedSimpArgs false
set_option linter.unusedVariables false
namespace Embit.Props.C18
open Embit Model Spec.LWire

/-! ## 1. Liquid transactions round-trip (as C03) -/

/-- on well-formed transactions embit's serialiser is the Elements wire encoding -/
theorem ltx_ser_eq_wire (t : LTx) (h : WF t) : LTx.ser t = encode t := LTx.ser_eq_encode t h

/-- serialise-then-parse is the identity, field for field (inputs with issuance / peg-in flags, explicit and
    committed outputs, all four witness parts) -/
theorem ltx_roundtrip (t : LTx) (h : WF t) : LTx.parse (LTx.ser t) = some t := by
  have := LTx.read_ser t [] h
  simp only [List.append_nil] at this
  simp [LTx.parse, parseAll, this]

/-- anything the parser accepts is the Elements encoding of the (well-formed) transaction it returns -/
theorem ltx_parse_sound (b : Bytes) (t : LTx) (h : LTx.parse b = some t) : Decodes b t := by
  unfold LTx.parse parseAll at h
  split at h
  · rename_i x hx
    simp at h; subst h
    obtain ⟨hb, hwf⟩ := LTx.read_sound hx
    refine ⟨hwf, ?_⟩
    rw [← ltx_ser_eq_wire _ hwf]; simp [hb]
  · simp at h

/-- the parser accepts exactly the wire format -/
theorem ltx_parse_iff (b : Bytes) (t : LTx) : LTx.parse b = some t ↔ Decodes b t := by
  constructor
  · exact ltx_parse_sound b t
  · rintro ⟨hwf, he⟩
    rw [← he, ← ltx_ser_eq_wire t hwf]
    exact ltx_roundtrip t hwf

theorem ltx_reencode (b : Bytes) (t : LTx) (h : LTx.parse b = some t) : LTx.ser t = b := by
  obtain ⟨hwf, he⟩ := ltx_parse_sound b t h
  rw [ltx_ser_eq_wire t hwf]; exact he

/-- one byte string, one transaction -/
theorem ltx_wire_unique (b : Bytes) (t t' : LTx) (h : Decodes b t) (h' : Decodes b t') : t = t' := by
  have a := (ltx_parse_iff b t).mpr h
  have a' := (ltx_parse_iff b t').mpr h'
  rw [a] at a'
  exact Option.some.inj a'

/-- every proper truncation of a valid encoding is rejected (after the `liquid-strict-reads` fix) -/
theorem ltx_truncated_rejected (b : Bytes) (t : LTx) (h : Decodes b t) (k : Nat) (hk : k < b.length) :
    LTx.parse (b.take k) = none := by
  cases hp : LTx.parse (b.take k) with
  | none => rfl
  | some t' =>
    exfalso
    obtain ⟨hwf', he'⟩ := ltx_parse_sound _ _ hp
    have hb : b = LTx.ser t' ++ b.drop k := by
      rw [ltx_ser_eq_wire t' hwf', he', List.take_append_drop]
    have r1 := LTx.read_ser t' (b.drop k) hwf'
    rw [← hb] at r1
    have r2 : LTx.parse b = some t := (ltx_parse_iff b t).mpr h
    unfold LTx.parse parseAll at r2
    rw [r1] at r2
    split at r2
    · rename_i x hx
      simp at hx
      have := hx.2; omega
    · simp at r2

/-- every extension of a valid encoding by trailing bytes is rejected -/
theorem ltx_trailing_rejected (b : Bytes) (t : LTx) (h : Decodes b t) (e : Bytes) (he : e ≠ []) :
    LTx.parse (b ++ e) = none := by
  obtain ⟨hwf, hb⟩ := h
  have r1 := LTx.read_ser t e hwf
  rw [ltx_ser_eq_wire t hwf, hb] at r1
  unfold LTx.parse parseAll
  rw [r1]
  cases e with
  | nil => exact absurd rfl he
  | cons x xs => rfl

/-- the flag byte of an accepted encoding is 0 or 1, and it is 1 exactly when some witness is non-empty
    (no unknown flags, no superfluous witness record) -/
theorem ltx_flag (b : Bytes) (t : LTx) (h : LTx.parse b = some t) :
    (b.drop 4).head? = some (if hasWitness t then 1 else 0) := by
  obtain ⟨hwf, he⟩ := ltx_parse_sound b t h
  rw [← he]
  unfold encode
  split <;> simp [List.append_assoc, List.drop_append, leN_length]

/-- the layers on their own: inputs (issuance / peg-in flags in bits 31 / 30 of the index), outputs, witnesses -/
theorem lin_roundtrip (i : LTxIn) (r : Bytes) (h : WFIn i) :
    LTxIn.read (LTxIn.ser i ++ r) = some ({ i with witness := {} }, r) := LTxIn.read_ser i r h
theorem lin_sound (b r : Bytes) (i : LTxIn) (h : LTxIn.read b = some (i, r)) :
    b = LTxIn.ser i ++ r ∧ WFIn i := ⟨(LTxIn.read_sound h).1, (LTxIn.read_sound h).2.1⟩
theorem lout_roundtrip (o : LTxOut) (r : Bytes) (h : WFOut o) :
    LTxOut.read (LTxOut.ser o ++ r) = some ({ o with witness := {} }, r) := LTxOut.read_ser o r h
theorem lout_sound (b r : Bytes) (o : LTxOut) (h : LTxOut.read b = some (o, r)) :
    b = LTxOut.ser o ++ r ∧ WFOut o := ⟨(LTxOut.read_sound h).1, (LTxOut.read_sound h).2.1⟩
theorem lwitness_roundtrip (wi : LInWitness) (wo : LOutWitness) (r : Bytes) (hi : WFInWitness wi)
    (ho : WFOutWitness wo) :
    LInWitness.read (LInWitness.ser wi ++ r) = some (wi, r) ∧ LOutWitness.read (LOutWitness.ser wo ++ r) = some (wo, r) :=
  ⟨LInWitness.read_ser wi r hi, LOutWitness.read_ser wo r ho⟩

/-- the issuance flag is bit 31 and the peg-in flag bit 30 of the index that is written -/
theorem index_flags (i : LTxIn) (h : i.vout < 2^30) :
    (LTxIn.wireVout i).testBit 31 = i.issuance.isSome ∧ (LTxIn.wireVout i).testBit 30 = i.isPegin
    ∧ LTxIn.wireVout i % 2^30 = i.vout := by
  unfold LTxIn.wireVout
  cases i.issuance <;> cases i.isPegin <;>
    simp [Nat.testBit, Nat.shiftRight_eq_div_pow] <;> omega

/-- explicit values are written big-endian (`0x01` ‖ 8 bytes), unlike Bitcoin's little-endian amounts -/
theorem explicit_value_big_endian (v : Nat) : LValue.ser (.explicit v) = 1 :: (leN 8 v).reverse := rfl

/-! ## 2. `LOutputScope.verify()` is sound as decision logic -/


/-- the asset statement `verify()` establishes: the stated asset, blinded with the stated factor, IS the generator
    committed to — or, without a factor, the asset proof verifies against it in the library -/
def AssetConsistent (Z : Zkp) (o : VerifyView) (a gen : Bytes) : Prop :=
  Z.generatorParse (o.assetCommitment.getD []) = some gen ∧
  ((truthyB o.abf = true ∧ Z.generatorGenerateBlinded a (o.abf.getD []) = some gen)
   ∨ (truthyB o.abf = false ∧ truthyB o.assetProof = true ∧
      ∃ proof ga, Z.surjectionproofParse (o.assetProof.getD []) = some proof ∧ Z.generatorGenerate a = some ga
        ∧ Z.surjectionproofVerify proof [ga] gen = true))

/-- the value statement: the commitment to the stated value under the stated factor and the verified generator
    serialises to the stated commitment — or, without a factor, the value proof is an exact-value range proof
    `[v, v]` for the stated commitment -/
def ValueConsistent (Z : Zkp) (o : VerifyView) (v : Nat) (gen : Bytes) : Prop :=
  (truthyB o.vbf = true ∧ ∃ c, Z.pedersenCommit (o.vbf.getD []) v gen = some c
      ∧ Z.pedersenCommitmentSerialize c = some (o.valueCommitment.getD []))
  ∨ (truthyB o.vbf = false ∧ truthyB o.valueProof = true ∧
      ∃ c, Z.pedersenCommitmentParse (o.valueCommitment.getD []) = some c
        ∧ Z.rangeproofVerify (o.valueProof.getD []) c [] gen = some (v, v))

/-- every consistency predicate the property names, for one output -/
structure Consistent (Z : Zkp) (o : VerifyView) : Prop where
  /-- a stated asset next to an asset commitment is tied to it -/
  asset : ∀ a, o.asset = some a → truthyB o.assetCommitment = true → ∃ gen, AssetConsistent Z o a gen
  /-- a stated value next to a value commitment is tied to it, through an asset that was itself verified -/
  value : ∀ v, o.value = some v → truthyB o.valueCommitment = true →
    ∃ a gen, o.asset = some a ∧ truthyB o.assetCommitment = true ∧ AssetConsistent Z o a gen ∧ ValueConsistent Z o v gen
  /-- a raw commitment in the place of the stated value never passes next to a value commitment -/
  raw : o.valueIsRaw = true → o.value = none → truthyB o.valueCommitment = false

private theorem verifyAsset_spec (Z : Zkp) (o : VerifyView) (g : Option Bytes) (h : verifyAsset Z o = some g) :
    (g = none ∧ (o.asset = none ∨ truthyB o.assetCommitment = false))
    ∨ (∃ a gen, g = some gen ∧ o.asset = some a ∧ truthyB o.assetCommitment = true ∧ AssetConsistent Z o a gen) := by
  unfold verifyAsset at h
  split at h
  · rename_i ha
    simp at h; subst h
    exact Or.inl ⟨rfl, Or.inl ha⟩
  · rename_i a ha
    split at h
    · rename_i hc
      simp at h; subst h
      exact Or.inl ⟨rfl, Or.inr (by simpa using hc)⟩
    · rename_i hc
      have hc' : truthyB o.assetCommitment = true := by simpa using hc
      split at h
      · simp at h
      · rename_i hev
        split at h
        · simp at h
        · rename_i gen hgen
          split at h
          · rename_i habf
            split at h
            · simp at h
            · rename_i g' hg'
              split at h
              · rename_i heq
                simp at h; subst h; subst heq
                exact Or.inr ⟨a, gen, rfl, ha, hc', hgen, Or.inl ⟨habf, hg'⟩⟩
              · simp at h
          · rename_i habf
            have habf' : truthyB o.abf = false := by simpa using habf
            have hap : truthyB o.assetProof = true := by
              simp [habf'] at hev
              exact hev
            split at h
            · simp at h
            · rename_i proof hproof
              split at h
              · simp at h
              · rename_i ga hga
                split at h
                · rename_i hver
                  simp at h; subst h
                  exact Or.inr ⟨a, gen, rfl, ha, hc', hgen, Or.inr ⟨habf', hap, proof, ga, hproof, hga, hver⟩⟩
                · simp at h

private theorem verifyValue_spec (Z : Zkp) (o : VerifyView) (g : Option Bytes) (h : verifyValue Z o g = true) :
    (∀ v, o.value = some v → truthyB o.valueCommitment = true → ∃ gen, g = some gen ∧ ValueConsistent Z o v gen)
    ∧ (o.valueIsRaw = true → o.value = none → truthyB o.valueCommitment = false) := by
  unfold verifyValue at h
  split at h
  · rename_i h0
    simp at h0
    refine ⟨fun v hv => by simp [h0.1] at hv, fun hr => by simp [h0.2] at hr⟩
  · rename_i h0
    split at h
    · rename_i hvc
      have hvc' : truthyB o.valueCommitment = false := by simpa using hvc
      exact ⟨fun v _ hc => by simp [hvc'] at hc, fun _ _ => hvc'⟩
    · rename_i hvc
      split at h
      · simp at h
      · rename_i gen
        split at h
        · simp at h
        · rename_i hev
          split at h
          · simp at h
          · rename_i value hvalue
            refine ⟨?_, fun _ hn => by simp [hvalue] at hn⟩
            intro v hv _
            rw [hvalue] at hv; simp at hv; subst hv
            refine ⟨gen, rfl, ?_⟩
            split at h
            · rename_i hvbf
              split at h
              · simp at h
              · rename_i c hc
                split at h
                · simp at h
                · rename_i ser hser
                  have : o.valueCommitment.getD [] = ser := by simpa using h
                  exact Or.inl ⟨hvbf, c, hc, by rw [hser, this]⟩
            · rename_i hvbf
              have hvbf' : truthyB o.vbf = false := by simpa using hvbf
              have hvp : truthyB o.valueProof = true := by
                simp [hvbf'] at hev
                exact hev
              split at h
              · simp at h
              · rename_i c hc
                split at h
                · simp at h
                · rename_i mn mx hr
                  simp at h
                  obtain ⟨h1, h2⟩ := h
                  subst h1; subst h2
                  exact Or.inr ⟨hvbf', hvp, c, hc, hr⟩

/-- MAIN: `verify()` returning True means every consistency predicate was evaluated and held -/
theorem verify_sound (Z : Zkp) (o : VerifyView) (h : verifyView Z o = true) : Consistent Z o := by
  unfold verifyView at h
  split at h
  · simp at h
  · rename_i g hg
    obtain ⟨hv, hraw⟩ := verifyValue_spec Z o g h
    rcases verifyAsset_spec Z o g hg with ⟨rfl, hskip⟩ | ⟨a, gen, rfl, ha, hc, hcons⟩
    · refine ⟨?_, ?_, hraw⟩
      · intro a ha hc
        rcases hskip with h1 | h1
        · simp [h1] at ha
        · simp [h1] at hc
      · intro v hv' hc'
        obtain ⟨gen, hgen, _⟩ := hv v hv' hc'
        simp at hgen
    · refine ⟨?_, ?_, hraw⟩
      · intro a' ha' _
        rw [ha] at ha'; simp at ha'; subst ha'
        exact ⟨gen, hcons⟩
      · intro v hv' hc'
        obtain ⟨gen', hgen, hval⟩ := hv v hv' hc'
        simp at hgen; subst hgen
        exact ⟨a, gen, ha, hc, hcons, hval⟩

theorem lout_verify_sound (Z : Zkp) (s : LOutScope) (h : LOutScope.verify Z s = true) : Consistent Z s.view :=
  verify_sound Z s.view h

/-! the defect that was repaired (D26): the old truthiness tests skipped the checks for value 0 / asset b"" -/

def nullZkp : Zkp where
  generatorParse := fun _ => none
  generatorSerialize := fun _ => none
  generatorGenerate := fun _ => none
  generatorGenerateBlinded := fun _ _ => none
  pedersenCommit := fun _ _ _ => none
  pedersenCommitmentParse := fun _ => none
  pedersenCommitmentSerialize := fun _ => none
  blindSum := fun _ _ _ _ => none
  surjectionproofParse := fun _ => none
  surjectionproofSerialize := fun _ => none
  surjectionproofVerify := fun _ _ _ => false
  surjectionproofInitialize := fun _ _ _ _ _ => none
  surjectionproofGenerate := fun _ _ _ _ _ _ => none
  rangeproofVerify := fun _ _ _ _ => none
  rangeproofSign := fun _ _ _ _ _ _ _ _ _ _ => none
  pubkeyOfSecret := fun _ => none
  ecdhNonce := fun _ _ => none

/-- a stated value of 0 next to a value commitment, nothing else -/
def zeroValueView : VerifyView :=
  { asset := none, assetCommitment := none, abf := none, assetProof := none, value := some 0,
    valueCommitment := some [8, 1], vbf := none, valueProof := none }

/-- the old `verify()` accepted a stated value of 0 against ANY commitment, with a library that verifies nothing;
    the repaired one refuses it -/
theorem old_verify_skips_zero_value :
    verifyViewOld nullZkp zeroValueView = true ∧ verifyView nullZkp zeroValueView = false
    ∧ ¬ Consistent nullZkp zeroValueView := by
  refine ⟨by decide, by decide, ?_⟩
  intro hc
  obtain ⟨a, gen, ha, _⟩ := hc.value 0 rfl (by decide)
  simp [zeroValueView] at ha

/-- for every library: the old logic passes value 0 as soon as the asset stage passes or is skipped -/
theorem old_verify_zero_value_unchecked (Z : Zkp) (o : VerifyView) (h0 : o.value = some 0) (ha : o.asset = none) :
    verifyViewOld Z o = true := by
  simp [verifyViewOld, ha, truthyB, verifyAsset, h0]


/-! ## 3. `PSET.blind(seed)` is deterministic: the derivation of every factor -/

/-- `PSET.blind(seed)`: every blinding factor, nonce and commitment of the result is determined by the seed, the
    PSET and the (deterministic) library — the asset blinding factor of output `i` is the tagged hash
    `liquid/abf` of `txseed ‖ i`, its value blinding factor is the tagged hash `liquid/vbf` of `txseed ‖ i`, EXCEPT for
    the last blinded output whose factor is the library's blind-sum over exactly the values / factors of the
    unblinded inputs and the blinded outputs; the ECDH key is the public key of the tagged hash
    `liquid/range_proof`; the commitments are the library's generator / Pedersen commitment of exactly these.
    Outputs without blinding key or value are returned unchanged. (`txseed` itself is the tagged hash
    `liquid/txseed` of seed ‖ outpoints ‖ scripts.) -/
theorem blind_deterministic (Z : Zkp) (sha : Bytes → Bytes) (seed : Bytes) (ins : List BlindIn)
    (outs res : List BlindOut) (h : blind Z sha seed ins outs = some res) :
    res.length = outs.length ∧
    ∃ a lastVbf, sumArgs ins (assignFactors sha (txseed sha seed ins outs) 0 outs) = some a
      ∧ Z.blindSum a.vals a.abfs a.vbfs a.nIn = some lastVbf ∧
    ∀ i o, outs[i]? = some o → ∃ r, res[i]? = some r ∧
      (o.selected = false → r = o) ∧
      (o.selected = true →
        r.abf = some (taggedHash sha "liquid/abf" (txseed sha seed ins outs ++ idx4 i))
        ∧ r.vbf = some (if isLastSelected outs i then lastVbf
                        else taggedHash sha "liquid/vbf" (txseed sha seed ins outs ++ idx4 i))
        ∧ r.ecdhPubkey = Z.pubkeyOfSecret (taggedHash sha "liquid/range_proof" (txseed sha seed ins outs ++ idx4 i))
        ∧ ∃ asset value gen vc, o.asset = some asset ∧ o.value = some value
            ∧ Z.generatorGenerateBlinded asset (r.abf.getD []) = some gen ∧ Z.generatorSerialize gen = r.assetCommitment
            ∧ Z.pedersenCommit (r.vbf.getD []) value gen = some vc ∧ Z.pedersenCommitmentSerialize vc = r.valueCommitment) := by
  obtain ⟨a, lv, tags, gens, ha, hlv, hs, he⟩ := blind_unfold Z sha seed ins outs res h
  generalize hts : txseed sha seed ins outs = ts at *
  obtain ⟨hlen, hall⟩ := blindEach_get Z sha ts tags gens a.abfs _ res 0 he
  have hsel1 := assignFactors_selected sha ts outs 0
  have hsel2 := setLastVbf_selected lv (assignFactors sha ts 0 outs)
  refine ⟨?_, a, lv, ha, hlv, ?_⟩
  · have := congrArg List.length (hsel2.trans hsel1)
    simp at this
    omega
  intro i o ho
  have hget : (setLastVbf lv (assignFactors sha ts 0 outs))[i]?
      = some (if isLastSelected outs i then { withFactors sha ts i o with vbf := some lv } else withFactors sha ts i o) := by
    rw [setLastVbf_get, assignFactors_get, ho, isLastSelected_congr hsel1]
    simp
  obtain ⟨r, hr, hone⟩ := hall i _ hget
  simp only [Nat.zero_add] at hone
  refine ⟨r, hr, ?_, ?_⟩
  · intro hns
    have hw : withFactors sha ts i o = o := by simp [withFactors, hns]
    have hl : isLastSelected outs i = false := by simp [isLastSelected, ho, hns]
    rw [hw, hl] at hone
    simp only [Bool.false_eq_true, if_false] at hone
    exact (blindOne_spec Z sha ts tags gens a.abfs i o r hone).1 (Or.inl hns)
  · intro hsel
    have hw : withFactors sha ts i o = ({ o with abf := some (taggedHash sha "liquid/abf" (ts ++ idx4 i)), vbf := some (taggedHash sha "liquid/vbf" (ts ++ idx4 i)) } : BlindOut) := by
      simp [withFactors, hsel]
    rw [hw] at hone
    by_cases hl : isLastSelected outs i = true
    · simp only [hl, if_true] at hone ⊢
      obtain ⟨hsame, ⟨asset, value, abf, vbf, gen, vc, e1, e2, e3, e4, e5, e6, e7, e8⟩, hecdh, _⟩ :=
        (blindOne_spec Z sha ts tags gens a.abfs i _ r hone).2 (by simpa [BlindOut.selected] using hsel) (by simp)
      simp only [] at hsame e1 e2 e3 e4
      obtain ⟨_, _, _, _, s5, s6⟩ := hsame
      simp at e3 e4; subst e3; subst e4
      refine ⟨s5, s6, hecdh, asset, value, gen, vc, e1, e2, ?_, e6, ?_, e8⟩
      · rw [s5]; exact e5
      · rw [s6]; exact e7
    · have hl' : isLastSelected outs i = false := by simpa using hl
      simp only [hl', Bool.false_eq_true, if_false] at hone ⊢
      obtain ⟨hsame, ⟨asset, value, abf, vbf, gen, vc, e1, e2, e3, e4, e5, e6, e7, e8⟩, hecdh, _⟩ :=
        (blindOne_spec Z sha ts tags gens a.abfs i _ r hone).2 (by simpa [BlindOut.selected] using hsel) (by simp)
      simp only [] at hsame e1 e2 e3 e4
      obtain ⟨_, _, _, _, s5, s6⟩ := hsame
      simp at e3 e4; subst e3; subst e4
      refine ⟨s5, s6, hecdh, asset, value, gen, vc, e1, e2, ?_, e6, ?_, e8⟩
      · rw [s5]; exact e5
      · rw [s6]; exact e7

/-- consequence: blinding is a function of (seed, inputs, the outputs' script / value / asset / blinding key) only —
    blinding state left over from an earlier run (factors, commitments, proofs of the outputs to be blinded) has
    no influence on the factors -/
theorem blind_ignores_stale_factors (sha : Bytes → Bytes) (ts : Bytes) (i : Nat) (o : BlindOut) (x y : Option Bytes)
    (hs : o.selected = true) :
    withFactors sha ts i { o with abf := x, vbf := y } = withFactors sha ts i o := by
  have : ({ o with abf := x, vbf := y } : BlindOut).selected = true := by simpa [BlindOut.selected] using hs
  simp [withFactors, hs, this]

/-- the seed of the transaction binds the seed, every outpoint and every output script -/
theorem txseed_def (sha : Bytes → Bytes) (seed : Bytes) (ins : List BlindIn) (outs : List BlindOut) :
    txseed sha seed ins outs = taggedHash sha "liquid/txseed"
      (seed ++ ins.flatMap (fun i => i.txid.reverse ++ leN 4 i.vout) ++ outs.flatMap (fun o => scriptSer o.spk)) := rfl



/-! ## 4. Balance, relative to the library's specified algebra (hypothesis `ZkpLaws`, never an axiom) -/

section balance
variable {R M : Type} [CommRing R] [AddCommGroup M] [Module R M]

/-- Σ commit(inputs) − Σ commit(blinded outputs) = Σ plain(inputs) − Σ plain(blinded outputs) for exactly the values
    and factors `blind` hands to `pedersen_blind_generator_blind_sum` and the last factor it gets back: the blinding
    cancels, what remains is the unblinded amount the explicit outputs and the fee must account for -/
theorem balance {Z : Zkp} {A : ZkpAlg R M} (L : ZkpLaws Z A) (sha : Bytes → Bytes) (seed : Bytes)
    (ins : List BlindIn) (outs res : List BlindOut) (h : blind Z sha seed ins outs = some res) (assets : List Bytes) :
    ∃ a lastVbf, sumArgs ins (assignFactors sha (txseed sha seed ins outs) 0 outs) = some a
      ∧ Z.blindSum a.vals a.abfs a.vbfs a.nIn = some lastVbf
      ∧ (assets.length = a.vals.length →
          let es : List (Entry R) := mkEntries A a.vals assets a.abfs (setLast a.vbfs lastVbf)
          ((es.take a.nIn).map (Entry.commit A)).sum - ((es.drop a.nIn).map (Entry.commit A)).sum
            = ((es.take a.nIn).map (Entry.plain A)).sum - ((es.drop a.nIn).map (Entry.plain A)).sum) :=
  balance_of_blind L sha seed ins outs res h assets

/-- Σ commit(inputs) = Σ commit(blinded outputs) + Σ v·H(asset) over explicit outputs and fee, given value
    conservation and cancelling blinding terms -/
theorem balance_fee (A : ZkpAlg R M) (ins outs explicit : List (Entry R))
    (h : (ins.map Entry.term).sum = (outs.map Entry.term).sum)
    (hv : (ins.map (Entry.plain A)).sum = (outs.map (Entry.plain A)).sum + (explicit.map (Entry.plain A)).sum) :
    (ins.map (Entry.commit A)).sum = (outs.map (Entry.commit A)).sum + (explicit.map (Entry.plain A)).sum :=
  balance_with_fee A ins outs explicit h hv

/-- the commitment `blind` stores for an output decodes to `v·(H(asset) + abf·G) + vbf·G` -/
theorem commitment_decodes {Z : Zkp} {A : ZkpAlg R M} (L : ZkpLaws Z A) (asset abf vbf gen c : Bytes) (v : Nat)
    (hg : Z.generatorGenerateBlinded asset abf = some gen) (hc : Z.pedersenCommit vbf v gen = some c) :
    A.point c = Entry.commit A { v := v, asset := asset, abf := A.scalar abf, vbf := A.scalar vbf } :=
  commit_decodes L asset abf vbf gen c v hg hc

end balance

/-- non-vacuity of the balance hypotheses: integers as scalars and points, one input of 10 split into 7 + 3 -/
example : (([{ v := 10, asset := [1], abf := 5, vbf := 11 }] : List (Entry Int)).map Entry.term).sum
    = (([{ v := 7, asset := [1], abf := 2, vbf := 4 }, { v := 3, asset := [1], abf := 9, vbf := 16 }] : List (Entry Int)).map Entry.term).sum := by
  decide

/-- a toy library over the integers (points and scalars are integers, a point `n` is represented by `n` zero bytes):
    shows that the generator / commitment laws of `ZkpLaws` are satisfiable by non-trivial functions (its blind-sum
    never answers, so that law holds vacuously here; `balance_fee` has its own numeric example above) -/
def toyAlg : ZkpAlg Int Int := { G := 1, H := fun t => (ofBe t : Int), scalar := fun b => (ofBe b : Int), point := fun b => (b.length : Int) }

def toyZkp : Zkp :=
  { nullZkp with
    generatorGenerateBlinded := fun a r => some (List.replicate (ofBe a + ofBe r) 0)
    pedersenCommit := fun vbf v gen => some (List.replicate (v * gen.length + ofBe vbf) 0) }

example : ZkpLaws toyZkp toyAlg where
  generator := by
    intro asset abf g h
    simp [toyZkp] at h
    subst h
    simp [toyAlg]
  commit := by
    intro vbf v gen c h
    simp [toyZkp] at h
    subst h
    simp [toyAlg]
  blindSum := by
    intro vals abfs vbfs nIn r h
    simp [toyZkp, nullZkp] at h


/-! ## 5. Unblinding: what is stored was checked against both commitments -/

theorem unblind_sound (Z : Zkp) (utxoAsset utxoValue : Bytes) (rw : Rewound)
    (h : unblindAccept Z utxoAsset utxoValue rw = true) :
    ∃ gen cmt, Z.generatorGenerateBlinded rw.asset rw.abf = some gen ∧ Z.generatorParse utxoAsset = some gen
      ∧ Z.pedersenCommit rw.vbf rw.value gen = some cmt ∧ Z.pedersenCommitmentParse utxoValue = some cmt := by
  unfold unblindAccept at h
  split at h
  · rename_i gen g0 h1 h2
    split at h
    · simp at h
    · rename_i hne
      have : gen = g0 := by simpa using hne
      subst this
      split at h
      · rename_i cmt c0 h3 h4
        have : cmt = c0 := by simpa using h
        subst this
        exact ⟨gen, cmt, h1, h2, h3, h4⟩
      · simp at h
  · simp at h

/-! ## 6. PSET liquid fields are lossless at the key-value level (as C04) -/

/-- input scope: every pair read is written back with identical bytes (utxos as Liquid transactions / outputs, the
    15 proprietary fields, unknown proprietary keys, all bitcoin fields) -/
theorem lscope_lossless_input (ko : KeyOps) (ver : Option Nat) (kvs : List KV) (s0 s : LInScope)
    (hv : ver = some 2 ∨ InSeeded s0.base) (hne : ∀ kv ∈ kvs, kv.1 ≠ [])
    (h : LInScope.addPairs ko s0 kvs = some s) : ∀ kv ∈ kvs, kv ∈ s.pairs ver :=
  (LInScope.addPairs_lossless ko ver kvs s0 s hv hne h).1

/-- output scope: every pair read is written back with identical value under the key of the PSET's version (both
    spellings of a field are read, `canonKey` is the one written) -/
theorem lscope_lossless_output (ko : KeyOps) (ver : Option Nat) (kvs : List KV) (s0 s : LOutScope)
    (hv : ver = some 2 ∨ LOutSeeded s0) (hne : ∀ kv ∈ kvs, kv.1 ≠ [])
    (h : LOutScope.addPairs ko s0 kvs = some s) :
    (∀ kv ∈ kvs, (LOutField.canonKey ver kv.1, kv.2) ∈ s.pairsL ver)
    ∧ (s.valueConf = none → s.pairs ver = some (s.pairsL ver)) := by
  refine ⟨(LOutScope.addPairs_lossless ko ver kvs s0 s hv hne h).1, ?_⟩
  intro hc
  simp [LOutScope.pairs_eq, hc]

/-- a field given twice (for outputs: also once in each spelling) is refused, an integer field of the wrong length
    is refused — nothing is silently overwritten or re-sized -/
theorem lscope_duplicate_rejected (ko : KeyOps) (si : LInScope) (so : LOutScope) (k v : Bytes)
    (hl : isLiquidKey k = true) :
    (∀ f, LInField.ofKey k = some f → (lget si.lf f).isSome = true → LInScope.addPair ko si k v = none)
    ∧ (∀ f, LOutField.ofKey k = some f → (lget so.lf f).isSome = true → LOutScope.addPair ko so k v = none)
    ∧ (∀ f n, LInField.ofKey k = some f → f.len = some n → v.length ≠ n → LInScope.addPair ko si k v = none) :=
  ⟨fun f hf hs => LInScope.duplicate_field_rejected ko si k v f hl hf hs,
   fun f hf hs => LOutScope.duplicate_field_rejected ko so k v f hl hf hs,
   fun f n hf hn hv => LInScope.wrong_length_rejected ko si k v f n hl hf hn hv⟩

/-- the keys are the ones of the ELIP / Elements proprietary namespaces -/
theorem liquid_keys :
    LInField.key .value = [0xfc, 0x08, 0x65, 0x6c, 0x65, 0x6d, 0x65, 0x6e, 0x74, 0x73, 0x00]
    ∧ LInField.key .rangeProof = [0xfc, 0x04, 0x70, 0x73, 0x65, 0x74, 0x0e]
    ∧ LOutField.key true .valueCommitment = [0xfc, 0x04, 0x70, 0x73, 0x65, 0x74, 0x01]
    ∧ LOutField.key false .valueCommitment = [0xfc, 0x08, 0x65, 0x6c, 0x65, 0x6d, 0x65, 0x6e, 0x74, 0x73, 0x00]
    ∧ LOutField.key true .assetProof = [0xfc, 0x04, 0x70, 0x73, 0x65, 0x74, 0x0a] := by decide

-- The whole-PSET composition (`pset_parse_lossless`: framing, scope counts, global scope, version-0 transaction identity
-- outside the D53 region with the witness `pset_v0_tx_dropped_D53`), key uniqueness for whole scopes in what is read
-- (`lscope_keys_nodup_input/output`) and in what `write_to` emits (`lscope_written_perm_input/output`: the emitted
-- pairs are a permutation of the pairs read) are proved in Props/C18X.lean.

/-! ## 7. blech32 and confidential addresses -/

open Model.Blech32 Embit.Blech32 in
/-- a created checksum always verifies (any prefix, any data; polymod linearity over GF(2), no `bv_decide`) -/
theorem blech32_create_verify (hrp data : List Nat) :
    verifyChecksum hrp (data ++ createChecksum hrp data) = true := create_verify hrp data

open Model.Blech32 Embit.Blech32 in
/-- `blech32.decode(hrp, blech32.encode(hrp, ver, prog)) = (ver, prog)` for every byte string `prog` -/
theorem blech32_encode_decode (hrp : List Nat) (witver : Nat) (witprog addr : List Nat) (hh : HrpOk hrp)
    (hv : witver < 32) (hp : ∀ b ∈ witprog, b < 256) (he : Blech32.encode hrp witver witprog = some addr) :
    Blech32.decode hrp addr = some (witver, some witprog) := encode_decode hrp witver witprog addr hh hv hp he

open Embit.Blech32 in
/-- a confidential address of a witness-version-0 script decodes to the script and the blinding key
    (PARTIAL: version 0 only — see the witness below) -/
theorem confidential_address_roundtrip_partial (validSec : Bytes → Bool) (hrp : List Nat) (prog pub : Bytes)
    (addr : List Nat) (hh : HrpOk hrp) (hpub : pub.length = 33) (hvalid : validSec pub = true)
    (hprog : prog.length < 256)
    (he : confAddress hrp (0x00 :: UInt8.ofNat prog.length :: prog) pub = some addr) :
    confAddrDecode validSec hrp addr = some (0x00 :: UInt8.ofNat prog.length :: prog, pub) :=
  confAddr_roundtrip validSec hrp prog pub addr hh hpub hvalid hprog he

/-- witness for the excluded region: `addr_decode` ignores the witness version, so no address of a version ≥ 1
    script (first byte ≠ 0, e.g. taproot `0x51`) can decode to its script -/
theorem confidential_address_version_ignored (validSec : Bytes → Bool) (hrp addr : List Nat) (sc pub : Bytes)
    (h : confAddrDecode validSec hrp addr = some (sc, pub)) : sc.head? = some 0x00 :=
  confAddrDecode_version_ignored validSec hrp addr sc pub h

-- The base58 branch (`bp2sh` confidential and `p2sh` unconfidential addresses, incl. the dispatch of `addr_decode`) is
-- proved in Props/C18X.lean (`confidential_p2sh_address_roundtrip`, `p2sh_address_roundtrip`).

/-! ## 8. SLIP-77 -/

/-- the derivation is the one SLIP-0077 prescribes, for every HMAC -/
theorem slip77_spec (hmac512 hmac256 : Bytes → Bytes → Bytes) (seed mbk spk : Bytes) :
    slip77Master hmac512 seed
      = (hmac512 ((hmac512 "Symmetric key seed".toUTF8.toList seed).take 32) (0x00 :: "SLIP-0077".toUTF8.toList)).drop 32
    ∧ slip77BlindingKey hmac256 mbk spk = hmac256 mbk spk := ⟨rfl, rfl⟩

/-! ## non-vacuity -/

def exIssuance : Issuance :=
  { nonce := List.replicate 32 1, entropy := List.replicate 32 2, amount := .explicit 5,
    token := .conf (9 :: List.replicate 32 3) }

/-- one input with issuance and peg-in flag and a witness, one explicit and one confidential output -/
def exLTx : LTx :=
  { version := 2, locktime := 0,
    vin := [{ txid := List.replicate 32 7, vout := 1, scriptSig := [], sequence := 0xfffffffd, isPegin := true,
              issuance := some exIssuance, witness := { amountProof := [1, 2], scriptWitness := [[3]] } }],
    vout := [{ asset := List.replicate 32 4, value := .explicit 1000, nonce := none, spk := [] },
             { asset := 0x0a :: List.replicate 32 5, value := .conf (0x08 :: List.replicate 32 6),
               nonce := some (0x02 :: List.replicate 32 8), spk := [0x51],
               witness := { surjProof := [9], rangeProof := [10, 11] } }] }

set_option maxRecDepth 100000 in
example : LTx.parse (LTx.ser exLTx) = some exLTx := by decide +kernel
set_option maxRecDepth 100000 in
example : LTx.ser exLTx = encode exLTx := by decide +kernel
example : hasWitness exLTx = true := by decide
set_option maxRecDepth 100000 in
example : LTx.parse ((LTx.ser exLTx).take 100) = none := by decide +kernel
example : WFIndex { txid := [], vout := 1, scriptSig := [], sequence := 0, isPegin := true, issuance := some exIssuance } :=
  Or.inl ⟨by decide, by decide⟩

def trivialKo : KeyOps := { validSec := fun _ => true, validX := fun _ => true, validXpub := fun _ => true }

/-- an input scope with a value, an issuance amount of ZERO and an unknown proprietary key: all three are written back -/
example : (LInScope.addPairs trivialKo {} [(LInField.key .value, leN 8 7), (LInField.key .issueValue, leN 8 0),
    (psetTag ++ [0x7f], [1])]).map (fun s => s.pairs (some 2))
    = some [(psetTag ++ [0x7f], [1]), (LInField.key .value, leN 8 7), (LInField.key .issueValue, leN 8 0)] := by decide

/-- an output scope reading the legacy spelling writes the PSETv2 spelling; reading both is refused -/
example : ((LOutScope.addPairs trivialKo {} [(ek 0x00, [8, 1])]).map (fun s => s.pairsL (some 2)))
    = some [(pk 0x01, [8, 1])] := by decide
example : LOutScope.addPairs trivialKo {} [(ek 0x00, [8, 1]), (pk 0x01, [8, 1])] = none := by decide

/-- verify() passing on a fully stated output under a library that agrees -/
def agreeZkp : Zkp :=
  { nullZkp with
    generatorParse := fun _ => some [1], generatorGenerateBlinded := fun _ _ => some [1],
    pedersenCommit := fun _ _ _ => some [2], pedersenCommitmentSerialize := fun _ => some [8, 1] }

def fullView : VerifyView :=
  { asset := some [7], assetCommitment := some [0x0a], abf := some [3], assetProof := none, value := some 0,
    valueCommitment := some [8, 1], vbf := some [4], valueProof := none }

example : verifyView agreeZkp fullView = true := by decide
example : verifyView nullZkp fullView = false := by decide

end Embit.Props.C18
