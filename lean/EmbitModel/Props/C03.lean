import EmbitModel.Proofs.TxRoundtrip
/-
  C03 — Transactions round-trip through the Bitcoin wire format without change.
  Property theorems only. `Model.*` is the model of embit (tied to /repo by the correspondence check),
  `Spec.Wire.*` is the wire format.
-/
namespace Embit.Props.C03
open Embit Model Spec.Wire

/-- serialisation equals the wire encoding (legacy form, BIP144 form exactly when some input carries a
    witness) — for every transaction, no size hypothesis. -/
theorem ser_eq_wire (t : Tx) : Tx.ser t = encode t := Tx.ser_eq_encode t

/-- BIP144 form is used exactly when some input carries a witness -/
theorem ser_form (t : Tx) :
    Tx.ser t = if t.vin.any (fun i => !i.witness.isEmpty) then encodeWitness t else encodeLegacy t :=
  Tx.ser_eq_encode t

/-- txid = reversed double-SHA256 of the witness-stripped encoding, for every hash function -/
theorem txid_spec (sha : Bytes → Bytes) (t : Tx) : Tx.txid sha t = Spec.Wire.txid sha t := by
  have : TxIn.ser = encIn := funext TxIn.ser_eq
  simp [Tx.txid, Tx.hash, Spec.Wire.txid, Tx.hashPreimage, encodeLegacy, this]
  rfl

/-- serialise-then-parse is the identity, field for field -/
theorem parse_ser (t : Tx) (h : WF t) : Tx.parse (Tx.ser t) = some t := by
  have := Tx.read_ser t [] h
  simp only [List.append_nil] at this
  simp [Tx.parse, parseAll, this]

/-- anything the parser accepts is the wire encoding of the transaction it returns
    (so it re-encodes to the same bytes), and that transaction is well-formed -/
theorem parse_sound (b : Bytes) (t : Tx) (h : Tx.parse b = some t) : Decodes b t := by
  unfold Tx.parse parseAll at h
  split at h
  · rename_i x hx
    simp at h; subst h
    obtain ⟨hb, hwf⟩ := Tx.read_sound hx
    refine ⟨hwf, ?_⟩
    rw [← ser_eq_wire]; simp [hb]
  · simp at h

/-- the parser accepts exactly the wire format -/
theorem parse_iff (b : Bytes) (t : Tx) : Tx.parse b = some t ↔ Decodes b t := by
  constructor
  · exact parse_sound b t
  · rintro ⟨hwf, he⟩
    rw [← he, ← ser_eq_wire]
    exact parse_ser t hwf

theorem reencode (b : Bytes) (t : Tx) (h : Tx.parse b = some t) : Tx.ser t = b := by
  rw [ser_eq_wire]; exact (parse_sound b t h).2

/-- the wire format is unambiguous: one byte string, one transaction -/
theorem wire_unique (b : Bytes) (t t' : Tx) (h : Decodes b t) (h' : Decodes b t') : t = t' := by
  have a := (parse_iff b t).mpr h
  have a' := (parse_iff b t').mpr h'
  rw [a] at a'
  exact Option.some.inj a'

/-- every proper truncation of a valid encoding is rejected -/
theorem truncated_rejected (b : Bytes) (t : Tx) (h : Decodes b t) (k : Nat) (hk : k < b.length) :
    Tx.parse (b.take k) = none := by
  cases hp : Tx.parse (b.take k) with
  | none => rfl
  | some t' =>
    exfalso
    obtain ⟨hwf', he'⟩ := parse_sound _ _ hp
    -- b = encode t' ++ drop k b, and reading b gives (t', drop k b) — so the remainder must be empty
    have hb : b = Tx.ser t' ++ b.drop k := by
      rw [ser_eq_wire, he', List.take_append_drop]
    have r1 := Tx.read_ser t' (b.drop k) hwf'
    rw [← hb] at r1
    have r2 : Tx.parse b = some t := (parse_iff b t).mpr h
    unfold Tx.parse parseAll at r2
    rw [r1] at r2
    split at r2
    · rename_i x hx
      simp at hx
      have := hx.2; omega
    · simp at r2

/-- every extension of a valid encoding by trailing bytes is rejected -/
theorem trailing_rejected (b : Bytes) (t : Tx) (h : Decodes b t) (e : Bytes) (he : e ≠ []) :
    Tx.parse (b ++ e) = none := by
  obtain ⟨hwf, hb⟩ := h
  have r1 := Tx.read_ser t e hwf
  rw [ser_eq_wire, hb] at r1
  unfold Tx.parse parseAll
  rw [r1]
  cases e with
  | nil => exact absurd rfl he
  | cons x xs => rfl

/-- a non-minimal length prefix is never accepted by the CompactSize reader used everywhere -/
theorem compact_canonical (b r : Bytes) (n : Nat) (h : Compact.read b = some (n, r)) :
    b = Compact.enc n ++ r := (Compact.read_sound h).1

/-- a BIP144 encoding whose witnesses are all empty ("superfluous witness record") is rejected:
    what is accepted in the extended form always has a witness -/
theorem superfluous_witness_rejected (b : Bytes) (t : Tx) (h : Tx.parse b = some t)
    (hm : ∃ v rest, b = leN 4 v ++ 0x00 :: rest) : hasWitness t = true := by
  obtain ⟨hwf, he⟩ := parse_sound b t h
  cases hw : hasWitness t with
  | true => rfl
  | false =>
    exfalso
    obtain ⟨v, rest, hb⟩ := hm
    have hn := hwf.nin
    have hlt := hwf.ninLt
    rw [encode, hw] at he
    simp only [Bool.false_eq_true, if_false, encodeLegacy, List.append_assoc] at he
    rw [hb] at he
    have h4 := List.append_inj he (by simp)
    have h5 := h4.2
    -- first byte of enc (n ≥ 1) is not 0
    unfold Compact.enc at h5
    split at h5
    · simp at h5
      have := congrArg UInt8.toNat h5.1
      simp [UInt8.toNat_ofNat'] at this; omega
    · split at h5
      · simp at h5
      · split at h5 <;> simp at h5

/-! ### the defect that was repaired (kept as a theorem about the old reader) -/

/-- the lenient reader embit used accepted a truncated and a non-minimal count -/
theorem lenient_accepts_noncanonical :
    Compact.readLenient [0xfd, 0x01, 0x00] = some (1, []) ∧ Compact.readLenient [0xfd, 0x01] = some (1, [])
    ∧ Compact.read [0xfd, 0x01, 0x00] = none ∧ Compact.read [0xfd, 0x01] = none := by
  decide

/-! ### non-vacuity -/

def exLegacy : Tx :=
  { version := 2, locktime := 0,
    vin := [{ txid := List.replicate 32 7, vout := 1, scriptSig := [0x51], sequence := 0xfffffffe, witness := [] }],
    vout := [{ value := 5000, spk := [0x6a] }] }

def exSegwit : Tx :=
  { exLegacy with vin := [{ txid := List.replicate 32 7, vout := 1, scriptSig := [], sequence := 0, witness := [[1, 2], []] }] }

example : WF exLegacy := by
  refine ⟨by decide, by decide, by decide, by decide, by decide, ?_, ?_⟩
  · intro i hi; simp [exLegacy] at hi; subst hi
    exact ⟨by decide, by decide, by decide, by decide, by decide, by simp⟩
  · intro o ho; simp [exLegacy] at ho; subst ho; exact ⟨by decide, by decide⟩

example : Tx.parse (Tx.ser exSegwit) = some exSegwit := by decide
example : Tx.parse (Tx.ser exLegacy) = some exLegacy := by decide
example : hasWitness exSegwit = true ∧ hasWitness exLegacy = false := by decide

end Embit.Props.C03
