import EmbitModel.Props.C16
import EmbitModel.Proofs.Slip39Generate
/-
  C16 (audit item A11, issues I-16.1 / I-16.2) — the hypotheses that were never discharged.

  1. `generate_shares` SUCCEEDS for every valid parameter set and every sufficiently long tape of random bytes; the
     exact number of `randint` draws is stated (`generate_draws`) and the success condition is an equivalence
     (`generate_succeeds_iff`), so `C16.generate_then_recover` / `C16.n_distinct_shares` are no longer conditional on an
     unexplained success hypothesis (`generate_then_recover_total`, `n_distinct_shares_total`).
  2. One kernel-evaluated run generate → recover (2-of-3, 16-byte secret, toy primitives).
  3. What `C16.mixed_sets_refused` does NOT say: at threshold 1 SLIP-0039 has no digest share, so two header-identical
     shares of DIFFERENT secrets are accepted and one of the two secrets is returned
     (`mixed_threshold_one_returns_first`, `mixed_threshold_one_generated`). This is the behaviour of the standard, not
     a defect of embit; the only mixes refused at threshold 1 are those the header / index checks catch
     (`mixed_threshold_one_same_index_refused`, `C16.mixed_sets_refused`).

  No secrecy statement is made anywhere in C16: "fewer shares never yield a secret" is proved as REFUSAL
  (`C16.fewer_refused`), not as independence of k − 1 shares from the secret.
-/
namespace Embit.Props.C16Y
open Embit Embit.Model.Slip39

/-! ### the tape -/

/-- **exact number of `randint` draws of `generate_shares`** for a secret of `L` bytes and threshold `k`:
    one draw for the identifier (`randint(0, 32767)`); for k ≥ 2 then `L − 4` bytes for the digest share's random part
    and `L` bytes for each of the `k − 2` random shares; nothing more for k = 1 (every share is the encrypted secret).
    k = 1: 1;  k = 2: L − 3;  k ≥ 2 in general: 1 + (L − 4) + (k − 2)·L.  `n` does not matter. -/
theorem generate_draws (L k : Nat) :
    generateDraws L k = 1 + splitDraws L k ∧
    splitDraws L k = (if k = 1 then 0 else (L - 4) + (k - 2) * L) ∧
    generateDraws L 1 = 1 ∧ generateDraws 16 2 = 13 ∧ generateDraws 32 2 = 29 ∧ generateDraws 16 3 = 29 ∧
    generateDraws 32 16 = 477 :=
  ⟨rfl, rfl, rfl, rfl, rfl, rfl, rfl⟩

/-- **`generate_shares` succeeds** for every 16- or 32-byte secret, every 1 ≤ k ≤ n ≤ 16, every passphrase and
    exponent, whenever the tape starts with an identifier below 2^15 followed by at least `splitDraws` entries, the
    first `splitDraws` of them bytes (< 256; later entries are never looked at) — for every PBKDF2 returning the
    requested length and every HMAC with ≥ 4 output bytes (the hypotheses of `C16.generate_then_recover`) -/
theorem generate_succeeds (P : Prims) (hF : ∀ pw s it n, (P.pbkdf2 pw s it n).length = n)
    (hH : ∀ key msg, 4 ≤ (P.hmac key msg).length)
    (secret : Bytes) (k n : Nat) (pass : Bytes) (e id : Nat) (rest : List Nat)
    (hsz : secret.length = 16 ∨ secret.length = 32) (hk : 1 ≤ k) (hkn : k ≤ n) (hn : n ≤ 16) (hid : id < 2 ^ 15)
    (hlen : (if k = 1 then 0 else (secret.length - 4) + (k - 2) * secret.length) ≤ rest.length)
    (hbytes : ∀ t ∈ rest.take (if k = 1 then 0 else (secret.length - 4) + (k - 2) * secret.length), t < 256) :
    ∃ ms, generateShares P secret k n pass e (id :: rest) = some ms :=
  Option.isSome_iff_exists.mp
    ((generateShares_isSome_iff P hF hH secret k n pass e (id :: rest)).mpr
      ⟨hsz, hk, hkn, hn, id, rest, rfl, by omega, hlen, hbytes⟩)

/-- … and ONLY then: the model of `generate_shares` returns shares if and only if the secret has 16 or 32 bytes,
    1 ≤ k ≤ n ≤ 16, the first draw is below 65 536 (`id.to_bytes(2, "big")`; the caller's `randint(0, 32767)` gives
    < 2^15) and the next `splitDraws` draws exist and are bytes.  In particular a tape one entry short fails, so the
    count of `generate_draws` is exact; the exponent is not constrained by the model (CPython's PBKDF2 refuses
    iteration counts ≥ 2^31, i.e. exponents ≥ 20 — the primitives are parameters here). -/
theorem generate_succeeds_iff (P : Prims) (hF : ∀ pw s it n, (P.pbkdf2 pw s it n).length = n)
    (hH : ∀ key msg, 4 ≤ (P.hmac key msg).length)
    (secret : Bytes) (k n : Nat) (pass : Bytes) (e : Nat) (tape : List Nat) :
    (generateShares P secret k n pass e tape).isSome ↔
      ((secret.length = 16 ∨ secret.length = 32) ∧ 1 ≤ k ∧ k ≤ n ∧ n ≤ 16 ∧
       ∃ id rest, tape = id :: rest ∧ id < 65536 ∧ splitDraws secret.length k ≤ rest.length ∧
         ∀ t ∈ rest.take (splitDraws secret.length k), t < 256) :=
  generateShares_isSome_iff P hF hH secret k n pass e tape

/-- a tape shorter than `generateDraws` makes `generate_shares` fail (the injected `randint` runs dry) -/
theorem generate_short_tape_fails (P : Prims) (hF : ∀ pw s it n, (P.pbkdf2 pw s it n).length = n)
    (hH : ∀ key msg, 4 ≤ (P.hmac key msg).length)
    (secret : Bytes) (k n : Nat) (pass : Bytes) (e : Nat) (tape : List Nat)
    (hshort : tape.length < generateDraws secret.length k) : generateShares P secret k n pass e tape = none := by
  cases h : generateShares P secret k n pass e tape with
  | none => rfl
  | some ms =>
    obtain ⟨_, _, _, _, id, rest, rfl, _, hl, _⟩ :=
      (generateShares_isSome_iff P hF hH secret k n pass e tape).mp (by rw [h]; rfl)
    simp only [generateDraws, List.length_cons] at hshort
    omega

/-- the same for the raw `split_secret` (no hypothesis on the primitives) -/
theorem split_succeeds_iff (P : Prims) (secret : Bytes) (k n : Nat) (tape : List Nat) :
    (splitSecret P secret k n tape).isSome ↔
      (1 ≤ k ∧ k ≤ n ∧ n ≤ 16 ∧ (secret.length = 16 ∨ secret.length = 32) ∧
       splitDraws secret.length k ≤ tape.length ∧ ∀ t ∈ tape.take (splitDraws secret.length k), t < 256) :=
  splitSecret_isSome_iff P secret k n tape

/-! ### the pipeline theorems of `Props/C16.lean` without the success hypothesis -/

/-- **generate, then recover — unconditional**: for valid parameters and a sufficient tape `generate_shares` returns
    n pairwise distinct mnemonics, and `recover_mnemonic` on ANY ≥ k distinct ones of them returns the secret -/
theorem generate_then_recover_total (P : Prims) (hF : ∀ pw s it n, (P.pbkdf2 pw s it n).length = n)
    (hH : ∀ key msg, 4 ≤ (P.hmac key msg).length)
    (secret : Bytes) (k n : Nat) (pass : Bytes) (e id : Nat) (rest : List Nat)
    (hsz : secret.length = 16 ∨ secret.length = 32) (hk : 1 ≤ k) (hkn : k ≤ n) (hn : n ≤ 16) (hid : id < 2 ^ 15)
    (he : e < 32)
    (hlen : (if k = 1 then 0 else (secret.length - 4) + (k - 2) * secret.length) ≤ rest.length)
    (hbytes : ∀ t ∈ rest.take (if k = 1 then 0 else (secret.length - 4) + (k - 2) * secret.length), t < 256) :
    ∃ ms, generateShares P secret k n pass e (id :: rest) = some ms ∧ ms.length = n ∧ ms.Nodup ∧
      ∀ sub : List (List Nat), (∀ m ∈ sub, m ∈ ms) → sub.Nodup → k ≤ sub.length →
        recoverShares P sub pass = some secret := by
  obtain ⟨ms, hms⟩ := generate_succeeds P hF hH secret k n pass e id rest hsz hk hkn hn hid hlen hbytes
  have hid' : ∀ id' rest', id :: rest = id' :: rest' → id' < 2 ^ 15 := by
    intro id' rest' h; rw [← (List.cons.inj h).1]; exact hid
  obtain ⟨h1, h2⟩ := C16.n_distinct_shares P hH secret k n pass e _ ms hms hid' he
  exact ⟨ms, hms, h1, h2, fun sub hsub hnd hks =>
    C16.generate_then_recover P hF hH secret k n pass e _ ms hms hid' he sub hsub hnd hks⟩

/-- **splitting yields exactly n pairwise distinct share mnemonics — unconditional** -/
theorem n_distinct_shares_total (P : Prims) (hF : ∀ pw s it n, (P.pbkdf2 pw s it n).length = n)
    (hH : ∀ key msg, 4 ≤ (P.hmac key msg).length)
    (secret : Bytes) (k n : Nat) (pass : Bytes) (e id : Nat) (rest : List Nat)
    (hsz : secret.length = 16 ∨ secret.length = 32) (hk : 1 ≤ k) (hkn : k ≤ n) (hn : n ≤ 16) (hid : id < 2 ^ 15)
    (he : e < 32)
    (hlen : (if k = 1 then 0 else (secret.length - 4) + (k - 2) * secret.length) ≤ rest.length)
    (hbytes : ∀ t ∈ rest.take (if k = 1 then 0 else (secret.length - 4) + (k - 2) * secret.length), t < 256) :
    ∃ ms, generateShares P secret k n pass e (id :: rest) = some ms ∧ ms.length = n ∧ ms.Nodup := by
  obtain ⟨ms, h, h1, h2, _⟩ :=
    generate_then_recover_total P hF hH secret k n pass e id rest hsz hk hkn hn hid he hlen hbytes
  exact ⟨ms, h, h1, h2⟩

/-! ### threshold 1: what "mixed sets are refused" cannot cover -/

/-- **mixed sets at threshold 1 return the first secret — by design of the standard.**  SLIP-0039 adds the digest
    share only for thresholds ≥ 2; at threshold 1 every share carries the (encrypted) secret itself and there is
    nothing to check it against: no implementation can detect a foreign share by a digest there (a single foreign
    share with a known header is simply a valid 1-of-n share of another secret).  Model of
    `ShareSet([s1, s2]).recover(passphrase)` (slip39.py: `share_data.append((i, group[0].bytes))`,
    `return self.decrypt(share_data[0][1], passphrase)`): two shares with the same identifier, exponent, group
    threshold 1, group count, length and member threshold 1, whose VALUES ARE ARBITRARY (in particular different,
    i.e. belonging to different secrets), are accepted as long as their (group index, member index) differ, and the
    result is the decryption of ONE of them: the first share in group order — the one with the smaller group index,
    the first in the list when both are in the same group.  The other share is never looked at.
    This delimits `C16.mixed_sets_refused` (header consistency only) and `C16.bad_digest_refused` (threshold ≥ 2).
    The standard itself calls such a pair invalid for its SIZE (more shares than the threshold,
    `mixed_threshold_one_invalid_for_standard`); embit accepts supersets (`C16X.two_level_sufficient_set_recovers`),
    which is why the pair reaches `recover` at all. -/
theorem mixed_threshold_one_returns_first (P : Prims) (s1 s2 : Share) (pass : Bytes)
    (hid : s2.id = s1.id) (he : s2.exponent = s1.exponent)
    (hgt1 : s1.groupThreshold = 1) (hgt2 : s2.groupThreshold = 1) (hgc : s2.groupCount = s1.groupCount)
    (hsbl : s2.shareBitLength = s1.shareBitLength) (hm1 : s1.memberThreshold = 1) (hm2 : s2.memberThreshold = 1)
    (hg1 : s1.groupIndex < s1.groupCount) (hg2 : s2.groupIndex < s1.groupCount)
    (hx : (s1.groupIndex, s1.memberIndex) ≠ (s2.groupIndex, s2.memberIndex)) :
    (ShareSet.new? [s1, s2]).bind (fun ss => ss.recover P pass) =
      decrypt P (if s2.groupIndex < s1.groupIndex then s2 else s1).bytes s1.id s1.exponent pass :=
  recover_pair_threshold_one P s1 s2 pass hid he hgt1 hgt2 hgc hsbl hm1 hm2 hg1 hg2 hx

/-- the same pair for the standard: NOT a valid set (a valid set holds exactly `group_threshold` groups and exactly
    `member_threshold` members per group, `Spec/Slip39Groups.lean`), so the standard's combination refuses it — by
    counting, not by a digest; embit accepts more shares than needed and therefore answers -/
theorem mixed_threshold_one_invalid_for_standard (P : Spec.Slip39.Prims) (s1 s2 : Share) (pass : Bytes)
    (hgt1 : s1.groupThreshold = 1) (hm1 : s1.memberThreshold = 1) (hgc16 : s1.groupCount ≤ 16)
    (hg1 : s1.groupIndex < s1.groupCount) (hg2 : s2.groupIndex < s1.groupCount) :
    Spec.Slip39.validSet ([s1, s2].map Share.toFields) = false ∧
    Spec.Slip39.combineShares P ([s1, s2].map Share.toFields) pass = none :=
  ⟨pair_threshold_one_invalid s1 s2 hgt1 hm1 hgc16 hg1 hg2,
   combine_invalid_none P _ pass (pair_threshold_one_invalid s1 s2 hgt1 hm1 hgc16 hg1 hg2)⟩

/-- the general form: a share set with group threshold 1 whose shares all have member threshold 1 (any number of
    shares, any values) is answered with the decryption of the first given share among those with the smallest group
    index — no digest is involved -/
theorem threshold_one_no_digest (P : Prims) (ss : ShareSet) (pass : Bytes) (hgt : ss.groupThreshold = 1)
    (hmt : ∀ s ∈ ss.shares, s.memberThreshold = 1) (hgi : ∀ s ∈ ss.shares, s.groupIndex < ss.groupCount)
    (s0 : Share) (hmin : ∀ s ∈ ss.shares, s0.groupIndex ≤ s.groupIndex)
    (hfirst : (ss.shares.filter fun s => s.groupIndex == s0.groupIndex).head? = some s0) :
    ss.recover P pass = decrypt P s0.bytes ss.id ss.exponent pass :=
  recover_threshold_one P ss pass hgt hmt hgi s0 hmin hfirst

/-- … through the whole pipeline: `generate_shares(secret1, 1, n)` and `generate_shares(secret2, 1, n)` with the same
    identifier, exponent and passphrase (secrets of the same size, otherwise the length check refuses); mnemonic
    number i of the first and number j ≠ i of the second set, in this order, are accepted by `recover_mnemonic`, which
    returns `secret1` when i < j and `secret2` when j < i — whatever the other secret is -/
theorem mixed_threshold_one_generated (P : Prims) (hF : ∀ pw s it n, (P.pbkdf2 pw s it n).length = n)
    (sec1 sec2 : Bytes) (n : Nat) (pass : Bytes) (e id : Nat) (tape1 tape2 : List Nat) (ms1 ms2 : List (List Nat))
    (h1 : generateShares P sec1 1 n pass e (id :: tape1) = some ms1)
    (h2 : generateShares P sec2 1 n pass e (id :: tape2) = some ms2)
    (hsize : sec1.length = sec2.length) (hid : id < 2 ^ 15) (he : e < 32)
    (i j : Nat) (hi : i < n) (hj : j < n) (hij : i ≠ j) (m1 m2 : List Nat)
    (hm1 : ms1[i]? = some m1) (hm2 : ms2[j]? = some m2) :
    recoverShares P [m1, m2] pass = some (if j < i then sec2 else sec1) := by
  obtain ⟨enc1, _, hdec1, _, _, hn1, hp1, hb1⟩ := generate_one_nth P hF sec1 n pass e id tape1 ms1 h1 hid he i hi
  obtain ⟨enc2, _, hdec2, _, _, hn2, hp2, hb2⟩ := generate_one_nth P hF sec2 n pass e id tape2 ms2 h2 hid he j hj
  rw [hm1, Option.some.injEq] at hn1
  rw [hm2, Option.some.injEq] at hn2
  subst hn1 hn2
  have hparse : [(shareOf (sec1.length * 8) id e 1 n (i, enc1)).mnemonic,
      (shareOf (sec2.length * 8) id e 1 n (j, enc2)).mnemonic].mapM Share.parse =
      some [shareOf (sec1.length * 8) id e 1 n (i, enc1), shareOf (sec2.length * 8) id e 1 n (j, enc2)] := by
    simp only [List.mapM_cons, List.mapM_nil, hp1, hp2]; rfl
  have hpair := recover_pair_threshold_one P (shareOf (sec1.length * 8) id e 1 n (i, enc1))
    (shareOf (sec2.length * 8) id e 1 n (j, enc2)) pass rfl rfl rfl rfl rfl (by simp only [shareOf, hsize]) rfl rfl
    hi hj (by simp only [shareOf, ne_eq, Prod.mk.injEq, and_true]; exact hij)
  unfold recoverShares
  rw [hparse]
  show (match ShareSet.new? _ with
    | none => none
    | some ss => ss.recover P pass) = _
  have hbind : ∀ (o : Option ShareSet), (match o with
      | none => none
      | some ss => ss.recover P pass) = o.bind (fun ss => ss.recover P pass) := by
    intro o; cases o <;> rfl
  rw [hbind, hpair]
  by_cases hlt : j < i
  · have : (shareOf (sec2.length * 8) id e 1 n (j, enc2)).groupIndex <
        (shareOf (sec1.length * 8) id e 1 n (i, enc1)).groupIndex := hlt
    rw [if_pos this, if_pos hlt, hb2]; exact hdec2
  · have : ¬ (shareOf (sec2.length * 8) id e 1 n (j, enc2)).groupIndex <
        (shareOf (sec1.length * 8) id e 1 n (i, enc1)).groupIndex := hlt
    rw [if_neg this, if_neg hlt, hb1]; exact hdec1

/-- the only thing that protects a threshold-1 set against a foreign share with the same header: the index check.
    Two shares with the same (group index, member index) are refused by `ShareSet(...)`, whatever they hold — e.g.
    mnemonic number i of both sets above -/
theorem mixed_threshold_one_same_index_refused (s1 s2 : Share) (hg : s2.groupIndex = s1.groupIndex)
    (hm : s2.memberIndex = s1.memberIndex) : ShareSet.new? [s1, s2] = none :=
  pair_same_index_refused s1 s2 hg hm

/-! ### non-vacuity -/

open C16 (toyPrims exSecret)

/-- a second secret for the mixed sets -/
def exSecret2 : Bytes := [0xff, 0x01, 0x02, 0x03, 0x04, 0x05, 0x06, 0x07, 0x08, 0x09, 0x0a, 0x0b, 0x0c, 0x0d, 0x0e, 0x0f]

/-- identifier 12345, then exactly the 12 bytes a 2-of-n split of a 16-byte secret draws -/
def exTape23 : List Nat := [12345, 7, 200, 13, 0, 255, 91, 18, 33, 1, 2, 3, 4]

example : exTape23.length = generateDraws exSecret.length 2 := by decide

set_option maxRecDepth 100000 in
/-- **kernel-evaluated generate → recover** (2-of-3, 16-byte secret, passphrase "ab", exponent 1, toy primitives):
    three distinct 20-word mnemonics; any two of them (any order) and all three return the secret, one alone is
    refused, a tape one draw short makes generation fail -/
theorem generate_recover_example :
    ∃ m0 m1 m2, generateShares toyPrims exSecret 2 3 [97, 98] 1 exTape23 = some [m0, m1, m2] ∧
      m0.length = 20 ∧ [m0, m1, m2].Nodup ∧
      recoverShares toyPrims [m2, m0] [97, 98] = some exSecret ∧
      recoverShares toyPrims [m1, m2] [97, 98] = some exSecret ∧
      recoverShares toyPrims [m0, m1, m2] [97, 98] = some exSecret ∧
      recoverShares toyPrims [m1] [97, 98] = none ∧
      generateShares toyPrims exSecret 2 3 [97, 98] 1 exTape23.dropLast = none := by
  refine ⟨((generateShares toyPrims exSecret 2 3 [97, 98] 1 exTape23).getD []).getD 0 [],
    ((generateShares toyPrims exSecret 2 3 [97, 98] 1 exTape23).getD []).getD 1 [],
    ((generateShares toyPrims exSecret 2 3 [97, 98] 1 exTape23).getD []).getD 2 [], ?_⟩
  decide +kernel

/-- the hypotheses of `generate_succeeds` / `generate_then_recover_total` hold for this run -/
example : (exSecret.length = 16 ∨ exSecret.length = 32) ∧ 1 ≤ 2 ∧ 2 ≤ 3 ∧ 3 ≤ 16 ∧ 12345 < 2 ^ 15 ∧ 1 < 32 ∧
    (if 2 = 1 then 0 else (exSecret.length - 4) + (2 - 2) * exSecret.length) ≤ exTape23.tail.length ∧
    ∀ t ∈ exTape23.tail.take (if 2 = 1 then 0 else (exSecret.length - 4) + (2 - 2) * exSecret.length), t < 256 := by
  decide

set_option maxRecDepth 100000 in
/-- **mixed sets at threshold 1, kernel-evaluated**: 1-of-2 shares of two different secrets with the same identifier;
    share 0 of the first with share 1 of the second returns the FIRST secret in either list order (group order
    decides), share 0 of the second with share 1 of the first returns the SECOND secret, the two shares number 0
    together are refused (duplicate index); the standard calls the two-share set invalid, a single share valid -/
theorem mixed_threshold_one_example :
    ∃ a0 a1 b0 b1, generateShares toyPrims exSecret 1 2 [] 0 [77] = some [a0, a1] ∧
      generateShares toyPrims exSecret2 1 2 [] 0 [77] = some [b0, b1] ∧ exSecret ≠ exSecret2 ∧
      recoverShares toyPrims [a0, b1] [] = some exSecret ∧
      recoverShares toyPrims [b1, a0] [] = some exSecret ∧
      recoverShares toyPrims [a1, b0] [] = some exSecret2 ∧
      recoverShares toyPrims [a0, b0] [] = none ∧
      Spec.Slip39.validSet (([a0, b1].filterMap Share.parse).map Share.toFields) = false ∧
      Spec.Slip39.validSet (([a0].filterMap Share.parse).map Share.toFields) = true := by
  refine ⟨((generateShares toyPrims exSecret 1 2 [] 0 [77]).getD []).getD 0 [],
    ((generateShares toyPrims exSecret 1 2 [] 0 [77]).getD []).getD 1 [],
    ((generateShares toyPrims exSecret2 1 2 [] 0 [77]).getD []).getD 0 [],
    ((generateShares toyPrims exSecret2 1 2 [] 0 [77]).getD []).getD 1 [], ?_⟩
  decide +kernel

/-- the hypotheses of `mixed_threshold_one_returns_first` are satisfiable by two shares with different values -/
example : let s1 : Share := ⟨128, 77, 0, 0, 1, 2, 0, 1, 5⟩; let s2 : Share := ⟨128, 77, 0, 1, 1, 2, 0, 1, 6⟩
    s1.initOk = true ∧ s2.initOk = true ∧ s1.value ≠ s2.value ∧ s2.id = s1.id ∧ s2.exponent = s1.exponent ∧
    s1.groupThreshold = 1 ∧ s2.groupThreshold = 1 ∧ s2.groupCount = s1.groupCount ∧
    s2.shareBitLength = s1.shareBitLength ∧ s1.memberThreshold = 1 ∧ s2.memberThreshold = 1 ∧
    s1.groupIndex < s1.groupCount ∧ s2.groupIndex < s1.groupCount ∧
    (s1.groupIndex, s1.memberIndex) ≠ (s2.groupIndex, s2.memberIndex) := by
  decide +kernel

end Embit.Props.C16Y
