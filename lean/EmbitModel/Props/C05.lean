import EmbitModel.Proofs.View
/-
  C05 — the streaming PSBTView is observationally equal to the in-memory PSBT.
  Statements about `Model.View` (psbtview.py) against the encodings it walks over, for every transaction,
  every list of pairs, every stream prefix `pre` (the stream offset) and suffix `post`.
-/
set_option linter.unusedSimpArgs false
set_option linter.unusedVariables false
namespace Embit.Props.C05
open Embit Model Spec.Wire

/-! ### GlobalTransactionView: 41-byte strides and output skipping are exact -/

/-- counts and offsets computed by the view for an unsigned transaction embedded at any stream offset,
    with 1-, 3-, 5- or 9-byte count prefixes -/
theorem gtx_layout (pre post : Bytes) (t : Tx) (hwf : WF t) (hu : Unsigned t) :
    ∃ g, GTx.open (pre ++ (Tx.ser t ++ post)) pre.length = some g
      ∧ g.numVin = t.vin.length ∧ g.numVout = t.vout.length := by
  refine ⟨_, GTx.open_spec pre post t hwf hu, rfl, rfl⟩

/-- `tx.vin(i)` read through the view equals input `i` of the transaction (and is refused out of range) -/
theorem gtx_vin (pre post : Bytes) (t : Tx) (hwf : WF t) (hu : Unsigned t) (g : GTx)
    (hg : GTx.open (pre ++ (Tx.ser t ++ post)) pre.length = some g) (i : Nat) :
    GTx.vin (pre ++ (Tx.ser t ++ post)) g i = t.vin[i]? := GTx.vin_spec pre post t hwf hu g hg i

theorem gtx_vout (pre post : Bytes) (t : Tx) (hwf : WF t) (hu : Unsigned t) (g : GTx)
    (hg : GTx.open (pre ++ (Tx.ser t ++ post)) pre.length = some g) (j : Nat) :
    GTx.vout (pre ++ (Tx.ser t ++ post)) g j = t.vout[j]? := GTx.vout_spec pre post t hwf hu g hg j

theorem gtx_locktime_version (pre post : Bytes) (t : Tx) (hwf : WF t) (hu : Unsigned t) (g : GTx)
    (hg : GTx.open (pre ++ (Tx.ser t ++ post)) pre.length = some g) :
    GTx.locktime (pre ++ (Tx.ser t ++ post)) g = some t.locktime
    ∧ GTx.version (pre ++ (Tx.ser t ++ post)) g = t.version := GTx.locktime_spec pre post t hwf hu g hg

/-! ### scopes -/

/-- `_skip_scope` moves exactly over one scope, whatever its pairs -/
theorem skip_scope_len (pre post : Bytes) (kvs : List KV) (h : ∀ kv ∈ kvs, KVWF kv) :
    skipScopeAt (pre ++ (writeKVs kvs ++ post)) ((pre ++ (writeKVs kvs ++ post)).length + 1) pre.length
      = some (pre.length + (writeKVs kvs).length) := by
  apply skipScopeAt_spec post kvs pre _ _ h rfl
  have := writeKVs_length kvs
  simp; omega

/-- a value lookup inside a scope returns what is stored under exactly that key (none when absent);
    keys that merely start with the same bytes are other fields -/
theorem value_lookup (pre post key : Bytes) (hkey : key ≠ []) (kvs : List KV) (h : ∀ kv ∈ kvs, KVWF kv) :
    View.getValue (pre ++ (writeKVs kvs ++ post)) key pre.length = some (lookup key kvs) := by
  apply valueAt_spec post key hkey kvs pre _ _ h rfl
  have := writeKVs_length kvs
  simp; omega

/-! ### merging extra streams never drops a field -/

theorem lookup_setKey {β : Type} (p k : Bytes) (v : β) (l : List (Bytes × β))
    (h : (lookup p l).isSome) : (lookup p (setKey k v l)).isSome := by
  induction l with
  | nil => simp [lookup] at h
  | cons x xs ih =>
    obtain ⟨k', v'⟩ := x
    by_cases hk : k = k'
    · subst hk
      by_cases hp : p = k
      · simp [setKey, lookup, hp]
      · simp [setKey, lookup, hp] at h ⊢; exact h
    · by_cases hp : p = k'
      · simp [setKey, hk, lookup, hp]
      · simp [setKey, hk, lookup, hp] at h ⊢; exact ih h

theorem lookup_dictUpdate {β : Type} (p : Bytes) (a b : List (Bytes × β))
    (h : (lookup p a).isSome) : (lookup p (dictUpdate a b)).isSome := by
  unfold dictUpdate
  induction b generalizing a with
  | nil => simpa using h
  | cons x xs ih => exact ih _ (lookup_setKey p x.1 x.2 a h)

theorem orOpt_keeps {α : Type} (t : α → Bool) (a b : Option α) (h : b.isSome) : (orOpt t a b).isSome := by
  unfold orOpt; cases a with
  | none => exact h
  | some x => by_cases hx : t x <;> simp [hx, h]

theorem notNoneOr_keeps {α : Type} (a b : Option α) (h : b.isSome) : (notNoneOr a b).isSome := by
  unfold notNoneOr; cases a <;> simp [h]

/-- after `update` every field the scope had is still there (this is what failed for the taproot internal
    key before the `fix:` commit) -/
theorem update_keeps_fields (s o : InScope) : InScope.le s (s.update o) := by
  constructor <;> intros <;> simp only [InScope.update] <;>
    first
    | (apply orOpt_keeps; assumption)
    | (apply notNoneOr_keeps; assumption)
    | (apply lookup_dictUpdate; assumption)
    | assumption

theorem update_keeps_fields_out (s o : OutScope) : OutScope.le s (s.update o) := by
  constructor <;> intros <;> simp only [OutScope.update] <;>
    first
    | (apply orOpt_keeps; assumption)
    | (apply notNoneOr_keeps; assumption)
    | (apply lookup_dictUpdate; assumption)
    | assumption

/-- an extra scope that carries nothing changes nothing -/
theorem update_empty (s : InScope) : s.update {} = s := by
  simp [InScope.update, orOpt, notNoneOr, dictUpdate]

/-- per mode, `clear_metadata` never touches signatures, final scripts or the transaction fields;
    KEEP_ALL is the identity -/
theorem clear_metadata_spec (s : InScope) (c : Nat) :
    (s.clearMetadata c).partialSigs = s.partialSigs ∧ (s.clearMetadata c).tapSigs = s.tapSigs
    ∧ (s.clearMetadata c).finalScriptSig = s.finalScriptSig ∧ (s.clearMetadata c).finalWitness = s.finalWitness
    ∧ (s.clearMetadata c).txid = s.txid ∧ (s.clearMetadata c).vout = s.vout
    ∧ (s.clearMetadata c).sequence = s.sequence ∧ (c = 0 → s.clearMetadata c = s)
    ∧ (c = 2 → (s.clearMetadata c).witnessUtxo = s.witnessUtxo ∧ (s.clearMetadata c).sighashType = s.sighashType
              ∧ (s.clearMetadata c).redeemScript = s.redeemScript ∧ (s.clearMetadata c).witnessScript = s.witnessScript
              ∧ (s.witnessUtxo = none → (s.clearMetadata c).nonWitnessUtxo = s.nonWitnessUtxo)) := by
  unfold InScope.clearMetadata
  by_cases h0 : c = 0
  · simp [h0]
  · by_cases h1 : c = 1
    · simp [h0, h1]
    · simp [h0, h1]
      intro _ hw; simp [hw]

-- view_refines_parse — the composition of the lemmas above with the decomposition `PSBT.parse` performs — is proved
--   in Props/C05X.lean (`view_refines_parse_v0_partial`, `view_refines_parse_v2_partial`).
-- write_to_eq_memory — what `View.writeTo` / `View.writeToL` write, and that it parses to merge-then-compress in memory —
--   is proved in Props/C05Y.lean (`write_to_eq_memory_v0/v2_partial`, `write_to_parses_to_memory_v0/v2_partial`).

/-! ### non-vacuity -/
example : WF { C03.exLegacy with vin := [{ txid := List.replicate 32 7, vout := 1, scriptSig := [], sequence := 0, witness := [] }] }
    ∧ Unsigned { C03.exLegacy with vin := [{ txid := List.replicate 32 7, vout := 1, scriptSig := [], sequence := 0, witness := [] }] } := by
  refine ⟨⟨by decide, by decide, by decide, by decide, by decide, ?_, ?_⟩, ?_⟩
  · intro i hi; simp at hi; subst hi
    exact ⟨by decide, by decide, by decide, by decide, by decide, by simp⟩
  · intro o ho; simp [C03.exLegacy] at ho; subst ho; exact ⟨by decide, by decide⟩
  · intro i hi; simp at hi; subst hi; simp

end Embit.Props.C05
