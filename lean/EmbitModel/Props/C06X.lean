import EmbitModel.Props.C06
import EmbitModel.Proofs.PsbtVerify
/-
  C06X — `PSBT.verify(ignore_missing)` / `PSBT.is_verified` (audit2 B-5): the PSBT-level observation point of C06,
  modelled in Model/PsbtVerify.lean on top of the per-input `InScope.verify`, and composed with the C06 theorems.
  `Psbt.verify sha p ign = (p', r)`: `p'` is the PSBT left behind, `r = some b` when the call returned `b`,
  `r = none` when it raised.
-/
set_option linter.unusedSimpArgs false
namespace Embit.Props.C06X
open Embit Model

/-- **`is_verified` ⇔ every input is verified** (true of a PSBT without inputs, as Python's `all([])`) -/
theorem isVerified_iff (p : Psbt) : p.isVerified = true ↔ ∀ s ∈ p.inputs, s.verified = true := by
  simp [Psbt.isVerified, List.all_eq_true]

/-- one unverified input makes it false (the `any` regression of audit2 C-2 is excluded) -/
theorem isVerified_false_of_unverified (p : Psbt) (s : InScope) (hs : s ∈ p.inputs) (hv : s.verified = false) :
    p.isVerified = false := by
  cases h : p.isVerified with
  | false => rfl
  | true => have := (isVerified_iff p).1 h s hs; simp [hv] at this

/-- `verify()` returns `is_verified` of the state it leaves behind; nothing but the inputs is touched -/
theorem verify_returns_isVerified (sha : Bytes → Bytes) (p p' : Psbt) (ign b : Bool)
    (h : Psbt.verify sha p ign = (p', some b)) : b = p'.isVerified ∧ p' = { p with inputs := p'.inputs } := by
  unfold Psbt.verify at h
  cases hr : verifyLoop sha ign p.inputs with
  | mk ins d =>
    simp only [hr, Prod.mk.injEq] at h
    obtain ⟨rfl, h2⟩ := h
    cases d <;> simp at h2
    exact ⟨h2.symm, rfl⟩

/-- scope by scope: when `verify()` returns, every input went through its own `verify` without raising and holds
    what that call left -/
theorem verify_returned_pointwise (sha : Bytes → Bytes) (p p' : Psbt) (ign b : Bool)
    (h : Psbt.verify sha p ign = (p', some b)) :
    p'.inputs.length = p.inputs.length ∧
    ∀ (i : Nat) (s : InScope), p.inputs[i]? = some s →
      ∃ ok s', InScope.verify sha s ign = some (ok, s') ∧ p'.inputs[i]? = some s' := by
  unfold Psbt.verify at h
  cases hr : verifyLoop sha ign p.inputs with
  | mk ins d =>
    simp only [hr, Prod.mk.injEq] at h
    obtain ⟨rfl, h2⟩ := h
    cases d
    · simp at h2
    · exact verifyLoop_done sha ign p.inputs ins hr

/-- **`verify()` returns (does not raise) ⇒ every input that carries a previous transaction hashes to its
    outpoint's txid** — full mode (composition with `C06.verify_full_iff`); whatever `ignore_missing` is and
    whatever is returned -/
theorem verify_returned_hash_full (sha : Bytes → Bytes) (p p' : Psbt) (ign b : Bool)
    (h : Psbt.verify sha p ign = (p', some b)) (s : InScope) (hs : s ∈ p.inputs) (t : Tx)
    (hn : s.nonWitnessUtxo = some t) (hh : s.txhash = none) : s.txid = some (Spec.Wire.txid sha t) := by
  obtain ⟨i, hi⟩ := List.getElem?_of_mem hs
  obtain ⟨ok, s', hv, -⟩ := (verify_returned_pointwise sha p p' ign b h).2 i s hi
  have : ok = true := InScope.verify_ok_of_prev sha s s' ign ok (by simp [hn]) hv
  subst this
  exact C06.verify_full_iff sha s t ign hn hh s' hv

/-- the same in the memory-saving modes, where the scope holds the hash computed while streaming
    (`C06.readVoutAll_eq` says which hash that is) -/
theorem verify_returned_hash_streamed (sha : Bytes → Bytes) (p p' : Psbt) (ign b : Bool)
    (h : Psbt.verify sha p ign = (p', some b)) (s : InScope) (hs : s ∈ p.inputs) (h32 : Bytes)
    (hh : s.txhash = some h32) : s.txid = some h32.reverse := by
  obtain ⟨i, hi⟩ := List.getElem?_of_mem hs
  obtain ⟨ok, s', hv, -⟩ := (verify_returned_pointwise sha p p' ign b h).2 i s hi
  have : ok = true := InScope.verify_ok_of_prev sha s s' ign ok (by simp [hh]) hv
  subst this
  exact C06.verify_streamed_iff sha s h32 ign hh s' hv

/-- **`verify()` with the default `ignore_missing=False` either raises or returns `True`**, and then every input
    is verified, has previous-transaction data, and its outpoint's txid is what that data hashes to -/
theorem verify_strict_returns_true (sha : Bytes → Bytes) (p p' : Psbt) (b : Bool)
    (h : Psbt.verify sha p false = (p', some b)) :
    b = true ∧ (∀ s' ∈ p'.inputs, s'.verified = true) ∧
    ∀ s ∈ p.inputs, (s.nonWitnessUtxo.isSome || s.txhash.isSome) = true ∧ s.txid.isSome = true ∧
      s.txid = s.expectedTxid sha := by
  obtain ⟨hl, hp⟩ := verify_returned_pointwise sha p p' false b h
  have hall : ∀ s' ∈ p'.inputs, s'.verified = true := by
    intro s' hs'
    obtain ⟨i, hi⟩ := List.getElem?_of_mem hs'
    have hlt : i < p.inputs.length := by
      have := (List.getElem?_eq_some_iff.1 hi).1
      omega
    obtain ⟨ok, s'', hv, hi'⟩ := hp i p.inputs[i] (List.getElem?_eq_getElem hlt)
    have : ok = true := InScope.verify_strict sha _ _ ok hv
    subst this
    rw [hi] at hi'
    obtain rfl := Option.some.inj hi'
    rw [InScope.verify_true_eq sha _ _ false hv]
  refine ⟨?_, hall, ?_⟩
  · rw [(verify_returns_isVerified sha p p' false b h).1]
    exact (isVerified_iff p').2 hall
  · intro s hs
    obtain ⟨i, hi⟩ := List.getElem?_of_mem hs
    obtain ⟨ok, s', hv, -⟩ := hp i s hi
    have : ok = true := InScope.verify_strict sha _ _ ok hv
    subst this
    exact InScope.verify_true_expected sha s s' false hv

/-- **`verify(ignore_missing=…)` returning `True` on a PSBT none of whose inputs was verified before** (a freshly
    parsed one): every input has previous-transaction data whose hash is the outpoint's txid — the `False` answers
    that `ignore_missing` turns the missing-data error into cannot add up to `True` -/
theorem verify_true_from_fresh (sha : Bytes → Bytes) (p p' : Psbt) (ign : Bool)
    (h : Psbt.verify sha p ign = (p', some true)) (hf : ∀ s ∈ p.inputs, s.verified = false) :
    ∀ s ∈ p.inputs, (s.nonWitnessUtxo.isSome || s.txhash.isSome) = true ∧ s.txid.isSome = true ∧
      s.txid = s.expectedTxid sha := by
  obtain ⟨hl, hp⟩ := verify_returned_pointwise sha p p' ign true h
  have hv' := (isVerified_iff p').1 (verify_returns_isVerified sha p p' ign true h).1.symm
  intro s hs
  obtain ⟨i, hi⟩ := List.getElem?_of_mem hs
  obtain ⟨ok, s', hv, hi'⟩ := hp i s hi
  cases ok with
  | true => exact InScope.verify_true_expected sha s s' ign hv
  | false =>
    have h1 := (InScope.verify_false_eq sha s s' ign hv).1
    subst h1
    have := hv' s' (List.mem_of_getElem? hi')
    rw [hf s' hs] at this
    exact absurd this (by decide)

/-- **after `verify()` returned, the utxo `PSBT.utxo(i)` hands to fee and sighash for an input with
    previous-transaction data is the verified previous output** (composition with
    `C06.verified_utxo_is_prev_output`, `C06.psbt_utxo_verified`) -/
theorem verified_utxo_after_verify (sha : Bytes → Bytes) (p p' : Psbt) (ign b : Bool)
    (h : Psbt.verify sha p ign = (p', some b)) (i : Nat) (s : InScope) (hi : p.inputs[i]? = some s)
    (hp : (s.nonWitnessUtxo.isSome || s.txhash.isSome) = true)
    (hw : s.witnessUtxo.isSome ∨ s.prevOut.isSome) : p'.utxo i = s.prevOut := by
  obtain ⟨ok, s', hv, hi'⟩ := (verify_returned_pointwise sha p p' ign b h).2 i s hi
  have : ok = true := InScope.verify_ok_of_prev sha s s' ign ok hp hv
  subst this
  obtain ⟨hu, hvf⟩ := C06.verified_utxo_is_prev_output sha s s' ign hv hw
  rw [C06.psbt_utxo_verified p' i s' hi' hvf, hu]

/-- `verify()` does not move the transaction the PSBT describes -/
theorem verify_keeps_tx (sha : Bytes → Bytes) (p : Psbt) (ign : Bool) :
    (Psbt.verify sha p ign).1.tx = p.tx := by
  have key : ∀ l : List InScope, ((verifyLoop sha ign l).1).map InScope.vin = l.map InScope.vin := by
    intro l
    induction l with
    | nil => simp [verifyLoop]
    | cons a r ih =>
      unfold verifyLoop
      cases hv : InScope.verify sha a ign with
      | none => simp
      | some x =>
        obtain ⟨ok, a'⟩ := x
        simp only [List.map_cons, ih]
        congr 1
        rcases C06.verify_frame sha a a' ign ok hv with h | h <;> subst h <;> rfl
  unfold Psbt.verify Psbt.tx
  simp only [key]

/-- **after `verify()` returned with the default `ignore_missing=False`, `fee()` is computed from the verified
    previous outputs**: Σ values of the outputs the hashed previous transactions have at the outpoints' indices
    − Σ output values -/
theorem fee_after_verify (sha : Bytes → Bytes) (p p' : Psbt) (b : Bool)
    (h : Psbt.verify sha p false = (p', some b))
    (hw : ∀ s ∈ p.inputs, s.witnessUtxo.isSome ∨ s.prevOut.isSome) :
    p'.fee =
      match optAll (p.inputs.map InScope.prevOut), p.tx with
      | some us, some t =>
        some ((us.map (fun o => (o.value : Int))).sum - (t.vout.map (fun o => (o.value : Int))).sum)
      | _, _ => none := by
  obtain ⟨hl, -⟩ := verify_returned_pointwise sha p p' false b h
  have hprev := (verify_strict_returns_true sha p p' b h).2.2
  have hu : (List.range p'.inputs.length).map p'.utxo = p.inputs.map InScope.prevOut := by
    apply List.ext_getElem?
    intro i
    by_cases hlt : i < p.inputs.length
    · have hi : p.inputs[i]? = some p.inputs[i] := List.getElem?_eq_getElem hlt
      have hm : p.inputs[i] ∈ p.inputs := List.getElem_mem hlt
      simp only [List.getElem?_map, hi, Option.map_some, List.getElem?_range (by omega : i < p'.inputs.length)]
      rw [verified_utxo_after_verify sha p p' false b h i _ hi (hprev _ hm).1 (hw _ hm)]
    · have h1 : p.inputs[i]? = none := List.getElem?_eq_none (by omega)
      have h2 : (List.range p'.inputs.length)[i]? = none := List.getElem?_eq_none (by simp; omega)
      simp [List.getElem?_map, h1, h2]
  have ht : p'.tx = p.tx := by
    have := verify_keeps_tx sha p false
    rw [h] at this
    exact this
  unfold Psbt.fee
  rw [hu, ht]
  cases optAll (p.inputs.map InScope.prevOut) <;> cases p.tx <;> rfl

/-- **frame, whatever happens** (returned or raised): nothing but the inputs is touched, their number is kept, each
    input is either as before or as before with `verified` set, and an input that was verified stays verified and
    unchanged -/
theorem verify_frame (sha : Bytes → Bytes) (p p' : Psbt) (ign : Bool) (r : Option Bool)
    (h : Psbt.verify sha p ign = (p', r)) :
    p' = { p with inputs := p'.inputs } ∧ p'.inputs.length = p.inputs.length ∧
    ∀ (i : Nat) (s : InScope), p.inputs[i]? = some s →
      (p'.inputs[i]? = some s ∨ p'.inputs[i]? = some { s with verified := true }) ∧
      (s.verified = true → p'.inputs[i]? = some s) := by
  have step : ∀ (s s' : InScope) (ok : Bool), InScope.verify sha s ign = some (ok, s') →
      (s' = s ∨ s' = { s with verified := true }) ∧ (s.verified = true → s' = s) :=
    fun s s' ok hv => ⟨C06.verify_frame sha s s' ign ok hv, InScope.verify_mono sha s s' ign ok hv⟩
  unfold Psbt.verify at h
  cases hr : verifyLoop sha ign p.inputs with
  | mk ins d =>
    simp only [hr, Prod.mk.injEq] at h
    obtain ⟨rfl, -⟩ := h
    refine ⟨rfl, ?_⟩
    cases d with
    | true =>
      obtain ⟨hl, hp⟩ := verifyLoop_done sha ign p.inputs ins hr
      refine ⟨hl, ?_⟩
      intro i s hi
      obtain ⟨ok, s', hv, hi'⟩ := hp i s hi
      obtain ⟨h1, h2⟩ := step s s' ok hv
      simp only [hi']
      exact ⟨by rcases h1 with h | h <;> simp [h], fun hv' => by rw [h2 hv']⟩
    | false =>
      obtain ⟨hl, k, sk, hk, hn, hge, hlt⟩ := verifyLoop_raise sha ign p.inputs ins hr
      refine ⟨hl, ?_⟩
      intro i s hi
      by_cases hik : i < k
      · obtain ⟨ok, s', hv, hi'⟩ := hlt i s hik hi
        obtain ⟨h1, h2⟩ := step s s' ok hv
        simp only [hi']
        exact ⟨by rcases h1 with h | h <;> simp [h], fun hv' => by rw [h2 hv']⟩
      · have := hge i (by omega)
        simp only [this, hi]
        exact ⟨Or.inl trivial, fun _ => trivial⟩

/-- **`verify()` raising**: some input's own `verify` raises; that input and every later one are exactly as before;
    the earlier ones hold what their own (returning) `verify` left — in particular the ones it verified stay
    verified -/
theorem verify_raise_prefix (sha : Bytes → Bytes) (p p' : Psbt) (ign : Bool)
    (h : Psbt.verify sha p ign = (p', none)) :
    ∃ (k : Nat) (s : InScope), p.inputs[k]? = some s ∧ InScope.verify sha s ign = none ∧
      (∀ i, k ≤ i → p'.inputs[i]? = p.inputs[i]?) ∧
      (∀ (i : Nat) (t : InScope), i < k → p.inputs[i]? = some t →
        ∃ ok t', InScope.verify sha t ign = some (ok, t') ∧ p'.inputs[i]? = some t') := by
  unfold Psbt.verify at h
  cases hr : verifyLoop sha ign p.inputs with
  | mk ins d =>
    simp only [hr, Prod.mk.injEq] at h
    obtain ⟨rfl, h2⟩ := h
    cases d with
    | true => simp at h2
    | false => exact (verifyLoop_raise sha ign p.inputs ins hr).2

/-- and it raises exactly when some input's own `verify` raises (the first such input stops the loop) -/
theorem verify_raises_iff (sha : Bytes → Bytes) (p : Psbt) (ign : Bool) :
    (Psbt.verify sha p ign).2 = none ↔ ∃ s ∈ p.inputs, InScope.verify sha s ign = none := by
  constructor
  · intro h
    obtain ⟨k, s, hk, hn, -, -⟩ := verify_raise_prefix sha p (Psbt.verify sha p ign).1 ign (by rw [← h])
    exact ⟨s, List.mem_of_getElem? hk, hn⟩
  · rintro ⟨s, hs, hn⟩
    cases hr : (Psbt.verify sha p ign).2 with
    | none => rfl
    | some b =>
      obtain ⟨i, hi⟩ := List.getElem?_of_mem hs
      obtain ⟨ok, s', hv, -⟩ :=
        (verify_returned_pointwise sha p (Psbt.verify sha p ign).1 ign b (by rw [← hr])).2 i s hi
      rw [hn] at hv
      exact absurd hv (by simp)

/-! ### non-vacuity: a two-input PSBT whose second input lacks its previous transaction -/
def exIn : InScope :=
  { nonWitnessUtxo := some C03.exLegacy, vout := some 0, txid := some (Tx.txid (fun b => b) C03.exLegacy) }
def exPsbt : Psbt := { inputs := [exIn, { vout := some 0, txid := some [1] }] }

-- strict: raises at the second input, the first one stays verified
example : (Psbt.verify (fun b => b) exPsbt false).2 = none ∧
    ((Psbt.verify (fun b => b) exPsbt false).1.inputs.map (·.verified)) = [true, false] := by decide
-- ignore_missing: returns False, first input verified
example : (Psbt.verify (fun b => b) exPsbt true).2 = some false := by decide
-- a PSBT of the first input alone verifies
example : (Psbt.verify (fun b => b) { inputs := [exIn] } false).2 = some true := by decide
example : exIn.prevOut.isSome = true := by decide

end Embit.Props.C06X
