import EmbitModel.Proofs.PsbtTop
import EmbitModel.Props.C03
/-
  C04 — PSBT parse/serialise is lossless for every field, known or unknown.
  `Model.Psbt.*` is the model of embit's psbt.py (tied to /repo by the correspondence check); the statements
  below are about arbitrary byte strings and arbitrary key validators `ko` / hash `sha`, KEEP_ALL mode.
-/
set_option linter.unusedSimpArgs false
set_option linter.unusedVariables false
namespace Embit.Props.C04
open Embit Model

/-! ### key-value layer -/

/-- writing a scope's pairs and reading them back is the identity (any pairs with non-empty keys) -/
theorem kv_roundtrip (kvs : List KV) (r : Bytes) (h : ∀ kv ∈ kvs, KVWF kv) :
    readKVs (writeKVs kvs ++ r) = some (kvs, r) := readKVs_write kvs r h

/-- a scope that parses is exactly the canonical framing of the pairs returned: nothing skipped, merged or
    re-interpreted; in particular truncated scopes and scopes without separator are refused -/
theorem kv_sound (b : Bytes) (kvs : List KV) (r : Bytes) (h : readKVs b = some (kvs, r)) :
    b = writeKVs kvs ++ r ∧ ∀ kv ∈ kvs, KVWF kv := readKVs_sound h

/-! ### scopes -/

/-- every pair of an input scope is present with identical bytes in what `write_to` emits, and no key occurs twice -/
theorem input_scope_lossless (ko : KeyOps) (sha : Bytes → Bytes) (ver : Option Nat) (kvs : List KV)
    (s0 s : InScope) (hv : ver = some 2 ∨ InSeeded s0) (hne : ∀ kv ∈ kvs, kv.1 ≠ [])
    (h : InScope.addPairs ko sha 0 s0 kvs = some s) :
    (∀ kv ∈ kvs, kv ∈ s.pairs ver) ∧ (kvs.map Prod.fst).Nodup :=
  ⟨(InScope.addPairs_lossless ko sha ver kvs s0 s hv hne h).1, (InScope.addPairs_nodup ko sha kvs s0 s hne h).1⟩

theorem output_scope_lossless (ko : KeyOps) (ver : Option Nat) (kvs : List KV)
    (s0 s : OutScope) (hv : ver = some 2 ∨ OutSeeded s0) (hne : ∀ kv ∈ kvs, kv.1 ≠ [])
    (h : OutScope.addPairs ko s0 kvs = some s) :
    (∀ kv ∈ kvs, kv ∈ s.pairs ver) ∧ (kvs.map Prod.fst).Nodup :=
  ⟨(OutScope.addPairs_lossless ko ver kvs s0 s hv hne h).1, (OutScope.addPairs_nodup ko kvs s0 s hne h).1⟩

/-- a duplicated key inside an input scope is always refused -/
theorem input_duplicate_key_rejected (ko : KeyOps) (sha : Bytes → Bytes) (kvs : List KV) (s0 : InScope)
    (hne : ∀ kv ∈ kvs, kv.1 ≠ []) (hd : ¬ (kvs.map Prod.fst).Nodup) :
    InScope.addPairs ko sha 0 s0 kvs = none := by
  cases h : InScope.addPairs ko sha 0 s0 kvs with
  | none => rfl
  | some s => exact absurd (InScope.addPairs_nodup ko sha kvs s0 s hne h).1 hd

theorem output_duplicate_key_rejected (ko : KeyOps) (kvs : List KV) (s0 : OutScope)
    (hne : ∀ kv ∈ kvs, kv.1 ≠ []) (hd : ¬ (kvs.map Prod.fst).Nodup) :
    OutScope.addPairs ko s0 kvs = none := by
  cases h : OutScope.addPairs ko s0 kvs with
  | none => rfl
  | some s => exact absurd (OutScope.addPairs_nodup ko kvs s0 s hne h).1 hd

/-! ### whole PSBT -/

theorem optAll_map_eq {α β : Type} (f : α → Option β) : ∀ (l : List α) (l' : List β), l.length = l'.length →
    (∀ (j : Nat) (a : α), l[j]? = some a → ∃ b, l'[j]? = some b ∧ f a = some b) → optAll (l.map f) = some l' := by
  intro l
  induction l with
  | nil => intro l' hl _; cases l' with
    | nil => rfl
    | cons _ _ => simp at hl
  | cons a l ih =>
    intro l' hl h
    cases l' with
    | nil => simp at hl
    | cons b l' =>
      obtain ⟨b', hb1, hb2⟩ := h 0 a (by simp)
      simp at hb1; subst hb1
      have := ih l' (by simpa using hl) (fun j x hx => by
        obtain ⟨y, hy1, hy2⟩ := h (j+1) x (by simpa using hx)
        exact ⟨y, by simpa using hy1, hy2⟩)
      simp [optAll, hb2, this]

/-- the decomposition `PSBT.parse` performs, with everything the property needs about it -/
theorem parse_lossless (ko : KeyOps) (sha : Bytes → Bytes) (b : Bytes) (p : Psbt)
    (h : Psbt.parse ko sha 0 b = some p) :
    ∃ (g : List KV) (ins outs : List (List KV)),
      -- the byte string is the canonical framing of these pairs (so "the pairs of the original" are g, ins, outs)
      b = psbtMagic ++ writeKVs g ++ ins.flatMap writeKVs ++ outs.flatMap writeKVs
      ∧ ins.length = p.inputs.length ∧ outs.length = p.outputs.length
      -- per-input and per-output: nothing lost, no duplicate keys
      ∧ (∀ (j : Nat) (kvs : List KV) (s : InScope), ins[j]? = some kvs → p.inputs[j]? = some s →
            (∀ kv ∈ kvs, kv ∈ s.pairs p.version) ∧ (kvs.map Prod.fst).Nodup)
      ∧ (∀ (j : Nat) (kvs : List KV) (s : OutScope), outs[j]? = some kvs → p.outputs[j]? = some s →
            (∀ kv ∈ kvs, kv ∈ s.pairs p.version) ∧ (kvs.map Prod.fst).Nodup)
      -- global scope: nothing lost
      ∧ (∃ gp, p.globalPairs = some gp ∧ ∀ kv ∈ g, kv ∈ gp)
      -- version 0: the unsigned transaction of the PSBT object is bit-identical to the global one
      ∧ (∀ v, ([0x00], v) ∈ g → ∃ t, p.tx = some t ∧ Tx.ser t = v) := by
  unfold Psbt.parse at h
  split at h
  · simp at h
  · rename_i m r0 hm
    obtain ⟨em, lm⟩ := takeN_sound hm
    split at h
    · simp at h
    · rename_i hmagic
      simp only [ne_eq, Decidable.not_not] at hmagic
      split at h
      · simp at h
      · rename_i g r1 hg
        obtain ⟨eg, wg⟩ := readKVs_sound hg
        split at h
        · simp at h
        · rename_i tx ver unk hgf
          simp only [] at h
          split at h
          · simp at h
          · rename_i hc1
            split at h
            · simp at h
            · rename_i hc2
              split at h
              · simp at h
              · rename_i gs hpu
                generalize hnin : gs.nin.getD 0 = nin at h
                generalize hnout : gs.nout.getD 0 = nout at h
                · split at h
                  · simp at h
                  · rename_i ins' r2 hins
                    split at h
                    · simp at h
                    · rename_i outs' r3 houts
                      split at h
                      · simp at h
                      · rename_i hr3
                        simp at h
                        have hr3' : r3 = [] := by simpa using hr3
                        obtain ⟨f1, f2, f3, f5, f4⟩ := globalFold_spec g none none [] tx ver unk hgf
                        have hnd := globalFold_nodup g none none [] tx ver unk hgf (by simp)
                        obtain ⟨u1, u2, u3, u4, u5, u6, u7, u8⟩ :=
                          parseUnknowns_spec ko (ver == some 2) unk _ gs hnd hpu
                        obtain ⟨kin, ei, li1, li2, wi, fi⟩ := readIns_spec ko sha tx nin 0 r1 ins' r2 hins
                        obtain ⟨kout, eo, lo1, lo2, wo, fo⟩ := readOuts_spec ko tx nout 0 r2 outs' r3 houts
                        subst h
                        -- is this a version-2 PSBT?
                        have hver : (ver = some 2 ∧ tx = none) ∨ (ver ≠ some 2 ∧ ∃ t, tx = some t) := by
                          by_cases hv : ver = some 2
                          · left; refine ⟨hv, ?_⟩
                            cases tx with
                            | none => rfl
                            | some t => simp [hv] at hc1
                          · right; refine ⟨hv, ?_⟩
                            cases tx with
                            | none => simp [hv] at hc2
                            | some t => exact ⟨t, rfl⟩
                        -- version 0: the transaction rebuilt from the scopes is the global transaction
                        have hrec : ∀ t, tx = some t →
                            Psbt.tx { version := ver, txVersion := gs.txVersion, locktime := gs.locktime,
                                      xpubs := gs.xpubs, unknown := gs.unknown, inputs := ins', outputs := outs' }
                              = some t := by
                          intro t ht
                          subst ht
                          have hv : ver ≠ some 2 := by
                            rcases hver with ⟨_, hn⟩ | ⟨hv, _⟩
                            · simp at hn
                            · exact hv
                          have huns : Unsigned t := by
                            rcases f5 t rfl with hh | hh
                            · simp at hh
                            · exact hh
                          obtain ⟨c1, c2, c3, c4⟩ := u7 (by simp [hv])
                          rw [c3] at hnin; simp at hnin
                          rw [c4] at hnout; simp at hnout
                          have hvin : optAll (ins'.map InScope.vin) = some t.vin := by
                            apply optAll_map_eq
                            · omega
                            · intro j a ha
                              have hj : j < nin := by
                                have := (List.getElem?_eq_some_iff.mp ha).1; omega
                              have hjt : j < t.vin.length := by omega
                              obtain ⟨kvs', s', a1, a2, a3⟩ := fi j hj
                              rw [ha] at a2; simp at a2; subst a2
                              have hne : ∀ kv ∈ kvs', kv.1 ≠ [] := fun kv hkv =>
                                (wi kvs' (List.mem_of_getElem? a1) kv hkv).1
                              have hseed : InSeeded (seedIn (some t) (0 + j)) := by
                                simp [seedIn, List.getElem?_eq_getElem hjt, InSeeded]
                              obtain ⟨_, _, k3⟩ := InScope.addPairs_lossless ko sha ver kvs' _ a (Or.inr hseed) hne a3
                              obtain ⟨e1, e2, e3⟩ := k3 hseed
                              refine ⟨t.vin[j], List.getElem?_eq_getElem hjt, ?_⟩
                              have hu := huns t.vin[j] (List.getElem_mem hjt)
                              simp [seedIn, List.getElem?_eq_getElem hjt] at e1 e2 e3
                              simp only [InScope.vin, e1, e2, e3, Option.getD_some]
                              cases hh : t.vin[j] with
                              | mk a1 a2 a3 a4 a5 => simp [hh] at hu ⊢; exact ⟨hu.1, hu.2⟩
                          have hvout : optAll (outs'.map OutScope.vout) = some t.vout := by
                            apply optAll_map_eq
                            · omega
                            · intro j a ha
                              have hj : j < nout := by
                                have := (List.getElem?_eq_some_iff.mp ha).1; omega
                              have hjt : j < t.vout.length := by omega
                              obtain ⟨kvs', s', a1, a2, a3⟩ := fo j hj
                              rw [ha] at a2; simp at a2; subst a2
                              have hne : ∀ kv ∈ kvs', kv.1 ≠ [] := fun kv hkv =>
                                (wo kvs' (List.mem_of_getElem? a1) kv hkv).1
                              have hseed : OutSeeded (seedOut (some t) (0 + j)) := by
                                simp [seedOut, List.getElem?_eq_getElem hjt, OutSeeded]
                              obtain ⟨_, _, k3⟩ := OutScope.addPairs_lossless ko ver kvs' _ a (Or.inr hseed) hne a3
                              obtain ⟨e1, e2⟩ := k3 hseed
                              refine ⟨t.vout[j], List.getElem?_eq_getElem hjt, ?_⟩
                              simp [seedOut, List.getElem?_eq_getElem hjt] at e1 e2
                              simp only [OutScope.vout, e1, e2]
                          simp only [Psbt.tx, hvin, hvout, c1, c2]
                          simp
                        refine ⟨g, kin, kout, ?_, by simp [li1, li2], by simp [lo1, lo2], ?_, ?_, ?_, ?_⟩
                        · simp [em, hmagic, eg, ei, eo, hr3', List.append_assoc]
                        · -- inputs
                          intro j kvs s hk hs
                          have hj : j < nin := by
                            have := (List.getElem?_eq_some_iff.mp hk).1; omega
                          obtain ⟨kvs', s', a1, a2, a3⟩ := fi j hj
                          simp only [hk, Option.some.injEq] at a1; subst a1
                          simp only [] at hs
                          rw [hs] at a2; simp at a2; subst a2
                          have hne : ∀ kv ∈ kvs, kv.1 ≠ [] := fun kv hkv =>
                            (wi kvs (List.mem_of_getElem? hk) kv hkv).1
                          refine input_scope_lossless ko sha ver kvs _ s ?_ hne a3
                          rcases hver with ⟨hv, _⟩ | ⟨hv, t, ht⟩
                          · exact Or.inl hv
                          · right
                            subst ht
                            have hcn := (u7 (by simp [hv])).2.2.1
                            rw [hcn] at hnin; simp at hnin
                            have this : j < t.vin.length := by omega
                            simp [seedIn, List.getElem?_eq_getElem this, InSeeded]
                        · -- outputs
                          intro j kvs s hk hs
                          have hj : j < nout := by
                            have := (List.getElem?_eq_some_iff.mp hk).1; omega
                          obtain ⟨kvs', s', a1, a2, a3⟩ := fo j hj
                          simp only [hk, Option.some.injEq] at a1; subst a1
                          simp only [] at hs
                          rw [hs] at a2; simp at a2; subst a2
                          have hne : ∀ kv ∈ kvs, kv.1 ≠ [] := fun kv hkv =>
                            (wo kvs (List.mem_of_getElem? hk) kv hkv).1
                          refine output_scope_lossless ko ver kvs _ s ?_ hne a3
                          rcases hver with ⟨hv, _⟩ | ⟨hv, t, ht⟩
                          · exact Or.inl hv
                          · right
                            subst ht
                            have hcn := (u7 (by simp [hv])).2.2.2
                            rw [hcn] at hnout; simp at hnout
                            have this : j < t.vout.length := by omega
                            simp [seedOut, List.getElem?_eq_getElem this, OutSeeded]
                        · -- global scope
                          rcases hver with ⟨hv, htx⟩ | ⟨hv, t, ht⟩
                          · subst htx; subst hv
                            refine ⟨_, by simp [Psbt.globalPairs]; rfl, ?_⟩
                            intro kv hkv
                            rcases f4 kv hkv with ⟨_, t, ht, _⟩ | ⟨e, n, hn, hl⟩ | ⟨hu, _, _⟩
                            · simp at ht
                            · simp at hn; subst hn
                              obtain ⟨k, v⟩ := kv; simp at e hl; subst e; subst hl
                              simp [optKV]
                            · obtain ⟨k, v⟩ := kv
                              rcases u8 (k, v) hu with ⟨x, d, e1, e2, e3⟩ | ⟨_, e1, n, e2, e3⟩ | ⟨_, e1, n, e2, e3⟩
                                  | ⟨_, e1, n, e2, e3⟩ | ⟨_, e1, n, e2, e3⟩ | e1
                              · simp at e1 e3; subst e1; subst e3
                                simp; exact Or.inl ⟨x, d, e2, rfl, rfl⟩
                              · simp at e1 e3; subst e1; subst e3; simp [optKV, e2]
                              · simp at e1 e3; subst e1; subst e3; simp [optKV, e2]
                              · simp at e1 e3; subst e1; subst e3
                                rw [e2] at hnin; simp at hnin; subst hnin
                                simp [li2]
                              · simp at e1 e3; subst e1; subst e3
                                rw [e2] at hnout; simp at hnout; subst hnout
                                simp [lo2]
                              · simp [e1]
                          · subst ht
                            have hv' : (ver == some 2) = false := by simp [hv]
                            refine ⟨_, by simp [Psbt.globalPairs, hv', hrec t rfl]; rfl, ?_⟩
                            intro kv hkv
                            rcases f4 kv hkv with ⟨e, t', ht', hs, _⟩ | ⟨e, n, hn, hl⟩ | ⟨hu, _, _⟩
                            · simp at ht'; subst ht'
                              obtain ⟨k, v⟩ := kv; simp at e hs; subst e; subst hs
                              simp
                            · obtain ⟨k, v⟩ := kv; simp at e hl; subst e; subst hl
                              simp [optKV, hn]
                            · obtain ⟨k, v⟩ := kv
                              rcases u8 (k, v) hu with ⟨x, d, e1, e2, e3⟩ | ⟨c, _⟩ | ⟨c, _⟩ | ⟨c, _⟩ | ⟨c, _⟩ | e1
                              · simp at e1 e3; subst e1; subst e3
                                simp; exact Or.inl ⟨x, d, e2, rfl, rfl⟩
                              · simp [hv'] at c
                              · simp [hv'] at c
                              · simp [hv'] at c
                              · simp [hv'] at c
                              · simp [e1]
                        · -- unsigned transaction
                          intro v hv0
                          rcases f4 ([0x00], v) hv0 with ⟨_, t, ht, hs, _⟩ | ⟨e, _⟩ | ⟨_, e, _⟩
                          · exact ⟨t, hrec t ht, hs⟩
                          · simp at e
                          · simp at e

/-- wrong magic bytes are refused -/
theorem bad_magic_rejected (ko : KeyOps) (sha : Bytes → Bytes) (c : Nat) (b : Bytes) (h : b.take 5 ≠ psbtMagic) :
    Psbt.parse ko sha c b = none := by
  unfold Psbt.parse
  split
  · rfl
  · rename_i m r hm
    have := (takeN_sound hm)
    unfold takeN at hm
    split at hm
    · simp at hm; simp [hm.1.symm ▸ h]
    · simp at hm

-- The serialise-then-parse direction (`ser_parse`, `parse_wf`), the PSBTv2 transaction versus BIP370
-- (`v2_tx_eq_bip370_partial`) and the rejection rules (`tx_in_v2_rejected`, `missing_tx_v0_rejected`, duplicate keys,
-- count mismatch, PSBTv2 scope fields in version 0) are proved in Props/C04X.lean.

/-! ### non-vacuity -/

def trivialKo : KeyOps := { validSec := fun _ => true, validX := fun _ => true, validXpub := fun _ => true }

/-- a small version-0 PSBT: one input (with a sighash-type field and an unknown key), one output -/
def exPsbtBytes : Bytes :=
  psbtMagic ++ writeKVs [([0x00], Tx.ser { C03.exLegacy with vin := [{ txid := List.replicate 32 7, vout := 1, scriptSig := [], sequence := 0, witness := [] }] })]
    ++ writeKVs [([0x03], [1, 0, 0, 0]), ([0xf0, 0x01], [0xaa])] ++ writeKVs []

example : (Psbt.parse trivialKo id 0 exPsbtBytes).isSome = true := by decide
example : InSeeded (seedIn (some C03.exLegacy) 0) := by simp [InSeeded, seedIn, C03.exLegacy]

end Embit.Props.C04
