import EmbitModel.Proofs.ViewSignBytes
import EmbitModel.Props.C02X
import EmbitModel.Props.C01X
import EmbitModel.Props.C02Y
import EmbitModel.Props.C02Z
import EmbitModel.Proofs.SignWithOneSighash
import EmbitModel.Driver.SignWithViewBytes
/-
  C02V — audit2 items B-2 and B-1.

  (B-2) ONE model of `PSBT.sighash`. `Model.Psbt.sighash` (Model/ViewSighash.lean; Props/C01X: all entry points agree and
  equal the consensus digest) and `SignWith.psbtSighash` (Model/SignWith.lean; Props/C02X / C02Y: the digest signatures
  verify against) are the same function outside the decidable region `leafOnNonTaproot` (leaf keyword arguments for an
  existing non-taproot input): `sighash_models_agree`, exactly (`sighash_models_agree_iff`), with the witness
  `sighash_models_differ_witness`. `sign_with` never passes arguments of the region (`sign_input_one_sighash_model`: the loop
  body of `PSBT.sign_with` / `PSBTView.sign_with` run with either model is the same run), and C02X's digest and validity
  theorems are restated about `Psbt.sighash` (`digest_*`, `added_sigs_valid`, `view_added_sigs_valid`).

  (B-1) BYTE-LEVEL `PSBTView.sign_with`. `View.signWith` (Model/ViewSignBytes.lean, op `sign.viewbytes`) reads every
  input scope from the byte stream at its offset in the view's compress mode and takes its digests from the view's
  streaming `sighash` — `viewbytes_refines_view_*`: for every byte string `PSBT.parse(b, compress=c)` accepts, embedded at
  any offset of any stream, it writes the signature stream and returns the counter of `viewSignWith` over the parsed
  PSBT and raises iff that raises; `viewbytes_eq_memory_*` composes with C02X `view_eq_memory` /
  `view_stream_of_memory`: byte-level view signing = in-memory signing of the parsed PSBT (counter, raise, and the stream
  holds the signature fields of the PSBT `PSBT.sign_with` returns). Excluded regions: those of C01X / C05X
  (v0: a PSBTv2 count key in the global scope — witness C01X.v0_count_key_sighash_differs; v2: a missing count key or
  scopes without their transaction fields).
-/
set_option linter.unusedSimpArgs false
set_option linter.unusedVariables false
set_option maxRecDepth 100000
namespace Embit.Props.C02V
open Embit Model Model.SignWith Spec.Consensus Props.C05X

variable {HD : Type}

/-! ### (B-2) the two models of `PSBT.sighash` -/

/-- outside `leafOnNonTaproot` the two models are the same function (every index, flag, leaf; also where both refuse) -/
theorem sighash_models_agree (sha : Bytes → Bytes) (p : Psbt) (i f : Nat) (leaf : Option (Bytes × Nat))
    (h : leafOnNonTaproot p i leaf = false) :
    psbtSighash sha p i f leaf = Psbt.sighash sha p i f (extraOf leaf) :=
  psbtSighash_eq_model sha p i f leaf h

/-- inside the region `psbtSighash` refuses; `Psbt.sighash` — like psbt.py, which does not forward `**kwargs` to
    `sighash_segwit` / `sighash_legacy` — ignores the leaf arguments -/
theorem sighash_models_region (sha : Bytes → Bytes) (p : Psbt) (i f : Nat) (leaf : Option (Bytes × Nat))
    (h : leafOnNonTaproot p i leaf = true) :
    psbtSighash sha p i f leaf = none ∧ Psbt.sighash sha p i f (extraOf leaf) = Psbt.sighash sha p i f {} :=
  psbtSighash_region sha p i f leaf h

/-- exactly where they agree: outside the region, or where no digest exists anyway -/
theorem sighash_models_agree_iff (sha : Bytes → Bytes) (p : Psbt) (i f : Nat) (leaf : Option (Bytes × Nat)) :
    psbtSighash sha p i f leaf = Psbt.sighash sha p i f (extraOf leaf)
      ↔ (leafOnNonTaproot p i leaf = false ∨ Psbt.sighash sha p i f {} = none) := by
  cases h : leafOnNonTaproot p i leaf with
  | false => simp [psbtSighash_eq_model sha p i f leaf h]
  | true =>
    obtain ⟨h1, h2⟩ := psbtSighash_region sha p i f leaf h
    rw [h1, h2]
    simp [eq_comm]

/-- a P2WPKH input with a witness utxo (toy hash `id`) -/
def exIn : InScope :=
  { txid := some (List.replicate 32 7), vout := some 1,
    witnessUtxo := some { value := 9000, spk := [0x00, 0x14] ++ List.replicate 20 3 } }
def exPsbt : Psbt :=
  { version := some 2, inputs := [exIn], outputs := [{ value := some 5000, spk := some [0x6a] }] }

/-- the region is inhabited and the models differ there: a leaf argument on the P2WPKH input -/
theorem sighash_models_differ_witness :
    leafOnNonTaproot exPsbt 0 (some ([0x51], 0xC0)) = true
    ∧ psbtSighash id exPsbt 0 1 (some ([0x51], 0xC0)) = none
    ∧ (Psbt.sighash id exPsbt 0 1 (extraOf (some ([0x51], 0xC0)))).isSome = true := by decide

/-- `sign_with` stays outside the region: the loop body of `PSBT.sign_with` / `PSBTView.sign_with` for input `i`
    (`signInput`, handed the digest of the PSBT with the scope being signed) is the same run with either model — every
    result, also `none` -/
theorem sign_input_one_sighash_model (O : Ops HD) (sg : Single HD) (auth : Option Nat) (p : Psbt) (i : Nat)
    (seen : List Slot) (s : InScope) (hs : p.inputs[i]? = some s) :
    signInput O sg auth (fun s' f leaf => psbtSighash O.sha (Psbt.setInput p i s') i f leaf) seen s
      = signInput O sg auth (fun s' f leaf => Psbt.sighash O.sha (Psbt.setInput p i s') i f (extraOf leaf)) seen s :=
  signInput_dgModel O sg auth p i seen s hs

/-- … and so is `sign_input` of the view over the parsed scope (all private keys of a descriptor) -/
theorem view_sign_input_one_sighash_model (O : Ops HD) (keys : List (Single HD)) (auth : Option Nat) (p : Psbt)
    (i : Nat) (s : InScope) (hs : p.inputs[i]? = some s) :
    viewSignInput O keys auth (fun s' f leaf => psbtSighash O.sha (Psbt.setInput p i s') i f leaf) s
      = viewSignInput O keys auth (fun s' f leaf => Psbt.sighash O.sha (Psbt.setInput p i s') i f (extraOf leaf)) s :=
  viewSignInput_congr_args O keys auth _ _ s (fun t ht f leaf hl => dgOf_eq_dgModel_args O p i s hs t ht f leaf hl)

/-! #### C02X's digest theorems, about `Psbt.sighash` -/

/-- taproot key path: `PSBT.sighash(i, f)` is the BIP341 digest over all previous outputs -/
theorem digest_taproot_keypath (sha : Bytes → Bytes) (p : Psbt) (i f : Nat) (s : InScope) (u : TxOut) (t : Tx)
    (us : List TxOut) (hs : p.inputs[i]? = some s) (hu : s.utxo = some u) (htap : isTaprootSpk u.spk = true)
    (ht : p.tx = some t) (hus : optAll (p.inputs.map InScope.utxo) = some us) :
    Psbt.sighash sha p i f {} = bip341 sha t i (us.map (·.spk)) (us.map (·.value)) f none none := by
  rw [← C02X.digest_taproot_keypath sha p i f s u t us hs hu htap ht hus]
  exact (psbtSighash_eq_model_valid sha p i s u hs hu f none (by simp)).symm

/-- taproot script path: `PSBT.sighash(i, f, ext_flag=1, script=…, leaf_version=…)` is the BIP341 digest with the leaf -/
theorem digest_taproot_leaf (sha : Bytes → Bytes) (p : Psbt) (i f : Nat) (s : InScope) (u : TxOut) (t : Tx)
    (us : List TxOut) (script : Bytes) (lv : Nat) (hlv : lv < 256)
    (hs : p.inputs[i]? = some s) (hu : s.utxo = some u) (htap : isTaprootSpk u.spk = true)
    (ht : p.tx = some t) (hus : optAll (p.inputs.map InScope.utxo) = some us) :
    Psbt.sighash sha p i f { extFlag := 1, script := some script, leafVer := lv }
      = bip341 sha t i (us.map (·.spk)) (us.map (·.value)) f none
          (some { script := script, version := lv, codesepPos := 0xffffffff }) := by
  rw [← C02X.digest_taproot_leaf sha p i f s u t us script lv hlv hs hu htap ht hus]
  exact (psbtSighash_eq_model_valid sha p i s u hs hu f (some (script, lv)) (fun _ => htap)).symm

/-- segwit v0: BIP143 digest with the script code of C02's dispatch and the utxo's amount -/
theorem digest_segwit (sha : Bytes → Bytes) (p : Psbt) (i f : Nat) (s : InScope) (u : TxOut) (t : Tx) (inp : TxIn)
    (sc : Bytes) (hs : p.inputs[i]? = some s) (hu : s.utxo = some u) (htap : isTaprootSpk u.spk = false)
    (ht : p.tx = some t) (hin : t.vin[i]? = some inp)
    (hd : sighashDispatch u.spk s.witnessScript s.redeemScript s.witnessUtxo.isSome = (Algo.segwit, sc))
    (hf : validFlag f = true) :
    Psbt.sighash sha p i f {} = some (bip143 sha t i inp sc u.value f) := by
  rw [← C02X.digest_segwit sha p i f s u t inp sc hs hu htap ht hin hd hf]
  exact (psbtSighash_eq_model_valid sha p i s u hs hu f none (by simp)).symm

/-- legacy: Satoshi's digest with the script code of C02's dispatch -/
theorem digest_legacy (sha : Bytes → Bytes) (p : Psbt) (i f : Nat) (s : InScope) (u : TxOut) (t : Tx)
    (sc : Bytes) (hs : p.inputs[i]? = some s) (hu : s.utxo = some u) (htap : isTaprootSpk u.spk = false)
    (ht : p.tx = some t)
    (hd : sighashDispatch u.spk s.witnessScript s.redeemScript s.witnessUtxo.isSome = (Algo.legacy, sc))
    (hf : validFlag f = true) :
    Psbt.sighash sha p i f {} = some (legacy sha t i sc f) := by
  rw [← C02X.digest_legacy sha p i f s u t sc hs hu htap ht hd hf]
  exact (psbtSighash_eq_model_valid sha p i s u hs hu f none (by simp)).symm

/-! #### C02X (c), about `Psbt.sighash`: the digest the added signatures verify against is the function C01X speaks about -/

theorem added_sigs_valid (O : Ops HD) (OL : OrderLaws O) (vs : Bytes → Bool) (ev sv : Bytes → Bytes → Bytes → Bool)
    (SL : SigLaws O vs ev sv) (signer : Signer HD) (auth : Option Nat)
    (p p' : Psbt) (n : Nat) (ws : List Write) (h : signWith O signer auth p = some (p', n, ws))
    (i : Nat) (s s' : InScope) (hs : p.inputs[i]? = some s) (hs' : p'.inputs[i]? = some s') (hkeys : KeysValid vs s)
    (sl : Slot) (v : Bytes) (hv : slotValue s' sl = some v) (hnew : slotValue s sl ≠ some v) :
    ∃ u, s.utxo = some u ∧ C02.authorisedFlag auth s.sighashType (isTaprootSpk u.spk) ∧
      ValidWrite ev sv O s u (C02.effective auth s.sighashType (isTaprootSpk u.spk))
        (fun f leaf => Psbt.sighash O.sha p i f (extraOf leaf)) (sl, v) := by
  obtain ⟨u, hu, ha, hw⟩ := C02X.added_sigs_valid O OL vs ev sv SL signer auth p p' n ws h i s s' hs hs' hkeys sl v hv hnew
  exact ⟨u, hu, ha, ValidWrite.congr_digest (fun f leaf hl => psbtSighash_eq_model_valid O.sha p i s u hs hu f leaf hl) hw⟩

theorem view_added_sigs_valid (O : Ops HD) (OL : OrderLaws O) (vs : Bytes → Bool)
    (ev sv : Bytes → Bytes → Bytes → Bool) (SL : SigLaws O vs ev sv) (signer : Signer HD) (auth : Option Nat)
    (p : Psbt) (b : Bytes) (n : Nat) (p' : Psbt) (ws : List Write)
    (h : viewSignWith O signer auth p = some (b, n, p', ws))
    (i : Nat) (s s' : InScope) (hs : p.inputs[i]? = some s) (hs' : p'.inputs[i]? = some s') (hkeys : KeysValid vs s)
    (sl : Slot) (v : Bytes) (hv : slotValue s' sl = some v) (hnew : slotValue s sl ≠ some v) :
    ∃ u, s.utxo = some u ∧ C02.authorisedFlag auth s.sighashType (isTaprootSpk u.spk) ∧
      ValidWrite ev sv O s u (C02.effective auth s.sighashType (isTaprootSpk u.spk))
        (fun f leaf => Psbt.sighash O.sha p i f (extraOf leaf)) (sl, v) := by
  obtain ⟨u, hu, ha, hw⟩ :=
    C02X.view_added_sigs_valid O OL vs ev sv SL signer auth p b n p' ws h i s s' hs hs' hkeys sl v hv hnew
  exact ⟨u, hu, ha, ValidWrite.congr_digest (fun f leaf hl => psbtSighash_eq_model_valid O.sha p i s u hs hu f leaf hl) hw⟩

/-- the whole of `PSBT.sign_with` written over the C01X model of `PSBT.sighash` (`signWithM`, Proofs/SignWithOneSighash.lean:
    the loops of Model/SignWith.lean with `self.sighash(i, f, **leaf kwargs)` modelled by `Psbt.sighash … (extraOf leaf)`) IS
    `signWith`: every result, the trace and `none` included — so every C02X / C02Y / C02Z theorem about `signWith` is a theorem
    about the signing procedure over the function C01X speaks about -/
theorem sign_with_one_sighash_model (O : Ops HD) (signer : Signer HD) (auth : Option Nat) (p : Psbt) :
    signWithM O signer auth p = signWith O signer auth p :=
  signWithM_eq O signer auth p

/-- the driver-level validity theorem of C02Z (no curve hypothesis, standards' verifiers, the objects `sign.run` evaluates),
    about `Psbt.sighash` over the executable SHA-256: the digest every added signature verifies against is the function
    C01X proves equal to the view's streaming digest and to the consensus digest -/
theorem driver_added_sigs_valid_unconditional
    (signer : Signer Driver.SignDrv.HD) (auth : Option Nat)
    (p p' : Psbt) (n : Nat) (ws : List Write) (h : signWith Driver.SignDrv.concreteOps signer auth p = some (p', n, ws))
    (i : Nat) (s s' : InScope) (hsi : p.inputs[i]? = some s) (hsi' : p'.inputs[i]? = some s')
    (hkeys : KeysValid (validSecKey Crypto.secpLawful) s)
    (sl : Slot) (v : Bytes) (hv : slotValue s' sl = some v) (hnew : slotValue s sl ≠ some v) :
    ∃ u, s.utxo = some u ∧ C02.authorisedFlag auth s.sighashType (isTaprootSpk u.spk) ∧
      ValidWrite (ecdsaVerifySec Crypto.secpLawful) (schnorrVerifyX Crypto.secpLawful Crypto.shaOps)
        Driver.SignDrv.concreteOps s u (C02.effective auth s.sighashType (isTaprootSpk u.spk))
        (fun f leaf => Psbt.sighash Crypto.sha256 p i f (extraOf leaf)) (sl, v) := by
  obtain ⟨u, hu, ha, hw⟩ := C02Z.driver_added_sigs_valid_unconditional signer auth p p' n ws h i s s' hsi hsi' hkeys sl v hv hnew
  exact ⟨u, hu, ha, ValidWrite.congr_digest (fun f leaf hl => psbtSighash_eq_model_valid Crypto.sha256 p i s u hsi hu f leaf hl) hw⟩

/-! ### (B-1) byte-level `PSBTView.sign_with` -/

/-- the digests the byte-level model takes from the view while it signs input `i` are `PSBT.sighash` of the parsed PSBT
    holding the scope object being signed — the streaming `sighash_*` over offsets on one side, `Transaction.sighash_*`
    of `PSBT.tx` on the other -/
theorem viewbytes_digest_eq (ko : KeyOps) (O : Ops HD) (buf : Bytes) (v : View) (vc : Nat) (p : Psbt)
    (tx : Tx) (o : ViewObs buf v tx) (htx : p.tx = some tx) (hn : v.numIn = p.inputs.length)
    (hin : ∀ i, View.input ko O.sha buf v i vc = p.inputs[i]?) (i : Nat) (s : InScope)
    (hs : p.inputs[i]? = some s) (t : InScope) (ht : core t = core s) (f : Nat) (leaf : Option (Bytes × Nat))
    (hl : leaf.isSome = true → ∃ u, s.utxo = some u ∧ isTaprootSpk u.spk = true) :
    viewDigest ko O buf v vc i s t f leaf = Psbt.sighash O.sha (Psbt.setInput p i t) i f (extraOf leaf) := by
  rw [viewDigest_eq_dgOf_args ko O buf v vc p tx o htx hn hin i s hs t ht f leaf hl]
  exact dgOf_eq_dgModel_args O p i s hs t ht f leaf hl

/-- one loop iteration, for any view that presents the PSBT: `sign_input(i, …)` over the bytes = over the parsed scope -/
theorem viewbytes_sign_input_refines (ko : KeyOps) (O : Ops HD) (keys : List (Single HD)) (auth : Option Nat)
    (buf : Bytes) (v : View) (vc : Nat) (p : Psbt) (tx : Tx) (o : ViewObs buf v tx) (htx : p.tx = some tx)
    (hn : v.numIn = p.inputs.length) (hin : ∀ i, View.input ko O.sha buf v i vc = p.inputs[i]?)
    (i : Nat) (s : InScope) (hs : p.inputs[i]? = some s) :
    View.signInput ko O keys auth buf v vc i
      = (viewSignInput O keys auth (fun s' f leaf => psbtSighash O.sha (Psbt.setInput p i s') i f leaf) s).map
          (fun r => (r.1, r.2.2.1)) :=
  viewSignInput_bytes_eq ko O keys auth buf v vc p tx o htx hn hin i s hs

/-- version 0, every reader mode `c`, every stream offset: the byte-level model writes the signature stream and returns
    the counter of the model over the parsed PSBT; one raises iff the other does -/
theorem viewbytes_refines_view_v0_partial (ko : KeyOps) (O : Ops HD) (c : Nat) (pre post b : Bytes) (p : Psbt)
    (h : Psbt.parse ko O.sha c b = some p)
    (htx : ∃ x, ([0x00], x) ∈ globalKVs b)
    (hcnt : ∀ kv ∈ globalKVs b, kv.1 ≠ [0x04] ∧ kv.1 ≠ [0x05])
    (signer : Signer HD) (auth : Option Nat) :
    ∃ v, View.open (pre ++ (b ++ post)) pre.length = some v ∧
      View.signWith ko O signer auth (pre ++ (b ++ post)) v c
        = (viewSignWith O signer auth p).map (fun r => (r.1, r.2.1)) := by
  obtain ⟨t, v, ptx, vo, obs⟩ := view_of_parse_v0 ko O.sha c pre post b p h htx hcnt
  exact ⟨v, vo.opened, viewSignWith_bytes_eq ko O signer auth _ v c p t obs ptx vo.numIn vo.input⟩

/-- version 2 (both counts present, every scope carries its transaction fields) -/
theorem viewbytes_refines_view_v2_partial (ko : KeyOps) (O : Ops HD) (c : Nat) (pre post b : Bytes) (p : Psbt) (t : Tx)
    (h : Psbt.parse ko O.sha c b = some p) (hv : p.version = some 2)
    (h4 : ∃ x, ([0x04], x) ∈ globalKVs b) (h5 : ∃ x, ([0x05], x) ∈ globalKVs b) (ptx : p.tx = some t)
    (signer : Signer HD) (auth : Option Nat) :
    ∃ v, View.open (pre ++ (b ++ post)) pre.length = some v ∧
      View.signWith ko O signer auth (pre ++ (b ++ post)) v c
        = (viewSignWith O signer auth p).map (fun r => (r.1, r.2.1)) := by
  obtain ⟨v, vo, a1, a2, a3, a4⟩ := view_of_parse_v2 ko O.sha c pre post b p h hv h4 h5
  have obs := viewObs_v2 _ v p t ptx vo.numIn vo.numOut a1 a2 a3 a4
  exact ⟨v, vo.opened, viewSignWith_bytes_eq ko O signer auth _ v c p t obs ptx vo.numIn vo.input⟩

/-- composition with C02X `view_eq_memory` / `view_stream_of_memory`, for any byte-level run that refines the parsed one:
    same counter, raises iff, and the stream is the signature fields of the PSBT the in-memory variant returns -/
theorem bytes_eq_memory_of_refines (O : Ops HD) (OL : OrderLaws O) (signer : Signer HD) (auth : Option Nat) (p : Psbt)
    (r : Option (Bytes × Nat)) (hr : r = (viewSignWith O signer auth p).map (fun r => (r.1, r.2.1))) :
    r.map Prod.snd = (signWith O signer auth p).map (fun r => r.2.1) ∧
    ∀ p' n ws, signWith O signer auth p = some (p', n, ws) →
      r = some (viewStream signer.keys auth p.inputs p'.inputs, n) := by
  subst hr
  refine ⟨?_, ?_⟩
  · have he := congrArg (Option.map Prod.snd) (C02X.view_eq_memory O signer auth p)
    simp only [Option.map_map] at he ⊢
    exact he
  · intro p' n ws hm
    obtain ⟨ws', hv⟩ := C02X.view_stream_of_memory O OL signer auth p p' n ws hm
    rw [hv]; rfl

/-- version 0: `PSBTView.sign_with` over the byte stream = `PSBT.sign_with` over the parsed PSBT -/
theorem viewbytes_eq_memory_v0_partial (ko : KeyOps) (O : Ops HD) (OL : OrderLaws O) (c : Nat) (pre post b : Bytes)
    (p : Psbt) (h : Psbt.parse ko O.sha c b = some p)
    (htx : ∃ x, ([0x00], x) ∈ globalKVs b)
    (hcnt : ∀ kv ∈ globalKVs b, kv.1 ≠ [0x04] ∧ kv.1 ≠ [0x05])
    (signer : Signer HD) (auth : Option Nat) :
    ∃ v, View.open (pre ++ (b ++ post)) pre.length = some v ∧
      (View.signWith ko O signer auth (pre ++ (b ++ post)) v c).map Prod.snd
        = (signWith O signer auth p).map (fun r => r.2.1) ∧
      ∀ p' n ws, signWith O signer auth p = some (p', n, ws) →
        View.signWith ko O signer auth (pre ++ (b ++ post)) v c
          = some (viewStream signer.keys auth p.inputs p'.inputs, n) := by
  obtain ⟨v, ho, hr⟩ := viewbytes_refines_view_v0_partial ko O c pre post b p h htx hcnt signer auth
  exact ⟨v, ho, bytes_eq_memory_of_refines O OL signer auth p _ hr⟩

/-- version 2 -/
theorem viewbytes_eq_memory_v2_partial (ko : KeyOps) (O : Ops HD) (OL : OrderLaws O) (c : Nat) (pre post b : Bytes)
    (p : Psbt) (t : Tx) (h : Psbt.parse ko O.sha c b = some p) (hv : p.version = some 2)
    (h4 : ∃ x, ([0x04], x) ∈ globalKVs b) (h5 : ∃ x, ([0x05], x) ∈ globalKVs b) (ptx : p.tx = some t)
    (signer : Signer HD) (auth : Option Nat) :
    ∃ v, View.open (pre ++ (b ++ post)) pre.length = some v ∧
      (View.signWith ko O signer auth (pre ++ (b ++ post)) v c).map Prod.snd
        = (signWith O signer auth p).map (fun r => r.2.1) ∧
      ∀ p' n ws, signWith O signer auth p = some (p', n, ws) →
        View.signWith ko O signer auth (pre ++ (b ++ post)) v c
          = some (viewStream signer.keys auth p.inputs p'.inputs, n) := by
  obtain ⟨v, ho, hr⟩ := viewbytes_refines_view_v2_partial ko O c pre post b p t h hv h4 h5 ptx signer auth
  exact ⟨v, ho, bytes_eq_memory_of_refines O OL signer auth p _ hr⟩

/-! ### the environment the driver runs (`sign.viewbytes` vs `sign.run`) -/

/-- what the op `sign.viewbytes` evaluates (view opened at `pre.length` on the raw buffer, mode `c`, the driver's concrete
    environment) against what `sign.run` evaluates on the bytes parsed in mode `c`: same counter, raises iff, and the stream is
    the signature fields of the PSBT `sign.run` dumps — no hypothesis on the environment -/
theorem driver_viewbytes_eq_run_v0_partial (c : Nat) (pre post b : Bytes) (p : Psbt)
    (h : Psbt.parse Driver.SignDrv.signKeyOps Driver.Hs.sha256 c b = some p)
    (htx : ∃ x, ([0x00], x) ∈ globalKVs b)
    (hcnt : ∀ kv ∈ globalKVs b, kv.1 ≠ [0x04] ∧ kv.1 ≠ [0x05])
    (signer : Signer Driver.SignDrv.HD) (auth : Option Nat) :
    ∃ v, View.open (pre ++ (b ++ post)) pre.length = some v ∧
      (View.signWith Driver.SignDrv.signKeyOps Driver.SignDrv.concreteOps signer auth (pre ++ (b ++ post)) v c).map Prod.snd
        = (signWith Driver.SignDrv.concreteOps signer auth p).map (fun r => r.2.1) ∧
      ∀ p' n ws, signWith Driver.SignDrv.concreteOps signer auth p = some (p', n, ws) →
        View.signWith Driver.SignDrv.signKeyOps Driver.SignDrv.concreteOps signer auth (pre ++ (b ++ post)) v c
          = some (viewStream signer.keys auth p.inputs p'.inputs, n) :=
  viewbytes_eq_memory_v0_partial Driver.SignDrv.signKeyOps Driver.SignDrv.concreteOps
    (C02Y.orderLaws_concrete _ _) c pre post b p h htx hcnt signer auth

section remaining
open Embit.Props.C02Y Embit.Props.C08W

/-! ### the remaining C02Y / C02Z validity corollaries, about `Psbt.sighash` (audit2 B-2, second half)

  Each statement below is the C02Y / C02Z theorem of the same name with the digest argument of `ValidWrite`
  `fun f leaf => psbtSighash sha p i f leaf` (the private dispatch of Model/SignWith.lean) replaced by
  `fun f leaf => Psbt.sighash sha p i f (extraOf leaf)` (the C01X model of `PSBT.sighash`): one step,
  `validWrite_one_sighash_model` = `ValidWrite.congr_digest` + `psbtSighash_eq_model_valid`. -/

/-- the step: on an input that has its utxo, a write that is valid against `psbtSighash` is valid against `Psbt.sighash` -/
theorem validWrite_one_sighash_model {HD : Type} {ev sv : Bytes → Bytes → Bytes → Bool} {O : Ops HD} {s : InScope}
    {u : TxOut} {eff : Nat} (sha : Bytes → Bytes) (p : Psbt) (i : Nat) (hs : p.inputs[i]? = some s)
    (hu : s.utxo = some u) {w : Slot × Bytes}
    (hw : ValidWrite ev sv O s u eff (fun f leaf => psbtSighash sha p i f leaf) w) :
    ValidWrite ev sv O s u eff (fun f leaf => Psbt.sighash sha p i f (extraOf leaf)) w :=
  ValidWrite.congr_digest (fun f leaf hl => psbtSighash_eq_model_valid sha p i s u hs hu f leaf hl) hw

variable {E : Embit.EcOps}

theorem added_sigs_valid_concrete (L : Embit.EcLaws E) (hn : E.n ≤ 2 ^ 256) (hp : E.p ≤ 2 ^ 256) (hinf : InfUnique E)
    (hs : Hashes) (fuel : Nat) (signer : Signer (Embit.Keys.HDKey (toKeys E))) (auth : Option Nat)
    (p p' : Psbt) (n : Nat) (ws : List Write) (h : signWith (opsOf E hs fuel) signer auth p = some (p', n, ws))
    (i : Nat) (s s' : InScope) (hsi : p.inputs[i]? = some s) (hsi' : p'.inputs[i]? = some s')
    (hkeys : KeysValid (validSecKey E) s)
    (sl : Slot) (v : Bytes) (hv : slotValue s' sl = some v) (hnew : slotValue s sl ≠ some v) :
    ∃ u, s.utxo = some u ∧ C02.authorisedFlag auth s.sighashType (isTaprootSpk u.spk) ∧
      ValidWrite (ecdsaVerifySec E) (schnorrVerifyX E hs.H) (opsOf E hs fuel) s u
        (C02.effective auth s.sighashType (isTaprootSpk u.spk))
        (fun f leaf => Psbt.sighash hs.H.sha256 p i f (extraOf leaf)) (sl, v) := by
  obtain ⟨u, hu, ha, hw⟩ := C02Y.added_sigs_valid_concrete L hn hp hinf hs fuel signer auth p p' n ws h i s s' hsi hsi' hkeys sl v hv hnew
  exact ⟨u, hu, ha, validWrite_one_sighash_model _ p i hsi hu hw⟩

theorem view_added_sigs_valid_concrete (L : Embit.EcLaws E) (hn : E.n ≤ 2 ^ 256) (hp : E.p ≤ 2 ^ 256)
    (hinf : InfUnique E) (hs : Hashes) (fuel : Nat) (signer : Signer (Embit.Keys.HDKey (toKeys E)))
    (auth : Option Nat) (p : Psbt) (b : Bytes) (n : Nat) (p' : Psbt) (ws : List Write)
    (h : viewSignWith (opsOf E hs fuel) signer auth p = some (b, n, p', ws))
    (i : Nat) (s s' : InScope) (hsi : p.inputs[i]? = some s) (hsi' : p'.inputs[i]? = some s')
    (hkeys : KeysValid (validSecKey E) s)
    (sl : Slot) (v : Bytes) (hv : slotValue s' sl = some v) (hnew : slotValue s sl ≠ some v) :
    ∃ u, s.utxo = some u ∧ C02.authorisedFlag auth s.sighashType (isTaprootSpk u.spk) ∧
      ValidWrite (ecdsaVerifySec E) (schnorrVerifyX E hs.H) (opsOf E hs fuel) s u
        (C02.effective auth s.sighashType (isTaprootSpk u.spk))
        (fun f leaf => Psbt.sighash hs.H.sha256 p i f (extraOf leaf)) (sl, v) := by
  obtain ⟨u, hu, ha, hw⟩ := C02Y.view_added_sigs_valid_concrete L hn hp hinf hs fuel signer auth p b n p' ws h i s s' hsi hsi' hkeys sl v hv hnew
  exact ⟨u, hu, ha, validWrite_one_sighash_model _ p i hsi hu hw⟩

theorem added_sigs_valid_standards (L : Embit.EcLaws E) (hn : E.n ≤ 2 ^ 256) (hp : E.p ≤ 2 ^ 256) (hinf : InfUnique E)
    (hs : Hashes) (fuel : Nat) (signer : Signer (Embit.Keys.HDKey (toKeys E))) (auth : Option Nat)
    (p p' : Psbt) (n : Nat) (ws : List Write) (h : signWith (opsOf E hs fuel) signer auth p = some (p', n, ws))
    (i : Nat) (s s' : InScope) (hsi : p.inputs[i]? = some s) (hsi' : p'.inputs[i]? = some s')
    (hkeys : KeysValid (validSecKey E) s)
    (sl : Slot) (v : Bytes) (hv : slotValue s' sl = some v) (hnew : slotValue s sl ≠ some v) :
    ∃ u, s.utxo = some u ∧ C02.authorisedFlag auth s.sighashType (isTaprootSpk u.spk) ∧
      ValidWrite (ecdsaVerifySpec E) (fun xo m sig => Spec.Bip340.verify E hs.H xo m sig) (opsOf E hs fuel) s u
        (C02.effective auth s.sighashType (isTaprootSpk u.spk))
        (fun f leaf => Psbt.sighash hs.H.sha256 p i f (extraOf leaf)) (sl, v) := by
  obtain ⟨u, hu, ha, hw⟩ := C02Y.added_sigs_valid_standards L hn hp hinf hs fuel signer auth p p' n ws h i s s' hsi hsi' hkeys sl v hv hnew
  exact ⟨u, hu, ha, validWrite_one_sighash_model _ p i hsi hu hw⟩

theorem view_added_sigs_valid_standards (L : Embit.EcLaws E) (hn : E.n ≤ 2 ^ 256) (hp : E.p ≤ 2 ^ 256)
    (hinf : InfUnique E) (hs : Hashes) (fuel : Nat) (signer : Signer (Embit.Keys.HDKey (toKeys E)))
    (auth : Option Nat) (p : Psbt) (b : Bytes) (n : Nat) (p' : Psbt) (ws : List Write)
    (h : viewSignWith (opsOf E hs fuel) signer auth p = some (b, n, p', ws))
    (i : Nat) (s s' : InScope) (hsi : p.inputs[i]? = some s) (hsi' : p'.inputs[i]? = some s')
    (hkeys : KeysValid (validSecKey E) s)
    (sl : Slot) (v : Bytes) (hv : slotValue s' sl = some v) (hnew : slotValue s sl ≠ some v) :
    ∃ u, s.utxo = some u ∧ C02.authorisedFlag auth s.sighashType (isTaprootSpk u.spk) ∧
      ValidWrite (ecdsaVerifySpec E) (fun xo m sig => Spec.Bip340.verify E hs.H xo m sig) (opsOf E hs fuel) s u
        (C02.effective auth s.sighashType (isTaprootSpk u.spk))
        (fun f leaf => Psbt.sighash hs.H.sha256 p i f (extraOf leaf)) (sl, v) := by
  obtain ⟨u, hu, ha, hw⟩ := C02Y.view_added_sigs_valid_standards L hn hp hinf hs fuel signer auth p b n p' ws h i s s' hsi hsi' hkeys sl v hv hnew
  exact ⟨u, hu, ha, validWrite_one_sighash_model _ p i hsi hu hw⟩

theorem parsed_added_sigs_valid (L : Embit.EcLaws E) (hn : E.n ≤ 2 ^ 256) (hp : E.p ≤ 2 ^ 256) (hinf : InfUnique E)
    (hs : Hashes) (fuel : Nat) (validXpub : Bytes → Bool) (compress : Nat) (raw : Bytes)
    (signer : Signer (Embit.Keys.HDKey (toKeys E))) (auth : Option Nat) (p p' : Psbt) (n : Nat) (ws : List Write)
    (hparse : Psbt.parse (keyOpsOf E validXpub) hs.H.sha256 compress raw = some p)
    (h : signWith (opsOf E hs fuel) signer auth p = some (p', n, ws))
    (i : Nat) (s s' : InScope) (hsi : p.inputs[i]? = some s) (hsi' : p'.inputs[i]? = some s')
    (sl : Slot) (v : Bytes) (hv : slotValue s' sl = some v) (hnew : slotValue s sl ≠ some v) :
    ∃ u, s.utxo = some u ∧ C02.authorisedFlag auth s.sighashType (isTaprootSpk u.spk) ∧
      ValidWrite (ecdsaVerifySpec E) (fun xo m sig => Spec.Bip340.verify E hs.H xo m sig) (opsOf E hs fuel) s u
        (C02.effective auth s.sighashType (isTaprootSpk u.spk))
        (fun f leaf => Psbt.sighash hs.H.sha256 p i f (extraOf leaf)) (sl, v) := by
  obtain ⟨u, hu, ha, hw⟩ := C02Y.parsed_added_sigs_valid L hn hp hinf hs fuel validXpub compress raw signer auth p p' n ws hparse h i s s' hsi hsi' sl v hv hnew
  exact ⟨u, hu, ha, validWrite_one_sighash_model _ p i hsi hu hw⟩

/-! #### the driver's runs (C02Z): no hypothesis left -/

theorem driver_view_added_sigs_valid_unconditional
    (signer : Signer Driver.SignDrv.HD) (auth : Option Nat) (p : Psbt) (b : Bytes) (n : Nat) (p' : Psbt) (ws : List Write)
    (h : viewSignWith Driver.SignDrv.concreteOps signer auth p = some (b, n, p', ws))
    (i : Nat) (s s' : InScope) (hsi : p.inputs[i]? = some s) (hsi' : p'.inputs[i]? = some s')
    (hkeys : KeysValid (validSecKey Crypto.secpLawful) s)
    (sl : Slot) (v : Bytes) (hv : slotValue s' sl = some v) (hnew : slotValue s sl ≠ some v) :
    ∃ u, s.utxo = some u ∧ C02.authorisedFlag auth s.sighashType (isTaprootSpk u.spk) ∧
      ValidWrite (ecdsaVerifySec Crypto.secpLawful) (schnorrVerifyX Crypto.secpLawful Crypto.shaOps)
        Driver.SignDrv.concreteOps s u (C02.effective auth s.sighashType (isTaprootSpk u.spk))
        (fun f leaf => Psbt.sighash Crypto.sha256 p i f (extraOf leaf)) (sl, v) := by
  obtain ⟨u, hu, ha, hw⟩ := C02Z.driver_view_added_sigs_valid_unconditional signer auth p b n p' ws h i s s' hsi hsi' hkeys sl v hv hnew
  exact ⟨u, hu, ha, validWrite_one_sighash_model _ p i hsi hu hw⟩

theorem driver_parsed_added_sigs_valid_unconditional (compress : Nat) (raw : Bytes)
    (signer : Signer Driver.SignDrv.HD) (auth : Option Nat) (p p' : Psbt) (n : Nat) (ws : List Write)
    (hparse : Psbt.parse Driver.SignDrv.signKeyOps Crypto.sha256 compress raw = some p)
    (h : signWith Driver.SignDrv.concreteOps signer auth p = some (p', n, ws))
    (i : Nat) (s s' : InScope) (hsi : p.inputs[i]? = some s) (hsi' : p'.inputs[i]? = some s')
    (sl : Slot) (v : Bytes) (hv : slotValue s' sl = some v) (hnew : slotValue s sl ≠ some v) :
    ∃ u, s.utxo = some u ∧ C02.authorisedFlag auth s.sighashType (isTaprootSpk u.spk) ∧
      ValidWrite (ecdsaVerifySpec Crypto.secpLawful)
        (fun xo m sig => Spec.Bip340.verify Crypto.secpLawful Crypto.shaOps xo m sig)
        Driver.SignDrv.concreteOps s u (C02.effective auth s.sighashType (isTaprootSpk u.spk))
        (fun f leaf => Psbt.sighash Crypto.sha256 p i f (extraOf leaf)) (sl, v) := by
  obtain ⟨u, hu, ha, hw⟩ := C02Z.driver_parsed_added_sigs_valid_unconditional compress raw signer auth p p' n ws hparse h i s s' hsi hsi' sl v hv hnew
  exact ⟨u, hu, ha, validWrite_one_sighash_model _ p i hsi hu hw⟩

theorem driver_parsed_view_added_sigs_valid_unconditional (compress : Nat) (raw : Bytes)
    (signer : Signer Driver.SignDrv.HD) (auth : Option Nat) (p : Psbt) (b : Bytes) (n : Nat) (p' : Psbt) (ws : List Write)
    (hparse : Psbt.parse Driver.SignDrv.signKeyOps Crypto.sha256 compress raw = some p)
    (h : viewSignWith Driver.SignDrv.concreteOps signer auth p = some (b, n, p', ws))
    (i : Nat) (s s' : InScope) (hsi : p.inputs[i]? = some s) (hsi' : p'.inputs[i]? = some s')
    (sl : Slot) (v : Bytes) (hv : slotValue s' sl = some v) (hnew : slotValue s sl ≠ some v) :
    ∃ u, s.utxo = some u ∧ C02.authorisedFlag auth s.sighashType (isTaprootSpk u.spk) ∧
      ValidWrite (ecdsaVerifySpec Crypto.secpLawful)
        (fun xo m sig => Spec.Bip340.verify Crypto.secpLawful Crypto.shaOps xo m sig)
        Driver.SignDrv.concreteOps s u (C02.effective auth s.sighashType (isTaprootSpk u.spk))
        (fun f leaf => Psbt.sighash Crypto.sha256 p i f (extraOf leaf)) (sl, v) := by
  obtain ⟨u, hu, ha, hw⟩ := C02Z.driver_parsed_view_added_sigs_valid_unconditional compress raw signer auth p b n p' ws hparse h i s s' hsi hsi' sl v hv hnew
  exact ⟨u, hu, ha, validWrite_one_sighash_model _ p i hsi hu hw⟩

end remaining

/-! ### non-vacuity -/

/-- a version-0 PSBT with one P2WPKH input whose key hash is the toy environment's `hash160` of the key `02 07` -/
def exBytes : Bytes :=
  psbtMagic ++ writeKVs [([0x00], Tx.ser C05X.exTx)]
    ++ writeKVs [([0x01], TxOut.ser { value := 9000, spk := [0x00, 0x14, 0x02, 0x07] ++ List.replicate 18 3 })]
    ++ writeKVs []

/-- the toy environment of C02X with the hash the toy PSBT parser uses -/
def toyOps : Ops (List Nat) := { C02X.toyOps with sha := id }

/-- the hypotheses of `viewbytes_eq_memory_v0_partial` are satisfiable (`OrderLaws` too), the byte-level model evaluated
    at a non-zero stream offset with trailing bytes signs (one signature, counter 1, a non-empty stream), and equals the
    parsed-PSBT model evaluated on the parsed bytes -/
example : (Psbt.parse C04.trivialKo toyOps.sha 0 exBytes).isSome = true
    ∧ (∃ x, ([0x00], x) ∈ globalKVs exBytes) ∧ (∀ kv ∈ globalKVs exBytes, kv.1 ≠ [0x04] ∧ kv.1 ≠ [0x05])
    ∧ OrderLaws toyOps
    ∧ ((View.open ([1, 2, 3] ++ (exBytes ++ [9])) 3).bind fun v =>
          (View.signWith C04.trivialKo toyOps (.single (.wif [7, 9] true)) (some 1) ([1, 2, 3] ++ (exBytes ++ [9])) v 0).map
            (fun r => (r.1.length, r.2))) = some (147, 1)
    ∧ ((View.open ([1, 2, 3] ++ (exBytes ++ [9])) 3).bind fun v =>
          View.signWith C04.trivialKo toyOps (.single (.wif [7, 9] true)) (some 1) ([1, 2, 3] ++ (exBytes ++ [9])) v 0)
        = ((Psbt.parse C04.trivialKo toyOps.sha 0 exBytes).bind fun p =>
            (viewSignWith toyOps (.single (.wif [7, 9] true)) (some 1) p).map (fun r => (r.1, r.2.1))) := by
  have hg : globalKVs exBytes = [([0x00], Tx.ser C05X.exTx)] := by decide
  refine ⟨by decide, ⟨Tx.ser C05X.exTx, by rw [hg]; simp⟩, ?_,
    ⟨fun _ => List.Perm.refl _, fun l => List.reverse_perm l⟩, by decide +kernel, by decide +kernel⟩
  rw [hg]; intro kv hkv; simp at hkv; subst hkv; decide

end Embit.Props.C02V
