import EmbitModel.Props.C14
import EmbitModel.Props.C12
import EmbitModel.Proofs.OwnsParsed
/-
  C14 (audit items A16 / A15 / I15 / I19 / I14) — the theorems of Props/C14.lean for the descriptors the parser returns.

  `C14.owns_sound` holds for every key list under two premises: every key view is well-formed (`hwf`: at most one
  wildcard and one branch set in the allowed derivation) and the derive-then-script function raises at hardened
  indexes (`hhard`). Here both are DISCHARGED for every object `Descriptor.from_string` returns
  (`Desc.parse ops t = some d`), for every instance `ops` of the key operations and every hash functions `hs`:

    * `parsed_keys_wf`      — `hwf` holds of the views `Desc.owns` builds from `Desc.keys` (through `Key.read_from`,
                               every descriptor form, miniscript keys, multi / sortedmulti, tap trees);
    * `parsed_derive_hardened` — `hhard` holds as soon as one key carries a derivation; it is FALSE without one
                               (`hhard_false_without_derivation`), but then `owns` never answers True
                               (`Model.Descriptor.ownsCore_no_allowed`), so
    * `owns_sound_parsed`   — soundness with NO premise besides "the descriptor was parsed";
    * `owns_parsed_script_eq_spec` — composed with C12 `script_eq_spec`: the claimed scope's script is the script
                               BIP380–386 prescribe (`scriptAt`) for the recorded path (audit I19 / A15);
    * `owns_raises_on_hardened_record` — the region `owns_complete` excludes by `NoRaise`, exhibited.
-/
namespace Embit.Props.C14X
open Embit Embit.Miniscript Embit.Model.Descriptor Embit.Spec.Descriptor

variable {K : Type}

/-! ### the premises of `owns_sound`, for parsed descriptors -/

/-- PREMISE `hwf`. The key views `Desc.owns` hands to the decision procedure (`d.keys.map (KeyExpr.view ops hs)`:
    the very list in `C14.desc_owns_eq`) are well-formed for every parsed descriptor: at most one wildcard and at
    most one branch set per key (`AllowedDerivation.__init__`, reached through `Key.read_from` from every
    descriptor form: pkh, wpkh, sh(wpkh), sh / wsh / sh(wsh) over any miniscript incl. multi / sortedmulti / thresh,
    tr with and without a tap tree). No hypothesis on the key codecs. -/
theorem parsed_keys_wf (ops : KeyOps K) (hs : Hashes) (t : Str) (d : Desc K) (hp : Desc.parse ops t = some d) :
    ∀ k, k ∈ d.keys.map (KeyExpr.view ops hs) → k.WF :=
  parse_views_wf ops hs t d hp

/-- the same on the key expressions themselves, with what `Key.__init__` adds: a key that carries derivation steps
    is an extended key (its view has `extended = true`) -/
theorem parsed_keys_steps (ops : KeyOps K) (hs : Hashes) (t : Str) (d : Desc K) (hp : Desc.parse ops t = some d)
    (k : KeyExpr K) (hk : k ∈ d.keys) (ix : List Step) (hix : k.deriv = some ix) :
    wildCount ix ≤ 1 ∧ setCount ix ≤ 1 ∧ (k.view ops hs).extended = true := by
  obtain ⟨hwf, hd⟩ := parse_keys_deriv ops t d hp k hk ix hix
  refine ⟨hwf.1, hwf.2, ?_⟩
  unfold KeyExpr.view
  cases hkey : k.key with
  | raw s => rw [hkey] at hd; cases hd
  | obj key =>
    rw [hkey] at hd
    have hkind : (ops.kind key == KeyKind.xkey) = true := hd
    simp [hkind]

/-- a parsed descriptor has EITHER a miniscript OR a key (+ tap tree), and is one of the seven forms of BIP380–386 -/
theorem parsed_shaped (ops : KeyOps K) (t : Str) (d : Desc K) (hp : Desc.parse ops t = some d) :
    (d.miniscript = none ∨ (d.key = none ∧ d.taptree = .empty)) ∧ ∃ fm, formOf d = some fm :=
  ⟨parse_shaped ops t d hp, parse_formOf ops t d hp⟩

/-- PREMISE `hhard`. `Descriptor.derive` of a parsed descriptor raises at every hardened index as soon as one of
    its keys carries a derivation (the side condition `hshape` of `C14.desc_derive_hardened` follows from parsing).
    Without any derivation the premise is false — `hhard_false_without_derivation` — and not needed. -/
theorem parsed_derive_hardened (ops : KeyOps K) (hs : Hashes) (t : Str) (d : Desc K)
    (hp : Desc.parse ops t = some d) (k : KeyExpr K) (hk : k ∈ d.keys) (ix : List Step) (hix : k.deriv = some ix) :
    ∀ i b, i ≥ 2 ^ 31 → d.deriveScript ops hs i b = none :=
  fun i b hi => C14.desc_derive_hardened ops hs d (parse_shaped ops t d hp) k hk ix hix i b hi

/-! ### soundness without premises -/

/-- SOUNDNESS FOR PARSED DESCRIPTORS — no well-formedness premise, no premise on `derive`. If `Descriptor.owns` of a
    descriptor obtained from `Descriptor.from_string` answers True, the scope has a script, of the descriptor's script
    type, and some recorded derivation (either PSBT map) is the metadata of one of the descriptor's extended keys at an
    UNHARDENED index `i` on an ALLOWED branch `b`, and the script the descriptor itself derives at (i, b)
    (`d.deriveScript` = `derive(i, branch_index=b).script_pubkey()`) is the scope's script: the conclusion of
    `C14.owns_sound` with `ds` := the descriptor's own derive-then-script function.
    Proof: `C14.desc_owns_eq` + `C14.owns_sound` with `hwf` := `parsed_keys_wf` and `hhard` :=
    `parsed_derive_hardened` when some key has a derivation; when none has, no `check_derivation` can match and the
    answer is never True. -/
theorem owns_sound_parsed (ops : KeyOps K) (hs : Hashes) (t : Str) (d : Desc K) (sc : Scope)
    (hp : Desc.parse ops t = some d) (h : d.owns ops hs sc = some true) :
    Owned (d.keys.map (KeyExpr.view ops hs)) (d.deriveScript ops hs) sc
      ∧ ∃ spk, sc.spk = some spk ∧ scriptType spk = d.spkType := by
  rw [C14.desc_owns_eq] at h
  by_cases hex : ∃ k, k ∈ d.keys ∧ ∃ ix, k.deriv = some ix
  · obtain ⟨k, hk, ix, hix⟩ := hex
    exact C14.owns_sound _ _ _ sc (parsed_keys_wf ops hs t d hp) (parsed_derive_hardened ops hs t d hp k hk ix hix) h
  · exfalso
    refine ownsCore_no_allowed ?_ h
    intro v hv
    obtain ⟨k, hk, rfl⟩ := List.mem_map.mp hv
    show k.deriv = none
    cases hd : k.deriv with
    | none => rfl
    | some ix => exact absurd ⟨k, hk, ix, hd⟩ hex

/-- NEVER CLAIMS, for parsed descriptors: unless some recorded derivation is the metadata of an extended key of the
    descriptor at an unhardened index on an allowed branch with the derived script equal to the scope's script, the
    answer is not True (it is False, or the call raises) -/
theorem never_claims_parsed (ops : KeyOps K) (hs : Hashes) (t : Str) (d : Desc K) (sc : Scope)
    (hp : Desc.parse ops t = some d)
    (h : ¬ Owned (d.keys.map (KeyExpr.view ops hs)) (d.deriveScript ops hs) sc) : d.owns ops hs sc ≠ some true :=
  fun ht => h (owns_sound_parsed ops hs t d sc hp ht).1

/-- COMPOSITION WITH C12 (audit I19; the non-trivial companion of `C14.desc_owns_eq`, audit A15). A scope claimed by
    a parsed descriptor pays to the script BIP380–386 PRESCRIBE for the recorded path: `Owned` holds with
    `Spec.Descriptor.scriptAt` (the specification's script at (i, b), built from the BIP32 children `deriveKey` of the
    key expressions) in place of the model's own derive function. `laws` / `hargs` are the hypotheses of
    `C12.script_eq_spec` (named laws of the key operations — C09 —, direct pushes and equal-length keys in a
    `sortedmulti`); `Shaped` and `formOf d ≠ none` of that theorem follow from parsing. -/
theorem owns_parsed_script_eq_spec {ops : KeyOps K} {hs : Hashes} {tweakAdd : Bytes → Bytes → Option Bytes}
    (laws : KeyLaws ops hs tweakAdd) (t : Str) (d : Desc K) (sc : Scope) (hp : Desc.parse ops t = some d)
    (hargs : ∀ i b, i < 2 ^ 31 → ∀ e ∈ d.exprs, ∀ m,
      e.toMs (argBytes hs d.taproot (fun k => deriveKey ops k i b)) = some m → m.argsOk = true)
    (h : d.owns ops hs sc = some true) :
    Owned (d.keys.map (KeyExpr.view ops hs)) (scriptAt ops hs tweakAdd d) sc
      ∧ ∃ spk, sc.spk = some spk ∧ scriptType spk = d.spkType := by
  obtain ⟨⟨spk, hspk, r, hr, k, hk, hext, i, b, hrec, hi, hb, hd⟩, hty⟩ := owns_sound_parsed ops hs t d sc hp h
  refine ⟨⟨spk, hspk, r, hr, k, hk, hext, i, b, hrec, hi, hb, ?_⟩, hty⟩
  obtain ⟨fm, hfm⟩ := parse_formOf ops t d hp
  unfold Desc.deriveScript at hd
  cases hder : d.derive ops hs i (some b) with
  | none => rw [hder] at hd; cases hd
  | some d' =>
    rw [hder] at hd
    have hsp : d'.scriptPubkey ops hs = some spk := hd
    rw [← C12.script_eq_spec laws d d' fm i b hi (parse_shaped ops t d hp) hfm hder (hargs i b hi)]
    exact hsp

/-! ### the region `owns_complete` excludes by `NoRaise` -/

/-- the honest scope of `C14.exScope` (the descriptor's own branch-1 output at index 5, with the two derivation
    records embit itself writes) plus ONE extra record in front: the second key's fingerprint and path with the
    index hardened (`5 + 2^31`) -/
def hardScope : Scope :=
  { C14.exScope with derivs := ⟨[2, 2, 2, 2], [48, 1, 5 + 2 ^ 31]⟩ :: C14.exScope.derivs }

/-- WITNESS of the excluded region (audit I14 / A16). On an honest scope — right script, honest derivation records —
    to which one record with a HARDENED index for the same key has been added in front, the model, like embit,
    RAISES (`none`) instead of answering True; with the extra record behind the honest ones, or without it, the
    scope is claimed.
    This is exactly what `NoRaise` in `C14.owns_complete` excludes (`all_but_noRaise` below: every other hypothesis
    of `owns_complete` holds here). On embit: `AllowedDerivation.fill` (descriptor/arguments.py) raises
    `ArgumentError("Hardened indexes are not allowed in wildcard")` from `Descriptor.derive`, called by `owns` for
    the record `Key.check_derivation` has just matched, before the honest record is reached (replayed on the real
    code, see HANDOFF-polish-C14.md). Property C14 is worded as a claim about ANSWERS ("never claims a scope …",
    "does claim every scope carrying a script it generated together with that script's derivation metadata"): a
    raise is not a wrong answer, so this is recorded as an OBSERVATION, not as a violation — but a caller that
    feeds third-party PSBT outputs to `owns` must be prepared for the exception. -/
theorem owns_raises_on_hardened_record :
    ownsCore C14.exKeys (some .p2wpkh) C14.exDerive hardScope = none
    ∧ ownsCore C14.exKeys (some .p2wpkh) C14.exDerive C14.exScope = some true
    ∧ ownsCore C14.exKeys (some .p2wpkh) C14.exDerive
        { C14.exScope with derivs := C14.exScope.derivs ++ [⟨[2, 2, 2, 2], [48, 1, 5 + 2 ^ 31]⟩] } = some true := by
  decide

/-- every hypothesis of `C14.owns_complete` other than `NoRaise` holds of `hardScope` (so `NoRaise` alone is what
    separates it from the claimed scopes), and `NoRaise` fails there -/
theorem all_but_noRaise :
    let k : KeyView := { extended := true, fingerprint := some [2, 2, 2, 2], originPath := [48],
                         myFingerprint := some [9, 9, 9, 2], allowed := some [.set [some 0, some 1], .wild] }
    let r : DerivRec := ⟨[2, 2, 2, 2], [48, 1, 5]⟩
    hardScope.spk = some (C14.exSpk 11) ∧ scriptType (C14.exSpk 11) = some .p2wpkh
      ∧ r ∈ hardScope.derivs ++ hardScope.tapDerivs ∧ k ∈ C14.exKeys ∧ k.extended = true
      ∧ NoDupSteps [.set [some 0, some 1], .wild] = true ∧ wildCount [.set [some 0, some 1], .wild] ≠ 0
      ∧ setCount [.set [some 0, some 1], .wild] ≠ 0 ∧ k.OriginConsistent ∧ RecordOf k r 5 1
      ∧ C14.exDerive 5 1 = some (C14.exSpk 11)
      ∧ ¬ NoRaise C14.exKeys C14.exDerive (hardScope.derivs ++ hardScope.tapDerivs) := by
  intro k r
  have hk : k ∈ C14.exKeys := List.mem_cons_of_mem _ List.mem_cons_self
  refine ⟨rfl, by decide, by decide, hk, rfl, by decide, by decide, by decide, ?_, ?_, by decide, ?_⟩
  · intro fp h1 h2
    have h1' : some [9, 9, 9, 2] = some fp := h1
    have h2' : some [2, 2, 2, 2] = some fp := h2
    rw [← h1'] at h2'
    exact absurd h2' (by decide)
  · exact ⟨[.set [some 0, some 1], .wild], [1, 5], rfl, by decide, Or.inl ⟨rfl, by decide⟩⟩
  · intro hnr
    have := hnr ⟨[2, 2, 2, 2], [48, 1, 5 + 2 ^ 31]⟩ (by decide) k hk rfl (5 + 2 ^ 31) 1 (by decide)
    exact absurd this (by decide)

/-! ### non-vacuity: a toy instance of the key operations whose extended keys really derive -/

/-- keys: a public key = its SEC bytes; an extended key = its text and the path derived so far (any text of ≥ 4
    characters not starting with `[`; `Key.parse_key` sends texts with `pub` / `prv` at [1:4] here) -/
inductive TKey
  | pub (b : Bytes)
  | x (s : Str) (path : List Nat)
deriving DecidableEq, Repr

/-- the "public key" of an extended toy key shows its path: 02 ‖ path bytes ‖ 07 … (33 bytes) -/
def tSec : TKey → Bytes
  | .pub b => b
  | .x _ p => 2 :: ((p.map UInt8.ofNat) ++ List.replicate 32 7).take 32

def secShapeB (b : Bytes) : Bool :=
  match b with
  | [] => false
  | x :: rest => (rest.length == 32 && (x == 2 || x == 3)) || (rest.length == 64 && x == 4)

def tHashes : Hashes :=
  ⟨fun b => (b ++ List.replicate 32 0).take 32, fun b => (b ++ List.replicate 20 0).take 20,
   fun _ b => (b.reverse ++ List.replicate 32 0).take 32⟩

def tTweakAdd (x t : Bytes) : Option Bytes := some ((t.take 16 ++ x ++ List.replicate 32 0).take 32)

def tOps : KeyOps TKey where
  kind := fun k => match k with | .pub _ => .pub | .x _ _ => .xkey
  parseSec := fun b => if secShapeB b then some (.pub b) else none
  parseXkey := fun s => if 4 ≤ s.length ∧ s.head? ≠ some '[' then some (.x s []) else none
  parseWif := fun _ => none
  text := fun k => match k with | .pub _ => none | .x s _ => some s
  sec := tSec
  isPrivate := fun _ => false
  derive := fun k p => match k with
    | .pub _ => none
    | .x s q => if none ∈ p then none else some (.x s (q ++ p.filterMap id))
  toPublic := fun k => some k
  tweak := fun k m => tTweakAdd (xonlyOf (tSec k)) (tHashes.tagged "TapTweak" (xonlyOf (tSec k) ++ m))

theorem tLaws : KeyLaws tOps tHashes tTweakAdd := by
  refine ⟨?_, ?_, ?_, ?_⟩
  · intro k path h
    cases k with
    | pub b => rfl
    | x s q => simp [tOps, h]
  · intro k m; rfl
  · intro k p h; simp [tOps] at h; subst h; rfl
  · intro k p path c c' hp h1 h2
    simp only [tOps, Option.some.injEq] at hp
    subst hp
    rw [h1] at h2
    cases h2
    rfl

/-- `wpkh([d34db33f/84h]xpub1/<0;1>/*)` -/
def exText : Str := "wpkh([d34db33f/84h]xpub1/<0;1>/*)".toList

/-- the script the toy descriptor derives at index 5 on branch 1: `OP_0 <20 bytes: 02 01 05 07 …>` -/
def exSpk : Bytes := [0x00, 0x14, 2, 1, 5] ++ List.replicate 17 7

/-- its honest derivation record: origin fingerprint, origin path 84h, branch 1, index 5 -/
def exRec : DerivRec := ⟨[0xd3, 0x4d, 0xb3, 0x3f], [84 + 2 ^ 31, 1, 5]⟩

/-- the same record with the index hardened -/
def exRecHard : DerivRec := ⟨[0xd3, 0x4d, 0xb3, 0x3f], [84 + 2 ^ 31, 1, 5 + 2 ^ 31]⟩

def exOut : Scope := { spk := some exSpk, derivs := [exRec], tapDerivs := [] }

set_option maxRecDepth 100000 in
/-- the PARSED toy descriptor (an extended key with an origin, a branch set and a wildcard) claims its own output
    (branch 1, index 5); does not claim it under the record of another index, of a branch outside the set, of a
    foreign fingerprint, or when the script is that of index 6; raises when a hardened record for the same key
    precedes the honest one, claims when it follows -/
theorem parsed_owns_examples :
    (Desc.parse tOps exText).map (fun d => d.owns tOps tHashes exOut) = some (some true)
    ∧ (Desc.parse tOps exText).map (fun d => d.owns tOps tHashes
        { exOut with derivs := [⟨[0xd3, 0x4d, 0xb3, 0x3f], [84 + 2 ^ 31, 1, 6]⟩] }) = some (some false)
    ∧ (Desc.parse tOps exText).map (fun d => d.owns tOps tHashes
        { exOut with derivs := [⟨[0xd3, 0x4d, 0xb3, 0x3f], [84 + 2 ^ 31, 2, 5]⟩] }) = some (some false)
    ∧ (Desc.parse tOps exText).map (fun d => d.owns tOps tHashes
        { exOut with derivs := [⟨[0xd3, 0x4d, 0xb3, 0x3e], [84 + 2 ^ 31, 1, 5]⟩] }) = some (some false)
    ∧ (Desc.parse tOps exText).map (fun d => d.owns tOps tHashes
        { exOut with spk := some ([0x00, 0x14, 2, 1, 6] ++ List.replicate 17 7) }) = some (some false)
    ∧ (Desc.parse tOps exText).map (fun d => d.owns tOps tHashes
        { exOut with derivs := [exRecHard, exRec] }) = some none
    ∧ (Desc.parse tOps exText).map (fun d => d.owns tOps tHashes
        { exOut with derivs := [exRec, exRecHard] }) = some (some true) := by
  decide +kernel

/-- the hypotheses of `owns_sound_parsed` are satisfiable: a text that parses to a descriptor whose `owns` answers
    True — and the conclusion then names index 5 on branch 1 -/
example : ∃ d, Desc.parse tOps exText = some d ∧ d.owns tOps tHashes exOut = some true := by
  have h := parsed_owns_examples.1
  cases hp : Desc.parse tOps exText with
  | none => rw [hp] at h; cases h
  | some d => rw [hp] at h; exact ⟨d, rfl, by simpa using h⟩

/-- the raise of `owns_raises_on_hardened_record` on a PARSED descriptor: honest scope plus one hardened record for
    the same key in front -/
theorem parsed_owns_raises_on_hardened_record :
    ∃ d, Desc.parse tOps exText = some d ∧ d.owns tOps tHashes exOut = some true
      ∧ d.owns tOps tHashes { exOut with derivs := [exRecHard, exRec] } = none := by
  have h1 := parsed_owns_examples.1
  have h2 := parsed_owns_examples.2.2.2.2.2.1
  cases hp : Desc.parse tOps exText with
  | none => rw [hp] at h1; cases h1
  | some d =>
    rw [hp] at h1 h2
    exact ⟨d, rfl, by simpa using h1, by simpa using h2⟩

set_option maxRecDepth 100000 in
/-- the hypotheses of `owns_parsed_script_eq_spec` are satisfiable (toy key laws, the parsed toy descriptor has no
    script expressions, its output is claimed), and the specification's script at (5, 1) is the scope's script -/
example : KeyLaws tOps tHashes tTweakAdd ∧ ∃ d, Desc.parse tOps exText = some d ∧ d.exprs = []
    ∧ d.owns tOps tHashes exOut = some true ∧ scriptAt tOps tHashes tTweakAdd d 5 1 = some exSpk := by
  refine ⟨tLaws, ?_⟩
  have h1 := parsed_owns_examples.1
  have h2 : (Desc.parse tOps exText).map (fun d => (d.exprs.length, scriptAt tOps tHashes tTweakAdd d 5 1))
      = some (0, some exSpk) := by decide +kernel
  cases hp : Desc.parse tOps exText with
  | none => rw [hp] at h1; cases h1
  | some d =>
    rw [hp] at h1 h2
    simp only [Option.map_some, Option.some.injEq, Prod.mk.injEq] at h2
    exact ⟨d, rfl, List.eq_nil_of_length_eq_zero h2.1, by simpa using h1, h2.2⟩

/-- 2-of-2 multisig over two extended keys, one WITHOUT a branch set (the shape of the repaired defect) -/
def msText : Str := "wsh(multi(2,[aaaaaaaa/48h]xpubA/0/*,[bbbbbbbb/48h]xpubB/<0;1>/*))".toList
/-- taproot: internal key and one `pk` leaf -/
def trText : Str := "tr([aaaaaaaa/86h]xpubA/<0;1>/*,pk([bbbbbbbb/86h]xpubB/<0;1>/*))".toList

def msRecs (i : Nat) : List DerivRec :=
  [⟨[0xaa, 0xaa, 0xaa, 0xaa], [48 + 2 ^ 31, 0, i]⟩, ⟨[0xbb, 0xbb, 0xbb, 0xbb], [48 + 2 ^ 31, 1, i]⟩]
def trRecs (i : Nat) : List DerivRec :=
  [⟨[0xaa, 0xaa, 0xaa, 0xaa], [86 + 2 ^ 31, 1, i]⟩, ⟨[0xbb, 0xbb, 0xbb, 0xbb], [86 + 2 ^ 31, 1, i]⟩]

set_option maxRecDepth 100000 in
/-- the multisig descriptor and a taproot descriptor with a script leaf: both parse, claim their own branch-1 output
    at index 9 from the records of both keys (taproot: in `taproot_bip32_derivations`), and refuse it under the
    records of index 8; the taproot descriptor hands two key views (internal key, leaf key) to the procedure -/
theorem parsed_owns_examples_multi_taproot :
    (Desc.parse tOps msText).bind (fun d => (d.deriveScript tOps tHashes 9 1).map fun spk =>
        (d.owns tOps tHashes ⟨some spk, msRecs 9, []⟩, d.owns tOps tHashes ⟨some spk, msRecs 8, []⟩))
      = some (some true, some false)
    ∧ (Desc.parse tOps trText).bind (fun d => (d.deriveScript tOps tHashes 9 1).map fun spk =>
        (d.owns tOps tHashes ⟨some spk, [], trRecs 9⟩, d.owns tOps tHashes ⟨some spk, [], trRecs 8⟩,
         (d.keys.map (KeyExpr.view tOps tHashes)).length))
      = some (some true, some false, 2) := by
  decide +kernel

/-- the premise `hhard` of `C14.owns_sound` is NOT true of every parsed descriptor: `wpkh(xpub1)` (no derivation)
    derives its script at the "index" 2^31 as at any other — which is why `owns_sound_parsed` splits on whether a key
    carries a derivation instead of proving `hhard` outright -/
theorem hhard_false_without_derivation :
    (Desc.parse tOps "wpkh(xpub1)".toList).bind (fun d => d.deriveScript tOps tHashes (2 ^ 31) 0)
      = some ([0x00, 0x14, 2] ++ List.replicate 19 7) := by
  decide +kernel

end Embit.Props.C14X
