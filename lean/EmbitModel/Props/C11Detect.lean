import EmbitModel.Proofs.Bech32DetectAll
import EmbitModel.Proofs.Bech32Spec
import EmbitModel.Proofs.Bech32DetectStr
import EmbitModel.Generated.AddrFacts
/-
  C11 — "never yields a script for … a bech32 string with up to four substituted characters":
  the error-detection half, proved from a finite GF(2) rank computation evaluated by the Lean kernel
  (`Proofs/Detect/Part*.lean`, 522 `decide +kernel` checks over all 109 736 placements of four error positions
  in a window of 89 symbols with the last one fixed, shift-invariance covering the rest).

  What is and is not claimed (DESIGN Appendix D): detection is guaranteed for substitutions that keep the
  checksum *variant* (BECH32 vs BECH32M). Across variants a 4-substitution neighbour exists for every
  BIP350-conformant decoder (`cross_variant_neighbour_exists`), so rejection of those is not demanded.
-/
namespace Embit.Props.C11Detect
open Embit Model Bech32 Detect

/-- the finite rank condition, window 89 (the largest possible: it is false for 90) -/
theorem rank_condition : topCheck 3 (table 89) = true := topCheck_W

/-- words of 5-bit symbols: same polymod (from any start state), equal outside a window of at most 89 symbols,
    at most 4 differing positions inside ⇒ equal. -/
theorem detects_le4_words (s : Nat) (p q u u' : List Nat) (hlen : u.length = u'.length) (hW : u.length ≤ 89)
    (hu : ∀ x ∈ u, x < 32) (hu' : ∀ x ∈ u', x < 32) (hham : hamming u u' ≤ 4)
    (heq : polymodFrom s (p ++ u ++ q) = polymodFrom s (p ++ u' ++ q)) : u = u' :=
  detect_words 89 rank_condition s p q u u' hlen hW hu hu' hham heq

/-- bech32 data parts (checksum symbols included): two data parts of the same length ≤ 89 that verify under the
    same human-readable part with the same checksum variant and differ in at most 4 symbols are equal — i.e. no
    1–4 substitutions inside the data part of a valid string give another string valid for the same variant. -/
theorem detects_le4_same_variant (hrp : List Char) (e : Encoding) (data data' : List Nat)
    (hlen : data.length = data'.length) (hW : data.length ≤ 89)
    (hd : ∀ x ∈ data, x < 32) (hd' : ∀ x ∈ data', x < 32) (hham : hamming data data' ≤ 4)
    (hv : verifyChecksum hrp data = some e) (hv' : verifyChecksum hrp data' = some e) : data = data' := by
  rw [verifyChecksum_eq_some] at hv hv'
  have := detects_le4_words 1 (hrpExpand hrp) [] data data' hlen hW hd hd' hham
  simp only [List.append_nil] at this
  exact this (by unfold polymod at hv hv'; rw [hv, hv'])

/-- … the same for a change of the human-readable part that keeps its length (e.g. `bc` ↔ `tb`): the expanded
    words differ only in the low-bit symbols, so the whole change must fit the 4-symbol budget and 89-symbol window -/
theorem detects_le4_expanded (e : Encoding) (w w' : List Nat) (hlen : w.length = w'.length) (hW : w.length ≤ 89)
    (hw : ∀ x ∈ w, x < 32) (hw' : ∀ x ∈ w', x < 32) (hham : hamming w w' ≤ 4)
    (hv : polymod w = e.const) (hv' : polymod w' = e.const) : w = w' := by
  have := detects_le4_words 1 [] [] w w' hlen hW hw hw' hham
  simp only [List.append_nil, List.nil_append] at this
  exact this (by unfold polymod at hv hv'; rw [hv, hv'])

/-- strings: two strings of the same length that `bech32_decode` accepts with the same checksum variant and the
    same human-readable part and that differ in at most four characters are equal up to case. Hence 1–4
    substituted characters in the data part of a valid string are never accepted under the same variant. -/
theorem detects_le4_strings (s s' : List Char) (e : Encoding) (h : List Char) (d d' : List Nat)
    (hd : bech32Decode s = some (e, h, d)) (hd' : bech32Decode s' = some (e, h, d'))
    (hlen : s.length = s'.length) (hham : charHamming s s' ≤ 4) : lower s = lower s' :=
  detect_strings rank_condition s s' e h d d' hd hd' hlen hham

/-- addresses: let `a` be the address of a standard segwit script on a network of a well-formed table and `s'`
    a string of the same length differing from it in at most four characters (and not just in case). If
    `address_to_scriptpubkey` yields a script for `s'` at all, then either its human-readable part was changed
    into that of another network, or `s'` is valid for the *other* checksum variant (the BIP350 neighbour):
    the same-variant, same-HRP case is impossible, for every hash function. -/
theorem address_le4_substitutions (dsha : Bytes → Bytes) (nets : List Network) (ht : Address.TableOk nets)
    (net : Network) (hmem : net ∈ nets) (ver : Nat) (h : Bytes) (hv : ver ≤ 1)
    (hl : h.length = 20 ∨ h.length = 32) (s' : List Char) (sc : Bytes)
    (hlen : (segwitText net.bech32 ver (Address.convOf h)).length = s'.length)
    (hham : charHamming (segwitText net.bech32 ver (Address.convOf h)) s' ≤ 4)
    (hne : lower (segwitText net.bech32 ver (Address.convOf h)) ≠ lower s')
    (hy : Address.toScript dsha nets s' = some (some sc)) :
    Address.splitOne s' ≠ net.bech32
    ∨ ∃ ver' prog, decode (Address.splitOne s') s' = some (ver', prog) ∧ encOf ver' ≠ encOf ver := by
  have hn := ht.each net hmem
  obtain ⟨_, _, hcl⟩ := Address.encode_convOf net hn ver h hv hl
  -- the original decodes
  have hok := Address.segwitOk_of net hn ver h hv hl
  have hdata : ∀ d ∈ ver :: Address.convOf h, d < 32 := by
    intro d hd; simp at hd; rcases hd with rfl | hd
    · omega
    · exact convOf_lt h d hd
  have hlen90 : net.bech32.length + 1 + (ver :: Address.convOf h).length + 6 ≤ 90 := by
    have htot := hok.total
    obtain ⟨conv, h1, _, h3, h4, _, _⟩ := encode_segwit net.bech32 ver _ hok
    have : Address.convOf h = conv := by simp [Address.convOf, h1]
    rw [this]; simp at h3 h4 htot ⊢; omega
  have hda := bech32Decode_encode (encOf ver) net.bech32 (ver :: Address.convOf h) hn.hrpOk hdata hlen90
  -- the mutated string takes the segwit branch
  have hlong : 35 < s'.length := by
    rw [← hlen, Address.segwitText_length]
    have := hn.hrpOk.nonempty
    rcases hl with e | e <;> rw [e] at hcl <;> omega
  rw [Address.toScript_long dsha nets s' hlong] at hy
  cases hb : Address.bech32Branch true nets s' with
  | none => simp [hb] at hy
  | some sc' =>
    obtain ⟨_, ver', prog, hdec, _, _⟩ := Address.bech32Branch_yields nets s' sc' hb
    by_cases hh : Address.splitOne s' = net.bech32
    · right
      refine ⟨ver', prog, hdec, ?_⟩
      intro he
      obtain ⟨_, _, _, _, data, hbd, _⟩ := decode_some_rules _ s' ver' prog hdec
      rw [hh, he] at hbd
      exact hne (detects_le4_strings _ s' (encOf ver) net.bech32 _ _ hda hbd hlen hham)
    · left; exact hh

/-- Appendix D, made concrete: a valid v0 (BECH32) address and a valid v1 (BECH32M) address, both accepted by the
    model (= BIP173/BIP350), that differ in exactly four characters. "No string within four substitutions of a
    valid address ever decodes" is therefore false for every conformant decoder; C11 demands BIP behaviour. -/
theorem cross_variant_neighbour_exists :
    let a := "bc1qqqqqqqqqqqqqqqqqqqqqqqqqqqqqqqqqqqqqqqqqqqqqqqqqqqqqthqst8".toList
    let b := "bc1pqqqqqqqqqqqqkqqqqqqqqlqqqqqqqqqqqqqqqqqqqeqqqqqqqqqqthqst8".toList
    (decode "bc".toList a).map Prod.fst = some 0 ∧ (decode "bc".toList b).map Prod.fst = some 1
    ∧ a.length = b.length ∧ ((a.zip b).filter (fun x => x.1 != x.2)).length = 4
    ∧ (Address.bech32Branch true Generated.addrNetworks a).map Address.scriptType = some (some .p2wsh)
    ∧ (Address.bech32Branch true Generated.addrNetworks b).map Address.scriptType = some (some .p2tr) := by
  decide +kernel

/-- … and `address_to_scriptpubkey` (fixed code, every hash function) yields a taproot script for that neighbour -/
theorem cross_variant_neighbour_decodes (dsha : Bytes → Bytes) :
    ∃ sc, Address.toScript dsha Generated.addrNetworks
        "bc1pqqqqqqqqqqqqkqqqqqqqqlqqqqqqqqqqqqqqqqqqqeqqqqqqqqqqthqst8".toList = some (some sc)
      ∧ Address.scriptType sc = some .p2tr := by
  have hl : 35 < "bc1pqqqqqqqqqqqqkqqqqqqqqlqqqqqqqqqqqqqqqqqqqeqqqqqqqqqqthqst8".toList.length := by decide +kernel
  rw [Address.toScript_long dsha _ _ hl]
  have h := cross_variant_neighbour_exists.2.2.2.2.2
  cases hb : Address.bech32Branch true Generated.addrNetworks
      "bc1pqqqqqqqqqqqqkqqqqqqqqlqqqqqqqqqqqqqqqqqqqeqqqqqqqqqqthqst8".toList with
  | none => rw [hb] at h; simp at h
  | some sc =>
    rw [hb] at h
    exact ⟨sc, rfl, by simpa using h⟩

-- GOAL (not proved): substitutions of human-readable-part characters that change the three high bits of a character alter two symbols of the expanded word; they are covered by `detects_le4_expanded` only while at most four symbols change in total (for embit's table an unknown HRP is rejected outright by `unknown_hrp_rejected`)

/-! ### non-vacuity -/

example : hamming [1, 2, 3, 4, 5, 6] [1, 9, 3, 4, 7, 6] = 2 := by decide
example : verifyChecksum "a".toList [31, 0, 9, 19, 17, 29] = some .bech32m := by decide +kernel   -- "a1lqfn3a"

end Embit.Props.C11Detect
