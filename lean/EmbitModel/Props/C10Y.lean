import EmbitModel.Proofs.KeysB58Codec
import EmbitModel.Props.C10X
import EmbitModel.Driver.Keys
/-
  C10Y — the Base58Check codec law for the CONCRETE text layer, and the WIF / extended-key TEXT round trips
  without a codec hypothesis (audit item A10 / C10-3).

  `Props/C10.lean` proves `wif_roundtrip` and `xkey_text_roundtrip` for an arbitrary text codec under the hypothesis
  `hcodec : ∀ b, env.b58dec (env.b58enc b) = some b`, which was discharged only for a toy environment. Here the law is
  PROVED for the functions the driver actually runs as `env.b58enc` / `env.b58dec` — `B58.encodeCheck dsha` /
  `B58.decodeCheck dsha` of `Model/Base58Check.lean` (embit's `base58.py` over ASCII codes, big-integer conversion,
  leading-zero padding, the `s[:-1]` quirk, the `b[:-4]` / `b[-4:]` slices), corresponded with `embit.base58` on
  every run — for EVERY payload (empty, leading zero bytes, any length), with the checksum function a parameter.

  What is needed of the checksum function `dsha`, exactly (`decodeCheck_encodeCheck_iff`): the round trip at a payload
  `b` holds IFF `b = []` or `dsha b` has at least four bytes (embit slices four bytes off the end whatever was
  appended). Nothing else is used: no injectivity, no collision resistance. The converse direction
  (`decodeCheck dsha s = some b → encodeCheck dsha b = s`, C10X) needs nothing at all.
  The driver's `dsha` is `sha256 ∘ sha256` of `Crypto/Sha256.lean`, whose block loop is a `partial def` (opaque to the
  kernel), so "its output has 32 bytes" cannot be a Lean theorem in this development; it stays the explicit hypothesis
  `hd : ∀ b, 4 ≤ (dsha b).length` (the same one `C10.xkey_roundtrip_table` and C11's `b58check_decode_encode` carry),
  and the executable function is tied to hashlib by the correspondence on every run.
-/
namespace Embit.Props.C10Y
open Embit Embit.Keys Embit.Spec

variable {E : Keys.EcOps}

/-! ### Base58 (no checksum): both directions for the concrete layer -/

/-- `decode (encode b) = b` for EVERY byte string — empty, leading zero bytes, any length -/
theorem base58_decode_encode (b : Bytes) : B58.decode (B58.encode b) = some b := B58.decode_encode b

/-- `decode` accepts exactly the `encode` texts (this and C10X `base58_decode_canonical` side by side) -/
theorem base58_decode_iff (s : Text) (b : Bytes) : B58.decode s = some b ↔ s = B58.encode b := B58.decode_iff s b

/-! ### Base58Check: the codec law -/

/-- the law the C10 text round trips assume, for the concrete codec: `decode_check (encode_check b) = b` for EVERY
    payload, for every checksum function with at least four output bytes -/
theorem decodeCheck_encodeCheck (dsha : Bytes → Bytes) (hd : ∀ b, 4 ≤ (dsha b).length) :
    ∀ b, B58.decodeCheck dsha (B58.encodeCheck dsha b) = some b :=
  fun b => B58.decodeCheck_encodeCheck dsha b (hd b)

/-- … and the hypothesis is exact, payload by payload: the round trip at `b` holds iff `b` is empty or the checksum
    function yields at least four bytes at `b` -/
theorem decodeCheck_encodeCheck_iff (dsha : Bytes → Bytes) (b : Bytes) :
    B58.decodeCheck dsha (B58.encodeCheck dsha b) = some b ↔ (b = [] ∨ 4 ≤ (dsha b).length) :=
  B58.decodeCheck_encodeCheck_iff dsha b

/-- witness that the length hypothesis cannot be dropped: with a three-byte checksum the text of the payload `01` is
    refused (`decode_check` cuts four bytes where three were appended) -/
theorem short_checksum_breaks_roundtrip :
    B58.decodeCheck (fun _ => [1, 2, 3]) (B58.encodeCheck (fun _ => [1, 2, 3]) [1]) = none := by decide +kernel

/-- decode-then-encode identity on accepted strings, no hypothesis on the checksum function
    (C10X `base58check_decode_canonical`, stated for the functions themselves) -/
theorem encodeCheck_decodeCheck (dsha : Bytes → Bytes) (s : Text) (b : Bytes)
    (h : B58.decodeCheck dsha s = some b) : B58.encodeCheck dsha b = s := B58.decodeCheck_sound dsha s b h

/-- THE CODEC LAW, both directions side by side: `encode_check` and `decode_check` of the concrete layer are
    mutually inverse — every payload survives encode-then-decode, every accepted text is the encoding of its
    payload, i.e. `decode_check` accepts exactly the `encode_check` texts -/
theorem codec_law (dsha : Bytes → Bytes) (hd : ∀ b, 4 ≤ (dsha b).length) :
    (∀ b, B58.decodeCheck dsha (B58.encodeCheck dsha b) = some b) ∧
    (∀ s b, B58.decodeCheck dsha s = some b → B58.encodeCheck dsha b = s) ∧
    (∀ s b, B58.decodeCheck dsha s = some b ↔ s = B58.encodeCheck dsha b) :=
  ⟨decodeCheck_encodeCheck dsha hd, encodeCheck_decodeCheck dsha, B58.decodeCheck_iff dsha hd⟩

/-- consequently `encode_check` is injective: two payloads with the same text are equal -/
theorem encodeCheck_injective (dsha : Bytes → Bytes) (hd : ∀ b, 4 ≤ (dsha b).length) (b b' : Bytes)
    (h : B58.encodeCheck dsha b = B58.encodeCheck dsha b') : b = b' := by
  have h1 := decodeCheck_encodeCheck dsha hd b
  rw [h, decodeCheck_encodeCheck dsha hd b'] at h1
  exact (Option.some.inj h1).symm

/-- the hypothesis `hcodec` of `C10.wif_roundtrip` / `C10.xkey_text_roundtrip` holds in every environment whose
    text layer is the concrete one; together with C10X `base58check_decode_canonical` both codec laws hold there -/
theorem env_codec_law (env : Env) (dsha : Bytes → Bytes) (hd : ∀ b, 4 ≤ (dsha b).length)
    (henc : env.b58enc = B58.encodeCheck dsha) (hdec : env.b58dec = B58.decodeCheck dsha) :
    (∀ b, env.b58dec (env.b58enc b) = some b) ∧ DecodeCanonical env :=
  ⟨B58.codec_of_concrete env dsha hd henc hdec, B58.decodeCanonical env dsha henc hdec⟩

/-! ### WIF and extended-key text round trips over the concrete codec: no codec hypothesis -/

/-- `C10.wif_roundtrip` with the concrete Base58Check as text layer: encode then decode returns the secret, the
    compression flag and a network with the same version byte. Hypotheses: the curve laws, a valid scalar, a network
    of the generated table — exactly those of the original — and the length of the checksum function's output -/
theorem wif_roundtrip_concrete (L : EcLaws E) (env : Env) (dsha : Bytes → Bytes) (hd : ∀ b, 4 ≤ (dsha b).length)
    (henc : env.b58enc = B58.encodeCheck dsha) (hdec : env.b58dec = B58.decodeCheck dsha)
    (k : PrivateKey) (hv : seckeyValid E k.secret = true) (hnet : k.network < Generated.keyNets.length) :
    ∃ t net', k.wif env = some t ∧ PrivateKey.fromWif E env t = some ⟨k.secret, k.compressed, net'⟩
      ∧ netWif net' = netWif k.network :=
  C10.wif_roundtrip L env (B58.codec_of_concrete env dsha hd henc hdec) k hv hnet

/-- the two directions together: the WIF text of a key decodes to the key, and that text is the only one accepted
    for what it decodes to (C10X `wif_parse_sound_b58`) -/
theorem wif_text_bijective_concrete (L : EcLaws E) (env : Env) (dsha : Bytes → Bytes)
    (hd : ∀ b, 4 ≤ (dsha b).length) (henc : env.b58enc = B58.encodeCheck dsha)
    (hdec : env.b58dec = B58.decodeCheck dsha)
    (k : PrivateKey) (hv : seckeyValid E k.secret = true) (hnet : k.network < Generated.keyNets.length) :
    ∃ t k', k.wif env = some t ∧ PrivateKey.fromWif E env t = some k' ∧ k'.secret = k.secret ∧
      k'.compressed = k.compressed ∧ netWif k'.network = netWif k.network ∧ k'.wif env = some t := by
  obtain ⟨t, net', h1, h2, h3⟩ := wif_roundtrip_concrete L env dsha hd henc hdec k hv hnet
  exact ⟨t, _, h1, h2, rfl, rfl, h3, (C10X.wif_parse_sound_b58 env dsha henc hdec t _ h2).1⟩

/-- `C10.xkey_text_roundtrip` with the concrete Base58Check as text layer: `from_base58 (to_base58 k) = k` in
    version, depth, parent fingerprint, child number, chain code and key. Hypotheses exactly those of the original,
    plus the length of the checksum function's output, minus the codec law -/
theorem xkey_text_roundtrip_concrete (L : EcLaws E) (env : Env) (dsha : Bytes → Bytes)
    (hd : ∀ b, 4 ≤ (dsha b).length) (henc : env.b58enc = B58.encodeCheck dsha)
    (hdec : env.b58dec = B58.decodeCheck dsha) (k : HDKey E)
    (hinit : HDKey.init env k.key k.chainCode (some k.version) k.depth k.fingerprint k.childNumber = some k)
    (hkey : k.key.Valid E) (hver : k.version.length = 4) (hcc : k.chainCode.length = 32)
    (hfp : k.fingerprint.length = 4)
    (h0 : k.depth = 0 → k.childNumber = 0 ∧ k.fingerprint = [0, 0, 0, 0]) :
    ∃ t, k.toBase58 env = some t ∧ HDKey.fromBase58 E env t = some k.normNet :=
  C10.xkey_text_roundtrip L env (B58.codec_of_concrete env dsha hd henc hdec) k hinit hkey hver hcc hfp h0

/-- text form of `C10.xkey_roundtrip_table`, every hypothesis about the text layer and the constructor discharged:
    over the GENERATED table and the concrete codec, for every network and each of its ten version prefixes, every
    valid key of the matching kind, every depth, fingerprint and child number is accepted by the constructor, prints
    as a text and that text parses back to the same key -/
theorem xkey_text_roundtrip_table (L : EcLaws E) (env : Env) (dsha : Bytes → Bytes)
    (hd : ∀ b, 4 ≤ (dsha b).length) (henc : env.b58enc = B58.encodeCheck dsha)
    (hdec : env.b58dec = B58.decodeCheck dsha)
    (net : Generated.KeyNet) (hn : net ∈ Generated.keyNets) (e : String × Bytes × Bool) (he : e ∈ net.versions)
    (key : KeyObj E) (hkey : key.Valid E) (hkind : key.isPrivate = e.2.2)
    (cc fp : Bytes) (depth cn : Nat) (hcc : cc.length = 32) (hfp : fp.length = 4) (hdep : depth < 256)
    (hcn : cn < 2 ^ 32) (h0 : depth = 0 → cn = 0 ∧ fp = [0, 0, 0, 0]) :
    ∃ k t, HDKey.init env key cc (some e.2.1) depth fp cn = some k ∧ k.toBase58 env = some t ∧
      HDKey.fromBase58 E env t = some k.normNet ∧ k.version = e.2.1 ∧ k.depth = depth ∧ k.fingerprint = fp ∧
      k.childNumber = cn ∧ k.chainCode = cc := by
  obtain ⟨k, b, hinit, _, _, _, hver, hdp, hfpk, hcnk, hcck⟩ :=
    C10.xkey_roundtrip_table L env dsha hd henc net hn e he key hkey hkind cc fp depth cn hcc hfp hdep hcn h0
  have hk : k = ⟨key, cc, e.2.1, depth, fp, cn⟩ := ((init_iff env _ _ _ _ _ _ k).mp hinit).2.2.1
  have hlen4 : e.2.1.length = 4 := by
    have := B58.table_ok
    unfold B58.tableOk at this
    rw [List.all_eq_true] at this
    have := this net hn
    rw [List.all_eq_true] at this
    have := this e he
    simp only [Bool.and_eq_true, beq_iff_eq] at this
    exact this.1.1
  subst hk
  obtain ⟨t, ht, hp⟩ := xkey_text_roundtrip_concrete L env dsha hd henc hdec
    ⟨key, cc, e.2.1, depth, fp, cn⟩ hinit hkey hlen4 hcc hfp h0
  exact ⟨_, t, hinit, ht, hp, rfl, rfl, rfl, rfl, rfl⟩

/-! ### the driver's environment is an instance -/

/-- `keyEnv` of `Driver/Keys.lean` — the environment every C09 / C10 driver op runs in (`priv.wif`, `priv.from_wif`,
    `hd.to_base58`, `hd.from_base58`, `hd.init`, `b58.encode_check`, `b58.decode_check` …) — has the concrete codec
    over the driver's double SHA-256 as its text layer, whatever the HMAC / tagged-hash overrides -/
theorem driver_env_concrete (hmacOv tagOv : Option Bytes) :
    (Driver.KeyDrv.keyEnv hmacOv tagOv).b58enc = B58.encodeCheck Driver.KeyDrv.dsha ∧
    (Driver.KeyDrv.keyEnv hmacOv tagOv).b58dec = B58.decodeCheck Driver.KeyDrv.dsha := ⟨rfl, rfl⟩

/-- the WIF round trip for exactly the functions the driver runs (`PrivateKey.wif (keyEnv …)`,
    `PrivateKey.fromWif secpOps (keyEnv …)`); what remains assumed of the driver's instances: the curve laws for its
    secp256k1 arithmetic and that its SHA-256 (a `partial def`, opaque to the kernel) returns at least four bytes -/
theorem wif_roundtrip_driver (L : EcLaws Driver.KeyDrv.secpOps) (hd : ∀ b, 4 ≤ (Driver.KeyDrv.dsha b).length)
    (hmacOv tagOv : Option Bytes) (k : PrivateKey) (hv : seckeyValid Driver.KeyDrv.secpOps k.secret = true)
    (hnet : k.network < Generated.keyNets.length) :
    ∃ t net', k.wif (Driver.KeyDrv.keyEnv hmacOv tagOv) = some t ∧
      PrivateKey.fromWif Driver.KeyDrv.secpOps (Driver.KeyDrv.keyEnv hmacOv tagOv) t
        = some ⟨k.secret, k.compressed, net'⟩ ∧ netWif net' = netWif k.network :=
  wif_roundtrip_concrete L _ _ hd rfl rfl k hv hnet

/-- the extended-key text round trip for exactly the functions the driver runs -/
theorem xkey_text_roundtrip_driver (L : EcLaws Driver.KeyDrv.secpOps)
    (hd : ∀ b, 4 ≤ (Driver.KeyDrv.dsha b).length) (hmacOv tagOv : Option Bytes)
    (net : Generated.KeyNet) (hn : net ∈ Generated.keyNets) (e : String × Bytes × Bool) (he : e ∈ net.versions)
    (key : KeyObj Driver.KeyDrv.secpOps) (hkey : key.Valid Driver.KeyDrv.secpOps) (hkind : key.isPrivate = e.2.2)
    (cc fp : Bytes) (depth cn : Nat) (hcc : cc.length = 32) (hfp : fp.length = 4) (hdep : depth < 256)
    (hcn : cn < 2 ^ 32) (h0 : depth = 0 → cn = 0 ∧ fp = [0, 0, 0, 0]) :
    ∃ k t, HDKey.init (Driver.KeyDrv.keyEnv hmacOv tagOv) key cc (some e.2.1) depth fp cn = some k ∧
      k.toBase58 (Driver.KeyDrv.keyEnv hmacOv tagOv) = some t ∧
      HDKey.fromBase58 Driver.KeyDrv.secpOps (Driver.KeyDrv.keyEnv hmacOv tagOv) t = some k.normNet := by
  obtain ⟨k, t, h1, h2, h3, _⟩ := xkey_text_roundtrip_table L (Driver.KeyDrv.keyEnv hmacOv tagOv) _ hd rfl rfl
    net hn e he key hkey hkind cc fp depth cn hcc hfp hdep hcn h0
  exact ⟨k, t, h1, h2, h3⟩

/-! ### non-vacuity (toy curve of `Proofs/KeyToyCurve.lean`, the concrete codec with a payload-dependent checksum) -/

/-- a checksum function with at least four bytes whose first four bytes depend on the payload -/
def exDsha : Bytes → Bytes := fun b => b.reverse ++ [1, 2, 3, 4]

/-- C10's toy environment with its text layer replaced by the concrete Base58Check -/
def exEnvY : Env := B58.withB58 C10.exEnv exDsha

example : ∀ b, 4 ≤ (exDsha b).length := by intro b; simp [exDsha]
example : exEnvY.b58enc = B58.encodeCheck exDsha ∧ exEnvY.b58dec = B58.decodeCheck exDsha := ⟨rfl, rfl⟩
/-- the law evaluated: empty payload, leading zero bytes, an ordinary payload; and an accepted text re-encodes -/
example : B58.decodeCheck exDsha (B58.encodeCheck exDsha []) = some [] ∧
    B58.decodeCheck exDsha (B58.encodeCheck exDsha [0, 0, 0]) = some [0, 0, 0] ∧
    B58.decodeCheck exDsha (B58.encodeCheck exDsha [0, 0, 0x61, 0xff]) = some [0, 0, 0x61, 0xff] := by decide +kernel
example : B58.encodeCheck exDsha [0, 0, 1] = [0x31, 0x31, 0x37, 0x61, 0x31, 0x70, 0x52, 0x65] ∧
    B58.decodeCheck exDsha [0x31, 0x31, 0x37, 0x61, 0x31, 0x70, 0x52, 0x65] = some [0, 0, 1] := by decide +kernel
example : ∀ b, exEnvY.b58dec (exEnvY.b58enc b) = some b :=
  (env_codec_law exEnvY exDsha (by intro b; simp [exDsha]) rfl rfl).1

/-- WIF: the hypotheses of `wif_roundtrip_concrete` hold of C10's example key (secret 5, uncompressed, testnet), and
    the round trip evaluated -/
example : seckeyValid toy C10.exPriv.secret = true ∧ C10.exPriv.network < Generated.keyNets.length := by decide
example : ∃ t net', C10.exPriv.wif exEnvY = some t ∧
    PrivateKey.fromWif toy exEnvY t = some ⟨C10.exPriv.secret, C10.exPriv.compressed, net'⟩ ∧
    netWif net' = netWif C10.exPriv.network :=
  wif_roundtrip_concrete toy_laws exEnvY exDsha (by intro b; simp [exDsha]) rfl rfl C10.exPriv (by decide) (by decide)
example : ((C10.exPriv.wif exEnvY).bind (PrivateKey.fromWif toy exEnvY)).map (fun k => (k.secret, k.compressed))
    = some (5, false) := by decide +kernel

/-- extended keys: C10's example key (xpub version, depth 3, hardened index) is accepted by the constructor over the
    concrete codec — its text really starts `xpub` — and all hypotheses of `xkey_text_roundtrip_concrete` hold -/
example : HDKey.init exEnvY C10.exHd.key C10.exHd.chainCode (some C10.exHd.version) C10.exHd.depth
    C10.exHd.fingerprint C10.exHd.childNumber = some C10.exHd := by
  rw [init_iff]; exact ⟨by decide, by decide, rfl, _, rfl, by decide +kernel⟩
example : C10.exHd.key.Valid toy ∧ C10.exHd.version.length = 4 ∧ C10.exHd.chainCode.length = 32 ∧
    C10.exHd.fingerprint.length = 4 := ⟨⟨by decide, rfl⟩, by decide, by decide, by decide⟩
example : ((C10.exHd.toBase58 exEnvY).bind (HDKey.fromBase58 toy exEnvY)).isSome = true ∧
    ((C10.exHd.toBase58 exEnvY).getD []).take 4 = [0x78, 0x70, 0x75, 0x62] := by decide +kernel
/-- the table form: mainnet, its `xprv` entry, the private key 5 at depth 0 -/
example : ∃ k t, HDKey.init exEnvY (.priv ⟨5, true, 0⟩ : KeyObj toy) (List.replicate 32 7)
      (some [0x04, 0x88, 0xad, 0xe4]) 0 [0, 0, 0, 0] 0 = some k ∧ k.toBase58 exEnvY = some t ∧
      HDKey.fromBase58 toy exEnvY t = some k.normNet := by
  obtain ⟨k, t, h1, h2, h3, _⟩ := xkey_text_roundtrip_table toy_laws exEnvY exDsha (by intro b; simp [exDsha]) rfl rfl
    (Generated.keyNets[0]'(by decide)) (List.getElem_mem _) ("xprv", [0x04, 0x88, 0xad, 0xe4], true) (by decide)
    (.priv ⟨5, true, 0⟩) ⟨by decide, rfl⟩ rfl (List.replicate 32 7) [0, 0, 0, 0] 0 0 (by decide) (by decide)
    (by decide) (by decide) (fun _ => ⟨rfl, rfl⟩)
  exact ⟨k, t, h1, h2, h3⟩
/-- the driver's environment: the equations of `driver_env_concrete` hold by unfolding -/
example : (Driver.KeyDrv.keyEnv none none).b58enc = B58.encodeCheck Driver.KeyDrv.dsha := rfl

end Embit.Props.C10Y
