import EmbitModel.Proofs.ViewWriteParse
/-
  C05Y — `PSBTView.write_to` equals merge-then-compress in memory (the write path of C05).

  `View.writeToL` (Model/ViewWrite.lean) is `PSBTView.write_to(stream, compress, extra_input_streams,
  extra_output_streams)` with the stream lists the code takes; `View.writeTo` (Model/View.lean, the function the
  `view.write` correspondence op runs) is its special case with at most one stream of each kind
  (`write_to_one_stream`). `Psbt.mergeExtra` is the in-memory procedure: parse everything, `update` every input /
  output scope with the next scope of every extra stream (signatures, derivations …), `clear_metadata` under the
  same compression choice.

  (1) `write_to_eq_memory_v0_partial` / `_v2_partial` — for every byte string `PSBT.parse(b, compress=c)` accepts,
      embedded at any offset of any stream, every reader mode `c` of the view, every write mode `cm`, every list of
      extra input / output streams: what the view writes is the ORIGINAL global scope (byte-identical) followed by
      the serialised scopes of the PSBT merged and compressed in memory — and the view refuses exactly when the
      in-memory procedure refuses (an extra stream that does not parse, runs short, or carries a duplicate key).
      So the scope section of the output is byte-identical to that of `PSBT.write_to` of the in-memory result
      (`written_scopes_eq_ser`). The excluded regions are those of Props/C05X (v0: a PSBTv2 count key in the global
      scope; v2: a missing count key), where the view does not even present the same scopes (witnesses there).
  (2) `write_to_parses_to_memory_v0_partial` / `_v2_partial` — PARSING what the view wrote (with the KEEP_ALL parser)
      gives exactly the in-memory result: `PSBT.parse(written) = mergeExtra(PSBT.parse(b, compress=c))`, every field of
      every scope, the global fields, nothing else. This rests on `scope_roundtrip_in` / `scope_roundtrip_out`: every scope object
      obtained by reading bytes, merging such objects and clearing metadata (`InScope.Canon`) survives
      `write_to` followed by `read_from` unchanged. Version-0 scopes do not carry txid / vout / sequence (value /
      script): the reader takes them from the (byte-identical) global transaction, so for version 0 the parsed result
      is stated as `restoreTx` (merged PSBT with the transaction fields of the original) — equal to the in-memory
      result itself exactly when the merge left those fields alone (`sameTxFields`). An extra stream that smuggles a
      PSBT_IN_PREVIOUS_TXID into a version-0 PSBT changes the in-memory transaction but not the written one
      (witness `v0_extra_txid_not_written`, replayed on embit). No such distinction for version 2.
      Both statements hold for EVERY reader mode of the view: in the memory-saving modes an in-memory scope holds the
      streamed `_utxo` / `_txhash` attributes, which `write_to` never emits, so there the parsed result is the
      in-memory result without them (`eraseHidden`); for KEEP_ALL nothing is hidden.
  All statements hold for every key validator `ko` and hash `sha`.
-/
set_option linter.unusedSimpArgs false
set_option linter.unusedVariables false
set_option maxRecDepth 100000
namespace Embit.Props.C05Y
open Embit Model Spec.Wire Props.C05X

/-! ### (1) what the view writes -/

/-- version 0 -/
theorem write_to_eq_memory_v0_partial (ko : KeyOps) (sha : Bytes → Bytes) (c : Nat) (pre post b : Bytes) (p : Psbt)
    (h : Psbt.parse ko sha c b = some p)
    (htx : ∃ x, ([0x00], x) ∈ globalKVs b)
    (hcnt : ∀ kv ∈ globalKVs b, kv.1 ≠ [0x04] ∧ kv.1 ≠ [0x05]) :
    ∃ (v : View), View.open (pre ++ (b ++ post)) pre.length = some v
      ∧ ∀ (cm : Nat) (ei eo : List Bytes),
          View.writeToL ko sha (pre ++ (b ++ post)) v c cm ei eo
            = (Psbt.mergeExtra ko sha cm ei eo p).map fun p' =>
                psbtMagic ++ writeKVs (globalKVs b) ++ p'.scopeBytes := by
  obtain ⟨t, v, _, vo, _⟩ := view_of_parse_v0 ko sha c pre post b p h htx hcnt
  exact ⟨v, vo.opened, fun cm ei eo => vo.writeToL cm ei eo⟩

/-- version 2 -/
theorem write_to_eq_memory_v2_partial (ko : KeyOps) (sha : Bytes → Bytes) (c : Nat) (pre post b : Bytes) (p : Psbt)
    (h : Psbt.parse ko sha c b = some p) (hv : p.version = some 2)
    (h4 : ∃ x, ([0x04], x) ∈ globalKVs b) (h5 : ∃ x, ([0x05], x) ∈ globalKVs b) :
    ∃ (v : View), View.open (pre ++ (b ++ post)) pre.length = some v
      ∧ ∀ (cm : Nat) (ei eo : List Bytes),
          View.writeToL ko sha (pre ++ (b ++ post)) v c cm ei eo
            = (Psbt.mergeExtra ko sha cm ei eo p).map fun p' =>
                psbtMagic ++ writeKVs (globalKVs b) ++ p'.scopeBytes := by
  obtain ⟨v, vo, _⟩ := view_of_parse_v2 ko sha c pre post b p h hv h4 h5
  exact ⟨v, vo.opened, fun cm ei eo => vo.writeToL cm ei eo⟩

/-- the one-stream function of Model/View.lean (correspondence op `view.write`) is the list function -/
theorem write_to_one_stream (ko : KeyOps) (sha : Bytes → Bytes) (buf : Bytes) (v : View) (vc cm : Nat)
    (ei eo : Option Bytes) :
    View.writeTo ko sha buf v vc cm ei eo = View.writeToL ko sha buf v vc cm ei.toList eo.toList :=
  View.writeTo_eq_writeToL ko sha buf v vc cm ei eo

/-- the scope section of what the view writes is byte-identical to the scope section `PSBT.write_to` emits for the
    in-memory result (the global sections differ only in that the view copies the original global bytes) -/
theorem written_scopes_eq_ser (p' : Psbt) (gp : List KV) (hg : p'.globalPairs = some gp) :
    Psbt.ser p' = some (psbtMagic ++ writeKVs gp ++ p'.scopeBytes) := by
  simp [Psbt.ser, hg, Psbt.scopeBytes, List.append_assoc]

/-- without extra streams and without compression the view writes the bytes it was opened on (`b` itself) -/
theorem merge_nothing (ko : KeyOps) (sha : Bytes → Bytes) (p : Psbt) :
    Psbt.mergeExtra ko sha 0 [] [] p = some p := by
  have hi : ∀ l : List InScope, mergeIns ko sha 0 l [] = some l := by
    intro l
    induction l with
    | nil => rfl
    | cons s ss ih => simp [mergeIns, updateInFrom, ih, InScope.compressed]
  have ho : ∀ l : List OutScope, mergeOuts ko 0 l [] = some l := by
    intro l
    induction l with
    | nil => rfl
    | cons s ss ih => simp [mergeOuts, updateOutFrom, ih, OutScope.compressed]
  simp [Psbt.mergeExtra, hi, ho]

/-! ### (2) parsing what the view wrote -/

/-- a canonical input scope (without the `_utxo` / `_txhash` attributes of the memory-saving reader, which are never
    written) survives `write_to(version=ver)` followed by `read_from` (seeded with the transaction's fields for
    version 0, unseeded for version 2) unchanged, and every pair it writes is well-framed -/
theorem scope_roundtrip_in (ko : KeyOps) (sha : Bytes → Bytes) (ver : Option Nat) (s : InScope)
    (a : Option Bytes) (b c : Option Nat) (hc : InScope.Canon ko s) (hh : InScope.NoHidden s)
    (htx : if ver = some 2 then (a = none ∧ b = none ∧ c = none) else (s.txid = a ∧ s.vout = b ∧ s.sequence = c)) :
    (∀ kv ∈ s.pairs ver, KVWF kv)
    ∧ InScope.addPairs ko sha 0 { txid := a, vout := b, sequence := c } (s.pairs ver) = some s :=
  ⟨InScope.canon_pairs_wf ko ver s hc, InScope.canon_roundtrip ko sha ver s a b c hc hh htx⟩

theorem scope_roundtrip_out (ko : KeyOps) (ver : Option Nat) (s : OutScope) (a : Option Nat) (b : Option Bytes)
    (hc : OutScope.Canon ko s) (htx : if ver = some 2 then (a = none ∧ b = none) else (s.value = a ∧ s.spk = b)) :
    (∀ kv ∈ s.pairs ver, KVWF kv) ∧ OutScope.addPairs ko { value := a, spk := b } (s.pairs ver) = some s :=
  ⟨OutScope.canon_pairs_wf ko ver s hc, OutScope.canon_roundtrip ko ver s a b hc htx⟩

/-- scopes read from bytes (in any reader mode) are canonical; merging canonical scopes and clearing metadata keeps
    them canonical -/
theorem canon_closed (ko : KeyOps) (sha : Bytes → Bytes) :
    (∀ (c : Nat) (kvs : List KV) (s s' : InScope), InScope.Canon ko s → (∀ kv ∈ kvs, KVWF kv) →
        InScope.addPairs ko sha c s kvs = some s' → InScope.Canon ko s')
    ∧ (∀ s o : InScope, InScope.Canon ko s → InScope.Canon ko o → InScope.Canon ko (s.update o))
    ∧ (∀ (s : InScope) (c : Nat), InScope.Canon ko s → InScope.Canon ko (s.clearMetadata c))
    ∧ InScope.Canon ko {} :=
  ⟨InScope.addPairs_canon_mode ko sha, InScope.update_canon ko, InScope.clearMetadata_canon ko,
    InScope.canon_empty ko⟩

theorem canon_closed_out (ko : KeyOps) :
    (∀ (kvs : List KV) (s s' : OutScope), OutScope.Canon ko s → (∀ kv ∈ kvs, KVWF kv) →
        OutScope.addPairs ko s kvs = some s' → OutScope.Canon ko s')
    ∧ (∀ s o : OutScope, OutScope.Canon ko s → OutScope.Canon ko o → OutScope.Canon ko (s.update o))
    ∧ (∀ (s : OutScope) (c : Nat), OutScope.Canon ko s → OutScope.Canon ko (s.clearMetadata c))
    ∧ OutScope.Canon ko {} :=
  ⟨OutScope.addPairs_canon ko, OutScope.update_canon ko, OutScope.clearMetadata_canon ko, OutScope.canon_empty ko⟩

/-- version 0, EVERY reader mode `c` of the view: the view writes, and what it wrote parses (KEEP_ALL) to the PSBT
    merged and compressed in memory as a reader sees it — without the never-written `_utxo` / `_txhash` attributes
    (`eraseHidden`; nothing to erase when `c = 0`) and with the transaction fields of the unchanged global transaction
    (`restoreTx`) — which for `c = 0` is exactly the in-memory result whenever the merge left those fields alone
    (`sameTxFields`); and the view refuses when the in-memory procedure refuses -/
theorem write_to_parses_to_memory_v0_partial (ko : KeyOps) (sha : Bytes → Bytes) (c : Nat) (pre post b : Bytes)
    (p : Psbt) (h : Psbt.parse ko sha c b = some p)
    (htx : ∃ x, ([0x00], x) ∈ globalKVs b)
    (hcnt : ∀ kv ∈ globalKVs b, kv.1 ≠ [0x04] ∧ kv.1 ≠ [0x05]) :
    ∃ (v : View), View.open (pre ++ (b ++ post)) pre.length = some v
      ∧ ∀ (cm : Nat) (ei eo : List Bytes),
          (∀ p', Psbt.mergeExtra ko sha cm ei eo p = some p' →
            ∃ w, View.writeToL ko sha (pre ++ (b ++ post)) v c cm ei eo = some w
              ∧ Psbt.parse ko sha 0 w = some (p.restoreTx p'.eraseHidden)
              ∧ (c = 0 → Psbt.parse ko sha 0 w = some (p.restoreTx p'))
              ∧ (c = 0 → p.sameTxFields p' = true → Psbt.parse ko sha 0 w = some p'))
          ∧ (Psbt.mergeExtra ko sha cm ei eo p = none →
              View.writeToL ko sha (pre ++ (b ++ post)) v c cm ei eo = none) := by
  obtain ⟨v, ho, hw⟩ := write_to_eq_memory_v0_partial ko sha c pre post b p h htx hcnt
  refine ⟨v, ho, fun cm ei eo => ⟨fun p' hm => ?_, fun hm => ?_⟩⟩
  · refine ⟨_, by rw [hw cm ei eo, hm]; rfl, parse_written_modes ko sha c b p p' cm ei eo h hm, ?_, ?_⟩
    · intro hc0; subst hc0; exact parse_written_total ko sha b p p' cm ei eo h hm
    · intro hc0 hk; subst hc0; exact parse_written ko sha b p p' cm ei eo h hm (fun _ => hk)
  · rw [hw cm ei eo, hm]; rfl

/-- version 2, every reader mode: what the view wrote parses to the in-memory result (minus `_utxo` / `_txhash`;
    exactly the in-memory result for `c = 0`), without any condition on the extra streams -/
theorem write_to_parses_to_memory_v2_partial (ko : KeyOps) (sha : Bytes → Bytes) (c : Nat) (pre post b : Bytes)
    (p : Psbt) (h : Psbt.parse ko sha c b = some p) (hv : p.version = some 2)
    (h4 : ∃ x, ([0x04], x) ∈ globalKVs b) (h5 : ∃ x, ([0x05], x) ∈ globalKVs b) :
    ∃ (v : View), View.open (pre ++ (b ++ post)) pre.length = some v
      ∧ ∀ (cm : Nat) (ei eo : List Bytes),
          (∀ p', Psbt.mergeExtra ko sha cm ei eo p = some p' →
            ∃ w, View.writeToL ko sha (pre ++ (b ++ post)) v c cm ei eo = some w
              ∧ Psbt.parse ko sha 0 w = some p'.eraseHidden
              ∧ (c = 0 → Psbt.parse ko sha 0 w = some p'))
          ∧ (Psbt.mergeExtra ko sha cm ei eo p = none →
              View.writeToL ko sha (pre ++ (b ++ post)) v c cm ei eo = none) := by
  obtain ⟨v, ho, hw⟩ := write_to_eq_memory_v2_partial ko sha c pre post b p h hv h4 h5
  refine ⟨v, ho, fun cm ei eo => ⟨fun p' hm => ?_, fun hm => ?_⟩⟩
  · refine ⟨_, by rw [hw cm ei eo, hm]; rfl, ?_, ?_⟩
    · have := parse_written_modes ko sha c b p p' cm ei eo h hm
      rwa [show p.restoreTx p'.eraseHidden = p'.eraseHidden by simp [Psbt.restoreTx, hv]] at this
    · intro hc0; subst hc0
      exact parse_written ko sha b p p' cm ei eo h hm (fun hne => absurd hv hne)
  · rw [hw cm ei eo, hm]; rfl

/-- for version 2 a reader sees the merged PSBT itself -/
theorem restoreTx_v2 (p p' : Psbt) (hv : p.version = some 2) : p.restoreTx p' = p' := by
  simp [Psbt.restoreTx, hv]

/-- in particular (no extra stream, no compression): writing a view out and parsing the result gives the PSBT the
    original bytes parse to -/
theorem write_to_plain_reparses (ko : KeyOps) (sha : Bytes → Bytes) (b : Bytes) (p : Psbt)
    (h : Psbt.parse ko sha 0 b = some p) :
    Psbt.parse ko sha 0 (psbtMagic ++ writeKVs (globalKVs b) ++ p.scopeBytes) = some p := by
  refine parse_written ko sha b p p 0 [] [] h (merge_nothing ko sha p) (fun _ => ?_)
  have h1 : ∀ l : List InScope, (l.zip l).all
      (fun x => x.1.txid == x.2.txid && x.1.vout == x.2.vout && x.1.sequence == x.2.sequence) = true := by
    intro l; induction l with
    | nil => rfl
    | cons x xs ih => simp [ih]
  have h2 : ∀ l : List OutScope, (l.zip l).all (fun x => x.1.value == x.2.value && x.1.spk == x.2.spk) = true := by
    intro l; induction l with
    | nil => rfl
    | cons x xs ih => simp [ih]
  simp [Psbt.sameTxFields, h1, h2]

/-! ### witness: version 0, an extra stream that carries a previous-txid field -/

/-- an extra input stream with PSBT_IN_PREVIOUS_TXID (a PSBTv2 field) for the version-0 PSBT of C04 -/
def exTxidStream : Bytes := writeKVs [([0x0e], List.replicate 32 9)]

/-- in memory the merge replaces the input's txid; the view's output cannot carry it (version-0 scopes have no
    such field), so what was written parses to the ORIGINAL txid: outside `sameTxFields` the statement fails -/
theorem v0_extra_txid_not_written :
    ((Psbt.parse C04.trivialKo id 0 C04.exPsbtBytes).bind
        (Psbt.mergeExtra C04.trivialKo id 0 [exTxidStream] [])).map (fun p' => p'.inputs.map (·.txid))
      = some [some (List.replicate 32 9)]
    ∧ ((Psbt.parse C04.trivialKo id 0 C04.exPsbtBytes).bind
        (Psbt.mergeExtra C04.trivialKo id 0 [exTxidStream] [])).bind
          (fun p' => (Psbt.parse C04.trivialKo id 0
            (psbtMagic ++ writeKVs (globalKVs C04.exPsbtBytes) ++ p'.scopeBytes)).map
              (fun q => q.inputs.map (·.txid)))
      = some [some (List.replicate 32 7)] := by
  decide +kernel

/-! ### non-vacuity -/

/-- a signature stream for the one-input PSBT of C04: one partial signature, then the separator -/
def exSigStream : Bytes := writeKVs [(0x02 :: List.replicate 33 2, [0x30, 0x01])]

/-- the hypotheses of (1) hold for `C04.exPsbtBytes`, and merging the signature stream under CLEAR_ALL in memory
    succeeds: the result keeps the signature and drops the sighash type and the unknown pair -/
example : (Psbt.parse C04.trivialKo id 0 C04.exPsbtBytes).isSome = true
    ∧ ((Psbt.parse C04.trivialKo id 0 C04.exPsbtBytes).bind
        (Psbt.mergeExtra C04.trivialKo id 1 [exSigStream] [])).map (fun p' => p'.inputs.map (·.pairs none))
        = some [[(0x02 :: List.replicate 33 2, [0x30, 0x01])]] := by
  decide

/-- … and the view at a non-zero offset writes exactly that (evaluated) -/
example : ((View.open ([1, 2, 3] ++ (C04.exPsbtBytes ++ [9])) 3).bind fun v =>
      View.writeToL C04.trivialKo id ([1, 2, 3] ++ (C04.exPsbtBytes ++ [9])) v 0 1 [exSigStream] [])
    = ((Psbt.parse C04.trivialKo id 0 C04.exPsbtBytes).bind
        (Psbt.mergeExtra C04.trivialKo id 1 [exSigStream] [])).map fun p' =>
          psbtMagic ++ writeKVs (globalKVs C04.exPsbtBytes) ++ p'.scopeBytes := by
  decide

/-- two extra input streams are consumed in lock-step, one scope of each per input -/
example : ((Psbt.parse C04.trivialKo id 0 C04.exPsbtBytes).bind
        (Psbt.mergeExtra C04.trivialKo id 0 [exSigStream, writeKVs [([0xf1], [7])]] [])).map
          (fun p' => p'.inputs.map (·.pairs none))
        = some [[(0x02 :: List.replicate 33 2, [0x30, 0x01]), ([0x03], [1, 0, 0, 0]), ([0xf0, 0x01], [0xaa]),
                 ([0xf1], [7])]] := by
  decide

/-- the hypotheses of `write_to_parses_to_memory_v0_partial` are satisfiable: the signature stream leaves the
    transaction fields alone, and the written bytes parse to the merged PSBT (evaluated) -/
example : ((Psbt.parse C04.trivialKo id 0 C04.exPsbtBytes).bind fun p =>
      (Psbt.mergeExtra C04.trivialKo id 1 [exSigStream] [] p).map fun p' =>
        (p.sameTxFields p',
         (Psbt.parse C04.trivialKo id 0 (psbtMagic ++ writeKVs (globalKVs C04.exPsbtBytes) ++ p'.scopeBytes)).map
           (fun q => q.inputs.map (·.pairs none)) == some (p'.inputs.map (·.pairs none))))
    = some (true, true) := by
  decide +kernel

end Embit.Props.C05Y
