import EmbitModel.Proofs.HeapShared
import EmbitModel.Generated.AliasFacts
/-
  C19, third part — hidden shared state at MODULE and CLASS level (`Model/HeapShared.lean`).

  `Props/C19.lean` proves independence / purity for a store whose only process-wide cells are default-argument objects, and
  what a method computes there cannot read anything but receiver and argument BY THE TYPE of `Env.f`. Here module-level
  and class-level objects are cells of the model: a maker (constructor / factory) may hand a global cell out as a container
  of the object it builds (`self.vin = vin or _EMPTY`, class-level `items = []`, a cached result given to every caller), a
  method may read and write global cells (`TABLE.append`, `cls.cache[k] = v`, `global _LAST`).

  Part 1 — for ALL histories of a SAFE environment (no maker hands out a global cell; no method writes a cell whose contents
  can enter a result): the cells results can read keep their import-time contents, objects are independent, every answer is
  a function of receiver, argument and the IMPORT-TIME contents of the cells the method reads, an object built after any
  history looks like one built right after import. Each hypothesis is necessary: witnesses for (a) module constant in an
  attribute / (b) class-level attribute, (c) cached result shared between callers, (d) a write to module state.

  Part 2 — the descriptors extracted from the loaded embit modules by `harness/sharedstate.py` (`Gen.Alias.sharedSites`):
  every site is safe, each by an EXECUTED probe (`shared_facts_safe`); the table is not empty or shrunk
  (`shared_facts_cover_the_anchors`); the environment they compile to is safe, so Part 1 applies to it.
-/
namespace Embit.Props.C19Y
open Embit Embit.Heap Embit.HeapShared

/-! ### Part 1 — all histories of a safe environment -/

/-- a state reached from the import-time state by a history -/
def Reachable (env : HeapShared.Env) (g0 : Nat → List HeapShared.Val) (st : HeapShared.State) : Prop :=
  ∃ h, st = HeapShared.run env (HeapShared.init g0) h

theorem reachable_inv (env : HeapShared.Env) (hs : env.safe = true) (g0 : Nat → List HeapShared.Val) (st : HeapShared.State)
    (hr : Reachable env g0 st) : Inv env st ∧ ∀ g ∈ env.readCells, st.glob g = g0 g := by
  obtain ⟨h, rfl⟩ := hr
  exact run_inv hs h _ (inv_init env g0)

/-- NO HIDDEN MODULE STATE: after any history, every global cell whose contents can enter a result (read by a method, or
    seen as a constant table through an object) holds what it held right after import -/
theorem read_cells_keep_their_import_time_contents (env : HeapShared.Env) (hs : env.safe = true)
    (g0 : Nat → List HeapShared.Val) (h : List HeapShared.Op) :
    ∀ g ∈ env.readCells, (HeapShared.run env (HeapShared.init g0) h).glob g = g0 g :=
  (reachable_inv env hs g0 _ ⟨h, rfl⟩).2

/-- INDEPENDENCE: whatever one caller appends to a container of object `i`, every other object looks the same; building
    objects and calling methods changes no existing object at all -/
theorem independence (env : HeapShared.Env) (hs : env.safe = true) (g0 : Nat → List HeapShared.Val)
    (st : HeapShared.State) (hr : Reachable env g0 st) (op : HeapShared.Op) (j : Nat) (hj : j < st.objs.length)
    (hne : ∀ i fld v, op = .mutate i fld v → i ≠ j) :
    HeapShared.obs (HeapShared.step env st op) j = HeapShared.obs st j :=
  step_frame hs st (reachable_inv env hs g0 st hr).1 op j hj hne

/-- RESULTS DEPEND ONLY ON ARGUMENTS: after any history, `obj.method(a)` is the method's function of the receiver's
    present contents, the argument, and the IMPORT-TIME contents of the cells it reads — nothing computed, constructed or
    mutated elsewhere enters -/
theorem answers_depend_only_on_receiver_argument_and_import_state (env : HeapShared.Env) (hs : env.safe = true)
    (g0 : Nat → List HeapShared.Val) (h : List HeapShared.Op) (i m : Nat) (a : List HeapShared.Val) :
    HeapShared.answer env (HeapShared.run env (HeapShared.init g0) h) i m a
      = env.f m (HeapShared.obs (HeapShared.run env (HeapShared.init g0) h) i) a ((readsOf env m).map g0) := by
  unfold HeapShared.answer
  congr 1
  apply List.map_congr_left
  intro g hg
  exact read_cells_keep_their_import_time_contents env hs g0 h g (reads_mem_readCells hg)

/-- a query does not disturb later queries: the answer is the same before and after any other call -/
theorem query_stable (env : HeapShared.Env) (hs : env.safe = true) (g0 : Nat → List HeapShared.Val)
    (h : List HeapShared.Op) (i m i' m' : Nat) (a a' : List HeapShared.Val)
    (hi : i < (HeapShared.run env (HeapShared.init g0) h).objs.length) :
    HeapShared.answer env (HeapShared.step env (HeapShared.run env (HeapShared.init g0) h) (.call i' m' a')) i m a
      = HeapShared.answer env (HeapShared.run env (HeapShared.init g0) h) i m a := by
  have h1 := answers_depend_only_on_receiver_argument_and_import_state env hs g0 (h ++ [.call i' m' a']) i m a
  rw [HeapShared.run_append] at h1
  simp only [HeapShared.run] at h1
  rw [h1, answers_depend_only_on_receiver_argument_and_import_state env hs g0 h i m a]
  congr 1
  exact independence env hs g0 _ ⟨h, rfl⟩ (.call i' m' a') i hi (fun _ _ _ hc => by cases hc)

/-- A FRESH OBJECT IS PRISTINE: `C(args)` after any history looks exactly like `C(args)` right after import -/
theorem fresh_object_is_pristine (env : HeapShared.Env) (hs : env.safe = true) (g0 : Nat → List HeapShared.Val)
    (h : List HeapShared.Op) (c : Nat) (args : List (Option (List HeapShared.Val))) :
    HeapShared.obs (HeapShared.run env (HeapShared.init g0) (h ++ [.make c args]))
        (HeapShared.run env (HeapShared.init g0) h).objs.length
      = HeapShared.obs (HeapShared.run env (HeapShared.init g0) [.make c args]) 0 := by
  rw [HeapShared.run_append]
  generalize hst : HeapShared.run env (HeapShared.init g0) h = st
  have hinv := reachable_inv env hs g0 st ⟨h, hst.symm⟩
  simp only [HeapShared.run, HeapShared.step, HeapShared.init]
  cases hd : env.makers[c]? with
  | none =>
    simp [HeapShared.obs]
  | some d =>
    simp only [HeapShared.obs, List.getElem?_concat_length, List.nil_append, List.getElem?_cons_zero]
    apply List.map_congr_left
    intro f hf
    have hm := mkFields_inv _ (safe_makers hs hd) args f hf
    cases f with
    | own c => rfl
    | shared g => exact absurd rfl (hm.1 g)
    | table g =>
      simp only [fieldObs]
      exact hinv.2 g (tableCell_mem_readCells hd (hm.2 g rfl))

/-! #### every hypothesis is necessary -/

def fAll : Nat → List (List HeapShared.Val) → List HeapShared.Val → List (List HeapShared.Val) → HeapShared.Val :=
  fun m recv a cells => m + 7 * recv.flatten.sum + 100 * a.sum + 1000 * cells.flatten.sum + 10000 * cells.flatten.length

/-- WITNESS (a) module constant in an attribute, (b) class-level attribute: `a = T(); b = T(); a.vin.append(5)` — with
    `self.vin = vin or _EMPTY` (or a class-level `vin = []`) the OTHER object shows the element, and a `T()` built
    afterwards is born with it; with a fresh container neither happens -/
theorem shared_container_breaks_independence :
    let bad : HeapShared.Env := { makers := [⟨[.global 0]⟩], methods := [], f := fAll }
    let good : HeapShared.Env := { makers := [⟨[.fresh]⟩], methods := [], f := fAll }
    let hist : List HeapShared.Op := [.make 0 [], .make 0 [], .mutate 0 0 5, .make 0 []]
    HeapShared.obs (HeapShared.run bad (HeapShared.init fun _ => []) hist) 1 = [[5]]
    ∧ HeapShared.obs (HeapShared.run bad (HeapShared.init fun _ => []) hist) 2 = [[5]]
    ∧ HeapShared.obs (HeapShared.run good (HeapShared.init fun _ => []) hist) 1 = [[]]
    ∧ HeapShared.obs (HeapShared.run good (HeapShared.init fun _ => []) hist) 2 = [[]]
    ∧ bad.safe = false ∧ good.safe = true := by
  decide

/-- WITNESS: WHEN the global cell is handed out. `if vin is None: vin = _EMPTY` shares only when the argument is left out;
    `self.vout = vout or _EMPTY` also when the caller passes its own EMPTY list (which is then dropped); `self.items =
    self.shared` whatever is passed. `T([]); T([]).x.append(5)`: only the last two styles show the element in the first -/
theorem sharing_depends_on_how_the_argument_is_replaced :
    let env : HeapShared.Env := { makers := [⟨[.global 0]⟩, ⟨[.globalOr 0]⟩, ⟨[.globalAlways 0]⟩], methods := [], f := fAll }
    let hist (c : Nat) (a : Option (List HeapShared.Val)) : List HeapShared.Op := [.make c [a], .make c [a], .mutate 1 0 5]
    let seen (c : Nat) (a : Option (List HeapShared.Val)) := HeapShared.obs (HeapShared.run env (HeapShared.init fun _ => []) (hist c a)) 0
    seen 0 none = [[5]] ∧ seen 0 (some []) = [[]] ∧ seen 0 (some [7]) = [[7]]
    ∧ seen 1 none = [[5]] ∧ seen 1 (some []) = [[5]] ∧ seen 1 (some [7]) = [[7]]
    ∧ seen 2 none = [[5]] ∧ seen 2 (some []) = [[5]] ∧ seen 2 (some [7]) = [[5]] := by
  decide

/-- WITNESS (c) a cached result handed to every caller: `x = f(k); x.push(5); y = f(k)` — with `lru_cache` (a module-level
    memo) around a function that returns a mutable object, the second caller receives the first caller's edit -/
theorem cached_result_is_shared_between_callers :
    let cached : HeapShared.Env := { makers := [⟨[.global 3]⟩], methods := [], f := fAll }
    let st := HeapShared.run cached (HeapShared.init fun g => if g = 3 then [1] else []) [.make 0 [], .mutate 0 0 5, .make 0 []]
    HeapShared.obs st 1 = [[1, 5]]
    ∧ HeapShared.obs (HeapShared.run cached (HeapShared.init fun g => if g = 3 then [1] else []) [.make 0 []]) 0 = [[1]] := by
  decide

/-- WITNESS (d) a write to module state: method 0 appends to the cell that method 1 reads (`TABLE.append(x)`,
    `global _LAST; _LAST = x`): the same call on the same object answers differently after it; when the written cell is
    read by nobody (a memo table of immutable values) the environment is safe -/
theorem global_write_changes_later_answers :
    let bad : HeapShared.Env := { makers := [⟨[.fresh]⟩], methods := [⟨[], [0]⟩, ⟨[0], []⟩], f := fAll }
    let benign : HeapShared.Env := { makers := [⟨[.fresh]⟩], methods := [⟨[], [7]⟩, ⟨[0], []⟩], f := fAll }
    let st := HeapShared.run bad (HeapShared.init fun _ => []) [.make 0 [some [2]]]
    HeapShared.answer bad st 0 1 [3] = 315
    ∧ HeapShared.answer bad (HeapShared.step bad st (.call 0 0 [])) 0 1 [3] = 11315
    ∧ bad.safe = false ∧ benign.safe = true
    ∧ HeapShared.answer benign (HeapShared.step benign (HeapShared.run benign (HeapShared.init fun _ => []) [.make 0 [some [2]]])
        (.call 0 0 [])) 0 1 [3] = 315 := by
  decide

/-- WITNESS: a constant table seen through objects is harmless exactly because nothing writes it — a method that does
    (`NETWORKS["x"] = ...`) makes the environment unsafe, and every object holding the table changes at once -/
theorem written_table_shows_in_every_object :
    let env : HeapShared.Env := { makers := [⟨[.constTable 1]⟩], methods := [⟨[], [1]⟩], f := fAll }
    let st := HeapShared.run env (HeapShared.init fun _ => [4]) [.make 0 [], .make 0 []]
    env.safe = false
    ∧ HeapShared.obs st 0 = [[4]] ∧ HeapShared.obs (HeapShared.step env st (.call 1 0 [])) 0 = [[4, 1]] := by
  decide

/-- non-vacuity: a safe environment with fresh containers, a shared constant table, a reading method and a benign memo
    table; a history with constructions, mutations and calls; distinct answers -/
example :
    let env : HeapShared.Env :=
      { makers := [⟨[.fresh, .constTable 2]⟩, ⟨[.fresh]⟩], methods := [⟨[2], []⟩, ⟨[], [9]⟩], f := fAll }
    let g0 : Nat → List HeapShared.Val := fun g => if g = 2 then [6, 7] else []
    let st := HeapShared.run env (HeapShared.init g0)
      [.make 0 [some [1]], .make 1 [some [2, 3]], .mutate 0 0 4, .call 1 1 [5], .mutate 0 1 9, .make 0 [some [1]]]
    env.safe = true ∧ HeapShared.obs st 0 = [[1, 4], [6, 7]] ∧ HeapShared.obs st 1 = [[2, 3]]
    ∧ HeapShared.obs st 2 = [[1], [6, 7]] ∧ st.glob 9 = [1]
    ∧ HeapShared.answer env st 0 0 [1] = 33226 ∧ HeapShared.answer env st 2 0 [1] = 33198 := by
  decide

/-! ### Part 2 — the descriptors of the real code -/

set_option maxRecDepth 100000

/-- every place of the loaded embit modules where hidden module- or class-level state could arise — every module- /
    class-level mutable object, every flow of one into an instance attribute or a return value, every function that writes
    one or rebinds a name under `global`, memo fields in other shapes, cache decorators, memo dictionaries, aliases of the
    native library — is safe, and each by an EXECUTED probe that came out safe (nothing unclassified, nothing unprobed) -/
theorem shared_facts_safe : (Gen.Alias.sharedSites.all SharedSite.safe) = true := by
  decide +kernel

/-- the table is neither empty nor shrunk: the module-level tables, the class-level GF tables of slip39 and the function
    that writes them, the native handles, the `network` attribute and the always-on probes are present and safe, and the
    translator scanned at least as much as it does today -/
theorem shared_facts_cover_the_anchors :
    (["obj:networks.NETWORKS", "obj:liquid.networks.NETWORKS", "obj:bip39.WORDLIST", "obj:slip39.SLIP39_WORDS",
      "obj:slip39.ShareSet.exp", "obj:slip39.ShareSet.log2", "obj:descriptor.miniscript.OPERATORS",
      "obj:util.py_ripemd160.ML", "obj:ec.NUMS_PUBKEY",
      "write:slip39.ShareSet._load[slip39.ShareSet.exp]", "write:slip39.ShareSet._load[slip39.ShareSet.log2]",
      "handle:util.ctypes_secp256k1._secp", "handle:util.ctypes_secp256k1._lock",
      "flow:ec.PrivateKey.network<-networks.NETWORKS",
      "probe:binding results are independent objects",
      "probe:module- and class-level objects equal their import-time picture after the exercise"].all
      fun n => Gen.Alias.sharedSites.any fun s => s.name == n && s.safe) = true
    ∧ ([("modules", 40), ("functions", 700), ("classes", 90), ("objects", 15), ("instances_built", 60),
        ("exercise_steps", 7), ("binding_calls", 40)].all
      fun r => Gen.Alias.sharedScan.any fun x => x.1 == r.1 && r.2 ≤ x.2) = true := by
  constructor <;> decide +kernel

/-- site names are keys -/
theorem shared_site_names_distinct :
    (Gen.Alias.sharedSites.map (·.name)).eraseDups.length = Gen.Alias.sharedSites.length := by
  decide +kernel

/-- the library as extracted: cell `k` is the object of the `k`-th site; a flow site is a maker (the object it hands out
    holds that cell, a constant table, or — when the identity probe refutes the sharing — a fresh container), a cache
    decorator / memo dictionary is a maker whose result every caller receives AND a method that writes the memo table, a
    write / rebinding site is a method that writes its cell unless the probe showed the contents reproduced -/
def makerOfSite (k : Nat) (s : SharedSite) : Option Maker :=
  match s.kind with
  | .sharedIntoAttr t => some ⟨[if s.safe then (if t then .constTable k else .fresh) else .global k]⟩
  | .cacheDecorator _ => some ⟨[if s.safe then .fresh else .global k]⟩
  | .moduleMemo _ => some ⟨[if s.safe then .fresh else .global k]⟩
  | .memoOther _ => some ⟨[if s.safe then .fresh else .global k]⟩
  | _ => none

def methodOfSite (k : Nat) (s : SharedSite) : Option Method :=
  match s.kind with
  | .sharedWrite => some ⟨[k], if s.safe then [] else [k]⟩
  | .globalRebind => some ⟨[k], if s.safe then [] else [k]⟩
  | .cacheDecorator _ => some ⟨if s.safe then [] else [k], [k]⟩
  | .moduleMemo _ => some ⟨if s.safe then [] else [k], [k]⟩
  | _ => none

def indexed (l : List SharedSite) : List (Nat × SharedSite) := (List.range l.length).zip l

def embitSharedEnv (f : Nat → List (List HeapShared.Val) → List HeapShared.Val → List (List HeapShared.Val) → HeapShared.Val) :
    HeapShared.Env :=
  { makers := (indexed Gen.Alias.sharedSites).filterMap fun p => makerOfSite p.1 p.2,
    methods := (indexed Gen.Alias.sharedSites).filterMap fun p => methodOfSite p.1 p.2,
    f := f }

/-- the extracted environment is safe (for every result function `f`) -/
theorem embit_shared_env_safe
    (f : Nat → List (List HeapShared.Val) → List HeapShared.Val → List (List HeapShared.Val) → HeapShared.Val) :
    (embitSharedEnv f).safe = true := by
  show (((indexed Gen.Alias.sharedSites).filterMap fun p => makerOfSite p.1 p.2).all fun d => d.fields.all FieldSrc.safe)
    && (((indexed Gen.Alias.sharedSites).filterMap fun p => methodOfSite p.1 p.2).all fun d => d.writes.all fun g =>
        !(((indexed Gen.Alias.sharedSites).filterMap fun p => methodOfSite p.1 p.2).flatMap (·.reads)
          ++ ((indexed Gen.Alias.sharedSites).filterMap fun p => makerOfSite p.1 p.2).flatMap
              fun d => d.fields.filterMap FieldSrc.tableCell).contains g) = true
  decide +kernel

/-- Part 1 instantiated with the extracted library: in every history over the extracted makers and methods, answers are
    functions of receiver, argument and the import-time contents of the module- and class-level objects -/
theorem embit_no_hidden_module_state
    (f : Nat → List (List HeapShared.Val) → List HeapShared.Val → List (List HeapShared.Val) → HeapShared.Val)
    (g0 : Nat → List HeapShared.Val) (h : List HeapShared.Op) (i m : Nat) (a : List HeapShared.Val) :
    HeapShared.answer (embitSharedEnv f) (HeapShared.run (embitSharedEnv f) (HeapShared.init g0) h) i m a
      = f m (HeapShared.obs (HeapShared.run (embitSharedEnv f) (HeapShared.init g0) h) i) a
          ((readsOf (embitSharedEnv f) m).map g0) :=
  answers_depend_only_on_receiver_argument_and_import_state (embitSharedEnv f) (embit_shared_env_safe f) g0 h i m a

/-- non-vacuity: the extracted environment has makers (among them constant tables seen through objects) and methods -/
example : 0 < (embitSharedEnv fAll).makers.length ∧ 0 < (embitSharedEnv fAll).methods.length
    ∧ 0 < (embitSharedEnv fAll).readCells.length := by
  refine ⟨?_, ?_, ?_⟩ <;> decide +kernel

end Embit.Props.C19Y
