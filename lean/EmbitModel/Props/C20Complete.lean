import EmbitModel.Props.C20Facts
import EmbitModel.Generated.BindingNames
/-
  C20, completeness of the probed table (audit2 A-7; part2-C19-C20 X4; first audit J1/J2).

  Every obligation of Props/C20Facts.lean has the shape `∀ f ∈ bindingFns, …` and therefore holds over the empty table: a
  probe that silently loses functions (or a code change that hides a function from it) was not noticed. Here the table
  is bounded from below by an enumeration made by other routes (`Generated/BindingNames.lean`, harness/bindnames.py):
  `callGraph` - dir() of the loaded module + the bytecode of every function defined there; `secpDefs` - every top-level
  `def` of the source whose body mentions `_secp`. The obligations are restated with the quantifier over the ENUMERATION:
  a function that can reach the library and has no probed, locked, fresh-buffered record breaks the build.
-/
namespace Embit.Props.C20
open Embit.Model.Lock Embit.Gen.Binding Embit.Gen.BindingNames

set_option maxRecDepth 100000

/-- record `r` of the probe table is about the module function `fn` (records are named `fn` or `fn:variant`) -/
def recordOf (r fn : String) : Bool := r == fn || (fn ++ ":").isPrefixOf r

/-- the functions of the enumeration -/
def enumerated : List String := callGraph.map (·.1)

/-- one round of the reachability closure over `callGraph`: functions whose code loads the library, or refers to a
    function already known to reach it -/
def reachStep (r : List String) : List String :=
  (callGraph.filter fun e => e.2.1 || e.2.2.any r.contains).map (·.1)

def reachN : Nat → List String → List String
  | 0, r => r
  | n + 1, r => reachN n (reachStep r)

/-- the functions that can reach the library: least fixed point of `reachStep` (`reaching_is_closed`) -/
def reaching : List String := reachN 8 []

def exemptNames : List String := exempt.map (·.1)

def noDup : List String → Bool
  | [] => true
  | a :: l => !l.contains a && noDup l

/-- `n` is in the exemption list of the generated file -/
def isExempt (n : String) : Bool := exemptNames.contains n

/-- the probe table has a record about function `n` -/
def hasRecord (n : String) : Bool := bindingFns.any fun f => recordOf f.name n

/-- every record about function `n` was exercised by the probe, calls native code only under the library's lock, lets C
    write only into buffers no other call can see, and does not re-acquire the lock -/
def recordsGood (n : String) : Bool :=
  bindingFns.all fun f => !recordOf f.name n ||
    (f.probed && f.callsNative && f.nativeUnderLock && f.outBuffersFresh && !f.lockReentered)

/-- `reaching` is closed under the call graph: no further function refers to a reaching one (so 8 rounds were enough) -/
theorem reaching_is_closed : reachStep reaching = reaching := by decide +kernel

/-- no duplicate keys: in the probe table, in the enumeration, in the exemption list -/
theorem binding_keys_distinct :
    noDup (bindingFns.map (·.name)) = true ∧ noDup enumerated = true ∧ noDup exemptNames = true := by decide +kernel

/-- the listed exemptions `Gen.BindingNames.exempt` are EXACTLY the enumerated functions that cannot reach the library:
    the reason given in the generated file is recomputed here from the call graph, not trusted -/
theorem exempt_exactly_the_unreaching :
    (exemptNames.all enumerated.contains && enumerated.all fun n => isExempt n == !reaching.contains n) = true := by
  decide +kernel

/-- the two routes agree: every `def` whose source mentions `_secp` is an enumerated function that reaches the library
    in the bytecode call graph (and is therefore not exempt) -/
theorem source_defs_are_reaching :
    (secpDefs.all fun n => enumerated.contains n && reaching.contains n && !isExempt n) = true := by
  decide +kernel

/-- what runs at import: when a module-level statement calls a function that reaches the library, the table has the
    `<import>` record, probed and locked -/
theorem import_has_a_record :
    (importCalls.any reaching.contains) = true →
      ∃ f ∈ bindingFns, f.name = "<import>" ∧ f.probed = true ∧ f.callsNative = true ∧ f.nativeUnderLock = true := by
  decide +kernel

/-- vice versa: every record is about an enumerated function (or the import), and a record that calls native code is
    about a function that reaches the library in the independent call graph -/
theorem every_record_is_enumerated :
    (bindingFns.all fun f => f.name == "<import>" ||
      enumerated.any fun n => recordOf f.name n && (!f.callsNative || reaching.contains n)) = true := by decide +kernel

/-- the obligations of Props/C20Facts restated over the ENUMERATION: every function of the loaded binding module that
    is not in the exemption list (i.e. can reach the library) has a record, and every record of it was exercised by the
    probe, makes its native calls under the library's lock, lets C write only into buffers no other call can see, and
    does not re-acquire the lock. Dropping a function from the probe table breaks this theorem. -/
theorem every_enumerated_entry_locked :
    (enumerated.all fun n => isExempt n || (hasRecord n && recordsGood n)) = true := by decide +kernel

/-- the same, unfolded: for an enumerated function outside the exemption list -/
theorem enumerated_entry_locked (n : String) (hn : n ∈ enumerated) (hex : isExempt n = false) :
    (∃ f ∈ bindingFns, recordOf f.name n = true) ∧
    ∀ f ∈ bindingFns, recordOf f.name n = true →
      f.probed = true ∧ f.callsNative = true ∧ f.nativeUnderLock = true ∧ f.outBuffersFresh = true
        ∧ f.lockReentered = false := by
  have h := List.all_eq_true.1 every_enumerated_entry_locked n hn
  rw [hex, Bool.false_or, Bool.and_eq_true] at h
  refine ⟨by simpa [hasRecord] using h.1, fun f hf hr => ?_⟩
  have h2 := List.all_eq_true.1 h.2 f hf
  simp only [hr, Bool.not_true, Bool.false_or, Bool.and_eq_true, Bool.not_eq_true'] at h2
  exact ⟨h2.1.1.1.1, h2.1.1.1.2, h2.1.1.2, h2.1.2, h2.2⟩

/-- COMPLETENESS: every enumerated function outside the exemption list has a record in the probed table -/
theorem every_enumerated_function_has_a_record :
    ∀ n ∈ enumerated, isExempt n = false → ∃ f ∈ bindingFns, recordOf f.name n = true :=
  fun n hn hex => (enumerated_entry_locked n hn hex).1

/-- protocol + facts, for programs named through the enumeration: any threads running any sequences of records of
    enumerated, non-exempt functions give the serial results under every complete schedule -/
theorem enumerated_serialisable (threads : List (List BindingFn))
    (hin : ∀ ops ∈ threads, ∀ f ∈ ops, f ∈ bindingFns ∧ ∃ n ∈ enumerated, isExempt n = false ∧ recordOf f.name n = true)
    (sched : List Tid) :
    complete (run sched (init (progsOf (threads.map (·.map (·.steps)))))) →
    ∀ t, (run sched (init (progsOf (threads.map (·.map (·.steps)))))).res t
      = (run (serialSched (progsOf (threads.map (·.map (·.steps)))) threads.length)
          (init (progsOf (threads.map (·.map (·.steps)))))).res t := by
  refine binding_serialisable threads (fun ops hops f hf => ?_) sched
  obtain ⟨hmem, n, hn, hex, hrec⟩ := hin ops hops f hf
  exact ⟨hmem, ((enumerated_entry_locked n hn hex).2 f hmem hrec).2.1⟩

/-- non-vacuity: the enumeration is not empty, most of it reaches the library, the exemption list is short, and the
    Liquid unblinding primitive and both signers are among the reaching functions -/
example : (decide (40 ≤ reaching.length) && decide (exemptNames.length ≤ 10) && decide (40 ≤ secpDefs.length)
    && reaching.contains "rangeproof_rewind" && reaching.contains "ecdsa_sign" && reaching.contains "schnorrsig_sign"
    && !isExempt "ecdsa_sign") = true := by decide +kernel

end Embit.Props.C20
