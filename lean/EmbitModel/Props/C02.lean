import EmbitModel.Model.Sign
/-
  C02 — PSBT signing adds only valid, authorised signatures for the right digest.
  Decision logic proved here; signature validity, the signed set, counts and the frame condition are proved in
  Props/C02X.lean (and additionally decided on every run by the independent verifier/predicate in
  harness/props/c02.py).
-/
set_option linter.unusedSimpArgs false
namespace Embit.Props.C02
open Embit Model

/-! ### which flag, and whether to sign at all — the rule as the property words it -/

/-- non-taproot inputs have no DEFAULT: it means ALL -/
def norm (taproot : Bool) (f : Nat) : Nat := if !taproot && f = 0 then 1 else f

/-- the input's flag: its own PSBT_IN_SIGHASH_TYPE, else the one the caller asks for, else DEFAULT -/
def effective (authorised inpSighash : Option Nat) (taproot : Bool) : Nat :=
  match inpSighash with
  | some f => norm taproot f
  | none => norm taproot (authorised.getD 0)

/-- ALL and DEFAULT are interchangeable -/
def equivFlag (a b : Nat) : Prop := a = b ∨ ((a = 0 ∨ a = 1) ∧ (b = 0 ∨ b = 1))

/-- the input's flag is one the caller authorised (None = whatever the PSBT requests) -/
def authorisedFlag (authorised inpSighash : Option Nat) (taproot : Bool) : Prop :=
  match authorised with
  | none => True
  | some a => equivFlag (norm taproot a) (effective authorised inpSighash taproot)

/-- an input is signed exactly when its flag is authorised — every combination of caller flag, input flag
    (any natural numbers, not only the eight valid ones) and input kind -/
theorem policy_iff (a r : Option Nat) (t : Bool) : (signPolicy a r t).isSome = true ↔ authorisedFlag a r t := by
  cases a with
  | none => simp [signPolicy, authorisedFlag]
  | some x =>
    cases r with
    | none =>
      cases t
      · simp only [signPolicy, authorisedFlag, equivFlag, effective, norm, Option.getD_some]
        by_cases h0 : x = 0 <;> by_cases h1 : x = 1 <;> simp [h0, h1]
      · simp only [signPolicy, authorisedFlag, equivFlag, effective, norm, Option.getD_some]
        by_cases h0 : x = 0 <;> by_cases h1 : x = 1 <;> simp [h0, h1]
    | some y =>
      cases t
      · simp only [signPolicy, authorisedFlag, equivFlag, effective, norm]
        by_cases h0 : x = 0 <;> by_cases h1 : x = 1 <;> by_cases g0 : y = 0 <;> by_cases g1 : y = 1 <;>
          by_cases e : y = x <;> simp [h0, h1, g0, g1, e] <;> omega
      · simp only [signPolicy, authorisedFlag, equivFlag, effective, norm]
        by_cases h0 : x = 0 <;> by_cases h1 : x = 1 <;> by_cases g0 : y = 0 <;> by_cases g1 : y = 1 <;>
          by_cases e : y = x <;> simp [h0, h1, g0, g1, e] <;> omega

/-- and it is signed with the input's flag (so the signature's last byte is that flag) -/
theorem policy_flag (a r : Option Nat) (t : Bool) (f : Nat) (h : signPolicy a r t = some f) :
    f = effective a r t := by
  cases a with
  | none =>
    cases r <;> cases t <;> simp [signPolicy, effective, norm] at h ⊢ <;> (try split at h) <;> simp_all
  | some x =>
    cases r with
    | none =>
      cases t
      · simp only [signPolicy, effective, norm, Option.getD_some] at h ⊢
        by_cases h0 : x = 0 <;> by_cases h1 : x = 1 <;> simp [h0, h1] at h ⊢ <;> omega
      · simp only [signPolicy, effective, norm, Option.getD_some] at h ⊢
        by_cases h0 : x = 0 <;> by_cases h1 : x = 1 <;> simp [h0, h1] at h ⊢ <;> omega
    | some y =>
      cases t
      · simp only [signPolicy, effective, norm] at h ⊢
        by_cases h0 : x = 0 <;> by_cases h1 : x = 1 <;> by_cases g0 : y = 0 <;> by_cases g1 : y = 1 <;>
          by_cases e : y = x <;> simp [h0, h1, g0, g1, e] at h ⊢ <;> omega
      · simp only [signPolicy, effective, norm] at h ⊢
        by_cases h0 : x = 0 <;> by_cases h1 : x = 1 <;> by_cases g0 : y = 0 <;> by_cases g1 : y = 1 <;>
          by_cases e : y = x <;> simp [h0, h1, g0, g1, e] at h ⊢ <;> omega

/-- None = sign whatever the PSBT requests -/
theorem policy_none (r : Option Nat) (t : Bool) : signPolicy none r t = some (effective none r t) := by
  cases r <;> cases t <;> simp [signPolicy, effective, norm]

/-- a caller who authorises only ALL/DEFAULT never produces a NONE/SINGLE/ANYONECANPAY signature -/
theorem all_never_signs_weaker (r : Option Nat) (t : Bool) (a f : Nat) (ha : a = 0 ∨ a = 1)
    (h : signPolicy (some a) r t = some f) : f = 0 ∨ f = 1 := by
  have h1 := policy_flag _ _ _ _ h
  have h2 := (policy_iff (some a) r t).mp (by simp [h])
  simp only [authorisedFlag, equivFlag] at h2
  rw [← h1] at h2
  rcases ha with rfl | rfl <;> cases t <;> simp [norm] at h2 <;> omega

/-! ### which digest: algorithm and script code per script type (BIP143 / BIP341 / legacy rule) -/

def p2pkhOf (h20 : Bytes) : Bytes := [0x76, 0xa9, 0x14] ++ h20 ++ [0x88, 0xac]

/-- P2WPKH: BIP143 script code is the P2PKH script of the same hash -/
theorem dispatch_p2wpkh (h20 : Bytes) (hl : h20.length = 20) (wu : Bool) :
    sighashDispatch ([0x00, 0x14] ++ h20) none none wu = (Algo.segwit, p2pkhOf h20) := by
  have : (([0x00, 0x14] : Bytes) ++ h20).length = 22 := by simp [hl]
  simp [sighashDispatch, scriptType, truthy, hl, p2pkhOf]

/-- P2SH-P2WPKH -/
theorem dispatch_p2sh_p2wpkh (h20 s20 : Bytes) (hl : h20.length = 20) (hs : s20.length = 20) (wu : Bool) :
    sighashDispatch ([0xa9, 0x14] ++ s20 ++ [0x87]) none (some ([0x00, 0x14] ++ h20)) wu
      = (Algo.segwit, p2pkhOf h20) := by
  simp [sighashDispatch, scriptType, truthy, hl, hs, p2pkhOf]

/-- P2WSH: script code is the witness script. `hnot` is an explicit exclusion (a witness script of P2WPKH shape, where
    embit deviates from BIP143): see `dispatch_p2wsh_wpkh_shaped_deviates` -/
theorem dispatch_p2wsh (h32 ws : Bytes) (hl : h32.length = 32) (hne : ws ≠ [])
    (hnot : scriptType ws ≠ some "p2wpkh") (wu : Bool) :
    sighashDispatch ([0x00, 0x20] ++ h32) (some ws) none wu = (Algo.segwit, ws) := by
  have hw : ws.isEmpty = false := by cases ws <;> simp_all
  have hspk : scriptType ([0x00, 0x20] ++ h32) = some "p2wsh" := by simp [scriptType, hl]
  have hnot' : (scriptType ws = some "p2wpkh") = False := by simp [hnot]
  simp only [sighashDispatch, hspk, truthy, hw, Option.getD_some, hnot']
  simp
  intro h; exact absurd h hnot

/-- P2SH-P2WSH. `hnot`: explicit exclusion, see `dispatch_p2sh_p2wsh_wpkh_shaped_deviates` -/
theorem dispatch_p2sh_p2wsh (s20 h32 ws : Bytes) (hs : s20.length = 20) (hl : h32.length = 32) (hne : ws ≠ [])
    (hnot : scriptType ws ≠ some "p2wpkh") (wu : Bool) :
    sighashDispatch ([0xa9, 0x14] ++ s20 ++ [0x87]) (some ws) (some ([0x00, 0x20] ++ h32)) wu = (Algo.segwit, ws) := by
  have hw : ws.isEmpty = false := by cases ws <;> simp_all
  have hspk : scriptType ([0xa9, 0x14] ++ s20 ++ [0x87]) = some "p2sh" := by simp [scriptType, hs]
  have hnot' : (scriptType ws = some "p2wpkh") = False := by simp [hnot]
  simp only [sighashDispatch, hspk, truthy, hw, Option.getD_some, hnot']
  simp
  intro h; exact absurd h hnot

/-! #### the explicit exclusion `scriptType ws ≠ some "p2wpkh"` (audit A13)

  `dispatch_p2wsh`, `dispatch_p2sh_p2wsh` and `dispatch_p2sh_legacy` exclude a witness script / redeem script that
  itself has the 22-byte P2WPKH shape `0014‖h20`. This is an EXPLICIT EXCLUSION of the property, not a proof gap: in
  that region embit deviates from BIP143. BIP143 prescribes the witness script itself as script code of a P2WSH input;
  embit applies its P2WPKH rewriting to whatever script it selected (`if sc.script_type() == "p2wpkh": sc =
  p2pkh_from_p2wpkh(sc)`) and hashes `76a914‖h20‖88ac` instead. The witness theorems below show the deviation at a
  concrete point inside the excluded region. It is unspendable in practice either way (as a witness script `0014‖h20`
  leaves `h20` on the stack — no signature is ever checked against this digest), so no code change and no finding; the
  exclusion stays a hypothesis of the three theorems. -/

/-- the P2WPKH-shaped witness script `0014‖aa…aa` used by the witnesses -/
def exWpkhShaped : Bytes := [0x00, 0x14] ++ List.replicate 20 0xaa

/-- witness inside the excluded region, P2WSH: the conclusion of `dispatch_p2wsh` FAILS — the script code embit signs
    is the P2PKH conversion, not the witness script BIP143 prescribes (all other hypotheses of `dispatch_p2wsh` hold) -/
theorem dispatch_p2wsh_wpkh_shaped_deviates :
    scriptType exWpkhShaped = some "p2wpkh" ∧ exWpkhShaped ≠ [] ∧ (List.replicate 32 (1 : UInt8)).length = 32
    ∧ sighashDispatch ([0x00, 0x20] ++ List.replicate 32 1) (some exWpkhShaped) none true
        = (Algo.segwit, p2pkhOf (List.replicate 20 0xaa))
    ∧ sighashDispatch ([0x00, 0x20] ++ List.replicate 32 1) (some exWpkhShaped) none true
        ≠ (Algo.segwit, exWpkhShaped) := by decide

/-- the same for P2SH-P2WSH … -/
theorem dispatch_p2sh_p2wsh_wpkh_shaped_deviates :
    sighashDispatch ([0xa9, 0x14] ++ List.replicate 20 2 ++ [0x87]) (some exWpkhShaped)
        (some ([0x00, 0x20] ++ List.replicate 32 1)) false
      = (Algo.segwit, p2pkhOf (List.replicate 20 0xaa))
    ∧ sighashDispatch ([0xa9, 0x14] ++ List.replicate 20 2 ++ [0x87]) (some exWpkhShaped)
        (some ([0x00, 0x20] ++ List.replicate 32 1)) false
      ≠ (Algo.segwit, exWpkhShaped) := by decide

/-- … while for a bare P2SH whose redeem script has that shape the exclusion only separates it from
    `dispatch_p2sh_p2wpkh`: this IS P2SH-P2WPKH (BIP143 digest over the P2PKH script code), not a legacy input -/
theorem dispatch_p2sh_legacy_wpkh_shaped_is_segwit :
    sighashDispatch ([0xa9, 0x14] ++ List.replicate 20 2 ++ [0x87]) none (some exWpkhShaped) false
      = (Algo.segwit, p2pkhOf (List.replicate 20 0xaa)) := by decide

/-- P2PKH: legacy, script code is the scriptPubKey -/
theorem dispatch_p2pkh (h20 : Bytes) (hl : h20.length = 20) :
    sighashDispatch (p2pkhOf h20) none none false = (Algo.legacy, p2pkhOf h20) := by
  simp [sighashDispatch, scriptType, truthy, hl, p2pkhOf]

/-- bare P2SH (e.g. legacy multisig): legacy, script code is the redeem script. `h1` / `h2` separate it from
    P2SH-P2WPKH / P2SH-P2WSH (`dispatch_p2sh_legacy_wpkh_shaped_is_segwit`) -/
theorem dispatch_p2sh_legacy (s20 rs : Bytes) (hs : s20.length = 20) (hne : rs ≠ [])
    (h1 : scriptType rs ≠ some "p2wpkh") (h2 : scriptType rs ≠ some "p2wsh") :
    sighashDispatch ([0xa9, 0x14] ++ s20 ++ [0x87]) none (some rs) false = (Algo.legacy, rs) := by
  have hw : rs.isEmpty = false := by cases rs <;> simp_all
  have hspk : scriptType ([0xa9, 0x14] ++ s20 ++ [0x87]) = some "p2sh" := by simp [scriptType, hs]
  have h1' : (scriptType rs = some "p2wpkh") = False := by simp [h1]
  have h2' : (scriptType rs = some "p2wsh") = False := by simp [h2]
  simp only [sighashDispatch, hspk, truthy, hw, Option.getD_some, h1', h2']
  simp
  intro h; exact absurd h h1

/-- P2TR: always the BIP341 digest -/
theorem dispatch_p2tr (x32 : Bytes) (hl : x32.length = 32) (ws rs : Option Bytes) (wu : Bool) :
    (sighashDispatch ([0x51, 0x20] ++ x32) ws rs wu).1 = Algo.taproot := by
  simp [sighashDispatch, scriptType, hl]

-- added_sigs_valid / signed set / count_eq_added / frame: proved in Props/C02X.lean over the executable model of the
--   whole of `PSBT.sign_with` / `PSBTView.sign_with` (Model/SignWith.lean, Model/SignWithView.lean).

/-! ### non-vacuity -/
example : signPolicy (some 0) (some 0x83) false = none ∧ signPolicy none (some 0x83) false = some 0x83
    ∧ signPolicy (some 0) none false = some 1 ∧ signPolicy (some 1) (some 0) true = some 0 := by decide

end Embit.Props.C02
