import EmbitModel.Props.C18
import EmbitModel.Proofs.LiquidBalanceLink
import EmbitModel.Proofs.LiquidToyZkp
import EmbitModel.Proofs.LiquidSpecLink
/-
  C18, audit items A9 (I-18.1, I-18.2) and A15 (I-18.6).

  A9. `C18.balance` needs `ZkpLaws Z A`, whose only exhibited instance had `blindSum = none`, and it speaks about free
      variables. Here:
      §1  a non-trivial instance (`Toy2.toyZkp2` over (ℤ/251)², blind-sum COMPUTES the specified factor) of every law,
          and a concrete 2-input / 2-blinded-output / fee PSET on which the whole model `blind` SUCCEEDS, both
          hypotheses of `C18.balance` hold, and its conclusion is recomputed by the kernel;
      §2  `balance_stored`: the balance equation for the commitment bytes STORED in the result of `blind`, parsed with
          the library's own parser; `setLast` = `setLastVbf` on the selected outputs under the explicit decidable
          hypothesis `sel32` (witness for its necessity: `balance_needs_sel32`); the input side in terms of the stated
          scope fields (that is what embit uses — it never opens the utxo commitments in `blind`), and in terms of the
          utxo value fields under the explicit hypothesis `InputsOpen`, discharged from `unblindAccept`.
      Everything stays RELATIVE to `ZkpLaws` (+ `ZkpSerLaws`); nothing is shown for secp256k1-zkp.
  A15. `C18.slip77_spec`, `C18.txseed_def` restate definitions. §3 gives the statements they stand for:
      model = an independent SLIP-0021/0077 spec (`slip77_master_eq_spec`), and what the transaction seed binds
      (`txseed_binds`, with the witness `txseed_counts_not_bound` for what it does NOT bind).
-/
set_option linter.unusedSimpArgs false
set_option linter.unusedVariables false
namespace Embit.Props.C18Y
open Embit Model Toy2

/-! ## 1. The laws are jointly satisfiable, with an answering blind-sum (I-18.2) -/

/-- every law of `ZkpLaws` holds for the toy library over (ℤ/251)²: generators `H(t) + abf·G`, commitments
    `v·gen + vbf·G`, and a blind-sum that returns the factor it is specified to return, computed from its arguments -/
theorem toyZkp2_laws : ZkpLaws toyZkp2 toyAlg2 := Toy2.toyZkp2_laws

/-- … and so does the serialise / parse law -/
theorem toyZkp2_serLaws : ZkpSerLaws toyZkp2 toyAlg2 :=
  ZkpSerLaws.of_parse_serialize toyZkp2 toyAlg2 toyZkp2_parse_serialize

/-- the toy blind-sum answers: one input of 10 under (abf 3, vbf 5), outputs 7 and 3 under abfs 2 and 9, first vbf 4 —
    the last factor is 10·3 + 5 − (7·2 + 4) − 3·9 = −10 = 241 (mod 251), whatever stood in the last slot -/
example : toyZkp2.blindSum [10, 7, 3] [[3], [2], [9]] [[5], [4], [77]] 1 = some [241] := by decide

/-- ill-formed calls are refused -/
example : toyZkp2.blindSum [10, 7] [[3], [2]] [[5]] 1 = none := by decide

/-- a toy hash for the examples: a function of the bytes after the two tag-hash copies and of the length (the kernel
    cannot evaluate the tag strings; it never has to, evaluation is lazy) -/
def tsha (b : Bytes) : Bytes := [UInt8.ofNat ((((b.drop 2).map UInt8.toNat).sum + b.length) % 250 + 1)]

theorem tsha_ne_nil (b : Bytes) : tsha b ≠ [] := by simp [tsha]

def A1 : Bytes := List.replicate 32 1
def A2 : Bytes := List.replicate 32 2
def exSeed : Bytes := List.replicate 32 0x11

/-- input 0: an unblinded confidential utxo of 10 × asset A1 (factors 3 / 5; its utxo carries the toy commitment and
    generator of exactly these); input 1: an explicit utxo of 7 × asset A2 -/
def exIns : List BlindIn :=
  [ { txid := List.replicate 32 7, vout := 1, value := some 10, asset := some A1, abf := some [3], vbf := some [5],
      utxoValue := some (.conf [0x08, 32, 35]), utxoAsset := some [0x0a, 204, 3] },
    { txid := List.replicate 32 9, vout := 0, value := none, asset := none, abf := none, vbf := none,
      utxoValue := some (.explicit 7), utxoAsset := some A2 } ]

/-- outputs: 10 × A1 and 6 × A2 to be blinded, an explicit fee of 1 × A2 -/
def exOuts : List BlindOut :=
  [ { spk := [0x51], value := some 10, asset := some A1, blindingPubkey := some [2, 1] },
    { spk := [0x52], value := some 6, asset := some A2, blindingPubkey := some [2, 2] },
    { spk := [], value := some 1, asset := some A2, blindingPubkey := none } ]

/-- what the model `blind` returns with the toy library: factors, commitments, proofs of both blinded outputs; the fee
    output untouched -/
def exRes : List BlindOut :=
  [ { spk := [0x51], value := some 10, asset := some A1, blindingPubkey := some [2, 1], abf := some [92],
      vbf := some [92], assetCommitment := some [0x0a, 204, 92], valueCommitment := some [0x08, 32, 8],
      ecdhPubkey := some [2, 92], rangeProof := some [0x52], surjProof := some [0x50, 0], assetProof := some [0x50, 0],
      valueProof := some [0x52] },
    { spk := [0x52], value := some 6, asset := some A2, blindingPubkey := some [2, 2], abf := some [93],
      vbf := some [222], assetCommitment := some [0x0a, 157, 93], valueCommitment := some [0x08, 189, 27],
      ecdhPubkey := some [2, 93], rangeProof := some [0x52], surjProof := some [0x50, 1], assetProof := some [0x50, 0],
      valueProof := some [0x52] },
    { spk := [], value := some 1, asset := some A2, blindingPubkey := none } ]

/-- the arguments of the blind-sum call in this run -/
def exArgs : SumArgs :=
  { vals := [10, 7, 10, 6], abfs := [[3], zeros32, [92], [93]], vbfs := [[5], zeros32, [92], [93]], nIn := 2 }

/-- the whole data flow of the model `PSET.blind` SUCCEEDS with the toy library (no earlier in-file example had
    `blind … = some`) -/
theorem ex_blind : blind toyZkp2 tsha exSeed exIns exOuts = some exRes := by decide +kernel

theorem ex_sumArgs : sumArgs exIns (assignFactors tsha (txseed tsha exSeed exIns exOuts) 0 exOuts) = some exArgs := by
  decide +kernel

/-- the blind-sum answers `some lastVbf`, and it is the factor stored in the last blinded output -/
theorem ex_blindSum : toyZkp2.blindSum exArgs.vals exArgs.abfs exArgs.vbfs exArgs.nIn = some [222] := by
  decide +kernel

/-- NON-VACUITY of `C18.balance`: both hypotheses (`ZkpLaws`, `blind … = some res`) hold simultaneously -/
example : ∃ a lastVbf, sumArgs exIns (assignFactors tsha (txseed tsha exSeed exIns exOuts) 0 exOuts) = some a
    ∧ toyZkp2.blindSum a.vals a.abfs a.vbfs a.nIn = some lastVbf
    ∧ ([A1, A2, A1, A2].length = a.vals.length →
        let es : List (Entry (ZMod 251)) := mkEntries toyAlg2 a.vals [A1, A2, A1, A2] a.abfs (setLast a.vbfs lastVbf)
        ((es.take a.nIn).map (Entry.commit toyAlg2)).sum - ((es.drop a.nIn).map (Entry.commit toyAlg2)).sum
          = ((es.take a.nIn).map (Entry.plain toyAlg2)).sum - ((es.drop a.nIn).map (Entry.plain toyAlg2)).sum) :=
  C18.balance toyZkp2_laws tsha exSeed exIns exOuts exRes ex_blind [A1, A2, A1, A2]

/-- … and its conclusion, recomputed by the kernel on the concrete numbers: the commitments of the inputs minus the
    commitments of the blinded outputs are the plain amount `1·H(A2)` of the fee, `(157, 0)`; all blinding (second
    coordinate) cancels -/
theorem ex_balance_computes :
    let es : List (Entry (ZMod 251)) :=
      mkEntries toyAlg2 exArgs.vals [A1, A2, A1, A2] exArgs.abfs (setLast exArgs.vbfs [222])
    ((es.take 2).map (Entry.commit toyAlg2)).sum - ((es.drop 2).map (Entry.commit toyAlg2)).sum = (157, 0)
    ∧ ((es.take 2).map (Entry.plain toyAlg2)).sum - ((es.drop 2).map (Entry.plain toyAlg2)).sum = (157, 0)
    ∧ Entry.plain toyAlg2 { v := 1, asset := A2, abf := 0, vbf := 0 } = (157, 0) := by
  decide +kernel

/-! ## 2. Balance for the STORED commitments (I-18.1) -/

section stored
variable {R M : Type} [CommRing R] [AddCommGroup M] [Module R M]

/-- the commitment `blind` stores in a blinded output parses (library parser) to a point that is the commitment of the
    output's own stated value and asset under its own stored factors — `C18.commitment_decodes` composed with the
    data flow of `blind` and the serialise / parse law -/
theorem stored_commitment_opens {Z : Zkp} {A : ZkpAlg R M} (L : ZkpLaws Z A) (S : ZkpSerLaws Z A)
    (sha : Bytes → Bytes) (hsha : ∀ b, sha b ≠ []) (seed : Bytes) (ins : List BlindIn) (outs res : List BlindOut)
    (h : blind Z sha seed ins outs = some res) (h32 : outs.all sel32 = true) (r : BlindOut) (hr : r ∈ res)
    (hs : r.selected = true) :
    ∃ s c, r.valueCommitment = some s ∧ Z.pedersenCommitmentParse s = some c
      ∧ A.point c = Entry.commit A (outEntry A r) :=
  (balance_stored_of_blind L S sha hsha seed ins outs res h h32).1 r hr hs

/-- the ASSET commitment `blind` stores in a blinded output parses (library generator parser) to `H(asset) + abf·G`
    for the output's own asset and stored factor, under the serialise / parse law for generators (explicit) -/
theorem stored_asset_commitment_opens {Z : Zkp} {A : ZkpAlg R M} (L : ZkpLaws Z A)
    (hgs : ∀ g s, Z.generatorSerialize g = some s → ∃ g', Z.generatorParse s = some g' ∧ A.point g' = A.point g)
    (sha : Bytes → Bytes) (seed : Bytes) (ins : List BlindIn) (outs res : List BlindOut)
    (h : blind Z sha seed ins outs = some res) (r : BlindOut) (hr : r ∈ res) (hs : r.selected = true) :
    ∃ s g, r.assetCommitment = some s ∧ Z.generatorParse s = some g
      ∧ A.point g = A.H (r.asset.getD []) + A.scalar (r.abf.getD []) • A.G :=
  stored_generator_of_blind L hgs sha seed ins outs res h r hr hs

/-- MAIN (A9): Σ commit(inputs counted by `blind`, as STATED in their scopes)
      − Σ_{blinded outputs r of the RESULT} point(parse(r.valueCommitment))
    = Σ plain(inputs) − Σ plain(blinded outputs).
    `storedPoint Z A r` is `A.point` of `Z.pedersenCommitmentParse` of the stored bytes. Hypotheses: the library laws,
    the serialise / parse law, non-empty hashes, and every blinded output has a 32-byte asset (`sel32`, decidable). -/
theorem balance_stored {Z : Zkp} {A : ZkpAlg R M} (L : ZkpLaws Z A) (S : ZkpSerLaws Z A)
    (sha : Bytes → Bytes) (hsha : ∀ b, sha b ≠ []) (seed : Bytes) (ins : List BlindIn) (outs res : List BlindOut)
    (h : blind Z sha seed ins outs = some res) (h32 : outs.all sel32 = true) :
    ((inEntries A ins).map (Entry.commit A)).sum - ((res.filter BlindOut.selected).map (storedPoint Z A)).sum
      = ((inEntries A ins).map (Entry.plain A)).sum
        - ((res.filter BlindOut.selected).map (fun r => Entry.plain A (outEntry A r))).sum :=
  (balance_stored_of_blind L S sha hsha seed ins outs res h h32).2

/-- the tally form (`pedersen_verify_tally`): with value conservation per asset generator — plain inputs = plain blinded
    outputs + plain explicit outputs and fee — the input commitments equal the STORED output commitments plus
    `v·H(asset)` of the explicit outputs and the fee -/
theorem balance_stored_fee {Z : Zkp} {A : ZkpAlg R M} (L : ZkpLaws Z A) (S : ZkpSerLaws Z A)
    (sha : Bytes → Bytes) (hsha : ∀ b, sha b ≠ []) (seed : Bytes) (ins : List BlindIn) (outs res : List BlindOut)
    (h : blind Z sha seed ins outs = some res) (h32 : outs.all sel32 = true) (explicit : List (Entry R))
    (hv : ((inEntries A ins).map (Entry.plain A)).sum
          = ((res.filter BlindOut.selected).map (fun r => Entry.plain A (outEntry A r))).sum
            + (explicit.map (Entry.plain A)).sum) :
    ((inEntries A ins).map (Entry.commit A)).sum
      = ((res.filter BlindOut.selected).map (storedPoint Z A)).sum + (explicit.map (Entry.plain A)).sum := by
  have hb := balance_stored L S sha hsha seed ins outs res h h32
  rw [hv] at hb
  have e : ((inEntries A ins).map (Entry.commit A)).sum
      = ((res.filter BlindOut.selected).map (storedPoint Z A)).sum
        + (((inEntries A ins).map (Entry.commit A)).sum - ((res.filter BlindOut.selected).map (storedPoint Z A)).sum) := by
    abel
  rw [e, hb]; abel

/-- the same with the serialise / parse law in its usual explicit form -/
theorem balance_stored_parse_serialize {Z : Zkp} {A : ZkpAlg R M} (L : ZkpLaws Z A)
    (hps : ∀ c s, Z.pedersenCommitmentSerialize c = some s → Z.pedersenCommitmentParse s = some c)
    (sha : Bytes → Bytes) (hsha : ∀ b, sha b ≠ []) (seed : Bytes) (ins : List BlindIn) (outs res : List BlindOut)
    (h : blind Z sha seed ins outs = some res) (h32 : outs.all sel32 = true) :
    ((inEntries A ins).map (Entry.commit A)).sum - ((res.filter BlindOut.selected).map (storedPoint Z A)).sum
      = ((inEntries A ins).map (Entry.plain A)).sum
        - ((res.filter BlindOut.selected).map (fun r => Entry.plain A (outEntry A r))).sum :=
  balance_stored L (ZkpSerLaws.of_parse_serialize Z A hps) sha hsha seed ins outs res h h32

/-- for a library whose `generator_generate_blinded` refuses asset tags that are not 32 bytes long (embit's wrapper
    does: "Asset should be 32 bytes long"), success of `blind` IMPLIES `sel32` -/
theorem sel32_of_blind (Z : Zkp) (hlen : ∀ asset abf g, Z.generatorGenerateBlinded asset abf = some g → asset.length = 32)
    (sha : Bytes → Bytes) (seed : Bytes) (ins : List BlindIn) (outs res : List BlindOut)
    (h : blind Z sha seed ins outs = some res) : outs.all sel32 = true := by
  obtain ⟨_, _, _, _, _, hall⟩ := C18.blind_deterministic Z sha seed ins outs res h
  rw [List.all_eq_true]
  intro o ho
  obtain ⟨i, hi⟩ := List.getElem?_of_mem ho
  obtain ⟨r, _, _, hsel⟩ := hall i o hi
  by_cases hs : o.selected = true
  · obtain ⟨_, _, _, asset, value, gen, vc, ha, _, hg, _⟩ := hsel hs
    have := hlen asset _ gen hg
    simp [sel32, hs, ha, this]
  · have : o.selected = false := by simpa using hs
    simp [sel32, this]

/-- … so for such a library no side condition on the outputs is left -/
theorem balance_stored_of_len {Z : Zkp} {A : ZkpAlg R M} (L : ZkpLaws Z A) (S : ZkpSerLaws Z A)
    (hlen : ∀ asset abf g, Z.generatorGenerateBlinded asset abf = some g → asset.length = 32)
    (sha : Bytes → Bytes) (hsha : ∀ b, sha b ≠ []) (seed : Bytes) (ins : List BlindIn) (outs res : List BlindOut)
    (h : blind Z sha seed ins outs = some res) :
    ((inEntries A ins).map (Entry.commit A)).sum - ((res.filter BlindOut.selected).map (storedPoint Z A)).sum
      = ((inEntries A ins).map (Entry.plain A)).sum
        - ((res.filter BlindOut.selected).map (fun r => Entry.plain A (outEntry A r))).sum :=
  balance_stored L S sha hsha seed ins outs res h (sel32_of_blind Z hlen sha seed ins outs res h)

/-- `setLast` vs `setLastVbf` (the auditor's remark): under `sel32` the blind-sum lists are the counted inputs
    followed by exactly the blinded outputs, so the LAST LIST ENTRY that `setLast` replaces IS the factor of the last
    SELECTED output that `setLastVbf` replaces — the output part of the list with its last entry replaced is the list
    of the blinded outputs' factors after `setLastVbf`, the input part is untouched -/
theorem setLast_coincides_setLastVbf (sha : Bytes → Bytes) (hsha : ∀ b, sha b ≠ []) (ts : Bytes) (ins : List BlindIn)
    (outs : List BlindOut) (h32 : outs.all sel32 = true) (a : SumArgs) (lv : Bytes)
    (ha : sumArgs ins (assignFactors sha ts 0 outs) = some a)
    (hany : (assignFactors sha ts 0 outs).any BlindOut.selected = true) :
    a.vbfs.length = a.nIn + ((assignFactors sha ts 0 outs).filter BlindOut.selected).length
    ∧ (setLast a.vbfs lv).take a.nIn = a.vbfs.take a.nIn
    ∧ (setLast a.vbfs lv).drop a.nIn
        = ((setLastVbf lv (assignFactors sha ts 0 outs)).filter BlindOut.selected).map (fun o => o.vbf.getD []) := by
  -- the algebraic reading plays no role here: instantiate it with the integers
  let A0 : ZkpAlg Int Int := { G := 0, H := fun _ => 0, scalar := fun _ => 0, point := fun _ => 0 }
  obtain ⟨_, _, h3, h4, h5⟩ := BalLink.sumArgs_lists A0 sha hsha ts ins outs h32 a lv ha hany
  exact ⟨h3, h4, h5⟩

/-- input side with the utxo's own value field: if the stated data of every counted input open its utxo value
    (`InputsOpen` — embit does NOT check this in `blind` or `verify`, so it is an explicit hypothesis), then
      Σ_{counted inputs} point(utxo value field) − Σ_{blinded outputs} point(parse(stored commitment))
    is the difference of the plain amounts -/
theorem balance_stored_utxo {Z : Zkp} {A : ZkpAlg R M} (L : ZkpLaws Z A) (S : ZkpSerLaws Z A)
    (sha : Bytes → Bytes) (hsha : ∀ b, sha b ≠ []) (seed : Bytes) (ins : List BlindIn) (outs res : List BlindOut)
    (h : blind Z sha seed ins outs = some res) (h32 : outs.all sel32 = true) (hopen : InputsOpen Z A ins) :
    ((countedIns A ins).map (utxoPoint Z A)).sum - ((res.filter BlindOut.selected).map (storedPoint Z A)).sum
      = ((inEntries A ins).map (Entry.plain A)).sum
        - ((res.filter BlindOut.selected).map (fun r => Entry.plain A (outEntry A r))).sum := by
  rw [← inEntries_commit_of_open Z A ins hopen]
  exact balance_stored L S sha hsha seed ins outs res h h32

/-- `InputsOpen` is what `LInputScope.unblind` checks before it stores value / asset / factors: if the two equality
    tests of `unblind` (`C18.unblind_sound`) pass for the input's utxo fields and the data the scope states, the stated
    data open the utxo value commitment -/
theorem input_opens_of_unblind {Z : Zkp} {A : ZkpAlg R M} (L : ZkpLaws Z A) (i : BlindIn) (uv ua : Bytes)
    (v : Nat) (asset abf vbf : Bytes) (hu : i.utxoValue = some (.conf uv))
    (hacc : unblindAccept Z ua uv { value := v, asset := asset, vbf := vbf, abf := abf } = true)
    (e : Entry R) (he : e = { v := v, asset := asset, abf := A.scalar abf, vbf := A.scalar vbf }) :
    utxoPoint Z A i = Entry.commit A e := by
  obtain ⟨gen, cmt, h1, _, h3, h4⟩ := C18.unblind_sound Z ua uv _ hacc
  simp only [] at h1 h3
  simp only [utxoPoint, hu, h4]
  rw [he]
  exact commit_decodes L asset abf vbf gen cmt v h1 h3

end stored

/-! ### the stored-commitment theorems on the concrete run -/

theorem ex_sel32 : exOuts.all sel32 = true := by decide

/-- both blinded outputs of the result carry commitment bytes that parse and open to their own stated data -/
example : ∀ r ∈ exRes, r.selected = true → ∃ s c, r.valueCommitment = some s
    ∧ toyZkp2.pedersenCommitmentParse s = some c ∧ toyAlg2.point c = Entry.commit toyAlg2 (outEntry toyAlg2 r) :=
  fun r hr hs => stored_commitment_opens toyZkp2_laws toyZkp2_serLaws tsha tsha_ne_nil exSeed exIns exOuts exRes
    ex_blind ex_sel32 r hr hs

example : ∀ r ∈ exRes, r.selected = true → ∃ s g, r.assetCommitment = some s ∧ toyZkp2.generatorParse s = some g
    ∧ toyAlg2.point g = toyAlg2.H (r.asset.getD []) + toyAlg2.scalar (r.abf.getD []) • toyAlg2.G :=
  fun r hr hs => stored_asset_commitment_opens toyZkp2_laws
    (fun g s h => ⟨g, toyZkp2_generator_parse_serialize g s h, rfl⟩) tsha exSeed exIns exOuts exRes ex_blind r hr hs

/-- `balance_stored` applies to the concrete run … -/
theorem ex_balance_stored :
    ((inEntries toyAlg2 exIns).map (Entry.commit toyAlg2)).sum
        - ((exRes.filter BlindOut.selected).map (storedPoint toyZkp2 toyAlg2)).sum
      = ((inEntries toyAlg2 exIns).map (Entry.plain toyAlg2)).sum
        - ((exRes.filter BlindOut.selected).map (fun r => Entry.plain toyAlg2 (outEntry toyAlg2 r))).sum :=
  balance_stored toyZkp2_laws toyZkp2_serLaws tsha tsha_ne_nil exSeed exIns exOuts exRes ex_blind ex_sel32

/-- … and the kernel recomputes both sides from the STORED bytes `08 20 08`, `08 bd 1b`: inputs (32,35) + (95,0),
    outputs (32,8) + (189,27), difference (157, 0) = the fee's `1·H(A2)` -/
theorem ex_balance_stored_computes :
    (exRes.filter BlindOut.selected).map (storedPoint toyZkp2 toyAlg2) = [(32, 8), (189, 27)]
    ∧ (inEntries toyAlg2 exIns).map (Entry.commit toyAlg2) = [(32, 35), (95, 0)]
    ∧ ((inEntries toyAlg2 exIns).map (Entry.commit toyAlg2)).sum
        - ((exRes.filter BlindOut.selected).map (storedPoint toyZkp2 toyAlg2)).sum = (157, 0)
    ∧ ((inEntries toyAlg2 exIns).map (Entry.plain toyAlg2)).sum
        - ((exRes.filter BlindOut.selected).map (fun r => Entry.plain toyAlg2 (outEntry toyAlg2 r))).sum = (157, 0) := by
  decide +kernel

/-- the tally form on the concrete run: the explicit fee output `1 × A2` closes the equation -/
example : ((inEntries toyAlg2 exIns).map (Entry.commit toyAlg2)).sum
    = ((exRes.filter BlindOut.selected).map (storedPoint toyZkp2 toyAlg2)).sum
      + ([({ v := 1, asset := A2, abf := 0, vbf := 0 } : Entry (ZMod 251))].map (Entry.plain toyAlg2)).sum :=
  balance_stored_fee toyZkp2_laws toyZkp2_serLaws tsha tsha_ne_nil exSeed exIns exOuts exRes ex_blind ex_sel32 _
    (by decide +kernel)

/-- the inputs of the concrete run open their utxo value fields: input 0 passes the checks of `unblind`, input 1 is
    explicit -/
theorem ex_inputs_open : InputsOpen toyZkp2 toyAlg2 exIns := by
  intro i hi e he
  simp only [exIns, List.mem_cons, List.not_mem_nil, or_false] at hi
  rcases hi with rfl | rfl
  · refine input_opens_of_unblind toyZkp2_laws _ [0x08, 32, 35] [0x0a, 204, 3] 10 A1 [3] [5] rfl (by decide +kernel) e ?_
    have : inEntry toyAlg2 (exIns[0]) = some { v := 10, asset := A1, abf := toyAlg2.scalar [3], vbf := toyAlg2.scalar [5] } := rfl
    exact (Option.some.inj (he.symm.trans this))
  · exact input_opens_explicit toyZkp2 toyAlg2 toyAlg2_zeros _ 7 rfl (Or.inl rfl) rfl rfl rfl e he

/-- `balance_stored_utxo` on the concrete run: utxo value fields of the inputs against stored commitments of the outputs -/
theorem ex_balance_stored_utxo :
    ((countedIns toyAlg2 exIns).map (utxoPoint toyZkp2 toyAlg2)).sum
        - ((exRes.filter BlindOut.selected).map (storedPoint toyZkp2 toyAlg2)).sum
      = ((inEntries toyAlg2 exIns).map (Entry.plain toyAlg2)).sum
        - ((exRes.filter BlindOut.selected).map (fun r => Entry.plain toyAlg2 (outEntry toyAlg2 r))).sum :=
  balance_stored_utxo toyZkp2_laws toyZkp2_serLaws tsha tsha_ne_nil exSeed exIns exOuts exRes ex_blind ex_sel32
    ex_inputs_open

example : (countedIns toyAlg2 exIns).map (utxoPoint toyZkp2 toyAlg2) = [(32, 35), (95, 0)] := by decide +kernel

/-- the toy library has the wrapper's length check, so `sel32` follows from success and no side condition is left -/
example : exOuts.all sel32 = true := sel32_of_blind toyZkp2 toyZkp2_asset_len tsha exSeed exIns exOuts exRes ex_blind

example : ((inEntries toyAlg2 exIns).map (Entry.commit toyAlg2)).sum
        - ((exRes.filter BlindOut.selected).map (storedPoint toyZkp2 toyAlg2)).sum
      = ((inEntries toyAlg2 exIns).map (Entry.plain toyAlg2)).sum
        - ((exRes.filter BlindOut.selected).map (fun r => Entry.plain toyAlg2 (outEntry toyAlg2 r))).sum :=
  balance_stored_of_len toyZkp2_laws toyZkp2_serLaws toyZkp2_asset_len tsha tsha_ne_nil exSeed exIns exOuts exRes ex_blind

/-- `setLast` / `setLastVbf` on the concrete run: the last list entry is the last blinded output's factor -/
example : exArgs.vbfs.length = exArgs.nIn + 2 ∧ (setLast exArgs.vbfs [222]).drop exArgs.nIn = [[92], [222]]
    ∧ ((setLastVbf [222] (assignFactors tsha (txseed tsha exSeed exIns exOuts) 0 exOuts)).filter BlindOut.selected).map
        (fun o => o.vbf.getD []) = [[92], [222]] := by decide +kernel

example := setLast_coincides_setLastVbf tsha tsha_ne_nil (txseed tsha exSeed exIns exOuts) exIns exOuts ex_sel32 exArgs
  [222] ex_sumArgs (by decide +kernel)

/-! ### `sel32` is needed: the witness

  With a law-abiding library that does not check the asset length, an output to be blinded whose asset tag is not 32
  bytes long is left out of the blind-sum lists but still counted in `len(blinding_outs)`: the last INPUT is taken for
  an output, the factor returned belongs to another equation, and the stored commitments do not balance. -/

def badOuts : List BlindOut :=
  [ { spk := [0x51], value := some 10, asset := some A1, blindingPubkey := some [2, 1] },
    { spk := [0x52], value := some 6, asset := some [2], blindingPubkey := some [2, 2] } ]

/-- what the model returns for them -/
def badRes : List BlindOut := (blind toyZkp2NoLen tsha exSeed exIns badOuts).getD []

theorem balance_needs_sel32 :
    ZkpLaws toyZkp2NoLen toyAlg2 ∧ ZkpSerLaws toyZkp2NoLen toyAlg2 ∧ badOuts.all sel32 = false
    ∧ blind toyZkp2NoLen tsha exSeed exIns badOuts = some badRes
    ∧ ((inEntries toyAlg2 exIns).map (Entry.commit toyAlg2)).sum
          - ((badRes.filter BlindOut.selected).map (storedPoint toyZkp2NoLen toyAlg2)).sum
        ≠ ((inEntries toyAlg2 exIns).map (Entry.plain toyAlg2)).sum
          - ((badRes.filter BlindOut.selected).map (fun r => Entry.plain toyAlg2 (outEntry toyAlg2 r))).sum :=
  ⟨toyZkp2NoLen_laws, ZkpSerLaws.of_parse_serialize _ _ toyZkp2NoLen_parse_serialize, by decide, by decide +kernel,
    by decide +kernel⟩

/-- with the toy library that has the wrapper's length check the same call is refused -/
example : blind toyZkp2 tsha exSeed exIns badOuts = none := by decide +kernel

/-! ## 3. What `slip77_spec` and `txseed_def` stand for (A15 / I-18.6) -/

/-- SLIP-77, model = INDEPENDENT spec (Spec/Slip77.lean: SLIP-0021 master node, child node by label, key = `N[32:64]`,
    ASCII literals), for every HMAC-SHA512 stand-in with 64-byte output: embit's `node[32:]` of the inlined derivation
    is the SLIP-0021 key of the node `m/"SLIP-0077"`. (The per-script key `HMAC-SHA256(mbk, script)` has no structure
    a spec could differ in: `slip77BlindingKey = Spec.Slip77.blindingKey` by definition, not restated.) -/
theorem slip77_master_eq_spec (hmac512 : Bytes → Bytes → Bytes) (hlen : ∀ k m, (hmac512 k m).length = 64)
    (seed : Bytes) : slip77Master hmac512 seed = Spec.Slip77.masterBlindingKey hmac512 seed :=
  SpecLink.slip77Master_eq_spec hmac512 hlen seed

/-- the length hypothesis is satisfiable and the theorem is not vacuous: a 64-byte "HMAC" that depends on key and
    message -/
example : slip77Master (fun k m => (k ++ m ++ List.replicate 64 7).take 64) [1, 2, 3]
    = Spec.Slip77.masterBlindingKey (fun k m => (k ++ m ++ List.replicate 64 7).take 64) [1, 2, 3] :=
  slip77_master_eq_spec _ (fun k m => by simp; omega) _

/-- what `PSET.txseed` binds: for a collision-free hash and PSETs with the same number of inputs (32-byte txids,
    seeds of one length), equal transaction seeds mean the same seed, the same outpoints (index mod 2³²) in the same
    order and the same output scripts in the same order -/
theorem txseed_binds (sha : Bytes → Bytes) (hinj : ∀ x y, sha x = sha y → x = y) (seed seed' : Bytes)
    (ins ins' : List BlindIn) (outs outs' : List BlindOut) (hs : seed.length = seed'.length)
    (hn : ins.length = ins'.length) (h1 : ∀ i ∈ ins, i.txid.length = 32) (h2 : ∀ i ∈ ins', i.txid.length = 32)
    (h3 : ∀ o ∈ outs, o.spk.length < 2^64) (h4 : ∀ o ∈ outs', o.spk.length < 2^64)
    (h : txseed sha seed ins outs = txseed sha seed' ins' outs') :
    seed = seed' ∧ ins.map (fun i => (i.txid, i.vout % 2^32)) = ins'.map (fun i => (i.txid, i.vout % 2^32))
      ∧ outs.map (·.spk) = outs'.map (·.spk) :=
  SpecLink.txseed_inj sha hinj seed seed' ins ins' outs outs' hs hn h1 h2 h3 h4 h

/-- hypotheses satisfiable (identity as the collision-free function) -/
example : txseed id exSeed exIns exOuts = txseed id exSeed exIns exOuts ∧ (∀ x y : Bytes, id x = id y → x = y) :=
  ⟨rfl, fun _ _ h => h⟩

def collIn : BlindIn :=
  { txid := (35 :: List.replicate 31 7).reverse, vout := 0x07070707, value := none, asset := none, abf := none,
    vbf := none, utxoValue := none, utxoAsset := none }
def collOut : BlindOut := { spk := List.replicate 35 7, value := none, asset := none, blindingPubkey := none }

/-- what it does NOT bind — the hashed data carries no counts: one input and no output, or no input and one output
    whose 35-byte script spells the outpoint, have the SAME transaction seed for every hash function (so also the same
    blinding factors for output 0). Observation only; not reachable with standard scripts. -/
theorem txseed_counts_not_bound (sha : Bytes → Bytes) (seed : Bytes) :
    txseed sha seed [collIn] [] = txseed sha seed [] [collOut] := by
  have e : collIn.txid.reverse ++ leN 4 collIn.vout = scriptSer collOut.spk := by decide
  simp [txseed, e]

end Embit.Props.C18Y
