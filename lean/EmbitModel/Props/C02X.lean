import EmbitModel.Proofs.SignWithValid
import EmbitModel.Proofs.SignWithComplete
import EmbitModel.Proofs.SignWithCount
import EmbitModel.Proofs.SignWithView
import EmbitModel.Proofs.SignWithViewEq
import EmbitModel.Proofs.SignWithKeys
import EmbitModel.Props.C01
import EmbitModel.Props.C02
/-
  C02X — `PSBT.sign_with(root, sighash)` as a whole (deepening of C02): the executable model `SignWith.signWith`
  (Model/SignWith.lean: loop over inputs, key involvement, BIP32 matching, taproot key / script path, the counter;
  tied to embit on every run by `sign.run` with the concrete secp256k1 / hashes) adds only valid, authorised
  signatures, changes nothing else, and returns their number.

  All theorems hold for every PSBT, every signer (key, HD key, descriptor key, descriptor), every authorised flag and
  every cryptographic environment `Ops` (BIP32 derivation, public keys, hashes, taproot tweak, both signers are
  arbitrary functions). Where properties of the environment are needed they are explicit hypotheses:
  `OrderLaws` (Python's set iteration orders are permutations) and `SigLaws` (a signature verifies under the signer's
  public key — what Props/C07 proves of the concrete signers relative to `EcLaws`; discharged for the environment the
  driver runs in Props/C02Y.lean).
  `signWith … = some (p', n, ws)`: `p'` the PSBT afterwards, `n` the returned counter, `ws` the (ghost) trace of ALL writes
  (every signature filed, also when the slot already held that very signature).
-/
set_option linter.unusedSimpArgs false
set_option linter.unusedVariables false
namespace Embit.Props.C02X
open Embit Model Model.SignWith Spec.Consensus

variable {HD : Type}

/-! ### (a) frame -/

/-- what `core s' = core s` says, field by field: everything but `partial_sigs`, `taproot_sigs`,
    `final_scriptwitness` is equal -/
theorem core_eq_iff (s s' : InScope) :
    core s' = core s ↔
      s'.txid = s.txid ∧ s'.vout = s.vout ∧ s'.sequence = s.sequence ∧ s'.nonWitnessUtxo = s.nonWitnessUtxo ∧
      s'.witnessUtxo = s.witnessUtxo ∧ s'.utxoS = s.utxoS ∧ s'.txhash = s.txhash ∧ s'.verified = s.verified ∧
      s'.sighashType = s.sighashType ∧ s'.redeemScript = s.redeemScript ∧ s'.witnessScript = s.witnessScript ∧
      s'.bip32 = s.bip32 ∧ s'.tapBip32 = s.tapBip32 ∧ s'.tapInternalKey = s.tapInternalKey ∧
      s'.tapMerkleRoot = s.tapMerkleRoot ∧ s'.tapScripts = s.tapScripts ∧ s'.finalScriptSig = s.finalScriptSig ∧
      s'.unknown = s.unknown := by
  cases s; cases s'
  simp only [core, InScope.mk.injEq, true_and, and_true]

/-- globals, outputs and the number of inputs are unchanged, and every input scope differs from the original at most in
    its three signature fields -/
theorem frame (O : Ops HD) (signer : Signer HD) (auth : Option Nat) (p p' : Psbt) (n : Nat) (ws : List Write)
    (h : signWith O signer auth p = some (p', n, ws)) :
    p'.version = p.version ∧ p'.txVersion = p.txVersion ∧ p'.locktime = p.locktime ∧ p'.xpubs = p.xpubs ∧
    p'.unknown = p.unknown ∧ p'.outputs = p.outputs ∧ p'.inputs.length = p.inputs.length ∧
    ∀ (i : Nat) s s', p.inputs[i]? = some s → p'.inputs[i]? = some s' → core s' = core s := by
  have t := signWith_tr O signer auth p p' n ws h
  have hc : pcore p' = pcore p := by rw [t.app, pcore_applyWrites]
  refine ⟨show (pcore p').version = (pcore p).version from congrArg _ hc,
    show (pcore p').txVersion = (pcore p).txVersion from congrArg _ hc,
    show (pcore p').locktime = (pcore p).locktime from congrArg _ hc,
    show (pcore p').xpubs = (pcore p).xpubs from congrArg _ hc,
    show (pcore p').unknown = (pcore p).unknown from congrArg _ hc,
    show (pcore p').outputs = (pcore p).outputs from congrArg _ hc, ?_, ?_⟩
  · have := congrArg (fun q => q.inputs.length) hc
    simpa [pcore] using this
  · intro i s s' hs hs'
    obtain ⟨t', ht', hct⟩ := pcore_get hc.symm i s hs
    rw [hs'] at ht'; cases ht'
    exact hct.symm

/-- the signature fields: no key disappears and the old keys keep their order (new ones are appended); a slot the
    trace does not write keeps its content, a written slot holds one of the values written to it; the final witness is
    the original one or a single key-path signature of the trace -/
theorem frame_sigs (O : Ops HD) (signer : Signer HD) (auth : Option Nat) (p p' : Psbt) (n : Nat) (ws : List Write)
    (h : signWith O signer auth p = some (p', n, ws)) (i : Nat) (s s' : InScope)
    (hs : p.inputs[i]? = some s) (hs' : p'.inputs[i]? = some s') :
    (∃ extra, s'.partialSigs.map Prod.fst = s.partialSigs.map Prod.fst ++ extra) ∧
    (∃ extra, s'.tapSigs.map Prod.fst = s.tapSigs.map Prod.fst ++ extra) ∧
    (∀ sl, (∀ v, (i, sl, v) ∉ ws) → slotValue s' sl = slotValue s sl) ∧
    (∀ sl v, (i, sl, v) ∈ ws → ∃ v', (i, sl, v') ∈ ws ∧ slotValue s' sl = some v') ∧
    (s'.finalWitness = s.finalWitness ∨ ∃ v, (i, Slot.tapKeySig, v) ∈ ws ∧ s'.finalWitness = some [v]) := by
  have t := signWith_tr O signer auth p p' n ws h
  have hget : s' = applySlots s (writesOf ws i) := by
    have := applyWrites_get p ws i
    rw [← t.app, hs', hs] at this
    exact Option.some.inj this
  subst hget
  refine ⟨partialKeys_applySlots s _, tapKeys_applySlots s _, ?_, ?_, ?_⟩
  · intro sl hno
    apply slotValue_applySlots_untouched
    intro w hw heq
    exact hno w.2 (by rw [← heq]; exact (mem_writesOf ws i w).mp hw)
  · intro sl v hm
    obtain ⟨v', h1, h2⟩ := slotValue_applySlots_written s (writesOf ws i) sl v ((mem_writesOf ws i _).mpr hm)
    exact ⟨v', (mem_writesOf ws i _).mp h1, h2⟩
  · rcases finalWitness_applySlots s (writesOf ws i) with h1 | ⟨v, hv, h1⟩
    · exact Or.inl h1
    · exact Or.inr ⟨v, (mem_writesOf ws i _).mp hv, h1⟩

/-! ### (b) authorised, by a key the signer controls -/

/-- every slot content of the result that is not the original content was written for a key `sg` of the signer, on an
    input whose flag the policy authorises, by a key `sg` controls there (`JustifiedAt`: the signer's own key occurring
    in the script, a derivation entry with the signer's fingerprint whose path derives exactly that key, the taproot
    output key obtained by tweaking such a key, or such a key occurring in a leaf script) -/
theorem added_sigs_authorised (O : Ops HD) (OL : OrderLaws O) (signer : Signer HD) (auth : Option Nat)
    (p p' : Psbt) (n : Nat) (ws : List Write) (h : signWith O signer auth p = some (p', n, ws))
    (i : Nat) (s s' : InScope) (hs : p.inputs[i]? = some s) (hs' : p'.inputs[i]? = some s') (sl : Slot) (v : Bytes)
    (hv : slotValue s' sl = some v) (hnew : slotValue s sl ≠ some v) :
    ∃ sg ∈ signer.keys, JustifiedAt O sg auth p (i, sl, v) := by
  have t := signWith_tr O signer auth p p' n ws h
  exact signWith_just O OL signer auth p p' n ws h _ (new_content_written p p' n ws t i s s' hs hs' sl v hv hnew)

/-- the flag of a justified write is the input's effective flag and the caller authorised it (C02's rule) -/
theorem justified_flag (O : Ops HD) (sg : Single HD) (auth : Option Nat) (p : Psbt) (w : Write)
    (hj : JustifiedAt O sg auth p w) :
    ∃ s u, p.inputs[w.1]? = some s ∧ s.utxo = some u ∧
      C02.authorisedFlag auth s.sighashType (isTaprootSpk u.spk) ∧
      Justified O sg s u (C02.effective auth s.sighashType (isTaprootSpk u.spk))
        (fun f leaf => psbtSighash O.sha p w.1 f leaf) w.2 := by
  obtain ⟨s, u, f, h1, h2, h3, h4⟩ := hj
  have hf := C02.policy_flag _ _ _ _ h3
  refine ⟨s, u, h1, h2, (C02.policy_iff _ _ _).mp (by simp [h3]), hf ▸ h4⟩

/-- nothing is signed for a caller who authorised only ALL / DEFAULT with a weaker flag -/
theorem all_never_signs_weaker (O : Ops HD) (sg : Single HD) (a : Nat) (ha : a = 0 ∨ a = 1) (p : Psbt) (w : Write)
    (hj : JustifiedAt O sg (some a) p w) :
    ∃ s u f, p.inputs[w.1]? = some s ∧ s.utxo = some u ∧ (f = 0 ∨ f = 1) ∧
      Justified O sg s u f (fun f leaf => psbtSighash O.sha p w.1 f leaf) w.2 := by
  obtain ⟨s, u, f, h1, h2, h3, h4⟩ := hj
  exact ⟨s, u, f, h1, h2, C02.all_never_signs_weaker _ _ a f ha h3, h4⟩

/-! ### (c) valid -/

/-- every slot content of the result that is not the original content is a signature that verifies under the key it is
    filed under (ECDSA: the SEC key of the `partial_sigs` entry; taproot: the x-only key occurring in the scriptPubKey /
    in the leaf script and heading the `taproot_sigs` key) against the digest `PSBT.sighash` assigns to that input of
    the PSBT AS HANDED IN, with the authorised flag appended (omitted for taproot DEFAULT). `hkeys`: the keys of the scope's
    derivation maps are encodings of curve points — `PSBT.parse` refuses anything else -/
theorem added_sigs_valid (O : Ops HD) (OL : OrderLaws O) (vs : Bytes → Bool) (ev sv : Bytes → Bytes → Bytes → Bool)
    (SL : SigLaws O vs ev sv) (signer : Signer HD) (auth : Option Nat)
    (p p' : Psbt) (n : Nat) (ws : List Write) (h : signWith O signer auth p = some (p', n, ws))
    (i : Nat) (s s' : InScope) (hs : p.inputs[i]? = some s) (hs' : p'.inputs[i]? = some s') (hkeys : KeysValid vs s)
    (sl : Slot) (v : Bytes) (hv : slotValue s' sl = some v) (hnew : slotValue s sl ≠ some v) :
    ∃ u, s.utxo = some u ∧ C02.authorisedFlag auth s.sighashType (isTaprootSpk u.spk) ∧
      ValidWrite ev sv O s u (C02.effective auth s.sighashType (isTaprootSpk u.spk))
        (fun f leaf => psbtSighash O.sha p i f leaf) (sl, v) := by
  obtain ⟨sg, _, hj⟩ := added_sigs_authorised O OL signer auth p p' n ws h i s s' hs hs' sl v hv hnew
  obtain ⟨s0, u, h1, h2, h3, h4⟩ := justified_flag O sg auth p _ hj
  rw [hs] at h1; cases h1
  exact ⟨u, h2, h3, h4.valid SL hkeys⟩

/-- the hypothesis `hkeys` of `added_sigs_valid` holds of every input of every PSBT `PSBT.parse` accepts (`ko.validSec` /
    `ko.validX` = `ec.PublicKey.parse` / `from_xonly` succeed; `from_xonly(x)` IS the parse of `02 ‖ x`) -/
theorem parsed_keys_valid (ko : KeyOps) (hx : ∀ x, ko.validX x = true → ko.validSec (0x02 :: x) = true)
    (sha : Bytes → Bytes) (compress : Nat) (b : Bytes) (p : Psbt) (h : Psbt.parse ko sha compress b = some p) :
    ∀ s ∈ p.inputs, KeysValid ko.validSec s :=
  parse_keysValid ko hx sha compress b p h

/-! #### the digest `PSBT.sighash` assigns is the consensus digest (composition with C01) -/

theorem optAll_length {α : Type} (l : List (Option α)) (xs : List α) (h : optAll l = some xs) :
    xs.length = l.length := by
  induction l generalizing xs with
  | nil => simp only [optAll, Option.some.injEq] at h; subst h; rfl
  | cons a r ih =>
    cases a with
    | none => simp [optAll] at h
    | some x =>
      unfold optAll at h
      split at h
      · cases h
      · rename_i ys hys
        simp only [Option.some.injEq] at h; subst h
        simp [ih ys hys]

theorem tx_vin_length (p : Psbt) (t : Tx) (h : p.tx = some t) : t.vin.length = p.inputs.length := by
  unfold Psbt.tx at h
  split at h
  · rename_i vin vout hvin hvout
    simp only [Option.some.injEq] at h; subst h
    simpa using optAll_length _ _ hvin
  · cases h

/-- taproot key path: BIP341 digest over all previous outputs of the PSBT, for every hash type (`none` on both sides
    where BIP341 defines no digest, 0x80 included) -/
theorem digest_taproot_keypath (sha : Bytes → Bytes) (p : Psbt) (i f : Nat) (s : InScope) (u : TxOut) (t : Tx)
    (us : List TxOut) (hs : p.inputs[i]? = some s) (hu : s.utxo = some u) (htap : isTaprootSpk u.spk = true)
    (ht : p.tx = some t) (hus : optAll (p.inputs.map InScope.utxo) = some us) :
    psbtSighash sha p i f none = bip341 sha t i (us.map (·.spk)) (us.map (·.value)) f none none := by
  have := C01.taproot_eq_bip341 sha t i (us.map (·.spk)) (us.map (·.value)) f none none 0xC0 none (by decide)
  simp only [Option.isSome_none, Bool.false_eq_true, if_false, C01.leafOf, Option.map_none] at this
  simp only [psbtSighash, hs, hu, ht, htap, if_true, hus, this]

/-- taproot script path: BIP341 digest with the leaf (script, leaf version, no code separator), for every hash type -/
theorem digest_taproot_leaf (sha : Bytes → Bytes) (p : Psbt) (i f : Nat) (s : InScope) (u : TxOut) (t : Tx)
    (us : List TxOut) (script : Bytes) (lv : Nat) (hlv : lv < 256)
    (hs : p.inputs[i]? = some s) (hu : s.utxo = some u) (htap : isTaprootSpk u.spk = true)
    (ht : p.tx = some t) (hus : optAll (p.inputs.map InScope.utxo) = some us) :
    psbtSighash sha p i f (some (script, lv))
      = bip341 sha t i (us.map (·.spk)) (us.map (·.value)) f none
          (some { script := script, version := lv, codesepPos := 0xffffffff }) := by
  have := C01.taproot_eq_bip341 sha t i (us.map (·.spk)) (us.map (·.value)) f none (some script) lv none hlv
  simp only [Option.isSome_some, if_true, C01.leafOf, Option.map_some, Option.getD_none] at this
  simp only [psbtSighash, hs, hu, ht, htap, if_true, hus, this]

/-- segwit v0: BIP143 digest with the script code of C02's dispatch and the previous output's amount -/
theorem digest_segwit (sha : Bytes → Bytes) (p : Psbt) (i f : Nat) (s : InScope) (u : TxOut) (t : Tx) (inp : TxIn)
    (sc : Bytes) (hs : p.inputs[i]? = some s) (hu : s.utxo = some u) (htap : isTaprootSpk u.spk = false)
    (ht : p.tx = some t) (hin : t.vin[i]? = some inp)
    (hd : sighashDispatch u.spk s.witnessScript s.redeemScript s.witnessUtxo.isSome = (Algo.segwit, sc))
    (hf : validFlag f = true) :
    psbtSighash sha p i f none = some (bip143 sha t i inp sc u.value f) := by
  simp only [psbtSighash, hs, hu, ht, htap, Bool.false_eq_true, if_false, hd]
  exact C01.segwit_eq_bip143 sha t i inp sc u.value f hf hin

/-- legacy: Satoshi's digest with the script code of C02's dispatch -/
theorem digest_legacy (sha : Bytes → Bytes) (p : Psbt) (i f : Nat) (s : InScope) (u : TxOut) (t : Tx)
    (sc : Bytes) (hs : p.inputs[i]? = some s) (hu : s.utxo = some u) (htap : isTaprootSpk u.spk = false)
    (ht : p.tx = some t)
    (hd : sighashDispatch u.spk s.witnessScript s.redeemScript s.witnessUtxo.isSome = (Algo.legacy, sc))
    (hf : validFlag f = true) :
    psbtSighash sha p i f none = some (legacy sha t i sc f) := by
  have hi : i < t.vin.length := by
    rw [tx_vin_length p t ht]
    rcases Nat.lt_or_ge i p.inputs.length with h' | h'
    · exact h'
    · rw [List.getElem?_eq_none h'] at hs; cases hs
  simp only [psbtSighash, hs, hu, ht, htap, Bool.false_eq_true, if_false, hd]
  exact C01.legacy_eq_consensus sha t i sc f hf hi

/-! ### (d) count -/

/-- the result is the PSBT with the trace applied, and the returned counter is the NUMBER OF DISTINCT SLOTS
    `(input, key[, leaf])` the call filed a signature under: `L` enumerates the slots of the trace without repetition and
    has `n` elements. A slot written twice within the call (two keys of a descriptor deriving the same key, a key listed as
    taproot and as ordinary derivation, …) counts once (after fix c02x-02). -/
theorem count_eq_slots (O : Ops HD) (signer : Signer HD) (auth : Option Nat) (p p' : Psbt) (n : Nat)
    (ws : List Write) (h : signWith O signer auth p = some (p', n, ws)) :
    p' = applyWrites p ws ∧
    ∃ L : List (Nat × Slot), L.Nodup ∧ L.length = n ∧ ∀ x, x ∈ L ↔ x ∈ ws.map Write.slot :=
  let t := signWith_tr O signer auth p p' n ws h
  ⟨t.app, t.distinct⟩

/-- `count = number of signatures added`: when no write of the trace stores a value its slot already held BEFORE the
    call, the counter is the number of slots whose content differs between the PSBT handed in and the PSBT returned.
    The hypothesis is needed: the counter counts the signatures the call FILES, whether or not the identical signature
    was there already — signing an already signed PSBT again returns `n` again and adds nothing
    (`resign_counts_again_witness`). The repo's own tests pin that behaviour
    (`test_psbtview.test_sign`: `sign_input` on a scope that carries the signatures already must return their number);
    it is not a finding. -/
theorem count_eq_added (O : Ops HD) (signer : Signer HD) (auth : Option Nat) (p p' : Psbt) (n : Nat)
    (ws : List Write) (h : signWith O signer auth p = some (p', n, ws))
    (hfresh : ∀ w ∈ ws, ∀ s, p.inputs[w.1]? = some s → slotValue s w.2.1 ≠ some w.2.2) :
    ∃ L : List (Nat × Slot), L.Nodup ∧ L.length = n ∧
      ∀ (i : Nat) s s', p.inputs[i]? = some s → p'.inputs[i]? = some s' →
        ∀ sl, (i, sl) ∈ L ↔ slotValue s' sl ≠ slotValue s sl :=
  (signWith_tr O signer auth p p' n ws h).countAdded hfresh

/-! ### (e) completeness, as far as the code provides it -/

/-- after a successful run, for every private key `sg` of the signer and every input whose flag the policy authorises:
    * not taproot: if `sg`'s own SEC key or its HASH160 occurs in the script, `partial_sigs` has an entry under that key;
      for every derivation entry `sg` controls, `partial_sigs` has an entry under the entry's key;
    * taproot: for `sg`'s own key and every derived key it controls: if the tweaked key occurs in the scriptPubKey the
      final witness is a single signature; otherwise every leaf script containing the key has an entry
      `x-only key ‖ TapLeaf hash` in `taproot_sigs`.
    (by (b)/(c) every such entry that was not there before is a valid signature by a key of the signer; an entry that
    was there before is kept unless the same slot is signed again) -/
theorem complete (O : Ops HD) (OL : OrderLaws O) (signer : Signer HD) (auth : Option Nat) (p p' : Psbt)
    (n : Nat) (ws : List Write) (h : signWith O signer auth p = some (p', n, ws))
    (sg : Single HD) (hsg : sg ∈ signer.keys) (hpriv : sg ≠ .keyPub) (i : Nat) (s : InScope) (u : TxOut) (f : Nat)
    (hs : p.inputs[i]? = some s) (hu : s.utxo = some u)
    (hpol : signPolicy auth s.sighashType (isTaprootSpk u.spk) = some f) :
    ∃ s', p'.inputs[i]? = some s' ∧ InputDone O sg s u s' :=
  signWith_complete O OL signer auth p p' n ws h sg hsg hpriv i s u f hs hu hpol

/-- an input whose flag is not authorised is not touched -/
theorem unauthorised_untouched (O : Ops HD) (OL : OrderLaws O) (signer : Signer HD) (auth : Option Nat)
    (p p' : Psbt) (n : Nat) (ws : List Write) (h : signWith O signer auth p = some (p', n, ws))
    (i : Nat) (s s' : InScope) (u : TxOut) (hs : p.inputs[i]? = some s) (hs' : p'.inputs[i]? = some s')
    (hu : s.utxo = some u) (hpol : signPolicy auth s.sighashType (isTaprootSpk u.spk) = none) :
    ∀ w ∈ ws, w.1 ≠ i := by
  intro w hw hwi
  obtain ⟨sg, _, s0, u0, f, h1, h2, h3, _⟩ := signWith_just O OL signer auth p p' n ws h w hw
  rw [hwi, hs] at h1; cases h1
  rw [hu] at h2; cases h2
  rw [hpol] at h3; cases h3

/-! ### PSBTView.sign_with: the stream variant

`viewSignWith … = some (b, n, p', ws)`: `b` the bytes written to `sig_stream`, `n` the returned counter; ghost: `p'` the PSBT
formed by the per-input scopes the view signs in memory (never stored by the code), `ws` the trace. The per-input signing
code is the in-memory one (`signInput`), so (a)–(e) hold of `p'` verbatim, and `b` is the serialisation of the signature
fields of `p'`. -/

/-- the bytes written: for every input, if the signer has a private key and the input's flag is authorised, the final
    witness (if it has items) and all `taproot_sigs` pairs (taproot) or all `partial_sigs` pairs (otherwise) of the
    signed copy — existing entries included —, then the separator `00`; and the signed copies differ from the parsed
    scopes at most in the three signature fields -/
theorem view_stream_and_frame (O : Ops HD) (OL : OrderLaws O) (signer : Signer HD) (auth : Option Nat) (p : Psbt)
    (b : Bytes) (n : Nat) (p' : Psbt) (ws : List Write) (h : viewSignWith O signer auth p = some (b, n, p', ws)) :
    b = viewStream signer.keys auth p.inputs p'.inputs ∧ p'.inputs.length = p.inputs.length ∧
    (∀ (i : Nat) s s', p.inputs[i]? = some s → p'.inputs[i]? = some s' → core s' = core s) ∧
    p' = applyWrites p ws := by
  obtain ⟨t, hb, _, _⟩ := viewSignWith_spec O OL signer auth p b n p' ws h
  have hf := t.frame
  exact ⟨hb, hf.2.2.2.2.2.2.1, hf.2.2.2.2.2.2.2, t.app⟩

theorem view_frame_sigs (O : Ops HD) (OL : OrderLaws O) (signer : Signer HD) (auth : Option Nat) (p : Psbt)
    (b : Bytes) (n : Nat) (p' : Psbt) (ws : List Write) (h : viewSignWith O signer auth p = some (b, n, p', ws))
    (i : Nat) (s s' : InScope) (hs : p.inputs[i]? = some s) (hs' : p'.inputs[i]? = some s') :
    (∃ extra, s'.partialSigs.map Prod.fst = s.partialSigs.map Prod.fst ++ extra) ∧
    (∃ extra, s'.tapSigs.map Prod.fst = s.tapSigs.map Prod.fst ++ extra) ∧
    (∀ sl, (∀ v, (i, sl, v) ∉ ws) → slotValue s' sl = slotValue s sl) ∧
    (∀ sl v, (i, sl, v) ∈ ws → ∃ v', (i, sl, v') ∈ ws ∧ slotValue s' sl = some v') ∧
    (s'.finalWitness = s.finalWitness ∨ ∃ v, (i, Slot.tapKeySig, v) ∈ ws ∧ s'.finalWitness = some [v]) :=
  (viewSignWith_spec O OL signer auth p b n p' ws h).1.frameSigs i s s' hs hs'

/-- (b) for the stream variant -/
theorem view_added_sigs_authorised (O : Ops HD) (OL : OrderLaws O) (signer : Signer HD) (auth : Option Nat)
    (p : Psbt) (b : Bytes) (n : Nat) (p' : Psbt) (ws : List Write)
    (h : viewSignWith O signer auth p = some (b, n, p', ws))
    (i : Nat) (s s' : InScope) (hs : p.inputs[i]? = some s) (hs' : p'.inputs[i]? = some s') (sl : Slot) (v : Bytes)
    (hv : slotValue s' sl = some v) (hnew : slotValue s sl ≠ some v) :
    ∃ sg ∈ signer.keys, JustifiedAt O sg auth p (i, sl, v) := by
  obtain ⟨t, _, hj, _⟩ := viewSignWith_spec O OL signer auth p b n p' ws h
  exact hj _ (new_content_written p p' n ws t i s s' hs hs' sl v hv hnew)

/-- (c) for the stream variant: every signature written to the stream that was not in the PSBT verifies under its key
    against the digest of the PSBT the stream holds -/
theorem view_added_sigs_valid (O : Ops HD) (OL : OrderLaws O) (vs : Bytes → Bool)
    (ev sv : Bytes → Bytes → Bytes → Bool) (SL : SigLaws O vs ev sv) (signer : Signer HD) (auth : Option Nat)
    (p : Psbt) (b : Bytes) (n : Nat) (p' : Psbt) (ws : List Write)
    (h : viewSignWith O signer auth p = some (b, n, p', ws))
    (i : Nat) (s s' : InScope) (hs : p.inputs[i]? = some s) (hs' : p'.inputs[i]? = some s') (hkeys : KeysValid vs s)
    (sl : Slot) (v : Bytes) (hv : slotValue s' sl = some v) (hnew : slotValue s sl ≠ some v) :
    ∃ u, s.utxo = some u ∧ C02.authorisedFlag auth s.sighashType (isTaprootSpk u.spk) ∧
      ValidWrite ev sv O s u (C02.effective auth s.sighashType (isTaprootSpk u.spk))
        (fun f leaf => psbtSighash O.sha p i f leaf) (sl, v) := by
  obtain ⟨sg, _, hj⟩ := view_added_sigs_authorised O OL signer auth p b n p' ws h i s s' hs hs' sl v hv hnew
  obtain ⟨s0, u, h1, h2, h3, h4⟩ := justified_flag O sg auth p _ hj
  rw [hs] at h1; cases h1
  exact ⟨u, h2, h3, h4.valid SL hkeys⟩

/-- (d) for the stream variant -/
theorem view_count_eq_slots (O : Ops HD) (OL : OrderLaws O) (signer : Signer HD) (auth : Option Nat)
    (p : Psbt) (b : Bytes) (n : Nat) (p' : Psbt) (ws : List Write)
    (h : viewSignWith O signer auth p = some (b, n, p', ws)) :
    ∃ L : List (Nat × Slot), L.Nodup ∧ L.length = n ∧ ∀ x, x ∈ L ↔ x ∈ ws.map Write.slot :=
  (viewSignWith_spec O OL signer auth p b n p' ws h).1.distinct

theorem view_count_eq_added (O : Ops HD) (OL : OrderLaws O) (signer : Signer HD) (auth : Option Nat)
    (p : Psbt) (b : Bytes) (n : Nat) (p' : Psbt) (ws : List Write)
    (h : viewSignWith O signer auth p = some (b, n, p', ws))
    (hfresh : ∀ w ∈ ws, ∀ s, p.inputs[w.1]? = some s → slotValue s w.2.1 ≠ some w.2.2) :
    ∃ L : List (Nat × Slot), L.Nodup ∧ L.length = n ∧
      ∀ (i : Nat) s s', p.inputs[i]? = some s → p'.inputs[i]? = some s' →
        ∀ sl, (i, sl) ∈ L ↔ slotValue s' sl ≠ slotValue s sl :=
  (viewSignWith_spec O OL signer auth p b n p' ws h).1.countAdded hfresh

/-- (e) for the stream variant -/
theorem view_complete (O : Ops HD) (OL : OrderLaws O) (signer : Signer HD) (auth : Option Nat)
    (p : Psbt) (b : Bytes) (n : Nat) (p' : Psbt) (ws : List Write)
    (h : viewSignWith O signer auth p = some (b, n, p', ws))
    (sg : Single HD) (hsg : sg ∈ signer.keys) (hpriv : sg.isPrivate = true) (i : Nat) (s : InScope) (u : TxOut) (f : Nat)
    (hs : p.inputs[i]? = some s) (hu : s.utxo = some u)
    (hpol : signPolicy auth s.sighashType (isTaprootSpk u.spk) = some f) :
    ∃ s', p'.inputs[i]? = some s' ∧ InputDone O sg s u s' :=
  (viewSignWith_spec O OL signer auth p b n p' ws h).2.2.2 sg hsg hpriv i s u f hs hu hpol

/-- the two variants agree: `PSBTView.sign_with` over the PSBT the stream holds signs exactly the scopes
    `PSBT.sign_with` produces and returns the same counter, and one raises iff the other does (the in-memory variant
    runs key-major, the stream variant input-major, over the same per-input function whose digests only read the frame) -/
theorem view_eq_memory (O : Ops HD) (signer : Signer HD) (auth : Option Nat) (p : Psbt) :
    (viewSignWith O signer auth p).map (fun r => (r.2.2.1, r.2.1))
      = (signWith O signer auth p).map (fun r => (r.1, r.2.1)) :=
  viewSignWith_eq_signWith O signer auth p

/-- … so the bytes written are the signature fields of the PSBT the in-memory variant returns -/
theorem view_stream_of_memory (O : Ops HD) (OL : OrderLaws O) (signer : Signer HD) (auth : Option Nat) (p p' : Psbt)
    (n : Nat) (ws : List Write) (h : signWith O signer auth p = some (p', n, ws)) :
    ∃ ws', viewSignWith O signer auth p = some (viewStream signer.keys auth p.inputs p'.inputs, n, p', ws') := by
  have he := view_eq_memory O signer auth p
  rw [h] at he
  cases hv : viewSignWith O signer auth p with
  | none => rw [hv] at he; simp at he
  | some r =>
    obtain ⟨b, n', q, ws'⟩ := r
    rw [hv] at he
    simp only [Option.map_some, Option.some.injEq, Prod.mk.injEq] at he
    obtain ⟨rfl, rfl⟩ := he
    obtain ⟨_, hb, _, _⟩ := viewSignWith_spec O OL signer auth p b n' q ws' hv
    exact ⟨ws', by rw [hb]⟩

-- (`SigLaws` is proved of the environment built from the C07 / C09 / C10 models — the environment the driver runs — relative
--  to the curve laws in Props/C02Y.lean: `sigLaws_concrete`, `added_sigs_valid_concrete`, `added_sigs_valid_standards`.)

set_option maxRecDepth 100000

/-! ### non-vacuity: a toy environment satisfying the laws, and runs of the model that sign -/

/-- a toy environment: public key = first byte of the secret, signatures name the signer's public key -/
def toyOps : Ops (List Nat) where
  sha := fun b => [UInt8.ofNat (b.length % 256)]
  hash160 := fun b => b.take 2
  secOf := fun sk _ => [0x02, sk.headD 0]
  derive := fun r path => some (r ++ path)
  hdSecret := fun r => r.map UInt8.ofNat
  hdFingerprint := fun _ => [1, 2, 3, 4]
  tapTweak := fun sk _ => some (sk.map (· + 0x70))
  ecdsaSign := fun sk h => some ([0x30, sk.headD 0] ++ sk ++ h)
  schnorrSign := fun sk h => some ([0x40, sk.headD 0] ++ sk ++ h)
  orderD := id
  orderK := List.reverse

def toyEv (pub _m sig : Bytes) : Bool := pub.take 1 == [0x02] && sig.take 2 == [0x30, (pub.drop 1).headD 0]
def toySv (xo _m sig : Bytes) : Bool := sig.take 2 == [0x40, xo.headD 0]

theorem toy_orderLaws : OrderLaws toyOps := ⟨fun _ => List.Perm.refl _, fun l => List.reverse_perm l⟩

/-- toy validity of an encoding: not 65 bytes long (the toy has no uncompressed keys) -/
def toyValid (pub : Bytes) : Bool := pub.length != 65

theorem toy_sigLaws : SigLaws toyOps toyValid toyEv toySv := by
  refine ⟨?_, ?_, ?_⟩
  · intro sk c m sig hs
    simp only [toyOps, Option.some.injEq] at hs
    subst hs
    simp [toyEv, toyOps]
  · intro sk m sig pub hv hs hc
    simp only [toyOps, Option.some.injEq] at hs hc
    subst hs
    have hlen : pub.length ≠ 65 := by simpa [toyValid] using hv
    simp only [compressSec, hlen, if_false] at hc
    subst hc
    simp [toyEv]
  · intro sk c m sig hs
    simp only [toyOps, Option.some.injEq] at hs
    subst hs
    simp [toySv, toyOps, xonlyOfSec]

def toyOut : OutScope := { value := some 900, spk := some [0x51] }
def toyPsbt (ins : List InScope) : Psbt := { version := some 2, inputs := ins, outputs := [toyOut] }

/-- non-taproot input whose script contains the key `02 07`; a derivation entry for key `02 05` at path 5/1 -/
def toyIn : InScope :=
  { txid := some [1], vout := some 0, witnessUtxo := some { value := 1000, spk := [0x51, 0x02, 0x07, 0xac] },
    bip32 := [([0x02, 0x05], { fingerprint := [1, 2, 3, 4], path := [5, 1] })] }

/-- taproot input: output key `77 07` (the tweak of secret 07 …), one leaf script containing the x-only key `05` -/
def toyTap : InScope :=
  { txid := some [2], vout := some 1,
    witnessUtxo := some { value := 2000, spk := [0x51, 0x20, 0x77, 0x07] ++ List.replicate 30 0x11 },
    tapScripts := [([0xc0], [0x20, 0x05, 0xac, 0xc0])],
    tapBip32 := [([0x05], ([], { fingerprint := [1, 2, 3, 4], path := [5, 1] }))] }

theorem toy_keysValid : KeysValid toyValid toyIn := by
  refine ⟨fun e he => ?_, fun e he => ?_⟩
  · simp only [toyIn, List.mem_singleton] at he
    subst he; decide
  · simp [toyIn] at he

def runOf (r : Option (Psbt × Nat × List Write)) :=
  r.map (fun r => (r.2.1, r.2.2.map (fun w => (w.1, w.2.1))))

-- the key itself occurs in the script: one ECDSA signature
example : runOf (signWith toyOps (.single (.wif [7, 9] true)) (some 1) (toyPsbt [toyIn]))
    = some (1, [(0, .partialSig [2, 7])]) := by decide +kernel
-- an HD key: the derivation entry
example : runOf (signWith toyOps (.single (.hd [])) none (toyPsbt [toyIn]))
    = some (1, [(0, .partialSig [2, 5])]) := by decide +kernel
-- a descriptor key with origin 5: path 5/1 minus the origin
example : runOf (signWith toyOps (.single (.keyHd [5] (some ([1, 2, 3, 4], [5])))) none (toyPsbt [toyIn]))
    = some (1, [(0, .partialSig [2, 5])]) := by decide +kernel
-- taproot key path (WIF key 07) and script path (HD key, leaf key 05), a descriptor holding both
example : runOf (signWith toyOps (.descriptor [.wif [7] true, .keyPub, .hd []]) (some 0) (toyPsbt [toyIn, toyTap]))
    = some (4, [(0, .partialSig [2, 7]), (1, .tapKeySig), (0, .partialSig [2, 5]),
        (1, .tapScriptSig ([5] ++ taggedHash toyOps.sha "TapLeaf" ([0xc0] ++ scriptSer [0x20, 0x05, 0xac])))]) := by
  decide +kernel
-- the PSBT asks for NONE|ANYONECANPAY, the caller authorised ALL: nothing is signed
example : runOf (signWith toyOps (.single (.wif [7, 9] true)) (some 1)
    (toyPsbt [{ toyIn with sighashType := some 0x82 }])) = some (0, []) := by decide +kernel
-- a descriptor holding the same HD key twice: every signature is filed twice, counted once
example : runOf (signWith toyOps (.descriptor [.hd [], .hd []]) none (toyPsbt [toyIn]))
    = some (1, [(0, .partialSig [2, 5]), (0, .partialSig [2, 5])]) := by decide +kernel

-- the stream variant: the descriptor of the example above; both inputs are written (existing entries included), each
-- followed by the separator
example : (viewSignWith toyOps (.descriptor [.wif [7] true, .keyPub, .hd []]) (some 0) (toyPsbt [toyIn, toyTap])).map
      (fun r => (r.1, r.2.1))
    = some ([3, 2, 2, 7, 5, 48, 7, 7, 1, 1, 3, 2, 2, 5, 6, 48, 5, 5, 1, 1, 1, 0,
             1, 8, 6, 1, 4, 64, 119, 119, 22, 3, 20, 5, 7, 5, 64, 5, 5, 1, 28, 0], 4) := by decide +kernel
example : (viewSignWith toyOps (.single (.wif [7, 9] true)) (some 1)
      (toyPsbt [{ toyIn with partialSigs := [([2, 9], [0xaa])] }])).map (fun r => (r.1, r.2.1))
    = some ([3, 2, 2, 9, 1, 170, 3, 2, 2, 7, 6, 48, 7, 7, 9, 1, 1, 0], 1) := by decide +kernel

/-- `count_eq_added` applied to a run on a PSBT without signatures: its hypothesis holds -/
example : ∃ L : List (Nat × Slot), L.Nodup ∧ L.length = 1 ∧
    ∀ (i : Nat) s s', (toyPsbt [toyIn]).inputs[i]? = some s →
      (toyPsbt [{ toyIn with partialSigs := [([2, 7], [0x30, 7, 7, 9, 1, 1])] }]).inputs[i]? = some s' →
      ∀ sl, (i, sl) ∈ L ↔ slotValue s' sl ≠ slotValue s sl := by
  have h : signWith toyOps (.single (.wif [7, 9] true)) (some 1) (toyPsbt [toyIn])
      = some (toyPsbt [{ toyIn with partialSigs := [([2, 7], [0x30, 7, 7, 9, 1, 1])] }], 1,
          [(0, .partialSig [2, 7], [0x30, 7, 7, 9, 1, 1])]) := by rfl
  refine count_eq_added toyOps _ _ _ _ _ _ h ?_
  intro w hw s hs
  rw [List.mem_singleton] at hw
  subst hw
  simp only [toyPsbt, List.getElem?_cons_zero, Option.some.injEq] at hs
  subst hs
  decide

/-! ### witnesses -/

/-- an existing `partial_sigs` entry under a key that signs is REPLACED (the frame theorem cannot say "no existing
    signature is altered"): the foreign value `aa` filed under the signer's key `02 07` is overwritten -/
theorem existing_sig_replaced_witness :
    (signWith toyOps (.single (.wif [7, 9] true)) (some 1)
      (toyPsbt [{ toyIn with partialSigs := [([2, 7], [0xaa])] }])).map (fun r => (r.2.1, r.1.inputs.map (·.partialSigs)))
    = some (1, [[([2, 7], [0x30, 7, 7, 9, 1, 1])]]) := by decide +kernel

/-- `count_eq_added` needs its hypothesis: signing a PSBT that the same key signed already files the same two signatures
    again and returns 2 again, while nothing in the PSBT changes (the behaviour the repo's tests pin: the counter counts
    signatures filed by the call, not entries that are new) -/
theorem resign_counts_again_witness :
    ((signWith toyOps (.single (.hd [])) none (toyPsbt [toyIn, toyTap])).bind
      (fun r => (signWith toyOps (.single (.hd [])) none r.1).map
        (fun r2 => (r.2.1, r2.2.1, r2.1.inputs.map (fun s => (s.partialSigs, s.tapSigs))
                      == r.1.inputs.map (fun s => (s.partialSigs, s.tapSigs))))))
    = some (2, 2, true) := by decide +kernel

/-- a slot written twice within one call counts once, also when the two signatures differ: two secrets (paths 5/1 and
    5/2) with the same public key `02 05`, listed as taproot and as ordinary derivation of a non-taproot input -/
theorem slot_twice_counts_once_witness :
    runOf (signWith toyOps (.single (.hd [])) none
      (toyPsbt [{ toyIn with tapBip32 := [([0x05], ([], { fingerprint := [1, 2, 3, 4], path := [5, 2] }))] }]))
    = some (1, [(0, .partialSig [2, 5]), (0, .partialSig [2, 5])]) := by decide +kernel

/-- the check before fix c02x-01 compared x-only keys also for ECDSA entries -/
def keyMatchesOld (O : Ops (List Nat)) (secret pub : Bytes) : Bool :=
  xonlyOfSec (O.secOf secret true) = xonlyOfSec pub

/-- … so an entry naming the key with the other parity (`03 05` for the derived `02 05`) passed, and the signature was
    filed under a key it does not verify under; the fixed check refuses the entry -/
theorem old_xonly_check_witness :
    keyMatchesOld toyOps [5, 1] [0x03, 0x05] = true ∧ keyMatches toyOps false [5, 1] [0x03, 0x05] = false ∧
    toyEv [0x03, 0x05] [1] ((toyOps.ecdsaSign [5, 1] [1]).getD []) = false := by decide +kernel


/-- the main theorems applied to a run of the toy environment: the new `partial_sigs` entry is valid -/
example : ∃ u, toyIn.utxo = some u ∧ C02.authorisedFlag (some 1) toyIn.sighashType (isTaprootSpk u.spk) ∧
    ValidWrite toyEv toySv toyOps toyIn u (C02.effective (some 1) toyIn.sighashType (isTaprootSpk u.spk))
      (fun f leaf => psbtSighash toyOps.sha (toyPsbt [toyIn]) 0 f leaf) (.partialSig [2, 7], [0x30, 7, 7, 9, 1, 1]) := by
  have h : signWith toyOps (.single (.wif [7, 9] true)) (some 1) (toyPsbt [toyIn])
      = some (toyPsbt [{ toyIn with partialSigs := [([2, 7], [0x30, 7, 7, 9, 1, 1])] }], 1,
          [(0, .partialSig [2, 7], [0x30, 7, 7, 9, 1, 1])]) := by rfl
  exact added_sigs_valid toyOps toy_orderLaws toyValid toyEv toySv toy_sigLaws _ _ _ _ _ _ h 0 toyIn _ rfl rfl
    toy_keysValid (.partialSig [2, 7]) _ (by decide +kernel) (by decide +kernel)

end Embit.Props.C02X
