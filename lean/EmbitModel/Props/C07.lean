import EmbitModel.Proofs.Sign
import EmbitModel.Proofs.Flip
import EmbitModel.Proofs.SchnorrBinding
import EmbitModel.Proofs.ToyCurve
/-
  C07 — ECDSA and Schnorr signatures are valid, canonical and deterministic.
  Property theorems only. `Model.Der` / `Model.PySecp` model embit's pure-python signer, verifier and DER codec and
  `ec.py`'s grinding loop (tied to /repo by the correspondence check, under both backends); `Spec.Der` is BIP66 / X.690,
  `Spec.Rfc6979` is RFC 6979 §3.2. Curve and hash operations are arbitrary (`EcOps`, `HashOps`); where group structure
  is needed it is the explicit hypothesis `EcLaws E`.
-/
namespace Embit.Props.C07
open Embit Embit.Model Embit.Model.Der Embit.Model.PySecp

variable (E : EcOps) (H : HashOps)

/-! ### canonical encoding: strict DER -/

/-- parse ∘ serialise is the identity on every in-range pair (any group order up to 2^256, with or without the
    low-S rule) -/
theorem der_roundtrip (n : Nat) (lowS : Bool) (r s : Nat) (hn : n ≤ 2 ^ 256)
    (hr : 1 ≤ r ∧ r < n) (hs : 1 ≤ s ∧ s < n) (hlow : lowS = true → s ≤ n / 2) :
    Der.parse n lowS (serRS r s) = some (r, s) :=
  parse_serRS n lowS r s hn ((rangeOk_iff n lowS r s).mpr ⟨hr.1, hr.2, hs.1, hs.2, hlow⟩)

/-- anything the parser accepts is THE encoding of the pair it returns: one pair, one byte string. Any altered
    encoding that still parses therefore denotes a different `(r, s)`. -/
theorem der_strict (n : Nat) (lowS : Bool) (b : Bytes) (r s : Nat) (h : Der.parse n lowS b = some (r, s)) :
    b = serRS r s := (parse_strict n lowS b r s h).1

theorem der_unique (n : Nat) (lowS : Bool) (b b' : Bytes) (r s : Nat)
    (h : Der.parse n lowS b = some (r, s)) (h' : Der.parse n lowS b' = some (r, s)) : b = b' := by
  rw [der_strict n lowS b r s h, der_strict n lowS b' r s h']

/-- what is accepted is in range and (with the low-S rule) low -/
theorem der_range (n : Nat) (lowS : Bool) (b : Bytes) (r s : Nat) (h : Der.parse n lowS b = some (r, s)) :
    1 ≤ r ∧ r < n ∧ 1 ≤ s ∧ s < n ∧ (lowS = true → s ≤ n / 2) :=
  (rangeOk_iff n lowS r s).mp (parse_strict n lowS b r s h).2

/-- the structural parser accepts exactly BIP66: 0x30 L 0x02 Lr R 0x02 Ls S with R, S shortest non-negative
    two's-complement INTEGER contents of at most 33 octets -/
theorem der_accepts_iff_bip66 (b : Bytes) (r s : Nat) :
    parseRS b = some (r, s) ↔
      ∃ x y, Spec.Der.IsDerInt x r ∧ Spec.Der.IsDerInt y s ∧ x.length ≤ 33 ∧ y.length ≤ 33 ∧
        b = 0x30 :: UInt8.ofNat (4 + x.length + y.length) :: 0x02 :: UInt8.ofNat x.length ::
              (x ++ 0x02 :: UInt8.ofNat y.length :: y) := parseRS_iff b r s

/-- the serialiser produces a BIP66 encoding -/
theorem ser_is_bip66 (r s : Nat) (hr : r < 2 ^ 256) (hs : s < 2 ^ 256) : Spec.Der.IsDerSig (serRS r s) r s :=
  serRS_isDerSig r s hr hs

/-- the encoded integer is the only DER INTEGER content of its value -/
theorem derInt_unique (x : Bytes) (v : Nat) : Spec.Der.IsDerInt x v ↔ x = derInt v :=
  ⟨isDer_unique x v, fun h => h ▸ derInt_isDer v⟩

/-! ### lengths -/

theorem der_len (r s : Nat) : (serRS r s).length = 6 + (derInt r).length + (derInt s).length := serRS_length r s

/-- an integer takes at most `k` octets exactly when it is below `2^(8k-1)` -/
theorem derInt_len_le_iff (v k : Nat) (hk : 1 ≤ k) : (derInt v).length ≤ k ↔ v < 2 ^ (8 * k - 1) :=
  derInt_length_le_iff v k hk

/-- `≤ 70` bytes when both numbers are below 2^255 — and a 32-octet `s` with a 33-octet `r` gives 71 -/
theorem der_len_le_70 (r s : Nat) (hr : r < 2 ^ 255) (hs : s < 2 ^ 255) : (serRS r s).length ≤ 70 := by
  rw [der_len]
  have := (derInt_length_le_iff r 32 (by decide)).mpr (by simpa using hr)
  have := (derInt_length_le_iff s 32 (by decide)).mpr (by simpa using hs)
  omega

theorem der_len_gt_70 (r s : Nat) (hr : 2 ^ 255 ≤ r) (hs : 2 ^ 247 ≤ s) : (serRS r s).length > 70 := by
  rw [der_len]
  have h1 : ¬ (derInt r).length ≤ 32 := by
    rw [derInt_length_le_iff r 32 (by decide)]; simpa using hr
  have h2 : ¬ (derInt s).length ≤ 31 := by
    rw [derInt_length_le_iff s 31 (by decide)]; simpa using hs
  omega

theorem der_len_le_72 (r s : Nat) (hr : r < 2 ^ 256) (hs : s < 2 ^ 256) : (serRS r s).length ≤ 72 := by
  rw [der_len]
  have := derInt_length_le_33 r hr
  have := derInt_length_le_33 s hs
  omega

/-- a low-S signature over a group of at most 256 bits never exceeds 71 bytes -/
theorem der_len_le_71_lowS (n r s : Nat) (hn : n < 2 ^ 256) (hr : r < n) (hs : s ≤ n / 2) :
    (serRS r s).length ≤ 71 := by
  rw [der_len]
  have := derInt_length_le_33 r (by omega)
  have hs' : s < 2 ^ 255 := by omega
  have := (derInt_length_le_iff s 32 (by decide)).mpr (by simpa using hs')
  omega

/-! ### Signature objects survive serialise / parse (64-byte structure ↔ DER) -/

theorem sig_parse_then_serialize (hn : E.n ≤ 2 ^ 256) (der sig : Bytes)
    (h : ecdsaSignatureParseDer E der = some sig) : ecdsaSignatureSerializeDer sig = some der := by
  unfold ecdsaSignatureParseDer at h
  split at h
  · cases h
  · rename_i r s hp
    cases h
    have hr := der_range E.n true der r s hp
    rw [serializeDer_struct r s (by omega) (by omega), der_strict E.n true der r s hp]

theorem sig_serialize_then_parse (hn : E.n ≤ 2 ^ 256) (sig : Bytes) (hl : sig.length = 64)
    (hr : 1 ≤ ofLe (sig.take 32) ∧ ofLe (sig.take 32) < E.n)
    (hs : 1 ≤ ofLe (sig.drop 32) ∧ ofLe (sig.drop 32) ≤ E.n / 2) :
    (ecdsaSignatureSerializeDer sig).bind (ecdsaSignatureParseDer E) = some sig := by
  unfold ecdsaSignatureSerializeDer
  simp only [hl, ne_eq, not_true_eq_false, if_false, Option.bind_some]
  unfold ecdsaSignatureParseDer
  rw [der_roundtrip E.n true _ _ hn hr ⟨hs.1, by omega⟩ (fun _ => hs.2)]
  simp only [Option.some.injEq]
  exact struct_eta sig hl

/-! ### the signer's output is canonical -/

/-- `ecdsa_sign` only ever returns an in-range, low-S pair, whose DER encoding has at most 71 bytes -/
theorem sign_lowS (hn : E.n < 2 ^ 256) (fuel : Nat) (msg secret : Bytes) (extra : Option Bytes) (sig : Bytes)
    (h : ecdsaSign E H fuel msg secret extra = some sig) :
    ∃ r s, sig = leN 32 r ++ leN 32 s ∧ 1 ≤ r ∧ r < E.n ∧ 1 ≤ s ∧ s ≤ E.n / 2 ∧
      ecdsaSignatureSerializeDer sig = some (serRS r s) ∧ (serRS r s).length ≤ 71 := by
  obtain ⟨_, _, _, k, r, s, _, _, hok, rfl⟩ := ecdsaSign_inv E H (by omega) fuel msg secret extra sig h
  have hr := (rangeOk_iff E.n true r s).mp hok
  refine ⟨r, s, rfl, hr.1, hr.2.1, hr.2.2.1, hr.2.2.2.2 rfl, ?_, ?_⟩
  · exact serializeDer_struct r s (by omega) (by omega)
  · exact der_len_le_71_lowS E.n r s hn hr.2.1 (hr.2.2.2.2 rfl)

/-- deterministic: for 32-byte arguments the signature is a function of the integers `(d, z)` and the extra data
    only — the nonce comes from `deterministic_k`, nothing else enters -/
theorem sign_deterministic (fuel : Nat) (msg msg' secret secret' : Bytes) (extra : Option Bytes)
    (h1 : msg.length = 32) (h2 : msg'.length = 32) (h3 : secret.length = 32) (h4 : secret'.length = 32)
    (hz : ofBe msg = ofBe msg') (hd : ofBe secret = ofBe secret') :
    ecdsaSign E H fuel msg secret extra = ecdsaSign E H fuel msg' secret' extra := by
  have e1 : msg = msg' := by rw [← beN_ofBe msg, ← beN_ofBe msg', h1, h2, hz]
  have e2 : secret = secret' := by rw [← beN_ofBe secret, ← beN_ofBe secret', h3, h4, hd]
  rw [e1, e2]

/-! ### grinding (`PrivateKey.sign`) -/

/-- the loop makes at most 200 further signing attempts -/
theorem grind_terminates_le_200 (sign : Option Bytes → Option Bytes) (grind : Bool) (res : Bytes) (c : Nat)
    (h : privateKeySign sign grind = some (res, c)) : c ≤ 200 := by
  unfold privateKeySign at h
  split at h
  · cases h
  · rename_i sig hsig
    split at h
    · exact (grindLoop_spec sign 200 1 sig res c (by omega) (by omega) h).1
    · cases h; omega

/-- what comes back: the plain RFC 6979 signature (no attempt) or the one made with the attempt counter as
    32-byte little-endian extra data; with grinding it is at most 70 bytes of DER unless all 200 attempts were used -/
theorem grind_result (sign : Option Bytes → Option Bytes) (grind : Bool) (res : Bytes) (c : Nat)
    (h : privateKeySign sign grind = some (res, c)) :
    (c = 0 → sign none = some res) ∧ (0 < c → sign (some (leN 32 c)) = some res) ∧
    (grind = true → c = 200 ∨ ∃ der, ecdsaSignatureSerializeDer res = some der ∧ der.length ≤ 70) := by
  unfold privateKeySign at h
  split at h
  · cases h
  · rename_i sig hsig
    split at h
    · rename_i hg
      obtain ⟨_, _, hshort, hinit, hattempt⟩ := grindLoop_spec sign 200 1 sig res c (by omega) (by omega) h
      refine ⟨fun h0 => ?_, fun hpos => hattempt (by omega), fun _ => hshort⟩
      rw [hinit (by omega)]; exact hsig
    · rename_i hg
      cases h
      exact ⟨fun _ => hsig, fun h => by omega, fun h => absurd h hg⟩

/-! ### validity (relative to the group laws) -/

/-- ECDSA correctness at the level of key.py: the pair made by `sign_ecdsa` from ANY nonce `0 < k < n`, after the
    low-S normalisation, passes `verify_ecdsa` with the low-S rule under the key `dG` -/
theorem ecdsa_correct_key (L : EcLaws E) (hn : E.n ≤ 2 ^ 256) (d z k r s : Nat) (hk : 0 < k ∧ k < E.n)
    (h : signRS E d z k = some (r, s)) (hr : r ≠ 0) (hs : s ≠ 0) (msg : Bytes) (hz : ofBe msg = z) :
    verifyEcdsaKey E (E.mul d E.g) (serRS r s) msg true = true :=
  verify_signRS L hn d z k r s hk h hr hs msg hz

/-- ECDSA correctness at the level of the bindings: whatever `ecdsa_sign(msg, secret, None, extra)` returns
    verifies with `ecdsa_verify` under `ec_pubkey_create(secret)` — for every message, key, extra data
    (hence also for every grinding attempt) -/
theorem ecdsa_correct (L : EcLaws E) (hn : E.n ≤ 2 ^ 256) (hp : E.p ≤ 2 ^ 256) (fuel : Nat)
    (msg secret : Bytes) (extra : Option Bytes) (sig pub : Bytes)
    (hs : ecdsaSign E H fuel msg secret extra = some sig) (hpub : ecPubkeyCreate E secret = some pub) :
    ecdsaVerify E sig msg pub = some true :=
  ecdsa_sign_verify E L H hn hp fuel msg secret extra sig pub hs hpub

/-- … in particular for the result of `PrivateKey.sign` with or without grinding -/
theorem private_key_sign_verifies (L : EcLaws E) (hn : E.n ≤ 2 ^ 256) (hp : E.p ≤ 2 ^ 256) (fuel : Nat)
    (msg secret : Bytes) (grind : Bool) (res pub : Bytes) (c : Nat)
    (h : privateKeySign (fun ex => ecdsaSign E H fuel msg secret ex) grind = some (res, c))
    (hpub : ecPubkeyCreate E secret = some pub) : ecdsaVerify E res msg pub = some true := by
  obtain ⟨h0, hpos, _⟩ := grind_result _ grind res c h
  rcases Nat.eq_zero_or_pos c with hc | hc
  · exact ecdsa_correct E H L hn hp fuel msg secret none res pub (h0 hc) hpub
  · exact ecdsa_correct E H L hn hp fuel msg secret _ res pub (hpos hc) hpub

/-- BIP340 correctness: what `sign_schnorr(key, msg, aux)` returns passes `verify_schnorr` under the x-only key of
    `key·G` -/
theorem schnorr_correct (L : EcLaws E) (hp : E.p ≤ 2 ^ 256) (hn : E.n ≤ 2 ^ 256) (key msg : Bytes)
    (aux : Option Bytes) (sig : Bytes) (h : signSchnorr E H key msg aux = some sig) :
    ∃ px py, E.xy (E.mul (ofBe key) E.g) = some (px, py) ∧ verifySchnorr E H (beN 32 px) sig msg = some true :=
  verify_signSchnorr L H hp hn key msg aux sig h

/-- BIP340 correctness at the level of the bindings: `schnorrsig_sign(msg, secret, None, aux)` verifies with
    `schnorrsig_verify` under `xonly_pubkey_from_pubkey(ec_pubkey_create(secret))` — the path of
    `PrivateKey.schnorr_sign` / `PublicKey.schnorr_verify` -/
theorem schnorr_correct_binding (L : EcLaws E) (hp : E.p ≤ 2 ^ 256) (hn : E.n ≤ 2 ^ 256)
    (msg secret : Bytes) (aux : Option Bytes) (sig pub xo : Bytes) (par : Bool) (hlen : secret.length = 32)
    (hs : schnorrsigSign E H msg secret aux = some sig)
    (hpub : ecPubkeyCreate E secret = some pub) (hxo : xonlyPubkeyFromPubkey E pub = some (xo, par)) :
    schnorrsigVerify E H sig msg xo = some true :=
  schnorr_binding_correct E H L hp hn msg secret aux sig pub xo par hlen hs hpub hxo

/-! ### RFC 6979 -/

/-- the model nonce is libsecp256k1's `nonce_function_rfc6979` (raw message octets), for every input -/
theorem nonce_eq_libsecp (fuel n d z : Nat) (extra : Option Bytes) :
    deterministicK H fuel n d z extra = Spec.Rfc6979.nonceRaw H.hmac256 fuel n d (beN 32 z) extra :=
  deterministicK_eq_raw H fuel n d z extra

/-- … and the RFC 6979 nonce whenever the message value is below the group order -/
theorem rfc6979_eq_spec_partial (fuel n d z : Nat) (extra : Option Bytes) (hz : z < n) (hn : n ≤ 2 ^ 256) :
    deterministicK H fuel n d z extra = Spec.Rfc6979.nonce H.hmac256 fuel n d (beN 32 z) extra :=
  deterministicK_eq_rfc H fuel n d z extra hz hn

/-- a toy HMAC for the witness below -/
def toyH : HashOps where
  sha256 := id
  hmac256 := fun k m => beN 32 ((ofBe k + ofBe m) % 250 + 1)

/-- witness (known finding C07-KF1): for a message value ≥ n the nonce differs from RFC 6979 proper
    (group order 251, message 252 ≡ 1) -/
theorem rfc6979_differs_ge_n :
    deterministicK toyH 4 251 1 252 none ≠ Spec.Rfc6979.nonce toyH.hmac256 4 251 1 (beN 32 252) none := by
  decide +kernel

/-- the nonce is a valid ephemeral key -/
theorem nonce_range (fuel n d z : Nat) (extra : Option Bytes) (k : Nat)
    (h : deterministicK H fuel n d z extra = some k) : 1 ≤ k ∧ k < n :=
  deterministicK_range H fuel n d z extra k h

/-! ### the defects that were repaired (theorems about the old code) -/

/-- D11: before fix 06 the range test treated `s = (n-1)/2` as high; the fixed one accepts it (n = 251, s = 125) -/
theorem lowS_boundary_legacy_witness :
    Legacy.rangeOk 251 true 1 125 = false ∧ rangeOk 251 true 1 125 = true ∧ rangeOk 251 true 1 126 = false := by
  decide

/-- D12: before fix 07 `deterministic_k` reduced `z > n` (and did not reduce `z = n`) -/
theorem reduceZ_legacy_witness : Legacy.reduceZ 251 252 = 1 ∧ Legacy.reduceZ 251 251 = 251 := by decide

/-! ### altered signatures -/

/-- **every alteration of `s` is rejected**: if only `±R` have an x coordinate in the class of `r` (`xUniqueAt`; on
    secp256k1 this can fail only for x(R) < p − n, probability ≈ 2^-128), then for every other value `s'` a 64-byte
    structure can hold the verifier (with the low-S rule) says no — the only other solution of the verification
    equation is `n − s`, which is high -/
theorem flip_s_rejected (L : EcLaws E) (hn : E.n ≤ 2 ^ 256) (hodd : E.n % 2 = 1) (d z k r s : Nat)
    (hk : 0 < k ∧ k < E.n) (h : signRS E d z k = some (r, s)) (hr : r ≠ 0) (hs : s ≠ 0)
    (huniq : xUniqueAt E (E.mul k E.g) r) (msg : Bytes) (hz : ofBe msg = z)
    (s' : Nat) (hs' : s' < 2 ^ 256) (hne : s' ≠ s) :
    verifyEcdsaKey E (E.mul d E.g) (serRS r s') msg true = false :=
  flip_s L hn hodd d z k r s hk h hr hs huniq msg hz s' hs' hne

/-- why known finding C07-KF2 is not a defect of embit: for a message value that is 0 modulo n the negated key
    verifies exactly the same signatures, under any verifier that implements ECDSA -/
theorem neg_key_verifies_z0 (L : EcLaws E) (d : Nat) (hd : d ≤ E.n) (der msg : Bytes) (lowS : Bool)
    (hz : ofBe msg % E.n = 0) :
    verifyEcdsaKey E (E.neg (E.mul d E.g)) der msg lowS = verifyEcdsaKey E (E.mul d E.g) der msg lowS :=
  neg_key_z0 L d hd der msg lowS hz


/-! ### non-vacuity -/

/-- the law hypothesis is satisfiable: `y² = x³ + 7` over 𝔽₄₃ (a cyclic group of prime order 31) satisfies it -/
example : EcLaws toyCurve := toyCurve_laws
/-- a signature on that curve, made and verified by the model (key 5, message 9, nonce 3) -/
example : signRS toyCurve 5 9 3 = some (4, 11) ∧
    verifyEcdsaKey toyCurve (toyCurve.mul 5 toyCurve.g) (serRS 4 11) (beN 32 9) true = true ∧
    verifyEcdsaKey toyCurve (toyCurve.mul 5 toyCurve.g) (serRS 4 20) (beN 32 9) true = false ∧
    verifyEcdsaKey toyCurve (toyCurve.mul 5 toyCurve.g) (serRS 4 20) (beN 32 9) false = true := by decide +kernel
/-- `xUniqueAt` holds there for the nonce point 3G = (35, 21): r = 35 mod 31 = 4 and no other x is ≡ 4 -/
example : xUniqueAt toyCurve (toyCurve.mul 3 toyCurve.g) 4 := by
  intro Q x y hxy hx
  have H := forallPts_spec (fun Q x _ => decide (x % 31 = 4 → (Q = 3 ∨ Q = 28))) (by decide +kernel) Q x y hxy
  simp only [decide_eq_true_eq] at H
  exact H hx

example : Der.parse 251 true (serRS 17 100) = some (17, 100) := by decide
example : serRS 17 200 = [0x30, 0x07, 0x02, 0x01, 17, 0x02, 0x02, 0x00, 200] := by decide
example : parseRS [0x30, 0x07, 0x02, 0x01, 17, 0x02, 0x02, 0x00, 200] = some (17, 200) := by decide
example : parseRS [0x30, 0x07, 0x02, 0x02, 0x00, 17, 0x02, 0x01, 100] = none := by decide   -- padded r
example : Spec.Der.encode 17 200 = serRS 17 200 := by decide
/-- a grinding run that needs two attempts (toy signer: the attempt counter decides the length) -/
example :
    privateKeySign (fun ex => match ex with
      | none => some (leN 32 (2 ^ 255) ++ leN 32 (2 ^ 254))
      | some e => if ofLe e < 2 then some (leN 32 (2 ^ 255 + 1) ++ leN 32 (2 ^ 254)) else some (leN 32 5 ++ leN 32 7)) true
      = some (leN 32 5 ++ leN 32 7, 2) := by decide +kernel

end Embit.Props.C07
