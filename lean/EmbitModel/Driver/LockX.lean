import EmbitModel.Model.LockCtx
import EmbitModel.Driver.Lock
/-
  Line protocol for C20, the machine with context contents (Model/LockCtx.lean).
    lockctx.run THREADS SCHED   -> ok done;serial;v,v,…|…    same request and answer format as `lock.run`; the programs
                                   are compiled with `progsOfC` (natives whose symbol is a context writer rewrite the
                                   context), run with `crun`
    lockctx.writers             -> ok name,name,…            probed functions that write the library context
-/
namespace Embit.Driver
open Embit.Model.Lock Embit.Model.LockCtx Embit.Gen.Binding

def handleLockX (op : String) (args : List String) : Option String :=
  match op, args with
  | "lockctx.writers", [] =>
    some ("ok " ++ ",".intercalate ((bindingFns.filter (fun f => stepsWriteCtx f.steps)).map (·.name)))
  | "lockctx.run", [threads, sched] =>
    match (threads.splitOn "|").mapM parseThread, (splitNonEmpty sched ",").mapM String.toNat? with
    | some ths, some sc =>
      let progs := progsOfC ths
      let s := crun sc (cinit progs)
      let per := (List.range ths.length).map (fun t =>
        let done := if (s.rest t).isEmpty then "1" else "0"
        let pre := (progs t).take ((progs t).length - (s.rest t).length)
        let serial := if s.res t == csolo pre then "1" else "0"
        done ++ ";" ++ serial ++ ";" ++ showVals (s.res t))
      some ("ok " ++ "|".intercalate per ++ (if s.ctxA == s.ctxB then "" else "|torn"))
    | _, _ => some "none"
  | _, _ => none

end Embit.Driver
