import EmbitModel.Driver.Tx
import EmbitModel.Model.Sighash
import EmbitModel.Spec.Consensus
namespace Embit.Driver
open Embit

def showOptDigest : Option Bytes → String
  | some d => "ok " ++ toHexP d
  | none => "none"

structure TapArgs where
  t : Tx
  idx : Nat
  spks : List Bytes
  values : List Nat
  f : Nat
  extFlag : Nat
  annex : Option Bytes
  script : Option Bytes
  leafVer : Nat
  codesep : Option Nat

def tokTapArgs : TokM TapArgs := do
  let t ← tokTx
  let idx ← tokNat
  let spks ← tokCounted tokBytes
  let values ← tokCounted tokNat
  let f ← tokNat
  let extFlag ← tokNat
  let annex ← tokOptBytes
  let script ← tokOptBytes
  let leafVer ← tokNat
  let codesep ← tokOptNat
  pure { t, idx, spks, values, f, extFlag, annex, script, leafVer, codesep }

def handleSighash (op : String) (args : List String) : Option String :=
  let sha := Crypto.sha256
  match op with
  | "sighash.legacy" => do
    let (t, idx, sc, f) ← runTok (do
      let t ← tokTx; let i ← tokNat; let s ← tokBytes; let f ← tokNat; pure (t, i, s, f)) args
    pure (showOptDigest (Model.sighashLegacy sha t idx sc f))
  | "sighash.legacy.spec" => do
    let (t, idx, sc, f) ← runTok (do
      let t ← tokTx; let i ← tokNat; let s ← tokBytes; let f ← tokNat; pure (t, i, s, f)) args
    if Spec.Consensus.validFlag f && idx < t.vin.length then
      pure ("ok " ++ toHexP (Spec.Consensus.legacy sha t idx sc f))
    else pure "undefined"
  | "sighash.segwit" => do
    let (t, idx, sc, v, f) ← runTok (do
      let t ← tokTx; let i ← tokNat; let s ← tokBytes; let v ← tokNat; let f ← tokNat
      pure (t, i, s, v, f)) args
    pure (showOptDigest (Model.sighashSegwit sha t idx sc v f))
  | "sighash.segwit.spec" => do
    let (t, idx, sc, v, f) ← runTok (do
      let t ← tokTx; let i ← tokNat; let s ← tokBytes; let v ← tokNat; let f ← tokNat
      pure (t, i, s, v, f)) args
    match t.vin[idx]? with
    | some inp =>
      if Spec.Consensus.validFlag f then
        pure ("ok " ++ toHexP (Spec.Consensus.bip143 sha t idx inp sc v f))
      else pure "undefined"
    | none => pure "undefined"
  | "sighash.taproot" => do
    let a ← runTok tokTapArgs args
    pure (showOptDigest (Model.sighashTaproot sha a.t a.idx a.spks a.values a.f a.extFlag a.annex
      a.script a.leafVer a.codesep))
  | "sighash.taproot.spec" => do
    let a ← runTok tokTapArgs args
    -- the spec has no free ext_flag: it is 1 exactly on the script path
    if a.extFlag ≠ (if a.script.isSome then 1 else 0) then pure "undefined" else
    let leaf : Option Spec.Consensus.Leaf := a.script.map fun s =>
      { script := s, version := a.leafVer, codesepPos := a.codesep.getD 0xffffffff }
    pure (showOptDigest (Spec.Consensus.bip341 sha a.t a.idx a.spks a.values a.f a.annex leaf))
  | _ => none

end Embit.Driver
