import EmbitModel.Driver.Slip39
import EmbitModel.Spec.Slip39Groups
/-
  Line-protocol op for the C16 deepening: the standard's two-level combination on mnemonics
  (`decodeShare` on each word sequence, then `combineShares`).
-/
namespace Embit.Driver
open Embit Embit.Crypto

open S39 in
def handleSlip39X (op : String) (args : List String) : Option String :=
  match op with
  | "slip39.combine.spec" => do
    let (P, pass, ms) ← runTok (do
      let P ← tokPrims; let pw ← tokBytes; let m ← tokCounted (tokCounted tokNat); pure (P, pw, m)) args
    match Spec.Slip39.mapOpt Spec.Slip39.decodeShare ms with
    | none => pure "none"
    | some fields =>
      match Spec.Slip39.combineShares (specPrims P) fields pass with
      | some s => pure ("ok " ++ toHexP s)
      | none => pure "none"
  | "slip39.validset.spec" => do
    let ms ← runTok (tokCounted (tokCounted tokNat)) args
    match Spec.Slip39.mapOpt Spec.Slip39.decodeShare ms with
    | none => pure "none"
    | some fields => pure ("ok " ++ (if Spec.Slip39.validSet fields then "1" else "0"))
  | _ => none

end Embit.Driver
