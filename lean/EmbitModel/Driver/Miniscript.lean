import EmbitModel.Driver.Proto
import EmbitModel.Model.Miniscript
import EmbitModel.Spec.MiniscriptSpec
/-
  Line protocol for C13. Expression trees are sent as prefix tokens:
    pk_k|pk_h|pk|pkh HEX · older|after N · sha256|hash256|ripemd160|hash160 HEX · andor X Y Z ·
    and_v|and_b|and_n|or_b|or_c|or_d|or_i X Y · thresh K N X1 … XN ·
    multi|sortedmulti|multi_a|sortedmulti_a K N HEX1 … HEXN · a:|s:|c:|t:|d:|v:|j:|n:|l:|u: X
  Context token: `wsh` or `tap`.
-/
namespace Embit.Driver
open Embit Embit.Miniscript

def keyFrag? : String → Option KeyFrag
  | "pk_k" => some .pk_k | "pk_h" => some .pk_h | "pk" => some .pk | "pkh" => some .pkh | _ => none
def timeFrag? : String → Option TimeFrag
  | "older" => some .older | "after" => some .after | _ => none
def hashFrag? : String → Option HashFrag
  | "sha256" => some .sha256 | "hash256" => some .hash256 | "ripemd160" => some .ripemd160
  | "hash160" => some .hash160 | _ => none
def binFrag? : String → Option BinFrag
  | "and_v" => some .and_v | "and_b" => some .and_b | "and_n" => some .and_n | "or_b" => some .or_b
  | "or_c" => some .or_c | "or_d" => some .or_d | "or_i" => some .or_i | _ => none
def multiFrag? : String → Option MultiFrag
  | "multi" => some .multi | "sortedmulti" => some .sortedmulti | "multi_a" => some .multi_a
  | "sortedmulti_a" => some .sortedmulti_a | _ => none
def wrap? : String → Option Wrap
  | "a:" => some .a | "s:" => some .s | "c:" => some .c | "t:" => some .t | "d:" => some .d
  | "v:" => some .v | "j:" => some .j | "n:" => some .n | "l:" => some .l | "u:" => some .u | _ => none

partial def tokMs : TokM Ms := do
  let t ← tok
  if let some f := keyFrag? t then
    let a ← tokBytes
    return .key f a
  if let some f := timeFrag? t then
    let n ← tokNat
    return .time f n
  if let some f := hashFrag? t then
    let h ← tokBytes
    return .hash f h
  if t == "andor" then
    let x ← tokMs
    let y ← tokMs
    let z ← tokMs
    return .andor x y z
  if let some f := binFrag? t then
    let x ← tokMs
    let y ← tokMs
    return .bin f x y
  if t == "thresh" then
    let k ← tokNat
    let xs ← tokCounted tokMs
    return .thresh k xs
  if let some f := multiFrag? t then
    let k ← tokNat
    let keys ← tokCounted tokBytes
    return .multi f k keys
  if let some w := wrap? t then
    let x ← tokMs
    return .wrap w x
  failure

def tokCtx : TokM Ctx := do
  let t ← tok
  if t == "wsh" then pure .wsh else if t == "tap" then pure .tap else failure

def showTy : Ty → String
  | .B => "B" | .V => "V" | .K => "K" | .W => "W"

def showProps (p : Props) : String :=
  let s := (if p.z then "z" else "") ++ (if p.o then "o" else "") ++ (if p.n then "n" else "")
    ++ (if p.d then "d" else "") ++ (if p.u then "u" else "")
  if s.isEmpty then "-" else s

def showBool (b : Bool) : String := if b then "1" else "0"

def handleMiniscript (op : String) (args : List String) : Option String :=
  match op with
  | "ms.verify" => do
    let (ctx, e) ← runTok (do let c ← tokCtx; let e ← tokMs; pure (c, e)) args
    if !Model.Miniscript.constructible ctx e then pure "none" else
    pure (joinToks ["ok", showTy (Model.Miniscript.type e), showProps (Model.Miniscript.props ctx e),
      showBool (Model.Miniscript.verify ctx e), showBool (Model.Miniscript.accepts ctx e)])
  | "ms.spec" => do
    let (ctx, e) ← runTok (do let c ← tokCtx; let e ← tokMs; pure (c, e)) args
    match Spec.Miniscript.typeOf ctx (Spec.Miniscript.desugar e) with
    | some (t, p) => pure (joinToks ["ok", showTy t, showProps p])
    | none => pure "none"
  | "ms.welltyped" => do
    let (ctx, e) ← runTok (do let c ← tokCtx; let e ← tokMs; pure (c, e)) args
    pure ("ok " ++ showBool (Spec.Miniscript.wellTyped ctx e))
  | "ms.compile" => do
    let e ← runTok tokMs args
    pure ("ok " ++ toHexP (Model.Miniscript.compile e))
  | "ms.len" => do
    let e ← runTok tokMs args
    pure ("ok " ++ toString (Model.Miniscript.len e))
  | "ms.script" => do
    let e ← runTok tokMs args
    pure ("ok " ++ toHexP (Spec.Miniscript.scriptBytes e))
  | "ms.speclen" => do
    let e ← runTok tokMs args
    pure ("ok " ++ toString (Spec.Miniscript.scriptBytes e).length)
  | "ms.num" => do
    let n ← runTok tokNat args
    pure (joinToks ["ok", toHexP (Model.Miniscript.numCompile n), toHexP (Spec.Miniscript.pushNum n)])
  | _ => none

end Embit.Driver
