import EmbitModel.Driver.Proto
import EmbitModel.Driver.Miniscript
import EmbitModel.Model.DescKeys
import EmbitModel.Model.Owns
import EmbitModel.Spec.DescriptorSpec
/-
  Line protocol for C12 / C14. Descriptor text travels as the hex of its ASCII bytes.
    dk.pub SECRET · dk.xkey TEXT PATHLEN IDX… · dk.wif TEXT · dk.tweak SECHEX HHEX      (validation of Model/DescKeys)
    desc.parse TEXT · desc.script TEXT I B|None · desc.derive TEXT I B|None · desc.public TEXT · desc.branch TEXT B|None
    desc.checksum TEXT · desc.addchecksum TEXT · spec.checksum TEXT · spec.check BODY CS
    desc.specscript TEXT I B · spec.script FORM…            (FORM: prefix tokens, keys as bytes; see `tokSExpr`)
    desc.owns TEXT SPK|None N (FP LEN IDX…)×N M (FP LEN IDX…)×M · desc.checkder TEXT FP LEN IDX…
-/
namespace Embit.Driver
open Embit Embit.Miniscript Embit.Model.Descriptor

def bytesToStr (b : Bytes) : Str := b.map fun x => Char.ofNat x.toNat
def strToBytes (s : Str) : Bytes := s.map fun c => UInt8.ofNat c.toNat

def tokText : TokM Str := do
  let b ← tokBytes
  pure (bytesToStr b)

def showText (s : Str) : String := toHexP (strToBytes s)

def cops := Concrete.ops
def chash := Concrete.hashes

/-- x-only of `lift_x(x) + t·G` -/
def tweakAdd (x t : Bytes) : Option Bytes :=
  let tn := ofBe t
  if tn = 0 || tn ≥ Concrete.N then none else
  match Crypto.Secp.liftX (ofBe x) false with
  | none => none
  | some pt => (Concrete.addMulG pt tn).map fun q => beN 32 q.1

def showOptOptBytes : Option (Option Bytes) → String
  | some (some b) => toHexP b
  | some none => "None"
  | none => "raise"

def tokRec : TokM DerivRec := do
  let fp ← tokBytes
  let p ← tokCounted tokNat
  pure ⟨fp, p⟩

partial def tokSTree : TokM Spec.Descriptor.STree := do
  let t ← tok
  if t == "leaf" then
    let e ← tokMs
    pure (.leaf (Spec.Miniscript.scriptBytes e))
  else if t == "node" then
    let l ← tokSTree
    let r ← tokSTree
    pure (.node l r)
  else failure

partial def tokSExpr : TokM Spec.Descriptor.SExpr := do
  let t ← tok
  if t == "pkh" then return .pkh (← tokBytes)
  if t == "wpkh" then return .wpkh (← tokBytes)
  if t == "ms" then return .ms (← tokMs)
  if t == "sh" then return .sh (← tokSExpr)
  if t == "wsh" then return .wsh (← tokSExpr)
  if t == "tr" then
    let x ← tokBytes
    let k ← tok
    if k == "none" then return .tr x none
    if k == "tree" then return .tr x (some (← tokSTree))
    failure
  failure

def handleDescriptor (op : String) (args : List String) : Option String :=
  match op with
  | "dk.pub" => do
    let k ← runTok tokNat args
    pure ("ok " ++ toHexP (Crypto.Secp.secCompressed (Concrete.mulG k)))
  | "dk.xkey" => do
    let (t, path) ← runTok (do let t ← tokText; let p ← tokCounted tokNat; pure (t, p)) args
    match (Concrete.parseXkey t).bind fun k => Concrete.ckdPath k (path.map some) with
    | some k =>
      pure (joinToks ["ok", (k.text.map showText).getD "raise", toHexP k.sec,
        ((k.toPublic.bind Concrete.CKey.text).map showText).getD "raise"])
    | none => pure "none"
  | "dk.wif" => do
    let t ← runTok tokText args
    match Concrete.parseWif t with
    | some k => pure (joinToks ["ok", (k.text.map showText).getD "raise", toHexP k.sec])
    | none => pure "none"
  | "dk.tweak" => do
    let (s, h) ← runTok (do let a ← tokBytes; let b ← tokBytes; pure (a, b)) args
    match (Concrete.parseSec s).bind fun k => k.tweak h with
    | some x => pure ("ok " ++ toHexP x)
    | none => pure "none"
  | "desc.parse" => do
    let t ← runTok tokText args
    match (Desc.parse cops t).bind fun d => d.print cops with
    | some s => pure ("ok " ++ showText s)
    | none => pure "none"
  | "desc.script" => do
    let (t, i, b) ← runTok (do let t ← tokText; let i ← tokNat; let b ← tokOptNat; pure (t, i, b)) args
    match (Desc.parse cops t).bind fun d => d.derive cops chash i b with
    | some d =>
      (match d.scriptPubkey cops chash, d.redeemScript cops chash, d.witnessScript cops chash with
        | some spk, some r, some w => pure (joinToks ["ok", toHexP spk, showOptOptBytes (some r), showOptOptBytes (some w)])
        | _, _, _ => pure "none")
    | none => pure "none"
  | "desc.derive" => do
    let (t, i, b) ← runTok (do let t ← tokText; let i ← tokNat; let b ← tokOptNat; pure (t, i, b)) args
    match ((Desc.parse cops t).bind fun d => d.derive cops chash i b).bind fun d => d.print cops with
    | some s => pure ("ok " ++ showText s)
    | none => pure "none"
  | "desc.public" => do
    let t ← runTok tokText args
    match ((Desc.parse cops t).bind fun d => d.toPublic cops).bind fun d => d.print cops with
    | some s => pure ("ok " ++ showText s)
    | none => pure "none"
  | "desc.branch" => do
    let (t, b) ← runTok (do let t ← tokText; let b ← tokOptNat; pure (t, b)) args
    match ((Desc.parse cops t).bind fun d => d.branch b).bind fun d => d.print cops with
    | some s => pure ("ok " ++ showText s)
    | none => pure "none"
  | "desc.info" => do
    let t ← runTok tokText args
    match Desc.parse cops t with
    | some d =>
      pure (joinToks ["ok", toString d.keys.length, (d.numBranches.map toString).getD "raise",
        match d.spkType with
        | some .p2pkh => "p2pkh" | some .p2sh => "p2sh" | some .p2wpkh => "p2wpkh" | some .p2wsh => "p2wsh"
        | some .p2tr => "p2tr" | none => "None",
        ((d.scriptPubkey cops chash).map toHexP).getD "raise"])
    | none => pure "none"
  | "desc.checksum" => do
    let t ← runTok tokText args
    match checksum t with
    | some cs => pure ("ok " ++ showText cs)
    | none => pure "none"
  | "desc.addchecksum" => do
    let t ← runTok tokText args
    match addChecksum t with
    | some s => pure ("ok " ++ showText s)
    | none => pure "none"
  | "spec.checksum" => do
    let t ← runTok tokText args
    match Spec.Descriptor.descsumChecksum t with
    | some cs => pure ("ok " ++ showText cs)
    | none => pure "none"
  | "spec.check" => do
    let (b, cs) ← runTok (do let a ← tokText; let b ← tokText; pure (a, b)) args
    pure ("ok " ++ showBool (Spec.Descriptor.descsumCheck b cs))
  | "desc.specscript" => do
    let (t, i, b) ← runTok (do let t ← tokText; let i ← tokNat; let b ← tokNat; pure (t, i, b)) args
    match (Desc.parse cops t).bind fun d => Spec.Descriptor.scriptAt cops chash tweakAdd d i b with
    | some s => pure ("ok " ++ toHexP s)
    | none => pure "none"
  | "spec.script" => do
    let e ← runTok tokSExpr args
    match e.script chash tweakAdd with
    | some s => pure ("ok " ++ toHexP s)
    | none => pure "none"
  | "desc.owns" => do
    let (t, spk, ds, ts) ← runTok (do
      let t ← tokText; let spk ← tokOptBytes; let ds ← tokCounted tokRec; let ts ← tokCounted tokRec
      pure (t, spk, ds, ts)) args
    match (Desc.parse cops t).bind fun d => d.owns cops chash ⟨spk, ds, ts⟩ with
    | some r => pure ("ok " ++ showBool r)
    | none => pure "none"
  | "desc.checkder" => do
    let (t, r) ← runTok (do let t ← tokText; let r ← tokRec; pure (t, r)) args
    match Desc.parse cops t with
    | some d =>
      (match d.checkDerivation cops chash r with
        | some (i, b) => pure (joinToks ["ok", toString i, toString b])
        | none => pure "ok None")
    | none => pure "none"
  | _ => none

end Embit.Driver
