import EmbitModel.Driver.Proto
import EmbitModel.Model.Sign
namespace Embit.Driver
open Embit Embit.Model

def handleSign (op : String) (args : List String) : Option String :=
  match op with
  | "sign.policy" => do
    let (a, r, t) ← runTok (do let a ← tokOptNat; let r ← tokOptNat; let t ← tokNat; pure (a, r, t)) args
    match signPolicy a r (t != 0) with
    | some f => pure ("sign " ++ toString f)
    | none => pure "skip"
  | "sign.dispatch" => do
    let (spk, ws, rs, wu) ← runTok (do
      let s ← tokBytes; let w ← tokOptBytes; let r ← tokOptBytes; let u ← tokNat; pure (s, w, r, u)) args
    let (algo, sc) := sighashDispatch spk ws rs (wu != 0)
    let an := match algo with | .legacy => "legacy" | .segwit => "segwit" | .taproot => "taproot"
    pure (an ++ " " ++ toHexP sc)
  | _ => none

end Embit.Driver
