import EmbitModel.Driver.Keys
import EmbitModel.Spec.Bip32Path
/-
  Line-protocol ops for C09X: the BIP32 fold with the serialization bookkeeping (`Spec/Bip32Path.lean`) as an
  oracle for `HDKey.derive`.

    spec.derivenode prv <k32> <cc> <depth> <fp> <cn> <n> i1 … in   →  ok <k32> <cc> <depth> <fp> <cn> | none
    spec.derivenode pub <sec33> <cc> <depth> <fp> <cn> <n> i1 … in →  ok <sec33> <cc> <depth> <fp> <cn> | none
-/
namespace Embit.Driver.KeyDrvX
open Embit Embit.Keys Embit.Driver Embit.Driver.KeyDrv

def handle (op : String) (args : List String) : Option String :=
  match op with
  | "spec.derivenode" => do
    let (kind, rest) ← (match args with | k :: r => some (k, r) | [] => none)
    let env := keyEnv none none
    if kind == "prv" then
      let (k, c, d, fp, cn, p) ← runTok (do
        let k ← tokBytes; let c ← tokBytes; let d ← tokNat; let fp ← tokBytes; let cn ← tokNat
        let p ← tokCounted tokNat; pure (k, c, d, fp, cn, p)) rest
      match Spec.Bip32.deriveNodePrv secpOps env.hmac512 env.hash160 ⟨⟨ofBe k, c⟩, d, fp, cn⟩ p with
      | some r => pure ("ok " ++ joinToks [toHexP (beN 32 r.x.k), toHexP r.x.c, toString r.depth, toHexP r.parentFp,
          toString r.childNum])
      | none => pure "none"
    else if kind == "pub" then
      let (k, c, d, fp, cn, p) ← runTok (do
        let k ← tokPub; let c ← tokBytes; let d ← tokNat; let fp ← tokBytes; let cn ← tokNat
        let p ← tokCounted tokNat; pure (k, c, d, fp, cn, p)) rest
      match Spec.Bip32.deriveNodePub secpOps env.hmac512 env.hash160 ⟨⟨k.point, c⟩, d, fp, cn⟩ p with
      | some r => pure ("ok " ++ joinToks [toHexP (Spec.Bip32.serP secpOps r.x.K), toHexP r.x.c, toString r.depth,
          toHexP r.parentFp, toString r.childNum])
      | none => pure "none"
    else none
  | _ => none

end Embit.Driver.KeyDrvX

namespace Embit.Driver
def handleKeysX (op : String) (args : List String) : Option String := KeyDrvX.handle op args
end Embit.Driver
